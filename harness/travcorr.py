"""Correspondence and oracle for traversals (C20)."""
from . import coqterm as ct
from . import gen

HEADER = ('Require Import Cirbo.Model.Base Cirbo.Model.Gate Cirbo.Model.Circuit Cirbo.Model.Traverse '
          'Cirbo.Model.History Cirbo.Model.TravCases.')
CASE_TYPE = 'trav_case'


def call(fn, conv=lambda x: x):
    try:
        return ('ok', conv(fn()))
    except RecursionError:
        raise
    except Exception as e:  # noqa: BLE001
        return ('err', ct.err_name(e))


def run_traversal(c, mode, inverse, starts, tsu, probe=True):
    log = []
    st = lambda states, l: states[l].name if l in states else 'UNVISITED'

    def on_enter(g, s):
        log.append(('enter', g.label))
        if probe:
            # a realistic hook: look at the states of the neighbours by plain indexing (on a
            # defaultdict this creates entries; the traversal must not depend on that)
            for x in list(g.operands) + list(c.get_gate_users(g.label)):
                _ = s.get(x) if hasattr(s, 'get') else s[x]
                try:
                    _ = s[x]          # plain indexing too, when the mapping supports it for untouched gates
                except KeyError:
                    pass
    kw = dict(
        inverse=inverse,
        on_enter_hook=on_enter,
        on_discover_hook=lambda g, s: log.append(('discover', g.label, st(s, g.label))),
        unvisited_hook=lambda g, s: log.append(('unvisited', g.label)),
        on_traversal_end_hook=lambda s: log.append(('end',)),
        topsort_unvisited=tsu,
    )
    if mode == 'DFS':
        kw['on_exit_hook'] = lambda g, s: log.append(('exit', g.label))
        it = c.dfs(starts, **kw)
    else:
        it = c.bfs(starts, **kw)
    for g in it:
        log.append(('yield', g.label))
    return log


def deep_shared_circuit(rng, height):
    """a deep DAG with sharing across depths (two interleaved chains whose rungs also read gates far below):
    the DFS work list of such a circuit holds many pending and repeated labels"""
    order = [('a', 'INPUT', []), ('b', 'INPUT', [])]
    left, right = ['a'], ['b']
    for h in range(height):
        far_l = rng.choice(left[: max(1, len(left) // 2)])
        far_r = rng.choice(right[: max(1, len(right) // 2)])
        order.append((f'l{h}', rng.choice(['AND', 'OR', 'XOR']), [left[-1], right[-1], far_r]))
        order.append((f'r{h}', rng.choice(['AND', 'OR', 'XOR']), [right[-1], left[-1], far_l]))
        left.append(f'l{h}')
        right.append(f'r{h}')
    users = {}
    for l, t, ops in order:
        for o in ops:
            users.setdefault(o, []).append(l)
    gates = list(order)
    if rng.random() < 0.5:
        rng.shuffle(gates)
    return {'inputs': ['a', 'b'], 'outputs': [left[-1], right[-1], left[len(left) // 2]], 'gates': gates,
            'users': list(users.items()), 'blocks': []}


def cyclic_variant(rng, dump):
    """redirect one operand to a downstream gate (keeps the users index consistent)"""
    gates = [list(g) for g in dump['gates']]
    cands = [i for i, g in enumerate(gates) if g[2]]
    if not cands:
        return None
    i = rng.choice(cands)
    tgt = rng.choice([g[0] for g in gates if g[1] != 'INPUT'] or [gates[i][0]])
    ops = list(gates[i][2])
    ops[rng.randrange(len(ops))] = tgt
    gates[i][2] = ops
    users = {}
    for l, t, o in gates:
        for x in o:
            users.setdefault(x, []).append(l)
    return {'inputs': dump['inputs'], 'outputs': dump['outputs'], 'gates': [tuple(g) for g in gates],
            'users': list(users.items()), 'blocks': []}


def make_case(rng, dump, n_trav=6):
    c = ct.build_circuit(dump)
    labels = list(c._gates)
    ts0 = call(lambda: [g.label for g in c.top_sort(inverse=False)])
    ts1 = call(lambda: [g.label for g in c.top_sort(inverse=True)])
    tcs = []
    for _ in range(n_trav):
        mode = rng.choice(['DFS', 'BFS'])
        inverse = rng.random() < 0.5
        starts = None
        if labels and rng.random() < 0.7:
            starts = [rng.choice(labels) for _ in range(rng.randint(0, 3))]
            if rng.random() < 0.05:
                starts.append('nonexistent')
        tsu = rng.random() < 0.4
        log = call(lambda: run_traversal(c, mode, inverse, starts, tsu))
        tcs.append({'mode': mode, 'inverse': inverse, 'starts': starts, 'tsu': tsu, 'log': log})
    from cirbo.core.circuit.validation import check_circuit_has_no_cycles
    cyc = call(lambda: check_circuit_has_no_cycles(c), lambda _: None)
    return {'circuit': dump, 'ts0': ts0, 'ts1': ts1, 'tcs': tcs, 'cyc': cyc}


def ev_term(e):
    k = e[0]
    if k == 'enter':
        return f'EvEnter {ct.s(e[1])}'
    if k == 'discover':
        return f'EvDiscover {ct.s(e[1])} {e[2]}'
    if k == 'exit':
        return f'EvExit {ct.s(e[1])}'
    if k == 'yield':
        return f'EvYield {ct.s(e[1])}'
    if k == 'unvisited':
        return f'EvUnvisited {ct.s(e[1])}'
    return 'EvEnd'


def case_term(case):
    R = ct.res
    tcs = ct.lst(
        f'({x["mode"]}, {ct.boolean(x["inverse"])}, {ct.opt(x["starts"], ct.labels)}, {ct.boolean(x["tsu"])}, '
        f'{R(x["log"], lambda l: ct.lst(ev_term(e) for e in l))})' for x in case['tcs'])
    return (f'({ct.circuit(case["circuit"])}, {R(case["ts0"], ct.labels)}, {R(case["ts1"], ct.labels)}, '
            f'{tcs}, {R(case["cyc"], lambda _: "tt")})')


# ------------------------------------------------------------------ oracle (property text)
def graph(dump):
    ops = {k: list(o) for k, _, o in dump['gates']}
    users = {k: [] for k in ops}
    for k, o in ops.items():
        for x in o:
            if x in users:
                users[x].append(k)
    return ops, users


def reachable(nexts, starts):
    seen, todo = set(), [s for s in starts]
    while todo:
        x = todo.pop()
        if x in seen or x not in nexts:
            continue
        seen.add(x)
        todo += nexts[x]
    return seen


def has_cycle_from(ops, starts):
    color = {}
    for s in starts:
        if s not in ops or color.get(s) == 2:
            continue
        stack = [(s, iter(ops[s]))]
        color[s] = 1
        while stack:
            node, it = stack[-1]
            nxt = next(it, None)
            if nxt is None:
                color[node] = 2
                stack.pop()
            elif nxt in ops:
                if color.get(nxt) == 1:
                    return True
                if color.get(nxt) is None:
                    color[nxt] = 1
                    stack.append((nxt, iter(ops[nxt])))
    return False


def oracle(case_or_dump, rng_seed=0):
    import random
    dump = case_or_dump
    # the random choices (start sets, among them the EMPTY start list) differ from circuit to circuit but are a
    # function of the circuit alone, so that a replay makes the same choices
    import zlib
    rng = random.Random(rng_seed + zlib.crc32(repr([(k, t, list(o)) for k, t, o in dump['gates']]).encode()))
    ops, users = graph(dump)
    if any(x not in ops for o in ops.values() for x in o) or any(o not in ops for o in dump['outputs']):
        return None
    c = ct.build_circuit(dump)
    labels = list(ops)
    cyclic_all = has_cycle_from(ops, labels)
    from cirbo.core.circuit.validation import check_circuit_has_no_cycles
    from cirbo.core.circuit.exceptions import CircuitValidationError
    # cycle check: raises exactly when a cycle is reachable from the outputs
    expect = has_cycle_from(ops, dump['outputs'])
    try:
        check_circuit_has_no_cycles(c)
        got = False
    except Exception:  # noqa: BLE001 - the property says "raises"; which exception class is not part of it
        got = True
    if got != expect:
        return f'cycle check: raises={got} but a cycle is reachable from the outputs={expect}'
    if cyclic_all:
        return None
    # topological iteration
    for inverse in (True, False):
        order = [g.label for g in c.top_sort(inverse=inverse)]
        if sorted(order) != sorted(labels):
            return f'top_sort(inverse={inverse}): not every gate exactly once'
        pos = {l: i for i, l in enumerate(order)}
        for k, o in ops.items():
            for x in o:
                if (pos[x] > pos[k]) == inverse:
                    return f'top_sort(inverse={inverse}): {k} on the wrong side of its operand {x}'
    topo_pos = {g.label: i for i, g in enumerate(c.top_sort(inverse=True))}
    # traversals
    for mode in ('DFS', 'BFS'):
        for inverse in (False, True):
            for tsu in (False, True):
                r_ = rng.random()
                starts = None if r_ < 0.3 else [] if r_ < 0.4 else list(labels) if r_ < 0.5 else \
                    [rng.choice(labels) for _ in range(rng.randint(0, 3))] if labels else None
                log = run_traversal(c, mode, inverse, starts, tsu)
                eff = starts if starts is not None else (dump['inputs'] if inverse else dump['outputs'])
                nexts = users if inverse else ops
                reach = reachable(nexts, eff)
                ys = [e[1] for e in log if e[0] == 'yield']
                if sorted(ys) != sorted(reach):
                    return f'{mode} inverse={inverse} starts={starts}: yields {sorted(ys)} but reachable set is {sorted(reach)}'
                enters = [e[1] for e in log if e[0] == 'enter']
                if sorted(enters) != sorted(ys):
                    return f'{mode}: enter hooks {enters} differ from yields {ys}'
                unv = [e[1] for e in log if e[0] == 'unvisited']
                if sorted(unv) != sorted(set(labels) - reach):
                    return f'{mode}: unvisited hook got {unv}, unreached gates are {sorted(set(labels) - reach)}'
                if tsu:
                    where = {l: i for i, l in enumerate(unv)}
                    bad = [(x, o) for x in unv for o in ops[x] if o in where and where[o] > where[x]]
                    if bad:
                        return f'{mode}: unvisited gates not in topological order: {unv} ({bad[0][0]} before its operand {bad[0][1]})'
                exits = [e[1] for e in log if e[0] == 'exit']
                if mode == 'BFS' and exits:
                    return 'BFS fired exit hooks'
                if mode == 'DFS':
                    if sorted(exits) != sorted(ys):
                        return f'DFS: exit hooks {exits} are not exactly the visited gates'
                    idx = {('enter', l): i for i, (k, l, *_) in enumerate(e for e in log if len(e) > 1) if k == 'enter'}
                    pos_enter = {e[1]: i for i, e in enumerate(log) if e[0] == 'enter'}
                    pos_exit = {e[1]: i for i, e in enumerate(log) if e[0] == 'exit'}
                    for l in ys:
                        if pos_enter[l] > pos_exit[l]:
                            return f'DFS: exit of {l} precedes its enter'
                    # post-order on a DAG: a gate exits after every gate reachable from it
                    for l in ys:
                        for d in reachable(nexts, nexts[l]):
                            if pos_exit[d] > pos_exit[l]:
                                return f'DFS: {l} exits before its descendant {d}'
    # dfs / bfs return lazy iterators: two traversals of ONE circuit whose lifetimes overlap (consumed alternately; one
    # started from inside a hook of the other) each visit what they visit alone
    alone_d = [g.label for g in c.dfs()]
    alone_b = [g.label for g in c.bfs(inverse=True)]
    it1, it2 = iter(c.dfs()), iter(c.bfs(inverse=True))
    got1, got2 = [], []
    for _ in range(2 * len(labels) + 2):
        for it, got in ((it1, got1), (it2, got2)):
            try:
                got.append(next(it).label)
            except StopIteration:
                pass
    if got1 != alone_d or got2 != alone_b:
        return (f'overlapping traversals: a dfs() and a bfs(inverse=True) consumed alternately yield {got1} / {got2}, '
                f'alone they yield {alone_d} / {alone_b}')
    nested, inner = [], []
    for g in c.dfs(on_exit_hook=lambda g_, s_: inner.append([x.label for x in c.bfs([g_.label])])):
        nested.append(g.label)
        if len(nested) > 2 * len(labels) + 2:
            return ('overlapping traversals: a dfs() whose exit hook runs a bfs of the same circuit keeps yielding '
                    f'({nested[:12]} ...)')
    if nested != alone_d:
        return f'overlapping traversals: a dfs() whose exit hook runs a bfs yields {nested}, alone it yields {alone_d}'
    for cone in inner:
        if not cone or sorted(cone) != sorted(reachable(ops, cone[:1])):
            return f'overlapping traversals: the bfs run inside an exit hook yields {cone}'
    return None
