"""C17, data half: run the extracted, proved checker (Model/DbCheck.check_entry) over EVERY record of the two
shipped databases, in parallel OCaml processes; re-check a seeded sample inside the Coq kernel.

build()            extraction (coqc Extract/Extract.v) + ocamlfind ocamlopt of Extract/driver.ml, in coq/Corr/C17/ext
sweep(name)        -> dict(records=..., checked=..., bad=[indices], seconds=...)
"""
import lzma
import os
import pathlib
import shutil
import subprocess
import time
from concurrent.futures import ThreadPoolExecutor

from . import env

VERIF = env.VERIF
COQ = VERIF / 'coq'
WORK = COQ / 'Corr' / 'C17' / 'ext'
DATABASES = {'aig': 'cirbo/data/aig_db.bin.xz', 'xaig': 'cirbo/data/xaig_db.bin.xz'}
EXPECTED_RECORDS = 349724


class SweepError(Exception):
    pass


def db_path(name) -> pathlib.Path:
    return env.REPO / DATABASES[name]


def raw_image(name) -> bytes:
    with lzma.open(db_path(name), 'rb') as f:
        return f.read()


def build(timeout=600):
    """extract and compile the driver; returns the path of the executable"""
    WORK.mkdir(parents=True, exist_ok=True)
    for f in ('Extract.v', 'driver.ml'):
        shutil.copy(COQ / 'Extract' / f, WORK / f)
    p = subprocess.run(['timeout', str(timeout), 'coqc', '-Q', str(COQ), 'Cirbo', 'Extract.v'], cwd=WORK,
                       capture_output=True, text=True)
    if p.returncode != 0 or not (WORK / 'dbcheck.ml').exists():
        raise SweepError('extraction failed: ' + (p.stdout + p.stderr)[-1500:])
    p = subprocess.run(['timeout', str(timeout), 'ocamlfind', 'ocamlopt', '-O3', 'dbcheck.mli', 'dbcheck.ml',
                        'driver.ml', '-o', 'driver'], cwd=WORK, capture_output=True, text=True)
    if p.returncode != 0 or not (WORK / 'driver').exists():
        raise SweepError('ocamlopt failed: ' + (p.stdout + p.stderr)[-1500:])
    return WORK / 'driver'


def _run_ranges(driver, image, basis, ranges, timeout):
    args = ' '.join(f'{lo} {ln}' for lo, ln in ranges)
    cmd = (f'ulimit -s unlimited 2>/dev/null; export OCAMLRUNPARAM=s=8M,o=200; '
           f'exec timeout {timeout} {driver} {image} {basis} {args}')
    p = subprocess.run(['bash', '-c', cmd], capture_output=True, text=True)
    out = {}
    for line in p.stdout.splitlines():
        parts = line.split()
        if parts:
            out[parts[0]] = parts[1:]
    if p.returncode != 0 or 'RECORDS' not in out or 'BAD' not in out:
        raise SweepError(f'driver failed on {basis} ranges {ranges[:2]}...: rc={p.returncode} '
                         f'{p.stdout[-300:]} {p.stderr[-300:]}')
    return int(out['RECORDS'][0]), int(out['CHECKED'][0]), [int(x) for x in out['BAD']]


def sweep(name, driver=None, jobs=None, lo=0, length=None, chunk=512, timeout=1500):
    """check records lo .. lo+length-1 (default: all) of one database.  The range is cut into chunks of
    `chunk` records dealt round-robin to `jobs` processes (late records are bigger circuits); the chunks
    tile the range exactly, which is re-checked here from the CHECKED counts."""
    driver = driver or build()
    image = WORK / f'{name}_db.bin'
    data = raw_image(name)
    image.write_bytes(data)
    total = int.from_bytes(data[:8], 'big')
    length = total - lo if length is None else min(length, max(0, total - lo))
    jobs = jobs or min(16, os.cpu_count() or 4)
    chunks = [(a, min(chunk, lo + length - a)) for a in range(lo, lo + length, chunk)]
    assert sum(n for _, n in chunks) == length and all(chunks[i][0] + chunks[i][1] == chunks[i + 1][0]
                                                       for i in range(len(chunks) - 1))
    deals = [chunks[w::jobs] for w in range(jobs)]
    deals = [d for d in deals if d]
    t0 = time.time()
    with ThreadPoolExecutor(max_workers=jobs) as ex:
        results = list(ex.map(lambda d: _run_ranges(driver, image, name, d, timeout), deals))
    try:
        image.unlink()
    except OSError:
        pass
    records = {r[0] for r in results} or {total}
    if len(records) != 1:
        raise SweepError(f'processes disagree on the number of records: {records}')
    checked = sum(r[1] for r in results)
    if checked != length:
        raise SweepError(f'{checked} records were checked, {length} were requested')
    return {'records': records.pop(), 'checked': checked,
            'bad': sorted(i for r in results for i in r[2]), 'seconds': round(time.time() - t0, 1),
            'declared': total, 'bytes': len(data), 'processes': len(deals), 'chunk': chunk}
