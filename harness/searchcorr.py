"""Correspondence and direct oracle for exact synthesis (C06, cirbo/synthesis/circuit_search.py).

A *case* (JSON-serialisable) describes one use of CircuitFinderSat:
  {'tt': ['01*0', ...],            one string per output over 0/1/* (TruthTableModel argument)
   'model': 'tt'|'pyfunc',         optional: TruthTableModel (default) or PyFunctionModel over the same table
   'n': 2,                         optional: input count (needed only for a pyfunc model with no outputs)
   'r': 2,                         number_of_gates
   'basis': {'kind': 'enum'|'str'|'list', 'name': 'AIG' | 'ops': ['and_', ...]},
   'norm': False,                  need_normalized
   'pre':  [constraint ...],       calls made before get_cnf()
   'post': [constraint ...]}       calls made after get_cnf()
  constraint = ['fix', g, first|None, second|None, gate type name|None] | ['forbid', from, to]

Correspondence: the shim IDPool is inverted to the structured variables of Model/Search.v and
  get_cnf() is compared CLAUSE FOR CLAUSE, order included, with `encode spec`.  The only part of
  the order that Python does not determine is the iteration order of
  `set(Basis.FULL.value) - set(basis)` (hash order of enum members): the observed order is
  handed to the model as the field sp_forb, the model checks (spec_wfb) that it is exactly the
  complement of the basis, and the theorems hold for every such order.
  _get_circuit_by_model is compared with decode_typed + build_circuit (full Circuit state) on the
  shim solver's model and on random total assignments.
Oracle: the property itself by brute force, written independently of the Coq model.
"""
import itertools

from . import coqterm as ct

HEADER = ('Require Import Cirbo.Model.Base Cirbo.Model.Gate Cirbo.Model.Circuit Cirbo.Model.History '
          'Cirbo.Model.Search Cirbo.Model.SearchCircuit Cirbo.Model.SearchCases.')

BINARY_TYPES = ['ALWAYS_TRUE', 'ALWAYS_FALSE', 'AND', 'GEQ', 'GT', 'LEQ', 'LIFF', 'LNOT', 'LT', 'NAND', 'NOR',
                'NXOR', 'OR', 'RIFF', 'RNOT', 'XOR']
OP_NAMES = ['always_false_', 'always_true_', 'lnot_', 'liff_', 'rnot_', 'riff_', 'or_', 'nor_', 'and_', 'nand_',
            'xor_', 'nxor_', 'gt_', 'lt_', 'geq_', 'leq_']


# ------------------------------------------------------------------ running the implementation
def _imports():
    from cirbo.core.circuit import gate
    from cirbo.core.truth_table import TruthTableModel
    from cirbo.synthesis import circuit_search as cs
    return gate, TruthTableModel, cs


def resolve_basis_arg(b):
    _, _, cs = _imports()
    if b['kind'] == 'enum':
        return cs.Basis[b['name']]
    if b['kind'] == 'str':
        return b['name']
    return [cs.Operation[o] for o in b['ops']]


def apply_constraint(f, k):
    gate, _, _ = _imports()
    if k[0] == 'fix':
        _, g, fp, sd, gt = k
        kw = {}
        if fp is not None:
            kw['first_predecessor'] = fp
        if sd is not None:
            kw['second_predecessor'] = sd
        if gt is not None:
            kw['gate_type'] = getattr(gate, gt)
        f.fix_gate(g, **kw)
    else:
        f.forbid_wire(k[1], k[2])


def case_n(case):
    if 'n' in case:
        return case['n']
    return len(case['tt'][0]).bit_length() - 1


def function_model(case):
    _, TruthTableModel, _ = _imports()
    if case.get('model', 'tt') == 'tt':
        return TruthTableModel(case['tt'])
    from cirbo.core.logic import DontCare
    from cirbo.core.python_function import PyFunctionModel
    tt, n = case['tt'], case_n(case)
    val = {'0': False, '1': True, '*': DontCare}
    if case.get('model') == 'pyint':
        # a callable written with arithmetic returns the ints 0 / 1, which are equal to False / True
        val = {'0': 0, '1': 1, '*': DontCare}

    def func(args):
        t = int(''.join('1' if a else '0' for a in args), 2) if args else 0
        return [val[row[t]] for row in tt]
    return PyFunctionModel(func, input_size=n, output_size=len(tt))


def make_finder(case, upto='post'):
    """constructs the finder, applies the constraints; returns the finder"""
    _, TruthTableModel, cs = _imports()
    f = cs.CircuitFinderSat(function_model(case), case['r'], basis=resolve_basis_arg(case['basis']),
                            need_normalized=case['norm'])
    for k in case['pre']:
        apply_constraint(f, k)
    if upto == 'pre':
        return f
    f.get_cnf()
    for k in case['post']:
        apply_constraint(f, k)
    return f


# ------------------------------------------------------------------ Coq terms
def b(x):
    return 'true' if x else 'false'


def tt4_of_str(s):
    return '(' + ', '.join(b(c == '1') for c in s) + ')'


def var_term(name):
    k, *xs = name.split('_')
    if k == 's' and len(xs) == 3:
        return f'VS {xs[0]} {xs[1]} {xs[2]}'
    if k == 'g' and len(xs) == 2:
        return f'VG {xs[0]} {xs[1]}'
    if k == 'x' and len(xs) == 2:
        return f'VX {xs[0]} {xs[1]}'
    if k == 'f' and len(xs) == 3 and xs[1] in '01' and xs[2] in '01':
        return f'VF {xs[0]} {b(xs[1] == "1")} {b(xs[2] == "1")}'
    raise ValueError('unknown variable name in the IDPool: ' + name)


def clause_term(f, clause):
    return ct.lst(f'({b(l > 0)}, {var_term(f._vpool.id2obj[abs(l)])})' for l in clause)


def constraint_term(k):
    if k[0] == 'fix':
        _, g, fp, sd, gt = k
        o = lambda x: 'None' if x is None else f'(Some {x})'
        return f'(FixGate {g} {o(fp)} {o(sd)} {o(gt)})'
    return f'(ForbidWire {k[1]} {k[2]})'


def spec_term(f, case):
    """the spec as the *implementation object* sees it (sizes, tables, basis, forbidden order)"""
    from cirbo.core.logic import DontCare
    rows = ct.lst(ct.lst('None' if v == DontCare else f'(Some {b(v)})' for v in row)
                  for row in f._output_truth_tables)
    basis = ct.lst(tt4_of_str(o.value) for o in f._basis_list)
    forb = ct.lst(tt4_of_str(o.value) for o in f._forbidden_operations)
    return (f'(mkSpec {f._boolean_function.input_size} {rows} {f._number_of_gates} {basis} {forb} '
            f'{b(f.need_normalized)} {ct.lst(constraint_term(k) for k in case["pre"])} '
            f'{ct.lst(constraint_term(k) for k in case["post"])})')


def cnf_case_term(case):
    f = make_finder(case)
    cnf = f.get_cnf()
    return f'({spec_term(f, case)}, {ct.lst(clause_term(f, c) for c in cnf)})', len(cnf)


# ------------------------------------------------------------------ decoding
def model_lists(rng, f, n_random):
    """total assignments over the pool's variables: (kind, list of signed ids)"""
    top = f._vpool.top
    names = {v: f._vpool.id2obj[v] for v in range(1, top + 1)}
    out = []
    for i in range(n_random):
        if i % 2 == 0:
            # structured: one s per gate, one g per output, the rest random
            true = set()
            by_gate, by_out = {}, {}
            for v, nm in names.items():
                p = nm.split('_')
                if p[0] == 's':
                    by_gate.setdefault(p[1], []).append(v)
                elif p[0] == 'g':
                    by_out.setdefault(p[1], []).append(v)
                elif rng.random() < 0.5:
                    true.add(v)
            for vs in list(by_gate.values()) + list(by_out.values()):
                true.add(rng.choice(vs))
            out.append(('structured', [v if v in true else -v for v in range(1, top + 1)]))
        else:
            d = rng.choice([0.1, 0.3, 0.5, 0.9])
            out.append(('random', [v if rng.random() < d else -v for v in range(1, top + 1)]))
    return out


def decode_case_term(case, f, model, verdict_for_circuit):
    """runs _get_circuit_by_model on a fresh finder in the same state (decoding allocates ids)"""
    spec = spec_term(f, case)
    trues = ct.lst(var_term(f._vpool.id2obj[l]) for l in model if l > 0)
    try:
        c = f._get_circuit_by_model(list(model))
    except RecursionError:
        raise
    except Exception as e:  # noqa: BLE001
        return f'({spec}, {trues}, (Err {model_err(e)}), None)', ('err', type(e).__name__)
    verdict = verdict_for_circuit(c)
    exp = f'(Ok {ct.circuit(ct.dump_circuit(c))})'
    return f'({spec}, {trues}, {exp}, (Some {b(verdict)}))', ('ok', verdict)


def model_err(e):
    n = ct.err_name(e)
    return n if not n.startswith('UNMODELLED_') else 'UnmodelledPythonException'


# ------------------------------------------------------------------ constraint checks
CONS_ERRS = {'GateIsAbsentError': 'CE_GateIsAbsent', 'FixGateError': 'CE_FixGate',
             'FixGateOrderError': 'CE_FixGateOrder', 'ForbidWireOrderError': 'CE_ForbidWireOrder',
             'TypeError': 'CE_GateType', 'GateTypeNoOperatorError': 'CE_GateType'}


def cons_case_term(case, k):
    """one fix_gate / forbid_wire call on a fresh finder: error kind, and the clause list is
    untouched by a rejected call (except the documented gate_type case)"""
    f = make_finder(dict(case, pre=[], post=[]), upto='pre')
    before = [list(c) for c in f._cnf.clauses]
    try:
        apply_constraint(f, k)
        err = None
    except Exception as e:  # noqa: BLE001
        err = type(e).__name__
    note = None
    if err is not None and CONS_ERRS.get(err) != 'CE_GateType' and f._cnf.clauses != before:
        note = f'{k}: rejected with {err} but the clause list changed'
    e = 'None' if err is None else f'(Some {CONS_ERRS.get(err, "CE_UNMODELLED_" + err)})'
    return f'({spec_term(f, dict(case, pre=[], post=[]))}, {constraint_term(k)}, {e})', err, note


# ------------------------------------------------------------------ generated tables vs live objects
def table_cases():
    gate, _, cs = _imports()
    ops = [f'({ct.s(o.name)}, {tt4_of_str(o.value)})' for o in cs.Operation]
    bases = [f'({ct.s(bb.name)}, {ct.labels([o.name for o in bb.value])})' for bb in cs.Basis]
    tts = [f'({tt4_of_str("".join(str(x) for x in k))}, {v.name})' for k, v in cs._tt_to_gate_type.items()]
    extra = []
    if sorted(cs._str_to_basis) != sorted(bb.name for bb in cs.Basis) or \
            any(cs._str_to_basis[k] is not cs.Basis[k] for k in cs._str_to_basis):
        extra.append('_str_to_basis is not the identity on Basis member names')
    if len(list(cs.Operation)) != len(cs.Operation.__members__):
        extra.append('Operation has aliases')
    return ops, bases, tts, extra


# ------------------------------------------------------------------ generators
def random_row(rng, n, density):
    return ''.join('*' if rng.random() < density else rng.choice('01') for _ in range(1 << n))


def hidden_circuit(rng, n, r, ops):
    """a random circuit of the searched shape; returns (gates [(a, b, op string)], value masks)"""
    gates = []
    for i in range(r):
        g = n + i
        if g < 2:
            return None
        a, bb = sorted(rng.sample(range(g), 2))
        gates.append((a, bb, rng.choice(ops)))
    return gates


def eval_gates(n, gates):
    """list of truth tables (lists of bool over the 2^n rows) of gates 0..n+r-1"""
    rows = 1 << n
    vals = [[bool((t >> (n - 1 - i)) & 1) for t in range(rows)] for i in range(n)]
    for a, bb, op in gates:
        vals.append([op[2 * int(vals[a][t]) + int(vals[bb][t])] == '1' for t in range(rows)])
    return vals


def random_basis(rng):
    k = rng.random()
    if k < 0.45:
        return {'kind': 'enum', 'name': rng.choice(['AIG', 'XAIG', 'FULL'])}
    if k < 0.6:
        return {'kind': 'str', 'name': rng.choice(['AIG', 'aig', 'XAIG', 'Xaig', 'FULL', 'full'])}
    kk = rng.choice([0, 1, 2, 3, 5, 8, 12, 16, 16])
    ops = rng.sample(OP_NAMES, kk)
    if ops and rng.random() < 0.3:
        ops.append(rng.choice(ops))          # duplicates are legal in a custom list
    return {'kind': 'list', 'ops': ops}


def basis_ops(bs):
    """the operation value strings of a basis description (independent of the implementation)"""
    table = {'always_false_': '0000', 'always_true_': '1111', 'lnot_': '1100', 'liff_': '0011', 'rnot_': '1010',
             'riff_': '0101', 'or_': '0111', 'nor_': '1000', 'and_': '0001', 'nand_': '1110', 'xor_': '0110',
             'nxor_': '1001', 'gt_': '0010', 'lt_': '0100', 'geq_': '1011', 'leq_': '1101'}
    aig = ['lnot_', 'and_', 'or_', 'nand_', 'nor_', 'gt_', 'lt_', 'geq_', 'leq_']
    named = {'AIG': aig, 'XAIG': aig + ['xor_', 'nxor_'], 'FULL': OP_NAMES}
    if bs['kind'] in ('enum', 'str'):
        return [table[o] for o in named[bs['name'].upper()]]
    return [table[o] for o in bs['ops']]


TYPE_TABLE = {'ALWAYS_TRUE': '1111', 'ALWAYS_FALSE': '0000', 'AND': '0001', 'GEQ': '1011', 'GT': '0010',
              'LEQ': '1101', 'LIFF': '0011', 'LNOT': '1100', 'LT': '0100', 'NAND': '1110', 'NOR': '1000',
              'NXOR': '1001', 'OR': '0111', 'RIFF': '0101', 'RNOT': '1010', 'XOR': '0110'}
TABLE_TYPE = {v: k for k, v in TYPE_TABLE.items()}


def random_constraint(rng, n, r, hidden=None):
    """a constraint the implementation accepts (None when the shape admits none)"""
    if r == 0:
        return None
    g = n + rng.randrange(r)
    if g < 1:
        return None
    if rng.random() < 0.35:
        frm = rng.randrange(g)
        if hidden is not None and rng.random() < 0.7:
            a, bb, _ = hidden[g - n]
            others = [x for x in range(g) if x not in (a, bb)]
            if not others:
                return None
            frm = rng.choice(others)
        return ['forbid', frm, g]
    mode = rng.choice(['both', 'first', 'second', 'second', 'first+type', 'second+type', 'both+type'])
    if hidden is not None and rng.random() < 0.7:
        a, bb, op = hidden[g - n]
        gt = TABLE_TYPE[op]
        one = rng.choice([a, bb])
    else:
        if g < 2 and mode.startswith('both'):
            mode = 'first'
        a, bb = (sorted(rng.sample(range(g), 2)) if g >= 2 else (0, 0))
        gt = rng.choice(BINARY_TYPES)
        one = rng.randrange(g)
    t = gt if mode.endswith('+type') else None
    if mode.startswith('both'):
        return ['fix', g, a, bb, t]
    if mode.startswith('first'):
        return ['fix', g, one, None, t]
    return ['fix', g, None, one, t]


def random_case(rng, max_n=3, max_r=4):
    n = min(rng.choice([0, 1, 2, 2, 2, 3, 3, 3]), max_n)
    m = rng.choice([1, 1, 2])
    if rng.random() < 0.05:
        m = rng.choice([10, 11, 12, 13])      # two-digit output indices
    r = min(rng.choice([0, 1, 1, 2, 2, 2, 3, 3, 4]), max_r)
    basis = random_basis(rng)
    ops = basis_ops(basis)
    norm = rng.random() < 0.25
    density = rng.choice([0.0, 0.0, 0.2, 0.5, 0.8, 1.0])
    hidden = None
    if ops and r > 0 and rng.random() < 0.65:
        cand = [o for o in ops if not (norm and o[0] == '1')] or ops
        hidden = hidden_circuit(rng, n, r, cand)
    if hidden is not None:
        vals = eval_gates(n, hidden)
        tt = []
        for _ in range(m):
            o = n + rng.randrange(r)
            tt.append(''.join('*' if rng.random() < density else ('1' if v else '0') for v in vals[o]))
    else:
        tt = [random_row(rng, n, density) for _ in range(m)]
    if rng.random() < 0.25 and n > 0:
        # whole rows (columns of the table) that are don't-cares for every output
        for t in range(1 << n):
            if rng.random() < 0.4:
                tt = [row[:t] + '*' + row[t + 1:] for row in tt]
    cons = []
    for _ in range(rng.choice([0, 0, 1, 1, 2, 3])):
        k = random_constraint(rng, n, r, hidden)
        if k is not None:
            cons.append(k)
    cut = rng.choice([len(cons), len(cons), rng.randint(0, len(cons))])
    case = {'tt': tt, 'r': r, 'basis': basis, 'norm': norm, 'pre': cons[:cut], 'post': cons[cut:]}
    if case['post'] and rng.random() < 0.4:
        # the same finder object is asked twice: some constraints are imposed only after a first search
        j = rng.randint(0, len(case['post']) - 1)
        case['after'] = case['post'][j:]
        case['post'] = case['post'][:j]
    k = rng.random()
    if k < 0.15:
        case['model'] = 'pyfunc'
        case['n'] = n
        if k < 0.04:
            case['tt'] = []          # a model without outputs (PyFunctionModel allows it)
    return case


def random_bad_constraint(rng, n, r):
    """a fix_gate / forbid_wire call with mostly-plausible arguments: every rejection branch is reachable"""
    top = n + r

    def gate_index():
        k = rng.random()
        if k < 0.7 and r > 0:
            return n + rng.randrange(r)              # an internal gate
        if k < 0.85 and n > 0:
            return rng.randrange(n)                  # an input
        return top + rng.randrange(2)                # absent

    def any_index():
        return rng.randrange(top) if top and rng.random() < 0.85 else top + rng.randrange(2)
    g, x, y = gate_index(), any_index(), any_index()
    k = rng.random()
    if k < 0.3:
        return ['forbid', x, g]
    if k < 0.4:
        return ['fix', g, None, None, rng.choice([None, 'AND'])]
    if k < 0.5:
        return ['fix', g, x if rng.random() < 0.7 else None, y if rng.random() < 0.7 else None,
                rng.choice(['NOT', 'IFF', 'INPUT'])]
    return ['fix', g, rng.choice([x, None]), rng.choice([y, None]), rng.choice([None, None] + BINARY_TYPES)]


def with_rejected_calls(rng, case):
    """the case with one to three refused constraint calls before the search (wrong predecessor order with and
    without a gate type, absent gates, types outside the basis, ...)"""
    n, r = case_n(case), case['r']
    rej = [random_bad_constraint(rng, n, r) for _ in range(rng.randint(1, 2))]
    if r >= 1 and n >= 2 and rng.random() < 0.6:
        g = n + rng.randrange(r)
        hi = rng.randrange(1, g) if g > 1 else 1
        lo = rng.randrange(hi)
        rej.insert(0, ['fix', g, hi, lo, rng.choice(BINARY_TYPES)])        # second predecessor below the first
    return dict(case, rejected=rej)


# the inputs behind defect D14 (DESIGN.md 6.4) and other fixed regression inputs; run first
CORPUS = [
    # D14a: a lone second_predecessor must constrain the gate: x0 xor x1 cannot be computed by one
    # gate that reads input 2, so NoSolutionError is the only right answer
    {'tt': ['00111100'], 'r': 1, 'basis': {'kind': 'enum', 'name': 'XAIG'}, 'norm': False,
     'pre': [['fix', 3, None, 2, None]], 'post': []},
    {'tt': ['0110'], 'r': 2, 'basis': {'kind': 'enum', 'name': 'FULL'}, 'norm': False,
     'pre': [['fix', 3, None, 2, None]], 'post': []},
    # D14b: every row a don't-care and nothing forbidden: the gate-type variables occur in no clause
    {'tt': ['****'], 'r': 1, 'basis': {'kind': 'enum', 'name': 'FULL'}, 'norm': False, 'pre': [], 'post': []},
    {'tt': ['****', '****'], 'r': 2, 'basis': {'kind': 'list', 'ops': list(OP_NAMES)}, 'norm': True,
     'pre': [], 'post': []},
    # pinned-test shapes
    {'tt': ['01101001'], 'r': 3, 'basis': {'kind': 'enum', 'name': 'XAIG'}, 'norm': False,
     'pre': [['fix', 3, 0, 1, 'XOR']], 'post': [['forbid', 0, 4]]},
    {'tt': ['0110', '0001'], 'r': 2, 'basis': {'kind': 'str', 'name': 'xaig'}, 'norm': True, 'pre': [], 'post': []},
    {'tt': ['01'], 'r': 1, 'basis': {'kind': 'enum', 'name': 'FULL'}, 'norm': False, 'pre': [], 'post': []},
    {'tt': ['1'], 'r': 0, 'basis': {'kind': 'enum', 'name': 'FULL'}, 'norm': False, 'pre': [], 'post': []},
    # a PyFunctionModel, and one without outputs (D14b again: no row constrains anything)
    {'tt': ['0111'], 'r': 1, 'basis': {'kind': 'enum', 'name': 'AIG'}, 'norm': True, 'pre': [], 'post': [],
     'model': 'pyfunc', 'n': 2},
    {'tt': [], 'r': 2, 'basis': {'kind': 'enum', 'name': 'FULL'}, 'norm': False, 'pre': [], 'post': [],
     'model': 'pyfunc', 'n': 2},
]


# ------------------------------------------------------------------ the property, by brute force
class Shape:
    """what the property text lets a circuit be, computed from the case alone"""

    def __init__(self, case):
        self.tt = case['tt']
        self.m = len(self.tt)
        self.n = case_n(case)
        rows = 1 << self.n
        assert all(len(r) == rows for r in self.tt)
        self.r = case['r']
        self.all_ops = set(basis_ops(case['basis']))
        self.norm = bool(case['norm'])
        self.ops = sorted(o for o in self.all_ops if not (self.norm and o[0] == '1'))
        self.cons = list(case['pre']) + list(case['post'])

    def gate_options(self, i):
        """allowed (a, b, op) for gate number i"""
        g = self.n + i
        pairs = list(itertools.combinations(range(g), 2))
        ops = list(self.ops)
        for k in self.cons:
            if k[0] == 'fix' and k[1] == g:
                _, _, fp, sd, gt = k
                if fp is not None and sd is not None:
                    pairs = [p for p in pairs if p == (fp, sd)]
                elif fp is not None or sd is not None:
                    one = fp if fp is not None else sd
                    pairs = [p for p in pairs if one in p]
                if gt is not None:
                    ops = [o for o in ops if o == TYPE_TABLE[gt]]
            elif k[0] == 'forbid' and k[2] == g:
                pairs = [p for p in pairs if k[1] not in p]
        return pairs, ops

    def exists(self, budget=300000):
        """True / False: a circuit of the class exists; None: search budget exhausted"""
        n, r, m = self.n, self.r, self.m
        rows = 1 << n
        full = (1 << rows) - 1
        care = [sum(1 << t for t in range(rows) if self.tt[h][t] != '*') for h in range(m)]
        want = [sum(1 << t for t in range(rows) if self.tt[h][t] == '1') for h in range(m)]
        masks = [sum(1 << t for t in range(rows) if (t >> (n - 1 - i)) & 1) for i in range(n)]
        opts = [self.gate_options(i) for i in range(r)]
        if m > 0 and r == 0:
            return False
        count = [0]

        def apply(op, A, B):
            res = 0
            if op[0] == '1':
                res |= ~A & ~B
            if op[1] == '1':
                res |= ~A & B
            if op[2] == '1':
                res |= A & ~B
            if op[3] == '1':
                res |= A & B
            return res & full

        def rec(i, vals):
            if i == r:
                count[0] += 1
                return all(any((vals[n + j] ^ want[h]) & care[h] == 0 for j in range(r)) for h in range(m))
            pairs, ops = opts[i]
            for a, bb in pairs:
                for op in ops:
                    v = apply(op, vals[a], vals[bb])
                    count[0] += 1
                    if count[0] > budget:
                        raise TimeoutError
                    if rec(i + 1, vals + [v]):
                        return True
            return False
        try:
            return rec(0, masks)
        except TimeoutError:
            return None

    def check(self, c):
        """None when the cirbo Circuit c belongs to the class, else what is wrong"""
        n, r, m = self.n, self.r, self.m
        if list(c.inputs) != [str(i) for i in range(n)]:
            return f'invalid:inputs are {list(c.inputs)}'
        labels = list(c.gates)
        if labels != [str(i) for i in range(n)] + ['s' + str(n + i) for i in range(r)]:
            return f'invalid:gate labels are {labels} (requested {r} gates over {n} inputs)'

        def idx(l):
            return int(l[1:]) if l.startswith('s') else int(l)
        gates = []
        for i in range(r):
            gt = c.get_gate('s' + str(n + i))
            if len(gt.operands) != 2:
                return f'invalid:gate s{n + i} has {len(gt.operands)} operands'
            a, bb = (idx(x) for x in gt.operands)
            if not (0 <= a < bb < n + i):
                return f'invalid:gate s{n + i} reads {gt.operands}: not two distinct inputs/earlier gates in order'
            tname = gt.gate_type.name
            if tname not in TYPE_TABLE:
                return f'invalid:gate s{n + i} has type {tname}, not a binary operation'
            op = TYPE_TABLE[tname]
            if op not in self.all_ops:
                return f'basis:gate s{n + i} is {tname}, not in the requested basis'
            gates.append((a, bb, op))
        if self.norm and any(op[0] == '1' for _, _, op in gates):
            return 'normalisation:a gate maps (0,0) to 1 although need_normalized was set'
        outs = list(c.outputs)
        if len(outs) != m:
            return f'invalid:{len(outs)} outputs for a model with {m}'
        for o in outs:
            if not (o.startswith('s') and n <= idx(o) < n + r):
                return f'invalid:output {o} is not taken at a gate'
        # agreement with the model, by the implementation's own evaluator and by the reference tables
        vals = eval_gates(n, gates)
        for t, vec in enumerate(itertools.product([False, True], repeat=n)):
            got = c.evaluate(list(vec))
            for h in range(m):
                ref = vals[idx(outs[h])][t]
                if got[h] is not ref:
                    return f'invalid:evaluate{vec} output {h} = {got[h]!r}, the gate tables give {ref}'
                if self.tt[h][t] != '*' and ref != (self.tt[h][t] == '1'):
                    return (f'function:output {h} is {int(ref)} on input row {t}, the model says {self.tt[h][t]}')
        for k in self.cons:
            if k[0] == 'fix':
                _, g, fp, sd, gt = k
                a, bb, op = gates[g - n]
                if fp is not None and sd is not None and (a, bb) != (fp, sd):
                    return f'fix_gate:gate s{g} reads ({a}, {bb}) but was fixed to ({fp}, {sd})'
                if (fp is None) != (sd is None):
                    one = fp if fp is not None else sd
                    if one not in (a, bb):
                        which = 'first' if fp is not None else 'second'
                        return f'fix_gate:gate s{g} reads ({a}, {bb}) but {which}_predecessor={one} was imposed'
                if gt is not None and TYPE_TABLE[gt] != op:
                    return f'fix_gate:gate s{g} is {TABLE_TYPE[op]} but was fixed to {gt}'
            else:
                a, bb, _ = gates[k[2] - n]
                if k[1] in (a, bb):
                    return f'forbid_wire:gate s{k[2]} reads ({a}, {bb}) although the wire from {k[1]} was forbidden'
        return None


def pinned_wide_case(rng, n, r, n_out):
    """a search with MANY gates (17-24) that stays cheap: a random circuit of r two-input gates over n inputs is
    drawn, its functions are the specification, and every gate is pinned (both predecessors and the type) with
    fix_gate; the outputs sit at distinct gates.  Any 'exactly one' group of more than 16 literals is exercised"""
    names = ['AND', 'OR', 'XOR', 'NAND', 'NOR', 'NXOR']
    fn = {'AND': lambda a, b: a & b, 'OR': lambda a, b: a | b, 'XOR': lambda a, b: a ^ b,
          'NAND': lambda a, b: 1 - (a & b), 'NOR': lambda a, b: 1 - (a | b), 'NXOR': lambda a, b: 1 - (a ^ b)}
    rows = 1 << n
    cols = [[(t >> (n - 1 - i)) & 1 for t in range(rows)] for i in range(n)]
    pre = []
    for g in range(n, n + r):
        a, b = sorted(rng.sample(range(g), 2))
        t = rng.choice(names)
        cols.append([fn[t](x, y) for x, y in zip(cols[a], cols[b])])
        pre.append(['fix', g, a, b, t])
    outs = rng.sample(range(n, n + r), n_out)
    return {'tt': [''.join(str(v) for v in cols[o]) for o in outs], 'r': r, 'basis': {'kind': 'enum', 'name': 'FULL'},
            'norm': False, 'pre': pre, 'post': []}


def shape_of(case):
    return Shape(case)


def oracle(case, time_limit=None):
    """THE PROPERTY on the implementation for one case; None = holds, else a message whose part
    before the first ':' classifies the failure"""
    from cirbo.synthesis.exception import NoSolutionError
    after = case.get('after') or []
    if after:
        case = dict(case)
        full = dict(case)
        full['post'] = list(case['post']) + list(after)
        shape = shape_of(full)
    else:
        shape = shape_of(case)
    try:
        f = make_finder(case)
        if after:
            try:
                f.find_circuit()          # first search; its answer is checked by the cases without 'after'
            except Exception:  # noqa: BLE001
                pass
            for k in after:
                apply_constraint(f, k)
    except Exception as e:  # noqa: BLE001
        return f'constraint-rejected:{type(e).__name__} raised while imposing valid constraints: {e}'
    # calls that the finder REFUSES (they raise) impose nothing: the class searched afterwards on the same finder is
    # the class of the accepted constraints.  A call of this list that is accepted after all counts as imposed.
    accepted = []
    for k in case.get('rejected') or []:
        try:
            apply_constraint(f, k)
        except Exception:  # noqa: BLE001
            continue
        accepted.append(k)          # accepted after all: then it is an imposed constraint like the others
    if accepted:
        full = dict(case)
        full['post'] = list(case['post']) + list(after) + accepted
        shape = shape_of(full)
    if case.get('timeout_first'):
        # a search that hits its time limit says nothing about the formula: the next search on the same
        # finder must still answer correctly (the solver is made slow so that the limit expires for sure)
        import pysat.solvers as shim
        from cirbo.synthesis.exception import SolverTimeOutError
        shim.SLOW_SECONDS = 3
        try:
            first = f.find_circuit(time_limit=0.4)    # may legitimately answer without the solver
            msg = shape.check(first)
            if msg:
                return msg
        except SolverTimeOutError:
            pass
        except NoSolutionError:                       # e.g. an empty clause: known without the solver
            if shape.exists():
                return 'no-solution-but-exists:NoSolutionError although a circuit of the class exists'
        except Exception as e:  # noqa: BLE001
            return f'timeout-{type(e).__name__}:a search that hit its time limit raised {type(e).__name__}, not SolverTimeOutError'
        finally:
            shim.SLOW_SECONDS = 0
    try:
        c = f.find_circuit(time_limit=time_limit) if time_limit else f.find_circuit()
    except NoSolutionError:
        ex = shape.exists()
        if ex:
            return 'no-solution-but-exists:NoSolutionError although a circuit of the class exists'
        return None
    except Exception as e:  # noqa: BLE001
        ex = shape.exists()
        return (f'crash-{type(e).__name__}:find_circuit raised {type(e).__name__} instead of returning a circuit or '
                f'NoSolutionError (a circuit of the class {"exists" if ex else "may not exist"})')
    return shape.check(c)


def shrink(case, msg):
    """greedy: drop constraints, outputs, gates while the oracle fails with the same key"""
    key = msg.split(':')[0]

    def fails(c):
        try:
            m = oracle(c)
        except Exception:  # noqa: BLE001
            return None
        return m if m and m.split(':')[0] == key else None
    changed = True
    while changed:
        changed = False
        cands = []
        for fld in ('pre', 'post'):
            for i in range(len(case[fld])):
                cands.append(dict(case, **{fld: case[fld][:i] + case[fld][i + 1:]}))
        if len(case['tt']) > 1 or ('n' in case and case['tt']):
            for i in range(len(case['tt'])):
                cands.append(dict(case, tt=case['tt'][:i] + case['tt'][i + 1:]))
        if case['post']:
            cands.append(dict(case, pre=case['pre'] + case['post'], post=[]))
        if case['norm']:
            cands.append(dict(case, norm=False))
        for c in cands:
            m = fails(c)
            if m:
                case, msg, changed = c, m, True
                break
    return case, msg
