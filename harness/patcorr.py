"""C04: correspondence for the pattern simulation and translation validation of every
replacement step of minimize_subcircuits.

(i)  _PatternOperations.eval_pattern / max_pattern, _generate_inputs_tt, the per-cut simulation
     of _get_subcircuits (patterns, outputs, size), _eval_dont_cares and
     _Subcircuit.evaluate_truth_table_with_dont_cares are compared with the model
     (Generated/PatternOps.v, Model/PatternSim.v) on generated operands / cones.
(ii) `recording()` wraps Circuit.replace_subcircuit (from this process, nothing in /repo is
     edited) while minimize_subcircuits runs and records every call: state before, the new
     subcircuit, both mappings, the uuid used, state after (or the exception).  Each record
     is fed to the model: replace_subcircuit on the dumped state must give the dumped
     result, and the verified validator check_subst must accept the step on all 2^k leaf
     vectors, or at least on the care set (then care_covers must hold as well).

UnsupportedOperationError is modelled as Err GenerationError (see translator/t5_patterns.py).
"""
import collections
import contextlib
import random
import sys

from framework import coqrun
from . import coqterm as ct
from . import env, subcorr

HEADER = ('Require Import Cirbo.Model.Base Cirbo.Model.Gate Cirbo.Model.Circuit Cirbo.Model.Connect '
          'Cirbo.Model.History Cirbo.Model.PatCases.')
RUN_HEADER = HEADER + '\nRequire Import Cirbo.Model.SubcircuitRun.'
# whole-run validation: runs above these sizes are not printed as Coq terms (counted as skipped)
MAX_RUN_EVENTS = 40
MAX_RUN_GATES = 60

SUPPORTED = subcorr.SUPPORTED
OTHER_TYPES = [t for t in ct.GTYPES if t not in SUPPORTED]
BOGUS_NAMES = ['', 'not', 'And', 'XNOR', 'NOT ', 'BUFF', 'MUX']


def N(x):
    assert isinstance(x, int) and x >= 0, x
    return f'{x}%N'


def nlist(xs):
    return ct.lst(N(x) for x in xs)


def vec(v):
    return ct.lst(ct.boolean(b) for b in v)


def vecs(vs):
    return ct.lst(vec(v) for v in vs)


def str_vec(s):
    assert set(s) <= {'0', '1'}, s
    return [ch == '1' for ch in s]


def pat_err(e):
    if type(e).__name__ == 'UnsupportedOperationError':
        return 'GenerationError'
    return ct.err_name(e)


def nres(r):
    return ct.res(r, N)


# ---------------------------------------------------------------- (i) pattern operations
def pattern_cases(rng, n_cases):
    from cirbo.minimization.subcircuit import _PatternOperations
    named, typed = [], []
    for _ in range(n_cases):
        n = rng.choice([0, 1, 2, 2, 3, 3, 4, 5, 6])
        po = _PatternOperations(n)
        mx = po.max_pattern
        r = rng.random()
        if r < 0.75:
            name = rng.choice(SUPPORTED)
        elif r < 0.9:
            name = rng.choice(OTHER_TYPES)
        else:
            name = rng.choice(BOGUS_NAMES)
        want = 1 if name == 'NOT' else 2
        k = want if rng.random() < 0.7 else rng.randint(0, 3)
        if name in subcorr.NARY and rng.random() < 0.3:
            k = rng.randint(3, 5)
        ops = [rng.choice([0, mx, rng.randint(0, mx), rng.randint(0, mx)]) for _ in range(k)]
        try:
            res = ('ok', po.eval_pattern(list(ops), name))
        except Exception as e:  # noqa: BLE001
            res = ('err', pat_err(e))
        case = {'n': n, 'name': name, 'ops': ops, 'res': res}
        named.append(case)
        if name in ct.GTYPES:
            typed.append(case)
    return named, typed


def pat_term(c):
    return f'({N(c["n"])}, {ct.s(c["name"])}, {nlist(c["ops"])}, {nres(c["res"])})'


def gpat_term(c):
    return f'({N(c["n"])}, {c["name"]}, {nlist(c["ops"])}, {nres(c["res"])})'


def tt_cases(max_n):
    from cirbo.minimization.subcircuit import _PatternOperations, _generate_inputs_tt
    return [{'n': n, 'max_pattern': _PatternOperations(n).max_pattern, 'tts': _generate_inputs_tt(n)}
            for n in range(max_n + 1)]


def tt_term(c):
    return f'({N(c["n"])}, {N(c["max_pattern"])}, {nlist(c["tts"])})'


def tri(x):
    from cirbo.core.logic import DontCare
    if x is DontCare:
        return 'None'
    assert x is True or x is False, x
    return f'(Some {ct.boolean(x)})'


def dont_care_table(n, pats, care_strings):
    from cirbo.minimization.subcircuit import _Subcircuit
    ins = [f'i{k}' for k in range(n)]
    outs = [f'o{k}' for k in range(len(pats))]
    sub = _Subcircuit(inputs=ins, outputs=outs, patterns=collections.defaultdict(int, zip(outs, pats)),
                      inputs_tt=list(care_strings))
    return sub.evaluate_truth_table_with_dont_cares()


def random_dc_cases(rng, k):
    out = []
    for _ in range(k):
        n = rng.randint(0, 4)
        mx = (1 << (1 << n)) - 1
        pats = [rng.choice([0, mx, rng.randint(0, mx), rng.randint(0, 4 * mx + 3)]) for _ in range(rng.randint(0, 3))]
        rows = [format(i, f'0{n}b') if n else '' for i in range(1 << n)]
        care = [x for x in rows if rng.random() < 0.6]
        if rng.random() < 0.2:
            care.append('0' * (n + 1))       # a string of the wrong length never matches
        rng.shuffle(care)
        out.append({'n': n, 'pats': pats, 'care': care, 'table': dont_care_table(n, pats, care)})
    return out


def dc_term(c):
    table = ct.lst(ct.lst(tri(x) for x in row) for row in c['table'])
    return f'({c["n"]}%nat, {nlist(c["pats"])}, {vecs(str_vec(s) for s in c["care"])}, {table})'


def cones_of(dump, cut_size, cut_limit, max_subcircuit_size, cut_seed):
    """the _Subcircuit objects minimize_subcircuits would process for this circuit"""
    import mockturtle_wrapper as mw
    from cirbo.minimization import subcircuit as sc
    c = ct.build_circuit(dump)
    mw.FAMILY_RNG = random.Random(cut_seed) if cut_seed is not None else None
    try:
        node_cuts = mw.enumerate_cuts(c.format_circuit(), cut_size, cut_limit, 10000)
    finally:
        mw.FAMILY_RNG = None
    cut_nodes = collections.defaultdict(set)
    for node, cuts in node_cuts.items():
        for cut in cuts:
            cut_nodes[tuple(cut)].add(node)
    cuts = list(cut_nodes.keys())
    subs = sc._get_subcircuits(c, cuts, cut_nodes, max_subcircuit_size, cut_size)
    subs = sc._eval_dont_cares(c, subs)
    if ct.dump_circuit(c) != dump:
        raise AssertionError('_get_subcircuits / _eval_dont_cares modified the circuit')
    return subs


def cone_cases(rng, n_circuits):
    cones, cares, dcs = [], [], []
    for _ in range(n_circuits):
        dump = subcorr.random_supported_circuit(rng)
        cut_size = rng.choice([5, 5, 3, 4])
        seed = None if rng.random() < 0.7 else rng.randrange(10 ** 6)
        try:
            subs = cones_of(dump, cut_size, rng.choice([25, 25, 4, 8]), rng.choice([9, 9, 4, 6]), seed)
        except Exception:  # noqa: BLE001  (internal errors are the end-to-end oracle's business)
            continue
        for sub in subs:
            leaves = list(sub.inputs[::-1])
            nodes = list(sub.gates)
            keys = list(dict.fromkeys(leaves + nodes))
            pats = [(k, sub.patterns[k] if k in sub.patterns else 0) for k in keys]
            cones.append({'circuit': dump, 'leaves': leaves, 'nodes': nodes, 'patterns': pats,
                          'outputs': list(sub.outputs), 'size': sub.size, 'closed_family': seed is None})
            cares.append({'circuit': dump, 'leaves': list(sub.inputs), 'care': list(sub.inputs_tt)})
            opats = [sub.patterns[o] for o in sub.outputs]
            dcs.append({'n': len(sub.inputs), 'pats': opats, 'care': list(sub.inputs_tt),
                        'table': sub.evaluate_truth_table_with_dont_cares()})
    return cones, cares, dcs


def cone_term(c):
    pats = ct.lst(f'({ct.s(k)}, {N(p)})' for k, p in c['patterns'])
    return (f'({ct.circuit(c["circuit"])}, {ct.labels(c["leaves"])}, {ct.labels(c["nodes"])}, {pats}, '
            f'{ct.labels(c["outputs"])}, {c["size"]}%nat)')


def care_term(c):
    return f'({ct.circuit(c["circuit"])}, {ct.labels(c["leaves"])}, {vecs(str_vec(s) for s in c["care"])})'


def run_pattern_corr(ctx, prop_id, r, model_ok):
    rng = ctx.rng
    named, typed = pattern_cases(rng, ctx.n(600, 6000))
    tts = tt_cases(ctx.n(6, 7))
    cones, cares, dcs = cone_cases(rng, ctx.n(40, 400))
    dcs += random_dc_cases(rng, ctx.n(60, 600))
    for c in named:
        r.count('eval_pattern', c['name'] if c['name'] in ct.GTYPES else 'not a gate type')
        r.count('eval_pattern result', 'ok' if c['res'][0] == 'ok' else c['res'][1])
    r.count('pattern simulation', 'cones', len(cones))
    r.count('pattern simulation', 'dont-care tables', len(dcs))
    r.count('pattern simulation', 'inputs_tt sizes', len(tts))
    for c in cones:
        r.count('cone leaves', len(c['leaves']))
    if not model_ok:
        return
    groups = [('pat', named, pat_term, 'check_pat_case', 'pat_case', 'eval_pattern (by name)'),
              ('gpat', typed, gpat_term, 'check_gpat_case', 'gpat_case', 'eval_pattern (by gate type)'),
              ('tt', tts, tt_term, 'check_tt_case', 'tt_case', 'max_pattern / _generate_inputs_tt'),
              ('dc', dcs, dc_term, 'check_dc_case', 'dc_case', 'evaluate_truth_table_with_dont_cares'),
              ('cone', cones, cone_term, 'check_cone_case', 'cone_case', '_get_subcircuits cone simulation'),
              ('care', cares, care_term, 'check_care_case', 'care_case', '_eval_dont_cares')]
    for name, cases, term, chk, typ, what in groups:
        if not cases:
            continue
        bad = coqrun.run_cases(prop_id, name, HEADER, [term(c) for c in cases], chk, typ)
        for i in bad[:3]:
            r.disagreements.append({'name': f'{what}: model vs implementation', 'detail': _brief(cases[i])})
    # statistics: on how many generated cones do the hypotheses of the truth-table theorem hold
    if cones:
        bad = set(coqrun.run_cases(prop_id, 'coneok', HEADER, [cone_term(c) for c in cones], 'cone_case_ok',
                                   'cone_case'))
        r.count('cone_okb (hypotheses of simulate_cone_truth_tables)', 'hold', len(cones) - len(bad))
        r.count('cone_okb (hypotheses of simulate_cone_truth_tables)', 'fail', len(bad))
        for i in bad:
            # since fixes/D30.patch the node set of every cut is closed under operands, whatever the family
            r.disagreements.append({'name': 'cone_okb fails on a cone ('
                                            + ('full cut family' if cones[i]['closed_family'] else 'random sub-family')
                                            + ')', 'detail': _brief(cones[i])})
            break


def _brief(c):
    return {k: (v if k != 'table' else str(v)[:300]) for k, v in c.items()}


# ---------------------------------------------------------------- (ii) step recording
class Recorder:
    def __init__(self):
        self.steps = []
        self.merges = []        # steps of the all-outputs-trivial branch (output merged into a leaf)
        self.events = []        # ('replace', step) / ('merge', step): the same records, in the order they happened
        self.current = None     # the _Subcircuit whose truth table was last requested
        self.pending = None     # state before the merge that is in progress
        self.last_replace = None    # the last replace_subcircuit record that returned normally
        self.arg = None         # dump of the argument circuit at the entry of minimize_subcircuits
        self.ret = None         # dump of the returned circuit (None: the call raised)
        self.ret_is_arg = None  # was the returned object the argument object (edited in place)
        self.calls = 0          # number of (outermost) minimize_subcircuits calls recorded

    def effective_events(self):
        """the events that changed the circuit minimize_subcircuits goes on with: replace_subcircuit calls
        that returned normally and whose result was kept, and merges whose remove_gate returned"""
        return [(kind, st) for kind, st in self.events
                if st['result'][0] == 'ok' and not st.get('discarded')]


@contextlib.contextmanager
def recording():
    from cirbo.core.circuit import Circuit
    from cirbo.minimization import subcircuit as sc
    rec = Recorder()
    orig_replace = Circuit.replace_subcircuit
    orig_tt = sc._Subcircuit.evaluate_truth_table_with_dont_cares
    orig_users = Circuit.get_gate_users
    orig_remove = Circuit.remove_gate
    orig_minimize = sc.minimize_subcircuits
    orig_no_cycles = sc.check_circuit_has_no_cycles

    # The argument circuit is dumped at the entry of minimize_subcircuits: the function edits the object it
    # is given (the trivial-branch merges happen in place), so this is the state the first event must start
    # from; the returned circuit is dumped when the call returns.  harness/subcorr.run_minimize imports the
    # function from the module at every call, so it gets this wrapper while the recording is active.
    def recorded_entry(circuit, *args, **kwargs):
        rec.calls += 1
        if rec.calls > 1:
            return orig_minimize(circuit, *args, **kwargs)
        rec.arg = ct.dump_circuit(circuit)
        out = orig_minimize(circuit, *args, **kwargs)
        rec.ret = ct.dump_circuit(out)
        rec.ret_is_arg = out is circuit
        return out

    # minimize_subcircuits re-checks the replaced copy for cycles and drops it when the check raises: such a
    # recorded step did not change the circuit the function goes on with
    def no_cycles(circuit, *args, **kwargs):
        try:
            return orig_no_cycles(circuit, *args, **kwargs)
        except Exception:  # noqa: BLE001
            if sys._getframe(1).f_code.co_name == 'minimize_subcircuits' and rec.last_replace is not None:
                rec.last_replace['discarded'] = True
            raise

    # The all-outputs-trivial branch rewires the users of `output` to the leaf `new_output` by hand
    # and then calls circuit.remove_gate(output).  Its first action on the circuit is
    # circuit.get_gate_users(output) from the frame of minimize_subcircuits: the state is
    # dumped there (before), and again after remove_gate returns (after).
    def get_gate_users(self, label):
        f = sys._getframe(1)
        if f.f_code.co_name == 'minimize_subcircuits':
            loc = f.f_locals
            if loc.get('circuit') is self and loc.get('output') == label and 'new_output' in loc \
                    and loc.get('outputs_mapping', {}).get(label) == loc['new_output']:
                sub = loc['subcircuit']
                rec.pending = {'before': ct.dump_circuit(self), 'o': label, 'l': loc['new_output'],
                               'leaves': list(sub.inputs), 'care': list(sub.inputs_tt)}
        return orig_users(self, label)

    def remove_gate(self, label):
        f = sys._getframe(1)
        mine = (f.f_code.co_name == 'minimize_subcircuits' and rec.pending is not None
                and rec.pending['o'] == label)
        if not mine:
            return orig_remove(self, label)
        step, rec.pending = rec.pending, None
        try:
            out = orig_remove(self, label)
        except Exception as e:  # noqa: BLE001
            step['result'] = ('err', ct.err_name(e))
            rec.merges.append(step)
            rec.events.append(('merge', step))
            raise
        step['result'] = ('ok', ct.dump_circuit(self))
        rec.merges.append(step)
        rec.events.append(('merge', step))
        return out

    def replace_subcircuit(self, subcircuit, inputs_mapping, outputs_mapping):
        step = {'before': ct.dump_circuit(self), 'sub': ct.dump_circuit(subcircuit),
                'imap': list(inputs_mapping.items()), 'omap': list(outputs_mapping.items()),
                'fresh': env.uuid_counter.peek(1)[0], 'cone': rec.current}
        try:
            out = orig_replace(self, subcircuit, inputs_mapping, outputs_mapping)
        except Exception as e:  # noqa: BLE001
            step['result'] = ('err', ct.err_name(e))
            rec.steps.append(step)
            rec.events.append(('replace', step))
            raise
        step['result'] = ('ok', ct.dump_circuit(self))
        rec.steps.append(step)
        rec.events.append(('replace', step))
        rec.last_replace = step
        return out

    def evaluate_truth_table_with_dont_cares(self):
        rec.current = {'inputs': list(self.inputs), 'outputs': list(self.outputs),
                       'care': list(self.inputs_tt)}
        return orig_tt(self)

    Circuit.replace_subcircuit = replace_subcircuit
    Circuit.get_gate_users = get_gate_users
    Circuit.remove_gate = remove_gate
    sc._Subcircuit.evaluate_truth_table_with_dont_cares = evaluate_truth_table_with_dont_cares
    sc.minimize_subcircuits = recorded_entry
    sc.check_circuit_has_no_cycles = no_cycles
    try:
        yield rec
    finally:
        sc.minimize_subcircuits = orig_minimize
        sc.check_circuit_has_no_cycles = orig_no_cycles
        Circuit.replace_subcircuit = orig_replace
        Circuit.get_gate_users = orig_users
        Circuit.remove_gate = orig_remove
        sc._Subcircuit.evaluate_truth_table_with_dont_cares = orig_tt


def step_term(st):
    m = lambda d: ct.lst(f'({ct.s(a)}, {ct.s(b)})' for a, b in d)
    return (f'({ct.circuit(st["before"])}, {ct.circuit(st["sub"])}, {m(st["imap"])}, {m(st["omap"])}, '
            f'{ct.s(st["fresh"])}, {ct.res(st["result"], ct.circuit)})')


def val_term(st, care):
    leaves = [a for a, _ in st['imap']]
    outs = [a for a, _ in st['omap']]
    k = 'None' if care is None else f'(Some {vecs(str_vec(s) for s in care)})'
    return (f'({ct.circuit(st["before"])}, {ct.circuit(st["result"][1])}, {ct.labels(leaves)}, '
            f'{ct.labels(outs)}, {k})')


def validate_steps(prop_id, r, runs, model_ok):
    """runs: list of (case, [steps]).  Returns the indices (into runs) of runs with a rejected step."""
    flat = [(i, st) for i, (_, steps) in enumerate(runs) for st in steps]
    r.count('replacement steps', 'recorded replace_subcircuit calls', len(flat))
    for _, st in flat:
        r.count('replace_subcircuit result', 'returned' if st['result'][0] == 'ok' else st['result'][1])
    if not model_ok or not flat:
        return []
    rejected_runs = []
    bad = coqrun.run_cases(prop_id, 'replay', HEADER, [step_term(st) for _, st in flat], 'check_step_replay',
                           'step_case')
    for j in bad[:3]:
        i, st = flat[j]
        r.disagreements.append({'name': 'replace_subcircuit inside minimize_subcircuits: model state vs implementation',
                                'case': runs[i][0], 'detail': {k: st[k] for k in ('imap', 'omap', 'fresh', 'result')}})
    ok_steps = [(i, st) for i, st in flat if st['result'][0] == 'ok']
    ident = [(i, st) for i, st in ok_steps if all(a == b for a, b in st['imap']) and all(a == b for a, b in st['omap'])]
    r.count('replacement steps', 'returned normally', len(ok_steps))
    if len(ident) != len(ok_steps):
        r.count('replacement steps', 'non-identity mapping (not validated)', len(ok_steps) - len(ident))
        r.notes.append('some recorded steps had a non-identity label mapping; check_subst is stated for identical labels')
    if not ident:
        return []
    bad_all = coqrun.run_cases(prop_id, 'valall', HEADER, [val_term(st, None) for _, st in ident],
                               'check_val_case', 'val_case')
    r.count('step validation', 'accepted on all 2^k leaf vectors', len(ident) - len(bad_all))
    retry = []
    for j in bad_all:
        i, st = ident[j]
        cone = st['cone']
        if cone is not None and cone['inputs'] == [a for a, _ in st['imap']]:
            retry.append((i, st, cone['care']))
        else:
            rejected_runs.append((i, st, 'no care set recorded for the step'))
    if retry:
        bad_care = set(coqrun.run_cases(prop_id, 'valcare', HEADER, [val_term(st, care) for _, st, care in retry],
                                        'check_val_case', 'val_case'))
        r.count('step validation', 'accepted on the care set only', len(retry) - len(bad_care))
        for j, (i, st, care) in enumerate(retry):
            if j in bad_care:
                rejected_runs.append((i, st, 'rejected on the care set'))
    r.count('step validation', 'rejected', len(rejected_runs))
    return rejected_runs


def merge_term(st, care):
    k = 'None' if care is None else f'(Some {vecs(str_vec(s) for s in care)})'
    return (f'({ct.circuit(st["before"])}, {ct.circuit(st["result"][1])}, {ct.labels(st["leaves"])}, '
            f'{ct.s(st["o"])}, {ct.s(st["l"])}, {k})')


def validate_merges(prop_id, r, runs, model_ok):
    """runs: list of (case, [merge steps]).  Returns [(run index, step, why)] for rejected steps."""
    flat = [(i, st) for i, (_, ms) in enumerate(runs) for st in ms]
    r.count('trivial-branch steps', 'recorded (output merged into a leaf)', len(flat))
    for _, st in flat:
        r.count('trivial-branch remove_gate result', 'returned' if st['result'][0] == 'ok' else st['result'][1])
    ok = [(i, st) for i, st in flat if st['result'][0] == 'ok']
    if not model_ok or not ok:
        return []
    bad_all = coqrun.run_cases(prop_id, 'mergeall', HEADER, [merge_term(st, None) for _, st in ok],
                               'check_merge_case', 'merge_case')
    r.count('trivial-branch validation', 'accepted on all 2^k leaf vectors', len(ok) - len(bad_all))
    rejected = []
    if bad_all:
        retry = [ok[j] for j in bad_all]
        bad_care = set(coqrun.run_cases(prop_id, 'mergecare', HEADER, [merge_term(st, st['care']) for _, st in retry],
                                        'check_merge_case', 'merge_case'))
        r.count('trivial-branch validation', 'accepted on the care set only', len(retry) - len(bad_care))
        rejected = [(i, st, 'merge rejected on the care set') for j, (i, st) in enumerate(retry) if j in bad_care]
    r.count('trivial-branch validation', 'rejected', len(rejected))
    return rejected


# ---------------------------------------------------------------- (iii) whole runs, end to end
def _care(care):
    return 'None' if care is None else f'(Some {vecs(str_vec(s) for s in care)})'


def step_care(st):
    """the care set recorded for a replace_subcircuit step (None when it does not belong to the step's cut)"""
    cone = st.get('cone')
    if cone is not None and cone['inputs'] == [a for a, _ in st['imap']]:
        return cone['care']
    return None


def event_term(kind, st, use_care):
    if kind == 'replace':
        return 'EvReplace ' + val_term(st, step_care(st) if use_care else None)
    return 'EvMerge ' + merge_term(st, st['care'] if use_care else None)


def run_term(run, use_care):
    """(argument circuit, events in order, returned circuit) : SubcircuitRun.run_case"""
    evs = ct.lst(event_term(kind, st, use_care) for kind, st in run['events'])
    return f'({ct.circuit(run["arg"])}, {evs}, {ct.circuit(run["ret"])})'


def run_record(case, rec, res):
    """what validate_runs needs of one recorded run (rec: the Recorder, res: result of subcorr.run_minimize)"""
    return {'case': case, 'returned': res[0] == 'ok', 'arg': rec.arg, 'ret': rec.ret,
            'result_dump': res[1] if res[0] == 'ok' else None, 'events': rec.effective_events(),
            'ret_is_arg': rec.ret_is_arg, 'calls': rec.calls,
            'dropped': sum(1 for _, st in rec.events if st['result'][0] != 'ok' or st.get('discarded'))}


def _run_size(run):
    states = [run['arg'], run['ret']]
    for _, st in run['events']:
        states += [st['before'], st['result'][1]]
    return max(len(d['gates']) for d in states)


def validate_runs(prop_id, r, runs, model_ok):
    """runs: list of run_record(...).  Every run that returned normally is printed as a Coq term and the proved
    validator SubcircuitRun.check_run (through check_run_case) is evaluated on it: the states chain from the
    argument circuit to the returned circuit and every event is accepted.  Returns
    (number of runs accepted, [(run index, why)] for the rejected runs)."""
    returned = [(i, run) for i, run in enumerate(runs) if run['returned']]
    r.count('whole runs', 'returned normally', len(returned))
    todo, rejected = [], []
    for i, run in returned:
        if run['arg'] is None or run['ret'] is None or run['calls'] != 1:
            rejected.append((i, 'the entry / return of minimize_subcircuits was not recorded'))
            continue
        if run['ret'] != run['result_dump']:
            rejected.append((i, 'the circuit recorded at the return differs from the circuit the caller received'))
            continue
        if len(run['events']) > MAX_RUN_EVENTS:
            r.count('whole runs', f'skipped: more than {MAX_RUN_EVENTS} events')
            continue
        if _run_size(run) > MAX_RUN_GATES:
            r.count('whole runs', f'skipped: a state above {MAX_RUN_GATES} gates')
            continue
        if any(kind == 'replace' and not (all(a == b for a, b in st['imap']) and all(a == b for a, b in st['omap']))
               for kind, st in run['events']):
            r.count('whole runs', 'skipped: a step with a non-identity label mapping')
            continue
        todo.append((i, run))
        r.count('events per run (validated end to end)', len(run['events']))
        r.count('dropped steps per run (raised or discarded, not part of the chain)', run['dropped'])
        r.count('returned object', 'the argument object, edited in place' if run['ret_is_arg'] else 'a new object')
    accepted = 0
    if not model_ok or not todo:
        r.count('whole runs', 'rejected', len(rejected))
        return accepted, rejected
    bad_all = coqrun.run_cases(prop_id, 'runall', RUN_HEADER, [run_term(run, False) for _, run in todo],
                               'check_run_case', 'run_case')
    r.count('whole runs', 'accepted by check_run, every event on all 2^k leaf vectors', len(todo) - len(bad_all))
    accepted += len(todo) - len(bad_all)
    retry = [todo[j] for j in bad_all]
    still = []
    if retry:
        bad_care = set(coqrun.run_cases(prop_id, 'runcare', RUN_HEADER, [run_term(run, True) for _, run in retry],
                                        'check_run_case', 'run_case'))
        r.count('whole runs', 'accepted by check_run with the recorded care sets', len(retry) - len(bad_care))
        accepted += len(retry) - len(bad_care)
        still = [retry[j] for j in sorted(bad_care)]
    if still:
        # which part of check_run fails (diagnostics only; the verdict is check_run_case)
        terms = [run_term(run, True) for _, run in still]
        parts = [('the states do not chain from the argument circuit to the returned circuit', 'run_chain_links'),
                 ('an event is rejected by its validator', 'run_events_ok'),
                 ('the argument or the returned circuit is not well formed / has a rejected operand count',
                  'run_ends_ok')]
        why = [[] for _ in still]
        for text, fn in parts:
            for j in coqrun.run_cases(prop_id, 'rundiag', RUN_HEADER, terms, fn, 'run_case'):
                why[j].append(text)
        for (i, run), w in zip(still, why):
            rejected.append((i, '; '.join(w) or 'check_run is false'))
    r.count('whole runs', 'rejected', len(rejected))
    return accepted, rejected
