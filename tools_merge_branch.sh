#!/bin/sh
# merge a branch; evidence conflicts -> ours; MANIFEST conflicts -> ours (regenerated later); DESIGN.md -> keep both sides
b=$1
git merge --no-edit $b > /tmp/merge.log 2>&1
for f in $(git diff --name-only --diff-filter=U); do
  case $f in
    evidence/*|MANIFEST.json) git checkout --ours -- $f; git add $f;;
    DESIGN.md) python3 - <<'P'
import re
s=open('DESIGN.md').read()
s=re.sub(r'^<<<<<<< [^\n]*\n','',s,flags=re.M)
s=re.sub(r'^=======\n','\n',s,flags=re.M)
s=re.sub(r'^>>>>>>> [^\n]*\n','',s,flags=re.M)
open('DESIGN.md','w').write(s)
P
      git add DESIGN.md;;
    *) echo "REAL CONFLICT: $f";;
  esac
done
if git diff --name-only --diff-filter=U | grep -q .; then echo "unresolved"; else git commit -q --no-edit 2>/dev/null; echo "merged $b"; fi
