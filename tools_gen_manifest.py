#!/usr/bin/env python3
"""Regenerate MANIFEST.json from the property modules (run after adding a property)."""
import importlib
import json
import pathlib
import sys

VERIF = pathlib.Path(__file__).resolve().parent
sys.path.insert(0, str(VERIF))
ALL = [f'C{n:02d}' for n in range(1, 21)]
NOT_YET = 'check not built yet in this revision of /verif (planned, see DESIGN.md section 7)'


def main():
    checks, na = [], []
    for pid in ALL:
        f = VERIF / 'props' / f'{pid.lower()}.py'
        if not f.exists():
            na.append({'property_id': pid, 'reason': NOT_YET})
            continue
        m = importlib.import_module('props.' + pid.lower())
        checks.append({
            'property_id': pid,
            'quick_cmd': f'./check {pid} --tier quick',
            'thorough_cmd': f'./check {pid} --tier thorough',
            'evidence_file': f'/verif/evidence/{pid}.json',
            'replay_cmd_template': f'./check {pid} --replay {{path}}',
            'engine': 'coq-model',
            'level_claimed': {'category': getattr(m, 'LEVEL_CATEGORY', 'proof'), 'text': m.LEVEL_TEXT, 'design_ref': f'DESIGN.md section 7, {pid}'},
            'level_note': m.LEVEL_NOTE,
            'technique': m.TECHNIQUE,
        })
    manifest = {
        'version': 1,
        'setup_cmd': 'make -C /verif setup',
        'hooks': {'guard': 'CIRBO_VERIF', 'enable': 'no source hooks are needed: instrumentation wraps functions from the harness process',
                  'baseline_off_cmd': 'cd /repo && /venv/bin/python -m pytest -ra -q -p no:cacheprovider --timeout=900 --continue-on-collection-errors',
                  'source_commits': [], 'add_only': True},
        'engines': [{'name': 'coq-model', 'path': '/verif/coq',
                     'serves_properties': [c['property_id'] for c in checks],
                     'kind_free_text': 'Gallina model of cirbo + theorems (Coq 8.16.1); 26 fail-closed translators regenerate the tables AND the algorithms of the library from /repo on every run, each regenerated function proved equal to the hand-written model; '
                                       'vm_compute correspondence against the implementation; direct oracles for failing-input search'}],
        'checks': checks,
        'not_applicable': na,
        'notes': 'See DESIGN.md. Trusted base per property is repeated in each evidence file.',
    }
    (VERIF / 'MANIFEST.json').write_text(json.dumps(manifest, indent=1) + '\n')
    print(f'{len(checks)} checks, {len(na)} not claimed')


if __name__ == '__main__':
    main()
