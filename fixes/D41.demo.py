import copy, sys
sys.path.insert(0, sys.argv[1])
from cirbo.core.logic import DontCare
from cirbo.core.circuit import Circuit, gate
from cirbo.circuits_db.db import CircuitsDatabase
db = CircuitsDatabase(); db.open()
# two stored functions of 2 inputs: XOR needs one gate, constant... store AND (1 gate) and a 2-gate circuit for 0110? use: 0001 (AND) and 0111 (OR)
def mk(t):
    c = Circuit(); c.add_inputs(['a','b']); c.emplace_gate('g', t, ('a','b')); c.mark_as_output('g'); return c
db.add_circuit(mk(gate.AND)); db.add_circuit(mk(gate.OR))
star = copy.copy(DontCare)           # equal to DontCare, not the same object (pickle / copy of a model table)
assert star == DontCare and star is not DontCare
for dc in (DontCare, star):
    r = db.get_by_raw_truth_table_model([[False, True, True, dc]])    # completions 0110 (absent) and 0111 (OR, stored)
    print('singleton' if dc is DontCare else 'copy', None if r is None else r.get_truth_table())
