#!/usr/bin/env python3
"""Import seeded changes delivered by seeding agents (/tmp/seed/out/<id>/{patch.diff,demo.py,notes.txt}) into
seeded/<id>/ with a meta.json.  usage: tools_import_seeds.py <round> [suffix letters, default 'gh']"""
import json
import pathlib
import shutil
import sys

rnd = int(sys.argv[1])
letters = sys.argv[2] if len(sys.argv) > 2 else 'gh'
V = pathlib.Path(__file__).resolve().parent
for d in sorted(pathlib.Path('/tmp/seed/out').iterdir()):
    if d.name[-1] not in letters:
        continue
    dst = V / 'seeded' / d.name
    if dst.exists():
        continue
    if not all((d / f).exists() for f in ('patch.diff', 'demo.py', 'notes.txt')):
        print('incomplete', d.name)
        continue
    dst.mkdir()
    for f in ('patch.diff', 'notes.txt'):
        shutil.copy(d / f, dst / f)
    (dst / 'demo.py').write_text((d / 'demo.py').read_text().replace('/tmp/seedshims', '/verif/harness/shims'))
    meta = {'id': d.name, 'property': d.name[:3], 'round': rnd,
            'source': 'independent sub-agent given only the property text, the descriptions of the earlier mutants '
                      'and a scratch worktree',
            'needs': (d / 'notes.txt').read_text()[:2500]}
    (dst / 'meta.json').write_text(json.dumps(meta, indent=1))
    print('imported', d.name)
