#!/bin/bash
# Run tools_seeded.py for disjoint groups of seeded changes in parallel.  A run against a changed CIRBO_REPO
# regenerates coq/Generated/* and rebuilds the affected .vo files in the tree it runs from, so parallel runs need
# private copies of /verif (built files included, so nothing is rebuilt that the change does not touch).  Each
# copy lives under /root/scratch/sp<n> and is removed afterwards; its RESULTS.json entries are merged into
# /verif/seeded/RESULTS.json.
# usage: tools_seeded_parallel.sh <jobs> <id> [<id> ...]
#        SEEDED_TOOL=tools_refactors.py SEEDED_DIR=refactors tools_seeded_parallel.sh <jobs> <id> ...   (harmless refactorings)
set -u
jobs=$1; shift
ids=("$@")
mkdir -p /root/scratch
pids=()
for ((j = 0; j < jobs; j++)); do
  grp=()
  for ((i = j; i < ${#ids[@]}; i += jobs)); do grp+=("${ids[$i]}"); done
  [ ${#grp[@]} -eq 0 ] && continue
  (
    c=/root/scratch/sp$j
    rm -rf "$c"; cp -a /verif "$c"; rm -f "$c/coq/.build.lock"
    cd "$c" && /venv/bin/python ${SEEDED_TOOL:-tools_seeded.py} "${grp[@]}" > "/root/scratch/sp$j.log" 2>&1
  ) &
  pids+=($!)
done
for p in "${pids[@]}"; do wait "$p"; done
SEEDED_DIR=${SEEDED_DIR:-seeded} /venv/bin/python - "$jobs" "${ids[@]}" <<'EOF'
import json, os, pathlib, sys
D = os.environ.get('SEEDED_DIR', 'seeded')
jobs = int(sys.argv[1]); order = sys.argv[2:]; ids = set(order)
rf = pathlib.Path(f'/verif/{D}/RESULTS.json')
res = json.loads(rf.read_text())
for j in range(jobs):
    f = pathlib.Path(f'/root/scratch/sp{j}/{D}/RESULTS.json')
    if f.exists():
        got = json.loads(f.read_text())
        for k in order[j::jobs]:          # only what THIS copy ran (the rest of its file is the old state)
            if k in got:
                res[k] = got[k]
rf.write_text(json.dumps(res, indent=1))
for k in sorted(ids):
    r = res.get(k, {})
    if D != 'seeded':
        print(k, json.dumps(r)[:300])
        continue
    print(k, r.get('tests_on_mutant'), 'demo', r.get('demo_on_mutant'), r.get('demo_on_repo'),
          {p: ('MISSED' if not c.get('violation') else 'no-input' if c.get('no_failing_input') else 'replay')
           for p, c in r.get('checks', {}).items()}, r.get('error', ''))
EOF
for ((j = 0; j < jobs; j++)); do rm -rf "/root/scratch/sp$j"; done
