#!/usr/bin/env python3
"""Run the checks against the seeded changes kept under /verif/seeded/<id>/ (patch.diff, demo.py,
meta.json).  For each one: scratch worktree of /repo HEAD outside /repo and /verif, apply the patch,
run `CIRBO_REPO=<scratch> ./check <prop> --tier quick`, replay the reported replay file on the
changed and on the unchanged tree, remove the worktree.  Results go to seeded/RESULTS.json.

usage: tools_seeded.py [id ...]     (default: all)
"""
import json
import os
import pathlib
import re
import subprocess
import sys
import time

VERIF = pathlib.Path(__file__).resolve().parent
SCRATCH = pathlib.Path('/tmp/verif-seeded')


def sh(cmd, **kw):
    return subprocess.run(cmd, capture_output=True, text=True, **kw)


def run_one(d: pathlib.Path):
    meta = json.loads((d / 'meta.json').read_text())
    props = meta['properties'] if 'properties' in meta else [meta['property']]
    wt = SCRATCH / d.name
    sh(['git', '-C', '/repo', 'worktree', 'remove', '--force', str(wt)])
    SCRATCH.mkdir(parents=True, exist_ok=True)
    r = sh(['git', '-C', '/repo', 'worktree', 'add', '--detach', str(wt), 'HEAD'])
    assert r.returncode == 0, r.stderr
    out = {'id': d.name, 'checks': {}}
    try:
        r = sh(['git', '-C', str(wt), 'apply', str(d / 'patch.diff')])
        if r.returncode != 0:
            out['error'] = 'patch does not apply: ' + r.stderr[:300]
            return out
        t = sh(['/venv/bin/python', '-m', 'pytest', '-q', '-p', 'no:cacheprovider', '--timeout=900',
                '--continue-on-collection-errors'], cwd=str(wt))
        m = re.search(r'(\d+) passed.*?(\d+) errors', t.stdout)
        out['tests_on_mutant'] = m.group(0) if m else t.stdout[-200:]
        if (d / 'demo.py').exists():
            out['demo_on_mutant'] = sh(['/venv/bin/python', str(d / 'demo.py'), str(wt)]).returncode
            out['demo_on_repo'] = sh(['/venv/bin/python', str(d / 'demo.py'), '/repo']).returncode
        for prop in props:
            env = dict(os.environ, CIRBO_REPO=str(wt), VERIF_EVIDENCE_DIR='/tmp/verif-seeded/evidence',
                       VERIF_REPLAY_DIR='/tmp/verif-seeded/replays')
            t0 = time.time()
            r = sh([str(VERIF / 'check'), prop, '--tier', 'quick'], env=env)
            res = {'exit': r.returncode, 'wall_s': round(time.time() - t0, 1)}
            m = re.search(r'VIOLATION property=(\S+) replay=(\S+)(.*)', r.stdout)
            if m:
                res['violation'] = True
                res['no_failing_input'] = 'no-failing-input-found' in m.group(3)
                res['message'] = r.stdout[m.end():m.end() + 300].strip().splitlines()[:1]
                if not res['no_failing_input']:
                    rp = sh([str(VERIF / 'check'), prop, '--replay', m.group(2)], env=env)
                    res['replay_fails_on_mutant'] = rp.returncode == 1
                    rp2 = sh([str(VERIF / 'check'), prop, '--replay', m.group(2)],
                             env=dict(os.environ, CIRBO_REPO='/repo'))
                    res['replay_passes_on_repo'] = rp2.returncode == 0
            else:
                res['violation'] = False
                res['tail'] = r.stdout[-300:]
            out['checks'][prop] = res
    finally:
        sh(['git', '-C', '/repo', 'worktree', 'remove', '--force', str(wt)])
    return out


def main():
    ids = sys.argv[1:]
    dirs = sorted(p for p in (VERIF / 'seeded').iterdir() if p.is_dir() and (p / 'patch.diff').exists()
                  and (not ids or p.name in ids))
    results = {}
    rf = VERIF / 'seeded' / 'RESULTS.json'
    if rf.exists():
        results = json.loads(rf.read_text())
    for d in dirs:
        res = run_one(d)
        results[d.name] = res
        print(json.dumps(res))
        rf.write_text(json.dumps(results, indent=1))
    # restore generated files for the real repository
    subprocess.run(['/venv/bin/python', '-m', 'framework.setup'], cwd=VERIF, capture_output=True)


if __name__ == '__main__':
    main()
