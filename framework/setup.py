"""setup: regenerate every generated file from $CIRBO_REPO and do a full .vo build."""
import importlib
import pathlib
import sys

VERIF = pathlib.Path(__file__).resolve().parent.parent
sys.path.insert(0, str(VERIF))
from framework import coqrun  # noqa: E402


def main():
    for f in sorted((VERIF / 'translator').glob('t*_*.py')):
        m = importlib.import_module('translator.' + f.stem)
        if not hasattr(m, 'translate'):
            continue          # helper module of a translator (e.g. t21_expr)
        print(f.stem, m.translate())
    ok, out, secs = coqrun.make([])
    print(out[-3000:])
    print(f'build {"ok" if ok else "FAILED"} in {secs:.0f}s')
    return 0 if ok else 1


if __name__ == '__main__':
    sys.exit(main())
