"""Building the Coq development and evaluating generated case files with vm_compute."""
import fcntl
import os
import pathlib
import re
import subprocess
import time

VERIF = pathlib.Path(__file__).resolve().parent.parent
COQ = VERIF / 'coq'
COQC_TIMEOUT = int(os.environ.get('VERIF_COQC_TIMEOUT', '900'))


class CoqError(Exception):
    def __init__(self, msg, output=''):
        super().__init__(msg)
        self.output = output


class BuildLock:
    def __enter__(self):
        self.f = open(COQ / '.build.lock', 'w')
        fcntl.flock(self.f, fcntl.LOCK_EX)
        return self

    def __exit__(self, *a):
        fcntl.flock(self.f, fcntl.LOCK_UN)
        self.f.close()


def project_files():
    files = []
    for sub in ('Model', 'Generated', 'Proofs', 'Properties'):
        files += sorted(str(p.relative_to(COQ)) for p in (COQ / sub).glob('*.v'))
    return files


def ensure_makefile():
    files = project_files()
    text = '-Q . Cirbo\n' + '\n'.join(files) + '\n'
    cp = COQ / '_CoqProject'
    if not cp.exists() or cp.read_text() != text or not (COQ / 'Makefile').exists():
        cp.write_text(text)
        subprocess.run(['coq_makefile', '-f', '_CoqProject', '-o', 'Makefile'], cwd=COQ, check=True,
                       capture_output=True)


def make(targets=(), jobs=16):
    """full .vo build of the given targets (all when empty); returns (ok, output, seconds)"""
    t0 = time.time()
    with BuildLock():
        ensure_makefile()
        cmd = ['timeout', str(COQC_TIMEOUT), 'make', f'-j{jobs}', '--no-print-directory'] + list(targets)
        p = subprocess.run(cmd, cwd=COQ, capture_output=True, text=True)
    return p.returncode == 0, p.stdout + p.stderr, time.time() - t0


def coqc_file(path: pathlib.Path, timeout=COQC_TIMEOUT):
    p = subprocess.run(['timeout', str(timeout), 'coqc', '-Q', str(COQ), 'Cirbo', str(path)],
                       cwd=path.parent, capture_output=True, text=True)
    return p.returncode, p.stdout, p.stderr


def first_error(output: str) -> str:
    m = re.search(r'File "([^"]+)", line (\d+).*?\n(Error:.*?)(?:\n\n|\Z)', output, re.S)
    if m:
        return f'{m.group(1)}:{m.group(2)}: ' + ' '.join(m.group(3).split())[:400]
    return ' '.join(output.split())[-400:]


def dependency_cone(vfile: str):
    """all project .v files the given one (transitively) depends on, itself included"""
    ensure_makefile()
    p = subprocess.run(['coqdep', '-Q', '.', 'Cirbo'] + project_files(), cwd=COQ, capture_output=True, text=True)
    deps = {}
    for line in p.stdout.splitlines():
        if ':' not in line:
            continue
        lhs, rhs = line.split(':', 1)
        tgt = next((t for t in lhs.split() if t.endswith('.vo')), None)
        if not tgt:
            continue
        deps[tgt[:-1]] = [d[:-1] for d in rhs.split() if d.endswith('.vo')]
    cone, todo = set(), [vfile]
    while todo:
        f = todo.pop()
        if f in cone:
            continue
        cone.add(f)
        todo += deps.get(f, [])
    dependency_cone.deps = deps
    return sorted(cone)


def dependents_of(failed: str, cone):
    """files of the cone that (transitively) depend on `failed`, itself included"""
    deps = getattr(dependency_cone, 'deps', {})
    bad = {failed}
    changed = True
    while changed:
        changed = False
        for f in cone:
            if f not in bad and any(d in bad for d in deps.get(f, [])):
                bad.add(f)
                changed = True
    return bad


STMT = re.compile(r'^\s*(Theorem|Lemma|Corollary|Example|Fact|Proposition)\s+([A-Za-z0-9_\']+)', re.M)


def count_statements(files):
    names = []
    for f in files:
        names += [m.group(2) for m in STMT.finditer((COQ / f).read_text())]
    return names


FORBIDDEN = re.compile(r'\b(Admitted|admit|Axiom|Axioms|Parameter|Parameters|Conjecture|Conjectures|Hypothesis|Hypotheses|Variable|Variables)\b|Unset\s+Guard|bypass_check|type-in-type|impredicative-set|Admit\s+Obligations|Unset\s+Positivity|Unset\s+Universe')


def strip_comments(text: str) -> str:
    out, depth, i = [], 0, 0
    while i < len(text):
        if text.startswith('(*', i):
            depth += 1
            i += 2
        elif text.startswith('*)', i) and depth:
            depth -= 1
            i += 2
        else:
            if depth == 0:
                out.append(text[i])
            i += 1
    return ''.join(out)


def anti_cheat(files):
    """forbidden declarations outside comments; Variable/Hypothesis are allowed only inside a Section"""
    hits = []
    for f in files:
        text = strip_comments((COQ / f).read_text())
        depth = 0
        for n, line in enumerate(text.splitlines(), 1):
            if re.match(r'\s*Section\b', line):
                depth += 1
            if re.match(r'\s*End\b', line) and depth:
                depth -= 1
            for m in FORBIDDEN.finditer(line):
                w = m.group(0)
                if w.split()[0] in ('Variable', 'Variables', 'Hypothesis', 'Hypotheses') and depth > 0:
                    continue
                hits.append(f'{f}:{n}: {w}')
    return hits


def print_assumptions(prop_id: str, theorems, module: str):
    """returns {theorem: 'closed' | [axioms...]}"""
    d = COQ / 'Corr' / prop_id
    d.mkdir(parents=True, exist_ok=True)
    f = d / f'assumptions_{prop_id}.v'
    lines = [f'Require Import {module}.']
    for t in theorems:
        lines.append(f'Goal True. idtac "@@THEOREM {t}". exact I. Qed.')
        lines.append(f'Print Assumptions {t}.')
    f.write_text('\n'.join(lines) + '\n')
    rc, out, err = coqc_file(f)
    if rc != 0:
        raise CoqError('Print Assumptions failed: ' + first_error(out + err), out + err)
    result, cur = {}, None
    for line in out.splitlines():
        if line.startswith('@@THEOREM '):
            cur = line.split()[1]
            result[cur] = []
        elif cur and line.strip():
            if line.startswith('Closed under the global context'):
                result[cur] = 'closed'
            elif line.startswith('Axioms:'):
                continue
            elif isinstance(result[cur], list):
                m = re.match(r'^([A-Za-z0-9_.\']+)\s*:', line)
                if m:
                    result[cur].append(m.group(1))
    return result


def run_cases(prop_id: str, name: str, header: str, cases, check_fn: str, case_type: str = None,
              shard_bytes=60000, jobs=16):
    """cases: list of Coq terms (strings) of one type; check_fn : that type -> bool.
    Each shard file is compiled by its own coqc (vm_compute evaluates the model inside the
    kernel's VM).  Returns the sorted list of indices of cases on which check_fn is not true."""
    d = COQ / 'Corr' / prop_id
    d.mkdir(parents=True, exist_ok=True)
    for old in list(d.glob(f'cases_{name}_*')) + list(d.glob(f'.cases_{name}_*')):
        old.unlink()
    files = []
    k = 0
    ann = f' : list ({case_type})' if case_type else ''
    while k < len(cases):
        j, size = k, 0
        while j < len(cases) and (j == k or size + len(cases[j]) <= shard_bytes):
            size += len(cases[j])
            j += 1
        f = d / f'cases_{name}_{len(files)}.v'
        body = ';\n  '.join(cases[k:j])
        f.write_text(f'{header}\nDefinition cases{ann} :=\n  [{body}].\n'
                     f'Eval vm_compute in (failing_indices {check_fn} cases).\n')
        files.append((k, f))
        k = j
    failing = []

    def reap(k, f, p):
        out, err = p.communicate()
        if p.returncode != 0:
            raise CoqError(f'case file {f.name} does not compile: ' + first_error(out + err), out + err)
        m = re.search(r'=\s*\[(.*?)\]\s*:\s*list nat', out, re.S)
        if not m:
            raise CoqError(f'cannot parse output of {f.name}', out)
        body = m.group(1).strip()
        if body:
            failing.extend(k + int(x.strip().split('%')[0]) for x in body.replace('\n', ' ').split(';'))

    pending = list(files)
    running = []
    try:
        while pending or running:
            while pending and len(running) < jobs:
                k, f = pending.pop(0)
                p = subprocess.Popen(['timeout', str(COQC_TIMEOUT), 'coqc', '-Q', str(COQ), 'Cirbo', str(f)],
                                     cwd=d, stdout=subprocess.PIPE, stderr=subprocess.PIPE, text=True)
                running.append((k, f, p))
            k, f, p = running.pop(0)
            reap(k, f, p)
    finally:
        for _, _, p in running:
            p.kill()
    for f in list(d.glob(f'cases_{name}_*')) + list(d.glob(f'.cases_{name}_*')):
        if f.suffix != '.v':
            f.unlink()
    return sorted(failing)


def coqchk(module: str, timeout=1800):
    """independent re-check of the compiled property file and everything it depends on;
    returns the CONTEXT SUMMARY as a dict of lists"""
    p = subprocess.run(['timeout', str(timeout), 'coqchk', '-silent', '-o', '-Q', str(COQ), 'Cirbo', module],
                       cwd=COQ, capture_output=True, text=True)
    out = p.stdout + p.stderr
    summary = {}
    cur = None
    for line in out.splitlines():
        m = re.match(r'^\* (.*?):\s*(.*)$', line)
        if m:
            cur = m.group(1)
            summary[cur] = [m.group(2)] if m.group(2) else []
        elif cur and line.strip():
            summary[cur].append(line.strip())
    return p.returncode, summary, out[-2000:]
