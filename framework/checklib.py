"""Generic driver for one property check (see DESIGN.md sections 6 and 9).

A property module (props/cXX.py) provides:
  ID                      'C01'
  TRANSLATORS             list of callables regenerating coq/Generated/*.v from $CIRBO_REPO
  PROPERTY_FILE           'Properties/C01.v'
  THEOREMS                names (in that file) whose assumptions are printed
  PARTIAL                 {theorem name: what the statement leaves out}   (may be empty)
  TECHNIQUE, TRUSTED      strings for the evidence
  correspondence(ctx)  -> CorrResult      model vs implementation on generated cases
  oracle_cases(ctx)    -> iterable of cases for the direct oracle (usually the same cases)
  oracle(case)         -> None | failure description      the property itself, by brute force, on the implementation
  classify(case, msg)  -> str     key used to match known findings
  search(ctx, budget_s)-> None | (case, msg)     extra failing-input search after a broken tie
"""
import argparse
import hashlib
import importlib
import json
import os
import pathlib
import random
import sys
import time
import traceback

VERIF = pathlib.Path(__file__).resolve().parent.parent
sys.path.insert(0, str(VERIF))

from framework import coqrun  # noqa: E402
from translator.common import TranslatorError  # noqa: E402

BASE_TRUSTED = [
    'Coq 8.16.1 kernel and coqc; vm_compute (bytecode VM) for finite proofs and for evaluating the model on correspondence cases; native_compute not used',
    'the development declares no axioms; Print Assumptions output is captured on every run (see coverage.assumptions)',
    'the translators under /verif/translator (Python ast -> Coq) for the generated files named in coverage.generated',
    'the correspondence harness under /verif/harness: generators, state dumper, exception-to-enum map, Coq term printer, uuid4 counter patch, pysat/mockturtle shims',
    'the Gallina model is hand-written: the theorems are about the model; the tie to /repo is the regeneration + correspondence run of this very check',
]


class CorrResult:
    def __init__(self):
        self.evaluations = 0
        self.keys = set()           # hashes of distinct non-trivial cases
        self.samples = []
        self.hist = {}
        self.disagreements = []     # list of dict(case=..., detail=...)
        self.rule = ''
        self.notes = []

    def count(self, name, key, n=1):
        h = self.hist.setdefault(name, {})
        h[str(key)] = h.get(str(key), 0) + n

    def add_case(self, case, nontrivial: bool):
        self.evaluations += 1
        if nontrivial:
            self.keys.add(hashlib.sha1(json.dumps(case, sort_keys=True, default=str).encode()).hexdigest())
        if len(self.samples) < 3:
            self.samples.append(case)


class Ctx:
    def __init__(self, prop, tier, seed):
        self.prop = prop
        self.tier = tier
        self.seed = seed
        self.rng = random.Random(seed)
        self.t0 = time.time()
        self.quick = tier == 'quick'

    def n(self, quick, thorough):
        return quick if self.quick else thorough


def load_known():
    p = VERIF / 'known_findings.json'
    if not p.exists():
        return {'known': [], 'fixed': []}
    return json.loads(p.read_text())


def write_replay(prop_id, payload):
    d = pathlib.Path(os.environ.get('VERIF_REPLAY_DIR', VERIF / 'replays'))
    d.mkdir(parents=True, exist_ok=True)
    blob = json.dumps(payload, sort_keys=True, default=str)
    h = hashlib.sha1(blob.encode()).hexdigest()[:12]
    p = d / f'{prop_id}-{h}.json'
    p.write_text(json.dumps(payload, indent=1, default=str))
    return p


def run_check(prop, tier, seed):
    ctx = Ctx(prop, tier, seed)
    pid = prop.ID
    broken = []          # (kind, name, detail)
    violations = []      # (case, msg, key)
    ev = {'generated': {}, 'assumptions': {}, 'partial_theorems': getattr(prop, 'PARTIAL', {})}

    # 1. regenerate model fragments from the current source
    for tr in getattr(prop, 'TRANSLATORS', []):
        try:
            ev['generated'].update({k: ('rewritten' if v else 'unchanged') for k, v in tr().items()})
        except TranslatorError as e:
            broken.append(('translator', tr.__module__, str(e)))
        except Exception as e:  # noqa: BLE001
            broken.append(('translator', tr.__module__, 'translator crashed: ' + repr(e)))

    # 2. rebuild the theorems this property depends on
    obligations, discharged = [], 0
    target = prop.PROPERTY_FILE[:-2] + '.vo'
    cone = []
    if not any(b[0] == 'translator' for b in broken):
        # the generated case files import model files that need not be in the property's cone
        models = [f[:-2] + '.vo' for f in coqrun.project_files() if f.startswith(('Model/', 'Generated/'))]
        ok, out, secs = coqrun.make([target] + models)
        ev['build_s'] = round(secs, 1)
        cone = coqrun.dependency_cone(prop.PROPERTY_FILE)
        obligations = coqrun.count_statements(cone)
        if ok:
            discharged = len(obligations)
        else:
            broken.append(('proof', coqrun.first_error(out).split(':')[0], coqrun.first_error(out)))
            # statements in files that do not depend on the failing file still count as discharged
            import re as _re
            m = _re.search(r'File "\./([^"]+\.v)"', out) or _re.search(r'File "([^"]+\.v)"', out)
            failed = m.group(1) if m else prop.PROPERTY_FILE
            failed = failed.split('/coq/')[-1]
            bad = coqrun.dependents_of(failed, cone)
            discharged = len(coqrun.count_statements([f for f in cone if f not in bad]))
        hits = coqrun.anti_cheat(cone)
        if hits:
            broken.append(('anti-cheat', 'forbidden declaration', '; '.join(hits[:5])))
        if ok:
            try:
                mod = 'Cirbo.' + prop.PROPERTY_FILE[:-2].replace('/', '.')
                ass = coqrun.print_assumptions(pid, prop.THEOREMS, mod)
                ev['assumptions'] = ass
                allowed = set(getattr(prop, 'ALLOWED_AXIOMS', []))
                for t, a in ass.items():
                    if a != 'closed' and not set(a) <= allowed:
                        broken.append(('assumptions', t, f'depends on {a}'))
                for t in prop.THEOREMS:
                    if t not in ass:
                        broken.append(('assumptions', t, 'theorem missing from the property file'))
            except coqrun.CoqError as e:
                broken.append(('assumptions', 'Print Assumptions', str(e)))

    # 2b. thorough tier: independent re-check with coqchk (kernel re-typecheck of every .vo in the cone)
    if not ctx.quick and not broken:
        try:
            rc, summary, tail = coqrun.coqchk('Cirbo.' + prop.PROPERTY_FILE[:-2].replace('/', '.'))
            ev['coqchk'] = {'exit': rc, 'summary': summary}
            axioms = [a for a in summary.get('Axioms', []) if a and a != '<none>']
            if rc != 0:
                broken.append(('coqchk', 'coqchk failed', tail))
            elif axioms and not set(axioms) <= set(getattr(prop, 'ALLOWED_AXIOMS', [])):
                broken.append(('coqchk', 'axioms', str(axioms)))
        except Exception as e:  # noqa: BLE001
            ev['coqchk'] = {'error': repr(e)}

    # 3. correspondence between the model and the implementation
    corr = CorrResult()
    model_ok = not any(b[0] in ('translator', 'proof') for b in broken)
    try:
        corr = prop.correspondence(ctx, model_ok) or corr
    except coqrun.CoqError as e:
        broken.append(('correspondence', 'model evaluation failed', str(e)))
    for d in corr.disagreements:
        broken.append(('correspondence', d.get('name', 'model/implementation disagreement'), d))

    # 4. the direct oracle (the property itself on the implementation) on every generated case
    known = [k for k in load_known()['known'] if k['property'] == pid]
    known_keys = {k['key'] for k in known}
    oracle_runs = 0
    seen_known = {}
    if hasattr(prop, 'oracle'):
        cases = []
        for k in known:
            if 'case' in k:
                cases.append(k['case'])
        cases += list(prop.oracle_cases(ctx, corr))
        for case in cases:
            oracle_runs += 1
            try:
                msg = prop.oracle(case)
            except Exception as e:  # noqa: BLE001
                msg = 'oracle crashed: ' + ''.join(traceback.format_exception_only(type(e), e)).strip()
                if _raised_in_harness(e):
                    # the exception comes from the harness's own code (e.g. a private attribute of the library that
                    # no longer exists): the tie between machinery and code is broken, no input is known to fail
                    broken.append(('oracle', 'harness error', 'the oracle itself failed: ' + msg[len('oracle crashed: '):]))
                    msg = None
            if msg:
                key = prop.classify(case, msg)
                if key in known_keys:
                    seen_known.setdefault(key, msg)
                else:
                    violations.append((case, msg, key))
                    if len(violations) >= 5:
                        break
    ev['oracle_runs'] = oracle_runs

    # 5. a broken tie or proof without a failing input: search for one
    if broken and not violations and hasattr(prop, 'search'):
        # first: the disagreeing cases themselves
        for d in corr.disagreements:
            c = d.get('case')
            if c is not None and hasattr(prop, 'oracle'):
                try:
                    msg = prop.oracle(c)
                except Exception as e:  # noqa: BLE001
                    msg = 'oracle crashed: ' + repr(e)
                if msg and prop.classify(c, msg) not in known_keys:
                    violations.append((c, msg, prop.classify(c, msg)))
                    break
        if not violations:
            budget = 120 if ctx.quick else 900
            try:
                found = prop.search(ctx, budget)
            except Exception as e:  # noqa: BLE001
                found = None
                ev['search_error'] = repr(e)
            if found:
                c, msg = found
                key = prop.classify(c, msg)
                if key not in known_keys:
                    violations.append((c, msg, key))

    # 6. report
    for k in known:
        if k['key'] in seen_known:
            print(f"KNOWN-FINDING: property={pid} {k['description']}")
    status = 0
    replay = None
    if violations:
        case, msg, key = violations[0]
        if hasattr(prop, 'shrink'):
            try:
                case, msg = prop.shrink(case, msg)
            except Exception:  # noqa: BLE001
                pass
        replay = write_replay(pid, {'property': pid, 'kind': 'failing-input', 'key': key, 'message': msg,
                                    'case': case, 'seed': seed, 'tier': tier,
                                    'broken': [(b[0], b[1], str(b[2])[:2000]) for b in broken]})
        print(f'VIOLATION property={pid} replay={replay}')
        print('  ' + str(msg)[:500])
        status = 1
    elif broken:
        replay = write_replay(pid, {'property': pid, 'kind': 'no-failing-input-found', 'seed': seed, 'tier': tier,
                                    'broken': [(b[0], b[1], b[2] if isinstance(b[2], dict) else str(b[2])[:4000])
                                               for b in broken]})
        names = ', '.join(sorted({f'{b[0]}:{b[1]}' for b in broken}))[:300]
        print(f'  no longer checks: {names}')
        print(f'VIOLATION property={pid} replay={replay} no-failing-input-found')
        status = 1

    wall = time.time() - ctx.t0
    coverage = {
        'obligations': max(len(obligations), 1),
        'discharged': discharged if obligations else 0,
        'checker_cmd': f'make -C /verif/coq {target} (coqc 8.16.1, full .vo build) ; coqc Print Assumptions',
        'trusted_base': BASE_TRUSTED + list(getattr(prop, 'TRUSTED', [])),
        'theorems': prop.THEOREMS,
        'technique': getattr(prop, 'TECHNIQUE', ''),
        'evaluations': corr.evaluations + oracle_runs,
        'correspondence_cases': corr.evaluations,
        'distinct_nontrivial': len(corr.keys),
        'rule': corr.rule,
        'samples': corr.samples[:3] or [{'note': 'no correspondence case was run'}],
        'input_distribution': corr.hist,
        'notes': corr.notes,
        'broken': [(b[0], b[1]) for b in broken],
        'known_findings_seen': sorted(seen_known),
        'exhaustive': False,
    }
    coverage.update(ev)
    # keys for the translation-validation level: validated end-to-end runs and checked steps
    coverage.setdefault('programs', max(corr.evaluations, 1))
    coverage.setdefault('disagreements_checked', len(corr.disagreements))
    coverage.update(getattr(corr, 'extra', {}))
    coverage.update(getattr(corr, 'EXTRA_COVERAGE', {}))
    evidence = {
        'property_id': pid, 'tier': tier, 'seed': seed, 'level': getattr(prop, 'LEVEL_CATEGORY', 'proof'),
        'coverage': coverage,
        'assumptions': list(getattr(prop, 'ASSUMPTIONS', [])),
        'wall_s': round(wall, 2), 'violations': len(violations) + (1 if (broken and not violations) else 0),
    }
    evdir = pathlib.Path(os.environ.get('VERIF_EVIDENCE_DIR', VERIF / 'evidence'))
    evdir.mkdir(parents=True, exist_ok=True)
    (evdir / f'{pid}.json').write_text(json.dumps(evidence, indent=1, default=str))
    print(f'{pid} {tier} seed={seed}: obligations={len(obligations)} discharged={discharged} '
          f'corr_cases={corr.evaluations} distinct={len(corr.keys)} oracle_runs={oracle_runs} '
          f'broken={len(broken)} violations={len(violations)} wall={wall:.1f}s')
    return status


def _raised_in_harness(e) -> bool:
    """True iff the innermost frame of the exception belongs to /verif (harness, props, framework) and the exception
    is of a kind that signals a mismatch between harness and library internals, not a behaviour of the library"""
    if not isinstance(e, (AttributeError, ImportError, NameError)):
        return False
    tb = e.__traceback__
    last = None
    while tb is not None:
        last = tb
        tb = tb.tb_next
    if last is None:
        return False
    fn = last.tb_frame.f_code.co_filename
    here = str(pathlib.Path(__file__).resolve().parent.parent)
    return fn.startswith(here)


def run_replay(prop, path):
    payload = json.loads(pathlib.Path(path).read_text())
    if payload.get('kind') != 'failing-input':
        print('replay file names a broken proof/tie, not an input:')
        for b in payload.get('broken', []):
            print('  ', b[0], b[1], str(b[2])[:300])
        return 1
    msg = prop.oracle(payload['case'])
    if msg:
        key = prop.classify(payload['case'], msg)
        for k in load_known()['known']:
            if k['property'] == prop.ID and k['key'] == key:
                print(f"KNOWN-FINDING: property={prop.ID} {k['description']}")
                print('  ' + str(msg)[:500])
                return 0
        print(f'VIOLATION property={prop.ID} replay={path}')
        print('  ' + str(msg)[:500])
        return 1
    print(f'{prop.ID}: replay passes (the property holds on this input)')
    return 0


def main(argv=None):
    ap = argparse.ArgumentParser()
    ap.add_argument('prop')
    ap.add_argument('--tier', default=os.environ.get('VERIF_TIER', 'quick'), choices=['quick', 'thorough'])
    ap.add_argument('--seed', type=int, default=int(os.environ.get('VERIF_SEED', '0') or 0))
    ap.add_argument('--replay')
    a = ap.parse_args(argv)
    import harness.env  # noqa: F401  (path + determinism set-up)
    prop = importlib.import_module('props.' + a.prop.lower())
    if a.replay:
        return run_replay(prop, a.replay)
    return run_check(prop, a.tier, a.seed)


if __name__ == '__main__':
    sys.exit(main())
