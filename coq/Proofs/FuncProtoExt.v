(* C12: the queries depend on a representation only through the values of evaluate / evaluate_at
   (no functional extensionality is used), so the correspondence check may memoise the circuit's
   evaluations: run_query on the memoised representation is run_query on the circuit. *)
Require Import Cirbo.Model.Base Cirbo.Model.Gate Cirbo.Model.Circuit Cirbo.Model.Eval
        Cirbo.Model.History Cirbo.Model.FuncProto Cirbo.Model.FuncProtoCases Cirbo.Proofs.FuncProtoEnum.

Definition rep_eq (r r' : frep) : Prop :=
  r_n r = r_n r' /\ r_m r = r_m r' /\ (forall x, r_ev r x = r_ev r' x) /\
  (forall x j, r_ev_at r x j = r_ev_at r' x j).

Section Ext.
  Context {X : Type}.
  Variables (p p' : X -> res bool).
  Hypothesis H : forall x, p x = p' x.

  Lemma forallM_ext xs : forallM p xs = forallM p' xs.
  Proof. induction xs as [|x xs IH]; simpl; [reflexivity|]. rewrite H, IH. reflexivity. Qed.
  Lemma existsM_ext xs : existsM p xs = existsM p' xs.
  Proof. induction xs as [|x xs IH]; simpl; [reflexivity|]. rewrite H, IH. reflexivity. Qed.
  Lemma filterM_ext xs : filterM p xs = filterM p' xs.
  Proof. induction xs as [|x xs IH]; simpl; [reflexivity|]. rewrite H, IH. reflexivity. Qed.
  Lemma findM_ext xs : findM p xs = findM p' xs.
  Proof. induction xs as [|x xs IH]; simpl; [reflexivity|]. rewrite H, IH. reflexivity. Qed.
End Ext.

Lemma mapM_ext {X Y} (p p' : X -> res Y) : (forall x, p x = p' x) -> forall xs, mapM p xs = mapM p' xs.
Proof. intros H; induction xs as [|x xs IH]; simpl; [reflexivity|]. rewrite H, IH. reflexivity. Qed.

Section ExtV.
  Context {V : Type}.
  Variables (veqb : V -> V -> bool) (ev ev' : bvec -> res V).
  Hypothesis H : forall x, ev x = ev' x.

  Lemma sym_class_ext L : sym_class veqb ev L = sym_class veqb ev' L.
  Proof.
    destruct L as [|x0 rest]; simpl; [reflexivity|]. rewrite H. destruct (ev' x0); simpl; [|reflexivity].
    apply forallM_ext. intros x. rewrite H. reflexivity.
  Qed.
  Lemma first_rest_ext L : first_rest veqb ev L = first_rest veqb ev' L.
  Proof. exact (sym_class_ext L). Qed.
  Lemma g_symmetric_ext n negs : g_symmetric veqb ev n negs = g_symmetric veqb ev' n negs.
  Proof. unfold g_symmetric. apply forallM_ext. intros k. destruct (fixed_sum n k negs); simpl; [apply sym_class_ext|reflexivity]. Qed.
End ExtV.

Section ExtLoops.
  Context {X : Type}.
  Variables (ev ev' : X -> res bool).
  Hypothesis H : forall x, ev x = ev' x.
  Lemma ones_started_ext inv xs : forall st, ones_started_loop ev inv st xs = ones_started_loop ev' inv st xs.
  Proof.
    induction xs as [|x xs IH]; intros st; simpl; [reflexivity|]. rewrite H. destruct (ev' x); simpl; [|reflexivity].
    rewrite !IH. reflexivity.
  Qed.
  Lemma circ_mono_at_ext xs : forall ch cur, circ_mono_at_loop ev ch cur xs = circ_mono_at_loop ev' ch cur xs.
  Proof.
    induction xs as [|x xs IH]; intros ch cur; simpl; [reflexivity|]. rewrite H. destruct (ev' x); simpl; [|reflexivity].
    rewrite !IH. reflexivity.
  Qed.
End ExtLoops.

Lemma circ_mono_loop_ext (ev ev' : bvec -> res bvec) : (forall x, ev x = ev' x) ->
  forall xs s, circ_mono_loop ev s xs = circ_mono_loop ev' s xs.
Proof.
  intros H; induction xs as [|x xs IH]; intros s; simpl; [reflexivity|]. rewrite H.
  destruct (ev' x); simpl; [|reflexivity]. destruct (circ_mono_row l s) as [[s'|]|]; simpl; auto.
Qed.

Lemma run_query_ext k r r' q : rep_eq r r' -> run_query k r q = run_query k r' q.
Proof.
  intros (Hn & Hm & Hev & Hat).
  destruct q; simpl; unfold g_is_constant, g_is_constant_at, circ_is_monotone, circ_is_monotone_at,
    g_is_symmetric, g_is_symmetric_at, g_equal_to_input, g_significant, g_find_negations, g_truth_table;
    rewrite <- ?Hn, <- ?Hm.
  - rewrite Hev; reflexivity.
  - rewrite Hat; reflexivity.
  - destruct k; try reflexivity; f_equal; apply first_rest_ext; exact Hev.
  - destruct k; try reflexivity; f_equal; apply first_rest_ext; intros x; apply Hat.
  - destruct k; try reflexivity. f_equal. apply circ_mono_loop_ext; exact Hev.
  - destruct k; try reflexivity. f_equal. apply circ_mono_at_ext. intros x; apply Hat.
  - f_equal. apply g_symmetric_ext; exact Hev.
  - f_equal. apply g_symmetric_ext. intros x; apply Hat.
  - f_equal. unfold g_is_dependent. rewrite <- Hn. destruct (r_n r =? 0)%nat; [reflexivity|].
    apply existsM_ext. intros x. rewrite Hat. destruct (r_ev_at r' (insert_at i false x) j); simpl; [|reflexivity].
    destruct (negate_at i (insert_at i false x)); simpl; [|reflexivity]. rewrite Hat. reflexivity.
  - destruct k; try reflexivity; f_equal; apply forallM_ext; intros x; rewrite Hat; reflexivity.
  - destruct k; try reflexivity; f_equal; apply forallM_ext; intros x; rewrite Hat; reflexivity.
  - f_equal. apply filterM_ext. intros i. unfold g_is_dependent. rewrite <- Hn.
    destruct (r_n r =? 0)%nat; [reflexivity|].
    apply existsM_ext. intros x. rewrite Hat. destruct (r_ev_at r' (insert_at i false x) j); simpl; [|reflexivity].
    destruct (negate_at i (insert_at i false x)); simpl; [|reflexivity]. rewrite Hat. reflexivity.
  - f_equal. apply findM_ext. intros negs. apply g_symmetric_ext. intros x. rewrite Hev. reflexivity.
  - destruct k; try reflexivity; f_equal; rewrite (mapM_ext _ _ Hev); reflexivity.
  - rewrite Hn, Hm. reflexivity.
Qed.

(* memoisation *)
Lemma memo_eq {K V} (keqb : K -> K -> bool) (f : K -> V) :
  (forall a b, keqb a b = true -> a = b) -> forall keys x, memo keqb f keys x = f x.
Proof.
  intros Hk keys x. unfold memo. induction keys as [|k keys IH]; simpl; [reflexivity|].
  destruct (keqb x k) eqn:E; [apply Hk in E; subst; reflexivity|exact IH].
Qed.

Lemma circ_rep_memo_eq c : rep_eq (circ_rep_memo c) (circ_rep c).
Proof.
  unfold rep_eq, circ_rep_memo. cbv zeta. set (r := circ_rep c).
  change (r_n (mkRep (r_n r) (r_m r) ?[e] ?[a])) with (r_n r).
  repeat split.
  - intros x. cbn [r_ev]. apply memo_eq. intros a b. apply bvec_eqb_eq.
  - intros x j. cbn [r_ev_at].
    rewrite (memo_eq _ (fun xj : bvec * nat => r_ev_at r (fst xj) (snd xj))); [reflexivity|].
    intros [a i] [b k] E. apply andb_true_iff in E. destruct E as [E1 E2].
    apply bvec_eqb_eq in E1. apply Nat.eqb_eq in E2. simpl in *. congruence.
Qed.

Lemma memoised_circuit_query c q : run_query ClsCircuit (circ_rep_memo c) q = circuit_query c q.
Proof. apply run_query_ext, circ_rep_memo_eq. Qed.
