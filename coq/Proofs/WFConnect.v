(* C02: connect_circuit and its wrappers preserve WF /\ inputs_nullary.
   Part 3: entry point (re-exports WFConnect1/2) and the concrete states showing which
   hypotheses of connect_circuit_inv are needed.  Every state below is accepted by the
   executable check wfb (hence WF, by Proofs/WFSound.wfb_sound) unless stated otherwise.

   Proved in WFConnect2.v:
     connect_circuit_sharp     exact form, with the switch Q
     connect_circuit_inv       WF c, inputs_nullary c, WF other, inputs_nullary other
     connect_circuit_left_inv  right = false: WF other dropped
     connect_circuit_left_wf   right = false, WF c' only: WF c is enough
     connect_circuit_right_wf  right = true, WF c' only: WF c, inputs_nullary c, other acyclic
     connect_left_inv ('), connect_right_inv, connect_inputs_inv, extend_circuit_inv,
     add_circuit_inv (') *)
Require Import Cirbo.Model.Base Cirbo.Model.Gate Cirbo.Model.Circuit Cirbo.Model.Traverse
        Cirbo.Model.Connect Cirbo.Model.WF.
Require Import Cirbo.Proofs.WFEmplace.
Require Export Cirbo.Proofs.WFConnect1 Cirbo.Proofs.WFConnect2.

Ltac conc H :=
  simpl in H;
  repeat match type of H with
         | (if ?b then _ else _) = _ => destruct b; [injection H as <-|]
         end; try discriminate.

(* ------------------------------------------------------------------ *)
(* (1) RIGHT connection, hypothesis on `other` (WF other, of which only acyclicity is used).
   `other` has the cycle q <-> q2 and a users index that lets top_sort emit it (p claims q
   as a user).  Connecting q, q2 to the inputs t1, t2 of c closes the cycle t1 <-> t2.
   All the other hypotheses hold. *)
Definition cex_c2 : circuit :=
  mkCircuit ["t1"; "t2"] [] [("t1", mkGate INPUT []); ("t2", mkGate INPUT [])] [] [].
Definition cex_other_cyc : circuit :=
  mkCircuit ["p"] []
    [("p", mkGate INPUT []); ("q", mkGate NOT ["q2"]); ("q2", mkGate NOT ["q"])]
    [("p", ["q"]); ("q", ["q2"]); ("q2", ["q"])] [].

Example cex_other_cyclic_breaks :
  wfb cex_c2 = true /\ inputs_nullary cex_c2 /\ inputs_nullary cex_other_cyc /\
  exists c', connect_circuit cex_c2 cex_other_cyc ["t1"; "t2"] ["q"; "q2"] true "" false = Ok c'
             /\ ~ WF c'.
Proof.
  split; [vm_compute; reflexivity|]. split.
  { intros l g H Ht. conc H; reflexivity. }
  split.
  { intros l g H Ht. conc H; try reflexivity; discriminate Ht. }
  eexists; split; [vm_compute; reflexivity|]. intros W.
  destruct (wf_acyclic _ W) as [rank Hr].
  assert (H1 : rank "t2" < rank "t1") by (eapply Hr; [vm_compute; reflexivity|simpl; auto]).
  assert (H2 : rank "t1" < rank "t2") by (eapply Hr; [vm_compute; reflexivity|simpl; auto]).
  lia.
Qed.

(* the same pair of circuits in a LEFT connection (no hypothesis on other is needed there):
   the forward reference q -> q2 is not in the label map yet, an error and not a broken state *)
Example cex_other_cyclic_left_err :
  add_circuit cex_c2 cex_other_cyc "" false = Err PyKeyError.
Proof. vm_compute; reflexivity. Qed.

(* ------------------------------------------------------------------ *)
(* (2) inputs_nullary c is needed for inputs_nullary c': the gates of c are kept. *)
Definition cex_c_nn : circuit :=
  mkCircuit ["x"; "i"] ["y"]
    [("x", mkGate INPUT []); ("i", mkGate INPUT ["x"]); ("y", mkGate NOT ["i"])]
    [("x", ["i"]); ("i", ["y"])] [].

Example cex_nullary_c_breaks :
  wfb cex_c_nn = true /\
  exists c', add_circuit cex_c_nn empty_circuit "" false = Ok c' /\ ~ inputs_nullary c'.
Proof.
  split; [vm_compute; reflexivity|].
  eexists; split; [vm_compute; reflexivity|]. intros N.
  specialize (N "i" (mkGate INPUT ["x"]) eq_refl eq_refl). discriminate N.
Qed.

(* (3) inputs_nullary other is needed for inputs_nullary c': the gates of other are copied. *)
Example cex_nullary_other_breaks :
  wfb cex_c_nn = true /\
  exists c', add_circuit empty_circuit cex_c_nn "" false = Ok c' /\ wfb c' = true /\
             ~ inputs_nullary c'.
Proof.
  split; [vm_compute; reflexivity|].
  eexists; split; [vm_compute; reflexivity|]. split; [vm_compute; reflexivity|]. intros N.
  specialize (N "i" (mkGate INPUT ["x"]) eq_refl eq_refl). discriminate N.
Qed.

(* (4) inputs_nullary c in a RIGHT connection, for WF c': the proof uses it for the initial
   rank only (right_init: a connector may get any rank since it has no operands).  No
   failing state exists as far as I can see: the connectors with an operand are either
   overwritten (operands replaced) or not in the image of the label map, and every path
   that enters the image of `other` stays in it.  Samples: the non nullary cex_c_nn
   connected on the right in three ways gives well formed results. *)
Definition cex_o_pq : circuit :=
  mkCircuit ["p"] ["q"] [("p", mkGate INPUT []); ("q", mkGate NOT ["p"])] [("p", ["q"])] [].

Example nonnullary_right_samples :
  wfb cex_o_pq = true /\
  (exists c', connect_circuit cex_c_nn cex_o_pq ["i"; "x"] ["p"; "q"] true "" false = Ok c'
              /\ wfb c' = true) /\
  (exists c', connect_circuit cex_c_nn cex_o_pq ["x"; "i"] ["p"; "q"] true "" false = Ok c'
              /\ wfb c' = true) /\
  (exists c', connect_circuit cex_c_nn cex_o_pq ["x"; "i"] ["q"; "p"] true "B" true = Ok c'
              /\ wfb c' = true) /\
  (* one gate of `other` cannot be written over two base inputs (repaired: it used to drop a pair) *)
  connect_circuit cex_c_nn cex_o_pq ["x"; "i"] ["q"; "q"] true "B" true = Err CreateBlockError.
Proof.
  split; [vm_compute; reflexivity|].
  repeat split; try (vm_compute; reflexivity); eexists; split; vm_compute; reflexivity.
Qed.

(* Remarks.
   - Nothing about top_sort is used: the loop itself checks get_gate other l, emplace_gate
     checks that the new label is fresh and that the operands exist, and the rank invariant
     is existential, so neither the completeness nor the order of `order` matters, and
     injectivity of (prefix ++ _) is not needed either.
   - A clash of a prefixed label with a gate of c, a missing image in the label map, a
     duplicate block name... all make connect_circuit return Err, never a broken state.
   - The block gates list `blk` needs no invariant: canonical_block_gates filters the key
     list of the final gate map. *)
