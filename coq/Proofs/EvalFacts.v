(* C01 (b), soundness half: every value an evaluation entry point reports for a gate
   is the value of the relational semantics Eval.  Needs only that the input list
   names INPUT gates and that the assignment assigns inputs. *)
Require Import Cirbo.Model.Base Cirbo.Model.Gate Cirbo.Model.Circuit Cirbo.Model.Traverse
        Cirbo.Model.Eval Cirbo.Model.Sem.
Require Import Cirbo.Generated.GateTypes Cirbo.Proofs.DictFacts Cirbo.Proofs.SemFacts.

Definition inputs_are_input_gates (c : circuit) : Prop :=
  forall l, In l (inputs c) -> exists g, dget (gates c) l = Some g /\ gtyp g = INPUT.

Definition assigns_inputs_only (c : circuit) (a : assignment) : Prop :=
  forall l, dmem a l = true -> In l (inputs c).

Definition sound (c : circuit) (a : assignment) (d : assignment) : Prop :=
  forall l v, dget d l = Some v -> Eval c a l v.

Lemma setdefaults_get (ins : list label) : forall (d0 : assignment) l,
  dget (fold_left (fun d i => dsetdefault d i U) ins d0) l =
  match dget d0 l with Some x => Some x | None => if memb l ins then Some U else None end.
Proof.
  induction ins as [|i ins IH]; intros d0 l; simpl; [destruct (dget d0 l); reflexivity|].
  rewrite IH, dget_dsetdefault.
  destruct (dget d0 l); [reflexivity|]. destruct (leqb l i); [|reflexivity].
  reflexivity.
Qed.

Lemma init_assignment_sound c a :
  inputs_are_input_gates c -> assigns_inputs_only c a -> sound c a (init_assignment c a).
Proof.
  intros Hin Ha l v. unfold init_assignment. rewrite setdefaults_get.
  destruct (dget a l) eqn:E.
  - intros [= <-]. assert (In l (inputs c)) as Hl by (apply Ha; unfold dmem; rewrite E; reflexivity).
    destruct (Hin _ Hl) as (g & Hg & Ht).
    replace s with (aval a l) by (unfold aval; rewrite E; reflexivity).
    econstructor; eassumption.
  - destruct (memb l (inputs c)) eqn:Em; [|discriminate]. intros [= <-].
    apply memb_In in Em. destruct (Hin _ Em) as (g & Hg & Ht).
    replace U with (aval a l) by (unfold aval; rewrite E; reflexivity).
    econstructor; eassumption.
Qed.

Lemma lookup_vals_sound c a d ops vs :
  sound c a d -> lookup_vals d ops = Ok vs -> Forall2 (Eval c a) ops vs.
Proof.
  intros Hs H. apply mapM_ok_Forall2 in H.
  induction H as [|op v ops vs Hov _ IH]; constructor; [|exact IH].
  destruct (dget d op) eqn:E; [|discriminate]. injection Hov as <-. apply Hs; exact E.
Qed.

Lemma eval_gate_sound c a d l g v :
  sound c a d -> dget (gates c) l = Some g -> eval_gate d g = Ok v -> Eval c a l v.
Proof.
  intros Hs Hg. unfold eval_gate. destruct (gtype_beq (gtyp g) INPUT) eqn:Et; [discriminate|].
  destruct (lookup_vals d (gops g)) as [vs|] eqn:El; simpl; [|discriminate]. intros Hop.
  eapply EvalGate; try eassumption.
  - intros E; rewrite E in Et; discriminate.
  - eapply lookup_vals_sound; eassumption.
Qed.

Lemma sound_dset c a d l v : sound c a d -> Eval c a l v -> sound c a (dset d l v).
Proof.
  intros Hs Hv l' v'. rewrite dget_dset. destruct (leqb_spec l' l) as [->|]; [intros [= <-]; exact Hv|apply Hs].
Qed.

Lemma get_gate_ok c l g : get_gate c l = Ok g -> dget (gates c) l = Some g.
Proof. unfold get_gate; destruct (dget (gates c) l); [intros [= ->]; reflexivity|discriminate]. Qed.

(* ---- evaluate_full_circuit ---- *)
Theorem evaluate_full_circuit_sound c a d :
  inputs_are_input_gates c -> assigns_inputs_only c a ->
  evaluate_full_circuit c a = Ok d -> sound c a d.
Proof.
  intros Hin Ha. unfold evaluate_full_circuit.
  destruct (top_sort true c) as [order|] eqn:Eo; simpl; [|discriminate].
  apply (foldM_ok_inv _ (sound c a)); [|apply init_assignment_sound; assumption].
  intros d0 l d1 _ Hs. destruct (get_gate c l) as [g|] eqn:Eg; simpl; [|discriminate].
  destruct (gtype_beq (gtyp g) INPUT); [intros [= <-]; exact Hs|].
  destruct (eval_gate d0 g) as [v|] eqn:Ev; simpl; [|discriminate]. intros [= <-].
  apply sound_dset; [exact Hs|]. eapply eval_gate_sound; eauto using get_gate_ok.
Qed.

(* ---- evaluate_circuit (explicit stack) ---- *)
Lemma pop_last_In {A} (l : list A) x r : pop_last l = Some (x, r) -> l = r ++ [x].
Proof.
  unfold pop_last. destruct (rev l) as [|y ys] eqn:E; [discriminate|]. intros [= <- <-].
  rewrite <- (rev_involutive l), E; simpl; reflexivity.
Qed.

Lemma eval_stack_loop_sound c a : forall fuel d stack d',
  sound c a d -> eval_stack_loop fuel c d stack = Ok d' ->
  sound c a d' /\ (forall l, dmem d l = true -> dmem d' l = true)
  /\ (forall l, In l stack -> dmem d' l = true).
Proof.
  induction fuel as [|fuel IH]; intros d stack d' Hs; simpl; [discriminate|].
  destruct (pop_last stack) as [[cur rest]|] eqn:Ep.
  2:{ intros [= <-]. split; [exact Hs|]. split; [auto|].
      unfold pop_last in Ep. destruct (rev stack) eqn:E; [|discriminate].
      apply (f_equal (@rev _)) in E; rewrite rev_involutive in E; subst; simpl; tauto. }
  apply pop_last_In in Ep; subst stack.
  destruct (get_gate c cur) as [g|] eqn:Eg; simpl; [|discriminate].
  destruct (filter (fun op => negb (dmem d op)) (gops g)) as [|p ps] eqn:Ef.
  - destruct (eval_gate d g) as [v|] eqn:Ev; simpl; [|discriminate]. intros H.
    apply IH in H; [|apply sound_dset; [exact Hs|eapply eval_gate_sound; eauto using get_gate_ok]].
    destruct H as (H1 & H2 & H3). split; [exact H1|]. split.
    + intros l Hl. apply H2. rewrite dmem_dset, Hl. apply orb_true_r.
    + intros l Hl. apply in_app_or in Hl. destruct Hl as [Hl|[<-|[]]]; [apply H3; exact Hl|].
      apply H2. rewrite dmem_dset, leqb_refl. reflexivity.
  - intros H. apply IH in H; [|exact Hs]. destruct H as (H1 & H2 & H3).
    split; [exact H1|]. split; [exact H2|]. intros l Hl. apply H3. apply in_or_app; left; exact Hl.
Qed.

Lemma setdefaults_mem (ks : list label) (d : assignment) l :
  dmem d l = true -> dget (fold_left (fun d i => dsetdefault d i U) ks d) l = dget d l.
Proof.
  unfold dmem. rewrite setdefaults_get. destruct (dget d l); [reflexivity|discriminate].
Qed.

(* every requested output is reported with its Eval value; every other reported value is
   an Eval value or Undefined ("part unreachable from the outputs will be Undefined") *)
Theorem evaluate_circuit_sound fuel c a outs d :
  inputs_are_input_gates c -> assigns_inputs_only c a ->
  evaluate_circuit_fuel fuel c a outs = Ok d ->
  (forall l v, dget d l = Some v -> Eval c a l v \/ v = U) /\
  (forall o, In o (match outs with Some o => o | None => outputs c end) ->
             exists v, dget d o = Some v /\ Eval c a o v).
Proof.
  intros Hin Ha. unfold evaluate_circuit_fuel.
  set (outs' := match outs with Some o => o | None => outputs c end).
  destruct (eval_stack_loop fuel c (init_assignment c a)
              (filter (fun o => negb (memb o (inputs c))) outs')) as [d1|] eqn:El; simpl; [|discriminate].
  intros [= <-].
  destruct (eval_stack_loop_sound _ _ _ _ _ _ (init_assignment_sound c a Hin Ha) El) as (H1 & H2 & H3).
  split.
  - intros l v. rewrite setdefaults_get. destruct (dget d1 l) eqn:E.
    + intros [= <-]. left; apply H1; exact E.
    + destruct (memb l (dkeys (gates c))); [intros [= <-]; right; reflexivity|discriminate].
  - intros o Ho.
    assert (dmem d1 o = true) as Hm.
    { destruct (memb o (inputs c)) eqn:Ei.
      - apply H2. unfold dmem, init_assignment. rewrite setdefaults_get.
        destruct (dget a o); [reflexivity|]. rewrite Ei; reflexivity.
      - apply H3. apply filter_In. split; [exact Ho|]. rewrite Ei; reflexivity. }
    unfold dmem in Hm. destruct (dget d1 o) as [v|] eqn:E; [|discriminate].
    exists v. split; [|apply H1; exact E].
    rewrite setdefaults_mem; [exact E|]. unfold dmem; rewrite E; reflexivity.
Qed.
