(* Enumeration lemmas for C12: itertools.product order = canonical (big-endian) index,
   Boolean vectors, weight classes / input_iterator_with_fixed_sum, zip( * rows). *)
From Coq Require Import Permutation Sorted.
Require Import Cirbo.Model.Base Cirbo.Model.Gate Cirbo.Model.Circuit Cirbo.Model.Eval
        Cirbo.Model.FuncProto.

(* ------------------------------------------------------------------ *)
(* generic list facts *)

Lemma nth_ext_eq {A} (d : A) (l1 l2 : list A) :
  length l1 = length l2 -> (forall i, i < length l1 -> nth i l1 d = nth i l2 d) -> l1 = l2.
Proof.
  revert l2; induction l1 as [|a l1 IH]; intros [|b l2] Hl H; simpl in *; try discriminate; [reflexivity|].
  f_equal; [apply (H 0); lia|]. apply IH; [lia|]. intros i Hi; apply (H (S i)); lia.
Qed.

Lemma map_nth_seq {A} (d : A) (l : list A) : map (fun i => nth i l d) (seq 0 (length l)) = l.
Proof.
  apply (nth_ext_eq d); [rewrite map_length, seq_length; reflexivity|].
  intros i Hi. rewrite map_length, seq_length in Hi.
  rewrite (nth_indep _ d (nth 0 l d)) by (rewrite map_length, seq_length; exact Hi).
  rewrite (map_nth (fun i => nth i l d) (seq 0 (length l)) 0 i), seq_nth by exact Hi. reflexivity.
Qed.

Lemma NoDup_map_in_inj {A B} (g : A -> B) (l : list A) :
  (forall a b, In a l -> In b l -> g a = g b -> a = b) -> NoDup l -> NoDup (map g l).
Proof.
  intros Hinj Hnd; induction Hnd as [|a l Hna Hnd IH]; simpl; constructor.
  - intros Hin; apply in_map_iff in Hin; destruct Hin as (b & Hb & Hbl).
    assert (b = a) by (apply Hinj; [right; exact Hbl|left; reflexivity|exact Hb]). subst; contradiction.
  - apply IH. intros x y Hx Hy; apply Hinj; right; assumption.
Qed.

Lemma bvec_eqb_eq (x y : bvec) : bvec_eqb x y = true <-> x = y.
Proof. apply all_eqb_eq. intros a b; apply Bool.eqb_true_iff. Qed.

Lemma bvec_eqb_refl x : bvec_eqb x x = true.
Proof. apply bvec_eqb_eq; reflexivity. Qed.

(* ------------------------------------------------------------------ *)
(* canonical index *)

Lemma index_of_acc (x : bvec) : forall a,
  fold_left (fun acc (b : bool) => 2 * acc + (if b then 1 else 0)) x a = a * 2 ^ length x + index_of x.
Proof.
  unfold index_of. induction x as [|b x IH]; intros a; [simpl; lia|].
  cbn [fold_left length]. rewrite (IH (2 * a + _)), (IH (2 * 0 + _)), Nat.pow_succ_r'. ring.
Qed.

Lemma index_of_cons b x : index_of (b :: x) = (if b then 2 ^ length x else 0) + index_of x.
Proof. unfold index_of at 1; simpl. rewrite index_of_acc. destruct b; simpl; lia. Qed.

Lemma index_of_nil : index_of [] = 0.
Proof. reflexivity. Qed.

Lemma index_of_lt x : index_of x < 2 ^ length x.
Proof.
  induction x as [|b x IH]; [cbv; lia|]. rewrite index_of_cons. simpl length. rewrite Nat.pow_succ_r'.
  destruct b; lia.
Qed.

(* ------------------------------------------------------------------ *)
(* itertools.product((False, True), repeat=n) *)

Lemma abv_length n x : In x (all_bool_vectors n) -> length x = n.
Proof.
  revert x; induction n as [|n IH]; simpl; intros x H.
  - destruct H as [<-|[]]; reflexivity.
  - apply in_app_or in H; destruct H as [H|H]; apply in_map_iff in H; destruct H as (y & <- & Hy);
      simpl; f_equal; apply IH; exact Hy.
Qed.

Lemma abv_complete x : In x (all_bool_vectors (length x)).
Proof.
  induction x as [|b x IH]; simpl; [left; reflexivity|].
  apply in_or_app; destruct b; [right|left]; apply in_map; exact IH.
Qed.

Lemma abv_In n x : In x (all_bool_vectors n) <-> length x = n.
Proof. split; [apply abv_length|intros <-; apply abv_complete]. Qed.

Lemma abv_count n : length (all_bool_vectors n) = 2 ^ n.
Proof. induction n as [|n IH]; simpl; [reflexivity|]. rewrite app_length, !map_length, IH; lia. Qed.

Lemma map_add_seq k : forall l s, map (fun i => k + i) (seq s l) = seq (k + s) l.
Proof.
  induction l as [|l IH]; intros s; simpl; [reflexivity|]. f_equal. rewrite IH. f_equal; lia.
Qed.

Lemma abv_index n : map index_of (all_bool_vectors n) = seq 0 (2 ^ n).
Proof.
  induction n as [|n IH]; [reflexivity|].
  simpl all_bool_vectors. rewrite map_app, !map_map.
  rewrite (map_ext_in (fun x => index_of (false :: x)) index_of) by
    (intros x Hx; rewrite index_of_cons; reflexivity).
  rewrite (map_ext_in (fun x => index_of (true :: x)) (fun x => 2 ^ n + index_of x)) by
    (intros x Hx; rewrite index_of_cons, (abv_length _ _ Hx); reflexivity).
  rewrite <- (map_map index_of (fun i => 2 ^ n + i)), IH.
  rewrite Nat.pow_succ_r'. replace (2 * 2 ^ n) with (2 ^ n + 2 ^ n) by lia.
  rewrite seq_app, map_add_seq, Nat.add_0_r. reflexivity.
Qed.

Lemma abv_nth_index n x : length x = n -> nth_error (all_bool_vectors n) (index_of x) = Some x.
Proof.
  intros Hl. assert (Hin : In x (all_bool_vectors n)) by (apply abv_In; exact Hl).
  apply In_nth_error in Hin. destruct Hin as (i & Hi).
  assert (H := map_nth_error index_of _ _ Hi). rewrite abv_index in H.
  assert (Hlt : i < 2 ^ n).
  { rewrite <- abv_count. apply nth_error_Some. rewrite Hi; discriminate. }
  rewrite (nth_error_nth' _ 0) in H by (rewrite seq_length; exact Hlt).
  rewrite seq_nth in H by exact Hlt. injection H as H. simpl in H. rewrite <- H. exact Hi.
Qed.

Lemma index_of_inj x y : length x = length y -> index_of x = index_of y -> x = y.
Proof.
  intros Hl He. assert (H1 := abv_nth_index (length x) x eq_refl).
  assert (H2 := abv_nth_index (length x) y (eq_sym Hl)). rewrite He in H1. congruence.
Qed.

Lemma abv_nth n i : i < 2 ^ n ->
  exists x, nth_error (all_bool_vectors n) i = Some x /\ length x = n /\ index_of x = i.
Proof.
  intros Hi. destruct (nth_error (all_bool_vectors n) i) as [x|] eqn:E.
  - exists x. split; [reflexivity|]. assert (Hx : length x = n) by (eapply abv_length, nth_error_In; exact E).
    split; [exact Hx|]. assert (H := map_nth_error index_of _ _ E). rewrite abv_index in H.
    rewrite (nth_error_nth' _ 0) in H by (rewrite seq_length; exact Hi).
    rewrite seq_nth in H by exact Hi. injection H as H. simpl in H. symmetry; exact H.
  - apply nth_error_None in E. rewrite abv_count in E. lia.
Qed.

Lemma abv_NoDup n : NoDup (all_bool_vectors n).
Proof.
  apply (NoDup_map_inv index_of). rewrite abv_index. apply seq_NoDup.
Qed.

Lemma abv_nonempty n : exists rest, all_bool_vectors n = repeat false n :: rest.
Proof.
  induction n as [|n [rest IH]]; simpl; [exists []; reflexivity|].
  rewrite IH. simpl. eexists; reflexivity.
Qed.

(* ------------------------------------------------------------------ *)
(* popcount, xor, permutations of Boolean vectors *)

Lemma popcount_cons b x : popcount (b :: x) = (if b then 1 else 0) + popcount x.
Proof. unfold popcount; simpl. destruct (bool_dec b true) as [->|H]; [reflexivity|]. destruct b; [congruence|reflexivity]. Qed.

Lemma popcount_le x : popcount x <= length x.
Proof. induction x as [|b x IH]; [cbv; lia|]. rewrite popcount_cons; simpl; destruct b; lia. Qed.

Lemma popcount_repeat b k : popcount (repeat b k) = if b then k else 0.
Proof. induction k as [|k IH]; simpl repeat; [destruct b; reflexivity|]. rewrite popcount_cons, IH. destruct b; lia. Qed.

Lemma popcount_app x y : popcount (x ++ y) = popcount x + popcount y.
Proof. unfold popcount. apply count_occ_app. Qed.

Lemma perm_bool_canon (x : bvec) :
  Permutation x (repeat true (popcount x) ++ repeat false (length x - popcount x)).
Proof.
  induction x as [|b x IH]; [cbv; constructor|].
  rewrite popcount_cons. assert (Hle := popcount_le x). cbn [length]. destruct b.
  - replace (S (length x) - (1 + popcount x)) with (length x - popcount x) by lia.
    change (repeat true (1 + popcount x)) with (true :: repeat true (popcount x)).
    simpl app. constructor. exact IH.
  - replace (S (length x) - (0 + popcount x)) with (S (length x - popcount x)) by lia.
    change (0 + popcount x) with (popcount x).
    change (repeat false (S (length x - popcount x))) with (false :: repeat false (length x - popcount x)).
    apply Permutation_cons_app. exact IH.
Qed.

Lemma perm_bool (x y : bvec) :
  Permutation x y <-> length x = length y /\ popcount x = popcount y.
Proof.
  split.
  - intros H; split; [apply Permutation_length; exact H|]. unfold popcount.
    apply Permutation_count_occ; exact H.
  - intros [Hl Hp]. eapply perm_trans; [apply perm_bool_canon|].
    rewrite Hl, Hp. apply Permutation_sym, perm_bool_canon.
Qed.

Lemma xor_vec_length x g : length x = length g -> length (xor_vec x g) = length x.
Proof. intros H; unfold xor_vec; rewrite map_length, combine_length; lia. Qed.

Lemma xor_vec_cons a x b g : xor_vec (a :: x) (b :: g) = xorb a b :: xor_vec x g.
Proof. reflexivity. Qed.

Lemma xor_vec_invol x g : length x = length g -> xor_vec (xor_vec x g) g = x.
Proof.
  revert g; induction x as [|a x IH]; intros [|b g] H; simpl in H; try discriminate; [reflexivity|].
  rewrite !xor_vec_cons, IH by lia. f_equal. destruct a, b; reflexivity.
Qed.

Lemma xor_vec_false x : xor_vec x (repeat false (length x)) = x.
Proof. induction x as [|a x IH]; [reflexivity|]. simpl repeat. rewrite xor_vec_cons, IH, xorb_false_r; reflexivity. Qed.

(* ------------------------------------------------------------------ *)
(* the vectors of length n with exactly k True, in the order of the iterator *)

Fixpoint weight_vectors (n k : nat) : list bvec :=
  match n with
  | O => match k with O => [[]] | S _ => [] end
  | S n' =>
    (match k with O => [] | S k' => map (cons true) (weight_vectors n' k') end)
      ++ map (cons false) (weight_vectors n' k)
  end.

Lemma weight_vectors_0 n : weight_vectors n 0 = [repeat false n].
Proof. induction n as [|n IH]; [reflexivity|]. simpl. rewrite IH. reflexivity. Qed.

Lemma weight_vectors_In n : forall k x,
  In x (weight_vectors n k) <-> length x = n /\ popcount x = k.
Proof.
  induction n as [|n IH]; intros k x.
  - destruct k; simpl.
    + split; [intros [<-|[]]; split; reflexivity|]. intros [H _]. destruct x; [left; reflexivity|discriminate].
    + split; [intros []|]. intros [H1 H2]. destruct x; [discriminate|discriminate].
  - simpl. rewrite in_app_iff. split.
    + intros [H|H].
      * destruct k as [|k]; [destruct H|]. apply in_map_iff in H. destruct H as (y & <- & Hy).
        apply IH in Hy. rewrite popcount_cons. simpl. lia.
      * apply in_map_iff in H. destruct H as (y & <- & Hy). apply IH in Hy. rewrite popcount_cons. simpl. lia.
    + intros [H1 H2]. destruct x as [|b x]; [discriminate|]. rewrite popcount_cons in H2. simpl in H1.
      destruct b.
      * left. destruct k as [|k]; [simpl in H2; lia|]. apply in_map. apply IH. simpl in H2. lia.
      * right. apply in_map. apply IH. simpl in H2. lia.
Qed.

Lemma NoDup_app_disjoint {A} (l1 l2 : list A) :
  NoDup l1 -> NoDup l2 -> (forall a, In a l1 -> ~ In a l2) -> NoDup (l1 ++ l2).
Proof.
  intros H1 H2 Hd. induction H1 as [|a l1 Ha H1 IH]; simpl; [exact H2|].
  constructor.
  - rewrite in_app_iff. intros [H|H]; [contradiction|]. apply (Hd a); [left; reflexivity|exact H].
  - apply IH. intros b Hb. apply Hd. right; exact Hb.
Qed.

Lemma weight_vectors_NoDup n : forall k, NoDup (weight_vectors n k).
Proof.
  induction n as [|n IH]; intros k.
  - destruct k; simpl; [constructor; [intros []|constructor]|constructor].
  - simpl. assert (Hinj : forall b (l : list bvec), NoDup l -> NoDup (map (cons b) l)).
    { intros b l Hl. apply NoDup_map_in_inj; [|exact Hl]. intros a c _ _ E; injection E; auto. }
    apply NoDup_app_disjoint.
    + destruct k; [constructor|apply Hinj, IH].
    + apply Hinj, IH.
    + intros a Ha Hb. destruct k; [destruct Ha|].
      apply in_map_iff in Ha. destruct Ha as (y & <- & _).
      apply in_map_iff in Hb. destruct Hb as (z & Hz & _). discriminate.
Qed.

Lemma weight_vectors_nonempty n k : k <= n -> weight_vectors n k <> [].
Proof.
  intros Hk E.
  assert (H : In (repeat true k ++ repeat false (n - k)) (weight_vectors n k)).
  { apply weight_vectors_In. rewrite app_length, !repeat_length, popcount_app, !popcount_repeat. lia. }
  rewrite E in H. destruct H.
Qed.

(* combinations of positions <-> weight vectors *)
Definition char_vec (s n : nat) (idxs : list nat) : bvec := map (fun i => nat_mem i idxs) (seq s n).

Lemma combinations_ge l : forall k c i, In c (combinations l k) -> In i c -> In i l.
Proof.
  induction l as [|x xs IH]; intros k c i Hc Hi.
  - destruct k; simpl in Hc; [destruct Hc as [<-|[]]; destruct Hi|destruct Hc].
  - destruct k as [|k]; simpl in Hc; [destruct Hc as [<-|[]]; destruct Hi|].
    apply in_app_or in Hc; destruct Hc as [Hc|Hc].
    + apply in_map_iff in Hc; destruct Hc as (c' & <- & Hc'). destruct Hi as [<-|Hi]; [left; reflexivity|].
      right; eapply IH; eassumption.
    + right; eapply IH; eassumption.
Qed.

Lemma nat_mem_In i l : nat_mem i l = true <-> In i l.
Proof.
  unfold nat_mem. rewrite existsb_exists. split.
  - intros (x & Hx & E). apply Nat.eqb_eq in E. subst; exact Hx.
  - intros H; exists i; split; [exact H|apply Nat.eqb_refl].
Qed.

Lemma nat_mem_false i l : ~ In i l -> nat_mem i l = false.
Proof. intros H. destruct (nat_mem i l) eqn:E; [apply nat_mem_In in E; contradiction|reflexivity]. Qed.

Lemma combinations_char n : forall s k,
  map (char_vec s n) (combinations (seq s n) k) = weight_vectors n k.
Proof.
  induction n as [|n IH]; intros s k.
  - destruct k; reflexivity.
  - destruct k as [|k].
    + rewrite weight_vectors_0. simpl seq. simpl combinations. simpl map. f_equal.
      unfold char_vec. simpl. f_equal. clear IH. generalize (S s) as t. induction n; intros t; simpl; [reflexivity|].
      f_equal; auto.
    + simpl seq. simpl combinations. rewrite map_app, map_map. simpl weight_vectors. f_equal.
      * rewrite <- (IH (S s) k), map_map. apply map_ext_in. intros c Hc.
        unfold char_vec. simpl seq. simpl map. f_equal.
        { unfold nat_mem; simpl. rewrite Nat.eqb_refl; reflexivity. }
        apply map_ext_in. intros i Hi. apply in_seq in Hi. unfold nat_mem. simpl.
        destruct (Nat.eqb_spec i s); [lia|reflexivity].
      * rewrite <- (IH (S s) (S k)), map_map. apply map_ext_in. intros c Hc.
        unfold char_vec. simpl seq. simpl map. f_equal.
        apply nat_mem_false. intros Hs. apply (combinations_ge _ _ _ _ Hc), in_seq in Hs. lia.
Qed.

Lemma map_xor_seq : forall (g : bvec) (h : nat -> bool),
  map (fun i => xorb (h i) (nth i g false)) (seq 0 (length g)) = xor_vec (map h (seq 0 (length g))) g.
Proof.
  induction g as [|b g IH]; intros h; [reflexivity|].
  cbn [length seq map]. rewrite xor_vec_cons. f_equal.
  rewrite <- !seq_shift, !map_map. rewrite <- (IH (fun i => h (S i))). reflexivity.
Qed.

Lemma fixed_sum_vec_xor n negs idxs : length negs = n ->
  fixed_sum_vec n negs idxs = xor_vec (char_vec 0 n idxs) negs.
Proof.
  intros <-. unfold fixed_sum_vec, char_vec. apply (map_xor_seq negs (fun i => nat_mem i idxs)).
Qed.

(* input_iterator_with_fixed_sum in terms of the weight vectors *)
Lemma fixed_sum_weight n k negs : length negs = n ->
  fixed_sum n k (Some negs) = Ok (map (fun w => xor_vec w negs) (weight_vectors n k)).
Proof.
  intros Hl. unfold fixed_sum.
  assert (E : map (fixed_sum_vec n negs) (combinations (seq 0 n) k)
              = map (fun w => xor_vec w negs) (weight_vectors n k)).
  { rewrite <- (combinations_char n 0 k), map_map. apply map_ext. intros c. apply fixed_sum_vec_xor; exact Hl. }
  destruct (combinations (seq 0 n) k) eqn:Ec.
  - simpl in E. rewrite <- E. reflexivity.
  - rewrite Hl, Nat.ltb_irrefl. rewrite E. reflexivity.
Qed.

Lemma fixed_sum_none n k : fixed_sum n k None = Ok (weight_vectors n k).
Proof.
  assert (H := fixed_sum_weight n k (repeat false n) (repeat_length _ _)).
  unfold fixed_sum in *. rewrite H. f_equal.
  rewrite <- (map_id (weight_vectors n k)) at 2. apply map_ext_in. intros w Hw.
  apply weight_vectors_In in Hw. destruct Hw as [<- _]. apply xor_vec_false.
Qed.

(* the enumeration theorem: exactly the vectors x with popcount (x xor negs) = k, each once *)
Lemma fixed_sum_enumerates n k negs : length negs = n ->
  exists l, fixed_sum n k (Some negs) = Ok l /\ NoDup l /\
            forall x, In x l <-> length x = n /\ popcount (xor_vec x negs) = k.
Proof.
  intros Hl. eexists; split; [apply fixed_sum_weight; exact Hl|]. split.
  - apply NoDup_map_in_inj; [|apply weight_vectors_NoDup].
    intros a b Ha Hb E. apply weight_vectors_In in Ha, Hb.
    rewrite <- (xor_vec_invol a negs), <- (xor_vec_invol b negs) by lia. rewrite E; reflexivity.
  - intros x. rewrite in_map_iff. split.
    + intros (w & <- & Hw). apply weight_vectors_In in Hw. destruct Hw as [Hw1 Hw2].
      rewrite xor_vec_length, xor_vec_invol by lia. split; assumption.
    + intros [H1 H2]. exists (xor_vec x negs). split; [apply xor_vec_invol; lia|].
      apply weight_vectors_In. rewrite xor_vec_length by lia. split; assumption.
Qed.

Lemma fixed_sum_enumerates_none n k :
  exists l, fixed_sum n k None = Ok l /\ NoDup l /\
            forall x, In x l <-> length x = n /\ popcount x = k.
Proof.
  exists (weight_vectors n k). split; [apply fixed_sum_none|]. split; [apply weight_vectors_NoDup|].
  apply weight_vectors_In.
Qed.

(* ------------------------------------------------------------------ *)
(* zip( * rows) of a rectangular matrix given by rows (js non-empty) *)

Lemma heads_map_cons {A B} (g : B -> A) (h : B -> list A) (js : list B) :
  heads (map (fun j => g j :: h j) js) = Some (map g js, map h js).
Proof. induction js as [|j js IH]; simpl; [reflexivity|]. rewrite IH; reflexivity. Qed.

Lemma transpose_fuel_matrix {A X J} (g : J -> X -> A) (js : list J) (xs : list X) :
  js <> [] ->
  transpose_fuel (length xs) (map (fun j => map (g j) xs) js) = map (fun x => map (fun j => g j x) js) xs.
Proof.
  intros Hjs. induction xs as [|x xs IH]; simpl; [reflexivity|].
  destruct js as [|j0 js']; [congruence|].
  change (map (fun j => g j x :: map (g j) xs) (j0 :: js'))
    with (map (fun j => (fun j => g j x) j :: (fun j => map (g j) xs) j) (j0 :: js')).
  remember (j0 :: js') as js eqn:Ejs.
  destruct (map (fun j => (fun j1 => g j1 x) j :: (fun j1 => map (g j1) xs) j) js) eqn:Em.
  - subst js; discriminate.
  - rewrite <- Em, heads_map_cons. f_equal. exact IH.
Qed.

Lemma transpose_matrix {A X J} (g : J -> X -> A) (js : list J) (xs : list X) :
  js <> [] ->
  transpose (map (fun j => map (g j) xs) js) = map (fun x => map (fun j => g j x) js) xs.
Proof.
  intros Hjs. unfold transpose. destruct js as [|j0 js']; [congruence|].
  simpl hd. rewrite map_length. apply (transpose_fuel_matrix g (j0 :: js') xs Hjs).
Qed.
