(* The generate_* wrappers: fresh circuit with the given inputs, one add_* call, outputs set. *)
Require Import Cirbo.Model.Base Cirbo.Model.Gate Cirbo.Model.Den Cirbo.Model.Circuit
  Cirbo.Model.Eval Cirbo.Model.Sem Cirbo.Model.Builder.
Require Import Cirbo.Model.ArithSub Cirbo.Model.ArithSum2 Cirbo.Model.ArithDiv Cirbo.Model.ArithSqrt
  Cirbo.Model.ArithMisc Cirbo.Model.ArithGen.
Require Import Cirbo.Proofs.DictFacts Cirbo.Proofs.BuilderFacts Cirbo.Proofs.ArithFacts
  Cirbo.Proofs.ArithSubFacts Cirbo.Proofs.ArithSum2Facts Cirbo.Proofs.ArithMiscFacts
  Cirbo.Proofs.ArithDivFacts Cirbo.Proofs.ArithSqrtFacts.
Open Scope Z_scope.

(* the assignment gives the input labels the Boolean values bs *)
Definition assigns (asg : assignment) (ins : list label) (bs : list bool) : Prop :=
  Forall2 (fun l b => aval asg l = inj b) ins bs.

Lemma emplace_input_inv c l c' :
  emplace_gate c l INPUT [] = Ok c' ->
  has_gate c l = false /\ gates c' = gates c ++ [(l, mkGate INPUT [])] /\
  inputs c' = inputs c ++ [l] /\ outputs c' = outputs c.
Proof.
  unfold emplace_gate, check_label_doesnt_exist. destruct (has_gate c l) eqn:Hl; [discriminate|].
  simpl. intros [= <-]. unfold emplace_gate_raw, add_users. simpl.
  repeat split; auto. apply dset_new. exact Hl.
Qed.

Lemma add_inputs_spec ls : forall c c',
  add_inputs c ls = Ok c' ->
  inputs c' = inputs c ++ ls /\ outputs c' = outputs c /\
  (forall l g, dget (gates c) l = Some g -> dget (gates c') l = Some g) /\
  (forall l, In l ls -> dget (gates c') l = Some (mkGate INPUT [])).
Proof.
  induction ls as [|l ls IH]; intros c c' H; cbn [add_inputs] in H.
  - injection H as <-. rewrite app_nil_r. repeat split; auto. intros l [].
  - destruct (check_label_doesnt_exist l c); [|discriminate]. cbn [bind] in H.
    destruct (emplace_gate c l INPUT []) as [c1|] eqn:E; [|discriminate]. cbn [bind] in H.
    apply emplace_input_inv in E as (Hl & G & I & O).
    apply IH in H as (I' & O' & Hold & Hnew).
    split; [rewrite I', I, <- app_assoc; reflexivity|]. split; [congruence|].
    assert (forall k g, dget (gates c) k = Some g -> dget (gates c1) k = Some g) as Hstep.
    { intros k g Hk. rewrite G, dget_app, Hk. reflexivity. }
    split; [intros; apply Hold, Hstep; assumption|].
    intros k [<-|Hk]; [|apply Hnew, Hk].
    apply Hold. rewrite G, dget_app. unfold has_gate, dmem in Hl.
    destruct (dget (gates c) l); [discriminate|]. simpl. rewrite leqb_refl. reflexivity.
Qed.

Lemma inputs_bvals c0 asg ls bs :
  (forall l, In l ls -> dget (gates c0) l = Some (mkGate INPUT [])) ->
  assigns asg ls bs -> bvals c0 asg ls bs.
Proof.
  intros Hin Ha. unfold assigns in Ha. induction Ha as [|l b ls bs Hlb _ IH]; constructor.
  - unfold bval. rewrite <- Hlb. eapply EvalInput; [apply Hin; left; reflexivity|reflexivity].
  - apply IH. intros k Hk. apply Hin. right. exact Hk.
Qed.

Lemma circuit_with_inputs_spec ins c0 :
  circuit_with_inputs ins = Ok c0 ->
  inputs c0 = ins /\ outputs c0 = [] /\
  forall asg bs, assigns asg ins bs -> bvals c0 asg ins bs.
Proof.
  intros H. apply add_inputs_spec in H as (I & O & _ & Hnew). simpl in I, O.
  split; [exact I|]. split; [exact O|]. intros asg bs Ha. apply inputs_bvals; assumption.
Qed.

Lemma Eval_gates_eq c c' a l v : gates c = gates c' -> Eval c a l v -> Eval c' a l v.
Proof.
  intros G H; induction H as [l g Hg Ht|l g vs v Hg Ht Hops IH Hop] using Eval_ind2.
  - eapply EvalInput; [rewrite <- G; eassumption|exact Ht].
  - eapply EvalGate; [rewrite <- G; eassumption|exact Ht|exact IH|exact Hop].
Qed.

Lemma bvals_gates_eq c c' a ls bs : gates c = gates c' -> bvals c a ls bs -> bvals c' a ls bs.
Proof. intros G H; induction H; constructor; [eapply Eval_gates_eq; eassumption|assumption]. Qed.

Lemma gen_set_outputs_inv fresh k0 ins p c :
  gen_set_outputs fresh k0 ins p = Ok c ->
  exists c0 r s', circuit_with_inputs ins = Ok c0 /\ run fresh p (mkB c0 k0) = Ok (r, s') /\
                  gates c = gates (bc s') /\ inputs c = inputs (bc s') /\ outputs c = r.
Proof.
  unfold gen_set_outputs. destruct (circuit_with_inputs ins) as [c0|]; [|discriminate]. cbn [bind].
  destruct (run fresh p (mkB c0 k0)) as [[r s']|] eqn:E; [|discriminate]. cbn [bind fst snd].
  unfold set_outputs. destruct (check_gates_exist r (bc s')); [|discriminate]. cbn [bind].
  intros [= <-]. exists c0, r, s'. repeat split; auto.
Qed.

Lemma gen_marked_inv fresh k0 {A} ins (p : prog A) c :
  gen_marked fresh k0 ins p = Ok c ->
  exists c0 r s', circuit_with_inputs ins = Ok c0 /\ run fresh p (mkB c0 k0) = Ok (r, s') /\ c = bc s'.
Proof.
  unfold gen_marked. destruct (circuit_with_inputs ins) as [c0|]; [|discriminate]. cbn [bind].
  destruct (run fresh p (mkB c0 k0)) as [[r s']|] eqn:E; [|discriminate]. cbn [bind fst snd].
  intros [= <-]. exists c0, r, s'. auto.
Qed.

Lemma assigns_firstn asg n ins bs : assigns asg ins bs -> assigns asg (firstn n ins) (firstn n bs).
Proof. unfold assigns. intros H; revert n; induction H; intros [|n]; simpl; constructor; auto. Qed.
Lemma assigns_skipn asg n ins bs : assigns asg ins bs -> assigns asg (skipn n ins) (skipn n bs).
Proof. unfold assigns. intros H; revert n; induction H; intros [|n]; simpl; try constructor; auto. Qed.

(* ---- the eight wrappers --------------------------------------------------------------------- *)
Theorem generate_sub_two_numbers_correct fresh k0 ins size_a be c :
  generate_sub_two_numbers fresh k0 ins size_a be = Ok c ->
  inputs c = ins /\ length (outputs c) = length (firstn size_a ins) /\
  forall asg bs, assigns asg ins bs ->
    exists rv, bvals c asg (outputs c) rv /\
      decode be rv = (decode be (firstn size_a bs) - decode be (skipn size_a bs))
                     mod 2 ^ Z.of_nat (length (firstn size_a ins)).
Proof.
  intros H. apply gen_set_outputs_inv in H as (c0 & r & s' & H0 & Hr & G & I & O).
  apply circuit_with_inputs_spec in H0 as (I0 & _ & V0).
  apply add_sub_two_numbers_correct in Hr as (_ & I1 & _ & L & V). cbn [bc] in *.
  split; [congruence|]. split; [congruence|]. intros asg bs Ha.
  specialize (V0 asg bs Ha).
  destruct (V asg (firstn size_a bs) (skipn size_a bs)) as (rv & Vr & E);
    [apply bvals_firstn, V0|apply bvals_skipn, V0|].
  exists rv. rewrite O. split; [eapply bvals_gates_eq; [symmetry; exact G|exact Vr]|exact E].
Qed.

Theorem generate_div_mod_correct fresh k0 ins n be c :
  generate_div_mod fresh k0 ins n be = Ok c ->
  inputs c = ins /\ length (skipn n ins) = length (firstn n ins) /\
  exists qs rs, outputs c = qs ++ rs /\ length qs = length (firstn n ins) /\ length rs = length (firstn n ins) /\
  forall asg bs, assigns asg ins bs ->
    exists qv rv, bvals c asg qs qv /\ bvals c asg rs rv /\
      let A := decode be (firstn n bs) in let B := decode be (skipn n bs) in
      decode be qv = (if B =? 0 then 0 else A / B) /\ decode be rv = (if B =? 0 then 0 else A mod B).
Proof.
  intros H. apply gen_set_outputs_inv in H as (c0 & r & s' & H0 & Hr & G & I & O).
  apply circuit_with_inputs_spec in H0 as (I0 & _ & V0).
  apply run_bind_inv in Hr as ([qs rs] & s1 & Hd & Hr). apply run_ret_inv in Hr as (-> & ->).
  apply add_div_mod_correct in Hd as (_ & I1 & _ & Ly & Lq & Lr & V). cbn [bc fst snd] in *.
  split; [congruence|]. split; [exact Ly|]. exists qs, rs. repeat split; auto.
  intros asg bs Ha. specialize (V0 asg bs Ha).
  destruct (V asg (firstn n bs) (skipn n bs)) as (qv & rv & Vq & Vr & Eq & Er);
    [apply bvals_firstn, V0|apply bvals_skipn, V0|].
  exists qv, rv. split; [eapply bvals_gates_eq; [symmetry; exact G|exact Vq]|].
  split; [eapply bvals_gates_eq; [symmetry; exact G|exact Vr]|]. cbv zeta. auto.
Qed.

Theorem generate_sqrt_correct fresh k0 ins be c :
  generate_sqrt fresh k0 ins be = Ok c ->
  inputs c = ins /\ length (outputs c) = ((length ins + 1) / 2)%nat /\
  forall asg bs, assigns asg ins bs ->
    exists rv, bvals c asg (outputs c) rv /\ decode be rv = Z.sqrt (decode be bs).
Proof.
  intros H. apply gen_set_outputs_inv in H as (c0 & r & s' & H0 & Hr & G & I & O).
  apply circuit_with_inputs_spec in H0 as (I0 & _ & V0).
  apply add_sqrt_correct in Hr as (_ & I1 & _ & L & V). cbn [bc] in *.
  split; [congruence|]. split; [congruence|]. intros asg bs Ha.
  destruct (V asg bs (V0 asg bs Ha)) as (rv & Vr & E).
  exists rv. rewrite O. split; [eapply bvals_gates_eq; [symmetry; exact G|exact Vr]|exact E].
Qed.

Theorem generate_equal_correct fresh k0 ins num c :
  generate_equal fresh k0 ins num = Ok c -> ins <> [] ->
  inputs c = ins /\ exists o, outputs c = [o] /\
  forall asg bs, assigns asg ins bs -> bval c asg o (bits_val bs =? num).
Proof.
  intros H Hne. apply gen_set_outputs_inv in H as (c0 & r & s' & H0 & Hr & G & I & O).
  apply circuit_with_inputs_spec in H0 as (I0 & _ & V0).
  apply run_bind_inv in Hr as (o & s1 & He & Hr). apply run_ret_inv in Hr as (-> & ->).
  apply add_equal_correct in He as (_ & I1 & _ & V); [|exact Hne]. cbn [bc] in *.
  split; [congruence|]. exists o. split; [exact O|]. intros asg bs Ha.
  eapply Eval_gates_eq; [symmetry; exact G|]. apply V, V0, Ha.
Qed.

Theorem generate_plus_one_correct fresh k0 xs zs be c :
  generate_plus_one fresh k0 xs zs be = Ok c ->
  inputs c = xs /\ outputs c = zs /\
  forall asg bs, assigns asg xs bs ->
    exists rv, bvals c asg zs rv /\ decode be rv = (decode be bs + 1) mod 2 ^ Z.of_nat (length zs).
Proof.
  intros H. apply gen_marked_inv in H as (c0 & r & s' & H0 & Hr & ->).
  apply circuit_with_inputs_spec in H0 as (I0 & O0 & V0).
  apply add_plus_one_correct in Hr as (_ & I1 & O & Hres & _ & V). cbn [bc] in *.
  rewrite (Hres zs eq_refl) in *. rewrite O0 in O.
  split; [congruence|]. split; [exact O|]. intros asg bs Ha. apply V, V0, Ha.
Qed.

Theorem generate_if_then_else_correct fresh k0 i t e r c :
  generate_if_then_else fresh k0 i t e r = Ok c ->
  inputs c = [i; t; e] /\ outputs c = [r] /\
  forall asg iv tv ev, assigns asg [i; t; e] [iv; tv; ev] -> bval c asg r (if iv then tv else ev).
Proof.
  intros H. apply gen_marked_inv in H as (c0 & r' & s' & H0 & Hr & ->).
  apply circuit_with_inputs_spec in H0 as (I0 & O0 & V0).
  apply add_if_then_else_correct in Hr as (_ & I1 & O & Hres & _ & V). cbn [bc] in *.
  rewrite (Hres r eq_refl) in *. rewrite O0 in O.
  split; [congruence|]. split; [exact O|]. intros asg iv tv ev Ha.
  specialize (V0 asg _ Ha). inversion V0 as [|? ? ? ? Vi V1]; subst. inversion V1 as [|? ? ? ? Vt V2]; subst.
  inversion V2 as [|? ? ? ? Ve V3]; subst. apply V; assumption.
Qed.

Lemma firstn_app_len {A} (l1 l2 : list A) : firstn (length l1) (l1 ++ l2) = l1.
Proof. induction l1; simpl; congruence. Qed.
Lemma skipn_app_len {A} (l1 l2 : list A) : skipn (length l1) (l1 ++ l2) = l2.
Proof. induction l1; simpl; congruence. Qed.

Lemma assigns_app_inv asg l1 l2 bs :
  assigns asg (l1 ++ l2) bs ->
  assigns asg l1 (firstn (length l1) bs) /\ assigns asg l2 (skipn (length l1) bs).
Proof.
  unfold assigns. revert bs; induction l1 as [|x l1 IH]; intros bs H; simpl in *.
  - split; [constructor|exact H].
  - inversion H; subst. destruct (IH _ H4). split; [constructor; assumption|assumption].
Qed.

Theorem generate_pairwise_xor_correct fresh k0 xs ys rs c :
  generate_pairwise_xor fresh k0 xs ys rs = Ok c ->
  inputs c = xs ++ ys /\ outputs c = rs /\ length ys = length xs /\ length rs = length xs /\
  forall asg bs, assigns asg (xs ++ ys) bs ->
    bvals c asg rs (map2 xorb (firstn (length xs) bs) (skipn (length xs) bs)).
Proof.
  intros H. apply gen_marked_inv in H as (c0 & r & s' & H0 & Hr & ->).
  apply circuit_with_inputs_spec in H0 as (I0 & O0 & V0).
  apply add_pairwise_xor_correct in Hr as (_ & I1 & O & Hres & Lr & Ly & V). cbn [bc] in *.
  rewrite (Hres rs eq_refl) in *. rewrite O0 in O.
  split; [congruence|]. split; [exact O|]. split; [exact Ly|]. split; [exact Lr|].
  intros asg bs Ha. specialize (V0 asg bs Ha).
  assert (bvals c0 asg xs (firstn (length xs) bs)) as Vx
    by (rewrite <- (firstn_app_len xs ys) at 1; apply bvals_firstn, V0).
  assert (bvals c0 asg ys (skipn (length xs) bs)) as Vy
    by (rewrite <- (skipn_app_len xs ys) at 1; apply bvals_skipn, V0).
  apply V; assumption.
Qed.

Theorem generate_pairwise_if_then_else_correct fresh k0 is_ ts es rs c :
  generate_pairwise_if_then_else fresh k0 is_ ts es rs = Ok c ->
  inputs c = is_ ++ ts ++ es /\ outputs c = rs /\
  length ts = length is_ /\ length es = length is_ /\ length rs = length is_ /\
  forall asg bs, assigns asg (is_ ++ ts ++ es) bs ->
    let n := length is_ in
    bvals c asg rs (map3 (fun i t e : bool => if i then t else e)
                         (firstn n bs) (firstn n (skipn n bs)) (skipn n (skipn n bs))).
Proof.
  intros H. apply gen_marked_inv in H as (c0 & r & s' & H0 & Hr & ->).
  apply circuit_with_inputs_spec in H0 as (I0 & O0 & V0).
  apply add_pairwise_if_then_else_correct in Hr as (_ & I1 & O & Hres & Lr & Lt & Le & V). cbn [bc] in *.
  rewrite (Hres rs eq_refl) in *. rewrite O0 in O.
  split; [congruence|]. split; [exact O|]. repeat split; auto.
  intros asg bs Ha. specialize (V0 asg bs Ha). cbv zeta.
  assert (bvals c0 asg (ts ++ es) (skipn (length is_) bs)) as V1.
  { rewrite <- (skipn_app_len is_ (ts ++ es)) at 1. apply bvals_skipn, V0. }
  assert (bvals c0 asg is_ (firstn (length is_) bs)) as Vi
    by (rewrite <- (firstn_app_len is_ (ts ++ es)) at 1; apply bvals_firstn, V0).
  assert (bvals c0 asg ts (firstn (length ts) (skipn (length is_) bs))) as Vt
    by (rewrite <- (firstn_app_len ts es) at 1; apply bvals_firstn, V1).
  assert (bvals c0 asg es (skipn (length ts) (skipn (length is_) bs))) as Ve
    by (rewrite <- (skipn_app_len ts es) at 1; apply bvals_skipn, V1).
  rewrite Lt in Vt, Ve. apply V; assumption.
Qed.
