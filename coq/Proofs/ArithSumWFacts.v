(* C07, part 5: the weighted sums add_sum_n_weighted_bits_naive and add_sum_n_weighted_bits.
   Invariant of the level loop: the weighted value of the work lists `single` and `pairs` plus the
   emitted result bits equals the target; the lists stay sorted by level, every level is visited
   at most once, in increasing order. *)
Require Import Cirbo.Model.Base Cirbo.Model.Gate Cirbo.Model.Den Cirbo.Model.Circuit
  Cirbo.Model.Eval Cirbo.Model.Sem Cirbo.Model.Builder.
Require Import Cirbo.Generated.ArithTables Cirbo.Generated.ArithCells.
Require Import Cirbo.Model.ArithSub Cirbo.Model.ArithSum2 Cirbo.Model.ArithSumN Cirbo.Model.ArithSumW.
Require Import Cirbo.Proofs.DictFacts Cirbo.Proofs.BuilderFacts Cirbo.Proofs.ArithFacts
  Cirbo.Proofs.ArithSumCells Cirbo.Proofs.ArithSumNFacts Cirbo.Proofs.ArithSumTopFacts.
Open Scope Z_scope.

(* ---- sorted work lists: only the level (the first component) matters ---------------------------- *)
Section Sorted.
  Context {A : Type}.
  Variable lev : A -> N.
  Variable ltb : A -> A -> bool.
  Hypothesis ltb_true : forall x y, ltb x y = true -> (lev x <= lev y)%N.
  Hypothesis ltb_false : forall x y, ltb x y = false -> (lev y <= lev x)%N.

  Definition lb (lo : N) (l : list A) : Prop := Forall (fun x => (lo <= lev x)%N) l.

  Inductive lsorted : list A -> Prop :=
  | ls_nil : lsorted []
  | ls_cons a l : lb (lev a) l -> lsorted l -> lsorted (a :: l).

  Lemma lb_weaken lo lo' l : (lo' <= lo)%N -> lb lo l -> lb lo' l.
  Proof. intros H. apply Forall_impl. intros x; lia. Qed.

  Lemma sl_add_lb lo x l : (lo <= lev x)%N -> lb lo l -> lb lo (sl_add ltb x l).
  Proof.
    intros Hx. induction 1 as [|y l Hy Hl IH]; simpl; [constructor; [exact Hx|constructor]|].
    destruct (ltb x y); [constructor; [exact Hx|constructor; assumption]|constructor; [exact Hy|exact IH]].
  Qed.

  Lemma sl_add_sorted x l : lsorted l -> lsorted (sl_add ltb x l).
  Proof.
    induction 1 as [|y l Hy Hl IH]; simpl; [constructor; constructor|].
    destruct (ltb x y) eqn:E.
    - constructor; [|constructor; assumption].
      apply ltb_true in E. constructor; [exact E|]. eapply lb_weaken; [exact E|exact Hy].
    - apply ltb_false in E. constructor; [apply sl_add_lb; assumption|exact IH].
  Qed.

  Lemma sl_add_length x l : length (sl_add ltb x l) = S (length l).
  Proof. induction l as [|y l IH]; simpl; [reflexivity|]. destruct (ltb x y); simpl; congruence. Qed.

  Lemma sl_add_gsum (V : A -> Z -> Prop) x vx l t :
    V x vx -> gsum V l t -> gsum V (sl_add ltb x l) (vx + t).
  Proof.
    intros Hx. induction 1 as [|y l vy t Hy Hl IH]; simpl; [constructor; [exact Hx|constructor]|].
    destruct (ltb x y).
    - constructor; [exact Hx|constructor; assumption].
    - eapply gsum_eq; [constructor; [exact Hy|exact IH]|lia].
  Qed.

  Lemma sl_of_list_sorted l : lsorted (sl_of_list ltb l).
  Proof.
    unfold sl_of_list. assert (lsorted []) as H by constructor. revert H. generalize (@nil A).
    induction l as [|x l IH]; simpl; intros acc H; [exact H|]. apply IH, sl_add_sorted, H.
  Qed.

  Lemma sl_of_list_length l : length (sl_of_list ltb l) = length l.
  Proof.
    unfold sl_of_list. assert (forall acc, length (fold_left (fun acc x => sl_add ltb x acc) l acc) = (length l + length acc)%nat) as H.
    { induction l as [|x l IH]; simpl; intros acc; [reflexivity|]. rewrite IH, sl_add_length. lia. }
    rewrite H. simpl. lia.
  Qed.

  Lemma sl_of_list_gsum (V : A -> Z -> Prop) l t : gsum V l t -> gsum V (sl_of_list ltb l) t.
  Proof.
    unfold sl_of_list. intros H.
    assert (forall acc ta, gsum V acc ta -> gsum V (fold_left (fun acc x => sl_add ltb x acc) l acc) (t + ta)) as HH.
    { induction H as [|x l vx t Hx Hl IH]; simpl; intros acc ta Ha; [exact Ha|].
      eapply gsum_eq; [apply IH, sl_add_gsum; eassumption|lia]. }
    eapply gsum_eq; [apply HH; constructor|lia].
  Qed.
End Sorted.

Lemma witem_ltb_true x y : witem_ltb x y = true -> (fst x <= fst y)%N.
Proof.
  destruct x as [la xa], y as [lb0 xb]. unfold witem_ltb. simpl.
  destruct (N.ltb_spec la lb0); [lia|]. destruct (N.eqb_spec la lb0); [lia|discriminate].
Qed.
Lemma witem_ltb_false x y : witem_ltb x y = false -> (fst y <= fst x)%N.
Proof.
  destruct x as [la xa], y as [lb0 xb]. unfold witem_ltb. simpl.
  destruct (N.ltb_spec la lb0); [discriminate|lia].
Qed.
Definition plev (p : wpair) : N := fst (fst p).
Lemma wpair_ltb_true x y : wpair_ltb x y = true -> (plev x <= plev y)%N.
Proof.
  destruct x as [[la xa] ya], y as [[lb0 xb] yb]. unfold wpair_ltb, plev. simpl.
  destruct (N.ltb_spec la lb0); [lia|]. destruct (N.eqb_spec la lb0); [lia|discriminate].
Qed.
Lemma wpair_ltb_false x y : wpair_ltb x y = false -> (plev y <= plev x)%N.
Proof.
  destruct x as [[la xa] ya], y as [[lb0 xb] yb]. unfold wpair_ltb, plev. simpl.
  destruct (N.ltb_spec la lb0); [discriminate|lia].
Qed.

Notation slb := (lb (@fst N label)).
Notation ssorted := (lsorted (@fst N label)).
Notation plb := (lb plev).
Notation psorted := (lsorted plev).

(* ---- popping one level ---------------------------------------------------------------------------- *)
Lemma take_level_spec lev l : forall now rest,
  take_level lev l = (now, rest) -> ssorted l -> slb lev l ->
  length l = (length now + length rest)%nat /\ ssorted rest /\ slb (lev + 1) rest /\
  forall c asg t, gsum (vwsolo c asg) l t ->
    exists S0 R, gsum (vsolo c asg) now S0 /\ gsum (vwsolo c asg) rest R /\ t = 2 ^ Z.of_N lev * S0 + R.
Proof.
  induction l as [|[lv x] l IH]; simpl; intros now rest E Hs Hl.
  - injection E as <- <-. repeat split; [constructor|constructor|].
    intros c asg t Ht. apply gsum_inv_nil in Ht as ->. exists 0, 0. repeat split; [constructor|constructor|lia].
  - inversion Hs as [|? ? Hlb Hs']; subst. inversion Hl as [|? ? Hx Hl']; subst. simpl in Hx.
    destruct (N.eqb_spec lv lev) as [->|Hne].
    + destruct (take_level lev l) as [a b] eqn:E'. injection E as <- <-.
      destruct (IH a b eq_refl Hs' Hl') as (L & S1 & B1 & V).
      split; [simpl; lia|]. split; [exact S1|]. split; [exact B1|].
      intros c asg t Ht. apply gsum_inv_cons in Ht as (vx & t0 & (b0 & Vb & ->) & Ht & ->). simpl in *.
      destruct (V c asg t0 Ht) as (S0 & R & H1 & H2 & ->).
      exists (Z.b2z b0 + S0), R. repeat split; [constructor; [apply vsolo_intro, Vb|exact H1]|exact H2|lia].
    + injection E as <- <-. split; [reflexivity|]. split; [exact Hs|]. split.
      * constructor; [simpl; lia|]. eapply lb_weaken; [|exact Hlb]. simpl. lia.
      * intros c asg t Ht. exists 0, t. repeat split; [constructor|exact Ht|lia].
Qed.

Lemma take_level_pairs_spec lev l : forall now rest,
  take_level_pairs lev l = (now, rest) -> psorted l -> plb lev l ->
  psorted rest /\ plb (lev + 1) rest /\
  forall c asg t, gsum (vwpair c asg) l t ->
    exists P0 R, gsum (vpair c asg) now P0 /\ gsum (vwpair c asg) rest R /\ t = 2 ^ Z.of_N lev * P0 + R.
Proof.
  induction l as [|[[lv x] y] l IH]; simpl; intros now rest E Hs Hl.
  - injection E as <- <-. repeat split; [constructor|constructor|].
    intros c asg t Ht. apply gsum_inv_nil in Ht as ->. exists 0, 0. repeat split; [constructor|constructor|lia].
  - inversion Hs as [|? ? Hlb Hs']; subst. inversion Hl as [|? ? Hx Hl']; subst. unfold plev in Hx; simpl in Hx.
    destruct (N.eqb_spec lv lev) as [->|Hne].
    + destruct (take_level_pairs lev l) as [a b] eqn:E'. injection E as <- <-.
      destruct (IH a b eq_refl Hs' Hl') as (S1 & B1 & V).
      split; [exact S1|]. split; [exact B1|].
      intros c asg t Ht. apply gsum_inv_cons in Ht as (vx & t0 & (bx & bxy & Vx & Vxy & ->) & Ht & ->). simpl in *.
      destruct (V c asg t0 Ht) as (P0 & R & H1 & H2 & ->).
      exists (Z.b2z bx + Z.b2z (xorb bx bxy) + P0), R.
      repeat split; [constructor; [apply vpair_intro; assumption|exact H1]|exact H2|lia].
    + injection E as <- <-. split; [exact Hs|]. split.
      * constructor; [unfold plev; simpl; lia|]. eapply lb_weaken; [|exact Hlb]. unfold plev; simpl. lia.
      * intros c asg t Ht. exists 0, t. repeat split; [constructor|exact Ht|lia].
Qed.

(* ---- pushing the carries to the next level ------------------------------------------------------ *)
Lemma add_singles_spec lev next : forall single,
  ssorted single -> ssorted (add_singles lev next single) /\
  (forall lo, (lo <= lev)%N -> slb lo single -> slb lo (add_singles lev next single)) /\
  length (add_singles lev next single) = (length next + length single)%nat /\
  forall c asg N0 R, gsum (vsolo c asg) next N0 -> gsum (vwsolo c asg) single R ->
    gsum (vwsolo c asg) (add_singles lev next single) (2 ^ Z.of_N lev * N0 + R).
Proof.
  unfold add_singles. induction next as [|x next IH]; simpl; intros single Hs.
  - repeat split; auto. intros c asg N0 R HN HR. apply gsum_inv_nil in HN as ->. eapply gsum_eq; [exact HR|lia].
  - destruct (IH (sl_add witem_ltb (lev, x) single)) as (S1 & B1 & L1 & V1).
    { apply sl_add_sorted; [apply witem_ltb_true|apply witem_ltb_false|exact Hs]. }
    split; [exact S1|]. split; [|split].
    + intros lo Hlo Hb. apply B1; [exact Hlo|]. apply sl_add_lb; [simpl; exact Hlo|exact Hb].
    + rewrite L1, sl_add_length. lia.
    + intros c asg N0 R HN HR. apply gsum_inv_cons in HN as (vx & N1 & (b0 & Vb & ->) & HN & ->).
      eapply gsum_eq; [apply V1; [exact HN|apply (sl_add_gsum witem_ltb (vwsolo c asg) (lev, x) (2 ^ Z.of_N lev * Z.b2z b0));
                                            [exists b0; auto|exact HR]]|lia].
Qed.

Lemma add_pairs_spec lev next : forall pairs,
  psorted pairs -> psorted (add_pairs lev next pairs) /\
  (forall lo, (lo <= lev)%N -> plb lo pairs -> plb lo (add_pairs lev next pairs)) /\
  forall c asg N0 R, gsum (vpair c asg) next N0 -> gsum (vwpair c asg) pairs R ->
    gsum (vwpair c asg) (add_pairs lev next pairs) (2 ^ Z.of_N lev * N0 + R).
Proof.
  unfold add_pairs. induction next as [|[x y] next IH]; simpl; intros pairs Hs.
  - repeat split; auto. intros c asg N0 R HN HR. apply gsum_inv_nil in HN as ->. eapply gsum_eq; [exact HR|lia].
  - destruct (IH (sl_add wpair_ltb (lev, x, y) pairs)) as (S1 & B1 & V1).
    { apply sl_add_sorted; [apply wpair_ltb_true|apply wpair_ltb_false|exact Hs]. }
    split; [exact S1|]. split.
    + intros lo Hlo Hb. apply B1; [exact Hlo|]. apply sl_add_lb; [unfold plev; simpl; exact Hlo|exact Hb].
    + intros c asg N0 R HN HR.
      apply gsum_inv_cons in HN as (vx & N1 & (bx & bxy & Vx & Vxy & ->) & HN & ->). simpl in *.
      eapply gsum_eq; [apply V1; [exact HN|
        apply (sl_add_gsum wpair_ltb (vwpair c asg) (lev, x, y) (2 ^ Z.of_N lev * (Z.b2z bx + Z.b2z (xorb bx bxy))));
        [exists bx, bxy; auto|exact HR]]|lia].
Qed.

(* ---- results: strictly increasing levels --------------------------------------------------------- *)
Inductive incr : list witem -> Prop :=
| incr_nil : incr []
| incr_cons a l : slb (fst a + 1) l -> incr l -> incr (a :: l).

Lemma incr_NoDup l : incr l -> NoDup (map fst l).
Proof.
  induction 1 as [|a l Hb _ IH]; simpl; constructor; [|exact IH].
  intros Hin. apply in_map_iff in Hin as (x & E & Hx).
  unfold lb in Hb. rewrite Forall_forall in Hb. specialize (Hb _ Hx). lia.
Qed.

Lemma pow2_succ_N lev : 2 ^ Z.of_N (lev + 1) = 2 * 2 ^ Z.of_N lev.
Proof. rewrite N2Z.inj_add, Z.pow_add_r by lia. change (2 ^ Z.of_N 1) with 2. lia. Qed.

(* ---- one level of the naive generator / of the AIG mode ------------------------------------------ *)
Lemma solo_level_spec T n3 n2 a cell3 cell2 :
  cell3_spec T n3 cell3 -> cell2_spec T n2 cell2 ->
  (n3 + 3 <= a + a)%nat -> (n3 <= a)%nat -> (n2 + 3 <= a)%nat ->
  forall fresh lev now rest s r s',
    run fresh (solo_level cell3 cell2 lev now rest) s = Ok (r, s') -> ssorted rest ->
    outputs (bc s') = outputs (bc s) /\
    (exists g, adds T (bc s) (bc s') g /\
               (g + 3 + a * length (snd r) <= a * (length now + length rest))%nat) /\
    ssorted (snd r) /\ (slb (lev + 1) rest -> slb (lev + 1) (snd r)) /\
    forall c, ext (bc s') c -> forall asg S0 R,
      gsum (vsolo c asg) now S0 -> gsum (vwsolo c asg) rest R ->
      exists vr R', bval c asg (fst r) vr /\ gsum (vwsolo c asg) (snd r) R' /\
                    2 ^ Z.of_N lev * S0 + R = 2 ^ Z.of_N lev * Z.b2z vr + R'.
Proof.
  intros C3 C2 A1 A2 A3 fresh lev now rest s r s' H Hs. unfold solo_level in H.
  destruct (rev now) as [|top others] eqn:E; [discriminate|].
  apply run_bind_inv in H as (r1 & s1 & Hl & H). apply run_ret_inv in H as (-> & ->). cbn [fst snd].
  apply (solo_loop_spec _ _ _ _ _ C3 C2) in Hl as (O1 & (k3 & k2 & Ad1 & K2 & L & L') & V1).
  destruct (add_singles_spec (lev + 1) (rev (snd r1)) rest Hs) as (S1 & B1 & L1 & W1).
  assert (length now = S (length others)) as Ln by (rewrite <- (rev_length now), E; reflexivity).
  split; [exact O1|]. split.
  - eexists. split; [exact Ad1|]. rewrite L1, rev_length, L', Ln, L. simpl length.
    pose proof (level_cost a n3 n2 k3 k2 K2 A1 A2 A3). unfold witem in *. clear - H. nia.
  - split; [exact S1|]. split; [intros Hb; apply B1; [lia|exact Hb]|].
    intros c Hc asg S0 R HS HR.
    apply gsum_rev in HS. rewrite E in HS.
    apply gsum_inv_cons in HS as (vt & R0 & (bt & Vt & ->) & HS & ->).
    destruct (V1 c Hc asg bt R0 0 Vt HS (gsum_nil _)) as (vr & Nx & Vr & HN & EE).
    exists vr, (2 ^ Z.of_N (lev + 1) * Nx + R). split; [exact Vr|]. split; [apply W1; [apply gsum_rev, HN|exact HR]|].
    rewrite pow2_succ_N. nia.
Qed.

(* ---- add_sum_n_weighted_bits_naive ------------------------------------------------------------------ *)
Lemma naive_loop_spec T n3 n2 a cell3 cell2 :
  cell3_spec T n3 cell3 -> cell2_spec T n2 cell2 ->
  (n3 + 3 <= a + a)%nat -> (n3 <= a)%nat -> (n2 + 3 <= a)%nat ->
  forall fresh inf fuel single s res s',
    run fresh (naive_loop fuel inf cell3 cell2 single) s = Ok (res, s') -> ssorted single ->
    outputs (bc s') = outputs (bc s) /\
    (exists g, adds T (bc s) (bc s') g /\ (g + 3 * length res <= a * length single)%nat) /\
    incr res /\ (forall lo, slb lo single -> slb lo res) /\
    forall c, ext (bc s') c -> forall asg t, gsum (vwsolo c asg) single t -> gsum (vwsolo c asg) res t.
Proof.
  intros C3 C2 A1 A2 A3 fresh inf fuel.
  assert (Hnil : forall s res s', run fresh (Ret (@nil witem)) s = Ok (res, s') ->
    outputs (bc s') = outputs (bc s) /\
    (exists g, adds T (bc s) (bc s') g /\ (g + 3 * length res <= a * 0)%nat) /\
    incr res /\ (forall lo, slb lo [] -> slb lo res) /\
    forall c, ext (bc s') c -> forall asg t, gsum (vwsolo c asg) [] t -> gsum (vwsolo c asg) res t).
  { intros s res s' H. apply run_ret_inv in H as (-> & ->). split; [reflexivity|].
    split; [exists 0%nat; split; [apply adds_refl|simpl; lia]|]. split; [constructor|]. split; auto. }
  induction fuel as [|f IH]; intros single s res s' H Hs.
  - destruct single as [|[lev x] single']; [apply Hnil, H|discriminate].
  - destruct single as [|[lev x] single']; [apply Hnil, H|].
    cbn [naive_loop] in H. destruct (inf <=? lev)%N; [discriminate|]. unfold witem in *.
    destruct (take_level lev ((lev, x) :: single')) as [now rest] eqn:Et.
    apply run_bind_inv in H as (st & s1 & Hl & H).
    apply run_bind_inv in H as (rs & s2 & Hrec & H). apply run_ret_inv in H as (-> & ->).
    pose proof (run_ext _ _ _ _ _ Hrec) as Hxrec.
    assert (slb lev ((lev, x) :: single')) as Hlb.
    { inversion Hs; subst. constructor; [simpl; lia|assumption]. }
    destruct (take_level_spec lev _ _ _ Et Hs Hlb) as (Lt & Srest & Brest & Vt).
    apply (solo_level_spec T n3 n2 a _ _ C3 C2 A1 A2 A3) in Hl as (O1 & (g1 & Ad1 & Bd1) & S1 & B1 & V1);
      [|exact Srest].
    apply IH in Hrec as (O2 & (g2 & Ad2 & Bd2) & I2 & B2 & V2); [|exact S1].
    split; [congruence|]. split.
    + eexists. split; [eapply adds_trans; eassumption|]. cbn [length] in *. unfold witem in *. rewrite Lt. lia.
    + split; [constructor; [apply B2, B1, Brest|exact I2]|]. split.
      * intros lo Hlo. inversion Hlo as [|? ? Hx Hlo']; subst. simpl in Hx.
        constructor; [simpl; exact Hx|]. apply B2. eapply lb_weaken; [|apply B1, Brest]. lia.
      * intros c Hc asg t Ht.
        assert (ext (bc s1) c) as Hc1 by (eapply ext_trans; eassumption).
        destruct (Vt c asg t Ht) as (S0 & R & HS0 & HR & ->).
        destruct (V1 c Hc1 asg S0 R HS0 HR) as (vr & R' & Vr & HR' & E).
        eapply gsum_eq; [constructor; [exists vr; split; [exact Vr|reflexivity]|apply V2; [exact Hc|exact HR']]|].
        simpl. lia.
Qed.

(* weighted value of a bit vector *)
Fixpoint wvalue (levs : list N) (vs : list bool) : Z :=
  match levs, vs with
  | l :: ls, v :: vs' => 2 ^ Z.of_N l * Z.b2z v + wvalue ls vs'
  | _, _ => 0
  end.

Lemma bvals_wgsum c asg inp vs :
  bvals c asg (map snd inp) vs -> gsum (vwsolo c asg) inp (wvalue (map fst inp) vs).
Proof.
  revert vs; induction inp as [|[l x] inp IH]; simpl; intros vs H; inversion H; subst; [constructor|].
  constructor; [eexists; split; [eassumption|reflexivity]|apply IH; assumption].
Qed.

Lemma wgsum_bvals c asg res t :
  gsum (vwsolo c asg) res t -> exists rv, bvals c asg (map snd res) rv /\ wvalue (map fst res) rv = t.
Proof.
  induction 1 as [|[l x] res va t (b & Hb & ->) _ (rv & Hv & <-)]; [exists []; split; [constructor|reflexivity]|].
  exists (b :: rv). split; [constructor; assumption|reflexivity].
Qed.

Lemma run_w_inf fresh inp s inf s1 :
  run fresh (ret_res (w_inf inp)) s = Ok (inf, s1) -> inp <> [] /\ s1 = s.
Proof.
  intros H. apply ret_res_inv in H as (H & ->). split; [|reflexivity]. intros ->. discriminate.
Qed.

Theorem add_sum_n_weighted_bits_naive_correct fresh basis inp s res s' :
  run fresh (add_sum_n_weighted_bits_naive basis inp) s = Ok (res, s') ->
  exists b, resolve_basis basis = Ok b /\
    ext (bc s) (bc s') /\ inputs (bc s') = inputs (bc s) /\ outputs (bc s') = outputs (bc s) /\
    (exists g, adds (t_of b) (bc s) (bc s') g /\
               (g + 3 * length res <= (match b with AIG => 7 | XAIG => 5 end) * length inp)%nat) /\
    incr res /\
    forall c, ext (bc s') c -> forall asg vs, bvals c asg (map snd inp) vs ->
      exists rv, bvals c asg (map snd res) rv /\ wvalue (map fst res) rv = wvalue (map fst inp) vs.
Proof.
  intros H. pose proof (run_ext _ _ _ _ _ H) as Hx. unfold add_sum_n_weighted_bits_naive in H.
  apply run_bind_inv in H as (b & s0 & Hb & H). apply run_resolve in Hb as (Hb & ->).
  apply run_bind_inv in H as (inf & s0 & Hi & H). apply run_w_inf in Hi as (_ & ->).
  exists b. split; [exact Hb|]. split; [exact Hx|]. split; [apply ext_inputs, Hx|].
  pose proof (sl_of_list_sorted (@fst N label) witem_ltb witem_ltb_true witem_ltb_false inp) as Hs.
  destruct b.
  - apply (naive_loop_spec t_xaig 5 2 5 _ _ add_sum3_cell add_sum2_cell) in H as (O & (g & A & Bd) & I & _ & V);
      [|lia..|exact Hs].
    split; [exact O|]. split; [exists g; split; [exact A|rewrite sl_of_list_length in Bd; exact Bd]|]. split; [exact I|].
    intros c Hc asg vs Hvs. apply wgsum_bvals, V; [exact Hc|]. apply sl_of_list_gsum, bvals_wgsum, Hvs.
  - apply (naive_loop_spec t_aig 7 3 7 _ _ add_sum3_aig_cell add_sum2_aig_cell) in H as (O & (g & A & Bd) & I & _ & V);
      [|lia..|exact Hs].
    split; [exact O|]. split; [exists g; split; [exact A|rewrite sl_of_list_length in Bd; exact Bd]|]. split; [exact I|].
    intros c Hc asg vs Hvs. apply wgsum_bvals, V; [exact Hc|]. apply sl_of_list_gsum, bvals_wgsum, Hvs.
Qed.

(* ---- add_sum_n_weighted_bits ----------------------------------------------------------------------- *)
Lemma head_lb {A} (levf : A -> N) inf l : lsorted levf l -> lb levf (head_level inf levf l) l.
Proof.
  destruct 1 as [|a l Hl _]; [constructor|]. simpl. constructor; [lia|exact Hl].
Qed.

Lemma take_level_pairs_nil lev : take_level_pairs lev [] = ([], []).
Proof. reflexivity. Qed.

Lemma eff_loop_spec fresh inf b : forall fuel single pairs s res s',
  run fresh (eff_loop fuel inf b single pairs) s = Ok (res, s') ->
  ssorted single -> psorted pairs -> (b = AIG -> pairs = []) ->
  outputs (bc s') = outputs (bc s) /\
  (exists g, adds (t_of b) (bc s) (bc s') g /\ (b = AIG -> (g + 3 * length res <= 7 * length single)%nat)) /\
  incr res /\ (forall lo, slb lo single -> plb lo pairs -> slb lo res) /\
  forall c, ext (bc s') c -> forall asg t tp,
    gsum (vwsolo c asg) single t -> gsum (vwpair c asg) pairs tp -> gsum (vwsolo c asg) res (t + tp).
Proof.
  assert (Hnil : forall s res s', run fresh (Ret (@nil witem)) s = Ok (res, s') ->
    outputs (bc s') = outputs (bc s) /\
    (exists g, adds (t_of b) (bc s) (bc s') g /\ (b = AIG -> (g + 3 * length res <= 7 * 0)%nat)) /\
    incr res /\ (forall lo, slb lo [] -> plb lo [] -> slb lo res) /\
    forall c, ext (bc s') c -> forall asg t tp,
      gsum (vwsolo c asg) [] t -> gsum (vwpair c asg) [] tp -> gsum (vwsolo c asg) res (t + tp)).
  { intros s res s' H. apply run_ret_inv in H as (-> & ->). split; [reflexivity|].
    split; [exists 0%nat; split; [apply adds_refl|simpl; lia]|]. split; [constructor|]. split; [auto|].
    intros c _ asg t tp Ht Htp. apply gsum_inv_nil in Ht as ->. apply gsum_inv_nil in Htp as ->. constructor. }
  induction fuel as [|f IH]; intros single pairs s res s' H Hs Hp Haig.
  { destruct single, pairs; try discriminate. apply Hnil, H. }
  set (lev := N.min (head_level inf fst single) (head_level inf (fun p : wpair => fst (fst p)) pairs)).
  assert (Hstep : run fresh
      (if (inf <=? lev)%N then Fail PyAssertionError
       else let '(now_singles, single1) := take_level lev single in
            let '(now_pairs, pairs1) := take_level_pairs lev pairs in
            match b with
            | AIG =>
              bdo st <- solo_level add_sum3_aig add_sum2_aig lev now_singles single1;
              bdo rs <- eff_loop f inf b (snd st) pairs1;
              Ret ((lev, fst st) :: rs)
            | XAIG =>
              bdo st <- pair_up (rev now_singles) (rev now_pairs);
              bdo lv <- xaig_level (fst st) (snd st);
              let '(r, next_solo, next_xxy) := lv in
              bdo rs <- eff_loop f inf b (add_singles (lev + 1) (rev next_solo) single1)
                                         (add_pairs (lev + 1) (rev next_xxy) pairs1);
              Ret ((lev, r) :: rs)
            end) s = Ok (res, s') ->
    outputs (bc s') = outputs (bc s) /\
    (exists g, adds (t_of b) (bc s) (bc s') g /\ (b = AIG -> (g + 3 * length res <= 7 * length single)%nat)) /\
    incr res /\ (forall lo, slb lo single -> plb lo pairs -> slb lo res) /\
    forall c, ext (bc s') c -> forall asg t tp,
      gsum (vwsolo c asg) single t -> gsum (vwpair c asg) pairs tp -> gsum (vwsolo c asg) res (t + tp)).
  { clear H. intros H. destruct (inf <=? lev)%N eqn:Einf; [discriminate|]. apply N.leb_gt in Einf.
    assert (slb lev single) as Hlb.
    { eapply lb_weaken; [|apply (head_lb (@fst N label) inf), Hs]. unfold lev. lia. }
    assert (plb lev pairs) as Hplb.
    { eapply lb_weaken; [|apply (head_lb plev inf), Hp]. unfold lev, plev. lia. }
    assert (forall lo, slb lo single -> plb lo pairs -> (lo <= lev)%N) as Hlolev.
    { intros lo Hlo Hplo. unfold lev in *. destruct single as [|a single']; destruct pairs as [|p pairs'];
        cbn [head_level] in *.
      - lia.
      - inversion Hplo; subst. unfold plev in *. lia.
      - inversion Hlo; subst. lia.
      - inversion Hlo; subst. inversion Hplo; subst. unfold plev in *. lia. }
    destruct (take_level lev single) as [now single1] eqn:Et.
    destruct (take_level_pairs lev pairs) as [nowp pairs1] eqn:Etp.
    destruct (take_level_spec lev _ _ _ Et Hs Hlb) as (Lt & Srest & Brest & Vt).
    destruct (take_level_pairs_spec lev _ _ _ Etp Hp Hplb) as (Sprest & Bprest & Vtp).
    destruct b.
    - (* XAIG *)
      apply run_bind_inv in H as (st & s1 & Hpu & H).
      apply run_bind_inv in H as ([[r ns] nx] & s2 & Hlv & H).
      apply run_bind_inv in H as (rs & s3 & Hrec & H). apply run_ret_inv in H as (-> & ->).
      pose proof (run_ext _ _ _ _ _ Hrec) as Hxrec. pose proof (run_ext _ _ _ _ _ Hlv) as Hxlv.
      apply pair_up_spec in Hpu as (O1 & (g1 & A1) & V1).
      apply xaig_level_spec in Hlv as (O2 & (g2 & A2) & V2). cbn [fst snd] in V2.
      destruct (add_singles_spec (lev + 1) (rev ns) single1 Srest) as (S3 & B3 & _ & W3).
      destruct (add_pairs_spec (lev + 1) (rev nx) pairs1 Sprest) as (S4 & B4 & W4).
      apply IH in Hrec as (O3 & (g3 & A3 & _) & I3 & B5 & V3); [|exact S3|exact S4|discriminate].
      split; [congruence|]. split.
      { eexists. split; [eapply adds_trans; [eapply adds_trans; eassumption|exact A3]|discriminate]. }
      split; [constructor; [cbn [fst]; apply B5; [apply B3; [lia|exact Brest]|apply B4; [lia|exact Bprest]]|exact I3]|].
      split.
      + intros lo Hlo Hplo. specialize (Hlolev lo Hlo Hplo). constructor; [simpl; exact Hlolev|].
        apply B5; [apply B3; [lia|eapply lb_weaken; [|exact Brest]; lia]
                  |apply B4; [lia|eapply lb_weaken; [|exact Bprest]; lia]].
      + intros c Hc asg t tp Ht Htp.
        assert (ext (bc s2) c) as Hc2 by (eapply ext_trans; eassumption).
        assert (ext (bc s1) c) as Hc1 by (eapply ext_trans; eassumption).
        destruct (Vt c asg t Ht) as (S0 & R & HS0 & HR & ->).
        destruct (Vtp c asg tp Htp) as (P0 & Rp & HP0 & HRp & ->).
        destruct (V1 c Hc1 asg S0 P0 (gsum_rev _ _ _ HS0) (gsum_rev _ _ _ HP0)) as (S1 & P1 & HS1 & HP1 & E1).
        destruct (V2 c Hc2 asg S1 P1 HS1 HP1) as (vr & S2 & P2 & Vr & HS2 & HP2 & E2).
        eapply gsum_eq; [constructor; [exists vr; split; [exact Vr|reflexivity]|
          apply V3; [exact Hc|apply W3; [apply gsum_rev, HS2|exact HR]|apply W4; [apply gsum_rev, HP2|exact HRp]]]|].
        cbn [fst snd]. rewrite pow2_succ_N.
        assert (2 ^ Z.of_N lev * (S0 + P0) = 2 ^ Z.of_N lev * (Z.b2z vr + 2 * (S2 + P2))) as EE by (f_equal; lia).
        lia.
    - (* AIG *)
      rewrite (Haig eq_refl) in *. simpl in Etp. injection Etp as <- <-.
      apply run_bind_inv in H as (st & s1 & Hl & H).
      apply run_bind_inv in H as (rs & s2 & Hrec & H). apply run_ret_inv in H as (-> & ->).
      pose proof (run_ext _ _ _ _ _ Hrec) as Hxrec.
      apply (solo_level_spec t_aig 7 3 7 _ _ add_sum3_aig_cell add_sum2_aig_cell) in Hl
        as (O1 & (g1 & Ad1 & Bd1) & S1 & B1 & V1); [|lia..|exact Srest].
      apply IH in Hrec as (O2 & (g2 & Ad2 & Bd2) & I2 & B2 & V2); [|exact S1|constructor|reflexivity].
      split; [congruence|]. split.
      { eexists. split; [eapply adds_trans; eassumption|]. intros _. specialize (Bd2 eq_refl).
        cbn [length] in *. unfold witem in *. rewrite Lt. lia. }
      split; [constructor; [cbn [fst]; apply B2; [apply B1, Brest|constructor]|exact I2]|]. split.
      + intros lo Hlo Hplo. specialize (Hlolev lo Hlo Hplo). constructor; [simpl; exact Hlolev|].
        apply B2; [|constructor]. eapply lb_weaken; [|apply B1, Brest]. lia.
      + intros c Hc asg t tp Ht Htp. apply gsum_inv_nil in Htp as ->.
        assert (ext (bc s1) c) as Hc1 by (eapply ext_trans; eassumption).
        destruct (Vt c asg t Ht) as (S0 & R & HS0 & HR & ->).
        destruct (V1 c Hc1 asg S0 R HS0 HR) as (vr & R' & Vr & HR' & E).
        eapply gsum_eq; [constructor; [exists vr; split; [exact Vr|reflexivity]|
          apply (V2 c Hc asg R' 0); [exact HR'|constructor]]|].
        cbn [fst snd]. lia. }
  destruct single, pairs; [apply Hnil, H|apply Hstep, H..].
Qed.

Theorem add_sum_n_weighted_bits_correct fresh basis inp s res s' :
  run fresh (add_sum_n_weighted_bits basis inp) s = Ok (res, s') ->
  exists b, resolve_basis basis = Ok b /\
    ext (bc s) (bc s') /\ inputs (bc s') = inputs (bc s) /\ outputs (bc s') = outputs (bc s) /\
    (exists g, adds (t_of b) (bc s) (bc s') g /\ (b = AIG -> (g + 3 * length res <= 7 * length inp)%nat)) /\
    incr res /\
    forall c, ext (bc s') c -> forall asg vs, bvals c asg (map snd inp) vs ->
      exists rv, bvals c asg (map snd res) rv /\ wvalue (map fst res) rv = wvalue (map fst inp) vs.
Proof.
  intros H. pose proof (run_ext _ _ _ _ _ H) as Hx. unfold add_sum_n_weighted_bits in H.
  apply run_bind_inv in H as (b & s0 & Hb & H). apply run_resolve in Hb as (Hb & ->).
  apply run_bind_inv in H as (inf & s0 & Hi & H). apply run_w_inf in Hi as (_ & ->).
  exists b. split; [exact Hb|]. split; [exact Hx|]. split; [apply ext_inputs, Hx|].
  pose proof (sl_of_list_sorted (@fst N label) witem_ltb witem_ltb_true witem_ltb_false inp) as Hs.
  apply eff_loop_spec in H as (O & (g & A & Bd) & I & _ & V); [|exact Hs|constructor|reflexivity].
  split; [exact O|]. split.
  - exists g. split; [exact A|]. intros E. specialize (Bd E). rewrite sl_of_list_length in Bd. exact Bd.
  - split; [exact I|]. intros c Hc asg vs Hvs.
    apply wgsum_bvals. eapply gsum_eq; [apply V; [exact Hc|apply sl_of_list_gsum, bvals_wgsum, Hvs|constructor]|lia].
Qed.

(* the returned levels are pairwise distinct (they are strictly increasing) *)
Lemma incr_sorted l : incr l -> forall i j a b, (i < j)%nat ->
  nth_error (map fst l) i = Some a -> nth_error (map fst l) j = Some b -> (a < b)%N.
Proof.
  induction 1 as [|x l Hb _ IH]; intros i j a b Hij Hi Hj; [destruct i; discriminate|].
  destruct j as [|j]; [lia|]. destruct i as [|i].
  - simpl in Hi, Hj. injection Hi as <-. apply nth_error_In in Hj. apply in_map_iff in Hj as (y & <- & Hy).
    unfold lb in Hb. rewrite Forall_forall in Hb. specialize (Hb _ Hy). lia.
  - simpl in Hi, Hj. eapply IH; [|eassumption..]. lia.
Qed.
