(* The borrow-ripple subtractor: cells, loop invariant, and the two value theorems. *)
Require Import Cirbo.Model.Base Cirbo.Model.Gate Cirbo.Model.Den Cirbo.Model.Circuit
  Cirbo.Model.Eval Cirbo.Model.Sem Cirbo.Model.Builder.
Require Import Cirbo.Generated.ArithTables Cirbo.Generated.ArithCells Cirbo.Model.ArithSub.
Require Import Cirbo.Proofs.DictFacts Cirbo.Proofs.BuilderFacts Cirbo.Proofs.ArithFacts.
Open Scope Z_scope.

(* ---- cells ------------------------------------------------------------------------------- *)
Lemma add_sub2_spec fresh x1 x2 s r s' :
  run fresh (add_sub2 [x1; x2] false) s = Ok (r, s') ->
  exists d bal, r = [d; bal] /\ outputs (bc s') = outputs (bc s) /\
    forall c, ext (bc s') c -> forall a b1 b2, bval c a x1 b1 -> bval c a x2 b2 ->
      exists dv balv, bval c a d dv /\ bval c a bal balv /\
                      Z.b2z b1 - Z.b2z b2 = Z.b2z dv - 2 * Z.b2z balv.
Proof.
  cbv beta iota zeta delta [add_sub2 rev_if]. intros H.
  apply gate_tt_bind in H as (g1 & s1 & H & Hx1 & Ht1 & O1).
  apply gate_tt_bind in H as (g2 & s2 & H & Hx2 & Ht2 & O2).
  apply run_ret_inv in H as (-> & ->).
  exists g1, g2. split; [reflexivity|]. split; [congruence|].
  intros c Hc a b1 b2 Hb1 Hb2. to_final c.
  pose proof (has_tt_val _ _ _ _ _ _ _ _ Ht1 Hb1 Hb2) as V1.
  pose proof (has_tt_val _ _ _ _ _ _ _ _ Ht2 Hb1 Hb2) as V2.
  destruct b1, b2; simpl in V1, V2; eexists _, _; (split; [exact V1|split; [exact V2|reflexivity]]).
Qed.

Lemma add_sub3_spec fresh x0 x1 x2 s r s' :
  run fresh (add_sub3 [x0; x1; x2] false) s = Ok (r, s') ->
  exists d bal, r = [d; bal] /\ outputs (bc s') = outputs (bc s) /\
    forall c, ext (bc s') c -> forall a b0 b1 b2, bval c a x0 b0 -> bval c a x1 b1 -> bval c a x2 b2 ->
      exists dv balv, bval c a d dv /\ bval c a bal balv /\
                      Z.b2z b0 - Z.b2z b1 - Z.b2z b2 = Z.b2z dv - 2 * Z.b2z balv.
Proof.
  cbv beta iota zeta delta [add_sub3 rev_if]. intros H.
  apply gate_tt_bind in H as (g3 & s3 & H & Hx3 & Ht3 & O3).
  apply gate_tt_bind in H as (g4 & s4 & H & Hx4 & Ht4 & O4).
  apply gate_tt_bind in H as (g5 & s5 & H & Hx5 & Ht5 & O5).
  apply gate_tt_bind in H as (g6 & s6 & H & Hx6 & Ht6 & O6).
  apply gate_tt_bind in H as (g7 & s7 & H & Hx7 & Ht7 & O7).
  apply run_ret_inv in H as (-> & ->).
  exists g6, g7. split; [reflexivity|]. split; [congruence|].
  intros c Hc a b0 b1 b2 Hb0 Hb1 Hb2. to_final c.
  pose proof (has_tt_val _ _ _ _ _ _ _ _ Ht3 Hb0 Hb1) as V3.
  pose proof (has_tt_val _ _ _ _ _ _ _ _ Ht4 Hb1 Hb2) as V4.
  pose proof (has_tt_val _ _ _ _ _ _ _ _ Ht5 V3 V4) as V5.
  pose proof (has_tt_val _ _ _ _ _ _ _ _ Ht6 Hb2 V3) as V6.
  pose proof (has_tt_val _ _ _ _ _ _ _ _ Ht7 Hb0 V5) as V7.
  destruct b0, b1, b2; simpl in V6, V7; eexists _, _; (split; [exact V6|split; [exact V7|reflexivity]]).
Qed.

Lemma unpack2_inv fresh {A} (l : list A) s r s' :
  run fresh (unpack2 l) s = Ok (r, s') -> l = [fst r; snd r] /\ s' = s.
Proof.
  destruct l as [|x [|y [|z l]]]; simpl; try discriminate. intros [= <- <-]. tauto.
Qed.

(* ---- the ripple loop ------------------------------------------------------------------------ *)
Lemma sub_loop_spec fresh a : forall b bal s rs bal' s',
  run fresh (sub_loop a b bal) s = Ok ((rs, bal'), s') ->
  outputs (bc s') = outputs (bc s) /\ length rs = length a /\
  forall c, ext (bc s') c -> forall asg av bv balv,
    bvals c asg a av -> bvals c asg (firstn (length a) b) bv -> bval c asg bal balv ->
    exists rv bal'v, bvals c asg rs rv /\ bval c asg bal' bal'v /\
      bits_val av - bits_val bv - Z.b2z balv = bits_val rv - 2 ^ Z.of_nat (length a) * Z.b2z bal'v.
Proof.
  induction a as [|ai a' IH]; intros b bal s rs bal' s' H.
  - apply run_ret_inv in H as (E & ->). injection E as -> ->.
    split; [reflexivity|]. split; [reflexivity|].
    intros c Hc asg av bv balv Ha Hb Hbal. cbn [length firstn] in Hb. inversion Ha; subst. inversion Hb; subst.
    exists [], balv. split; [constructor|]. split; [exact Hbal|].
    cbn [length bits_val]. change (Z.of_nat 0) with 0. rewrite Z.pow_0_r. lia.
  - cbn [sub_loop] in H.
    apply run_bind_inv in H as (r & s1 & Hcell & H).
    apply run_bind_inv in H as ([ri bal1] & s2 & Hun & H).
    apply unpack2_inv in Hun as (-> & ->). cbn [fst snd] in H.
    apply run_bind_inv in H as ([rs1 bal2] & s3 & Hrec & H).
    apply run_ret_inv in H as (E & ->). cbn [fst snd] in E. injection E as -> ->.
    pose proof (run_ext _ _ _ _ _ Hrec) as Hxrec.
    apply IH in Hrec as (Orec & Lrec & Vrec).
    destruct b as [|bi b'].
    + apply add_sub2_spec in Hcell as (d & bl & E & O1 & V1). injection E as <- <-.
      split; [congruence|]. split; [simpl; congruence|].
      intros c Hc asg av bv balv Ha Hb Hbal.
      inversion Ha as [|? avi ? av' Hai Ha']; subst. inversion Hb; subst.
      assert (ext (bc s1) c) as Hc1 by (eapply ext_trans; eassumption).
      destruct (V1 c Hc1 asg _ _ Hai Hbal) as (dv & bal1v & Vd & Vb & Ecell).
      destruct (Vrec c Hc asg av' [] bal1v Ha') as (rv & bal'v & Vr & Vb' & Erec).
      { destruct (length a'); constructor. } { exact Vb. }
      exists (dv :: rv), bal'v. split; [constructor; assumption|]. split; [exact Vb'|].
      cbn [length]. rewrite pow2_succ. rewrite !bits_val_cons. simpl bits_val in *. lia.
    + apply add_sub3_spec in Hcell as (d & bl & E & O1 & V1). injection E as <- <-.
      split; [congruence|]. split; [simpl; congruence|].
      intros c Hc asg av bv balv Ha Hb Hbal.
      inversion Ha as [|? avi ? av' Hai Ha']; subst.
      cbn [length firstn] in Hb. inversion Hb as [|? bvi ? bv' Hbi Hb']; subst.
      assert (ext (bc s1) c) as Hc1 by (eapply ext_trans; eassumption).
      destruct (V1 c Hc1 asg _ _ _ Hai Hbi Hbal) as (dv & bal1v & Vd & Vb & Ecell).
      destruct (Vrec c Hc asg av' bv' bal1v Ha' Hb' Vb) as (rv & bal'v & Vr & Vb' & Erec).
      exists (dv :: rv), bal'v. split; [constructor; assumption|]. split; [exact Vb'|].
      cbn [length]. rewrite pow2_succ. rewrite !bits_val_cons. lia.
Qed.

Lemma sub_ripple_spec fresh a b s rs bal s' :
  run fresh (sub_ripple a b) s = Ok ((rs, bal), s') ->
  a <> [] /\ b <> [] /\
  outputs (bc s') = outputs (bc s) /\ length rs = length a /\
  forall c, ext (bc s') c -> forall asg av bv,
    bvals c asg a av -> bvals c asg (firstn (length a) b) bv ->
    exists rv balv, bvals c asg rs rv /\ bval c asg bal balv /\
      bits_val av - bits_val bv = bits_val rv - 2 ^ Z.of_nat (length a) * Z.b2z balv.
Proof.
  unfold sub_ripple. intros H.
  apply run_bind_inv in H as (a0 & s0 & Ha0 & H). apply nthP_inv in Ha0 as (Ea & ->).
  apply run_bind_inv in H as (b0 & s0 & Hb0 & H). apply nthP_inv in Hb0 as (Eb & ->).
  destruct a as [|a0' a']; [discriminate|]. destruct b as [|b0' b']; [discriminate|].
  injection Ea as ->. injection Eb as ->. cbn [tl] in H.
  apply run_bind_inv in H as (r & s1 & Hcell & H).
  apply run_bind_inv in H as ([r0 bal0] & s2 & Hun & H).
  apply unpack2_inv in Hun as (-> & ->). cbn [fst snd] in H.
  apply run_bind_inv in H as ([rs1 bal2] & s3 & Hrec & H).
  apply run_ret_inv in H as (E & ->). cbn [fst snd] in E. injection E as -> ->.
  pose proof (run_ext _ _ _ _ _ Hrec) as Hxrec.
  apply sub_loop_spec in Hrec as (Orec & Lrec & Vrec).
  apply add_sub2_spec in Hcell as (d & bl & E & O1 & V1). injection E as <- <-.
  split; [discriminate|]. split; [discriminate|]. split; [congruence|]. split; [simpl; congruence|].
  intros c Hc asg av bv Ha Hb.
  inversion Ha as [|? avi ? av' Hai Ha']; subst.
  cbn [length firstn] in Hb. inversion Hb as [|? bvi ? bv' Hbi Hb']; subst.
  assert (ext (bc s1) c) as Hc1 by (eapply ext_trans; eassumption).
  destruct (V1 c Hc1 asg _ _ Hai Hbi) as (dv & bal1v & Vd & Vb & Ecell).
  destruct (Vrec c Hc asg av' bv' bal1v Ha' Hb' Vb) as (rv & bal'v & Vr & Vb' & Erec).
  exists (dv :: rv), bal'v. split; [constructor; assumption|]. split; [exact Vb'|].
  cbn [length]. rewrite pow2_succ. rewrite !bits_val_cons. lia.
Qed.

(* ---- add_sub_two_numbers -------------------------------------------------------------- *)
Theorem add_sub_two_numbers_correct fresh xs ys be s rs s' :
  run fresh (add_sub_two_numbers xs ys be) s = Ok (rs, s') ->
  ext (bc s) (bc s') /\ inputs (bc s') = inputs (bc s) /\ outputs (bc s') = outputs (bc s) /\
  length rs = length xs /\
  forall asg xv yv, bvals (bc s) asg xs xv -> bvals (bc s) asg ys yv ->
    exists rv, bvals (bc s') asg rs rv /\
      decode be rv = (decode be xv - decode be yv) mod 2 ^ Z.of_nat (length xs).
Proof.
  intros H. pose proof (run_ext _ _ _ _ _ H) as Hx. unfold add_sub_two_numbers in H.
  apply run_bind_inv in H as ([rs1 bal] & s1 & Hr & H). apply run_ret_inv in H as (-> & ->).
  apply sub_ripple_spec in Hr as (_ & _ & O & Len & V). cbn [fst].
  rewrite rev_if_length in Len.
  split; [exact Hx|]. split; [apply ext_inputs, Hx|]. split; [exact O|].
  split; [rewrite rev_if_length; exact Len|].
  intros asg xv yv Hxv Hyv.
  apply (bvals_ext _ _ _ _ _ Hx) in Hxv. apply (bvals_ext _ _ _ _ _ Hx) in Hyv.
  destruct (V _ (ext_refl _) asg (rev_if be xv) (firstn (length (rev_if be xs)) (rev_if be yv)))
    as (rv & balv & Vr & Vb & E).
  { apply bvals_rev_if, Hxv. } { apply bvals_firstn, bvals_rev_if, Hyv. }
  exists (rev_if be rv). split; [apply bvals_rev_if, Vr|].
  rewrite decode_rev_if. unfold decode.
  rewrite rev_if_length in E.
  destruct (bits_val_firstn (length xs) (rev_if be yv)) as (K & _ & EK).
  symmetry. apply mod_unique_range with (q := - (Z.b2z balv + K)).
  - rewrite <- Len, (bvals_length _ _ _ _ Vr). apply bits_val_range.
  - lia.
Qed.

(* ---- add_subtract_with_compare (repaired: reverse, then pad) ---------------------------- *)
Lemma pad_to_length {A} n (x : A) l : (length l <= n)%nat -> length (pad_to n x l) = n.
Proof. intros H. unfold pad_to. rewrite app_length, repeat_length. lia. Qed.

Lemma add_subtract_with_compare_spec fresh xs ys be s rs bor s' :
  run fresh (add_subtract_with_compare xs ys be) s = Ok ((rs, bor), s') ->
  outputs (bc s') = outputs (bc s) /\
  length rs = Nat.max (length xs) (length ys) /\
  forall c, ext (bc s') c -> forall asg xv yv, bvals c asg xs xv -> bvals c asg ys yv ->
    exists rv bv, bvals c asg rs rv /\ bval c asg bor bv /\
      decode be rv = (decode be xv - decode be yv) mod 2 ^ Z.of_nat (Nat.max (length xs) (length ys)) /\
      bv = (decode be xv <? decode be yv).
Proof.
  intros H. unfold add_subtract_with_compare in H.
  apply run_bind_inv in H as (a0 & s0 & Ha0 & H). apply nthP_inv in Ha0 as (Ea & ->).
  apply run_bind_inv in H as (b0 & s0 & Hb0 & H). apply nthP_inv in Hb0 as (Eb & ->).
  apply gate_tt_bind in H as (af & s1 & H & Hx1 & Htf & O1).
  apply run_bind_inv in H as ([rs1 bal] & s2 & Hr & H). apply run_ret_inv in H as (E & ->).
  cbn [fst snd] in E. injection E as -> ->.
  pose proof (run_ext _ _ _ _ _ Hr) as Hx2.
  apply sub_ripple_spec in Hr as (_ & _ & O & Len & V).
  rewrite !rev_if_length in *.
  set (n := Nat.max (length xs) (length ys)) in *.
  assert (length (pad_to n af (rev_if be xs)) = n) as La
    by (apply pad_to_length; rewrite rev_if_length; unfold n; lia).
  assert (length (pad_to n af (rev_if be ys)) = n) as Lb
    by (apply pad_to_length; rewrite rev_if_length; unfold n; lia).
  rewrite La in *.
  split; [congruence|]. split; [exact Len|].
  intros c Hc asg xv yv Hxv Hyv.
  pose proof (bvals_length _ _ _ _ Hxv) as Lxv. pose proof (bvals_length _ _ _ _ Hyv) as Lyv.
  (* the constant-false gate *)
  destruct (Forall2_nth_error _ _ _ _ _ Hxv Ea) as (a0v & _ & Va0).
  destruct (Forall2_nth_error _ _ _ _ _ Hyv Eb) as (b0v & _ & Vb0).
  assert (ext (bc s1) c) as Hc1 by (eapply ext_trans; eassumption).
  apply (has_tt_ext _ _ _ _ _ _ Hc1) in Htf.
  pose proof (has_tt_val _ _ _ _ _ _ _ _ Htf Va0 Vb0) as Vaf.
  replace (tt_fun tt_false a0v b0v) with false in Vaf by (destruct a0v, b0v; reflexivity).
  set (av := rev_if be xv ++ repeat false (n - length (rev_if be xs))).
  set (bv := rev_if be yv ++ repeat false (n - length (rev_if be ys))).
  destruct (V _ Hc asg av bv) as (rv & balv & Vr & Vb & E).
  { unfold av, pad_to. apply Forall2_app; [apply bvals_rev_if, Hxv|apply bvals_repeat, Vaf]. }
  { rewrite <- Lb at 1. rewrite firstn_all.
    unfold bv, pad_to. apply Forall2_app; [apply bvals_rev_if, Hyv|apply bvals_repeat, Vaf]. }
  assert (bits_val av = decode be xv) as EA.
  { unfold av. rewrite bits_val_app, bits_val_repeat_false. unfold decode. lia. }
  assert (bits_val bv = decode be yv) as EB.
  { unfold bv. rewrite bits_val_app, bits_val_repeat_false. unfold decode. lia. }
  assert (length av = n) as Lav.
  { unfold av. rewrite app_length, repeat_length, !rev_if_length. unfold n. lia. }
  assert (length bv = n) as Lbv.
  { unfold bv. rewrite app_length, repeat_length, !rev_if_length. unfold n. lia. }
  pose proof (bits_val_range av) as RA. pose proof (bits_val_range bv) as RB.
  pose proof (bits_val_range rv) as RR. rewrite Lav in RA. rewrite Lbv in RB.
  rewrite <- (bvals_length _ _ _ _ Vr), Len in RR.
  rewrite EA, EB in *.
  exists (rev_if be rv), balv. split; [apply bvals_rev_if, Vr|]. split; [exact Vb|].
  rewrite decode_rev_if. split.
  - symmetry. apply mod_unique_range with (q := - Z.b2z balv); [exact RR|lia].
  - destruct balv; simpl in E; symmetry; [apply Z.ltb_lt|apply Z.ltb_ge]; lia.
Qed.

Theorem add_subtract_with_compare_correct fresh xs ys be s rs bor s' :
  run fresh (add_subtract_with_compare xs ys be) s = Ok ((rs, bor), s') ->
  ext (bc s) (bc s') /\ inputs (bc s') = inputs (bc s) /\ outputs (bc s') = outputs (bc s) /\
  length rs = Nat.max (length xs) (length ys) /\
  forall asg xv yv, bvals (bc s) asg xs xv -> bvals (bc s) asg ys yv ->
    exists rv bv, bvals (bc s') asg rs rv /\ bval (bc s') asg bor bv /\
      decode be rv = (decode be xv - decode be yv) mod 2 ^ Z.of_nat (Nat.max (length xs) (length ys)) /\
      bv = (decode be xv <? decode be yv).
Proof.
  intros H. pose proof (run_ext _ _ _ _ _ H) as Hx.
  apply add_subtract_with_compare_spec in H as (O & L & V).
  split; [exact Hx|]. split; [apply ext_inputs, Hx|]. split; [exact O|]. split; [exact L|].
  intros asg xv yv Hxv Hyv. apply V; [apply ext_refl|eapply bvals_ext; eassumption|eapply bvals_ext; eassumption].
Qed.
