(* The truth table computed by the model of Circuit.get_truth_table is the relational
   semantics: row j, column i is the value (Sem.Eval) of output j under the i-th input vector. *)
Require Import Cirbo.Model.Base Cirbo.Model.Gate Cirbo.Model.Circuit Cirbo.Model.Traverse Cirbo.Model.Eval Cirbo.Model.Sem.
Require Import Cirbo.Model.Db Cirbo.Model.DbCheck.
Require Import Cirbo.Proofs.DictFacts Cirbo.Proofs.DictIOFacts Cirbo.Proofs.SemFacts Cirbo.Proofs.EvalFacts.

(* ---- Forall2 by positions ---- *)
Lemma Forall2_nth_intro {A B} (R : A -> B -> Prop) l l' :
  length l = length l' ->
  (forall i a b, nth_error l i = Some a -> nth_error l' i = Some b -> R a b) -> Forall2 R l l'.
Proof.
  revert l'; induction l as [|x l IH]; intros [|y l'] Hlen H; simpl in Hlen; try discriminate; constructor.
  - apply (H O); reflexivity.
  - apply IH; [lia|]. intros i a b Ha Hb. apply (H (S i)); assumption.
Qed.

Lemma Forall2_nth_elim {A B} (R : A -> B -> Prop) l l' :
  Forall2 R l l' -> forall i a b, nth_error l i = Some a -> nth_error l' i = Some b -> R a b.
Proof.
  induction 1 as [|x y l l' Hxy _ IH]; intros [|i] a b Ha Hb; simpl in *; try discriminate.
  - injection Ha as <-; injection Hb as <-; exact Hxy.
  - eapply IH; eassumption.
Qed.

Lemma Forall2_impl' {A B} (R R' : A -> B -> Prop) l l' :
  (forall a b, R a b -> R' a b) -> Forall2 R l l' -> Forall2 R' l l'.
Proof. intros H; induction 1; constructor; auto. Qed.

Lemma Forall2_length' {A B} (R : A -> B -> Prop) l l' : Forall2 R l l' -> length l = length l'.
Proof. induction 1; simpl; congruence. Qed.

(* ---- the assignment built by evaluate ---- *)
Definition input_assignment (c : circuit) (vec : list bool) : assignment := combine (inputs c) (map inj vec).

Lemma zip_inputs_combine ins : forall vals acc,
  NoDup ins -> (forall i, In i ins -> dmem acc i = false) -> (length ins <= length vals)%nat ->
  zip_inputs ins vals acc = Ok (acc ++ combine ins vals).
Proof.
  induction ins as [|i ins IH]; intros vals acc Hnd Hfresh Hlen; simpl.
  - rewrite app_nil_r; reflexivity.
  - destruct vals as [|v vals]; [simpl in Hlen; lia|]. inversion Hnd as [|? ? Hx Hn]; subst.
    rewrite dset_new by (apply Hfresh; left; reflexivity).
    rewrite IH; [rewrite <- app_assoc; reflexivity|exact Hn| |simpl in Hlen; lia].
    intros j Hj. unfold dmem. rewrite dget_app. specialize (Hfresh j (or_intror Hj)). unfold dmem in Hfresh.
    destruct (dget acc j); [discriminate|]. simpl. destruct (leqb_spec j i) as [->|]; [contradiction|reflexivity].
Qed.

Lemma dmem_combine_In {V} (ks : list label) (vs : list V) l : dmem (combine ks vs) l = true -> In l ks.
Proof.
  revert vs; induction ks as [|k ks IH]; intros vs; [discriminate|].
  destruct vs as [|v vs]; [discriminate|]. unfold dmem; simpl.
  destruct (leqb_spec l k) as [->|]; [left; reflexivity|]. intros H; right; eapply IH; exact H.
Qed.

Lemma all_bool_vectors_length n : forall vec, In vec (all_bool_vectors n) -> length vec = n.
Proof.
  induction n as [|n IH]; intros vec H; simpl in H.
  - destruct H as [<-|[]]; reflexivity.
  - apply in_app_or in H as [H|H]; apply in_map_iff in H as (v & <- & Hv); simpl; rewrite (IH v Hv); reflexivity.
Qed.

(* ---- evaluate_circuit_outputs and evaluate report Eval values ---- *)
Lemma outputs_fold_spec (d : assignment) : forall outs acc ans,
  foldM (fun acc o => match dget d o with Some v => Ok (dset acc o v) | None => Err PyKeyError end) outs acc = Ok ans ->
  (forall o v, dget acc o = Some v -> dget d o = Some v) ->
  (forall o v, dget ans o = Some v -> dget d o = Some v) /\
  (forall o, In o outs -> dmem ans o = true) /\ (forall o, dmem acc o = true -> dmem ans o = true).
Proof.
  induction outs as [|o outs IH]; intros acc ans H Hinv; simpl in H.
  - injection H as <-. split; [exact Hinv|]. split; [intros ? []|auto].
  - destruct (dget d o) as [v|] eqn:Ed; simpl in H; [|discriminate].
    destruct (IH _ _ H) as (H1 & H2 & H3).
    + intros o' v'. rewrite dget_dset. destruct (leqb_spec o' o) as [->|]; [intros [= <-]; exact Ed|apply Hinv].
    + split; [exact H1|]. split.
      * intros o' [<-|Ho']; [apply H3; rewrite dmem_dset, leqb_refl; reflexivity|apply H2; exact Ho'].
      * intros o' Ho'. apply H3. rewrite dmem_dset, Ho'. apply orb_true_r.
Qed.

Lemma evaluate_circuit_outputs_sound c a ans :
  inputs_are_input_gates c -> assigns_inputs_only c a ->
  evaluate_circuit_outputs c a = Ok ans ->
  forall o, In o (outputs c) -> exists v, dget ans o = Some v /\ Eval c a o v.
Proof.
  intros Hin Ha H o Ho. unfold evaluate_circuit_outputs in H.
  destruct (evaluate_circuit c a None) as [d|] eqn:Ec; simpl in H; [|discriminate].
  unfold evaluate_circuit in Ec. destruct (evaluate_circuit_sound _ _ _ _ _ Hin Ha Ec) as (_ & Hs).
  destruct (outputs_fold_spec d _ _ _ H) as (H1 & H2 & _); [intros ? ?; discriminate|].
  specialize (H2 o Ho). unfold dmem in H2. destruct (dget ans o) as [v|] eqn:Ea; [|discriminate].
  exists v. split; [reflexivity|]. destruct (Hs o Ho) as (v' & Hv' & He). rewrite (H1 _ _ Ea) in Hv'. congruence.
Qed.

Lemma evaluate_sound c vec vs :
  inputs_are_input_gates c -> NoDup (inputs c) -> length vec = length (inputs c) ->
  evaluate c (map inj vec) = Ok vs ->
  Forall2 (fun o v => Eval c (input_assignment c vec) o v) (outputs c) vs.
Proof.
  intros Hin Hnd Hlen H. unfold evaluate in H.
  rewrite zip_inputs_combine in H; [|exact Hnd|reflexivity|rewrite map_length; lia]. simpl in H.
  fold (input_assignment c vec) in H.
  destruct (evaluate_circuit_outputs c (input_assignment c vec)) as [ans|] eqn:Eo; simpl in H; [|discriminate].
  assert (assigns_inputs_only c (input_assignment c vec)) as Ha.
  { intros l Hl. eapply dmem_combine_In; exact Hl. }
  pose proof (evaluate_circuit_outputs_sound _ _ _ Hin Ha Eo) as Hs.
  apply mapM_ok_Forall2 in H. clear Eo.
  induction H as [|o v outs vs' Hov _ IH]; constructor.
  - destruct (Hs o (or_introl eq_refl)) as (v' & Hv' & He). rewrite Hv' in Hov. injection Hov as <-. exact He.
  - apply IH. intros o' Ho'. apply Hs. right; exact Ho'.
Qed.

(* ---- the table ---- *)
(* output o has row `row`: entry i is the value under the i-th vector of itertools.product *)
Definition out_computes (c : circuit) (o : label) (row : list bool) : Prop :=
  Forall2 (fun vec b => Eval c (input_assignment c vec) o (inj b))
          (all_bool_vectors (length (inputs c))) row.

(* the circuit computes the table, output by output in order *)
Definition computes (c : circuit) (t : table) : Prop := Forall2 (out_computes c) (outputs c) t.

Lemma all_some_spec {A} (l : list (option A)) r : all_some l = Some r -> l = map Some r.
Proof.
  revert r; induction l as [|[x|] l IH]; intros r; simpl; [intros [= <-]; reflexivity| |discriminate].
  destruct (all_some l) as [xs|]; [|discriminate]. intros [= <-]. simpl. rewrite (IH _ eq_refl); reflexivity.
Qed.

Lemma state_to_bool_inj s b : state_to_bool s = Some b -> s = inj b.
Proof. destruct s; simpl; intros [= <-]; reflexivity. Qed.

Lemma table_of_states_spec rows t :
  table_of_states rows = Some t -> Forall2 (Forall2 (fun s b => s = inj b)) rows t.
Proof.
  unfold table_of_states. revert t. induction rows as [|row rows IH]; intros t; simpl.
  - intros [= <-]; constructor.
  - destruct (all_some (map state_to_bool row)) as [r|] eqn:Er; [|discriminate].
    destruct (all_some (map _ rows)) as [rs|] eqn:Ers; [|discriminate]. intros [= <-].
    constructor; [|apply IH; reflexivity].
    apply all_some_spec in Er. clear -Er. revert r Er. induction row as [|s row IHr]; intros [|b r] Er; simpl in Er;
      try discriminate; constructor.
    + injection Er as Es _. apply state_to_bool_inj; exact Es.
    + apply IHr. injection Er as _ Er. exact Er.
Qed.

Lemma mapM_Forall2_in {A B} (f : A -> res B) l r :
  mapM f l = Ok r -> Forall2 (fun a b => In a l /\ f a = Ok b) l r.
Proof.
  revert r; induction l as [|x l IH]; intros r; simpl; [intros [= <-]; constructor|].
  destruct (f x) as [y|] eqn:E; simpl; [|discriminate]. destruct (mapM f l) as [ys|]; simpl; [|discriminate].
  intros [= <-]. constructor; [auto|]. eapply Forall2_impl'; [|apply IH; reflexivity].
  intros a b [H1 H2]; auto.
Qed.

Theorem truth_table_is_semantics c rows t :
  inputs_are_input_gates c -> NoDup (inputs c) ->
  get_truth_table c = Ok rows -> table_of_states rows = Some t -> computes c t.
Proof.
  intros Hin Hnd Hg Ht. unfold get_truth_table in Hg.
  destruct (mapM (fun x => evaluate c (map inj x)) (all_bool_vectors (length (inputs c)))) as [results|] eqn:Em;
    simpl in Hg; [|discriminate]. injection Hg as <-.
  apply table_of_states_spec in Ht. apply mapM_Forall2_in in Em.
  assert (Forall2 (fun vec vs => Forall2 (fun o v => Eval c (input_assignment c vec) o v) (outputs c) vs)
                  (all_bool_vectors (length (inputs c))) results) as Hres.
  { eapply Forall2_impl'; [|exact Em]. intros vec vs [Hv He]. simpl in He.
    apply evaluate_sound; [exact Hin|exact Hnd|apply all_bool_vectors_length; exact Hv|exact He]. }
  clear Em. unfold computes.
  apply Forall2_nth_intro.
  - rewrite <- (Forall2_length' _ _ _ Ht), map_length, seq_length. reflexivity.
  - intros j o row Ho Hrow.
    assert (j < length (outputs c))%nat as Hj by (apply nth_error_Some; congruence).
    pose proof (Forall2_nth_elim _ _ _ Ht j) as Hrj.
    rewrite (map_nth_error _ j (seq 0 (length (outputs c))) (d := j)) in Hrj
      by (rewrite nth_error_nth' with (d := O) by (rewrite seq_length; exact Hj); rewrite seq_nth by exact Hj; reflexivity).
    specialize (Hrj _ _ eq_refl Hrow). unfold out_computes.
    apply Forall2_nth_intro.
    + rewrite <- (Forall2_length' _ _ _ Hrj), map_length. apply (Forall2_length' _ _ _ Hres).
    + intros i vec b Hvec Hb.
      assert (exists vs, nth_error results i = Some vs) as (vs & Hvs).
      { destruct (nth_error results i) eqn:E; [eauto|]. apply nth_error_None in E.
        rewrite <- (Forall2_length' _ _ _ Hres) in E.
        assert (i < length (all_bool_vectors (length (inputs c))))%nat by (apply nth_error_Some; congruence). lia. }
      pose proof (Forall2_nth_elim _ _ _ Hres i _ _ Hvec Hvs) as Hvv.
      pose proof (Forall2_nth_elim _ _ _ Hrj i (nth j vs U) b) as Hsb.
      rewrite (map_nth_error _ _ _ Hvs) in Hsb. specialize (Hsb eq_refl Hb).
      assert (exists v, nth_error vs j = Some v) as (v & Hv).
      { destruct (nth_error vs j) eqn:E; [eauto|]. apply nth_error_None in E.
        rewrite <- (Forall2_length' _ _ _ Hvv) in E. lia. }
      pose proof (Forall2_nth_elim _ _ _ Hvv j _ _ Ho Hv) as He.
      rewrite (nth_error_nth _ _ U Hv) in Hsb. subst v. exact He.
Qed.
