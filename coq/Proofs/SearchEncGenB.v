(* The regenerated fix_gate / forbid_wire / get_cnf of CircuitFinderSat (Generated/SearchEncGen.v, translator T17)
   equal the hand model Model/Search.v (check_constraint, check_constraint_type, cons_clauses, encode), for ALL
   arguments; and the whole use of a finder - constructor, calls before get_cnf(), get_cnf(), calls after it,
   get_cnf() - yields `encode sp`.  No proof mentions a bound variable of a generated term. *)
Require Import Cirbo.Model.Base Cirbo.Model.Gate Cirbo.Model.Den Cirbo.Model.Search Cirbo.Model.SearchPy.
Require Import Cirbo.Generated.GateTypes Cirbo.Generated.SearchEncGen.
Require Import Cirbo.Proofs.OpFacts Cirbo.Proofs.SearchFacts Cirbo.Proofs.SearchEncGenLib Cirbo.Proofs.SearchEncGenA.
From Coq Require Import Lia Arith PeanoNat Bool.
Local Open Scope nat_scope.

(* what a fix_gate / forbid_wire call does to a finder with clause list c: the argument checks in the order of
   the implementation, then the clauses; a gate type without a binary operator raises (TypeError, or
   GateTypeNoOperatorError for INPUT) when its operator is applied the first time *)
Definition cons_result (sp : spec) (k : constraint) (c : list clause) (b2 : bool) : sres finder :=
  match check_constraint sp k with
  | Some e => SErr (SCons e)
  | None =>
      match k with
      | FixGate _ _ _ (Some t) =>
          match fix_table t with
          | None => SErr (SPy (arity_err t))
          | Some _ => SOk (fin sp (c ++ cons_clauses k) false b2)
          end
      | _ => SOk (fin sp (c ++ cons_clauses k) false b2)
      end
  end.

Section Cons.
  Variables (sp : spec) (b2 : bool).
  Notation n := (sp_n sp).
  Notation r := (sp_r sp).

  (* ---- the gate_type loop of fix_gate, for any loop body that meets the per-iteration spec ---- *)
  Lemma type_loop (F : finder -> nat * nat -> sres finder) t g :
    (forall c a b, a <= 1 -> b <= 1 ->
       F (fin sp c false b2) (a, b) =
       match den t [nz a; nz b] with
       | Some v => SOk (fin sp (c ++ [[(v, VF g (nz a) (nz b))]]) false b2)
       | None => SErr (SPy (arity_err t))
       end) ->
    forall c, sfoldM F (py_product2 (seq 0 2)) (fin sp c false b2) =
      match fix_table t with
      | None => SErr (SPy (arity_err t))
      | Some tb => SOk (fin sp (c ++ map (fun pq => [(tt_get tb (fst pq) (snd pq), VF g (fst pq) (snd pq))]) pq4) false b2)
      end.
  Proof.
    intros H c. unfold fix_table. cbn [py_product2 seq flat_map map app sfoldM].
    rewrite H by lia. cbn [nz Nat.eqb negb].
    destruct (den t [false; false]) as [v0|]; [|reflexivity]. rewrite sbind_ok.
    rewrite H by lia. cbn [nz Nat.eqb negb].
    destruct (den t [false; true]) as [v1|]; [|reflexivity]. rewrite sbind_ok.
    rewrite H by lia. cbn [nz Nat.eqb negb].
    destruct (den t [true; false]) as [v2|]; [|reflexivity]. rewrite sbind_ok.
    rewrite H by lia. cbn [nz Nat.eqb negb].
    destruct (den t [true; true]) as [v3|]; [|reflexivity]. rewrite sbind_ok.
    cbn [pq4 map fst snd tt_get]. rewrite <- !app_assoc. reflexivity.
  Qed.

  Lemma in_internal_b g : (n <=? g) && (g <? n + r) = true -> In g (internal sp).
  Proof. intros H. apply andb_true_iff in H. destruct H as [H1 H2]. apply Nat.leb_le in H1. apply Nat.ltb_lt in H2.
         apply in_internal. lia. Qed.

  (* the tail of fix_gate: `if gate_type: for a, b in product(range(2), repeat=2): ...` then the end *)
  Ltac type_body t g Hg :=
    let c' := fresh "c" in let a := fresh "a" in let b := fresh "b" in let v := fresh "v" in
    intros c' a b ? ?; rewrite ?sbind_ok; cbv beta;
    change [inj (nz a); inj (nz b)] with (map inj [nz a; nz b]); rewrite operator_of_den;
    destruct (den t [nz a; nz b]) as [v|]; cbn [lift]; [|reflexivity];
    rewrite ?sbind_ok; cbv beta zeta;
    replace (st_in_bools (inj v) [true; false]) with true by (destruct v; reflexivity);
    replace (st_truthy (inj v)) with (SOk (A := bool) v) by (destruct v; reflexivity);
    rewrite ?sbind_ok; cbv beta;
    rewrite gen_type_var by (try lia; apply internal_lt; exact Hg);
    rewrite ?sbind_ok; cbv beta; autorewrite with fin; destruct v; reflexivity.

  Ltac type_tail g Hg :=
    match goal with
    | |- context [is_some ?gt] => destruct gt as [?t|]
    end;
    cbn [is_some unwrap];
    [ rewrite ?sbind_ok; cbv beta;
      match goal with
      | |- context [operator_of ?t _] =>
          rewrite (type_loop _ t g);
          [ destruct (fix_table t); [rewrite !sbind_ok, <- ?app_assoc; reflexivity|reflexivity]
          | type_body t g Hg ]
      end
    | rewrite ?sbind_ok, ?app_nil_r; reflexivity ].

  Theorem gen_fix_gate_eq c b1 g fp sd gt :
    gen_fix_gate (fin sp c b1 b2) g fp sd gt = cons_result sp (FixGate g fp sd gt) c b2.
  Proof.
    unfold gen_fix_gate, cons_result, check_constraint. cbv zeta. rewrite fin_set_flag1.
    rewrite !fin_internal, !fin_gates. unfold internal at 1. rewrite mem_nat_seq.
    destruct ((n <=? g) && (g <? n + r)) eqn:Eg; cbn [negb]; [|reflexivity].
    apply in_internal_b in Eg.
    destruct fp as [f|], sd as [s|]; cbn [is_some is_none unwrap sbind negb andb]; rewrite ?mem_nat_seq0.
    - (* both predecessors *)
      destruct (f <? n + r); cbn [negb]; [|reflexivity].
      destruct (s <? n + r); cbn [negb]; [|reflexivity].
      destruct ((s <? g) && (f <? s)) eqn:Eo; cbn [negb]; [|reflexivity].
      apply andb_true_iff in Eo. destruct Eo as [E1 E2]. apply Nat.ltb_lt in E1. apply Nat.ltb_lt in E2.
      rewrite gen_pred_var by assumption. rewrite !sbind_ok. cbv beta zeta. autorewrite with fin.
      cbn [cons_clauses]. type_tail g Eg.
    - (* first_predecessor alone *)
      destruct (f <? n + r); cbn [negb]; [|reflexivity].
      destruct (f <? g) eqn:Eo; cbn [negb]; [|reflexivity]. apply Nat.ltb_lt in Eo.
      rewrite (sfoldM_fin sp false b2 _ (fun ab => if reads_neither f ab then [[neg (VS g (fst ab) (snd ab))]] else [])).
      2:{ intros c' [a b] Hab. apply in_pairs in Hab. unfold reads_neither. cbn [fst snd]. rewrite ?sbind_ok. cbv beta.
          destruct (negb (a =? f) && negb (b =? f)); [|rewrite ?sbind_ok, app_nil_r; reflexivity].
          rewrite gen_pred_var by (try assumption; lia). rewrite !sbind_ok. cbv beta zeta. autorewrite with fin.
          reflexivity. }
      rewrite !sbind_ok. cbv beta. rewrite flat_map_cond. cbn [cons_clauses]. type_tail g Eg.
    - (* second_predecessor alone *)
      destruct (s <? n + r); cbn [negb]; [|reflexivity].
      destruct (s <? g) eqn:Eo; cbn [negb]; [|reflexivity]. apply Nat.ltb_lt in Eo.
      rewrite (sfoldM_fin sp false b2 _ (fun ab => if reads_neither s ab then [[neg (VS g (fst ab) (snd ab))]] else [])).
      2:{ intros c' [a b] Hab. apply in_pairs in Hab. unfold reads_neither. cbn [fst snd]. rewrite ?sbind_ok. cbv beta.
          destruct (negb (a =? s) && negb (b =? s)); [|rewrite ?sbind_ok, app_nil_r; reflexivity].
          rewrite gen_pred_var by (try assumption; lia). rewrite !sbind_ok. cbv beta zeta. autorewrite with fin.
          reflexivity. }
      rewrite !sbind_ok. cbv beta. rewrite flat_map_cond. cbn [cons_clauses]. type_tail g Eg.
    - reflexivity.
  Qed.

  Theorem gen_forbid_wire_eq c b1 from to :
    gen_forbid_wire (fin sp c b1 b2) from to = cons_result sp (ForbidWire from to) c b2.
  Proof.
    unfold gen_forbid_wire, cons_result, check_constraint. cbv zeta. rewrite fin_set_flag1.
    rewrite !fin_internal, !fin_gates. unfold internal at 1. rewrite mem_nat_seq0, mem_nat_seq.
    destruct (from <? n + r) eqn:Ef; cbn [negb]; [|reflexivity].
    destruct ((n <=? to) && (to <? n + r)) eqn:Et; cbn [negb]; [|reflexivity].
    destruct (to <=? from) eqn:Eo; [reflexivity|].
    pose proof (in_internal_b to Et) as Hin. pose proof (internal_lt sp to Hin) as Hlt.
    apply Nat.leb_gt in Eo.
    replace (seq 0 (n + r)) with (seq 0 to ++ to :: seq (S to) (n + r - S to)).
    2:{ replace (n + r) with (to + S (n + r - S to)) at 2 by lia. rewrite seq_app. reflexivity. }
    rewrite (sloop_fin_break sp false b2 _
               (fun o => if negb (o =? from) then [[neg (VS to (Nat.min o from) (Nat.max o from))]] else [])).
    - rewrite !sbind_ok. cbv beta. rewrite flat_map_cond. reflexivity.
    - intros c' y Hy. apply in_seq in Hy. cbv beta.
      replace (to <=? y) with false by (symmetry; apply Nat.leb_gt; lia).
      destruct (y =? from) eqn:Ey; cbn [negb]; [rewrite app_nil_r; reflexivity|].
      apply Nat.eqb_neq in Ey.
      rewrite gen_pred_var by (try assumption; lia). rewrite !sbind_ok. cbv beta zeta. autorewrite with fin.
      reflexivity.
    - intros c'. cbv beta. rewrite Nat.leb_refl. reflexivity.
  Qed.
End Cons.

(* ---- get_cnf ---- *)
Theorem gen_get_cnf_eq sp c b1 binit : table_ok sp ->
  gen_get_cnf (fin sp c b1 binit) =
  let c' := if binit then c ++ default_cnf sp else c in SOk (fin sp c' b1 false, c').
Proof.
  intros Hok. unfold gen_get_cnf. rewrite fin_flag2. destruct binit.
  - rewrite gen_init_default by assumption. rewrite !sbind_ok. cbv beta zeta. autorewrite with fin. reflexivity.
  - rewrite !sbind_ok. cbv beta zeta. autorewrite with fin. reflexivity.
Qed.

(* ---- a whole session with a finder, as harness/searchcorr.make_finder drives it ---- *)
Definition apply_cons (self : finder) (k : constraint) : sres finder :=
  match k with
  | FixGate g fp sd gt => gen_fix_gate self g fp sd gt
  | ForbidWire from to => gen_forbid_wire self from to
  end.

Lemma apply_cons_eq sp c b1 b2 k : apply_cons (fin sp c b1 b2) k = cons_result sp k c b2.
Proof. destruct k; [apply gen_fix_gate_eq|apply gen_forbid_wire_eq]. Qed.

Lemma apply_cons_ok sp c b1 b2 k : constraint_ok sp k = true ->
  apply_cons (fin sp c b1 b2) k = SOk (fin sp (c ++ cons_clauses k) false b2).
Proof.
  intros H. rewrite apply_cons_eq. unfold constraint_ok in H. apply andb_true_iff in H. destruct H as [H1 H2].
  unfold cons_result. destruct (check_constraint sp k); [discriminate|].
  destruct k as [g fp sd [t|]|from to]; try reflexivity.
  cbn [check_constraint_type] in H2. destruct (fix_table t); [reflexivity|discriminate].
Qed.

Definition flag_after (b1 : bool) (ks : list constraint) : bool := match ks with [] => b1 | _ => false end.

Lemma run_cons_ok sp ks : (forall k, In k ks -> constraint_ok sp k = true) ->
  forall c b1 b2, sfoldM apply_cons ks (fin sp c b1 b2) =
                  SOk (fin sp (c ++ flat_map cons_clauses ks) (flag_after b1 ks) b2).
Proof.
  induction ks as [|k ks IH]; intros H c b1 b2.
  - cbn [sfoldM flat_map flag_after]. rewrite app_nil_r. reflexivity.
  - cbn [sfoldM flat_map flag_after]. rewrite apply_cons_ok by (apply H; left; reflexivity). rewrite sbind_ok.
    rewrite IH by (intros k' Hk'; apply H; right; exact Hk'). rewrite app_assoc.
    destruct ks; reflexivity.
Qed.

(* constructor; fix_gate / forbid_wire calls; get_cnf(); more calls; get_cnf() *)
Definition gen_session (sp : spec) : sres (list clause) :=
  sdo f1 <- sfoldM apply_cons (sp_pre sp)
              (gen___init__ (fm_of sp) (sp_r sp) (sp_norm sp) (sp_basis sp) (sp_forb sp));
  sdo r1 <- gen_get_cnf f1;
  sdo f3 <- sfoldM apply_cons (sp_post sp) (fst r1);
  sdo r2 <- gen_get_cnf f3;
  SOk (snd r2).

Theorem gen_session_encode sp : table_ok sp ->
  (forall k, In k (sp_pre sp ++ sp_post sp) -> constraint_ok sp k = true) ->
  gen_session sp = SOk (encode sp).
Proof.
  intros Hok Hc. unfold gen_session, encode. rewrite fin_init.
  rewrite run_cons_ok by (intros k Hk; apply Hc, in_or_app; left; exact Hk). rewrite sbind_ok.
  rewrite gen_get_cnf_eq by assumption. cbv zeta. rewrite sbind_ok. cbn [fst].
  rewrite run_cons_ok by (intros k Hk; apply Hc, in_or_app; right; exact Hk). rewrite sbind_ok.
  rewrite gen_get_cnf_eq by assumption. cbv zeta. rewrite sbind_ok. cbn [snd app].
  rewrite <- app_assoc. reflexivity.
Qed.

(* ---- everything in one statement (Properties/C06.v: C06_encoder_regenerated) ---- *)
Definition encoder_regenerated_statement : Prop :=
  (* __init__ builds the finder of the spec; `fin sp c b1 b2` is that finder with clause list c and flags b1 b2 *)
  (forall sp, gen___init__ (fm_of sp) (sp_r sp) (sp_norm sp) (sp_basis sp) (sp_forb sp) = fin sp [] true true)
  /\ (forall sp c b1 b2, f__cnf (fin sp c b1 b2) = c /\ f__need_check_db (fin sp c b1 b2) = b1 /\
                         f__need_init_cnf (fin sp c b1 b2) = b2)
  (* the variable-name helpers, inside their assertions *)
  /\ (forall sp c b1 b2 g a b, In g (internal sp) -> a < b -> b < g ->
        gen__predecessors_variable (fin sp c b1 b2) g a b = SOk (pos (VS g a b)))
  /\ (forall sp c b1 b2 h g, h < sp_m sp -> g < sp_n sp + sp_r sp ->
        gen__output_gate_variable (fin sp c b1 b2) h g = SOk (pos (VG h g)))
  /\ (forall sp c b1 b2 g t, g < sp_n sp + sp_r sp -> t < 2 ^ sp_n sp ->
        gen__gate_value_variable (fin sp c b1 b2) g t = SOk (pos (VX g t)))
  /\ (forall sp c b1 b2 g p q, g < sp_n sp + sp_r sp -> p <= 1 -> q <= 1 ->
        gen__gate_type_variable (fin sp c b1 b2) g p q = SOk (pos (VF g (nz p) (nz q))))
  (* _is_dont_cares_input, _add_exactly_one_of *)
  /\ (forall sp c b1 b2 t, table_ok sp -> t < 2 ^ sp_n sp ->
        gen__is_dont_cares_input (fin sp c b1 b2) t = SOk (all_dc sp t))
  /\ (forall sp c b1 b2 ls, gen__add_exactly_one_of (fin sp c b1 b2) ls = SOk (fin sp (c ++ exactly_one ls) b1 b2))
  (* _init_default_cnf_formula appends default_cnf: all seven clause families, clause for clause, in order *)
  /\ (forall sp c b1 b2, table_ok sp ->
        gen__init_default_cnf_formula (fin sp c b1 b2) = SOk (fin sp (c ++ default_cnf sp) b1 b2))
  (* fix_gate / forbid_wire, every argument: the checks in order, the error raised, the clauses appended *)
  /\ (forall sp c b1 b2 g fp sd gt,
        gen_fix_gate (fin sp c b1 b2) g fp sd gt = cons_result sp (FixGate g fp sd gt) c b2)
  /\ (forall sp c b1 b2 from to,
        gen_forbid_wire (fin sp c b1 b2) from to = cons_result sp (ForbidWire from to) c b2)
  (* get_cnf *)
  /\ (forall sp c b1 binit, table_ok sp ->
        gen_get_cnf (fin sp c b1 binit) =
        let c' := if binit then c ++ default_cnf sp else c in SOk (fin sp c' b1 false, c'))
  (* constructor, accepted calls, get_cnf(), accepted calls, get_cnf() = encode *)
  /\ (forall sp, table_ok sp -> (forall k, In k (sp_pre sp ++ sp_post sp) -> constraint_ok sp k = true) ->
        gen_session sp = SOk (encode sp)).

Theorem encoder_regenerated : encoder_regenerated_statement.
Proof.
  unfold encoder_regenerated_statement.
  split; [exact fin_init|].
  split; [intros; split; [apply fin_cnf|split; [apply fin_flag1|apply fin_flag2]]|].
  split; [intros; apply gen_pred_var; assumption|].
  split; [intros; apply gen_out_var; assumption|].
  split; [intros; apply gen_value_var; assumption|].
  split; [intros; apply gen_type_var; assumption|].
  split; [intros; apply gen_is_dc; assumption|].
  split; [intros; apply gen_exactly_one|].
  split; [intros; apply gen_init_default; assumption|].
  split; [intros; apply gen_fix_gate_eq|].
  split; [intros; apply gen_forbid_wire_eq|].
  split; [intros; apply gen_get_cnf_eq; assumption|].
  intros; apply gen_session_encode; assumption.
Qed.
