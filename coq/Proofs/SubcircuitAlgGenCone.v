(* T21: the per-cut simulation loop of _get_subcircuits regenerated = PatternSim.simulate_cone / cone_size /
   cone_outputs. *)
Require Import Cirbo.Model.Base Cirbo.Model.Gate Cirbo.Model.Circuit Cirbo.Model.Eval Cirbo.Model.PatternSim.
Require Import Cirbo.Generated.GateTypes Cirbo.Generated.PatternOps Cirbo.Model.SubcircuitPrims Cirbo.Model.SubcircuitAlg.
Require Import Cirbo.Generated.SubcircuitAlgGen Cirbo.Proofs.SubcircuitPrimsFacts.
From Coq Require Import Permutation.

(* ---- the search for a user outside the cone ---- *)
Lemma users_loop cut_nodes cut inputs : forall users b,
  loopB (gen_get_subcircuits_for12 cut_nodes cut inputs) users b =
  Ok (if existsb (fun u => negb (memb u (py_adict_get labels_eqb cut_nodes cut [])) || memb u inputs) users
      then true else b).
Proof.
  induction users as [|u users IH]; intros b; [reflexivity|].
  cbn [loopB existsb]. unfold gen_get_subcircuits_for12 at 1. cbv beta iota.
  destruct (negb (memb u (py_adict_get labels_eqb cut_nodes cut [])) || memb u inputs); cbn [bind fst snd orb].
  - reflexivity.
  - apply IH.
Qed.

Lemma gname_not t : String.eqb (gname t) "NOT" = gtype_beq t NOT.
Proof. destruct t; reflexivity. Qed.

Lemma get_gate_users_ok c l g : get_gate c l = Ok g -> exists us, get_gate_users c l = Ok us.
Proof.
  unfold get_gate, get_gate_users, has_gate, dmem. destruct (dget (gates c) l); [|discriminate].
  intros _. destruct (dget (users c) l); eauto.
Qed.

(* ---- one node ---- *)
Section Body.
Variables (c : circuit) (cut_nodes : list (list label * list label)) (outputs_set cut inputs : list label) (mp : N).
Variables (leaves nodes : list label).
Hypothesis Hin : forall x, memb x inputs = memb x leaves.
Hypothesis Hout : forall x, memb x outputs_set = memb x (outputs c).
Hypothesis Hnodes : forall x, memb x (py_adict_get labels_eqb cut_nodes cut []) = memb x nodes.

Definition sim_step (d : dict N) (node : label) : res (dict N) :=
  if memb node leaves then Ok d else
  do g <- get_gate c node;
  do p <- eval_pattern mp (gtyp g) (map (pat_get d) (gops g));
  Ok (dset d node p).
Definition size_step (k : nat) (node : label) : res nat :=
  if memb node leaves then Ok k else
  do g <- get_gate c node; Ok (if gtype_beq (gtyp g) NOT then k else S k).
Definition out_step (acc : list label) (node : label) : res (list label) :=
  if memb node leaves then Ok acc else
  do us <- get_gate_users c node;
  if memb node (outputs c) || no_users_b us
     || negb (forallb (fun u => memb u nodes && negb (memb u leaves)) us)
  then Ok (acc ++ [node]) else Ok acc.

Lemma exists_forall us :
  existsb (fun u => negb (memb u (py_adict_get labels_eqb cut_nodes cut [])) || memb u inputs) us =
  negb (forallb (fun u => memb u nodes && negb (memb u leaves)) us).
Proof.
  induction us as [|u us IH]; [reflexivity|]. cbn [existsb forallb]. rewrite IH, Hnodes, Hin.
  destruct (memb u nodes), (memb u leaves); reflexivity.
Qed.

Lemma nonempty_no_users (us : list label) : negb (py_list_nonempty us) = no_users_b us.
Proof. destruct us; reflexivity. Qed.

Lemma nodes_loop : forall l outs d k,
  foldM (gen_get_subcircuits_for11 c cut_nodes outputs_set cut inputs mp) l (outs, d, N.of_nat k) =
  do d' <- foldM sim_step l d;
  do k' <- foldM size_step l k;
  do outs' <- foldM out_step l outs;
  Ok (outs', d', N.of_nat k').
Proof.
  induction l as [|node l IH]; intros outs d k; [reflexivity|].
  cbn [foldM]. unfold gen_get_subcircuits_for11 at 1, sim_step at 1, size_step at 1, out_step at 1.
  cbv beta iota. rewrite Hin.
  destruct (memb node leaves); cbn [bind]; [apply IH|].
  destruct (get_gate c node) as [g|e] eqn:Eg; cbn [bind]; [|reflexivity].
  destruct (get_gate_users_ok _ _ _ Eg) as [us Eus]. rewrite Eus. cbn [bind].
  unfold eval_pattern.
  change (fun v_operand : label => py_ddict_get d v_operand 0%N) with (pat_get d).
  destruct (eval_pattern_str mp (map (pat_get d) (gops g)) (gname (gtyp g))) as [p|e]; cbn [bind]; [|reflexivity].
  rewrite gname_not, Hout, nonempty_no_users.
  rewrite users_loop, exists_forall.
  replace (if negb (gtype_beq (gtyp g) NOT) then Ok (N.add (N.of_nat k) 1) else Ok (N.of_nat k))
    with (@Ok N (N.of_nat (if gtype_beq (gtyp g) NOT then k else S k)))
    by (destruct (gtype_beq (gtyp g) NOT); cbn [negb]; [reflexivity|f_equal; lia]).
  cbn [bind].
  set (b1 := memb node (outputs c) || no_users_b us).
  set (b2 := negb (forallb (fun u => memb u nodes && negb (memb u leaves)) us)).
  assert (Hb : (if negb b1 then Ok (if b2 then true else b1) else Ok b1) = @Ok bool (b1 || b2)).
  { destruct b1, b2; reflexivity. }
  rewrite Hb. cbn [bind].
  replace (if b1 || b2 then Ok (outs ++ [node]) else Ok outs)
    with (@Ok (list label) (if b1 || b2 then outs ++ [node] else outs)) by (destruct (b1 || b2); reflexivity).
  cbn [bind]. rewrite IH.
  destruct (b1 || b2); reflexivity.
Qed.
End Body.

(* ---- the leaves ---- *)
Lemma leaves_loop inputs_tt n tts : py_adict_getitem N.eqb inputs_tt n = Ok tts ->
  forall l k d,
  foldM (gen_get_subcircuits_for10 inputs_tt n) (combine (map N.of_nat (seq k (length l))) l) d =
  assign_leaves l (skipn k tts) d.
Proof.
  intros Hn. induction l as [|x l IH]; intros k d; [reflexivity|].
  cbn [length seq map combine foldM]. unfold gen_get_subcircuits_for10 at 1. cbv beta iota.
  rewrite Hn. cbn [bind]. rewrite py_index_nth_error.
  destruct (nth_error tts k) as [t|] eqn:E.
  - cbn [bind]. rewrite IH.
    assert (Hs : skipn k tts = t :: skipn (S k) tts).
    { clear -E. revert tts E; induction k as [|k IH]; intros [|a tts] E; simpl in *; try discriminate.
      - inversion E; reflexivity.
      - apply IH; exact E. }
    rewrite Hs. reflexivity.
  - cbn [bind]. apply nth_error_None in E. rewrite skipn_all2 by exact E. reflexivity.
Qed.

(* ---- the body of the loop over the good cuts ---- *)
Theorem gen_get_subcircuits_cut_eq : forall set_iter c cut_nodes node_pos outputs_set inputs_tt subs cut,
  let leaves := set_iter (py_set_of_list cut) in
  let ns := set_iter (py_adict_get labels_eqb cut_nodes cut []) in
  Permutation leaves (py_set_of_list cut) ->
  Permutation ns (py_adict_get labels_eqb cut_nodes cut []) ->
  length leaves = length cut ->
  (forall x, memb x outputs_set = memb x (outputs c)) ->
  py_adict_getitem N.eqb inputs_tt (py_len cut) = Ok (generate_inputs_tt (py_len cut)) ->
  gen_get_subcircuits_for9 set_iter c cut_nodes node_pos outputs_set inputs_tt subs cut =
  do ks <- mapM (py_dict_getitem node_pos) ns;
  let nodes := py_sort_keyed ks ns in
  do d <- simulate_cone c leaves nodes;
  do sz <- cone_size c leaves nodes;
  do outs <- cone_outputs c leaves nodes;
  Ok (subs ++ [mk_gen_Subcircuit (rev leaves) nodes outs (N.of_nat sz) [] d]).
Proof.
  intros set_iter c cut_nodes node_pos outputs_set inputs_tt subs cut leaves ns Hl Hn Hlen Hout Htt.
  unfold gen_get_subcircuits_for9. cbv beta iota. fold leaves. fold ns.
  rewrite (mapM_ext _ (py_dict_getitem node_pos)) by (intros x; destruct (py_dict_getitem node_pos x); reflexivity).
  destruct (mapM (py_dict_getitem node_pos) ns) as [ks|e] eqn:Eks; cbn [bind]; [|reflexivity].
  assert (Hks : length ks = length ns).
  { clear -Eks. revert ks Eks. induction ns as [|x l IH]; intros ks E; simpl in E.
    - inversion E; reflexivity.
    - destruct (py_dict_getitem node_pos x); [|discriminate]. simpl in E.
      destruct (mapM (py_dict_getitem node_pos) l); [|discriminate]. inversion E. simpl. f_equal. apply IH. reflexivity. }
  set (nodes := py_sort_keyed ks ns).
  rewrite py_enumerate_seq, (leaves_loop _ _ _ Htt). cbn [skipn].
  unfold simulate_cone. rewrite Hlen. fold (py_len cut).
  destruct (assign_leaves leaves (generate_inputs_tt (py_len cut)) []) as [d0|e]; cbn [bind]; [|reflexivity].
  change 0%N with (N.of_nat 0).
  rewrite (nodes_loop c cut_nodes outputs_set cut (py_set_of_list cut) (max_pattern (py_len cut)) leaves nodes).
  - unfold cone_size, cone_outputs.
    change (foldM (sim_step c (max_pattern (py_len cut)) leaves) nodes d0) with
      (foldM (fun d node => if memb node leaves then Ok d else
                do g <- get_gate c node;
                do p <- eval_pattern (max_pattern (py_len cut)) (gtyp g) (map (pat_get d) (gops g));
                Ok (dset d node p)) nodes d0).
    destruct (foldM _ nodes d0) as [d|e]; cbn [bind]; [|reflexivity].
    change (foldM (size_step c leaves) nodes 0) with
      (foldM (fun k node => if memb node leaves then Ok k else
                do g <- get_gate c node; Ok (if gtype_beq (gtyp g) NOT then k else S k)) nodes 0).
    destruct (foldM _ nodes 0) as [k|e]; cbn [bind]; [|reflexivity].
    change (foldM (out_step c leaves nodes) nodes []) with
      (foldM (fun acc node => if memb node leaves then Ok acc else
                do us <- get_gate_users c node;
                if memb node (outputs c) || no_users_b us
                   || negb (forallb (fun u => memb u nodes && negb (memb u leaves)) us)
                then Ok (acc ++ [node]) else Ok acc) nodes []).
    destruct (foldM _ nodes []) as [outs|e]; cbn [bind]; reflexivity.
  - intros x. symmetry. apply memb_perm. exact Hl.
  - exact Hout.
  - intros x. symmetry. apply memb_perm. unfold nodes. rewrite py_sort_keyed_perm by exact Hks. exact Hn.
Qed.
