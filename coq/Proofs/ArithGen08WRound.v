(* Generated/ArithGen08.v, add_mul_wallace (translator T22) equals the hand model, part 3: one pass of the reduction loop
   (groups of three rows column by column, the copied rows) against [wallace_round], and the `while` loop against
   [wallace_loop], generically in the loop bodies (a specification of each body is a hypothesis). *)
Require Import Cirbo.Model.Base Cirbo.Model.Gate Cirbo.Model.Circuit Cirbo.Model.Builder Cirbo.Model.PyPrims.
Require Import Cirbo.Model.ArithSub Cirbo.Model.ArithSum2 Cirbo.Model.ArithSumN Cirbo.Model.ArithSumW.
Require Import Cirbo.Model.PyPrims08 Cirbo.Model.PyPrimsWal Cirbo.Model.ArithMul.
Require Import Cirbo.Generated.ArithTables.
Require Import Cirbo.Proofs.ArithGen09Lib Cirbo.Proofs.ArithGen08Lib.
Require Import Cirbo.Proofs.ArithMulWallaceShape Cirbo.Proofs.ArithGen08WLib Cirbo.Proofs.ArithGen08WShape.
Require Import Cirbo.Proofs.ArithGen08WInit.
From Coq Require Import ZArith Lia Ascii.
Open Scope Z_scope.

(* ---- small list facts ------------------------------------------------------------------------------------------------ *)
Lemma upd_comm {A} (l : list A) : forall i j x y, i <> j -> upd (upd l i x) j y = upd (upd l j y) i x.
Proof.
  induction l as [|z l IH]; intros [|i] [|j] x y H; cbn [upd]; try reflexivity.
  - exfalso; apply H; reflexivity.
  - rewrite IH by lia. reflexivity.
Qed.

Lemma nth_firstn {A} (d : A) : forall n i (l : list A), nth i (firstn n l) d = if (i <? n)%nat then nth i l d else d.
Proof.
  induction n as [|n IH]; intros i l.
  - cbn [firstn]. destruct i; reflexivity.
  - destruct l as [|x l]; cbn [firstn].
    + destruct i; destruct (_ <? _)%nat; reflexivity.
    + destruct i as [|i]; cbn [nth]; [reflexivity|]. rewrite IH. reflexivity.
Qed.

Lemma firstn_upd {A} : forall n (l : list A) i x, firstn n (upd l i x) = upd (firstn n l) i x.
Proof.
  induction n as [|n IH]; intros l i x.
  - cbn [firstn]. reflexivity.
  - destruct l as [|y l]; [reflexivity|]. destruct i as [|i]; cbn [upd firstn]; [reflexivity|].
    rewrite IH. reflexivity.
Qed.

Lemma nth_repeat_none {A} (x : A) k i : nth i (repeat x k) x = x.
Proof. revert i; induction k as [|k IH]; intros [|i]; cbn [repeat nth]; try reflexivity. apply IH. Qed.

Lemma firstn_cons_removelast {A} : forall (l : list A) x, l <> [] -> firstn (length l) (x :: l) = x :: removelast l.
Proof.
  induction l as [|y l IH]; intros x H; [contradiction|].
  cbn [length firstn]. destruct l as [|z l]; [reflexivity|].
  change (removelast (y :: z :: l)) with (y :: removelast (z :: l)).
  rewrite <- IH by discriminate. reflexivity.
Qed.

(* rows 2 g and 2 g + 1 of R0 replaced *)
Definition M2 (R0 : cmat) (g : nat) (X Y : list cell) : cmat := upd (upd R0 (2 * g) X) (2 * g + 1) Y.

Lemma M2_length R0 g X Y : length (M2 R0 g X Y) = length R0.
Proof. unfold M2. rewrite !upd_length. reflexivity. Qed.

Lemma M2_widths N R0 g X Y : widths N R0 -> length X = N -> length Y = N -> widths N (M2 R0 g X Y).
Proof. intros. unfold M2. apply widths_upd; [apply widths_upd|]; assumption. Qed.

Lemma M2_rowS R0 g X Y : (2 * g + 1 < length R0)%nat -> nth (2 * g) (M2 R0 g X Y) [] = X.
Proof. intros H. unfold M2. rewrite nth_upd_other by lia. apply nth_upd_same. lia. Qed.

Lemma M2_rowC R0 g X Y : (2 * g + 1 < length R0)%nat -> nth (2 * g + 1) (M2 R0 g X Y) [] = Y.
Proof. intros H. unfold M2. apply nth_upd_same. rewrite upd_length. exact H. Qed.

Lemma grp_put_M2 N R0 g X Y col a b : (2 * g + 1 < length R0)%nat ->
  grp_put N (M2 R0 g X Y) g col a b = M2 R0 g (upd X col a) (if (S col <? N)%nat then upd Y (S col) b else Y).
Proof.
  intros H. unfold grp_put, upd2. cbv zeta. rewrite M2_rowS by exact H.
  assert (E1 : upd (M2 R0 g X Y) (2 * g) (upd X col a) = M2 R0 g (upd X col a) Y).
  { unfold M2. rewrite (upd_comm _ (2 * g + 1) (2 * g))%nat by lia. rewrite upd_upd_same. reflexivity. }
  rewrite E1. destruct (S col <? N)%nat; [|reflexivity].
  rewrite M2_rowC by exact H. unfold M2. rewrite upd_upd_same. reflexivity.
Qed.

Lemma sum_row_step (Sd : list cell) k col a : length Sd = col ->
  upd (Sd ++ repeat None (S k)) col a = (Sd ++ [a]) ++ repeat None k.
Proof.
  intros H. cbn [repeat]. rewrite upd_app_mid by (symmetry; exact H). rewrite <- app_assoc. reflexivity.
Qed.

Definition crow (N : nat) (Cd t : list cell) : list cell := firstn N (None :: Cd ++ t).

Lemma carry_row_len N (Cd : list cell) k col : (col + k = N)%nat -> length Cd = col ->
  length (crow N Cd (repeat None k)) = N.
Proof.
  intros H1 H2. unfold crow. rewrite firstn_length. cbn [length]. rewrite app_length, repeat_length. lia.
Qed.

Lemma carry_row_step N (Cd : list cell) k col b : (col + S k = N)%nat -> length Cd = col ->
  (if (S col <? N)%nat then upd (crow N Cd (repeat None (S k))) (S col) b else crow N Cd (repeat None (S k)))
  = crow N (Cd ++ [b]) (repeat None k).
Proof.
  intros H1 H2. unfold crow. destruct (Nat.ltb_spec (S col) N) as [H|H].
  - rewrite <- firstn_upd. cbn [upd repeat]. rewrite upd_app_mid by (symmetry; exact H2).
    rewrite <- app_assoc. reflexivity.
  - assert (k = 0)%nat by lia. subst k. cbn [repeat]. rewrite app_nil_r.
    change (None :: Cd ++ [None]) with ((None :: Cd) ++ [@None label]).
    change (None :: Cd ++ [b]) with ((None :: Cd) ++ [b]).
    assert (L : length (None :: Cd) = N) by (cbn [length]; unfold cell in *; lia).
    rewrite <- L. rewrite !firstn_app, Nat.sub_diag, !firstn_all. reflexivity.
Qed.

(* ---- one group, column by column ---------------------------------------------------------------------------------- *)
(* for col in range(n + m): <F cn col>, where F reads the three cells of column col and writes its sum bit / carry *)
Lemma group_cols_eq fresh N g (F : lmat -> Z -> prog lmat) (ra rb rc : list cell) :
  length ra = N -> length rb = N -> length rc = N ->
  (forall R col s, (col < N)%nat -> widths N R -> (2 * g + 1 < length R)%nat ->
     nth col (nth (2 * g) R []) None = None -> nth (S col) (nth (2 * g + 1) R []) None = None ->
     run fresh (F (colsof N R) (Z.of_nat col)) s
     = match run fresh (wallace_col (nth col ra None) (nth col rb None) (nth col rc None)) s with
       | Ok (sc, s') => Ok (colsof N (grp_put N R g col (fst sc) (snd sc)), s')
       | Err e => Err e
       end) ->
  forall R s, widths N R -> (2 * g + 1 < length R)%nat ->
  nth (2 * g) R [] = repeat None N -> nth (2 * g + 1) R [] = repeat None N ->
  run fresh (foldP F (py_range 0 (Z.of_nat N)) (colsof N R)) s
  = match run fresh (wallace_group ra rb rc) s with
    | Ok (sc, s') => Ok (colsof N (upd (upd R (2 * g) (fst sc)) (2 * g + 1) (None :: removelast (snd sc))), s')
    | Err e => Err e
    end.
Proof.
  intros La Lb Lc HF R s W HL HS HC. rewrite py_range_0_nat.
  destruct N as [|N'].
  { destruct ra; [|discriminate]. destruct rb; [|discriminate]. destruct rc; [|discriminate].
    cbn [seq map foldP wallace_group]. rs. reflexivity. }
  remember (S N') as N eqn:EN.
  assert (X : forall k col (Sd Cd : list cell) s0, (col + k = N)%nat -> length Sd = col -> length Cd = col ->
    run fresh (foldP F (map Z.of_nat (seq col k))
                 (colsof N (M2 R g (Sd ++ repeat None k) (crow N Cd (repeat None k))))) s0
    = match run fresh (wallace_group (skipn col ra) (skipn col rb) (skipn col rc)) s0 with
      | Ok (sc, s') => Ok (colsof N (M2 R g (Sd ++ fst sc) (crow N Cd (snd sc))), s')
      | Err e => Err e
      end).
  { induction k as [|k IH]; intros col Sd Cd s0 Hk HSd HCd.
    - rewrite !skipn_all2 by lia. cbn [seq map foldP wallace_group repeat]. rs. reflexivity.
    - rewrite (skipn_nth ra col None), (skipn_nth rb col None), (skipn_nth rc col None) by lia.
      rewrite wallace_group_cons. cbn [seq map foldP]. rs.
      rewrite HF.
      + destruct (run fresh (wallace_col (nth col ra None) (nth col rb None) (nth col rc None)) s0)
          as [[[a b] s1]|e]; rs; [|reflexivity].
        cbn [fst snd]. rewrite grp_put_M2 by exact HL.
                rewrite (sum_row_step Sd k col a HSd), (carry_row_step N Cd k col b Hk HCd).
        rewrite IH by (rewrite ?app_length; cbn [length]; lia).
        destruct (run fresh (wallace_group (skipn (S col) ra) (skipn (S col) rb) (skipn (S col) rc)) s1)
          as [[rest s2]|e]; rs; [|reflexivity].
        cbn [fst snd]. unfold crow. rewrite <- !app_assoc. reflexivity.
      + lia.
      + apply M2_widths; [exact W| |apply (carry_row_len N Cd (S k) col Hk HCd)].
        rewrite app_length, repeat_length. lia.
      + rewrite M2_length. exact HL.
      + rewrite M2_rowS by exact HL. rewrite app_nth2 by lia. rewrite HSd, Nat.sub_diag. reflexivity.
      + rewrite M2_rowC by exact HL. unfold crow. rewrite nth_firstn. destruct (S col <? N)%nat; [|reflexivity].
        cbn [nth repeat]. rewrite app_nth2 by lia. rewrite HCd, Nat.sub_diag. reflexivity. }
  assert (E0 : R = M2 R g ([] ++ repeat None N) (crow N [] (repeat None N))).
  { unfold crow. cbn [app]. change (None :: repeat None N) with (repeat (@None label) (S N)).
    rewrite firstn_repeat by lia. unfold M2. rewrite <- HS at 1. rewrite upd_nth_id.
    rewrite <- HC at 1. rewrite upd_nth_id. reflexivity. }
  rewrite E0 at 1. etransitivity; [apply (X N 0%nat [] [] s); cbn [length]; lia|].
  cbn [skipn]. unfold crow. cbn [app].
  destruct (run fresh (wallace_group ra rb rc) s) as [[sc s1]|e] eqn:EG; [|reflexivity].
  pose proof (wallace_group_ok N ra rb rc La Lb Lc _ _ _ _ EG) as (_ & L2 & _ & _).
  assert (E2 : forall l : list cell, length l = N -> firstn N (None :: l) = None :: removelast l).
  { intros l Hl. rewrite <- Hl. apply firstn_cons_removelast. intros E. rewrite E in Hl. cbn [length] in Hl. lia. }
  unfold M2. rewrite (E2 _ L2). reflexivity.
Qed.

Lemma upd_two_rows {A} (out : list A) x y a b pad i : i = length out ->
  upd (upd (out ++ x :: y :: pad) i a) (i + 1) b = (out ++ [a; b]) ++ pad.
Proof.
  intros Hi. rewrite upd_app_mid by exact Hi.
  change (out ++ a :: y :: pad) with (out ++ [a] ++ y :: pad). rewrite app_assoc.
  rewrite upd_app_mid by (rewrite app_length; cbn [length]; lia).
  rewrite <- !app_assoc. reflexivity.
Qed.

Lemma nones_SS N k : nones N (2 * S k) = repeat None N :: repeat None N :: nones N (2 * k).
Proof. unfold nones. replace (2 * S k)%nat with (S (S (2 * k))) by lia. reflexivity. Qed.

(* ---- the groups ------------------------------------------------------------------------------------------------------ *)
(* for row in range(0, 3 G, 3): <F cn row> *)
Lemma groups_fold_eq fresh N (F : lmat -> Z -> prog lmat) (rows : cmat) G :
  (1 <= N)%nat -> widths N rows -> (3 * G <= length rows)%nat ->
  (forall g R s, (g < G)%nat -> widths N R -> length R = (2 * G)%nat ->
     nth (2 * g) R [] = repeat None N -> nth (2 * g + 1) R [] = repeat None N ->
     run fresh (F (colsof N R) (Z.of_nat (3 * g))) s
     = match run fresh (wallace_group (nth (3 * g) rows []) (nth (3 * g + 1) rows []) (nth (3 * g + 2) rows [])) s with
       | Ok (sc, s') => Ok (colsof N (upd (upd R (2 * g) (fst sc)) (2 * g + 1) (None :: removelast (snd sc))), s')
       | Err e => Err e
       end) ->
  forall s,
  run fresh (foldP F (map (fun g => Z.of_nat (3 * g)) (seq 0 G)) (colsof N (nones N (2 * G)))) s
  = match run fresh (round_groups G rows) s with
    | Ok (out, s') => Ok (colsof N out, s')
    | Err e => Err e
    end.
Proof.
  intros HN W HG HF s.
  assert (X : forall k g (out : cmat) s0, (g + k = G)%nat -> widths N out -> length out = (2 * g)%nat ->
    run fresh (foldP F (map (fun g => Z.of_nat (3 * g)) (seq g k)) (colsof N (out ++ nones N (2 * k)))) s0
    = match run fresh (round_groups k (skipn (3 * g) rows)) s0 with
      | Ok (out', s') => Ok (colsof N (out ++ out'), s')
      | Err e => Err e
      end).
  { induction k as [|k IH]; intros g out s0 Hk Wo Lo.
    - assert (E : round_groups 0 (skipn (3 * g) rows) = Ret []) by (destruct (skipn (3 * g) rows); reflexivity).
      rewrite E. cbn [seq map foldP]. rs. reflexivity.
    - assert (E : skipn (3 * g) rows
                  = nth (3 * g) rows [] :: nth (3 * g + 1) rows [] :: nth (3 * g + 2) rows [] :: skipn (3 * S g) rows).
      { rewrite (skipn_nth rows (3 * g) []) by lia. rewrite (skipn_nth rows (S (3 * g)) []) by lia.
        rewrite (skipn_nth rows (S (S (3 * g))) []) by lia.
        replace (3 * g + 1)%nat with (S (3 * g)) by lia. replace (3 * g + 2)%nat with (S (S (3 * g))) by lia.
        replace (3 * S g)%nat with (S (S (S (3 * g)))) by lia. reflexivity. }
      rewrite E. cbn [round_groups seq map foldP]. rs. rewrite nones_SS.
      rewrite HF.
      + destruct (run fresh (wallace_group (nth (3 * g) rows []) (nth (3 * g + 1) rows []) (nth (3 * g + 2) rows [])) s0)
          as [[sc s1]|e] eqn:EG; rs; [|reflexivity].
        assert (La : length (nth (3 * g) rows []) = N) by (apply widths_nth; [exact W|lia]).
        assert (Lb : length (nth (3 * g + 1) rows []) = N) by (apply widths_nth; [exact W|lia]).
        assert (Lc : length (nth (3 * g + 2) rows []) = N) by (apply widths_nth; [exact W|lia]).
        pose proof (wallace_group_ok N _ _ _ La Lb Lc _ _ _ _ EG) as (L1 & L2 & _ & _).
        rewrite upd_two_rows by (symmetry; exact Lo).
        rewrite IH.
        * destruct (run fresh (round_groups k (skipn (3 * S g) rows)) s1) as [[t s2]|e]; rs; [|reflexivity].
          rewrite <- app_assoc. reflexivity.
        * lia.
        * apply widths_app; [exact Wo|]. constructor; [exact L1|]. constructor; [|constructor].
          cbn [length]. rewrite removelast_length. unfold cell in *. lia.
        * rewrite app_length. cbn [length]. lia.
      + lia.
      + apply widths_app; [exact Wo|]. rewrite <- nones_SS. apply widths_nones.
      + rewrite app_length. cbn [length]. unfold nones. rewrite repeat_length. lia.
      + rewrite app_nth2 by lia. rewrite Lo, Nat.sub_diag. reflexivity.
      + rewrite app_nth2 by lia. replace (2 * g + 1 - length out)%nat with 1%nat by lia. reflexivity. }
  etransitivity; [apply (X G 0%nat [] s); [lia|constructor|reflexivity]|].
  change (3 * 0)%nat with 0%nat. cbn [skipn app].
  destruct (run fresh (round_groups G rows) s) as [[t s2]|e]; reflexivity.
Qed.

