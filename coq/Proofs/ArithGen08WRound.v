(* Generated/ArithGen08.v, add_mul_wallace (translator T22) equals the hand model, part 3: one pass of the reduction loop
   (groups of three rows column by column, the copied rows) against [wallace_round], and the `while` loop against
   [wallace_loop], generically in the loop bodies (a specification of each body is a hypothesis). *)
Require Import Cirbo.Model.Base Cirbo.Model.Gate Cirbo.Model.Circuit Cirbo.Model.Builder Cirbo.Model.PyPrims.
Require Import Cirbo.Model.ArithSub Cirbo.Model.ArithSum2 Cirbo.Model.ArithSumN Cirbo.Model.ArithSumW.
Require Import Cirbo.Model.PyPrims08 Cirbo.Model.PyPrimsWal Cirbo.Model.ArithMul.
Require Import Cirbo.Generated.ArithTables.
Require Import Cirbo.Proofs.ArithGen09Lib Cirbo.Proofs.ArithGen08Lib.
Require Import Cirbo.Proofs.ArithMulWallaceShape Cirbo.Proofs.ArithGen08WLib Cirbo.Proofs.ArithGen08WShape.
From Coq Require Import ZArith Lia Ascii.
Open Scope Z_scope.

(* ---- one group, column by column ---------------------------------------------------------------------------------- *)
(* for col in range(n + m): <F cn col>, where F reads the three cells of column col and writes its sum bit / carry *)
Lemma group_cols_eq fresh N g (F : lmat -> Z -> prog lmat) (ra rb rc : list cell) :
  length ra = N -> length rb = N -> length rc = N ->
  (forall R col s, (col < N)%nat -> widths N R -> (2 * g + 1 < length R)%nat ->
     nth col (nth (2 * g) R []) None = None -> nth (S col) (nth (2 * g + 1) R []) None = None ->
     run fresh (F (colsof N R) (Z.of_nat col)) s
     = match run fresh (wallace_col (nth col ra None) (nth col rb None) (nth col rc None)) s with
       | Ok (sc, s') => Ok (colsof N (grp_put N R g col (fst sc) (snd sc)), s')
       | Err e => Err e
       end) ->
  forall R s, widths N R -> (2 * g + 1 < length R)%nat ->
  nth (2 * g) R [] = repeat None N -> nth (2 * g + 1) R [] = repeat None N ->
  run fresh (foldP F (py_range 0 (Z.of_nat N)) (colsof N R)) s
  = match run fresh (wallace_group ra rb rc) s with
    | Ok (sc, s') => Ok (colsof N (upd (upd R (2 * g) (fst sc)) (2 * g + 1) (None :: removelast (snd sc))), s')
    | Err e => Err e
    end.
Proof.
Admitted.

(* ---- the groups ------------------------------------------------------------------------------------------------------ *)
(* for row in range(0, 3 G, 3): <F cn row> *)
Lemma groups_fold_eq fresh N (F : lmat -> Z -> prog lmat) (rows : cmat) G :
  (1 <= N)%nat -> widths N rows -> (3 * G <= length rows)%nat ->
  (forall g R s, (g < G)%nat -> widths N R -> length R = (2 * G)%nat ->
     nth (2 * g) R [] = repeat None N -> nth (2 * g + 1) R [] = repeat None N ->
     run fresh (F (colsof N R) (Z.of_nat (3 * g))) s
     = match run fresh (wallace_group (nth (3 * g) rows []) (nth (3 * g + 1) rows []) (nth (3 * g + 2) rows [])) s with
       | Ok (sc, s') => Ok (colsof N (upd (upd R (2 * g) (fst sc)) (2 * g + 1) (None :: removelast (snd sc))), s')
       | Err e => Err e
       end) ->
  forall s,
  run fresh (foldP F (map (fun g => Z.of_nat (3 * g)) (seq 0 G)) (colsof N (nones N (2 * G)))) s
  = match run fresh (round_groups G rows) s with
    | Ok (out, s') => Ok (colsof N out, s')
    | Err e => Err e
    end.
Proof.
Admitted.

