(* T16 tie for C17, summary: what translator/t16_codec_alg.py regenerates from normalization.py and db.py
   (Generated/NormAlgGen.v), and the functions of the codec that the database lookups call
   (Generated/CodecAlgGen.v), equal the hand model the C17 theorems are about. *)
Require Import Cirbo.Model.Base Cirbo.Model.Gate Cirbo.Model.Circuit Cirbo.Model.BitIO Cirbo.Model.DictIO.
Require Import Cirbo.Model.Codec Cirbo.Model.Db.
Require Import Cirbo.Generated.CodecAlgGen Cirbo.Generated.NormAlgGen.
Require Import Cirbo.Proofs.CodecAlgGenDict Cirbo.Proofs.CodecAlgGenEnc Cirbo.Proofs.CodecAlgGenDec.
Require Import Cirbo.Proofs.NormAlgGen Cirbo.Proofs.NormAlgGenDen.

Definition lookup_regenerated : Prop :=
  (* normalization.py: the three steps of NormalizationInfo(t) write one attribute each ... *)
  (forall o t, gen_NormalizationInfo__normalize_outputs o t
     = do r <- normalize_outputs t; Ok (snd r, set_NormalizationInfo_negations o (Some (fst r)))) /\
  (forall o t, gen_NormalizationInfo__sort_outputs o t
     = Ok (snd (sort_outputs t),
           set_NormalizationInfo_permutation o (Some (map Z.of_nat (fst (sort_outputs t)))))) /\
  (forall o t, gen_NormalizationInfo__delete_duplicate_outputs o t
     = do r <- delete_duplicate_outputs t;
       Ok (fst r, set_NormalizationInfo_mapping o (Some (map Z.of_nat (snd r))))) /\
  (* ... and the constructor (with _normalize) builds, for every table, the object of the hand model's result *)
  (forall t, gen_NormalizationInfo___init__ t = do ni <- normalize t; Ok (gen_of_norm ni)) /\
  (* denormalize and its helpers, on every object the constructor builds and every circuit *)
  (forall c g, gen__negate_gate c g = do r <- negate_gate c g; Ok (snd r, fst r)) /\
  (forall ni c, gen_NormalizationInfo__undo_outputs_deletion (gen_of_norm ni) c = undo_outputs_deletion ni c) /\
  (forall ni c, to_db (gen_NormalizationInfo__unsort_outputs (gen_of_norm ni) c) = unsort_outputs ni c) /\
  (forall ni c, to_db (gen_NormalizationInfo__denormalize_outputs (gen_of_norm ni) c) = denormalize_outputs ni c) /\
  (forall ni c, to_db (gen_NormalizationInfo_denormalize (gen_of_norm ni) c) = denormalize ni c) /\
  (* db.py: _truth_table_to_label *)
  (forall t, gen__truth_table_to_label t = Ok (truth_table_to_label t)) /\
  (* what get_by_label / open / save / add_circuit / get_by_raw_truth_table_model call in the codec *)
  (forall bs, gen_decode_circuit bs = decode_circuit bs) /\
  (forall s, gen_read_binary_dict s = do d <- read_binary_dict s; Ok (d, [])) /\
  (forall d s, gen_write_binary_dict d s = do b <- write_binary_dict d; Ok (s ++ b)) /\
  (forall c, gen_encode_circuit (length (non_input_labels c)) c = encode_circuit c) /\
  (forall c excl, gen_Circuit_gates_number c excl = Ok (Z.of_nat (gates_number c excl))).

Lemma lookup_regenerated_holds : lookup_regenerated.
Proof.
  unfold lookup_regenerated. repeat match goal with |- _ /\ _ => split end.
  - exact gen_normalize_outputs_eq.
  - exact gen_sort_outputs_eq.
  - exact gen_delete_duplicate_outputs_eq.
  - exact gen_NormalizationInfo_init_eq.
  - exact gen__negate_gate_eq.
  - exact gen_undo_outputs_deletion_eq.
  - exact gen_unsort_outputs_eq.
  - exact gen_denormalize_outputs_eq.
  - exact gen_denormalize_eq.
  - exact gen__truth_table_to_label_eq.
  - exact gen_decode_circuit_eq.
  - exact gen_read_binary_dict_eq.
  - exact gen_write_binary_dict_eq.
  - exact gen_encode_circuit_eq.
  - exact gen_Circuit_gates_number_eq.
Qed.
