(* The definitions that translator T10 regenerates from the algorithmic methods of
   cirbo/core/circuit/circuit.py (Generated/CircuitAlgos.v) against the hand-written model:
   this file: generic facts, top_sort, __copy__, Block.into_circuit, evaluate_full_circuit.
   CircuitAlgosGen2.v: evaluate_circuit and the entry points built on it.
   CircuitAlgosGen3.v: connect_circuit and its wrappers.  *)
Require Import Cirbo.Model.Base Cirbo.Model.Gate Cirbo.Model.Circuit Cirbo.Model.Traverse Cirbo.Model.Eval
        Cirbo.Model.Connect.
Require Import Cirbo.Generated.Operators Cirbo.Generated.GateTypes Cirbo.Generated.CircuitCore
        Cirbo.Generated.CircuitAlgos.
Require Import Cirbo.Proofs.DictFacts Cirbo.Proofs.TopSort Cirbo.Proofs.CircuitCoreGen Cirbo.Proofs.CircuitCoreGen2.

(* ---------------------------------------------------------------- generic facts *)
Lemma bind_ext {A B} (r : res A) (f g : A -> res B) :
  (forall x, f x = g x) -> bind r f = bind r g.
Proof. intros H. destruct r; simpl; [apply H|reflexivity]. Qed.

(* the continuation may use that the first computation returned normally *)
Lemma bind_congr {A B} (r r' : res A) (f g : A -> res B) :
  r = r' -> (forall x, r' = Ok x -> f x = g x) -> bind r f = bind r' g.
Proof. intros -> H. destruct r'; simpl; [apply H; reflexivity|reflexivity]. Qed.

Lemma mapM_ext {A B} (f g : A -> res B) l : (forall x, f x = g x) -> mapM f l = mapM g l.
Proof.
  intros H. induction l as [|x xs IH]; simpl; [reflexivity|]. rewrite H, IH. reflexivity.
Qed.

Lemma mapM_length {A B} (f : A -> res B) l r : mapM f l = Ok r -> length r = length l.
Proof.
  revert r. induction l as [|x xs IH]; simpl; intros r H; [injection H as <-; reflexivity|].
  destruct (f x); simpl in H; [|discriminate].
  destruct (mapM f xs) as [ys|]; simpl in H; [|discriminate].
  injection H as <-. simpl. rewrite (IH ys eq_refl). reflexivity.
Qed.

Lemma dset_new {V} (d : dict V) k v : dmem d k = false -> dset d k v = d ++ [(k, v)].
Proof.
  unfold dmem. induction d as [|[k' v'] d IH]; simpl; [reflexivity|].
  destruct (leqb k k'); [discriminate|]. intros H. rewrite (IH H). reflexivity.
Qed.

Lemma dmem_app_one {V} (d : dict V) k k' v : dmem (d ++ [(k', v)]) k = dmem d k || leqb k k'.
Proof.
  unfold dmem. induction d as [|[k2 v2] d IH]; simpl.
  - destruct (leqb k k'); reflexivity.
  - destruct (leqb k k2); [reflexivity|exact IH].
Qed.

(* a dict comprehension over the items of a dict with unique keys lists one entry per item *)
Lemma dictcomp_mapM {V W} (F : label * V -> res W) (d : dict V) : forall acc,
  NoDup (dkeys acc ++ dkeys d) ->
  foldM (fun acc kv => do v <- F kv; Ok (dset acc (fst kv) v)) d acc
  = do r <- mapM (fun kv => do v <- F kv; Ok (fst kv, v)) d; Ok (acc ++ r).
Proof.
  induction d as [|[k x] d IH]; intros acc Hnd; simpl; [rewrite app_nil_r; reflexivity|].
  destruct (F (k, x)) as [v|e]; simpl; [|reflexivity].
  assert (Hk : dmem acc k = false).
  { destruct (dmem acc k) eqn:E; [|reflexivity]. apply dmem_keys in E. exfalso.
    simpl in Hnd. apply NoDup_remove_2 in Hnd. apply Hnd. apply in_or_app. left. exact E. }
  rewrite (dset_new _ _ _ Hk), IH.
  - destruct (mapM _ d) as [r|e]; simpl; [|reflexivity]. rewrite <- app_assoc. reflexivity.
  - unfold dkeys in *. rewrite map_app. simpl. rewrite <- app_assoc. simpl.
    simpl in Hnd. exact Hnd.
Qed.

(* a loop over (label, gate) pairs that are entries of the gate map = the loop over the labels with a lookup *)
Definition valid_pair (c : circuit) (p : label * gate) : Prop := get_gate c (fst p) = Ok (snd p).

Lemma foldM_pairs {S} (c : circuit) (F : S -> label -> gate -> res S) ps :
  Forall (valid_pair c) ps -> forall s,
  foldM (fun s kv => F s (fst kv) (snd kv)) ps s
  = foldM (fun s l => do g <- get_gate c l; F s l g) (map fst ps) s.
Proof.
  induction 1 as [|p ps Hp _ IH]; intros s; simpl; [reflexivity|].
  rewrite Hp. simpl. destruct (F s (fst p) (snd p)); simpl; [apply IH|reflexivity].
Qed.

Lemma skipn_nth_error {A} (l : list A) : forall k,
  skipn k l = match nth_error l k with Some v => v :: skipn (S k) l | None => [] end.
Proof.
  induction l as [|x xs IH]; intros [|k]; simpl; try reflexivity.
  rewrite IH. destruct (nth_error xs k); reflexivity.
Qed.

Lemma match_snoc {A B} (r : list A) x (a b : B) :
  match r ++ [x] with [] => a | _ :: _ => b end = b.
Proof. destruct r; reflexivity. Qed.

(* ---------------------------------------------------------------- the fuel of the model, as functions of the circuit *)
Definition size_fuel (c : circuit) : nat := S (size c).                           (* top_sort, the slice loop *)
Definition outputs_fuel (c : circuit) : nat := eval_fuel c (outputs c).           (* evaluate_circuit(outputs=None) *)
Definition at_fuel (c : circuit) : nat := 2 * (1 + sum_arity c) + 1.              (* evaluate_circuit(outputs=[o]) *)

(* ---------------------------------------------------------------- size / input_size *)
Lemma gen_size_eq c : gen_size c = size c.
Proof. reflexivity. Qed.
Lemma gen_input_size_eq c : gen_input_size c = length (inputs c).
Proof. reflexivity. Qed.

(* ---------------------------------------------------------------- top_sort *)
Lemma top_sort_step_eq (indeg : dict Z) (q : list label) ss :
  foldM (fun '(v_indegree_map, v_queue) v_successor =>
           do t8 <- dget_res v_indegree_map v_successor;
           let v_indegree_map := dset v_indegree_map v_successor (t8 - 1)%Z in
           do t9 <- dget_res v_indegree_map v_successor;
           if Z.eqb t9 (Z.of_nat 0) then
             let v_queue := v_queue ++ [v_successor] in Ok (v_indegree_map, v_queue)
           else Ok (v_indegree_map, v_queue)) ss (indeg, q)
  = foldM (fun (st : dict Z * list label) s =>
             let '(indeg, q) := st in
             match dget indeg s with
             | None => Err PyKeyError
             | Some d => let d' := (d - 1)%Z in
                         Ok (dset indeg s d', if Z.eqb d' 0 then q ++ [s] else q)
             end) ss (indeg, q).
Proof.
  apply foldM_ext. intros [i q'] s. unfold dget_res.
  destruct (dget i s) as [d|]; simpl; [|reflexivity].
  rewrite dget_dset_same. simpl. destruct (Z.eqb (d - 1) 0); reflexivity.
Qed.

Lemma gen_top_sort_loop_labels c inv : forall fuel indeg q ys,
  (do r <- gen_top_sort_loop1 fuel c inv ys indeg q; Ok (map fst (fst (fst r))))
  = top_sort_loop fuel inv c indeg q (map fst ys).
Proof.
  induction fuel as [|fuel IH]; intros indeg q ys; [reflexivity|].
  cbn [gen_top_sort_loop1 top_sort_loop].
  destruct (pop_last_cases q) as [[-> Hp]|(cur & rest & -> & Hp)].
  - rewrite Hp. reflexivity.
  - rewrite Hp, match_snoc.
    unfold list_pop. rewrite Hp. cbn [bind].
    rewrite gen_get_gate_eq. destruct (get_gate c cur) as [g|e]; cbn [bind]; [|reflexivity].
    rewrite gen_get_gate_users_eq.
    replace (if inv then get_gate_users c cur else Ok (gops g)) with (succs inv c cur g) by reflexivity.
    destruct (succs inv c cur g) as [ss|e]; cbn [bind]; [|reflexivity].
    rewrite top_sort_step_eq.
    destruct (foldM _ ss (indeg, rest)) as [[indeg' q']|e]; cbn [bind fst snd]; [|reflexivity].
    rewrite IH. rewrite map_app. reflexivity.
Qed.

Lemma gen_top_sort_loop_valid c inv : forall fuel indeg q ys r,
  Forall (valid_pair c) ys ->
  gen_top_sort_loop1 fuel c inv ys indeg q = Ok r -> Forall (valid_pair c) (fst (fst r)).
Proof.
  induction fuel as [|fuel IH]; intros indeg q ys r Hys; [discriminate|].
  cbn [gen_top_sort_loop1].
  destruct q as [|x q0]; [intros [= <-]; exact Hys|].
  destruct (list_pop (x :: q0)) as [[cur rest]|e]; cbn [bind]; [|discriminate].
  destruct (gen_get_gate c cur) as [g|e] eqn:Eg; cbn [bind]; [|discriminate].
  destruct (if inv then gen_get_gate_users c cur else Ok (gops g)) as [ss|e]; cbn [bind]; [|discriminate].
  destruct (foldM _ ss (indeg, rest)) as [[indeg' q']|e]; cbn [bind]; [|discriminate].
  apply IH. apply Forall_app. split; [exact Hys|]. constructor; [|constructor].
  unfold valid_pair. simpl. rewrite <- gen_get_gate_eq. exact Eg.
Qed.

Lemma init_indegree_eq c (inv : bool) :
  NoDup (dkeys (gates c)) ->
  foldM (fun (d_ : dict Z) (kv_elem : label * gate) =>
           do t2 <- (if inv then Ok (length (gops (snd kv_elem)))
                     else (do t1 <- gen_get_gate_users c (fst kv_elem); Ok (length t1)));
           Ok (dset d_ (fst kv_elem) (Z.of_nat t2))) (gates c) []
  = init_indegree inv c.
Proof.
  intros Hnd. unfold init_indegree.
  set (F := fun kv : label * gate =>
              do t2 <- (if inv then Ok (length (gops (snd kv)))
                        else (do t1 <- gen_get_gate_users c (fst kv); Ok (length t1)));
              Ok (Z.of_nat t2)).
  transitivity (foldM (fun (acc : dict Z) kv => do v <- F kv; Ok (dset acc (fst kv) v)) (gates c) []).
  { apply foldM_ext. intros d kv. unfold F. destruct inv; simpl; [reflexivity|].
    destruct (gen_get_gate_users c (fst kv)); reflexivity. }
  rewrite dictcomp_mapM by (simpl; exact Hnd).
  simpl. rewrite bind_ret. apply mapM_ext. intros [l g]. unfold F. simpl.
  destruct inv; simpl; [reflexivity|].
  rewrite gen_get_gate_users_eq. destruct (get_gate_users c l); reflexivity.
Qed.

(* gen_top_sort returns the yielded Gate objects as (label, gate) pairs: their labels are the result of the
   model, and every pair is an entry of the gate map *)
Lemma gen_top_sort_labels c inv :
  NoDup (dkeys (gates c)) ->
  (do r <- gen_top_sort (S (size c)) c inv; Ok (map fst r)) = top_sort inv c.
Proof.
  intros Hnd. unfold gen_top_sort, top_sort. rewrite gen_size_eq. unfold size.
  destruct (gates c) as [|kg gs] eqn:Eg; [reflexivity|]. rewrite <- Eg in Hnd |- *.
  replace (Nat.eqb (length (gates c)) 0) with false by (rewrite Eg; reflexivity).
  rewrite (init_indegree_eq c inv Hnd).
  destruct (init_indegree inv c) as [indeg|e]; cbn [bind]; [|reflexivity].
  change (Z.of_nat 0) with 0%Z.
  set (queue := map (fun p : label * Z => fst p) (filter (fun p : label * Z => Z.eqb (snd p) 0) indeg)).
  replace (map fst (filter (fun kv : label * Z => Z.eqb (snd kv) 0) indeg)) with queue by reflexivity.
  destruct queue as [|q0 qs] eqn:Eq; [reflexivity|]. rewrite <- Eq.
  replace (Nat.eqb (length queue) 0) with false by (rewrite Eq; reflexivity).
  change (@nil label) with (map (@fst label gate) []).
  rewrite <- (gen_top_sort_loop_labels c inv (S (length (gates c))) indeg queue []).
  rewrite bind_assoc. apply bind_ext. intros [[ys i] q]. reflexivity.
Qed.

Lemma gen_top_sort_valid c inv fuel r :
  gen_top_sort fuel c inv = Ok r -> Forall (valid_pair c) r.
Proof.
  unfold gen_top_sort.
  destruct (Nat.eqb (gen_size c) 0); [intros [= <-]; constructor|].
  match goal with |- bind ?X _ = _ -> _ => destruct X as [indeg|e]; cbn [bind]; [|discriminate] end.
  match goal with |- context [Nat.eqb (length ?q) 0] => destruct (Nat.eqb (length q) 0); [discriminate|] end.
  match goal with |- context [gen_top_sort_loop1 fuel c inv [] indeg ?q] =>
    destruct (gen_top_sort_loop1 fuel c inv [] indeg q) as [[[ys i] q']|e] eqn:E; cbn [bind]; [|discriminate] end.
  intros [= <-]. apply (gen_top_sort_loop_valid c inv _ _ _ _ _ (Forall_nil _) E).
Qed.

(* how a consumer `for g in self.top_sort(...)` reads: the loop over the pairs is the model's loop over the labels *)
Lemma foldM_gen_top_sort {St} c inv (F : St -> label -> gate -> res St) s0 :
  NoDup (dkeys (gates c)) ->
  (do r <- gen_top_sort (S (size c)) c inv; foldM (fun s kv => F s (fst kv) (snd kv)) r s0)
  = (do ls <- top_sort inv c; foldM (fun s l => do g <- get_gate c l; F s l g) ls s0).
Proof.
  intros Hnd. rewrite <- (gen_top_sort_labels c inv Hnd).
  destruct (gen_top_sort (S (size c)) c inv) as [r|e] eqn:E; cbn [bind]; [|reflexivity].
  apply foldM_pairs. exact (gen_top_sort_valid _ _ _ _ E).
Qed.

Lemma foldM_gen_top_sort_k {St B} c inv (F : St -> label -> gate -> res St) s0 (k : St -> res B) :
  NoDup (dkeys (gates c)) ->
  (do r <- gen_top_sort (S (size c)) c inv; do s <- foldM (fun s kv => F s (fst kv) (snd kv)) r s0; k s)
  = (do ls <- top_sort inv c; do s <- foldM (fun s l => do g <- get_gate c l; F s l g) ls s0; k s).
Proof.
  intros Hnd.
  transitivity (bind (do r <- gen_top_sort (S (size c)) c inv; foldM (fun s kv => F s (fst kv) (snd kv)) r s0) k).
  { symmetry. apply bind_assoc. }
  rewrite (foldM_gen_top_sort c inv F s0 Hnd). apply bind_assoc.
Qed.

(* the same for an arbitrary loop body over the pairs *)
Lemma foldM_pairs' {St} (c : circuit) (f : St -> label * gate -> res St) ps :
  Forall (valid_pair c) ps -> forall s,
  foldM f ps s = foldM (fun s l => do g <- get_gate c l; f s (l, g)) (map fst ps) s.
Proof.
  induction 1 as [|[l g] ps Hp _ IH]; intros s; simpl; [reflexivity|].
  unfold valid_pair in Hp. simpl in Hp. rewrite Hp. simpl.
  destruct (f s (l, g)); simpl; [apply IH|reflexivity].
Qed.

Lemma foldM_gen_top_sort_k' {St B} c inv (f : St -> label * gate -> res St) s0 (k : St -> res B) :
  NoDup (dkeys (gates c)) ->
  (do r <- gen_top_sort (S (size c)) c inv; do s <- foldM f r s0; k s)
  = (do ls <- top_sort inv c; do s <- foldM (fun s l => do g <- get_gate c l; f s (l, g)) ls s0; k s).
Proof.
  intros Hnd. rewrite <- (gen_top_sort_labels c inv Hnd).
  destruct (gen_top_sort (S (size c)) c inv) as [r|e] eqn:E; cbn [bind]; [|reflexivity].
  rewrite (foldM_pairs' c f r (gen_top_sort_valid _ _ _ _ E)). reflexivity.
Qed.

(* the representation invariant is needed: with a repeated key the comprehension collapses the entries *)
Definition dup_keys_circuit : circuit :=
  mkCircuit [] [] [("a", mkGate AND []); ("a", mkGate AND [])] [] [].
Lemma top_sort_dup_keys_differs :
  (do r <- gen_top_sort 3 dup_keys_circuit true; Ok (map fst r)) <> top_sort true dup_keys_circuit.
Proof. vm_compute. discriminate. Qed.

(* ---------------------------------------------------------------- __copy__ *)
Lemma gen_copy_eq c :
  NoDup (dkeys (gates c)) -> gen___copy__ size_fuel c = copy_circuit c.
Proof.
  intros Hnd. unfold gen___copy__, copy_circuit, size_fuel.
  rewrite (foldM_gen_top_sort_k c true (fun n l g => do n' <- gen_emplace_gate n l (gtyp g) (gops g); Ok n')
                                empty_circuit _ Hnd).
  apply bind_ext. intros order.
  apply bind_congr.
  { apply foldM_ext. intros n l. apply bind_ext. intros g.
    rewrite bind_ret. apply gen_emplace_gate_eq. }
  intros c1 _. rewrite gen_set_inputs_eq. apply bind_ext. intros c2.
  rewrite gen_set_outputs_eq. apply bind_ext. intros c3.
  rewrite bind_ret. apply foldM_ext. intros n kb.
  rewrite <- gen_make_block_eq.
  apply bind_ext. intros [n' b]. reflexivity.
Qed.

(* ---------------------------------------------------------------- Block.into_circuit *)
Lemma gen_Block_into_circuit_eq b c : gen_Block_into_circuit b c = block_into_circuit c b.
Proof.
  unfold gen_Block_into_circuit, block_into_circuit.
  rewrite (foldM_total _ (fun n i => if has_gate n i then n else emplace_gate_raw n i INPUT [])).
  2:{ intros n i. rewrite gen_has_gate_eq. destruct (has_gate n i); cbn [negb]; [reflexivity|].
      rewrite gen__emplace_gate_eq. reflexivity. }
  cbn [bind]. apply bind_congr.
  { apply foldM_ext. intros n l. rewrite gen_has_gate_eq. destruct (has_gate n l); [reflexivity|].
    rewrite gen_get_gate_eq. apply bind_ext. intros g. rewrite gen__emplace_gate_eq. reflexivity. }
  intros n1 _. rewrite gen_set_outputs_eq. apply bind_ext. intros n2.
  apply bind_congr; [|reflexivity].
  apply foldM_ext. intros [] kg. rewrite bind_unit. apply gen_check_gates_exist_eq.
Qed.

(* ---------------------------------------------------------------- evaluate_full_circuit *)
Lemma init_assignment_loop c (a : assignment) :
  foldM (fun d i => let d := dsetdefault d i U in Ok d) (inputs c) a = Ok (init_assignment c a).
Proof. unfold init_assignment. apply foldM_total. reflexivity. Qed.

Lemma eval_gate_gen (d : assignment) g :
  (do t2 <- gate_operator g; do t4 <- mapM (fun op => dget_res d op) (gops g); operator_of t2 t4)
  = eval_gate d g.
Proof.
  unfold gate_operator, eval_gate, lookup_vals. destruct (gtype_beq (gtyp g) INPUT); reflexivity.
Qed.

Lemma gen_evaluate_full_circuit_eq c a :
  NoDup (dkeys (gates c)) -> gen_evaluate_full_circuit size_fuel c a = evaluate_full_circuit c a.
Proof.
  intros Hnd. unfold gen_evaluate_full_circuit, evaluate_full_circuit, size_fuel.
  rewrite init_assignment_loop. cbn [bind].
  rewrite (foldM_gen_top_sort_k c true
             (fun (d : assignment) l g =>
                if gtype_beq (gtyp g) INPUT then Ok d else
                do t2 <- gate_operator g; do t4 <- mapM (fun op => dget_res d op) (gops g);
                do t5 <- operator_of t2 t4; Ok (dset d l t5)) (init_assignment c a) _ Hnd).
  apply bind_ext. intros order. rewrite bind_ret.
  apply foldM_ext. intros d l. apply bind_ext. intros g.
  destruct (gtype_beq (gtyp g) INPUT) eqn:E; [reflexivity|].
  rewrite <- eval_gate_gen. rewrite !bind_assoc. apply bind_ext. intros t2.
  rewrite !bind_assoc. reflexivity.
Qed.
