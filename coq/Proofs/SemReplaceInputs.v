(* C19, replace_inputs: the resulting state and the cofactor semantics.
   The semantic part needs neither inputs_nullary nor the users index: the INPUT gate is
   overwritten by a constant gate without operands. *)
Require Import Cirbo.Model.Base Cirbo.Model.Gate Cirbo.Model.Circuit Cirbo.Model.Eval Cirbo.Model.Sem
        Cirbo.Model.WF.
Require Import Cirbo.Generated.Operators Cirbo.Generated.GateTypes.
Require Import Cirbo.Proofs.DictFacts Cirbo.Proofs.WFBase Cirbo.Proofs.WFSimple Cirbo.Proofs.SemFacts
        Cirbo.Proofs.SemExt.

(* ---------------- list facts ---------------- *)
Lemma filter_id_notin l L : ~ In l L -> filter (fun i => negb (leqb i l)) L = L.
Proof.
  induction L as [|y L IH]; simpl; intros H; [reflexivity|].
  destruct (leqb_spec y l) as [->|Hne]; [exfalso; auto|]. simpl; f_equal; auto.
Qed.

Lemma remove1_filter l L : NoDup L -> remove1 l L = filter (fun i => negb (leqb i l)) L.
Proof.
  induction L as [|y L IH]; simpl; intros Hnd; [reflexivity|]. inversion Hnd as [|? ? Hn Hd]; subst.
  rewrite (leqb_sym l y). destruct (leqb_spec y l) as [->|Hne]; simpl.
  - symmetry; apply filter_id_notin, Hn.
  - f_equal; auto.
Qed.

Lemma filter_filter' {A} (f g : A -> bool) L :
  filter f (filter g L) = filter (fun x => g x && f x) L.
Proof.
  induction L as [|y L IH]; simpl; [reflexivity|].
  destruct (g y); simpl; [destruct (f y); simpl; rewrite IH; reflexivity|exact IH].
Qed.

Lemma NoDup_filter' {A} (f : A -> bool) L : NoDup L -> NoDup (filter f L).
Proof.
  induction 1 as [|x L Hn Hd IH]; simpl; [constructor|].
  destruct (f x); [constructor; [|assumption]|assumption].
  intros Hin; apply filter_In in Hin; tauto.
Qed.

Lemma memb_app x L1 L2 : memb x (L1 ++ L2) = memb x L1 || memb x L2.
Proof. induction L1 as [|y L1 IH]; simpl; [reflexivity|]. destruct (leqb x y); [reflexivity|exact IH]. Qed.

(* ---------------- replace_inputs_with ---------------- *)
Lemma replace_inputs_with_spec t ls : t <> INPUT -> forall c c',
  NoDup (inputs c) -> replace_inputs_with c ls t = Ok c' ->
  (forall x, dget (gates c') x = if memb x ls then Some (mkGate t []) else dget (gates c) x) /\
  inputs c' = filter (fun i => negb (memb i ls)) (inputs c) /\
  outputs c' = outputs c /\ users c' = users c /\ blocks c' = blocks c /\
  (forall l, In l ls -> exists g, dget (gates c) l = Some g /\ gtyp g = INPUT) /\
  NoDup ls.
Proof.
  intros Hti; unfold replace_inputs_with.
  induction ls as [|l ls IH]; simpl; intros c c' Hnd H.
  - injection H as <-. repeat split; try reflexivity.
    + symmetry. clear Hnd. induction (inputs c) as [|y L IHL]; simpl; [reflexivity|f_equal; exact IHL].
    + intros l [].
    + constructor.
  - binv H c1 H1. binv H1 g Hg. apply get_gate_ok in Hg.
    destruct (gtype_beq (gtyp g) INPUT) eqn:Et; simpl in H1; [|discriminate]. apply gtype_beq_eq in Et.
    destruct (memb l (inputs c)) eqn:Em; [|discriminate]. injection H1 as <-.
    apply IH in H; [|simpl; apply NoDup_remove1, Hnd]. simpl in H.
    destruct H as (Hget & Hin & Hout & Hus & Hbl & Hall & Hnd').
    assert (Hl : forall l', In l' ls -> l' <> l /\ exists g', dget (gates c) l' = Some g' /\ gtyp g' = INPUT).
    { intros l' Hl'. destruct (Hall l' Hl') as (g' & Hg' & Ht'). rewrite dget_dset in Hg'.
      destruct (leqb_spec l' l) as [->|Hne].
      - injection Hg' as <-. simpl in Ht'. contradiction.
      - split; [assumption|eauto]. }
    repeat split; try assumption.
    + intros x. rewrite Hget, dget_dset. destruct (leqb x l), (memb x ls); reflexivity.
    + rewrite Hin, (remove1_filter l _ Hnd), filter_filter'. apply filter_ext.
      intros i. destruct (leqb i l); reflexivity.
    + intros l' [<-|Hl']; [eauto|apply Hl, Hl'].
    + constructor; [|assumption]. intros Hin'. apply Hl in Hin'. destruct Hin' as [Hne _]; congruence.
Qed.

(* ---------------- replace_inputs ---------------- *)
Theorem replace_inputs_spec c ts fs c' :
  NoDup (inputs c) -> replace_inputs c ts fs = Ok c' ->
  (forall x, dget (gates c') x =
             if memb x fs then Some (mkGate ALWAYS_FALSE [])
             else if memb x ts then Some (mkGate ALWAYS_TRUE []) else dget (gates c) x) /\
  inputs c' = filter (fun i => negb (memb i (ts ++ fs))) (inputs c) /\
  outputs c' = outputs c /\ users c' = users c /\ blocks c' = blocks c /\
  (forall l, In l (ts ++ fs) -> exists g, dget (gates c) l = Some g /\ gtyp g = INPUT) /\
  NoDup (ts ++ fs).
Proof.
  unfold replace_inputs; intros Hnd H. binv H c1 H1.
  apply replace_inputs_with_spec in H1; [|discriminate|assumption].
  destruct H1 as (G1 & I1 & O1 & U1 & B1 & A1 & N1).
  apply replace_inputs_with_spec in H; [|discriminate|rewrite I1; apply NoDup_filter', Hnd].
  destruct H as (G2 & I2 & O2 & U2 & B2 & A2 & N2).
  assert (Hfs : forall l, In l fs -> ~ In l ts /\ exists g, dget (gates c) l = Some g /\ gtyp g = INPUT).
  { intros l Hl. destruct (A2 l Hl) as (g & Hg & Ht). rewrite G1 in Hg.
    destruct (memb l ts) eqn:Em.
    - injection Hg as <-; discriminate Ht.
    - apply memb_nIn in Em. split; [assumption|eauto]. }
  repeat split; try congruence.
  - intros x; rewrite G2, G1; reflexivity.
  - rewrite I2, I1, filter_filter'. apply filter_ext. intros i; rewrite memb_app, negb_orb; reflexivity.
  - intros l Hl; apply in_app_or in Hl; destruct Hl as [Hl|Hl]; [apply A1, Hl|apply Hfs, Hl].
  - apply NoDup_count; intros x; rewrite count_app.
    pose proof (proj1 (NoDup_count _) N1 x) as H1. pose proof (proj1 (NoDup_count _) N2 x) as H2.
    destruct (Nat.eq_dec (count x fs) 0) as [E|E]; [lia|].
    assert (In x fs) as Hx by (apply count_pos_In; lia).
    apply Hfs in Hx; destruct Hx as [Hx _]. apply count_zero_nIn in Hx; lia.
Qed.

(* the remaining inputs are exactly the INPUT gates of the result *)
Lemma replace_inputs_remaining c ts fs c' :
  WF c -> replace_inputs c ts fs = Ok c' ->
  forall l, In l (inputs c') <-> In l (inputs c) /\ ~ In l (ts ++ fs).
Proof.
  intros W H l. destruct (replace_inputs_spec c ts fs c' (wf_inputs_nodup c W) H) as (_ & -> & _).
  rewrite filter_In, negb_true_iff, memb_nIn; tauto.
Qed.

Theorem replace_inputs_sem c ts fs c' a a' :
  WF c -> replace_inputs c ts fs = Ok c' ->
  (forall l, In l ts -> aval a l = T) ->
  (forall l, In l fs -> aval a l = F) ->
  (forall l, In l (inputs c') -> aval a l = aval a' l) ->
  forall l v, Eval c' a' l v <-> Eval c a l v.
Proof.
  intros W H Hts Hfs Hrest l v.
  destruct (replace_inputs_spec c ts fs c' (wf_inputs_nodup c W) H) as (Hget & Hin & _ & _ & _ & Hall & Hnd).
  assert (Hdisj : forall x, In x fs -> ~ In x ts).
  { intros x Hf Ht. apply NoDup_count with (x := x) in Hnd. rewrite count_app in Hnd.
    apply count_pos_In in Hf, Ht. lia. }
  assert (Hkeep : forall x g, dget (gates c) x = Some g -> gtyp g <> INPUT -> dget (gates c') x = Some g).
  { intros x g Hx Ht. rewrite Hget.
    destruct (memb x fs) eqn:Ef.
    { apply memb_In in Ef. destruct (Hall x (in_or_app _ _ _ (or_intror Ef))) as (g0 & Hg0 & Ht0). congruence. }
    destruct (memb x ts) eqn:Et; [|exact Hx].
    apply memb_In in Et. destruct (Hall x (in_or_app _ _ _ (or_introl Et))) as (g0 & Hg0 & Ht0). congruence. }
  split; intros HE.
  - (* c' -> c *)
    apply (Eval_sim c' c a' a (fun x => x) (fun _ => True)); [tauto| | |exact HE|exact I].
    + intros x g _ Hx Ht. rewrite Hget in Hx.
      destruct (memb x fs) eqn:Ef; [injection Hx as <-; discriminate Ht|].
      destruct (memb x ts) eqn:Et; [injection Hx as <-; discriminate Ht|].
      rewrite <- (Hrest x).
      * eapply EvalInput; eassumption.
      * apply (replace_inputs_remaining c ts fs c' W H). split; [apply (wf_inputs c W); eauto|].
        apply memb_nIn in Ef, Et. intros Hx'; apply in_app_or in Hx'; tauto.
    + intros x g vs w _ Hx Ht _ Hvs Hop. rewrite map_id in Hvs. rewrite Hget in Hx.
      destruct (memb x fs) eqn:Ef.
      { injection Hx as <-. simpl in Hvs, Hop. inversion Hvs; subst. injection Hop as <-.
        apply memb_In in Ef. destruct (Hall x (in_or_app _ _ _ (or_intror Ef))) as (g0 & Hg0 & Ht0).
        change (opalways_false_ []) with F. rewrite <- (Hfs x Ef). eapply EvalInput; eassumption. }
      destruct (memb x ts) eqn:Et.
      { injection Hx as <-. simpl in Hvs, Hop. inversion Hvs; subst. injection Hop as <-.
        apply memb_In in Et. destruct (Hall x (in_or_app _ _ _ (or_introl Et))) as (g0 & Hg0 & Ht0).
        change (opalways_true_ []) with T. rewrite <- (Hts x Et). eapply EvalInput; eassumption. }
      eapply EvalGate; eassumption.
  - (* c -> c' *)
    apply (Eval_sim c c' a a' (fun x => x) (fun _ => True)); [tauto| | |exact HE|exact I].
    + intros x g _ Hx Ht.
      destruct (memb x fs) eqn:Ef.
      { apply memb_In in Ef. rewrite (Hfs x Ef).
        eapply (EvalGate c' a' x (mkGate ALWAYS_FALSE []) [] F);
          [rewrite Hget, (proj2 (memb_In x fs) Ef); reflexivity|discriminate|constructor|reflexivity]. }
      destruct (memb x ts) eqn:Et.
      { apply memb_In in Et. rewrite (Hts x Et).
        eapply (EvalGate c' a' x (mkGate ALWAYS_TRUE []) [] T);
          [rewrite Hget, Ef, (proj2 (memb_In x ts) Et); reflexivity|discriminate|constructor|reflexivity]. }
      rewrite (Hrest x).
      * eapply EvalInput; [rewrite Hget, Ef, Et; exact Hx|exact Ht].
      * apply (replace_inputs_remaining c ts fs c' W H). split; [apply (wf_inputs c W); eauto|].
        apply memb_nIn in Ef, Et. intros Hx'; apply in_app_or in Hx'; tauto.
    + intros x g vs w _ Hx Ht _ Hvs Hop. rewrite map_id in Hvs.
      eapply EvalGate; [apply Hkeep; eassumption|assumption|exact Hvs|exact Hop].
Qed.

(* ---------------- the concrete extended assignment ---------------- *)
Definition set_all (ls : list label) (v : st) (a : assignment) : assignment :=
  fold_left (fun d l => dset d l v) ls a.

Lemma dget_set_all ls v : forall a x,
  dget (set_all ls v a) x = if memb x ls then Some v else dget a x.
Proof.
  unfold set_all; induction ls as [|l ls IH]; simpl; intros a x; [reflexivity|].
  rewrite IH, dget_dset. destruct (leqb x l), (memb x ls); reflexivity.
Qed.

(* a' extended with ts -> True, fs -> False *)
Definition cofactor_assignment (a' : assignment) (ts fs : list label) : assignment :=
  set_all fs F (set_all ts T a').

Lemma cofactor_assignment_aval a' ts fs x :
  aval (cofactor_assignment a' ts fs) x =
  if memb x fs then F else if memb x ts then T else aval a' x.
Proof.
  unfold aval, cofactor_assignment. rewrite !dget_set_all.
  destruct (memb x fs), (memb x ts); reflexivity.
Qed.

Corollary replace_inputs_cofactor c ts fs c' a' :
  WF c -> replace_inputs c ts fs = Ok c' ->
  forall l v, Eval c' a' l v <-> Eval c (cofactor_assignment a' ts fs) l v.
Proof.
  intros W H.
  destruct (replace_inputs_spec c ts fs c' (wf_inputs_nodup c W) H) as (_ & _ & _ & _ & _ & _ & Hnd).
  apply (replace_inputs_sem c ts fs c' _ a' W H).
  - intros l Hl. rewrite cofactor_assignment_aval, (proj2 (memb_In l ts) Hl).
    destruct (memb l fs) eqn:Ef; [|reflexivity]. apply memb_In in Ef.
    apply NoDup_count with (x := l) in Hnd. rewrite count_app in Hnd. apply count_pos_In in Hl, Ef. lia.
  - intros l Hl. rewrite cofactor_assignment_aval, (proj2 (memb_In l fs) Hl). reflexivity.
  - intros l Hl. apply (replace_inputs_remaining c ts fs c' W H) in Hl. destruct Hl as [_ Hn].
    rewrite cofactor_assignment_aval.
    destruct (memb l fs) eqn:Ef; [apply memb_In in Ef; exfalso; apply Hn, in_or_app; auto|].
    destruct (memb l ts) eqn:Et; [apply memb_In in Et; exfalso; apply Hn, in_or_app; auto|]. reflexivity.
Qed.
