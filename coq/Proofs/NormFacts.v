(* NormalizationInfo: what the three normalisation steps record (C17). *)
Require Import Cirbo.Model.Base Cirbo.Model.Gate Cirbo.Model.Circuit Cirbo.Model.Db.
Require Import Cirbo.Proofs.DbTruthTableFacts.
From Coq Require Import Permutation.

(* ---- _normalize_outputs ---- *)
Definition negated_row (row : list bool) : list bool := if hd false row then map negb row else row.

Lemma normalize_outputs_spec t negs t1 :
  normalize_outputs t = Ok (negs, t1) ->
  negs = map (hd false) t /\ t1 = map negated_row t /\ Forall (fun row => row <> []) t.
Proof.
  revert negs t1; induction t as [|row t IH]; intros negs t1; simpl.
  - intros [= <- <-]. repeat split; constructor.
  - destruct row as [|b row]; [discriminate|].
    destruct (normalize_outputs t) as [[n' t']|]; simpl; [|discriminate]. intros [= <- <-].
    destruct (IH _ _ eq_refl) as (-> & -> & H). split; [reflexivity|]. split; [|constructor; [discriminate|exact H]].
    unfold negated_row; simpl. destruct b; reflexivity.
Qed.

(* ---- _sort_outputs: only "it is a permutation that remembers where rows came from" is needed ---- *)
Lemma insert_sorted_perm x l : Permutation (insert_sorted x l) (x :: l).
Proof.
  induction l as [|y l IH]; simpl; [reflexivity|].
  destruct (row_leb (snd y) (snd x)); [|reflexivity].
  eapply Permutation_trans; [apply perm_skip; exact IH|apply perm_swap].
Qed.

Lemma stable_sort_perm l : Permutation (stable_sort l) l.
Proof.
  unfold stable_sort. rewrite <- (app_nil_l l) at 2. generalize (@nil (nat * list bool)).
  induction l as [|x l IH]; intros acc; simpl; [rewrite app_nil_r; reflexivity|].
  eapply Permutation_trans; [apply IH|].
  eapply Permutation_trans; [apply Permutation_app_tail; apply insert_sorted_perm|].
  simpl. apply Permutation_middle.
Qed.

Lemma enumerate_from_spec {A} (l : list A) : forall k i x,
  In (i, x) (enumerate_from k l) <-> (k <= i)%nat /\ nth_error l (i - k) = Some x.
Proof.
  induction l as [|y l IH]; intros k i x; simpl.
  - split; [tauto|]. intros [_ H]. destruct (i - k)%nat; discriminate.
  - rewrite IH. split.
    + intros [[= <- <-]|[H1 H2]]; [rewrite Nat.sub_diag; auto|].
      split; [lia|]. replace (i - k)%nat with (S (i - S k)) by lia. exact H2.
    + intros [H1 H2]. destruct (i - k)%nat as [|n] eqn:E.
      * left. injection H2 as <-. f_equal. lia.
      * right. split; [lia|]. replace (i - S k)%nat with n by lia. exact H2.
Qed.

Lemma map_fst_enumerate {A} (l : list A) k : map fst (enumerate_from k l) = seq k (length l).
Proof. revert k; induction l as [|x l IH]; intros k; simpl; [reflexivity|rewrite IH; reflexivity]. Qed.

Lemma length_enumerate {A} (l : list A) k : length (enumerate_from k l) = length l.
Proof. revert k; induction l; intros; simpl; [reflexivity|rewrite IHl; reflexivity]. Qed.

Lemma nth_error_enumerate {A} (l : list A) k i :
  nth_error (enumerate_from k l) i = option_map (fun x => ((k + i)%nat, x)) (nth_error l i).
Proof.
  revert k i; induction l as [|x l IH]; intros k [|i]; simpl; try reflexivity.
  - rewrite Nat.add_0_r; reflexivity.
  - rewrite IH. replace (S k + i)%nat with (k + S i)%nat by lia. reflexivity.
Qed.

Lemma sort_outputs_spec t1 perm t2 :
  sort_outputs t1 = (perm, t2) ->
  length perm = length t1 /\ length t2 = length t1 /\ Permutation perm (seq 0 (length t1)) /\
  forall k p row, nth_error perm k = Some p -> nth_error t2 k = Some row -> nth_error t1 p = Some row.
Proof.
  unfold sort_outputs. intros [= <- <-].
  pose proof (stable_sort_perm (enumerate_from 0 t1)) as Hp. set (s := stable_sort (enumerate_from 0 t1)) in *.
  repeat split.
  - rewrite map_length, (Permutation_length Hp), length_enumerate. reflexivity.
  - rewrite map_length, (Permutation_length Hp), length_enumerate. reflexivity.
  - rewrite <- (map_fst_enumerate t1 0). apply Permutation_map. exact Hp.
  - intros k p row Hk Hr.
    destruct (nth_error s k) as [[p' r']|] eqn:E.
    + rewrite (map_nth_error fst _ _ E) in Hk. rewrite (map_nth_error snd _ _ E) in Hr. simpl in *.
      injection Hk as <-. injection Hr as <-.
      apply nth_error_In in E. eapply Permutation_in in E; [|exact Hp].
      apply enumerate_from_spec in E as [_ E]. rewrite Nat.sub_0_r in E. exact E.
    + exfalso. apply nth_error_None in E.
      assert (k < length (map fst s))%nat by (apply nth_error_Some; congruence). rewrite map_length in *. lia.
Qed.

(* ---- _delete_duplicate_outputs ---- *)
Lemma row_eqb_eq a b : row_eqb a b = true <-> a = b.
Proof. unfold row_eqb. apply all_eqb_eq. intros x y. apply Bool.eqb_true_iff. Qed.

Lemma nth_error_rev_last {A} (l : list A) : nth_error (rev l) (length l - 1) = hd_error l.
Proof.
  destruct l as [|x l]; [reflexivity|]. simpl. rewrite Nat.sub_0_r.
  rewrite nth_error_app2 by (rewrite rev_length; lia). rewrite rev_length, Nat.sub_diag. reflexivity.
Qed.

Lemma dedup_loop_spec : forall rest prev new_rev map_rev t3 mp,
  dedup_loop prev rest new_rev map_rev = (t3, mp) -> hd_error new_rev = Some prev ->
  exists t3' mp', t3 = rev new_rev ++ t3' /\ mp = rev map_rev ++ mp' /\
    Forall2 (fun j row => nth_error t3 j = Some row) mp' rest.
Proof.
  induction rest as [|row rest IH]; intros prev new_rev map_rev t3 mp H Hhd; simpl in H.
  - injection H as <- <-. exists [], []. rewrite !app_nil_r. repeat split; constructor.
  - set (new_rev' := if row_eqb row prev then new_rev else row :: new_rev) in *.
    assert (hd_error new_rev' = Some row) as Hhd'.
    { unfold new_rev'. destruct (row_eqb row prev) eqn:E; [|reflexivity]. apply row_eqb_eq in E; subst; exact Hhd. }
    destruct (IH _ _ _ _ _ H Hhd') as (t3' & mp' & E3 & Em & Hf).
    assert (exists t3'', t3 = rev new_rev ++ t3'') as (t3'' & E3').
    { unfold new_rev' in E3. destruct (row_eqb row prev); [eauto|]. simpl in E3. rewrite <- app_assoc in E3. eauto. }
    exists t3'', ((length new_rev' - 1)%nat :: mp'). split; [exact E3'|]. split.
    + rewrite Em. simpl. rewrite <- app_assoc. reflexivity.
    + constructor; [|exact Hf]. rewrite E3. rewrite nth_error_app1.
      * rewrite nth_error_rev_last. exact Hhd'.
      * rewrite rev_length. destruct new_rev'; [discriminate|simpl; lia].
Qed.

Lemma delete_duplicate_outputs_spec t2 t3 mp :
  delete_duplicate_outputs t2 = Ok (t3, mp) -> Forall2 (fun j row => nth_error t3 j = Some row) mp t2.
Proof.
  destruct t2 as [|row0 rest]; [discriminate|]. unfold delete_duplicate_outputs. intros H. injection H as E.
  destruct (dedup_loop_spec _ _ _ _ _ _ E eq_refl) as (t3' & mp' & -> & -> & Hf). simpl.
  constructor; [reflexivity|exact Hf].
Qed.

(* ---- the whole of NormalizationInfo(truth_table) ---- *)
Theorem normalize_spec t ni :
  normalize t = Ok ni ->
  Forall (fun row => row <> []) t /\
  negations ni = map (hd false) t /\
  length (permutation ni) = length t /\ Permutation (permutation ni) (seq 0 (length t)) /\
  exists t2, length t2 = length t /\
    (forall k p row, nth_error (permutation ni) k = Some p -> nth_error t2 k = Some row ->
                     nth_error (map negated_row t) p = Some row) /\
    Forall2 (fun j row => nth_error (norm_table ni) j = Some row) (mapping ni) t2.
Proof.
  unfold normalize. destruct (normalize_outputs t) as [[negs t1]|] eqn:E1; cbv beta iota delta [bind fst snd]; [|discriminate].
  destruct (sort_outputs t1) as [perm t2] eqn:E2.
  destruct (delete_duplicate_outputs t2) as [[t3 mp]|] eqn:E3; cbv beta iota delta [bind fst snd]; [|discriminate].
  intros [= <-]. simpl.
  destruct (normalize_outputs_spec _ _ _ E1) as (-> & -> & Hne).
  destruct (sort_outputs_spec _ _ _ E2) as (H1 & H2 & H3 & H4). rewrite map_length in *.
  split; [exact Hne|]. split; [reflexivity|]. split; [exact H1|]. split; [exact H3|].
  exists t2. split; [exact H2|]. split; [exact H4|]. apply delete_duplicate_outputs_spec; exact E3.
Qed.

(* ---- the rows of the normalised table are (negation-normalised) rows of the argument ---- *)
Lemma dedup_loop_rows : forall rest prev new_rev map_rev t3 mp,
  dedup_loop prev rest new_rev map_rev = (t3, mp) ->
  forall row, In row t3 -> In row new_rev \/ In row rest.
Proof.
  induction rest as [|r rest IH]; intros prev new_rev map_rev t3 mp H row Hin; simpl in H.
  - injection H as <- _. left. apply in_rev; exact Hin.
  - destruct (IH _ _ _ _ _ H row Hin) as [H1|H1]; [|right; right; exact H1].
    destruct (row_eqb r prev); [left; exact H1|]. destruct H1 as [<-|H1]; [right; left; reflexivity|left; exact H1].
Qed.

Lemma delete_duplicate_outputs_rows t2 t3 mp :
  delete_duplicate_outputs t2 = Ok (t3, mp) -> forall row, In row t3 -> In row t2.
Proof.
  destruct t2 as [|row0 rest]; [discriminate|]. unfold delete_duplicate_outputs. intros H. injection H as E.
  intros row Hin. destruct (dedup_loop_rows _ _ _ _ _ _ E row Hin) as [[<-|[]]|H]; [left; reflexivity|right; exact H].
Qed.

Theorem normalize_rows t ni :
  normalize t = Ok ni -> forall row, In row (norm_table ni) -> exists r, In r t /\ r <> [] /\ row = negated_row r.
Proof.
  unfold normalize. destruct (normalize_outputs t) as [[negs t1]|] eqn:E1; cbv beta iota delta [bind fst snd]; [|discriminate].
  destruct (sort_outputs t1) as [perm t2] eqn:E2.
  destruct (delete_duplicate_outputs t2) as [[t3 mp]|] eqn:E3; cbv beta iota delta [bind fst snd]; [|discriminate].
  intros [= <-] row Hin. simpl in Hin.
  apply (delete_duplicate_outputs_rows _ _ _ E3) in Hin.
  destruct (normalize_outputs_spec _ _ _ E1) as (_ & -> & Hne).
  destruct (sort_outputs_spec _ _ _ E2) as (H1 & H2 & _ & H4).
  apply In_nth_error in Hin as (k & Hk).
  assert (k < length perm)%nat as Hkl by (rewrite H1, <- H2; apply nth_error_Some; congruence).
  destruct (nth_error perm k) as [p|] eqn:Ep; [|apply nth_error_None in Ep; lia].
  specialize (H4 _ _ _ Ep Hk). apply nth_error_In in H4. apply in_map_iff in H4 as (r & <- & Hr).
  exists r. split; [exact Hr|]. split; [|reflexivity]. rewrite Forall_forall in Hne. apply Hne; exact Hr.
Qed.
