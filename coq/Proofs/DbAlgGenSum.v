(* T23 tie for C17, summary: the methods of the class CircuitsDatabase that translator/t23_db_alg.py regenerates
   from cirbo/circuits_db/db.py (Generated/DbAlgGen.v) equal the hand model Model/Db.v the C17 theorems are about.
   db_obj, NotOpened, to_db2: Proofs/DbAlgGenDefs.v. *)
Require Import Cirbo.Model.Base Cirbo.Model.Gate Cirbo.Model.Circuit Cirbo.Model.Eval Cirbo.Model.BitIO Cirbo.Model.DictIO.
Require Import Cirbo.Model.Codec Cirbo.Model.Db.
Require Import Cirbo.Generated.CodecAlgGen Cirbo.Generated.NormAlgGen Cirbo.Generated.DbAlgGen.
Require Import Cirbo.Proofs.DbAlgGenDefs Cirbo.Proofs.DbAlgGen Cirbo.Proofs.DbAlgGenModel.

Definition database_regenerated : Prop :=
  (* a database that is not opened: CircuitDatabaseNotOpenedError, where the source raises it *)
  (forall l, gen_CircuitsDatabase_get_by_label (db_obj None) l = Err NotOpened) /\
  (forall t, gen_CircuitsDatabase_get_by_raw_truth_table (db_obj None) t = do _ <- normalize t; Err NotOpened) /\
  (forall fuel c l, gen_CircuitsDatabase_add_circuit fuel (db_obj None) c l = Err NotOpened) /\
  (forall tm excl, gen_CircuitsDatabase_get_by_raw_truth_table_model (db_obj None) tm excl
     = do _ <- normalize (substitute (defined_table tm) (undefined_positions tm)
                                      (repeat false (length (undefined_positions tm))));
       Err NotOpened) /\
  (forall s, gen_CircuitsDatabase_save (db_obj None) s = Err NotOpened) /\
  (* an opened database with dictionary d: the hand model on d, for all arguments *)
  (forall d l, gen_CircuitsDatabase_get_by_label (db_obj (Some d)) l = get_by_label d l) /\
  (forall d t, to_db2 (gen_CircuitsDatabase_get_by_raw_truth_table (db_obj (Some d)) t) = get_by_raw_truth_table d t) /\
  (forall d tm excl, to_db2 (gen_CircuitsDatabase_get_by_raw_truth_table_model (db_obj (Some d)) tm excl)
     = get_by_raw_truth_table_model d tm excl) /\
  (* add_circuit with an explicit label (fuel of the encoder's `while pending` loop: the number of non-input gates) *)
  (forall d c l, to_db2 (gen_CircuitsDatabase_add_circuit (length (non_input_labels c)) (db_obj (Some d)) c (Some l))
     = dbdo d' <- add_circuit d c l; DbOk (db_obj (Some d'))) /\
  (* ... and with label=None: the label of the circuit's truth table, which must be its own normal form *)
  (forall fuel d c, gen_CircuitsDatabase_add_circuit fuel (db_obj (Some d)) c None
     = do t <- py_circuit_truth_table c;
       do ni <- normalize t;
       if negb (all_eqb (all_eqb Bool.eqb) (norm_table ni) t) then Err BadDefinitionError
       else gen_CircuitsDatabase_add_circuit fuel (db_obj (Some d)) c (Some (truth_table_to_label (norm_table ni)))) /\
  (forall d s, gen_CircuitsDatabase_save (db_obj (Some d)) s = do b <- save d; Ok (s ++ b)).

Lemma database_regenerated_holds : database_regenerated.
Proof.
  unfold database_regenerated. repeat match goal with |- _ /\ _ => split end.
  - exact gen_get_by_label_closed.
  - exact gen_get_by_raw_truth_table_closed.
  - exact gen_add_circuit_closed.
  - exact gen_get_by_raw_truth_table_model_closed.
  - exact gen_save_closed.
  - exact gen_get_by_label_eq.
  - exact gen_get_by_raw_truth_table_eq.
  - exact gen_get_by_raw_truth_table_model_eq.
  - exact gen_add_circuit_eq.
  - exact gen_add_circuit_auto.
  - exact gen_save_eq.
Qed.
