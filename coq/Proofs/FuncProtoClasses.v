(* C12: the class-specific code of TruthTable (table based) and PyFunction (callable based). *)
From Coq Require Import Permutation Sorted.
Require Import Cirbo.Model.Base Cirbo.Model.Gate Cirbo.Model.Circuit Cirbo.Model.Eval
        Cirbo.Model.FuncProto Cirbo.Proofs.FuncProtoEnum Cirbo.Proofs.FuncProtoLoops
        Cirbo.Proofs.FuncProtoQueries.

(* ------------------------------------------------------------------ *)
(* get_bit_value on a canonical index is the input bit *)

Lemma testbit_high b k r : r < 2 ^ k -> Nat.testbit (Nat.b2n b * 2 ^ k + r) k = b.
Proof.
  intros Hr. apply Nat.b2n_inj. rewrite Nat.testbit_spec'.
  assert (H2 : 2 ^ k <> 0) by (apply Nat.pow_nonzero; lia).
  rewrite Nat.div_add_l by exact H2. rewrite (Nat.div_small r) by exact Hr.
  rewrite Nat.add_0_r. destruct b; reflexivity.
Qed.

Lemma testbit_low b k r p : p < k -> Nat.testbit (Nat.b2n b * 2 ^ k + r) p = Nat.testbit r p.
Proof.
  intros Hp. apply Nat.b2n_inj. rewrite !Nat.testbit_spec'.
  assert (H2 : 2 ^ p <> 0) by (apply Nat.pow_nonzero; lia).
  replace k with (S (k - p - 1) + p) by lia. rewrite Nat.pow_add_r, Nat.pow_succ_r'.
  rewrite Nat.mul_assoc, Nat.div_add_l by exact H2.
  rewrite Nat.add_comm.
  replace (Nat.b2n b * (2 * 2 ^ (k - p - 1))) with (Nat.b2n b * 2 ^ (k - p - 1) * 2) by ring.
  apply Nat.mod_add. lia.
Qed.

Lemma testbit_index_of : forall (x : bvec) i, i < length x ->
  Nat.testbit (index_of x) (length x - i - 1) = nth i x false.
Proof.
  induction x as [|b x IH]; intros i Hi; simpl in Hi; [lia|].
  rewrite index_of_cons. cbn [length].
  replace (if b then 2 ^ length x else 0) with (Nat.b2n b * 2 ^ length x) by (destruct b; simpl; lia).
  destruct i as [|i].
  - replace (S (length x) - 0 - 1) with (length x) by lia. simpl nth.
    apply testbit_high. apply index_of_lt.
  - replace (S (length x) - S i - 1) with (length x - i - 1) by lia. simpl nth.
    rewrite testbit_low by lia. apply IH. lia.
Qed.

Lemma testbit_index_of_n n (x : bvec) i : length x = n -> i < n ->
  Nat.testbit (index_of x) (n - i - 1) = nth i x false.
Proof. intros <- Hi. apply testbit_index_of; exact Hi. Qed.

Lemma combine_map_same {A B C} (g : A -> B) (h : A -> C) (l : list A) :
  combine (map g l) (map h l) = map (fun a => (g a, h a)) l.
Proof. induction l as [|a l IH]; simpl; [reflexivity|]. rewrite IH; reflexivity. Qed.

(* ------------------------------------------------------------------ *)
Section TruthTable.
  Variables (t : ttab) (f : bvec -> bvec) (n m : nat).
  Hypothesis Har : arity_ok f n m.
  Hypothesis Htt : tt_represents t f n m.

  Lemma tt_shape : tt_n t = n /\ tt_table t = tt_of f n m.
  Proof.
    destruct Htt as [Hm Hmk]. rewrite tt_of_make in Hmk by exact Hm. injection Hmk as <-. split; reflexivity.
  Qed.

  Lemma tt_row j : j < m -> nth_res (tt_table t) j = Ok (map (out f j) (all_bool_vectors n)).
  Proof.
    intros Hj. rewrite (proj2 tt_shape). unfold tt_of.
    rewrite (nth_res_ok _ j []) by (rewrite map_length, seq_length; exact Hj).
    rewrite nth_map_seq by exact Hj. reflexivity.
  Qed.

  Lemma tt_len : length (tt_table t) = m.
  Proof. rewrite (proj2 tt_shape). unfold tt_of. rewrite map_length, seq_length. reflexivity. Qed.

  (* the Boolean answer of is_constant_at as a function of j *)
  Definition tt_const_b (j : nat) : bool :=
    let row := map (out f j) (all_bool_vectors n) in forallb (Bool.eqb (nth 0 row false)) row.

  Lemma tt_const_b_spec j : tt_const_b j = true <-> constant_at f n j.
  Proof.
    unfold tt_const_b.
    assert (H0 : nth 0 (map (out f j) (all_bool_vectors n)) false = out f j (repeat false n)).
    { destruct (abv_nonempty n) as [rest E]. rewrite E. reflexivity. }
    rewrite H0, forallb_forall. split.
    - intros H x y Hx Hy.
      assert (Hc : forall z, length z = n -> out f j (repeat false n) = out f j z).
      { intros z Hz. apply Bool.eqb_prop. apply H. apply in_map. apply abv_In; exact Hz. }
      rewrite <- (Hc x Hx), <- (Hc y Hy). reflexivity.
    - intros H v Hv. apply in_map_iff in Hv. destruct Hv as (x & <- & Hx).
      apply Bool.eqb_true_iff. apply H; [apply repeat_length|apply abv_length; exact Hx].
  Qed.

  Lemma tt_is_constant_at_ok j : j < m -> tt_is_constant_at t j = Ok (tt_const_b j).
  Proof.
    intros Hj. unfold tt_is_constant_at. rewrite tt_row by exact Hj. simpl.
    rewrite (nth_res_ok _ 0 false).
    - reflexivity.
    - rewrite map_length, abv_count. apply Nat.neq_0_lt_0, Nat.pow_nonzero. lia.
  Qed.

  Lemma tt_is_constant_at_spec j : j < m ->
    exists b, tt_is_constant_at t j = Ok b /\ (b = true <-> constant_at f n j).
  Proof. intros Hj. eexists; split; [apply tt_is_constant_at_ok; exact Hj|apply tt_const_b_spec]. Qed.

  Lemma tt_is_constant_spec :
    exists b, tt_is_constant t = Ok b /\ (b = true <-> constant f n m).
  Proof.
    unfold tt_is_constant. rewrite tt_len.
    rewrite (forallM_pure _ tt_const_b) by (intros j Hj; apply in_seq in Hj; apply tt_is_constant_at_ok; lia).
    eexists; split; [reflexivity|]. rewrite forallb_forall. unfold constant. split.
    - intros H j Hj. apply tt_const_b_spec, H, in_seq. lia.
    - intros H j Hj. apply in_seq in Hj. apply tt_const_b_spec, H. lia.
  Qed.

  Lemma tt_is_monotone_at_ok j inv : j < m ->
    tt_is_monotone_at t j inv = Ok (mono_b inv (map (out f j) (all_bool_vectors n))).
  Proof.
    intros Hj. unfold tt_is_monotone_at. rewrite tt_row by exact Hj. simpl.
    destruct (ones_started_pure (fun v : bool => Ok v) (fun v => v) inv
                                (map (out f j) (all_bool_vectors n))) as [_ H]; [reflexivity|].
    rewrite H, map_id. reflexivity.
  Qed.

  Lemma tt_is_monotone_at_spec j inv : j < m ->
    exists b, tt_is_monotone_at t j inv = Ok b /\ (b = true <-> monotone_at f n j inv).
  Proof.
    intros Hj. eexists; split; [apply tt_is_monotone_at_ok; exact Hj|].
    rewrite mono_b_sorted, monotone_at_sorted. reflexivity.
  Qed.

  Lemma tt_is_monotone_spec inv :
    exists b, tt_is_monotone t inv = Ok b /\ (b = true <-> monotone f n m inv).
  Proof.
    unfold tt_is_monotone. rewrite tt_len.
    rewrite (forallM_pure _ (fun j => mono_b inv (map (out f j) (all_bool_vectors n))))
      by (intros j Hj; apply in_seq in Hj; apply tt_is_monotone_at_ok; lia).
    eexists; split; [reflexivity|]. rewrite forallb_forall. unfold monotone. split.
    - intros H j Hj. apply monotone_at_sorted, mono_b_sorted, H, in_seq. lia.
    - intros H j Hj. apply in_seq in Hj. apply mono_b_sorted, monotone_at_sorted, H. lia.
  Qed.

  Lemma tt_equal_to_input_spec neg j i : j < m -> i < n ->
    exists b, tt_equal_to_input neg t j i = Ok b /\
              (b = true <-> forall x, length x = n -> out f j x = xorb neg (nth i x false)).
  Proof.
    intros Hj Hi. unfold tt_equal_to_input. rewrite tt_row by exact Hj. simpl.
    rewrite map_length, abv_count, <- abv_index, combine_map_same, (proj1 tt_shape).
    rewrite (forallM_pure _ (fun p => Bool.eqb (snd p) (xorb neg (Nat.testbit (fst p) (n - i - 1))))).
    - eexists; split; [reflexivity|]. rewrite forallb_forall. split.
      + intros H x Hx. specialize (H (index_of x, out f j x)). simpl in H.
        rewrite (testbit_index_of_n n x i Hx Hi) in H.
        apply Bool.eqb_prop, H. apply in_map_iff. exists x. split; [reflexivity|apply abv_In; exact Hx].
      + intros H p Hp. apply in_map_iff in Hp. destruct Hp as (x & <- & Hx). simpl.
        apply abv_length in Hx. rewrite (testbit_index_of_n n x i Hx Hi).
        apply Bool.eqb_true_iff, H, Hx.
    - intros p _. unfold get_bit_value. destruct (Nat.ltb_spec n (i + 1)); [lia|]. reflexivity.
  Qed.

  Lemma tt_truth_table_ok : tt_table t = tt_of f n m.
  Proof. apply tt_shape. Qed.
End TruthTable.

(* ------------------------------------------------------------------ *)
Section PyFunction.
  Variables (p : pyfun) (f : bvec -> bvec) (n m : nat).
  Hypothesis Har : arity_ok f n m.
  Hypothesis Hpy : py_computes p f n m.

  Lemma py_is_monotone_spec inv :
    exists b, py_is_monotone p inv = Ok b /\ (b = true <-> monotone f n m inv).
  Proof.
    destruct Hpy as (Hn & Hm & Hf). unfold py_is_monotone. rewrite Hn.
    destruct (abv_nonempty n) as [rest E].
    assert (Hrest : forall x, In x rest -> length x = n).
    { intros x Hx. apply abv_length. rewrite E. right; exact Hx. }
    rewrite E. rewrite Hf by apply repeat_length. simpl.
    rewrite (py_mono_pure _ f) by (intros x Hx; apply Hf, Hrest, Hx).
    eexists; split; [reflexivity|].
    rewrite (chain_rows inv m).
    - unfold monotone. split; intros H j Hj; specialize (H j Hj).
      + apply monotone_at_sorted. rewrite E. simpl map.
        apply (chainP_sorted (ble inv) (ble_trans inv)). rewrite map_map in H. exact H.
      + apply monotone_at_sorted in H. rewrite E in H. simpl map in H.
        apply (chainP_sorted (ble inv) (ble_trans inv)) in H. rewrite map_map. exact H.
    - apply Har, repeat_length.
    - intros r Hr. apply in_map_iff in Hr. destruct Hr as (x & <- & Hx). apply Har, Hrest, Hx.
  Qed.

  Lemma py_is_monotone_at_spec j inv : j < m ->
    exists b, py_is_monotone_at p j inv = Ok b /\ (b = true <-> monotone_at f n j inv).
  Proof.
    intros Hj. unfold py_is_monotone_at. rewrite (proj1 Hpy).
    apply (ones_started_at_spec (py_rep p) f n m); [apply py_rep_computes; assumption|exact Hj].
  Qed.
End PyFunction.
