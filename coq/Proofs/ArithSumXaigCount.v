(* C07, part 9: the documented gate-count bound of the XAIG bit counter, gates <= 4.5 n - 2 m,
   for ALL n and all hosts.  After the initial pairing there is at most one solo bit on every
   level; with the potential 8 * #pairs + 4 * #solo every level pays for its gates and for 2
   units per emitted result bit:
     MDFA (8 gates): two pairs -> one pair on the next level;  simplified MDFA (6 gates, no solo
     yet): additionally creates the solo bit;  Stockmeyer block (4) / lone pair (1): one pair ->
     one solo bit on the next level. *)
Require Import Cirbo.Model.Base Cirbo.Model.Gate Cirbo.Model.Den Cirbo.Model.Circuit
  Cirbo.Model.Eval Cirbo.Model.Sem Cirbo.Model.Builder.
Require Import Cirbo.Generated.ArithTables Cirbo.Generated.ArithCells.
Require Import Cirbo.Model.ArithSub Cirbo.Model.ArithSum2 Cirbo.Model.ArithSumN.
Require Import Cirbo.Proofs.DictFacts Cirbo.Proofs.BuilderFacts Cirbo.Proofs.ArithFacts
  Cirbo.Proofs.ArithSumCells Cirbo.Proofs.ArithSumNFacts.

Lemma pair_up_count fresh solo : forall xxy s r s',
  run fresh (pair_up solo xxy) s = Ok (r, s') ->
  exists g, adds t_xaig (bc s) (bc s') g /\ length (snd r) = (length xxy + g)%nat /\
            length solo = (length (fst r) + 2 * g)%nat /\ (length (fst r) <= 1)%nat.
Proof.
  induction solo as [|a|a b rest IH] using list_ind2; intros xxy s r s' H.
  - apply run_ret_inv in H as (-> & ->). exists 0%nat. simpl. repeat split; [apply adds_refl|lia..].
  - apply run_ret_inv in H as (-> & ->). exists 0%nat. simpl. repeat split; [apply adds_refl|lia..].
  - cbn [pair_up] in H. apply gate_tt_bind2 in H as (xy & s1 & H & _ & _ & _ & G1).
    apply IH in H as (g & A & L1 & L2 & L3). exists (S g). split.
    + eapply adds_eq; [eapply adds_trans; [eapply (adds_one t_xaig); [exact G1|reflexivity]|exact A]|lia].
    + simpl length in *. lia.
Qed.

Lemma mdfa_loop_count fresh xxy : forall solo nx s r s',
  run fresh (mdfa_loop xxy solo nx) s = Ok (r, s') -> (length solo <= 1)%nat ->
  exists g, adds t_xaig (bc s) (bc s') g /\
    (length (snd (fst r)) <= 1)%nat /\ (length (fst (fst r)) <= 1)%nat /\
    (g + 8 * length (snd r) + 8 * length (fst (fst r)) + 2 * length (snd (fst r)) =
     8 * length nx + 8 * length xxy + 2 * length solo)%nat.
Proof.
  induction xxy as [|p|[x1 xy1] [x2 xy2] rest IH] using list_ind2; intros solo nx s r s' H Ls.
  - apply run_ret_inv in H as (-> & ->). exists 0%nat. simpl. repeat split; [apply adds_refl|lia..].
  - destruct p. apply run_ret_inv in H as (-> & ->). exists 0%nat. simpl. repeat split; [apply adds_refl|lia..].
  - cbn [mdfa_loop] in H. destruct solo as [|z solo'].
    + apply run_bind_inv in H as (r1 & s1 & Hcell & H).
      apply run_bind_inv in H as ([[z' a] ab] & s2 & Hun & H).
      apply unpack3_inv in Hun as (-> & ->). cbn [fst snd] in *.
      apply add_simplified_mdfa_cell in Hcell as (z0 & a0 & ab0 & E & _ & A1 & _).
      apply IH in H as (g & A & L1 & L2 & L3); [|simpl; lia].
      exists (6 + g)%nat. split; [eapply adds_trans; eassumption|]. simpl length in *. lia.
    + apply run_bind_inv in H as (r1 & s1 & Hcell & H).
      apply run_bind_inv in H as ([[z' a] ab] & s2 & Hun & H).
      apply unpack3_inv in Hun as (-> & ->). cbn [fst snd] in *.
      apply add_mdfa_cell in Hcell as (z0 & a0 & ab0 & E & _ & A1 & _).
      apply IH in H as (g & A & L1 & L2 & L3); [|simpl in *; lia].
      exists (8 + g)%nat. split; [eapply adds_trans; eassumption|]. simpl length in *. lia.
Qed.

Lemma last_pair_count fresh xxy solo s r s' :
  run fresh (last_pair xxy solo) s = Ok (r, s') -> (length xxy <= 1)%nat -> (length solo <= 1)%nat ->
  exists g, adds t_xaig (bc s) (bc s') g /\
    ((xxy = [] /\ g = 0%nat /\ fst r = solo /\ snd r = []) \/
     (length xxy = 1%nat /\ length (snd r) = 1%nat /\ length (fst r) = 1%nat /\
      (g = 1 + 3 * length solo)%nat)).
Proof.
  intros H Lx Ls. unfold last_pair in H. destruct xxy as [|[x xy] [|p rest]].
  - apply run_ret_inv in H as (-> & ->). exists 0%nat. split; [apply adds_refl|]. left. auto.
  - destruct solo as [|z solo'].
    + apply gate_tt_bind2 in H as (g & s1 & H & _ & _ & _ & G1). apply run_ret_inv in H as (-> & ->).
      exists 1%nat. split; [eapply (adds_one t_xaig); [exact G1|reflexivity]|]. right. simpl. lia.
    + apply run_bind_inv in H as (r1 & s1 & Hcell & H).
      apply run_bind_inv in H as (wy & s2 & Hun & H).
      apply unpack2_inv in Hun as (-> & ->). apply run_ret_inv in H as (-> & ->).
      apply add_stockmeyer_block_cell in Hcell as (w0 & w1 & E & _ & A1 & _).
      exists 4%nat. split; [exact A1|]. right. simpl in *. lia.
  - simpl in Lx. lia.
Qed.

Lemma xaig_level_count fresh solo xxy s r s' :
  run fresh (xaig_level solo xxy) s = Ok (r, s') -> (length solo <= 1)%nat ->
  exists g, adds t_xaig (bc s) (bc s') g /\ (length (snd (fst r)) <= 1)%nat /\
    (g + 2 + 8 * length (snd r) + 4 * length (snd (fst r)) <= 8 * length xxy + 4 * length solo)%nat.
Proof.
  intros H Ls. unfold xaig_level in H.
  apply run_bind_inv in H as ([[xxy1 solo1] nxxy] & s1 & Hm & H).
  apply run_bind_inv in H as ([solo2 nsolo] & s2 & Hl & H).
  destruct solo2 as [|top rest]; [discriminate|].
  apply run_bind_inv in H as (r3 & s3 & Hs & H). apply run_ret_inv in H as (-> & ->).
  apply mdfa_loop_count in Hm as (g1 & A1 & L1 & L2 & L3); [|exact Ls]. cbn [fst snd] in *.
  apply last_pair_count in Hl as (g2 & A2 & Hcase); [|exact L2|exact L1]. cbn [fst snd] in Hcase.
  apply (solo_loop_spec _ _ _ _ _ add_sum3_cell add_sum2_cell) in Hs as (_ & (k3 & k2 & A3 & K2 & L & L') & _).
  exists (g1 + g2 + (5 * k3 + 2 * k2))%nat. split; [eapply adds_trans; [eapply adds_trans; eassumption|exact A3]|].
  simpl length in L3. destruct Hcase as [(-> & -> & E1 & ->)|(E1 & E2 & E3 & E4)].
  - subst solo1. simpl length in *. assert (rest = []) as -> by (destruct rest; [reflexivity|simpl in L1; lia]).
    simpl length in *. assert (k3 = 0 /\ k2 = 0)%nat as (-> & ->) by lia. lia.
  - simpl length in E3. assert (rest = []) as -> by (destruct rest; [reflexivity|simpl in E3; lia]).
    simpl length in *. assert (k3 = 0 /\ k2 = 0)%nat as (-> & ->) by lia.
    rewrite E1 in *. lia.
Qed.

Lemma xaig_loop_count fresh fuel : forall solo xxy s rs s',
  run fresh (xaig_loop fuel solo xxy) s = Ok (rs, s') -> (length solo <= 1)%nat ->
  exists g, adds t_xaig (bc s) (bc s') g /\ (g + 2 * length rs <= 8 * length xxy + 4 * length solo)%nat.
Proof.
  assert (Hnil : forall s rs s', run fresh (Ret (@nil label)) s = Ok (rs, s') ->
    exists g, adds t_xaig (bc s) (bc s') g /\ (g + 2 * length rs <= 0)%nat).
  { intros s rs s' H. apply run_ret_inv in H as (-> & ->). exists 0%nat. split; [apply adds_refl|simpl; lia]. }
  induction fuel as [|f IH]; intros solo xxy s rs s' H Ls.
  - destruct solo, xxy; try discriminate. destruct (Hnil _ _ _ H) as (g & A & B). exists g. split; [exact A|simpl; lia].
  - assert (Hstep : run fresh (bdo st <- xaig_level solo xxy;
                               let '(r, next_solo, next_xxy) := st in
                               bdo rs <- xaig_loop f next_solo next_xxy; Ret (r :: rs)) s = Ok (rs, s') ->
      exists g, adds t_xaig (bc s) (bc s') g /\ (g + 2 * length rs <= 8 * length xxy + 4 * length solo)%nat).
    { clear H. intros H.
      apply run_bind_inv in H as ([[r ns] nx] & s1 & Hl & H).
      apply run_bind_inv in H as (rs1 & s2 & Hrec & H). apply run_ret_inv in H as (-> & ->).
      apply xaig_level_count in Hl as (g1 & A1 & L1 & B1); [|exact Ls]. cbn [fst snd] in *.
      apply IH in Hrec as (g2 & A2 & B2); [|exact L1].
      exists (g1 + g2)%nat. split; [eapply adds_trans; eassumption|]. simpl length. lia. }
    destruct solo, xxy; [|apply Hstep, H..].
    destruct (Hnil _ _ _ H) as (g & A & B). exists g. split; [exact A|simpl; lia].
Qed.

(* gates <= 4.5 n - 2 m *)
Theorem add_sum_n_bits_xaig_count fresh xs s rs s' :
  run fresh (add_sum_n_bits_xaig xs) s = Ok (rs, s') ->
  exists g, adds t_xaig (bc s) (bc s') g /\ (2 * g + 4 * length rs <= 9 * length xs)%nat.
Proof.
  unfold add_sum_n_bits_xaig. intros H.
  apply run_bind_inv in H as (st & s1 & Hp & H).
  apply pair_up_count in Hp as (g1 & A1 & L1 & L2 & L3). rewrite rev_length in L2. simpl length in L1.
  apply xaig_loop_count in H as (g2 & A2 & B2); [|exact L3].
  exists (g1 + g2)%nat. split; [eapply adds_trans; eassumption|]. lia.
Qed.
