(* C08: the structural facts computed by vm_compute for small widths on the bare circuit with the harness's
   naming function (ArithMulStructA/B/C.v), assembled.  They predate the all-width termination theorems
   (ArithMulTotal*.v, ArithSquareTotal.v, Properties/C08.v `..._total_exact`) and are no longer part of the
   property file: keeping them out of its dependency cone spares the thorough tier their re-evaluation. *)
Require Import Cirbo.Model.Base Cirbo.Model.Gate Cirbo.Model.Den Cirbo.Model.Circuit
  Cirbo.Model.Eval Cirbo.Model.Sem Cirbo.Model.Builder.
Require Import Cirbo.Model.ArithSub Cirbo.Model.ArithSum2 Cirbo.Model.ArithSumN Cirbo.Model.ArithSumW
  Cirbo.Model.ArithGen Cirbo.Model.SumCases Cirbo.Model.ArithMul Cirbo.Model.ArithSquare Cirbo.Model.MulCases.
Require Import Cirbo.Proofs.ArithSumStruct Cirbo.Proofs.ArithMulPow2 Cirbo.Proofs.ArithSquareFacts
  Cirbo.Proofs.ArithMulFinal Cirbo.Proofs.ArithMulStruct
  Cirbo.Proofs.ArithMulStructA Cirbo.Proofs.ArithMulStructB Cirbo.Proofs.ArithMulStructC.

Theorem mul_struct_ok_meaning f n m : mul_struct_ok f (n, m) = true ->
  exists c rs s',
    bare (n + m) = Ok c /\
    run hex_label (run_mulfn f (firstn n (in_labels (n + m) 0)) (skipn n (in_labels (n + m) 0)) false) (mkB c 1)
      = Ok (rs, s') /\
    length rs = mul_len n m /\ has_gate (bc s') "" = false /\ has_gate (bc s') PLACEHOLDER_STR = false.
Proof.
  unfold mul_struct_ok. destruct (bare (n + m)) as [c|]; [|discriminate].
  destruct (run hex_label _ (mkB c 1)) as [[rs s']|] eqn:E; [|discriminate]. intros H.
  apply andb_true_iff in H as (H & H3). apply andb_true_iff in H as (H1 & H2).
  exists c, rs, s'. split; [reflexivity|]. split; [exact E|]. split; [apply Nat.eqb_eq, H1|].
  split; [apply negb_true_iff, H2|apply negb_true_iff, H3].
Qed.

Theorem mul_struct_upto6 : forallb (fun f => forallb (mul_struct_ok f) (pairs_upto 6)) all_mul_fns = true.
Proof.
  unfold all_mul_fns. cbn [forallb].
  pose proof mul_struct_karatsuba_upto6 as HK. apply andb_true_iff in HK as (HK1 & HK2).
  rewrite mul_struct_default_upto6, mul_struct_alter_upto6, mul_struct_dadda_upto6, mul_struct_wallace_upto6,
    mul_struct_pow2_m1_upto6, HK1, HK2. reflexivity.
Qed.

Theorem square_struct_ok_meaning t n : square_struct_ok t n = true ->
  exists c rs s',
    bare n = Ok c /\ run hex_label (process_square t (in_labels n 0) false) (mkB c 1) = Ok (rs, s') /\
    length rs = sq_len n /\ has_gate (bc s') "" = false.
Proof.
  unfold square_struct_ok. destruct (bare n) as [c|]; [|discriminate].
  destruct (run hex_label _ (mkB c 1)) as [[rs s']|] eqn:E; [|discriminate]. intros H.
  apply andb_true_iff in H as (H1 & H2).
  exists c, rs, s'. split; [reflexivity|]. split; [exact E|]. split; [apply Nat.eqb_eq, H1|apply negb_true_iff, H2].
Qed.

Theorem square_struct_upto8 :
  forallb (square_struct_ok SDefault) (seq 1 8) && forallb (square_struct_ok SPow2m1) (seq 1 8) = true.
Proof. exact ArithMulStructC.square_struct_upto8. Qed.

