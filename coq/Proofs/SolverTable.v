(* C04: the truth table with don't-cares that minimize_subcircuits hands to the SAT-based
   synthesiser is, on every care row, the function of the cone output over the cut leaves
   (in the order of _Subcircuit.inputs = reversed simulation order), and DontCare elsewhere. *)
Require Import Cirbo.Model.Base Cirbo.Model.Gate Cirbo.Model.Den Cirbo.Model.Circuit
        Cirbo.Model.Eval Cirbo.Model.ConeSem Cirbo.Model.PatternSim.
Require Import Cirbo.Generated.PatternOps.
Require Import Cirbo.Proofs.DictFacts Cirbo.Proofs.PatternBits Cirbo.Proofs.ConeSim
        Cirbo.Proofs.ConeFacts Cirbo.Proofs.ValidatorFacts Cirbo.Proofs.CareFacts.

Lemma abv_length n : length (all_bool_vectors n) = (2 ^ n)%nat.
Proof.
  induction n as [|n IH]; [reflexivity|].
  cbn [all_bool_vectors]. rewrite app_length, !map_length, IH. simpl. lia.
Qed.

Lemma nrange_succ n : nrange (N.of_nat (S n)) = nrange (N.of_nat n) ++ [N.of_nat n].
Proof. unfold nrange. rewrite !Nat2N.id, seq_S, map_app. reflexivity. Qed.

Lemma In_nrange n m : In m (nrange n) -> (m < n)%N.
Proof.
  unfold nrange. rewrite in_map_iff. intros (k & <- & Hk). apply in_seq in Hk. lia.
Qed.

Lemma of_nat_pow2 n : N.of_nat (2 ^ n) = (2 ^ N.of_nat n)%N.
Proof. rewrite Nat2N.inj_pow. reflexivity. Qed.

(* row r of itertools.product((0,1), repeat=n) is r written big-endian on n bits *)
Lemma abv_nth : forall n r, (r < 2 ^ n)%nat ->
  nth_error (all_bool_vectors n) r =
  Some (rev (map (N.testbit (N.of_nat r)) (nrange (N.of_nat n)))).
Proof.
  induction n as [|n IH]; intros r Hr.
  - simpl in Hr. assert (r = 0)%nat as -> by lia. reflexivity.
  - cbn [all_bool_vectors]. rewrite nrange_succ, map_app, rev_app_distr. cbn [map rev app].
    assert (2 ^ S n = 2 ^ n + 2 ^ n)%nat as Hp by (simpl; lia).
    destruct (Nat.lt_ge_cases r (2 ^ n)) as [Hlt|Hge].
    + rewrite nth_error_app1 by (rewrite map_length, abv_length; exact Hlt).
      rewrite (map_nth_error _ _ _ (IH r Hlt)). f_equal. f_equal.
      symmetry. apply (lt_pow2_bits_high _ (N.of_nat n)); [|apply N.le_refl].
      rewrite <- of_nat_pow2. lia.
    + rewrite nth_error_app2 by (rewrite map_length, abv_length; exact Hge).
      rewrite map_length, abv_length.
      assert (r - 2 ^ n < 2 ^ n)%nat as Hr' by lia.
      rewrite (map_nth_error _ _ _ (IH _ Hr')).
      assert (N.of_nat r = N.of_nat (r - 2 ^ n) + N.shiftl (N.b2n true) (N.of_nat n))%N as Er.
      { rewrite N.shiftl_mul_pow2, <- of_nat_pow2. simpl N.b2n. lia. }
      assert (N.of_nat (r - 2 ^ n) < 2 ^ N.of_nat n)%N as Hlt' by (rewrite <- of_nat_pow2; lia).
      f_equal. f_equal.
      * rewrite Er, testbit_add_high_bit by exact Hlt'. rewrite N.eqb_refl. symmetry; apply orb_true_r.
      * f_equal. apply map_ext_in. intros m Hm. apply In_nrange in Hm.
        rewrite Er, testbit_add_high_bit by exact Hlt'.
        replace (N.eqb m (N.of_nat n)) with false by (symmetry; apply N.eqb_neq; lia).
        rewrite orb_false_r. reflexivity.
Qed.

Lemma dget_app_rev {V} : forall (d : dict V) k, NoDup (dkeys d) -> dget (rev d) k = dget d k.
Proof.
  induction d as [|[k' v] d IH]; intros k Hnd; [reflexivity|].
  inversion Hnd as [|? ? Hk Hnd']; subst. cbn [rev]. rewrite dget_app. rewrite (IH k Hnd').
  simpl. destruct (leqb_spec k k') as [->|Hne].
  - assert (dget d k' = None) as -> by (apply dget_None_keys; exact Hk). reflexivity.
  - destruct (dget d k); reflexivity.
Qed.

Lemma combine_app_eq {A B} : forall (l1 l2 : list A) (m1 m2 : list B),
  length l1 = length m1 -> combine (l1 ++ l2) (m1 ++ m2) = combine l1 m1 ++ combine l2 m2.
Proof.
  induction l1 as [|x xs IH]; intros l2 [|y ys] m2 Hl; try discriminate; [reflexivity|].
  simpl in Hl. injection Hl as Hl. simpl. rewrite IH by exact Hl. reflexivity.
Qed.

Lemma combine_rev {A B} : forall (l : list A) (l' : list B),
  length l = length l' -> combine (rev l) (rev l') = rev (combine l l').
Proof.
  induction l as [|x xs IH]; intros [|y ys] Hl; try discriminate; [reflexivity|].
  simpl in Hl. injection Hl as Hl. cbn [rev combine].
  rewrite <- IH by exact Hl.
  rewrite combine_app_eq by (rewrite !rev_length; exact Hl). reflexivity.
Qed.

(* the cone semantics reads rho only through dget *)
Lemma ConeEval_ext c rho rho' l b :
  (forall k, dget rho k = dget rho' k) -> ConeEval c rho l b -> ConeEval c rho' l b.
Proof.
  intros He H. induction H as [l b Hb|l g bs b Hb Hg Hops IH Hd] using ConeEval_ind2.
  - apply CELeaf. rewrite <- He; exact Hb.
  - eapply CEGate; [rewrite <- He; exact Hb|exact Hg| |exact Hd].
    clear -IH. induction IH; constructor; assumption.
Qed.

Lemma dkeys_combine {V} : forall (ls : list label) (vs : list V),
  length ls = length vs -> dkeys (combine ls vs) = ls.
Proof.
  induction ls as [|x xs IH]; intros [|y ys] Hl; try discriminate; [reflexivity|].
  simpl in Hl. injection Hl as Hl. unfold dkeys in *. simpl. rewrite IH by exact Hl. reflexivity.
Qed.

(* the leaf assignment of row r, in the order of _Subcircuit.inputs (reversed leaves) with the
   big-endian row vector, is the row assignment of the simulation *)
Lemma row_vector_assign leaves r v :
  NoDup leaves -> (r < 2 ^ length leaves)%nat ->
  nth_error (all_bool_vectors (length leaves)) r = Some v ->
  forall k, dget (row_assign leaves (N.of_nat r)) k = dget (combine (rev leaves) v) k.
Proof.
  intros Hnd Hr Hv k. rewrite (abv_nth _ _ Hr) in Hv. injection Hv as <-.
  assert (length leaves = length (map (N.testbit (N.of_nat r)) (nrange (N.of_nat (length leaves))))) as Hl.
  { rewrite map_length. unfold nrange. rewrite map_length, seq_length, Nat2N.id. reflexivity. }
  rewrite combine_rev by exact Hl. rewrite dget_app_rev; [reflexivity|].
  rewrite dkeys_combine by exact Hl. exact Hnd.
Qed.

Lemma Forall2_indexed {A B} (P : A -> B -> Prop) (f : nat * A -> B) : forall (rows : list A) k,
  (forall r v, nth_error rows r = Some v -> P v (f ((k + r)%nat, v))) ->
  Forall2 P rows (map f (combine (seq k (length rows)) rows)).
Proof.
  induction rows as [|x xs IH]; intros k H; simpl; constructor.
  - specialize (H 0%nat x eq_refl). rewrite Nat.add_0_r in H. exact H.
  - apply IH. intros r v Hr. specialize (H (S r) v Hr). rewrite Nat.add_succ_r in H. exact H.
Qed.

(* what a cell of the table says about the cone output o under the leaf vector v *)
Definition cell_ok (c : circuit) (leaves : list label) (care : list (list bool)) (o : label)
           (v : list bool) (cell : option bool) : Prop :=
  if vec_mem v care
  then exists b, cell = Some b /\ ConeEval c (combine (rev leaves) v) o b
  else cell = None.

Theorem dont_care_table_is_cone_function c leaves nodes d outs care :
  NoDup leaves -> cone_okb c leaves [] nodes = true ->
  simulate_cone c leaves nodes = Ok d ->
  (forall o, In o outs -> In o leaves \/ In o nodes) ->
  Forall2 (fun o row => Forall2 (cell_ok c leaves care o) (all_bool_vectors (length leaves)) row)
          outs (tt_with_dont_cares (length leaves) (map (pat_get d) outs) care).
Proof.
  intros Hnd Hok Hs Houts. rewrite tt_with_dont_cares_spec.
  destruct (simulate_cone_truth_tables _ _ _ _ Hnd Hok Hs) as [Htt Hmem].
  induction outs as [|o outs IH]; simpl; constructor.
  - apply (Forall2_indexed _ _ _ 0%nat). intros r v Hv. simpl.
    unfold cell_ok, dc_cell. cbn [fst snd]. destruct (vec_mem v care); [|reflexivity].
    assert (r < 2 ^ length leaves)%nat as Hr.
    { rewrite <- abv_length. apply nth_error_Some. congruence. }
    specialize (Hmem o (Houts o (or_introl eq_refl))). unfold dmem in Hmem. unfold pat_get.
    destruct (dget d o) as [p|] eqn:Ep; [|discriminate].
    exists (N.testbit p (N.of_nat r)). split; [reflexivity|].
    destruct (Htt o p Ep) as [_ Hrow].
    eapply ConeEval_ext; [apply row_vector_assign; eassumption|].
    apply Hrow. rewrite <- of_nat_pow2. lia.
  - apply IH. intros o' Ho'. apply Houts; right; exact Ho'.
Qed.
