(* C13 at the entry point: for every Boolean input vector, evaluate on the miter returns the
   one-element list [b] where b = "evaluate l and evaluate r return different output vectors".
   From build_miter_correct (SemMiter.v), arity_ok of the miter (ArityPreserve.v) and the
   completeness of evaluate (C01). *)
Require Import Cirbo.Model.Base Cirbo.Model.Gate Cirbo.Model.Den Cirbo.Model.Circuit Cirbo.Model.Eval
        Cirbo.Model.Sem Cirbo.Model.Connect Cirbo.Model.WF Cirbo.Model.Miter.
Require Import Cirbo.Proofs.SemFacts Cirbo.Proofs.EvalComplete Cirbo.Proofs.EvalEntry Cirbo.Proofs.TruthTable Cirbo.Proofs.EntryEq
        Cirbo.Proofs.SemMiter Cirbo.Proofs.ArityPreserve.

Lemma st_eq_dec (x y : st) : {x = y} + {x <> y}.
Proof. decide equality. Qed.

(* two lists of the same length differ iff they differ at some position *)
Lemma lists_differ_iff (vl vr : list st) : length vl = length vr ->
  (vl <> vr <-> exists i x y, nth_error vl i = Some x /\ nth_error vr i = Some y /\ x <> y).
Proof.
  revert vr. induction vl as [|x vl IH]; intros [|y vr] Hlen; simpl in Hlen; try lia.
  - split; [intros H; contradiction H; reflexivity|intros (i & a & b & Hi & _); destruct i; discriminate].
  - split.
    + intros Hne. destruct (st_eq_dec x y) as [->|Hxy].
      * assert (vl <> vr) as Hne' by (intros ->; apply Hne; reflexivity).
        apply (IH vr) in Hne'; [|lia]. destruct Hne' as (i & a & b & Ha & Hb & Hab).
        exists (S i), a, b. auto.
      * exists 0, x, y. auto.
    + intros (i & a & b & Ha & Hb & Hab) E. injection E as -> ->.
      rewrite Ha in Hb. injection Hb as ->. apply Hab; reflexivity.
Qed.

Lemma aval_vec_nth c vals i x : WF c -> nth_error (inputs c) i = Some x ->
  aval (vec_assignment c vals) x = match nth_error vals i with Some v => v | None => U end.
Proof. intros W Hx. unfold aval. rewrite (vec_assignment_nth c vals i x W Hx). reflexivity. Qed.

Theorem build_miter_evaluate l r ln rn m bs :
  WF l -> WF r -> arity_ok l -> arity_ok r -> ln <> "" -> rn <> "" -> outputs l <> [] ->
  build_miter l r ln rn = Ok m -> length (inputs l) <= length bs ->
  exists vl vr b,
    evaluate l (map inj bs) = Ok vl /\ evaluate r (map inj bs) = Ok vr /\
    evaluate m (map inj bs) = Ok [inj b] /\ (b = true <-> vl <> vr).
Proof.
  intros Wl Wr Al Ar Hln Hrn Hne Hm Hlen.
  destruct (build_miter_ok_shapes _ _ _ _ _ Hm) as [Lin Lout].
  destruct (build_miter_correct l r ln rn m Wl Wr Hln Hrn Hm) as (Wm & Hi & Ho & Hsem).
  pose proof (build_miter_arity_ok l r ln rn m Wl Wr Hne Hm Al Ar) as Am.
  set (vals := map inj bs).
  assert (Hlv : length (inputs l) <= length vals) by (unfold vals; rewrite map_length; exact Hlen).
  assert (Hnth : forall i, i < length (inputs l) -> exists b0, nth_error vals i = Some (inj b0)).
  { intros i Hi'. unfold vals. destruct (nth_error bs i) as [b0|] eqn:E.
    - exists b0. apply map_nth_error. exact E.
    - apply nth_error_None in E. lia. }
  destruct (evaluate_complete l vals Wl Al Hlv) as (vl & Hvl & Fl).
  destruct (evaluate_complete r vals Wr Ar) as (vr & Hvr & Fr); [rewrite <- Lin; exact Hlv|].
  destruct (evaluate_complete m vals Wm Am) as (vm & Hvm & Fm); [rewrite Hi, map_length; exact Hlv|].
  rewrite Ho in Fm. inversion Fm as [|o v os vs' Hbig Hnil]; subst. inversion Hnil; subst.
  (* the three positional assignments satisfy the side conditions of build_miter_correct *)
  assert (Hm_in : forall i x, nth_error (inputs l) i = Some x ->
            aval (vec_assignment m vals) ((ln ++ "@") ++ x)%string =
            match nth_error vals i with Some v0 => v0 | None => U end).
  { intros i x Hx. apply (aval_vec_nth m vals i _ Wm). rewrite Hi. apply map_nth_error. exact Hx. }
  destruct (Hsem Hne Al Ar (vec_assignment m vals) (vec_assignment l vals) (vec_assignment r vals))
    as (b & Hb & Hiff).
  - intros x Hx. apply In_nth_error in Hx. destruct Hx as [i Hx]. rewrite (Hm_in i x Hx).
    destruct (Hnth i) as [b0 ->]; [apply nth_error_Some; congruence|]. destruct b0; discriminate.
  - intros x Hx. apply In_nth_error in Hx. destruct Hx as [i Hx].
    rewrite (Hm_in i x Hx). apply (aval_vec_nth l vals i x Wl Hx).
  - intros i x y Hx Hy. rewrite (Hm_in i x Hx). apply (aval_vec_nth r vals i y Wr Hy).
  - exists vl, vr, b. split; [exact Hvl|]. split; [exact Hvr|]. split.
    + rewrite Hvm. rewrite (Eval_functional _ _ _ _ _ Hbig Hb). reflexivity.
    + rewrite Hiff. rewrite (lists_differ_iff vl vr).
      * split.
        -- intros (i & ol & or' & xl & xr & Hol & Hor & El & Er & Hd).
           destruct (Forall2_nth_error_l _ _ _ Fl i ol Hol) as (xl' & Hxl & El').
           destruct (Forall2_nth_error_l _ _ _ Fr i or' Hor) as (xr' & Hxr & Er').
           exists i, xl', xr'. split; [exact Hxl|]. split; [exact Hxr|].
           rewrite (Eval_functional _ _ _ _ _ El' El), (Eval_functional _ _ _ _ _ Er' Er). exact Hd.
        -- intros (i & xl & xr & Hxl & Hxr & Hd).
           assert (Hil : i < length (outputs l)).
           { rewrite (Forall2_length_eq _ _ _ Fl). apply nth_error_Some. congruence. }
           destruct (nth_error (outputs l) i) as [ol|] eqn:Eol; [|apply nth_error_None in Eol; lia].
           destruct (nth_error (outputs r) i) as [or'|] eqn:Eor; [|apply nth_error_None in Eor; lia].
           destruct (Forall2_nth_error_l _ _ _ Fl i ol Eol) as (xl' & Hxl' & El').
           destruct (Forall2_nth_error_l _ _ _ Fr i or' Eor) as (xr' & Hxr' & Er').
           exists i, ol, or', xl, xr. repeat split; try reflexivity; try congruence.
      * rewrite <- (Forall2_length_eq _ _ _ Fl), <- (Forall2_length_eq _ _ _ Fr). exact Lout.
Qed.

Lemma val_be_repeat_false k : val_be (repeat false k) = 0.
Proof. induction k as [|k IH]; [reflexivity|]. cbn [val_be repeat Nat.b2n]. rewrite IH, Nat.mul_0_l. reflexivity. Qed.

(* the truth table of the miter exists: one row with 2^n entries *)
Corollary build_miter_truth_table_returns l r ln rn m :
  WF l -> WF r -> arity_ok l -> arity_ok r -> ln <> "" -> rn <> "" -> outputs l <> [] ->
  build_miter l r ln rn = Ok m ->
  exists row, get_truth_table m = Ok [row] /\ length row = 2 ^ length (inputs l).
Proof.
  intros Wl Wr Al Ar Hln Hrn Hne Hm.
  destruct (build_miter_correct l r ln rn m Wl Wr Hln Hrn Hm) as (Wm & Hi & Ho & _).
  pose proof (build_miter_arity_ok l r ln rn m Wl Wr Hne Hm Al Ar) as Am.
  destruct (get_truth_table_complete m Wm Am) as (tt & Htt & Hlen & Hent).
  rewrite Ho in Hlen. destruct tt as [|row [|row2 tt]]; simpl in Hlen; try lia.
  exists row. split; [exact Htt|].
  assert (H0 : nth_error (all_bool_vectors (length (inputs m))) 0 = Some (repeat false (length (inputs m)))).
  { pose proof (abv_complete (repeat false (length (inputs m)))) as E. rewrite repeat_length in E.
    rewrite val_be_repeat_false in E. exact E. }
  assert (Hob : nth_error (outputs m) 0 = Some "big_or") by (rewrite Ho; reflexivity).
  destruct (Hent 0 "big_or" 0 _ Hob H0) as (row' & v & Hrow' & Hl & _).
  simpl in Hrow'. injection Hrow' as <-. rewrite Hl, Hi, map_length. reflexivity.
Qed.
