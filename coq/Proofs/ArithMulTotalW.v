(* C08, termination, part 4: the multipliers built on add_sum_n_weighted_bits (whose termination is
   ArithSumTotalW.add_sum_n_weighted_bits_ok, C07): add_mul, last_step_sum_with_new_powers_sum and
   MulMode.KARATSUBA = add_mul_karatsuba_with_efficient_sum return Ok for all operand widths >= 1.
   The read `res[i][1] for i in range(n + m)` of last_step succeeds because the weighted sum returns
   exactly n + m levels (ArithMulCount.add_mul_length). *)
Require Import Cirbo.Model.Base Cirbo.Model.Gate Cirbo.Model.Den Cirbo.Model.Circuit
  Cirbo.Model.Eval Cirbo.Model.Sem Cirbo.Model.Builder.
Require Import Cirbo.Generated.ArithTables Cirbo.Generated.ArithCells.
Require Import Cirbo.Model.ArithSub Cirbo.Model.ArithSum2 Cirbo.Model.ArithSumN Cirbo.Model.ArithSumW
  Cirbo.Model.ArithMul.
Require Import Cirbo.Proofs.DictFacts Cirbo.Proofs.BuilderFacts Cirbo.Proofs.ArithFacts
  Cirbo.Proofs.TotalFacts Cirbo.Proofs.ArithTotalFacts Cirbo.Proofs.FreshOnly
  Cirbo.Proofs.ArithSumTotalW
  Cirbo.Proofs.ArithMulFacts Cirbo.Proofs.ArithMulPow2 Cirbo.Proofs.ArithMulKara Cirbo.Proofs.ArithMulCount
  Cirbo.Proofs.ArithMulTotal Cirbo.Proofs.ArithMulWallaceTotal Cirbo.Proofs.ArithMulTotalKara.

Lemma all_exist_concat c m : mat_exist c m -> all_exist c (concat m).
Proof. induction 1 as [|r m Hr _ IH]; simpl; [constructor|apply all_exist_app; assumption]. Qed.

Lemma matrix_weights_nonempty n c lev :
  c <> [] -> Forall (fun row : list label => length row = n) c -> (1 <= n)%nat -> matrix_weights lev c <> [].
Proof.
  intros Hc F Hn. destruct c as [|row c]; [contradiction|]. pose proof (Forall_inv F) as L. cbv beta in L.
  destruct row as [|x row]; [simpl in L; lia|]. simpl. discriminate.
Qed.

Lemma In_firstn {A} n : forall (l : list A) x, In x (firstn n l) -> In x l.
Proof. induction n as [|n IH]; intros [|y l] x H; simpl in *; try contradiction. destruct H; [left; assumption|right; auto]. Qed.

Lemma all_exist_incl c l l' : incl l' l -> all_exist c l -> all_exist c l'.
Proof. intros Hi H. apply Forall_forall. intros x Hx. eapply Forall_forall in H; [exact H|apply Hi, Hx]. Qed.

Section MulTotalW.
  Variable fresh : N -> label.
  Hypothesis Hf : fresh_total fresh.

  Ltac finish := cbn [run]; eexists _, _; split; [reflexivity|].

  Lemma weighted_matrix_ok a b s :
    a <> [] -> b <> [] -> all_exist (bc s) a -> all_exist (bc s) b ->
    exists cm s1 res s2,
      run fresh (pp_matrix a b) s = Ok (cm, s1) /\
      run fresh (add_sum_n_weighted_bits (BEnum XAIG) (matrix_weights 0 cm)) s1 = Ok (res, s2) /\
      mat_exist (bc s1) cm /\ all_exist (bc s2) (map snd res) /\
      length res = mul_len (length a) (length b).
  Proof.
    intros Ha Hb Aa Ab.
    destruct (pp_matrix_ok fresh Hf a b s Aa Ab) as (cm & s1 & E1 & Hcm).
    pose proof E1 as E1'. apply pp_matrix_spec in E1' as (_ & _ & L1 & F1 & _).
    destruct (add_sum_n_weighted_bits_ok fresh Hf (BEnum XAIG) XAIG (matrix_weights 0 cm) s1 eq_refl)
      as (res & s2 & E2 & Ares).
    { apply (matrix_weights_nonempty (length a)); [|exact F1|apply length_nonnil, Ha].
      intros ->. simpl in L1. apply length_nonnil in Hb. lia. }
    { rewrite matrix_weights_snd. apply all_exist_concat, Hcm. }
    exists cm, s1, res, s2. repeat split; try assumption.
    assert (run fresh (add_mul a b false) s = Ok (map snd res, s2)) as Em.
    { unfold add_mul, rev_if. rewrite (bind_ok _ _ _ _ _ _ E1), (bind_ok _ _ _ _ _ _ E2). reflexivity. }
    apply add_mul_length in Em. rewrite map_length in Em. exact Em.
  Qed.

  Theorem add_mul_total xs ys be s :
    xs <> [] -> ys <> [] -> all_exist (bc s) xs -> all_exist (bc s) ys ->
    exists rs s', run fresh (add_mul xs ys be) s = Ok (rs, s').
  Proof.
    intros Hx Hy Ax Ay. unfold add_mul.
    destruct (weighted_matrix_ok (rev_if be xs) (rev_if be ys) s) as (cm & s1 & res & s2 & E1 & E2 & _);
      [apply rev_if_nonempty, Hx|apply rev_if_nonempty, Hy|apply all_exist_rev_if, Ax|apply all_exist_rev_if, Ay|].
    rewrite (bind_ok _ _ _ _ _ _ E1), (bind_ok _ _ _ _ _ _ E2). cbn [run]. eauto.
  Qed.

  Lemma seq_nth_ok (res : list witem) k : (k <= length res)%nat ->
    exists out, forall s, run fresh (mapP (fun i => bdo it <- nthP res i; Ret (snd it)) (seq 0 k)) s = Ok (out, s).
  Proof.
    intros Hk. apply (mapP_pure_ok fresh). intros i Hi. apply in_seq in Hi.
    destruct (nth_error res i) as [it|] eqn:E; [|apply nth_error_None in E; lia].
    exists (snd it). intros s. unfold nthP, nth_res. rewrite E. reflexivity.
  Qed.

  Lemma heads_ok (c : list (list label)) : Forall (fun row => row <> []) c ->
    exists out, forall s, run fresh (mapP (fun row => nthP row 0) c) s = Ok (out, s).
  Proof.
    intros H. apply (mapP_pure_ok fresh). intros row Hr. eapply Forall_forall in H; [|exact Hr].
    destruct row as [|x row]; [contradiction|]. exists x. reflexivity.
  Qed.

  Lemma mapP_pure_In {A B} (f : A -> prog B) (Pb : B -> Prop) : forall l s out s',
    (forall x s0 y s1, In x l -> run fresh (f x) s0 = Ok (y, s1) -> Pb y) ->
    run fresh (mapP f l) s = Ok (out, s') -> Forall Pb out.
  Proof.
    induction l as [|x l IH]; intros s out s' Hp H; cbn [mapP] in H.
    - apply run_ret_inv in H as (-> & _). constructor.
    - apply run_bind_inv in H as (y & s1 & Hy & H). apply run_bind_inv in H as (ys & s2 & Hys & H).
      apply run_ret_inv in H as (-> & _). constructor; [eapply Hp; [left; reflexivity|exact Hy]|].
      eapply IH; [|exact Hys]. intros x0 s0 y0 s3 Hin. apply Hp. right; exact Hin.
  Qed.

  (* equal widths (what Karatsuba asks for), or a single bit *)
  Theorem last_step_ok xs ys be s :
    xs <> [] -> ys <> [] -> (length ys = length xs \/ length xs = 1%nat \/ length ys = 1%nat) ->
    all_exist (bc s) xs -> all_exist (bc s) ys ->
    exists rs s', run fresh (last_step_sum_with_new_powers_sum xs ys be) s = Ok (rs, s') /\ all_exist (bc s') rs.
  Proof.
    intros Hx Hy Hw Ax Ay. unfold last_step_sum_with_new_powers_sum. rewrite !rev_if_length.
    destruct (weighted_matrix_ok (rev_if be xs) (rev_if be ys) s) as (cm & s1 & res & s2 & E1 & E2 & Hcm & Ares & Lres);
      [apply rev_if_nonempty, Hx|apply rev_if_nonempty, Hy|apply all_exist_rev_if, Ax|apply all_exist_rev_if, Ay|].
    rewrite !rev_if_length in Lres.
    rewrite (bind_ok _ _ _ _ _ _ E1). pose proof (run_ext _ _ _ _ _ E1) as X1.
    apply pp_matrix_spec in E1 as (_ & _ & L1 & F1 & _). rewrite rev_if_length in L1, F1.
    pose proof (length_nonnil _ Hx) as Hn. pose proof (length_nonnil _ Hy) as Hm.
    set (n := length xs) in *. set (m := length ys) in *.
    destruct (n =? 1)%nat eqn:En.
    { destruct (heads_ok cm) as (out & Ho).
      { eapply Forall_impl; [|exact F1]. intros row Lr ->. simpl in Lr. lia. }
      rewrite (bind_ok _ _ _ _ _ _ (Ho s1)). finish. apply all_exist_rev_if.
      pose proof (Ho s1) as Ho1.
      apply (mapP_pure_In (fun row : list label => nthP row 0) (fun y => has_gate (bc s1) y = true)) in Ho1; [exact Ho1|].
      intros row s0 y s3 Hin Hy0. apply nthP_inv in Hy0 as (Hy0 & _).
      eapply Forall_forall in Hcm; [|exact Hin]. eapply Forall_forall in Hcm; [exact Hcm|].
      eapply nth_error_In; exact Hy0. }
    destruct (m =? 1)%nat eqn:Em.
    { destruct cm as [|c0 cm']; [simpl in L1; lia|]. unfold nthP, nth_res. cbn [nth_error ret_res].
      rewrite run_ret_bind. finish. apply all_exist_rev_if. exact (Forall_inv Hcm). }
    apply Nat.eqb_neq in En, Em.
    assert (m = n) as Emn by lia. rewrite Emn, Nat.eqb_refl. cbn [negb].
    rewrite (bind_ok _ _ _ _ _ _ E2).
    assert (mul_len n m = (n + m)%nat) as Eml.
    { unfold mul_len. apply Nat.eqb_neq in En, Em. rewrite En, Em. reflexivity. }
    rewrite Eml, Emn in Lres.
    destruct (seq_nth_ok res (n + n)) as (out & Ho); [lia|].
    rewrite (bind_ok _ _ _ _ _ _ (Ho s2)). finish. apply all_exist_rev_if.
    pose proof (Ho s2) as Ho2. apply seq_nth_all in Ho2 as (_ & -> & _). rewrite skipn_O.
    eapply all_exist_incl; [|exact Ares]. intros x Hin. apply in_map_iff in Hin as (it & <- & Hit).
    apply in_map. eapply In_firstn; exact Hit.
  Qed.

  Lemma true_fo : forall A (p : prog A) s r s', fo p -> run fresh p s = Ok (r, s') -> True -> True.
  Proof. auto. Qed.

  Theorem add_mul_karatsuba_eff_ok xs ys be s :
    xs <> [] -> ys <> [] -> all_exist (bc s) xs -> all_exist (bc s) ys ->
    exists rs s', run fresh (add_mul_karatsuba_with_efficient_sum xs ys be) s = Ok (rs, s') /\ all_exist (bc s') rs.
  Proof.
    intros Hx Hy Ax Ay. unfold add_mul_karatsuba_with_efficient_sum.
    apply (kara_total fresh Hf (fun _ => True) true_fo (fun _ => True) _ last_step_mul_spec); try assumption; [| |exact I].
    - intros x y. apply fo_last_step.
    - intros W x y s0 Hxne Ly _ Axx Ayy _. apply last_step_ok; try assumption; [|left; exact Ly].
      apply nonnil_length. rewrite Ly. apply length_nonnil, Hxne.
  Qed.
End MulTotalW.
