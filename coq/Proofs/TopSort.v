(* Kahn's algorithm (Model/Traverse.v: top_sort) on a well-formed circuit:
   total, yields a permutation of the gate labels, predecessors first.
   The core is proved once over an abstract multigraph (preds / sucs with the
   multiset duality  count u (sucs l) = count l (preds u)) and instantiated for
   both directions in TopSortWF.v. *)
Require Import Cirbo.Model.Base Cirbo.Model.Gate Cirbo.Model.Circuit Cirbo.Model.Traverse.
Require Import Cirbo.Proofs.DictFacts.
Require Import Coq.Sorting.Permutation.

(* ---------------- small list facts ---------------- *)
Lemma pop_last_snoc {A} (q : list A) x : pop_last (q ++ [x]) = Some (x, q).
Proof. unfold pop_last. rewrite rev_app_distr; simpl. rewrite rev_involutive; reflexivity. Qed.

Lemma pop_last_cases {A} (q : list A) :
  (q = [] /\ pop_last q = None) \/ exists x r, q = r ++ [x] /\ pop_last q = Some (x, r).
Proof.
  destruct (rev q) as [|x r] eqn:E.
  - left. apply (f_equal (@rev A)) in E. rewrite rev_involutive in E. subst q. split; reflexivity.
  - right. exists x, (rev r). apply (f_equal (@rev A)) in E. rewrite rev_involutive in E. simpl in E.
    subst q. split; [reflexivity|apply pop_last_snoc].
Qed.

Lemma count_In x l : count x l > 0 <-> In x l.
Proof.
  induction l as [|y ys IH]; simpl; [split; [lia|tauto]|].
  destruct (leqb_spec x y) as [->|Hne].
  - split; [intros _; left; reflexivity|lia].
  - rewrite <- IH. split; [intros H; right; lia|intros [H|H]; [congruence|lia]].
Qed.

Lemma count_0_nIn x l : count x l = 0 <-> ~ In x l.
Proof. rewrite <- count_In. lia. Qed.

Lemma count_app x l1 l2 : count x (l1 ++ l2) = count x l1 + count x l2.
Proof. induction l1 as [|y ys IH]; simpl; [reflexivity|rewrite IH; lia]. Qed.

Lemma NoDup_app_snoc {A} (l : list A) x : NoDup l -> ~ In x l -> NoDup (l ++ [x]).
Proof.
  induction l as [|y ys IH]; simpl; intros H1 H2; [constructor; [tauto|constructor]|].
  inversion H1; subst. constructor.
  - rewrite in_app_iff; simpl. intros [H|[H|[]]]; [contradiction|]. apply H2; left; congruence.
  - apply IH; [assumption|]. intros H; apply H2; right; exact H.
Qed.

Lemma NoDup_app_intro {A} (l1 l2 : list A) :
  NoDup l1 -> NoDup l2 -> (forall x, In x l1 -> ~ In x l2) -> NoDup (l1 ++ l2).
Proof.
  induction l1 as [|y ys IH]; simpl; intros H1 H2 H3; [exact H2|].
  inversion H1; subst. constructor.
  - rewrite in_app_iff. intros [H|H]; [contradiction|]. apply (H3 y); [left; reflexivity|exact H].
  - apply IH; [assumption|assumption|]. intros x Hx; apply H3; right; exact Hx.
Qed.

Lemma NoDup_app_l {A} (l1 l2 : list A) : NoDup (l1 ++ l2) -> NoDup l1.
Proof.
  induction l1 as [|y ys IH]; simpl; intros H; [constructor|]. inversion H; subst.
  constructor; [intros Hin; apply H2, in_or_app; left; exact Hin|auto].
Qed.

Lemma NoDup_app_r {A} (l1 l2 : list A) : NoDup (l1 ++ l2) -> NoDup l2.
Proof. induction l1 as [|y ys IH]; simpl; intros H; [exact H|]. inversion H; auto. Qed.

Lemma NoDup_app_disj {A} (l1 l2 : list A) x : NoDup (l1 ++ l2) -> In x l1 -> In x l2 -> False.
Proof.
  induction l1 as [|y ys IH]; simpl; intros H H1 H2; [contradiction|]. inversion H; subst.
  destruct H1 as [->|H1]; [apply H4, in_or_app; right; exact H2|eauto].
Qed.

Lemma snoc_split_cases {A} (a1 a2 acc : list A) a x :
  acc ++ [x] = a1 ++ a :: a2 ->
  (a2 = [] /\ a = x /\ a1 = acc) \/ exists a2', a2 = a2' ++ [x] /\ acc = a1 ++ a :: a2'.
Proof.
  intros E. destruct (pop_last_cases a2) as [[-> _]|(y & r & -> & _)].
  - left. change (a1 ++ [a]) with (a1 ++ [a]) in E. apply app_inj_tail in E. destruct E; subst; auto.
  - right. exists r. change (a1 ++ a :: r ++ [y]) with (a1 ++ (a :: r) ++ [y]) in E.
    rewrite app_assoc in E. apply app_inj_tail in E. destruct E as [E1 E2]; subst. split; reflexivity.
Qed.

Lemma memb_app x l1 l2 : memb x (l1 ++ l2) = memb x l1 || memb x l2.
Proof.
  induction l1 as [|y ys IH]; simpl; [reflexivity|]. destruct (leqb x y); [reflexivity|exact IH].
Qed.

Lemma dget_map_key {V} (f : label -> V) ks l :
  In l ks -> dget (map (fun k => (k, f k)) ks) l = Some (f l).
Proof.
  induction ks as [|k ks IH]; simpl; [tauto|].
  destruct (leqb_spec l k) as [->|Hne]; [reflexivity|]. intros [H|H]; [congruence|auto].
Qed.

Lemma filter_map_key (f : label -> Z) ks :
  map fst (filter (fun kv : label * Z => Z.eqb (snd kv) 0) (map (fun k => (k, f k)) ks))
  = filter (fun k => Z.eqb (f k) 0) ks.
Proof.
  induction ks as [|k ks IH]; simpl; [reflexivity|].
  destruct (Z.eqb (f k) 0); simpl; rewrite IH; reflexivity.
Qed.

Lemma mapM_map {A B} (f : A -> res B) (g : A -> B) l :
  (forall x, In x l -> f x = Ok (g x)) -> mapM f l = Ok (map g l).
Proof.
  induction l as [|x xs IH]; simpl; intros H; [reflexivity|].
  rewrite (H x (or_introl eq_refl)); simpl. rewrite IH by (intros; apply H; right; assumption).
  reflexivity.
Qed.

(* position form of "b occurs in the prefix before a" *)
Lemma prefix_order_nth (l : list label) :
  NoDup l ->
  forall (P : label -> label -> Prop),
  (forall l1 a l2, l = l1 ++ a :: l2 -> forall b, P a b -> In b l1) ->
  forall i j a b, nth_error l i = Some a -> nth_error l j = Some b -> P a b -> j < i.
Proof.
  intros Hnd P Hord i j a b Hi Hj HP.
  destruct (nth_error_split l i Hi) as (l1 & l2 & -> & Hlen).
  pose proof (Hord l1 a l2 eq_refl b HP) as Hin.
  apply In_nth_error in Hin. destruct Hin as [j' Hj'].
  assert (Hlt : j' < length l1) by (apply nth_error_Some; congruence).
  assert (Hj'' : nth_error (l1 ++ a :: l2) j' = Some b) by (rewrite nth_error_app1; assumption).
  assert (j = j').
  { eapply NoDup_nth_error; eauto. apply nth_error_Some; congruence. congruence. }
  lia.
Qed.

(* ---------------- the abstract Kahn argument ---------------- *)
Section Kahn.
  Variable c : circuit.
  Variable inverse : bool.
  Variables preds sucs : label -> list label.
  Let keys := dkeys (gates c).
  Hypothesis Hnd : NoDup keys.
  Hypothesis Hdual : forall l u, count u (sucs l) = count l (preds u).
  Hypothesis Hpk : forall l p, In l keys -> In p (preds l) -> In p keys.
  Hypothesis Hsk : forall l s, In l keys -> In s (sucs l) -> In s keys.
  Variable rk : label -> nat.
  Hypothesis Hrk : forall l p, In l keys -> In p (preds l) -> rk p < rk l.
  Hypothesis Hsuccs : forall l, In l keys ->
    exists g, get_gate c l = Ok g /\ succs inverse c l g = Ok (sucs l).
  Hypothesis Hinit :
    init_indegree inverse c = Ok (map (fun l => (l, Z.of_nat (length (preds l)))) keys).

  (* number of not yet emitted predecessors, with multiplicity *)
  Definition pendl (acc ps : list label) : nat := length (filter (fun p => negb (memb p acc)) ps).
  Definition pend (acc : list label) (l : label) : nat := pendl acc (preds l).

  Lemma pendl_snoc acc cur ps :
    ~ In cur acc -> pendl acc ps = pendl (acc ++ [cur]) ps + count cur ps.
  Proof.
    intros Hn; unfold pendl; induction ps as [|p ps IH]; simpl; [reflexivity|].
    rewrite memb_app; simpl.
    destruct (leqb_spec cur p) as [<-|Hne].
    - apply memb_nIn in Hn; rewrite Hn, leqb_refl; simpl. lia.
    - assert (E : leqb p cur = false) by (apply leqb_neq; congruence).
      rewrite E, orb_false_r. destruct (memb p acc); simpl; lia.
  Qed.

  Lemma pendl_nil ps : pendl [] ps = length ps.
  Proof. unfold pendl; induction ps; simpl; auto. Qed.

  Lemma pendl_0 acc ps : pendl acc ps = 0 <-> forall p, In p ps -> In p acc.
  Proof.
    unfold pendl; induction ps as [|p ps IH]; simpl; [split; [tauto|reflexivity]|].
    destruct (memb p acc) eqn:E; simpl.
    - rewrite IH. apply memb_In in E. split; [intros H q [<-|Hq]; auto|intros H q Hq; auto].
    - apply memb_nIn in E. split; [discriminate|]. intros H; exfalso; apply E, H; left; reflexivity.
  Qed.

  Record Inv (indeg : dict Z) (queue acc : list label) : Prop := mkInv {
    inv_nd : NoDup (acc ++ queue);
    inv_keys : forall l, In l (acc ++ queue) -> In l keys;
    inv_deg : forall l, In l keys -> dget indeg l = Some (Z.of_nat (pend acc l));
    inv_q : forall l, In l keys -> (In l queue <-> ~ In l acc /\ pend acc l = 0);
    inv_ord : forall a1 a a2, acc = a1 ++ a :: a2 -> forall b, In b (preds a) -> In b a1 }.

  Lemma Inv_acc_pend0 indeg queue acc a : Inv indeg queue acc -> In a acc -> pend acc a = 0.
  Proof.
    intros HI Ha. apply in_split in Ha. destruct Ha as (a1 & a2 & E).
    apply pendl_0. intros p Hp. rewrite E. apply in_or_app; left.
    eapply (inv_ord _ _ _ HI); eauto.
  Qed.

  (* the inner for loop over the successors of the popped gate *)
  Definition kstep (st : dict Z * list label) (s : label) : res (dict Z * list label) :=
    let '(indeg, q) := st in
    match dget indeg s with
    | None => Err PyKeyError
    | Some d => let d' := (d - 1)%Z in
                Ok (dset indeg s d', if Z.eqb d' 0 then q ++ [s] else q)
    end.

  Lemma kfold_ok (tgt : label -> nat) (q0 : list label) :
    forall ss2 ss1 indeg extra,
    (forall l, In l keys -> dget indeg l = Some (Z.of_nat (tgt l + count l ss2))) ->
    (forall s, In s ss2 -> In s keys) ->
    NoDup extra ->
    (forall s, In s extra <-> In s ss1 /\ tgt s + count s ss2 = 0) ->
    exists indeg' extra',
      foldM kstep ss2 (indeg, q0 ++ extra) = Ok (indeg', q0 ++ extra') /\
      (forall l, In l keys -> dget indeg' l = Some (Z.of_nat (tgt l))) /\
      NoDup extra' /\
      (forall s, In s extra' <-> In s (ss1 ++ ss2) /\ tgt s = 0).
  Proof.
    induction ss2 as [|s ss2 IH]; intros ss1 indeg extra Hdeg Hk Hndx Hx.
    - exists indeg, extra. simpl. split; [reflexivity|]. split.
      + intros l Hl. rewrite (Hdeg l Hl). simpl. rewrite Nat.add_0_r. reflexivity.
      + split; [exact Hndx|]. intros x. rewrite (Hx x), app_nil_r. simpl. rewrite Nat.add_0_r. tauto.
    - simpl foldM. unfold kstep at 1.
      assert (Hs : In s keys) by (apply Hk; left; reflexivity).
      rewrite (Hdeg s Hs). simpl count. rewrite leqb_refl.
      assert (Ed : (Z.of_nat (tgt s + (1 + count s ss2)) - 1)%Z = Z.of_nat (tgt s + count s ss2)) by lia.
      rewrite Ed. simpl bind.
      set (n := tgt s + count s ss2).
      assert (Hnotx : ~ In s extra).
      { intros Hin. apply Hx in Hin. simpl in Hin. rewrite leqb_refl in Hin. lia. }
      assert (Hdeg' : forall l, In l keys ->
                dget (dset indeg s (Z.of_nat n)) l = Some (Z.of_nat (tgt l + count l ss2))).
      { intros l Hl. rewrite dget_dset. destruct (leqb_spec l s) as [->|Hne]; [reflexivity|].
        rewrite (Hdeg l Hl). simpl. destruct (leqb_spec l s); [contradiction|]. reflexivity. }
      assert (Hk' : forall x, In x ss2 -> In x keys) by (intros; apply Hk; right; assumption).
      destruct (Z.eqb (Z.of_nat n) 0) eqn:Ez.
      + apply Z.eqb_eq in Ez. assert (n = 0) by lia.
        destruct (IH (ss1 ++ [s]) (dset indeg s (Z.of_nat n)) (extra ++ [s]) Hdeg' Hk') as (i' & x' & Hf & H1 & H2 & H3).
        * apply NoDup_app_snoc; assumption.
        * intros x. rewrite !in_app_iff. simpl. rewrite (Hx x). simpl.
          destruct (leqb_spec x s) as [->|Hne].
          -- split; [intros _; split; [right; left; reflexivity|fold n; lia]|intros _; right; left; reflexivity].
          -- split; [intros [[Ha Hb]|[Ha|[]]]; [split; [left; assumption|lia]|congruence]
                    |intros [[Ha|[Ha|[]]] Hb]; [left; split; [assumption|lia]|congruence]].
        * exists i', x'. split; [rewrite <- app_assoc; exact Hf|]. split; [exact H1|]. split; [exact H2|].
          intros x. rewrite (H3 x). rewrite <- app_assoc. simpl. tauto.
      + apply Z.eqb_neq in Ez. assert (n <> 0) by lia.
        destruct (IH (ss1 ++ [s]) (dset indeg s (Z.of_nat n)) extra Hdeg' Hk' Hndx) as (i' & x' & Hf & H1 & H2 & H3).
        * intros x. rewrite (Hx x), in_app_iff. simpl.
          destruct (leqb_spec x s) as [->|Hne].
          -- fold n. split; [intros [_ Hb]; lia|intros [_ Hb]; lia].
          -- split; [intros [Ha Hb]; split; [left; assumption|lia]
                    |intros [[Ha|[Ha|[]]] Hb]; [split; [assumption|lia]|congruence]].
        * exists i', x'. split; [exact Hf|]. split; [exact H1|]. split; [exact H2|].
          intros x. rewrite (H3 x). rewrite <- app_assoc. simpl. tauto.
  Qed.

  (* one iteration of the while loop; the position of the popped element is irrelevant *)
  Lemma kahn_step indeg q1 q2 cur acc :
    Inv indeg (q1 ++ cur :: q2) acc ->
    exists indeg' q', foldM kstep (sucs cur) (indeg, q1 ++ q2) = Ok (indeg', q') /\
                      Inv indeg' q' (acc ++ [cur]).
  Proof.
    intros HI. destruct HI as [Ind Ik Ideg Iq Iord].
    assert (HI : Inv indeg (q1 ++ cur :: q2) acc) by (constructor; assumption).
    assert (Hck : In cur keys).
    { apply Ik. apply in_or_app; right. apply in_or_app; right; left; reflexivity. }
    assert (Hcq : In cur (q1 ++ cur :: q2)) by (apply in_or_app; right; left; reflexivity).
    assert (Hcacc : ~ In cur acc) by (intros H; eapply NoDup_app_disj; eauto).
    assert (Hcp : pend acc cur = 0) by (apply (Iq cur Hck); exact Hcq).
    assert (Hpend : forall l, pend acc l = pend (acc ++ [cur]) l + count l (sucs cur)).
    { intros l. rewrite Hdual. apply pendl_snoc; exact Hcacc. }
    destruct (kfold_ok (pend (acc ++ [cur])) (q1 ++ q2) (sucs cur) [] indeg [])
      as (indeg' & extra' & Hf & H1 & H2 & H3).
    - intros l Hl. rewrite (Ideg l Hl), Hpend. reflexivity.
    - intros s Hs; eapply Hsk; eauto.
    - constructor.
    - intros s; simpl; tauto.
    - rewrite app_nil_r in Hf. exists indeg', ((q1 ++ q2) ++ extra'). split; [exact Hf|].
      simpl in H3.
      assert (Hx : forall s, In s extra' -> pend acc s > 0).
      { intros s Hs. apply H3 in Hs. destruct Hs as [Hs _]. apply count_In in Hs. rewrite Hpend. lia. }
      assert (Hxq : forall s, In s extra' -> ~ In s acc /\ ~ In s (q1 ++ cur :: q2) /\ In s keys).
      { intros s Hs. pose proof (Hx s Hs) as Hp.
        assert (Hsk' : In s keys) by (apply H3 in Hs; destruct Hs as [Hs _]; eapply Hsk; eauto).
        split; [intros Ha; rewrite (Inv_acc_pend0 _ _ _ _ HI Ha) in Hp; lia|].
        split; [|exact Hsk']. intros Hq. apply (Iq s Hsk') in Hq. lia. }
      assert (Hperm : Permutation (acc ++ q1 ++ cur :: q2) ((acc ++ [cur]) ++ q1 ++ q2)).
      { rewrite <- app_assoc. apply Permutation_app_head. simpl.
        symmetry. apply Permutation_middle. }
      constructor.
      + rewrite (app_assoc (acc ++ [cur])). apply NoDup_app_intro.
        * eapply Permutation_NoDup; [exact Hperm|exact Ind].
        * exact H2.
        * intros x Hx1 Hx2. destruct (Hxq x Hx2) as (Ha & Hq & _).
          apply (Permutation_in _ (Permutation_sym Hperm)) in Hx1.
          apply in_app_or in Hx1. destruct Hx1; contradiction.
      + intros l Hl. rewrite (app_assoc (acc ++ [cur])) in Hl. apply in_app_or in Hl. destruct Hl as [Hl|Hl].
        * apply Ik. apply (Permutation_in _ (Permutation_sym Hperm)); exact Hl.
        * apply Hxq; exact Hl.
      + exact H1.
      + intros l Hl. rewrite in_app_iff, (H3 l). split.
        * intros [Hq|[Hs Ht]].
          -- assert (Hq' : In l (q1 ++ cur :: q2)).
             { apply in_app_or in Hq. apply in_or_app. destruct Hq; [left|right; right]; assumption. }
             assert (Hne : l <> cur).
             { intros ->. apply NoDup_app_r in Ind. apply NoDup_remove_2 in Ind. contradiction. }
             apply (Iq l Hl) in Hq'. destruct Hq' as [Ha Hp]. split.
             ++ rewrite in_app_iff; simpl. intros [H|[H|[]]]; [contradiction|congruence].
             ++ rewrite Hpend in Hp. lia.
          -- split; [|exact Ht]. apply count_In in Hs.
             assert (Hp : pend acc l > 0) by (rewrite Hpend; lia).
             rewrite in_app_iff; simpl. intros [H|[H|[]]].
             ++ rewrite (Inv_acc_pend0 _ _ _ _ HI H) in Hp; lia.
             ++ subst l. lia.
        * intros [Ha Ht]. rewrite in_app_iff in Ha; simpl in Ha.
          destruct (count l (sucs cur)) eqn:Ec.
          -- left. assert (Hq : In l (q1 ++ cur :: q2)).
             { apply (Iq l Hl). split; [tauto|]. rewrite Hpend. lia. }
             apply in_app_or in Hq. apply in_or_app. destruct Hq as [Hq|[Hq|Hq]]; [left; assumption| |right; assumption].
             exfalso; apply Ha; right; left; exact Hq.
          -- right. split; [apply count_In; lia|exact Ht].
      + intros a1 a a2 E b Hb. apply snoc_split_cases in E.
        destruct E as [(-> & -> & ->)|(a2' & -> & ->)].
        * apply (proj1 (pendl_0 acc (preds cur)) Hcp); exact Hb.
        * eapply Iord; eauto.
  Qed.

  Lemma kahn_loop_ok : forall fuel indeg queue acc,
    Inv indeg queue acc -> fuel + length acc >= S (length keys) ->
    exists l indeg', top_sort_loop fuel inverse c indeg queue acc = Ok l /\ Inv indeg' [] l.
  Proof.
    induction fuel as [|fuel IH]; intros indeg queue acc HI Hfuel.
    - exfalso. assert (length acc <= length keys); [|simpl in Hfuel; lia].
      apply NoDup_incl_length; [eapply NoDup_app_l, (inv_nd _ _ _ HI)|].
      intros x Hx; apply (inv_keys _ _ _ HI), in_or_app; left; exact Hx.
    - simpl. destruct (pop_last_cases queue) as [[-> ->]|(cur & r & -> & ->)].
      + exists acc, indeg. split; [reflexivity|exact HI].
      + assert (Hck : In cur keys).
        { apply (inv_keys _ _ _ HI). apply in_or_app; right. apply in_or_app; right; left; reflexivity. }
        destruct (Hsuccs cur Hck) as (g & -> & Hs). simpl. rewrite Hs. simpl.
        destruct (kahn_step indeg r [] cur acc HI) as (indeg' & q' & Hf & HI').
        rewrite app_nil_r in Hf. unfold kstep in Hf. rewrite Hf. simpl.
        apply IH; [exact HI'|]. rewrite app_length; simpl. lia.
  Qed.

  Lemma kahn_complete indeg acc : Inv indeg [] acc -> forall l, In l keys -> In l acc.
  Proof.
    intros HI. assert (H : forall n l, rk l < n -> In l keys -> In l acc).
    { induction n as [|n IH]; intros l Hlt Hl; [lia|].
      destruct (in_dec string_dec l acc) as [Hin|Hnin]; [exact Hin|exfalso].
      assert (Hp : pend acc l = 0).
      { apply pendl_0. intros p Hp. apply IH; [|eapply Hpk; eauto].
        pose proof (Hrk l p Hl Hp). lia. }
      apply (proj2 (inv_q _ _ _ HI l Hl)). split; assumption. }
    intros l Hl. apply (H (S (rk l))); [lia|exact Hl].
  Qed.

  Lemma top_sort_nonempty : gates c <> [] ->
    top_sort inverse c =
    (do indeg <- init_indegree inverse c;
     let queue := map fst (filter (fun kv => Z.eqb (snd kv) 0) indeg) in
     match queue with
     | [] => Err CircuitIsCyclicalError
     | _ => top_sort_loop (S (size c)) inverse c indeg queue []
     end).
  Proof. unfold top_sort. destruct (gates c); [congruence|reflexivity]. Qed.

  Theorem kahn_top_sort :
    exists l, top_sort inverse c = Ok l /\ Permutation l keys /\
              (forall l1 a l2, l = l1 ++ a :: l2 -> forall b, In b (preds a) -> In b l1).
  Proof.
    assert (Hcase : gates c = [] \/ gates c <> []).
    { clear. destruct (gates c); [left; reflexivity|right; discriminate]. }
    destruct Hcase as [Eg|Hne].
    - exists []. unfold top_sort. rewrite Eg. split; [reflexivity|]. split.
      + unfold keys. rewrite Eg. constructor.
      + intros l1 a l2 E. destruct l1; discriminate.
    - rewrite (top_sort_nonempty Hne), Hinit. simpl bind. rewrite filter_map_key.
      set (indeg0 := map (fun l => (l, Z.of_nat (length (preds l)))) keys).
      set (queue0 := filter (fun k => Z.eqb (Z.of_nat (length (preds k))) 0) keys).
      assert (HI : Inv indeg0 queue0 []).
      { constructor.
        - simpl. apply NoDup_filter; exact Hnd.
        - simpl. intros l Hl. apply filter_In in Hl; tauto.
        - intros l Hl. unfold indeg0. rewrite (dget_map_key _ _ _ Hl). unfold pend. rewrite pendl_nil. reflexivity.
        - intros l Hl. unfold queue0. rewrite filter_In, Z.eqb_eq. unfold pend. rewrite pendl_nil.
          split; [intros [_ H]; split; [tauto|lia]|intros [_ H]; split; [exact Hl|lia]].
        - intros a1 a a2 E. destruct a1; discriminate. }
      assert (Hfin : forall l indeg', Inv indeg' [] l ->
                Permutation l keys /\
                (forall l1 a l2, l = l1 ++ a :: l2 -> forall b, In b (preds a) -> In b l1)).
      { intros l indeg' HI'. split; [|exact (inv_ord _ _ _ HI')].
        apply NoDup_Permutation; [|exact Hnd|].
        - pose proof (inv_nd _ _ _ HI') as H. rewrite app_nil_r in H; exact H.
        - intros x. split; [intros Hx; apply (inv_keys _ _ _ HI'); rewrite app_nil_r; exact Hx|].
          apply (kahn_complete _ _ HI'). }
      destruct queue0 as [|q0 qs] eqn:Eq.
      + exfalso. pose proof (kahn_complete _ _ HI) as Hall.
        assert (Hk : exists k, In k keys).
        { unfold keys. clear - Hne. destruct (gates c) as [|[k v] gs]; [congruence|exists k; left; reflexivity]. }
        destruct Hk as [k Hk]. exact (Hall k Hk).
      + destruct (kahn_loop_ok (S (size c)) indeg0 (q0 :: qs) [] HI) as (l & indeg' & Hl & HI').
        * unfold size, keys, dkeys. rewrite map_length. simpl. lia.
        * exists l. split; [exact Hl|]. eapply Hfin; eauto.
  Qed.
End Kahn.
