(* C19, replace_subcircuit, part 3: on failure the error is one of the documented kinds.
   Ingredients: rename_gate on well formed circuits fails only with IsAbsent / AlreadyExists;
   the fuel of the slice loop is adequate; _remove_block cannot fail with ValueError on the
   relaxed invariant WFmod; top_sort of the well formed replacement succeeds; the final cycle
   check returns normally or raises CircuitValidationError (fuel adequacy from C20). *)
Require Import Cirbo.Model.Base Cirbo.Model.Gate Cirbo.Model.Den Cirbo.Model.Circuit Cirbo.Model.Traverse
        Cirbo.Model.Connect Cirbo.Model.Eval Cirbo.Model.Sem Cirbo.Model.WF.
Require Import Cirbo.Proofs.DictFacts Cirbo.Proofs.WFBase Cirbo.Proofs.WFSimple Cirbo.Proofs.WFEmplace
        Cirbo.Proofs.WFRemove Cirbo.Proofs.WFRename Cirbo.Proofs.WFRename2 Cirbo.Proofs.WFReplaceSub1
        Cirbo.Proofs.WFReplaceSub Cirbo.Proofs.TopSortWF Cirbo.Proofs.CycleCheck
        Cirbo.Proofs.SemExt Cirbo.Proofs.SemRenameGate Cirbo.Proofs.SemReplaceSub.
Require Import Coq.Sorting.Permutation.

Definition rs_error (e : err) : bool :=
  match e with
  | ReplaceSubcircuitError | CreateBlockError | DeleteBlockError | CircuitValidationError
  | CircuitGateAlreadyExistsError | CircuitGateIsAbsentError | GateDoesntExistError => true
  | _ => false
  end.

(* ---------------- generic: errors of a fold ---------------- *)
Lemma foldM_err_inv {A S} (f : S -> A -> res S) (P : S -> Prop) (Q : err -> Prop) l :
  (forall s x s', In x l -> P s -> f s x = Ok s' -> P s') ->
  (forall s x e, In x l -> P s -> f s x = Err e -> Q e) ->
  forall s e, P s -> foldM f l s = Err e -> Q e.
Proof.
  induction l as [|x l IH]; intros Hok Herr s e Hs H; simpl in H; [discriminate|].
  destruct (f s x) as [s1|e1] eqn:E; simpl in H.
  - eapply IH; [| |eapply Hok; [left; reflexivity|exact Hs|exact E]|exact H];
      intros; [eapply Hok|eapply Herr]; eauto; right; assumption.
  - injection H as <-. eapply Herr; [left; reflexivity|exact Hs|exact E].
Qed.

Lemma check_gates_exist_err ls c e : check_gates_exist ls c = Err e -> e = CircuitValidationError.
Proof.
  induction ls as [|l ls IH]; simpl; [discriminate|]. destruct (has_gate c l); [exact IH|congruence].
Qed.

Lemma get_gate_err c l e : get_gate c l = Err e -> e = GateDoesntExistError.
Proof. unfold get_gate; destruct (dget (gates c) l); congruence. Qed.

Lemma get_gate_users_err c l e : get_gate_users c l = Err e -> e = GateDoesntExistError.
Proof. unfold get_gate_users; destruct (has_gate c l); [destruct (dget (users c) l)|]; congruence. Qed.

(* ---------------- the renaming folds ---------------- *)
Lemma ren_fold_err m : forall c e, WF c -> foldM ren_step m c = Err e -> rs_error e = true.
Proof.
  intros c e W. apply (foldM_err_inv ren_step WF (fun e => rs_error e = true)); [| |exact W].
  - intros s [k v] s' _ Ws Hs. eapply ren_step_struct; eassumption.
  - intros s [k v] e' _ Ws Hs. unfold ren_step in Hs; simpl in Hs.
    destruct (leqb k v); [discriminate|].
    destruct (rename_gate_outcome s k v Ws) as (H1 & H2 & H3).
    destruct (has_gate s k) eqn:Ek.
    + destruct (has_gate s v) eqn:Ev.
      * rewrite H2 in Hs by reflexivity. injection Hs as <-; reflexivity.
      * destruct H3 as [c' Hc']; try reflexivity. congruence.
    + rewrite H1 in Hs by reflexivity. injection Hs as <-; reflexivity.
Qed.

(* ---------------- the slice loop: fuel adequacy and error kinds ---------------- *)
Lemma NoDup_dedup l : NoDup (dedup l).
Proof.
  induction l as [|x l IH]; simpl; [constructor|]. destruct (memb x l) eqn:E; [exact IH|].
  constructor; [|exact IH]. rewrite In_dedup. apply memb_nIn, E.
Qed.

Lemma slice_loop_err c ins : NoDup (dkeys (gates c)) -> forall fuel gs q e,
  NoDup gs -> (forall g, In g gs -> has_gate c g = true) ->
  size c + length q < fuel + length gs ->
  slice_loop fuel c ins gs q = Err e -> e = GateDoesntExistError \/ e = CreateBlockError.
Proof.
  intros Hnd. induction fuel as [|fuel IH]; intros gs q e Hgs Hgates Hk H.
  - exfalso. assert (length gs <= size c); [|lia]. unfold size.
    rewrite <- (map_length fst (gates c)). apply NoDup_incl_length; [exact Hgs|].
    intros g Hg. apply dmem_keys, Hgates, Hg.
  - simpl in H. destruct (rev q) as [|cur rq] eqn:Erev; [discriminate|].
    assert (length q = S (length rq)) as Hlen by (rewrite <- (rev_length q), Erev; reflexivity).
    destruct (get_gate c cur) as [g|e1] eqn:Eg; simpl in H;
      [|injection H as <-; left; eapply get_gate_err; eassumption].
    set (P := fun st : list label * list label =>
                NoDup (fst st) /\ (forall g, In g (fst st) -> has_gate c g = true) /\
                size c + length (snd st) < fuel + length (fst st)).
    set (f := fun (st : list label * list label) op =>
                let '(gs, q) := st in
                if memb op ins then Ok st else
                do og <- get_gate c op;
                if gtype_beq (gtyp og) INPUT then Err CreateBlockError else
                if memb op gs then Ok st else Ok (gs ++ [op], q ++ [op])) in *.
    assert (HP0 : P (gs, rev rq)).
    { unfold P; simpl. split; [exact Hgs|]. split; [exact Hgates|]. rewrite rev_length. lia. }
    assert (Hstep_ok : forall s x s', In x (gops g) -> P s -> f s x = Ok s' -> P s').
    { intros [gs1 q1] op s' _ (N1 & G1 & K1) Hs; unfold f in Hs; simpl in *.
      destruct (memb op ins); [injection Hs as <-; repeat split; assumption|].
      destruct (get_gate c op) as [og|] eqn:Eo; simpl in Hs; [|discriminate].
      destruct (gtype_beq (gtyp og) INPUT); [discriminate|].
      destruct (memb op gs1) eqn:Em; injection Hs as <-; [repeat split; assumption|].
      unfold P; simpl. split; [|split].
      - apply NoDup_count; intros x; rewrite count_app; simpl.
        pose proof (proj1 (NoDup_count _) N1 x) as Hx. destruct (leqb_spec x op) as [->|]; [|lia].
        apply memb_nIn, count_zero_nIn in Em; lia.
      - intros x Hx; apply in_app_or in Hx; destruct Hx as [Hx|[<-|[]]]; [auto|].
        apply get_gate_ok in Eo. eapply get_has_gate; eassumption.
      - rewrite !app_length; simpl; lia. }
    assert (Hstep_err : forall s x e', In x (gops g) -> P s -> f s x = Err e' ->
                                       e' = GateDoesntExistError \/ e' = CreateBlockError).
    { intros [gs1 q1] op e' _ _ Hs; unfold f in Hs; simpl in *.
      destruct (memb op ins); [discriminate|].
      destruct (get_gate c op) as [og|e2] eqn:Eo; simpl in Hs;
        [|injection Hs as <-; left; eapply get_gate_err; eassumption].
      destruct (gtype_beq (gtyp og) INPUT); [injection Hs as <-; right; reflexivity|].
      destruct (memb op gs1); discriminate. }
    destruct (foldM f (gops g) (gs, rev rq)) as [st|e1] eqn:Ef; simpl in H.
    + assert (P st) as (N1 & G1 & K1).
      { eapply (foldM_ok_inv f P); [|exact HP0|exact Ef]. intros; eapply Hstep_ok; eassumption. }
      eapply IH; eassumption.
    + injection H as <-.
      eapply (foldM_err_inv f P (fun e => e = GateDoesntExistError \/ e = CreateBlockError));
        [exact Hstep_ok|exact Hstep_err|exact HP0|exact Ef].
Qed.

Lemma make_block_from_slice_err c name ins outs e :
  NoDup (dkeys (gates c)) -> make_block_from_slice c name ins outs = Err e -> rs_error e = true.
Proof.
  intros Hnd H. unfold make_block_from_slice in H.
  unfold check_block_doesnt_exist in H. destruct (dmem (blocks c) name) eqn:Edm; cbn [bind] in H;
    [injection H as <-; reflexivity|].

  destruct (check_gates_exist ins c) as [[]|e1] eqn:E1; cbn [bind] in H;
    [|injection H as <-; rewrite (check_gates_exist_err _ _ _ E1); reflexivity].
  destruct (check_gates_exist outs c) as [[]|e2] eqn:E2; cbn [bind] in H;
    [|injection H as <-; rewrite (check_gates_exist_err _ _ _ E2); reflexivity].
  set (gs0 := dedup (filter (fun o => negb (memb o ins)) outs)) in *.
  destruct (slice_loop (S (size c)) c ins gs0 gs0) as [gs|e3] eqn:E3; cbn [bind] in H.
  - unfold make_block, check_block_doesnt_exist in H. rewrite Edm in H; cbn [bind] in H.
    destruct (check_gates_exist (canonical_block_gates c gs) c) as [[]|e4] eqn:E4; cbn [bind] in H;
      [|injection H as <-; rewrite (check_gates_exist_err _ _ _ E4); reflexivity].
    rewrite E2 in H; cbn [bind] in H. rewrite E1 in H; cbn [bind] in H. discriminate.
  - injection H as <-. apply slice_loop_err in E3; try assumption.
    + destruct E3 as [-> | ->]; reflexivity.
    + apply NoDup_dedup.
    + intros g Hg. apply In_dedup, filter_In in Hg. destruct Hg as [Hg _].
      eapply (proj1 (check_gates_exist_ok _ _)); eassumption.
    + lia.
Qed.

(* ---------------- _remove_block ---------------- *)
Lemma remove_gate_raw_err R D c l e :
  WFmod R D c -> remove_gate_raw c l = Err e -> e = GateDoesntExistError.
Proof.
  intros M H. unfold remove_gate_raw in H.
  destruct (get_gate c l) as [g|e1] eqn:Eg; simpl in H; [|injection H as <-; eapply get_gate_err; eassumption].
  apply get_gate_ok in Eg.
  destruct (remove_users_frame c (gops g) l) as (_ & Fi & _).
  destruct (gtype_beq (gtyp g) INPUT) eqn:Et; simpl in H; [|discriminate].
  rewrite Fi in H. assert (In l (inputs c)) as Hin.
  { apply (wm_inputs _ _ _ M). exists g; split; [assumption|apply gtype_beq_eq, Et]. }
  rewrite (proj2 (memb_In _ _) Hin) in H. simpl in H. discriminate.
Qed.

Lemma remove_loop_err D R : forall c e,
  WFmod R D c ->
  foldM (fun c g => do _ <- get_gate c g; remove_gate_raw c g) R c = Err e -> e = GateDoesntExistError.
Proof.
  induction R as [|g R IH]; simpl; intros c e M H; [discriminate|].
  destruct (get_gate c g) as [g0|e1] eqn:Eg; simpl in H; [|injection H as <-; eapply get_gate_err; eassumption].
  destruct (remove_gate_raw c g) as [c1|e1] eqn:Er; simpl in H.
  - eapply IH; [|exact H]. eapply remove_gate_raw_WFmod; eassumption.
  - injection H as <-. eapply remove_gate_raw_err; eassumption.
Qed.

Lemma check_block_has_no_users_err b c excl e :
  check_block_has_no_users b c excl = Err e -> e = GateDoesntExistError \/ e = DeleteBlockError.
Proof.
  unfold check_block_has_no_users. generalize (bgates b) at 1 as bg. induction bg as [|g bg IH]; simpl; [discriminate|].
  destruct (memb g excl); simpl; [exact IH|].
  destruct (get_gate_users c g) as [us|e1] eqn:E; simpl;
    [|intros [= <-]; left; eapply get_gate_users_err; eassumption].
  destruct (forallb _ us); simpl; [exact IH|intros [= <-]; right; reflexivity].
Qed.

(* ---------------- the theorem ---------------- *)
Theorem replace_subcircuit_errors c sub imap omap fresh e :
  WF c -> inputs_nullary c -> WF sub -> inputs_nullary sub ->
  replace_subcircuit c sub imap omap fresh = Err e -> rs_error e = true.
Proof.
  intros W N Ws Ns H. unfold replace_subcircuit in H.
  destruct (nodupb (dkeys imap ++ dkeys omap)) eqn:Enk; cbn [bind] in H; [|injection H as <-; reflexivity].
  apply nodupb_NoDup in Enk.
  destruct (check_gates_exist (dkeys imap) c) as [[]|e1] eqn:H1; cbn [bind] in H;
    [|injection H as <-; rewrite (check_gates_exist_err _ _ _ H1); reflexivity].
  destruct (check_gates_exist (dkeys omap) c) as [[]|e1] eqn:H2; cbn [bind] in H;
    [|injection H as <-; rewrite (check_gates_exist_err _ _ _ H2); reflexivity].
  destruct (check_gates_exist (dvals omap) sub) as [[]|e1] eqn:H3; cbn [bind] in H;
    [|injection H as <-; rewrite (check_gates_exist_err _ _ _ H3); reflexivity].
  match type of H with (do _ <- ?X; _) = _ => destruct X as [[]|e1] eqn:H4; cbn [bind] in H end.
  2:{ injection H as <-.
      eapply (foldM_err_inv _ (fun _ => True) (fun e => rs_error e = true)); [| |exact Logic.I|exact H4]; auto.
      intros [] i e' _ _ Hs. cbv beta in Hs. destruct (get_gate sub i) as [g|e2] eqn:Eg; simpl in Hs.
      - destruct (gtype_beq (gtyp g) INPUT); [discriminate|injection Hs as <-; reflexivity].
      - injection Hs as <-. rewrite (get_gate_err _ _ _ Eg); reflexivity. }
  destruct (forallb (fun i => memb i (dvals imap)) (inputs sub)) eqn:H5; cbn [bind] in H;
    [|injection H as <-; reflexivity].
  fold ren_step in H.
  destruct (foldM ren_step imap c) as [c1|e1] eqn:Hc1; cbn [bind] in H;
    [|injection H as <-; apply (ren_fold_err imap c _ W Hc1)].
  destruct (ren_fold_struct imap c c1 W Hc1) as (W1 & _).
  destruct (foldM ren_step omap c1) as [c2|e1] eqn:Hc2; cbn [bind] in H;
    [|injection H as <-; apply (ren_fold_err omap c1 _ W1 Hc2)].
  (* facts about c2, as in the well-formedness proof *)
  assert (HA : foldM ren_step (imap ++ omap) c = Ok c2).
  { rewrite foldM_app. rewrite Hc1; simpl. exact Hc2. }
  apply (ren_fold _ c c2 []) in HA; try assumption;
    [|rewrite dkeys_app; assumption
     |intros k Hk; rewrite dkeys_app in Hk; apply in_app_or in Hk; destruct Hk as [Hk|Hk];
      [apply (proj1 (check_gates_exist_ok _ _) H1)|apply (proj1 (check_gates_exist_ok _ _) H2)]; exact Hk
     |intros v []|constructor|intros v []].
  simpl in HA. destruct HA as (W2 & N2 & Hvn & Hvg). rewrite dvals_app in Hvn, Hvg.
  set (I := dvals imap) in *. set (D := dvals omap) in *.
  assert (HD : NoDup D).
  { apply NoDup_count; intros x. pose proof (proj1 (NoDup_count _) Hvn x) as Hx.
    rewrite count_app in Hx; lia. }
  assert (HDI : forall o, In o D -> ~ In o I).
  { intros o Ho Hi. pose proof (proj1 (NoDup_count _) Hvn o) as Hx. rewrite count_app in Hx.
    apply count_pos_In in Ho, Hi. lia. }
  set (bname := ("block_for_deleting" ++ fresh)%string) in *.
  destruct (make_block_from_slice c2 bname I D) as [c3|e1] eqn:Hc3; cbn [bind] in H;
    [|injection H as <-; eapply make_block_from_slice_err; [apply (wf_gkeys c2 W2)|eassumption]].
  pose proof (make_block_from_slice_wf _ _ _ _ _ W2 Hc3) as W3.
  apply make_block_from_slice_inv' in Hc3. destruct Hc3 as (gs & Hincl & Hgsd & Ec3).
  set (bg := canonical_block_gates c2 gs) in *.
  assert (G3 : gates c3 = gates c2) by (rewrite Ec3; reflexivity).
  assert (Eblk : get_block c3 bname = Ok (mkBlock I bg D)).
  { unfold get_block. rewrite Ec3; simpl. rewrite dget_dset_same. reflexivity. }
  rewrite Eblk in H; cbn [bind] in H.
  destruct (forallb _ (outputs c3)) eqn:H6; cbn [bind] in H; [|injection H as <-; reflexivity].
  match type of H with (do _ <- ?X; _) = _ => destruct X as [saved|e1] eqn:Hsaved; cbn [bind] in H end.
  2:{ injection H as <-.
      eapply (foldM_err_inv _ (fun _ => True) (fun e => rs_error e = true)); [| |exact Logic.I|exact Hsaved]; auto.
      intros acc o e' _ _ Hs. cbv beta in Hs. destruct (get_gate_users c3 o) as [us|e2] eqn:Eu; simpl in Hs; [discriminate|].
      injection Hs as <-. rewrite (get_gate_users_err _ _ _ Eu); reflexivity. }
  destruct (check_block_has_no_users (mkBlock I bg D) c3 D) as [[]|e1] eqn:H7; cbn [bind] in H.
  2:{ injection H as <-. destruct (check_block_has_no_users_err _ _ _ _ H7) as [-> | ->]; reflexivity. }
  assert (M3 : WFmod bg D c3).
  { apply WF_WFmodD; [assumption|]. intros l u Hl Hu. unfold check_block_has_no_users in H7. simpl in H7.
    destruct (check_block_loop_spec _ _ _ _ _ H7 l Hl) as [Hd|Hall]; auto. }
  unfold remove_block_raw in H. rewrite Eblk in H; cbn [bind] in H.
  match type of H with (do _ <- ?X; _) = _ => destruct X as [c4|e1] eqn:Hc4; cbn [bind] in H end.
  2:{ injection H as <-. rewrite (remove_loop_err D bg c3 e1 M3 Hc4); reflexivity. }
  pose proof (remove_loop_WFmod D bg c3 c4 M3 Hc4) as M4.
  pose proof (remove_loop_gates bg c3 c4 (wf_gkeys c3 W3) Hc4) as G4.
  destruct (top_sort_total sub true Ws) as [order Hord]. rewrite Hord in H; cbn [bind] in H.
  match type of H with (do _ <- ?X; _) = _ => destruct X as [c5|e1] eqn:Hc5; cbn [bind] in H end.
  2:{ injection H as <-.
      eapply (foldM_err_inv _ (fun _ => True) (fun e => rs_error e = true)); [| |exact Logic.I|exact Hc5]; auto.
      intros cc l e' _ _ Hs. cbv beta in Hs. destruct (memb l I); [discriminate|].
      destruct (get_gate sub l) as [g|e2] eqn:Eg; simpl in Hs;
        [|injection Hs as <-; rewrite (get_gate_err _ _ _ Eg); reflexivity].
      unfold add_gate, emplace_gate, check_label_doesnt_exist in Hs.
      destruct (has_gate cc l); simpl in Hs; [injection Hs as <-; reflexivity|].
      destruct (check_gates_exist (gops g) cc) as [[]|e3] eqn:E3; simpl in Hs; [discriminate|].
      injection Hs as <-. rewrite (check_gates_exist_err _ _ _ E3); reflexivity. }
  (* the final cycle check *)
  fold restore_step in H.
  set (c7 := fold_left restore_step saved (set_outputs_raw c5 (outputs c3))) in *.
  assert (G7 : gates c7 = gates c5).
  { unfold c7.
    assert (forall sv cc, gates (fold_left restore_step sv cc) = gates cc) as Hrf.
    { induction sv as [|kv sv IHs]; intros cc; simpl; [reflexivity|]. rewrite IHs. unfold restore_step.
      destruct (dget (users cc) (fst kv)); reflexivity. }
    rewrite Hrf. reflexivity. }
  pose proof (top_sort_nodup sub true order Ws Hord) as Hond.
  pose proof (top_sort_perm sub true order Ws Hord) as Hperm.
  destruct (reinsert_gates sub I order Hond c4 c5 Hc5) as [G5 Hfresh].
  assert (Hmo : forall y, memb y order = has_gate sub y).
  { intros y. destruct (has_gate sub y) eqn:E.
    - apply memb_In. eapply Permutation_in; [apply Permutation_sym, Hperm|]. apply dmem_keys, E.
    - apply memb_nIn. intros Hin. eapply Permutation_in in Hin; [|exact Hperm].
      apply dmem_keys in Hin. unfold has_gate in E; congruence. }
  assert (Hget7 : forall y, dget (gates c7) y =
                            if has_gate sub y && negb (memb y I) then dget (gates sub) y
                            else if memb y bg then None else dget (gates c2) y).
  { intros y. rewrite G7, G5, Hmo, G4, G3. reflexivity. }
  assert (Nd7 : NoDup (dkeys (gates c7))).
  { rewrite G7. revert Hc5. apply (foldM_ok_inv _ (fun cc => NoDup (dkeys (gates cc)))); [|apply (wm_gkeys _ _ _ M4)].
    intros cc l cc' _ Hcc Hs. destruct (memb l I); [injection Hs as <-; exact Hcc|].
    destruct (get_gate sub l) as [g|] eqn:Eg; simpl in Hs; [|discriminate].
    unfold add_gate in Hs. apply emplace_gate_inv in Hs. destruct Hs as (_ & _ & ->).
    rewrite emplace_raw_gates. apply NoDup_dkeys_dset, Hcc. }
  assert (HIbg : forall i, In i I -> memb i bg = false).
  { intros i Hi. apply memb_nIn. intros Hb. unfold bg, canonical_block_gates in Hb.
    apply filter_In in Hb. destruct Hb as [_ Hb]. apply memb_In in Hb. exact (Hgsd i Hb Hi). }
  assert (Hhas7 : forall o, (has_gate sub o = true /\ ~ In o I) \/
                            (memb o bg = false /\ has_gate c2 o = true) -> has_gate c7 o = true).
  { intros o [[Hs Hi]|[Hb Hc]]; unfold has_gate, dmem; rewrite Hget7.
    - rewrite Hs. apply memb_nIn in Hi; rewrite Hi; simpl. unfold has_gate, dmem in Hs. exact Hs.
    - destruct (has_gate sub o && negb (memb o I)) eqn:Ec.
      + apply andb_true_iff in Ec. destruct Ec as [Es _]. unfold has_gate, dmem in Es. exact Es.
      + rewrite Hb. exact Hc. }
  assert (Ops7 : forall l g o, dget (gates c7) l = Some g -> In o (gops g) -> has_gate c7 o = true).
  { intros l g o Hl Ho. rewrite Hget7 in Hl.
    destruct (has_gate sub l && negb (memb l I)) eqn:Ec.
    - (* a gate of the replacement *)
      pose proof (wf_ops sub Ws l g o Hl Ho) as Hos. apply Hhas7.
      destruct (memb o I) eqn:EoI; [right|left; split; [exact Hos|apply memb_nIn, EoI]].
      apply memb_In in EoI. split; [apply HIbg, EoI|apply Hvg, in_or_app; left; exact EoI].
    - destruct (memb l bg) eqn:Elb; [discriminate|].
      pose proof (wf_ops c2 W2 l g o Hl Ho) as Hoc. apply Hhas7.
      destruct (memb o bg) eqn:Eob; [left|right; auto].
      apply memb_In in Eob. unfold check_block_has_no_users in H7; simpl in H7.
      destruct (check_block_loop_spec _ _ _ _ _ H7 o Eob) as [Hd|Hall].
      + split; [eapply (proj1 (check_gates_exist_ok _ _)); eassumption|apply HDI, Hd].
      + exfalso. assert (In l (users_of c3 o)) as Hu.
        { apply (In_users_ops c3 o l W3). unfold ops_of; rewrite G3, Hl; exact Ho. }
        apply Hall, memb_In in Hu. congruence. }
  destruct (check_from_total c7 (Some (dkeys (gates c7))) Nd7 Ops7) as [Hck|Hck].
  - intros s Hs. apply has_gate_key. exact Hs.
  - rewrite Hck in H; cbn [bind] in H. discriminate.
  - rewrite Hck in H; cbn [bind] in H. injection H as <-; reflexivity.
Qed.
