(* C19, remove_gate: exact outcome, the resulting state, and preservation of the semantics
   of every other gate. *)
Require Import Cirbo.Model.Base Cirbo.Model.Gate Cirbo.Model.Circuit Cirbo.Model.Eval Cirbo.Model.Sem
        Cirbo.Model.WF.
Require Import Cirbo.Proofs.DictFacts Cirbo.Proofs.WFBase Cirbo.Proofs.WFSimple Cirbo.Proofs.WFEmplace
        Cirbo.Proofs.WFRemove Cirbo.Proofs.SemFacts Cirbo.Proofs.SemExt.

Lemma remove1_notin l L : ~ In l L -> remove1 l L = L.
Proof.
  induction L as [|y L IH]; simpl; intros H; [reflexivity|].
  destruct (leqb_spec l y) as [->|Hne]; [exfalso; auto|]. f_equal; auto.
Qed.

Lemma remove_all_notin l L : ~ In l L -> remove_all l L = L.
Proof.
  unfold remove_all; induction L as [|y L IH]; simpl; intros H; [reflexivity|].
  destruct (leqb_spec y l) as [->|Hne]; [exfalso; auto|]. simpl; f_equal; auto.
Qed.

Lemma get_gate_users_eq c l : has_gate c l = true -> get_gate_users c l = Ok (users_of c l).
Proof. unfold get_gate_users, users_of; intros ->. destruct (dget (users c) l); reflexivity. Qed.

(* "nobody uses l", in terms of the gate map *)
Lemma no_users_iff c l : WF c ->
  (users_of c l = [] <-> forall u g, dget (gates c) u = Some g -> ~ In l (gops g)).
Proof.
  intros W; split.
  - intros E u g Hg Hin. assert (In u (users_of c l)) as Hu.
    { apply (In_users_ops c l u W). rewrite (ops_of_get _ _ _ Hg); exact Hin. }
    rewrite E in Hu; destruct Hu.
  - intros H. destruct (users_of c l) as [|u us] eqn:E; [reflexivity|exfalso].
    assert (In u (users_of c l)) as Hu by (rewrite E; left; reflexivity).
    apply (In_users_ops c l u W) in Hu. unfold ops_of in Hu.
    destruct (dget (gates c) u) as [g|] eqn:Eg; [|destruct Hu]. eapply H; eassumption.
Qed.

(* _remove_gate does not fail on an existing gate of a well formed circuit *)
Lemma remove_gate_raw_ok c l : WF c -> has_gate c l = true -> exists c', remove_gate_raw c l = Ok c'.
Proof.
  intros W Hl. destruct (has_gate_get _ _ Hl) as [g Hg].
  unfold remove_gate_raw, get_gate; rewrite Hg; simpl.
  destruct (remove_users_frame c (gops g) l) as (_ & Fi & _).
  destruct (gtype_beq (gtyp g) INPUT) eqn:Et; simpl; [|eauto].
  rewrite Fi. assert (In l (inputs c)) as Hin.
  { apply (wf_inputs c W). exists g; split; [assumption|apply gtype_beq_eq, Et]. }
  rewrite (proj2 (memb_In _ _) Hin); simpl. eauto.
Qed.

Theorem remove_gate_outcome c l : WF c ->
  (has_gate c l = false -> remove_gate c l = Err CircuitValidationError) /\
  (has_gate c l = true -> users_of c l <> [] -> remove_gate c l = Err GateHasUsersError) /\
  (has_gate c l = true -> users_of c l = [] -> exists c', remove_gate c l = Ok c').
Proof.
  intros W. unfold remove_gate, check_gate_has_not_users; simpl. split; [|split].
  - intros ->; reflexivity.
  - intros Hl Hu; rewrite Hl; simpl. rewrite (get_gate_users_eq c l Hl); simpl.
    destruct (users_of c l); [congruence|reflexivity].
  - intros Hl Hu; rewrite Hl; simpl. rewrite (get_gate_users_eq c l Hl), Hu; simpl.
    apply remove_gate_raw_ok; assumption.
Qed.

Corollary remove_gate_ok_iff c l : WF c ->
  ((exists c', remove_gate c l = Ok c') <-> has_gate c l = true /\ users_of c l = []).
Proof.
  intros W. destruct (remove_gate_outcome c l W) as (H1 & H2 & H3). split.
  - intros [c' H]. destruct (has_gate c l) eqn:E; [|rewrite H1 in H; [discriminate|reflexivity]].
    split; [reflexivity|]. destruct (users_of c l) eqn:Eu; [reflexivity|].
    rewrite H2 in H; [discriminate|reflexivity|discriminate].
  - intros [Ha Hb]; auto.
Qed.

(* exact form of the outputs after _remove_gate *)
Lemma remove_gate_raw_outputs c l c' : remove_gate_raw c l = Ok c' -> outputs c' = remove_all l (outputs c).
Proof.
  unfold remove_gate_raw; intros H. binv H g Hg.
  destruct (remove_users_frame c (gops g) l) as (_ & Fi & Fo & _).
  binv H c4 H4.
  assert (outputs c4 = outputs c) as E4.
  { destruct (gtype_beq (gtyp g) INPUT).
    - simpl in H4. destruct (memb l _); [|discriminate]. injection H4 as <-; simpl; exact Fo.
    - injection H4 as <-; simpl; exact Fo. }
  injection H as <-. unfold drop_blocks_mentioning; simpl.
  destruct (memb l (outputs c4)) eqn:Em; simpl; rewrite E4 in *; [reflexivity|].
  apply memb_nIn in Em. symmetry; apply remove_all_notin, Em.
Qed.

(* the state after remove_gate *)
Theorem remove_gate_spec c l c' : WF c -> remove_gate c l = Ok c' ->
  has_gate c l = true /\ users_of c l = [] /\
  (forall x, dget (gates c') x = if leqb x l then None else dget (gates c) x) /\
  inputs c' = remove1 l (inputs c) /\
  outputs c' = remove_all l (outputs c) /\
  blocks c' = filter (fun kb => negb (memb l (bgates (snd kb)) || memb l (binputs (snd kb))
                                      || memb l (boutputs (snd kb)))) (blocks c).
Proof.
  intros W H. assert (exists c', remove_gate c l = Ok c') as Hex by eauto.
  apply (remove_gate_ok_iff c l W) in Hex. destruct Hex as [Hl Hu].
  split; [assumption|]. split; [assumption|].
  unfold remove_gate in H. binv H u0 H0. binv H u1 H1.
  pose proof (remove_gate_raw_outputs _ _ _ H) as Ho.
  apply remove_gate_raw_inv in H. destruct H as (g & Hg & Eg & Eu & Ei & _ & Eb).
  split; [intros x; rewrite Eg; apply dget_ddel, (wf_gkeys c W)|].
  split; [|split; assumption].
  destruct Ei as [[_ ->]|[Ht ->]]; [reflexivity|].
  symmetry; apply remove1_notin. intros Hin; apply (wf_inputs c W) in Hin.
  destruct Hin as (g0 & Hg0 & Ht0). congruence.
Qed.

(* every other gate keeps its value *)
Theorem remove_gate_sem c l c' a : WF c -> remove_gate c l = Ok c' ->
  forall x v, x <> l -> (Eval c' a x v <-> Eval c a x v).
Proof.
  intros W H x v Hx.
  destruct (remove_gate_spec c l c' W H) as (Hl & Hu & Hget & _).
  split; intros HE.
  - eapply Eval_extend; [|exact HE]. intros y g Hy. rewrite Hget in Hy.
    destruct (leqb y l); [discriminate|exact Hy].
  - apply (Eval_restrict c c' a (fun y => y <> l)); [| |exact HE|exact Hx].
    + intros y g o Hy Hg _ Ho ->. eapply (proj1 (no_users_iff c l W) Hu); eassumption.
    + intros y g Hy Hg. rewrite Hget. apply leqb_neq in Hy; rewrite Hy; exact Hg.
Qed.

(* in particular at the remaining outputs *)
Corollary remove_gate_outputs_sem c l c' a : WF c -> remove_gate c l = Ok c' ->
  forall o v, In o (outputs c') -> (Eval c' a o v <-> Eval c a o v).
Proof.
  intros W H o v Ho. apply (remove_gate_sem c l c' a W H).
  destruct (remove_gate_spec c l c' W H) as (_ & _ & _ & _ & Eo & _).
  rewrite Eo in Ho. apply In_remove_all in Ho. tauto.
Qed.
