(* Entry-point equalities from semantic equalities, using the completeness of the evaluators
   (C01: EvalEntry.evaluate_complete): two well-formed circuits with accepted arities whose
   output vectors have the same Eval values under the positional assignments return EQUAL results
   (as `res` values) from evaluate and get_truth_table.  Instances: into_bench (C14) and
   rename_gate (C19). *)
Require Import Cirbo.Model.Base Cirbo.Model.Gate Cirbo.Model.Den Cirbo.Model.Circuit Cirbo.Model.Connect
        Cirbo.Model.Eval Cirbo.Model.Sem Cirbo.Model.WF.
Require Import Cirbo.Generated.Operators Cirbo.Generated.GateTypes.
Require Import Cirbo.Proofs.DictFacts Cirbo.Proofs.SemFacts Cirbo.Proofs.EvalFacts Cirbo.Proofs.EvalComplete
        Cirbo.Proofs.EvalEntry Cirbo.Proofs.TruthTable.
Require Import Cirbo.Proofs.WFEmplace Cirbo.Proofs.WFStep Cirbo.Proofs.WFRename2 Cirbo.Proofs.SemRenameGate
        Cirbo.Proofs.C14Final Cirbo.Proofs.C19Final.

Lemma Forall2_Eval_fun c a ls vs vs' :
  Forall2 (Eval c a) ls vs -> Forall2 (Eval c a) ls vs' -> vs = vs'.
Proof.
  intros H; revert vs'. induction H as [|x y l m Hxy _ IH]; intros vs' H'; inversion H'; subst; [reflexivity|].
  f_equal; [eapply Eval_functional; eassumption|apply IH; assumption].
Qed.

Lemma mapM_ext_in {A B} (f g : A -> res B) l : (forall x, In x l -> f x = g x) -> mapM f l = mapM g l.
Proof.
  induction l as [|x l IH]; intros H; simpl; [reflexivity|].
  rewrite (H x (or_introl eq_refl)), IH; [reflexivity|]. intros y Hy; apply H; right; exact Hy.
Qed.

(* ---- generic: evaluate ---- *)
Lemma evaluate_eq_of_sem_gen c c' vals vals' :
  WF c -> WF c' -> arity_ok c -> arity_ok c' ->
  length (inputs c) <= length vals -> length (inputs c') <= length vals' ->
  (forall vs, Forall2 (Eval c' (vec_assignment c' vals')) (outputs c') vs ->
              Forall2 (Eval c (vec_assignment c vals)) (outputs c) vs) ->
  evaluate c' vals' = evaluate c vals.
Proof.
  intros W W' A A' Hlen Hlen' Hsem.
  destruct (evaluate_complete c vals W A Hlen) as (vs & Hvs & HF).
  destruct (evaluate_complete c' vals' W' A' Hlen') as (vs' & Hvs' & HF').
  rewrite Hvs, Hvs'. f_equal. eapply Forall2_Eval_fun; [apply Hsem; exact HF'|exact HF].
Qed.

Lemma evaluate_eq_of_sem c c' vals :
  WF c -> WF c' -> arity_ok c -> arity_ok c' ->
  length (inputs c') = length (inputs c) ->
  (forall vs, Forall2 (Eval c' (vec_assignment c' vals)) (outputs c') vs ->
              Forall2 (Eval c (vec_assignment c vals)) (outputs c) vs) ->
  evaluate c' vals = evaluate c vals.
Proof.
  intros W W' A A' Hi Hsem.
  destruct (le_lt_dec (length (inputs c)) (length vals)) as [Hlen|Hlen].
  - apply evaluate_eq_of_sem_gen; try assumption. rewrite Hi; exact Hlen.
  - rewrite (evaluate_short c vals Hlen). apply evaluate_short. rewrite Hi. exact Hlen.
Qed.

(* an entry of the truth table is the component of evaluate on the vector with that index *)
Lemma get_truth_table_entry c tt : WF c -> arity_ok c -> get_truth_table c = Ok tt ->
  length tt = length (outputs c) /\
  forall j x, j < length (outputs c) -> length x = length (inputs c) ->
    exists row r v, nth_error tt j = Some row /\ evaluate c (map inj x) = Ok r /\
                    nth_error r j = Some v /\ nth_error row (val_be x) = Some v.
Proof.
  intros W A Htt. destruct (get_truth_table_complete c W A) as (tt0 & Htt0 & Hlen & Hent).
  assert (tt0 = tt) by congruence; subst tt0. split; [exact Hlen|]. intros j x Hj Hx.
  destruct (nth_error (outputs c) j) as [o|] eqn:Eo; [|apply nth_error_None in Eo; lia].
  pose proof (abv_complete x) as Hi. rewrite Hx in Hi.
  destruct (Hent j o (val_be x) x Eo Hi) as (row & v & Hrow & _ & Hv & He).
  destruct (evaluate_complete c (map inj x) W A) as (r & Hr & HF); [rewrite map_length, Hx; apply le_n|].
  destruct (Forall2_nth_error_l _ _ _ HF j o Eo) as (v' & Hv' & He').
  exists row, r, v. repeat split; try assumption.
  rewrite Hv'. f_equal. eapply Eval_functional; eassumption.
Qed.

(* ---- generic: get_truth_table ---- *)
Lemma get_truth_table_eq_of_evaluate c c' :
  length (inputs c') = length (inputs c) -> length (outputs c') = length (outputs c) ->
  (forall bs, length bs = length (inputs c) -> evaluate c' (map inj bs) = evaluate c (map inj bs)) ->
  get_truth_table c' = get_truth_table c.
Proof.
  intros Hi Ho He. unfold get_truth_table. rewrite Hi, Ho.
  rewrite (mapM_ext_in (fun x => evaluate c' (map inj x)) (fun x => evaluate c (map inj x))); [reflexivity|].
  intros x Hx. apply He. apply abv_In_length in Hx. exact Hx.
Qed.

(* ================= C14: into_bench ================= *)
(* the converted circuit has accepted arities: every gate of c' has a value under a total
   assignment (old gates by C14_function_preserved, helpers as operands of old gates) *)
Lemma into_bench_arity_ok c fresh c' :
  Inv c -> arity_ok c -> into_bench c fresh = Ok c' -> arity_ok c'.
Proof.
  intros I A H. pose proof I as [W N].
  pose proof (into_bench_wf' c fresh c' I A H) as [W' N'].
  destruct (into_bench_blocks_spec' c fresh c' I A H) as (Hold & _ & _ & Hnew).
  set (a := vec_assignment c (map inj (repeat true (length (inputs c))))).
  assert (Ht : total_on c a).
  { apply vec_assignment_total; [exact W|]. rewrite repeat_length. apply le_n. }
  assert (Hval : forall l, has_gate c l = true -> exists v, Eval c' a l v).
  { intros l Hl. destruct (Eval_exists c a W A l Hl) as [v Hv]. exists v.
    apply (into_bench_sem' c fresh c' a I A H Ht l v Hl). exact Hv. }
  intros l g Hg Hty.
  destruct (has_gate c l) eqn:El.
  - destruct (Hval l El) as [v Hv]. eapply Eval_needs_arity; eassumption.
  - assert (Hl' : has_gate c' l = true) by (unfold has_gate, dmem; rewrite Hg; reflexivity).
    destruct (Hnew l Hl' El) as (l0 & Hl0 & _ & Hin & _).
    destruct (Hval l0 Hl0) as [v0 Hv0]. unfold ops_of in Hin.
    inversion Hv0 as [l1 g0 Hg0 Ht0|l1 g0 vs v1 Hg0 Ht0 Hops Hop]; subst.
    + rewrite Hg0 in Hin. rewrite (N' l0 g0 Hg0 Ht0) in Hin. contradiction.
    + rewrite Hg0 in Hin.
      assert (Hex : exists v, Eval c' a l v).
      { clear - Hops Hin. induction Hops as [|x y xs ys Hxy _ IH]; [contradiction|].
        destruct Hin as [->|Hin]; [eauto|apply IH; exact Hin]. }
      destruct Hex as [v Hv]. eapply Eval_needs_arity; eassumption.
Qed.

(* evaluate on every Boolean vector (of any length: a short one raises IndexError on both) *)
Theorem into_bench_evaluate_eq c fresh c' bs :
  Inv c -> arity_ok c -> into_bench c fresh = Ok c' ->
  evaluate c' (map inj bs) = evaluate c (map inj bs).
Proof.
  intros I A H. pose proof I as [W N].
  pose proof (into_bench_wf' c fresh c' I A H) as [W' N'].
  destruct (into_bench_io' c fresh c' I A H) as [Hi Ho].
  destruct (le_lt_dec (length (inputs c)) (length (map inj bs))) as [Hlen|Hlen].
  - apply evaluate_eq_of_sem; try assumption.
    + exact (into_bench_arity_ok c fresh c' I A H).
    + rewrite Hi; reflexivity.
    + intros vs HF. unfold vec_assignment in HF. rewrite Hi in HF. fold (vec_assignment c (map inj bs)) in HF.
      apply (into_bench_outputs_sem' c fresh c' _ I A H); [|exact HF].
      apply vec_assignment_total; [exact W|]. rewrite map_length in Hlen. exact Hlen.
  - rewrite (evaluate_short c _ Hlen). apply evaluate_short. rewrite Hi. exact Hlen.
Qed.

Theorem into_bench_truth_table_eq c fresh c' :
  Inv c -> arity_ok c -> into_bench c fresh = Ok c' -> get_truth_table c' = get_truth_table c.
Proof.
  intros I A H. destruct (into_bench_io' c fresh c' I A H) as [Hi Ho].
  apply get_truth_table_eq_of_evaluate; [rewrite Hi; reflexivity|rewrite Ho; reflexivity|].
  intros bs _. eapply into_bench_evaluate_eq; eassumption.
Qed.

(* both calls return: the table exists *)
Corollary into_bench_truth_table_ok c fresh c' :
  Inv c -> arity_ok c -> into_bench c fresh = Ok c' ->
  exists tt, get_truth_table c = Ok tt /\ get_truth_table c' = Ok tt.
Proof.
  intros I A H. pose proof I as [W N].
  destruct (get_truth_table_complete c W A) as (tt & Htt & _). exists tt. split; [exact Htt|].
  rewrite (into_bench_truth_table_eq c fresh c' I A H). exact Htt.
Qed.

(* ================= C19: rename_gate ================= *)
Lemma rename_gate_arity_ok c old new c' :
  WF c -> arity_ok c -> rename_gate c old new = Ok c' -> arity_ok c'.
Proof.
  intros W A H y g' Hg' Hty.
  destruct (rename_gate_get_inv c c' old new W H y g' Hg') as (_ & g & Hg & _ & ->).
  simpl in *. rewrite map_length. eapply A; eassumption.
Qed.

(* evaluate takes its values positionally, so it does not see the renaming: equal results on
   every value vector (three-valued, any length) *)
Theorem rename_gate_evaluate_eq c old new c' vals :
  WF c -> arity_ok c -> rename_gate c old new = Ok c' -> evaluate c' vals = evaluate c vals.
Proof.
  intros W A H. pose proof (rename_gate_wf c old new c' W H) as W'.
  pose proof (rename_inputs c c' old new W H) as Hi.
  apply evaluate_eq_of_sem; try assumption.
  - exact (rename_gate_arity_ok c old new c' W A H).
  - rewrite Hi, map_length; reflexivity.
  - intros vs HF. apply (rename_gate_outputs_sem c c' old new W H (vec_assignment c vals) (vec_assignment c' vals)); [|exact HF].
    intros l Hl. apply In_nth_error in Hl. destruct Hl as [i Hi'].
    unfold aval. rewrite (vec_assignment_nth c vals i l W Hi').
    rewrite (vec_assignment_nth c' vals i (ren old new l) W'); [reflexivity|].
    rewrite Hi, nth_error_map, Hi'. reflexivity.
Qed.

Theorem rename_gate_truth_table_eq c old new c' :
  WF c -> arity_ok c -> rename_gate c old new = Ok c' -> get_truth_table c' = get_truth_table c.
Proof.
  intros W A H. apply get_truth_table_eq_of_evaluate.
  - rewrite (rename_inputs c c' old new W H), map_length; reflexivity.
  - rewrite (rename_outputs c c' old new H), map_length; reflexivity.
  - intros bs _. eapply rename_gate_evaluate_eq; eassumption.
Qed.

Corollary rename_gate_truth_table_ok c old new c' :
  WF c -> arity_ok c -> rename_gate c old new = Ok c' ->
  exists tt, get_truth_table c = Ok tt /\ get_truth_table c' = Ok tt.
Proof.
  intros W A H. destruct (get_truth_table_complete c W A) as (tt & Htt & _). exists tt. split; [exact Htt|].
  rewrite (rename_gate_truth_table_eq c old new c' W A H). exact Htt.
Qed.
