(* C02: connect_circuit and its wrappers preserve WF /\ inputs_nullary.
   Part 1: the relaxed invariant WFcore (WF without the two `inputs` fields and with the
   rank kept outside), the generic "write one gate" lemma, facts about map_list and
   build_mapping, and the part of connect_circuit that follows the main loop.

   Why a relaxed invariant: a right connection overwrites INPUT gates of the circuit by
   gates of the other circuit without touching the `inputs` list; wf_inputs is broken in
   the intermediate states and re-established by the final set_inputs only. *)
Require Import Cirbo.Model.Base Cirbo.Model.Gate Cirbo.Model.Circuit Cirbo.Model.Traverse
        Cirbo.Model.Connect Cirbo.Model.WF.
Require Import Cirbo.Proofs.DictFacts Cirbo.Proofs.WFBase Cirbo.Proofs.WFSimple Cirbo.Proofs.WFEmplace.

(* ------------------------------------------------------------------ *)
(* WF minus wf_inputs_nodup, wf_inputs and wf_acyclic *)
Record WFcore (c : circuit) : Prop := mkWFcore {
  wc_gkeys : NoDup (dkeys (gates c));
  wc_ukeys : NoDup (dkeys (users c));
  wc_bkeys : NoDup (dkeys (blocks c));
  wc_ops : forall l g o, dget (gates c) l = Some g -> In o (gops g) -> has_gate c o = true;
  wc_outs : forall o, In o (outputs c) -> has_gate c o = true;
  wc_users : forall l u, count u (users_of c l) = count l (ops_of c u);
  wc_blocks : forall b blk l, dget (blocks c) b = Some blk ->
                              In l (bgates blk ++ binputs blk ++ boutputs blk) -> has_gate c l = true }.

Definition ranked (c : circuit) (rk : label -> nat) : Prop :=
  forall l g o, dget (gates c) l = Some g -> In o (gops g) -> rk o < rk l.

Lemma WF_core c : WF c -> WFcore c.
Proof. intros W; destruct W; constructor; assumption. Qed.

Lemma WF_ranked c : WF c -> exists rk, ranked c rk.
Proof. intros W; exact (wf_acyclic c W). Qed.

Lemma core_WF c :
  WFcore c -> NoDup (inputs c) ->
  (forall l, In l (inputs c) <-> exists g, dget (gates c) l = Some g /\ gtyp g = INPUT) ->
  (exists rk, ranked c rk) -> WF c.
Proof. intros P H1 H2 H3; destruct P; constructor; assumption. Qed.

Lemma ranked_same_gates c c' rk : gates c' = gates c -> ranked c rk -> ranked c' rk.
Proof. unfold ranked; intros ->; auto. Qed.

(* ------------------------------------------------------------------ *)
(* writing one gate (new label or existing label) *)
Lemma dset_has_gate c c' l v x :
  gates c' = dset (gates c) l v -> has_gate c' x = leqb x l || has_gate c x.
Proof. unfold has_gate; intros ->; apply dmem_dset. Qed.

Lemma dset_has_gate_mono c c' l v x :
  gates c' = dset (gates c) l v -> has_gate c x = true -> has_gate c' x = true.
Proof. intros Hg Hx; rewrite (dset_has_gate c c' l v x Hg), Hx; apply orb_true_r. Qed.

Lemma core_write c c' l t ops :
  WFcore c ->
  gates c' = dset (gates c) l (mkGate t ops) ->
  outputs c' = outputs c -> blocks c' = blocks c ->
  NoDup (dkeys (users c')) ->
  (forall x u, u <> l -> count u (users_of c' x) = count u (users_of c x)) ->
  (forall x, count l (users_of c' x) = count x ops) ->
  (forall o, In o ops -> has_gate c o = true) ->
  WFcore c'.
Proof.
  intros P Hg Ho Hb Huk Hu1 Hu2 Hops.
  assert (Hmono : forall x, has_gate c x = true -> has_gate c' x = true).
  { intros x; eapply dset_has_gate_mono; eassumption. }
  constructor.
  - rewrite Hg; apply NoDup_dkeys_dset, (wc_gkeys c P).
  - assumption.
  - rewrite Hb; apply (wc_bkeys c P).
  - intros x gx o Hx Hin. apply Hmono. rewrite Hg, dget_dset in Hx. destruct (leqb x l).
    + injection Hx as <-; simpl in Hin; auto.
    + eapply (wc_ops c P); eassumption.
  - intros o Hin; rewrite Ho in Hin; apply Hmono, (wc_outs c P), Hin.
  - intros x u. unfold ops_of at 1. rewrite Hg, dget_dset.
    destruct (leqb_spec u l) as [Heq|Hne]; [subst u|].
    + simpl; apply Hu2.
    + rewrite Hu1 by assumption. apply (wc_users c P).
  - intros b blk x Hbk Hx. rewrite Hb in Hbk. apply Hmono. eapply (wc_blocks c P); eassumption.
Qed.

Lemma ranked_write c c' l t ops rk :
  gates c' = dset (gates c) l (mkGate t ops) ->
  (forall x gx o, x <> l -> dget (gates c) x = Some gx -> In o (gops gx) -> rk o < rk x) ->
  (forall o, In o ops -> rk o < rk l) ->
  ranked c' rk.
Proof.
  intros Hg H1 H2 x gx o Hx Ho. rewrite Hg, dget_dset in Hx.
  destruct (leqb_spec x l) as [Heq|Hne]; [subst x|].
  - injection Hx as <-; simpl in Ho; auto.
  - eapply H1; eassumption.
Qed.

(* (a) a new gate *)
Lemma emplace_gate_raw_core c l t ops :
  WFcore c -> has_gate c l = false -> (forall o, In o ops -> has_gate c o = true) ->
  WFcore (emplace_gate_raw c l t ops).
Proof.
  intros P Hl Hops. apply (core_write c _ l t ops); try assumption.
  - apply emplace_raw_gates.
  - apply emplace_raw_outputs.
  - apply emplace_raw_blocks.
  - rewrite emplace_raw_users; apply add_users_ukeys, (wc_ukeys c P).
  - intros x u Hne. rewrite emplace_raw_users_of, count_users_add_users.
    apply leqb_neq in Hne; rewrite Hne; lia.
  - intros x. rewrite emplace_raw_users_of, count_users_add_users, leqb_refl, (wc_users c P).
    rewrite (ops_of_none c l (has_gate_false_get c l Hl)). reflexivity.
Qed.

(* (b) overwriting the existing gate nl (stored value old) by (t, ops): the else-branch
   of the connect loop *)
Definition overwrite (c : circuit) (nl : label) (old : gate) (t : gtype) (ops : list label) : circuit :=
  let c1 := remove_users c (gops old) nl in
  let c2 := add_users c1 ops nl in
  set_gates c2 (dset (gates c2) nl (mkGate t ops)).

Lemma overwrite_frame c nl old t ops :
  gates (overwrite c nl old t ops) = dset (gates c) nl (mkGate t ops) /\
  inputs (overwrite c nl old t ops) = inputs c /\
  outputs (overwrite c nl old t ops) = outputs c /\
  blocks (overwrite c nl old t ops) = blocks c.
Proof.
  unfold overwrite; simpl.
  destruct (add_users_frame (remove_users c (gops old) nl) ops nl) as (A & B & C & D).
  destruct (remove_users_frame c (gops old) nl) as (A' & B' & C' & D').
  rewrite A, A'. repeat split; congruence.
Qed.

Lemma overwrite_users_of c nl old t ops x :
  users_of (overwrite c nl old t ops) x =
  users_of (add_users (remove_users c (gops old) nl) ops nl) x.
Proof. reflexivity. Qed.

Lemma overwrite_core c nl old t ops :
  WFcore c -> dget (gates c) nl = Some old -> (forall o, In o ops -> has_gate c o = true) ->
  WFcore (overwrite c nl old t ops).
Proof.
  intros P Hold Hops. destruct (overwrite_frame c nl old t ops) as (Fg & _ & Fo & Fb).
  apply (core_write c _ nl t ops); try assumption.
  - unfold overwrite; simpl. apply add_users_ukeys, remove_users_ukeys, (wc_ukeys c P).
  - intros x u Hne. rewrite overwrite_users_of, count_users_add_users, count_users_remove_users.
    apply leqb_neq in Hne; rewrite Hne; lia.
  - intros x. rewrite overwrite_users_of, count_users_add_users, count_users_remove_users, leqb_refl.
    rewrite (wc_users c P), (ops_of_get c nl old Hold). lia.
Qed.

(* ------------------------------------------------------------------ *)
(* map_list *)
Lemma map_list_F2 m ls r :
  map_list m ls = Ok r -> Forall2 (fun x y => dget m x = Some y) ls r.
Proof.
  intros H; apply mapM_ok_Forall2 in H.
  induction H as [|x y ls r Hxy _ IH]; constructor; [|exact IH].
  unfold map_get in Hxy. destruct (dget m x); [injection Hxy as <-; reflexivity|discriminate].
Qed.

Lemma map_list_in m ls r y :
  map_list m ls = Ok r -> In y r -> exists x, In x ls /\ dget m x = Some y.
Proof.
  intros H; apply map_list_F2 in H.
  induction H as [|x y0 ls r Hxy _ IH]; intros Hin; [destruct Hin|].
  destruct Hin as [Heq|Hin].
  - subst y0. exists x; split; [left; reflexivity|assumption].
  - destruct (IH Hin) as [x0 [A B]]. exists x0; split; [right|]; assumption.
Qed.

Lemma map_list_nil m r : map_list m [] = Ok r -> r = [].
Proof. simpl; intros [= <-]; reflexivity. Qed.

(* ------------------------------------------------------------------ *)
(* build_mapping *)
Definition minj (m : dict label) : Prop :=
  forall a b v, dget m a = Some v -> dget m b = Some v -> a = b.

Lemma bm_keys : forall oc tc m,
  NoDup (dkeys m) -> NoDup (dkeys (build_mapping oc tc m)).
Proof.
  induction oc as [|o oc IH]; intros tc m H; simpl; [assumption|].
  destruct tc as [|t tc]; [assumption|]. apply IH, NoDup_dkeys_dset, H.
Qed.

Lemma bm_vals : forall oc tc m o t,
  dget (build_mapping oc tc m) o = Some t -> In t tc \/ dget m o = Some t.
Proof.
  induction oc as [|o1 oc IH]; intros tc m o t H; simpl in H; [right; assumption|].
  destruct tc as [|t1 tc]; [right; assumption|].
  apply IH in H. destruct H as [H|H]; [left; right; assumption|].
  rewrite dget_dset in H. destruct (leqb o o1); [|right; assumption].
  injection H as <-. left; left; reflexivity.
Qed.

Lemma bm_inj : forall oc tc m,
  NoDup tc -> minj m -> (forall o t, dget m o = Some t -> ~ In t tc) ->
  minj (build_mapping oc tc m).
Proof.
  induction oc as [|o1 oc IH]; intros tc m Hnd Hi Hv; simpl; [assumption|].
  destruct tc as [|t1 tc]; [assumption|].
  inversion Hnd as [|? ? Hn1 Hnd']; subst.
  apply IH; [assumption| |].
  - intros a b v Ha Hb. rewrite dget_dset in Ha, Hb.
    destruct (leqb_spec a o1) as [Ea|Na]; destruct (leqb_spec b o1) as [Eb|Nb].
    + congruence.
    + injection Ha as <-. exfalso; apply (Hv b t1 Hb); left; reflexivity.
    + injection Hb as <-. exfalso; apply (Hv a t1 Ha); left; reflexivity.
    + eapply Hi; eassumption.
  - intros o t Ho. rewrite dget_dset in Ho. destruct (leqb o o1).
    + injection Ho as <-; assumption.
    + intros Hin; apply (Hv o t Ho); right; assumption.
Qed.

Lemma bm_nil_keys oc tc : NoDup (dkeys (build_mapping oc tc [])).
Proof. apply bm_keys; constructor. Qed.

Lemma bm_nil_vals oc tc o t : dget (build_mapping oc tc []) o = Some t -> In t tc.
Proof. intros H; apply bm_vals in H; destruct H as [H|H]; [assumption|discriminate]. Qed.

Lemma bm_nil_inj oc tc : NoDup tc -> minj (build_mapping oc tc []).
Proof.
  intros H; apply bm_inj; [assumption| |]; [intros a b v Ha; discriminate|intros o t Ho; discriminate].
Qed.

(* ------------------------------------------------------------------ *)
(* set_outputs / set_inputs on the relaxed invariant *)
Lemma set_outputs_core c outs c' :
  WFcore c -> set_outputs c outs = Ok c' -> WFcore c' /\ gates c' = gates c.
Proof.
  unfold set_outputs; intros P H. binv H u Hu. injection H as <-. split; [|reflexivity].
  pose proof (check_gates_exist_unit _ _ _ Hu) as He.
  destruct P; constructor; simpl; auto.
Qed.

(* the checks of set_inputs give exactly the two `inputs` fields *)
Lemma set_inputs_core c ins c' :
  WFcore c -> (exists rk, ranked c rk) -> set_inputs c ins = Ok c' -> WF c' /\ gates c' = gates c.
Proof.
  unfold set_inputs; intros P R H. binv H u Hu.
  destruct (forallb _ (gates c)) eqn:Ef; [|discriminate]. binv H acc Hacc. injection H as <-.
  apply set_inputs_loop_spec in Hacc; [|constructor]. simpl in Hacc. destruct Hacc as (-> & Hnd & Hall).
  split; [|reflexivity]. apply core_WF.
  - destruct P; constructor; simpl; auto.
  - exact Hnd.
  - intros l; simpl. split; [apply Hall|]. intros [g [Hg Ht]].
    rewrite forallb_forall in Ef. specialize (Ef (l, g) (dget_In _ _ _ Hg)); simpl in Ef.
    rewrite Ht in Ef; simpl in Ef. apply memb_In, Ef.
  - exact R.
Qed.

(* ------------------------------------------------------------------ *)
(* connect_circuit = checks ; loop ; tail *)
Definition conn_step (other : circuit) (mapping : dict label) (prefix : string) (right_connect : bool)
           (st : circuit * dict label * list label) (l : label)
  : res (circuit * dict label * list label) :=
  let '(c, o2n, blk) := st in
  do g <- get_gate other l;
  if negb (dmem mapping l) then
    let nl := (prefix ++ l)%string in
    let o2n' := dset o2n l nl in
    do ops <- map_list o2n' (gops g);
    do c' <- emplace_gate c nl (gtyp g) ops;
    Ok (c', o2n', if gtype_beq (gtyp g) INPUT then blk else blk ++ [nl])
  else if right_connect then
    do nl <- map_get o2n l;
    do ops <- map_list o2n (gops g);
    do old <- match dget (gates c) nl with Some x => Ok x | None => Err PyKeyError end;
    Ok (overwrite c nl old (gtyp g) ops, o2n,
        if gtype_beq (gtyp g) INPUT then blk else blk ++ [nl])
  else Ok st.

Definition conn_tail (c other : circuit) (tc oc : list label) (name : label) (prefix : string)
           (st : circuit * dict label * list label) : res circuit :=
  let '(c1, o2n, blk) := st in
  do new_outs <- map_list o2n (filter (fun o => negb (memb o oc)) (outputs other));
  do c2 <- set_outputs c1 (filter (fun o => negb (memb o tc)) (outputs c1) ++ new_outs);
  do keep_ins <- mapM (fun i => match dget (gates c2) i with
                                | Some g => Ok (i, gtype_beq (gtyp g) INPUT)
                                | None => Err PyKeyError end) (inputs c);
  do new_ins <- map_list o2n (filter (fun i => negb (memb i oc)) (inputs other));
  do c3 <- set_inputs c2 (map fst (filter snd keep_ins) ++ new_ins);
  do c4 <- foldM (fun c (kb : label * block) =>
             let nb := (prefix ++ fst kb)%string in
             do _ <- check_block_doesnt_exist nb c;
             do bi <- map_list o2n (binputs (snd kb));
             do bg <- map_list o2n (bgates (snd kb));
             do bo <- map_list o2n (boutputs (snd kb));
             Ok (set_blocks c (dset (blocks c) nb (mkBlock bi bg bo)))) (blocks other) c3;
  if negb (leqb name "") then
    do bi <- map_list o2n (inputs other);
    do bo <- map_list o2n (outputs other);
    Ok (set_blocks c4 (dset (blocks c4) name (mkBlock bi (canonical_block_gates c4 blk) bo)))
  else Ok c4.

Definition conn_prefix (name : label) (add_prefix : bool) : string :=
  if negb (leqb name "") && add_prefix then (name ++ "@")%string else "".

Lemma connect_circuit_unfold c other tc oc right_connect name add_prefix :
  connect_circuit c other tc oc right_connect name add_prefix =
  (do _ <- check_block_doesnt_exist name c;
   do _ <- check_gates_exist tc c;
   do _ <- check_gates_exist oc other;
   do _ <- (if right_connect then
              if nodupb tc then if nodupb oc then Ok tt else Err CreateBlockError
              else Err CreateBlockError
            else if nodupb oc then Ok tt else Err CreateBlockError);
   do _ <- (if Nat.eqb (length tc) (length oc) then Ok tt else Err CreateBlockError);
   do _ <- (if right_connect then
              if forallb (is_input_gate c) tc then Ok tt else Err CreateBlockError
            else if forallb (is_input_gate other) oc then Ok tt else Err CreateBlockError);
   do order <- top_sort true other;
   do st <- foldM (conn_step other (build_mapping oc tc []) (conn_prefix name add_prefix) right_connect)
                  order (c, build_mapping oc tc [], []);
   conn_tail c other tc oc name (conn_prefix name add_prefix) st).
Proof. reflexivity. Qed.

(* ------------------------------------------------------------------ *)
(* the tail: outputs, inputs, blocks *)
(* Q is a switch: Q := True tracks inputs_nullary, Q := False ignores it *)
Lemma conn_tail_inv (Q : Prop) c other tc oc name prefix c1 o2n blk c' :
  WFcore c1 -> (exists rk, ranked c1 rk) -> (Q -> inputs_nullary c1) ->
  (forall o t, dget o2n o = Some t -> has_gate c1 t = true) ->
  conn_tail c other tc oc name prefix (c1, o2n, blk) = Ok c' ->
  WF c' /\ (Q -> inputs_nullary c').
Proof.
  intros P [rk R] N V H. unfold conn_tail in H; cbv beta iota in H.
  binv H new_outs Hno. binv H c2 H2. binv H keep Hk. binv H new_ins Hni. binv H c3 H3. binv H c4 H4.
  destruct (set_outputs_core _ _ _ P H2) as [P2 G2].
  assert (R2 : exists rk2, ranked c2 rk2) by (exists rk; eapply ranked_same_gates; eassumption).
  destruct (set_inputs_core _ _ _ P2 R2 H3) as [W3 G3].
  assert (Hmap : forall ls r, map_list o2n ls = Ok r -> forall y, In y r -> has_gate c1 y = true).
  { intros ls r Hr y Hy. destruct (map_list_in _ _ _ _ Hr Hy) as [x [_ Hx]]. eapply V; eassumption. }
  assert (G13 : gates c3 = gates c1) by congruence.
  assert (P4 : WF c4 /\ gates c4 = gates c1).
  { revert H4. apply (foldM_ok_inv _ (fun s => WF s /\ gates s = gates c1)); [|split; assumption].
    intros s kb s' _ [Ws Gs] Hs. binv Hs u Hu. binv Hs bi Hbi. binv Hs bg Hbg. binv Hs bo Hbo.
    injection Hs as <-. split; [|exact Gs].
    assert (Hh : forall y, has_gate c1 y = true -> has_gate s y = true).
    { intros y; unfold has_gate; rewrite Gs; auto. }
    apply WF_add_block; [assumption| | |]; intros y Hy; apply Hh.
    - exact (Hmap _ _ Hbg y Hy).
    - exact (Hmap _ _ Hbo y Hy).
    - exact (Hmap _ _ Hbi y Hy). }
  destruct P4 as [W4 G4].
  assert (Hh4 : forall y, has_gate c1 y = true -> has_gate c4 y = true).
  { intros y; unfold has_gate; rewrite G4; auto. }
  destruct (negb (leqb name "")).
  - binv H bi Hbi. binv H bo Hbo. injection H as <-. split.
    + apply WF_add_block; [assumption| | |].
      * intros y Hy. unfold canonical_block_gates in Hy. apply filter_In in Hy.
        destruct Hy as [Hy _]. apply dmem_keys, Hy.
      * intros y Hy; apply Hh4; exact (Hmap _ _ Hbo y Hy).
      * intros y Hy; apply Hh4; exact (Hmap _ _ Hbi y Hy).
    + intros q. eapply nullary_same_gates; [|exact (N q)]. simpl; exact G4.
  - injection H as <-. split; [assumption|]. intros q. eapply nullary_same_gates; [|exact (N q)]. exact G4.
Qed.
