(* get_by_raw_truth_table_model (C17): the circuit returned for a table with don't-cares was
   returned by the fully defined lookup for one substitution of the don't-cares, that
   substitution leaves every defined entry as it is, and no enumerated substitution yields a
   smaller circuit; every completion of the don't-cares is among the enumerated substitutions. *)
Require Import Cirbo.Model.Base Cirbo.Model.Gate Cirbo.Model.Circuit Cirbo.Model.Eval Cirbo.Model.Db.
Require Import Cirbo.Proofs.DbTruthTableFacts Cirbo.Proofs.NormFacts Cirbo.Proofs.DbFacts.

Definition lookup_at (d : db) (tm : table_model) (s : list bool) : dbres (option circuit) :=
  get_by_raw_truth_table d (substitute (defined_table tm) (undefined_positions tm) s).

(* ---- the loop keeps a smallest hit ---- *)
Definition best_ok (d : db) (tm : table_model) (excl : option (list gtype))
           (seen : list (list bool)) (best : option (circuit * nat)) : Prop :=
  match best with
  | None => forall s, In s seen -> lookup_at d tm s = DbOk None
  | Some (c, sz) =>
    sz = gates_number c excl /\ (exists s, In s seen /\ lookup_at d tm s = DbOk (Some c)) /\
    forall s c2, In s seen -> lookup_at d tm s = DbOk (Some c2) -> (sz <= gates_number c2 excl)%nat
  end.

Lemma model_loop_spec d tm excl : forall subs seen best r,
  model_loop d (defined_table tm) (undefined_positions tm) excl subs best = DbOk r ->
  best_ok d tm excl seen best -> best_ok d tm excl (seen ++ subs) r.
Proof.
  induction subs as [|s subs IH]; intros seen best r H Hb; simpl in H.
  - injection H as <-. rewrite app_nil_r; exact Hb.
  - fold (lookup_at d tm s) in H. destruct (lookup_at d tm s) as [oc|] eqn:El; simpl in H; [|discriminate].
    replace (seen ++ s :: subs) with ((seen ++ [s]) ++ subs) by (rewrite <- app_assoc; reflexivity).
    destruct oc as [c|].
    + destruct best as [[cb bsz]|].
      * destruct Hb as (Hsz & (sb & Hsb & Elb) & Hmin).
        destruct (Nat.ltb_spec (gates_number c excl) bsz) as [Hlt|Hge]; eapply IH; try exact H.
        -- split; [reflexivity|]. split; [exists s; split; [apply in_or_app; right; left; reflexivity|exact El]|].
           intros s2 c2 Hin E2. apply in_app_or in Hin as [Hin|[<-|[]]].
           ++ specialize (Hmin _ _ Hin E2). lia.
           ++ rewrite El in E2. injection E2 as <-. lia.
        -- split; [exact Hsz|]. split; [exists sb; split; [apply in_or_app; left; exact Hsb|exact Elb]|].
           intros s2 c2 Hin E2. apply in_app_or in Hin as [Hin|[<-|[]]]; [eapply Hmin; eassumption|].
           rewrite El in E2. injection E2 as <-. exact Hge.
      * eapply IH; [exact H|]. split; [reflexivity|].
        split; [exists s; split; [apply in_or_app; right; left; reflexivity|exact El]|].
        intros s2 c2 Hin E2. apply in_app_or in Hin as [Hin|[<-|[]]].
        -- rewrite (Hb _ Hin) in E2. discriminate.
        -- rewrite El in E2. injection E2 as <-. lia.
    + eapply IH; [exact H|]. destruct best as [[cb bsz]|].
      * destruct Hb as (Hsz & (sb & Hsb & Elb) & Hmin). split; [exact Hsz|].
        split; [exists sb; split; [apply in_or_app; left; exact Hsb|exact Elb]|].
        intros s2 c2 Hin E2. apply in_app_or in Hin as [Hin|[<-|[]]]; [eapply Hmin; eassumption|].
        rewrite El in E2. discriminate.
      * intros s2 Hin. apply in_app_or in Hin as [Hin|[<-|[]]]; [apply Hb; exact Hin|exact El].
Qed.

Theorem model_lookup_spec d tm excl c :
  get_by_raw_truth_table_model d tm excl = DbOk (Some c) ->
  let subs := all_bool_vectors (length (undefined_positions tm)) in
  (exists s, In s subs /\ lookup_at d tm s = DbOk (Some c)) /\
  forall s c2, In s subs -> lookup_at d tm s = DbOk (Some c2) -> (gates_number c excl <= gates_number c2 excl)%nat.
Proof.
  unfold get_by_raw_truth_table_model.
  destruct (model_loop d (defined_table tm) (undefined_positions tm) excl
              (all_bool_vectors (length (undefined_positions tm))) None) as [r|] eqn:E; simpl; [|discriminate].
  intros H. apply (model_loop_spec d tm excl _ [] None) in E; [|intros s []]. simpl in E.
  destruct r as [[c0 sz]|]; simpl in H; [|discriminate]. injection H as <-.
  destruct E as (-> & Hex & Hmin). split; [exact Hex|exact Hmin].
Qed.

(* ---- substitutions only touch don't-care cells ---- *)
Definition cell_agrees (m : option bool) (b : bool) : Prop := match m with Some x => b = x | None => True end.
Definition agrees (tm : table_model) (t : table) : Prop := Forall2 (Forall2 cell_agrees) tm t.

Lemma defined_table_agrees tm : agrees tm (defined_table tm).
Proof.
  unfold agrees, defined_table. induction tm as [|row tm IH]; simpl; constructor; [|exact IH].
  induction row as [|m row IHr]; simpl; constructor; [|exact IHr]. destruct m as [[|]|]; simpl; auto.
Qed.

Lemma Forall2_map_enumerate {A B} (R : A -> B -> Prop) (F : nat * B -> B) : forall l r k0,
  Forall2 R l r ->
  (forall idx a b, nth_error l idx = Some a -> nth_error r idx = Some b -> R a b -> R a (F ((k0 + idx)%nat, b))) ->
  Forall2 R l (map F (enumerate_from k0 r)).
Proof.
  intros l r k0 H; revert k0; induction H as [|a b l r Hab _ IH]; intros k0 HF; simpl; constructor.
  - specialize (HF O a b eq_refl eq_refl Hab). rewrite Nat.add_0_r in HF. exact HF.
  - apply IH. intros idx a' b' Ha Hb Hr. replace (S k0 + idx)%nat with (k0 + S idx)%nat by lia.
    apply (HF (S idx)); assumption.
Qed.

Lemma table_set_agrees tm t i j v :
  agrees tm t ->
  (forall row, nth_error tm i = Some row -> nth_error row j = Some None \/ nth_error row j = None) ->
  agrees tm (table_set t i j v).
Proof.
  intros Ha Hnone. unfold agrees, table_set. apply Forall2_map_enumerate; [exact Ha|].
  intros idx mrow row Hm Hr Hrow. simpl. destruct (Nat.eqb_spec idx i) as [->|]; [|exact Hrow].
  apply Forall2_map_enumerate; [exact Hrow|]. intros jdx m b Hmj Hbj Hc. simpl.
  destruct (Nat.eqb_spec jdx j) as [->|]; [|exact Hc].
  destruct (Hnone _ Hm) as [E|E]; rewrite E in Hmj; [injection Hmj as <-; exact I|discriminate].
Qed.

Lemma undefined_positions_spec tm i j :
  In (i, j) (undefined_positions tm) -> exists row, nth_error tm i = Some row /\ nth_error row j = Some None.
Proof.
  unfold undefined_positions. intros H. apply in_flat_map in H as ([i' row] & Hi & H). simpl in H.
  apply in_flat_map in H as ([j' m] & Hj & H). simpl in H.
  destruct m; [contradiction|]. destruct H as [[= <- <-]|[]].
  apply enumerate_from_spec in Hi as [_ Hi]. apply enumerate_from_spec in Hj as [_ Hj].
  rewrite Nat.sub_0_r in *. eauto.
Qed.

Theorem substitute_agrees tm s : agrees tm (substitute (defined_table tm) (undefined_positions tm) s).
Proof.
  unfold substitute.
  assert (forall pvs t, (forall pv, In pv pvs -> In (fst pv) (undefined_positions tm)) -> agrees tm t ->
            agrees tm (fold_left (fun t pv => table_set t (fst (fst pv)) (snd (fst pv)) (snd pv)) pvs t)) as H.
  { induction pvs as [|[[i j] v] pvs IH]; intros t Hin Ha; simpl; [exact Ha|].
    apply IH; [intros pv Hpv; apply Hin; right; exact Hpv|].
    apply table_set_agrees; [exact Ha|]. intros row Hrow.
    destruct (undefined_positions_spec tm i j (Hin _ (or_introl eq_refl))) as (row' & Hr' & Hn).
    rewrite Hrow in Hr'. injection Hr' as <-. left; exact Hn. }
  apply H; [|apply defined_table_agrees].
  intros [p v] Hpv. simpl. eapply in_combine_l; exact Hpv.
Qed.

(* ---- the statement of the property ---- *)
Theorem model_lookup_correct d tm excl c :
  db_ok d -> get_by_raw_truth_table_model d tm excl = DbOk (Some c) ->
  (exists t, agrees tm t /\ computes c t) /\
  forall s c2, In s (all_bool_vectors (length (undefined_positions tm))) ->
    lookup_at d tm s = DbOk (Some c2) -> (gates_number c excl <= gates_number c2 excl)%nat.
Proof.
  intros Hdb H. destruct (model_lookup_spec _ _ _ _ H) as ((s & Hs & El) & Hmin). split; [|exact Hmin].
  exists (substitute (defined_table tm) (undefined_positions tm) s). split; [apply substitute_agrees|].
  eapply lookup_returns_requested_function; [exact Hdb|exact El].
Qed.
