(* From the sweep to the lookup theorems: a dictionary all of whose entries are accepted by
   check_entry satisfies the hypothesis db_ok of the lookup theorems. *)
Require Import Cirbo.Model.Base Cirbo.Model.Gate Cirbo.Model.Circuit Cirbo.Model.Eval Cirbo.Model.Sem.
Require Import Cirbo.Model.BitIO Cirbo.Model.DictIO Cirbo.Model.Codec Cirbo.Model.CodecCheck Cirbo.Model.Db Cirbo.Model.DbCheck.
Require Import Cirbo.Proofs.DictFacts Cirbo.Proofs.EvalFacts Cirbo.Proofs.IsoFacts Cirbo.Proofs.CodecFacts.
Require Import Cirbo.Proofs.DbCheckFacts Cirbo.Proofs.DbTruthTableFacts Cirbo.Proofs.NormFacts Cirbo.Proofs.LabelFacts.
Require Import Cirbo.Proofs.DbFacts Cirbo.Proofs.DecodeFacts.

Lemma codec_wf_inputs c : codec_wf c -> inputs_are_input_gates c.
Proof. intros H l Hl. apply (wf_inputs _ H); exact Hl. Qed.

Lemma all_bool_vectors_nonempty n : all_bool_vectors n <> [].
Proof. induction n as [|n IH]; simpl; [discriminate|]. destruct (all_bool_vectors n); [congruence|discriminate]. Qed.

Lemma computes_rows_nonempty c t : computes c t -> rows_nonempty t.
Proof.
  unfold computes, rows_nonempty. induction 1 as [|o row os t Ho _ IH]; constructor; [|exact IH].
  unfold out_computes in Ho. intros ->. inversion Ho as [E|]. symmetry in E. eapply all_bool_vectors_nonempty; exact E.
Qed.

(* an accepted entry is stored correctly under its key *)
Theorem entry_ok_stored basis key bs :
  entry_ok basis key bs ->
  exists c t, decode_circuit bs = Ok c /\ stored_ok c t /\ truth_table_to_label t = key.
Proof.
  intros (c & rows & t & Hd & Hwf & _ & Hg & Ht & Hl). exists c, t. split; [exact Hd|]. split; [|exact Hl].
  destruct (decode_facts _ _ Hd) as (Hgen & Hout). split; [exact Hgen|exact Hout|].
  eapply truth_table_is_semantics; [apply codec_wf_inputs, Hwf|apply Hwf|exact Hg|exact Ht].
Qed.

Theorem swept_database_ok basis (d : db) :
  (forall k v, dget d k = Some v -> entry_ok basis k v) -> db_ok d.
Proof.
  intros H t bs Hne Hd. destruct (entry_ok_stored _ _ _ (H _ _ Hd)) as (c & t' & Hdec & Hso & Hl).
  exists c. split; [exact Hdec|].
  assert (t' = t) as <-; [|exact Hso].
  apply label_injective; [eapply computes_rows_nonempty; apply Hso|exact Hne|exact Hl].
Qed.

(* all records of the file accepted  =>  the dictionary read from the file is db_ok *)
Corollary swept_file_ok basis s recs d :
  db_records s = Ok recs -> read_binary_dict s = Ok d ->
  Forall (fun kv : label * bytes => entry_ok basis (fst kv) (snd kv)) recs -> db_ok d.
Proof.
  intros Hr Hd Hall. apply (swept_database_ok basis). intros k v Hk.
  rewrite Forall_forall in Hall. apply (Hall (k, v)). eapply records_cover_dictionary; eassumption.
Qed.
