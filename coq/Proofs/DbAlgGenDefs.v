(* T23 tie for C17, definitions: how a result of the regenerated class CircuitsDatabase (Generated/DbAlgGen.v,
   from cirbo/circuits_db/db.py) is read in the hand model Model/Db.v.

   The object is the record of its modelled attribute `_dict`: `db_obj None` = not opened, `db_obj (Some d)` = opened
   with dictionary d (Model/Db.v's `db`).  Three exception classes of cirbo.circuits_db.exceptions have no
   constructor in Base.err and are represented in the generated code by constructors that the functions involved
   never produce otherwise (that they never do is part of what the equalities of Proofs/DbAlgGen*.v prove, with
   Proofs/DbAlgGenErr.v):
     CircuitIsNotCompatibleWithNormalizationParameters -> TruthTableBadShapeError   (T16)
     CircuitsDatabaseError                             -> BadDefinitionError        (T23)
     CircuitDatabaseNotOpenedError                     -> TraverseMethodError       (T23)
   `to_db2` maps a generated result into Model/Db.v's dbres (which has no "not opened" error: the hand model is
   about an opened database; the not-opened case is stated separately). *)
Require Import Cirbo.Model.Base Cirbo.Model.Gate Cirbo.Model.Circuit Cirbo.Model.BitIO Cirbo.Model.Db.
Require Import Cirbo.Generated.DbAlgGen.

Definition db_obj (o : option db) : gen_CircuitsDatabase := mk_gen_CircuitsDatabase o.

Definition NotOpened : err := TraverseMethodError.

Definition db_alias (e : err) : bool :=
  match e with
  | TruthTableBadShapeError | BadDefinitionError | TraverseMethodError => true
  | _ => false
  end.

Definition to_db2 {A} (r : res A) : dbres A :=
  match r with
  | Ok a => DbOk a
  | Err TruthTableBadShapeError => DbErr NotCompatibleWithNormalization
  | Err BadDefinitionError => DbErr CircuitsDatabaseError
  | Err e => DbErr (BaseErr e)
  end.
