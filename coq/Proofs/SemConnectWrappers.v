(* C10: the combined statements (interface + semantics + output vector) for both
   directions of connect_circuit, and the wrappers connect_left / connect_right /
   connect_inputs / extend_circuit / add_circuit as instances. *)
Require Import Cirbo.Model.Base Cirbo.Model.Gate Cirbo.Model.Circuit Cirbo.Model.Eval Cirbo.Model.Sem
        Cirbo.Model.Connect Cirbo.Model.WF.
Require Import Cirbo.Proofs.DictFacts Cirbo.Proofs.WFBase Cirbo.Proofs.WFEmplace Cirbo.Proofs.WFConnect1
        Cirbo.Proofs.WFConnect2 Cirbo.Proofs.SemFacts Cirbo.Proofs.SemExtConnect
        Cirbo.Proofs.SemConnectStruct Cirbo.Proofs.SemConnectLeft Cirbo.Proofs.SemConnectRight.

Lemma Forall2_app_split {A B} (P : A -> B -> Prop) l1 l2 m :
  Forall2 P (l1 ++ l2) m <-> exists m1 m2, m = m1 ++ m2 /\ Forall2 P l1 m1 /\ Forall2 P l2 m2.
Proof.
  split.
  - intros H. apply Forall2_app_inv_l in H. destruct H as (m1 & m2 & H1 & H2 & ->). eauto.
  - intros (m1 & m2 & -> & H1 & H2). apply Forall2_app; assumption.
Qed.

Lemma Forall2_iff_In {A B} (P Q : A -> B -> Prop) l m :
  (forall x y, In x l -> (P x y <-> Q x y)) -> (Forall2 P l m <-> Forall2 Q l m).
Proof.
  intros H; split; intros F; (eapply Forall2_impl_In; [|exact F]); intros x y Hx Hp; destruct (H x y Hx) as [H1 H2]; auto.
Qed.

(* the documented renaming and the documented interface *)
Definition conn_ren (tc oc : list label) (name : label) (ap : bool) : label -> label :=
  ren_of (build_mapping oc tc []) (conn_prefix name ap).
Definition free_of (oc ls : list label) : list label := filter (fun x => negb (memb x oc)) ls.

(* the assignments of the two constituents induced by an assignment a of the result *)
(* left: connector oc_i reads tc_i of base; unconnected inputs read their new label *)
Definition left_induced (base other : circuit) (tc oc : list label) (ren : label -> label)
           (a a' : assignment) : Prop :=
  (forall i o t, nth_error oc i = Some o -> nth_error tc i = Some t -> Eval base a t (aval a' o)) /\
  (forall x, In x (inputs other) -> ~ In x oc -> aval a' x = aval a (ren x)).
(* right: every input of other reads its new label (a connector that is an input of other
   keeps the base label it is written over) *)
Definition right_induced_other (other : circuit) (ren : label -> label) (a a' : assignment) : Prop :=
  forall x, In x (inputs other) -> aval a' x = aval a (ren x).
(* right: the base input mapping[o] reads gate o of other; the other base inputs read a *)
Definition right_induced_base (base other : circuit) (mapping : dict label) (a a' a'' : assignment) : Prop :=
  (forall o t, dget mapping o = Some t -> Eval other a' o (aval a'' t)) /\
  (forall x, In x (inputs base) -> (forall o, dget mapping o <> Some x) -> aval a'' x = aval a x).

(* what a LEFT connection must satisfy *)
Definition LeftCorrect (base other : circuit) (tc oc : list label) (name : label) (ap : bool) (r : circuit) : Prop :=
  WF r /\
  inputs r = inputs base ++ map (conn_ren tc oc name ap) (free_of oc (inputs other)) /\
  outputs r = free_of tc (outputs base) ++ map (conn_ren tc oc name ap) (free_of oc (outputs other)) /\
  forall a,
    (forall b v, has_gate base b = true -> (Eval r a b v <-> Eval base a b v)) /\
    forall a', left_induced base other tc oc (conn_ren tc oc name ap) a a' ->
      (forall l v, has_gate other l = true ->
                   (Eval r a (conn_ren tc oc name ap l) v <-> Eval other a' l v)) /\
      (forall vs, Forall2 (Eval r a) (outputs r) vs <->
                  exists vb vo, vs = vb ++ vo /\
                                Forall2 (Eval base a) (free_of tc (outputs base)) vb /\
                                Forall2 (Eval other a') (free_of oc (outputs other)) vo).

Theorem connect_left_correct base other tc oc name ap r :
  WF base -> WF other -> connect_circuit base other tc oc false name ap = Ok r ->
  LeftCorrect base other tc oc name ap r.
Proof.
  intros Wb Wo H. unfold LeftCorrect.
  split; [exact (connect_circuit_left_wf _ _ _ _ _ _ _ Wb H)|].
  split; [apply (left_inputs base other tc oc name ap r Wb Wo H)|].
  split; [apply (left_outputs base other tc oc name ap r Wo H)|].
  intros a.
  assert (Hb : forall b v, has_gate base b = true -> (Eval r a b v <-> Eval base a b v)).
  { intros b v. apply (left_base_gates base other tc oc name ap r Wb Wo H). }
  split; [exact Hb|]. intros a' [I1 I2].
  assert (Ho : forall l v, has_gate other l = true ->
                   (Eval r a (conn_ren tc oc name ap l) v <-> Eval other a' l v)).
  { apply (left_other_gates_nth base other tc oc name ap r Wb Wo H a a' I1 I2). }
  split; [exact Ho|]. intros vs.
  rewrite (left_outputs base other tc oc name ap r Wo H). fold (conn_ren tc oc name ap).
  rewrite Forall2_app_split. unfold free_of.
  split; intros (vb & vo & -> & H1 & H2); exists vb, vo; (split; [reflexivity|]); split.
  - eapply Forall2_iff_In; [|exact H1]. intros x y Hx. symmetry. apply Hb.
    apply (wf_outs base Wb). apply filter_In in Hx. apply Hx.
  - apply (proj1 (Forall2_map_left _ _ _ _)) in H2. eapply Forall2_iff_In; [|exact H2]. intros x y Hx. simpl. symmetry.
    apply Ho. apply (wf_outs other Wo). apply filter_In in Hx. apply Hx.
  - eapply Forall2_iff_In; [|exact H1]. intros x y Hx. apply Hb.
    apply (wf_outs base Wb). apply filter_In in Hx. apply Hx.
  - apply (proj2 (Forall2_map_left _ _ _ _)). eapply Forall2_iff_In; [|exact H2]. intros x y Hx. simpl.
    apply Ho. apply (wf_outs other Wo). apply filter_In in Hx. apply Hx.
Qed.

(* the induced assignment exists as soon as the base connectors have values *)
Theorem left_induced_exists base other tc oc name ap r a ws :
  WF base -> WF other -> connect_circuit base other tc oc false name ap = Ok r ->
  Forall2 (Eval base a) tc ws ->
  left_induced base other tc oc (conn_ren tc oc name ap) a
               (left_assignment (conn_ren tc oc name ap) a oc ws other).
Proof.
  intros Wb Wo H Hws.
  destruct (cs_left _ _ _ _ _ _ _ _ (left_spec base other tc oc name ap r Wo H) eq_refl) as [Hnd _].
  split.
  - intros i o t Ho Ht. destruct (Forall2_nth_l _ _ _ _ _ Hws Ht) as (w & Hw & He).
    unfold aval, left_assignment. rewrite dget_app, (dget_combine_nth oc ws i o w Hnd Ho Hw). exact He.
  - intros x Hx Hn. unfold aval at 1, left_assignment.
    rewrite dget_app, (dget_combine_none oc ws x Hn), (dget_map_pair _ _ _ Hx). reflexivity.
Qed.

(* what a RIGHT connection must satisfy *)
Definition RightCorrect (base other : circuit) (tc oc : list label) (name : label) (ap : bool) (r : circuit) : Prop :=
  WF r /\
  inputs r = filter (is_input_gate r) (inputs base) ++ map (conn_ren tc oc name ap) (free_of oc (inputs other)) /\
  (forall o t, dget (build_mapping oc tc []) o = Some t -> is_input_gate r t = is_input_gate other o) /\
  (forall b, has_gate base b = true -> (forall o, dget (build_mapping oc tc []) o <> Some b) ->
             is_input_gate r b = is_input_gate base b) /\
  outputs r = free_of tc (outputs base) ++ map (conn_ren tc oc name ap) (free_of oc (outputs other)) /\
  forall a a', right_induced_other other (conn_ren tc oc name ap) a a' ->
    (forall l v, has_gate other l = true -> (Eval r a (conn_ren tc oc name ap l) v <-> Eval other a' l v)) /\
    forall a'', right_induced_base base other (build_mapping oc tc []) a a' a'' ->
      (forall b v, has_gate base b = true -> (Eval r a b v <-> Eval base a'' b v)) /\
      (forall vs, Forall2 (Eval r a) (outputs r) vs <->
                  exists vb vo, vs = vb ++ vo /\
                                Forall2 (Eval base a'') (free_of tc (outputs base)) vb /\
                                Forall2 (Eval other a') (free_of oc (outputs other)) vo).

Theorem connect_right_correct base other tc oc name ap r :
  WF base -> inputs_nullary base -> WF other -> connect_circuit base other tc oc true name ap = Ok r ->
  RightCorrect base other tc oc name ap r.
Proof.
  intros Wb Nb Wo H. unfold RightCorrect.
  split; [eapply connect_circuit_right_wf; [exact Wb|exact Nb|apply WF_ranked, Wo|exact H]|].
  split; [apply (right_inputs base other tc oc name ap r Wo H)|].
  split; [apply (right_is_input_hit base other tc oc name ap r Wo H)|].
  split; [apply (right_is_input_free base other tc oc name ap r Wo H)|].
  split; [apply (right_outputs base other tc oc name ap r Wo H)|].
  intros a a' I0.
  assert (Ho : forall l v, has_gate other l = true ->
                   (Eval r a (conn_ren tc oc name ap l) v <-> Eval other a' l v)).
  { apply (right_other_gates base other tc oc name ap r Wo H a a' I0). }
  split; [exact Ho|]. intros a'' [I1 I2].
  assert (Hb : forall b v, has_gate base b = true -> (Eval r a b v <-> Eval base a'' b v)).
  { apply (right_base_gates base other tc oc name ap r Wb Wo H a a' a'' I0 I1 I2). }
  split; [exact Hb|]. intros vs.
  rewrite (right_outputs base other tc oc name ap r Wo H). fold (conn_ren tc oc name ap).
  rewrite Forall2_app_split. unfold free_of.
  split; intros (vb & vo & -> & H1 & H2); exists vb, vo; (split; [reflexivity|]); split.
  - eapply Forall2_iff_In; [|exact H1]. intros x y Hx. symmetry. apply Hb.
    apply (wf_outs base Wb). apply filter_In in Hx. apply Hx.
  - apply (proj1 (Forall2_map_left _ _ _ _)) in H2. eapply Forall2_iff_In; [|exact H2]. intros x y Hx. simpl. symmetry.
    apply Ho. apply (wf_outs other Wo). apply filter_In in Hx. apply Hx.
  - eapply Forall2_iff_In; [|exact H1]. intros x y Hx. apply Hb.
    apply (wf_outs base Wb). apply filter_In in Hx. apply Hx.
  - apply (proj2 (Forall2_map_left _ _ _ _)). eapply Forall2_iff_In; [|exact H2]. intros x y Hx. simpl.
    apply Ho. apply (wf_outs other Wo). apply filter_In in Hx. apply Hx.
Qed.

(* ------------------------------------------------------------------ *)
(* the wrappers *)
Theorem connect_left_wrapper base other tc name ap r :
  WF base -> WF other -> connect_left base other tc name ap = Ok r ->
  LeftCorrect base other tc (inputs other) name ap r.
Proof. unfold connect_left. apply connect_left_correct. Qed.

Theorem connect_right_wrapper base other oc name ap r :
  WF base -> inputs_nullary base -> WF other -> connect_right base other oc name ap = Ok r ->
  RightCorrect base other (inputs base) oc name ap r.
Proof. unfold connect_right. apply connect_right_correct. Qed.

Theorem connect_inputs_wrapper base other name ap r :
  WF base -> inputs_nullary base -> WF other -> connect_inputs base other name ap = Ok r ->
  RightCorrect base other (inputs base) (inputs other) name ap r.
Proof. unfold connect_inputs. apply connect_right_correct. Qed.

(* extend_circuit: the default connectors are the outputs of base and the inputs of other
   (left), the inputs of base and the outputs of other (right) *)
Definition extend_tc (c : circuit) (tc : option (list label)) (right : bool) : list label :=
  match tc with Some x => x | None => if right then inputs c else outputs c end.
Definition extend_oc (other : circuit) (oc : option (list label)) (right : bool) : list label :=
  match oc with Some x => x | None => if right then outputs other else inputs other end.

Theorem extend_circuit_left_wrapper base other tc oc name ap r :
  WF base -> WF other -> extend_circuit base other tc oc false name ap = Ok r ->
  LeftCorrect base other (extend_tc base tc false) (extend_oc other oc false) name ap r.
Proof. unfold extend_circuit. apply connect_left_correct. Qed.

Theorem extend_circuit_right_wrapper base other tc oc name ap r :
  WF base -> inputs_nullary base -> WF other -> extend_circuit base other tc oc true name ap = Ok r ->
  RightCorrect base other (extend_tc base tc true) (extend_oc other oc true) name ap r.
Proof. unfold extend_circuit. apply connect_right_correct. Qed.

(* add_circuit: side by side, nothing is connected *)
Theorem add_circuit_wrapper base other name ap r :
  WF base -> WF other -> add_circuit base other name ap = Ok r ->
  WF r /\
  inputs r = inputs base ++ map (fun x => (conn_prefix name ap ++ x)%string) (inputs other) /\
  outputs r = outputs base ++ map (fun x => (conn_prefix name ap ++ x)%string) (outputs other) /\
  forall a,
    (forall b v, has_gate base b = true -> (Eval r a b v <-> Eval base a b v)) /\
    forall a', (forall x, In x (inputs other) -> aval a' x = aval a (conn_prefix name ap ++ x)%string) ->
               forall l v, has_gate other l = true ->
                           (Eval r a (conn_prefix name ap ++ l)%string v <-> Eval other a' l v).
Proof.
  intros Wb Wo H.
  split; [exact (connect_circuit_left_wf _ _ _ _ _ _ _ Wb H)|].
  destruct (add_circuit_interface base other name ap r Wb Wo H) as [Hi Ho].
  split; [exact Hi|]. split; [exact Ho|]. intros a. split.
  - intros b v. apply (add_circuit_base_gates base other name ap r Wb Wo H).
  - intros a'. apply (add_circuit_other_gates base other name ap r Wb Wo H).
Qed.

(* the labels given to the copied gates are not labels of base (both directions) *)
Theorem connect_new_labels_fresh base other tc oc right name ap r :
  WF other -> connect_circuit base other tc oc right name ap = Ok r ->
  forall l, has_gate other l = true -> dget (build_mapping oc tc []) l = None ->
            has_gate base (conn_ren tc oc name ap l) = false.
Proof.
  intros Wo H. exact (cs_fresh _ _ _ _ _ _ _ _ (connect_circuit_spec base other tc oc right name ap r Wo H)).
Qed.
