(* connect_circuit returns only for duplicate-free connector lists of equal length; in a right connection
   (repaired by D40) the gates of `other` are distinct too, so the connector map IS the list of pairs:
   no pair is dropped. *)
From Coq Require Import String List Bool Arith Lia.
From Cirbo Require Import Base Gate Circuit Traverse Connect WFConnect1 SemConnectStruct SemConnectLeft.
Import ListNotations.

Lemma connect_connectors_distinct base other tc oc right name ap r :
  connect_circuit base other tc oc right name ap = Ok r ->
  NoDup oc /\ (right = true -> NoDup tc) /\ length tc = length oc.
Proof.
  rewrite connect_circuit_unfold. intros H.
  destruct (check_block_doesnt_exist name base) as [[]|e]; [|discriminate H]. cbn [bind] in H.
  destruct (check_gates_exist tc base) as [[]|e]; [|discriminate H]. cbn [bind] in H.
  destruct (check_gates_exist oc other) as [[]|e]; [|discriminate H]. cbn [bind] in H.
  destruct (Nat.eqb (length tc) (length oc)) eqn:El.
  2:{ destruct right; [destruct (nodupb tc); [destruct (nodupb oc)|]|destruct (nodupb oc)]; discriminate H. }
  apply Nat.eqb_eq in El.
  destruct right.
  - destruct (nodupb tc) eqn:Et; [|discriminate H]. destruct (nodupb oc) eqn:Eo; [|discriminate H].
    repeat split; [apply nodupb_NoDup, Eo|intros _; apply nodupb_NoDup, Et|exact El].
  - destruct (nodupb oc) eqn:Eo; [|discriminate H].
    repeat split; [apply nodupb_NoDup, Eo|discriminate|exact El].
Qed.

Lemma connect_mapping_is_pairs base other tc oc right name ap r :
  connect_circuit base other tc oc right name ap = Ok r ->
  forall o t, dget (build_mapping oc tc []) o = Some t <->
              exists i, nth_error oc i = Some o /\ nth_error tc i = Some t.
Proof.
  intros H o t. destruct (connect_connectors_distinct _ _ _ _ _ _ _ _ H) as [Ho _].
  apply bm_nil_nth_iff, Ho.
Qed.
