(* C08, part 6: the squarers.  x^2 = sum_t x_t 4^t + 2 * sum_{t<j} x_t x_j 2^(t+j): the products
   x_t x_j (t < j) are created once and filed one level up; row t of the strict upper triangle
   enters at level 2 t + 2 and x_t itself sits on level 2 t.  add_square splits
   x = a + 2^mid b and uses x^2 = a^2 + 2^(mid+1) a b + 2^(2 mid) b^2. *)
Require Import Cirbo.Model.Base Cirbo.Model.Gate Cirbo.Model.Den Cirbo.Model.Circuit
  Cirbo.Model.Eval Cirbo.Model.Sem Cirbo.Model.Builder.
Require Import Cirbo.Generated.ArithTables Cirbo.Generated.ArithCells.
Require Import Cirbo.Model.ArithSub Cirbo.Model.ArithSum2 Cirbo.Model.ArithSumN Cirbo.Model.ArithSumW
  Cirbo.Model.ArithMul Cirbo.Model.ArithSquare.
Require Import Cirbo.Proofs.DictFacts Cirbo.Proofs.BuilderFacts Cirbo.Proofs.ArithFacts
  Cirbo.Proofs.ArithSubFacts Cirbo.Proofs.ArithSum2Facts
  Cirbo.Proofs.ArithSumCells Cirbo.Proofs.ArithSumNFacts Cirbo.Proofs.ArithSumTopFacts
  Cirbo.Proofs.ArithSumWFacts Cirbo.Proofs.ArithSumPow2Facts Cirbo.Proofs.ArithMulFacts
  Cirbo.Proofs.ArithMulDiag Cirbo.Proofs.ArithMulDadda Cirbo.Proofs.ArithMulPow2 Cirbo.Proofs.ArithMulKara.
Open Scope Z_scope.

(* ---- the products x_t x_j, t < j ----------------------------------------------------------------------------------- *)
Fixpoint sq_vals (xv : list bool) : list (list bool) :=
  match xv with [] => [] | x :: r => map (andb x) r :: sq_vals r end.

Lemma sq_row_spec fresh xi : forall rest s row s',
  run fresh (mapP (fun xj => gate_tt tt_and xi xj) rest) s = Ok (row, s') ->
  ext (bc s) (bc s') /\ outputs (bc s') = outputs (bc s) /\
  forall c, ext (bc s') c -> forall asg vi rv, bval c asg xi vi -> bvals c asg rest rv ->
    bvals c asg row (map (andb vi) rv).
Proof.
  induction rest as [|xj rest IH]; intros s row s' H; cbn [mapP] in H.
  - apply run_ret_inv in H as (-> & ->). split; [apply ext_refl|]. split; [reflexivity|].
    intros c _ asg vi rv _ Hr. inversion Hr; subst. constructor.
  - apply gate_tt_bind in H as (g & s1 & H & Hx1 & Ht & O1).
    apply run_bind_inv in H as (r & s2 & Hr & H). apply run_ret_inv in H as (-> & ->).
    apply IH in Hr as (Hx2 & O2 & V).
    split; [eapply ext_trans; eassumption|]. split; [congruence|].
    intros c Hc asg vi rv Hvi Hrv. inversion Hrv as [|? vj ? rv' Hvj Hrv']; subst. simpl. constructor.
    + assert (ext (bc s1) c) as Hc1 by (eapply ext_trans; eassumption).
      apply (has_tt_ext _ _ _ _ _ _ Hc1) in Ht.
      pose proof (has_tt_val _ _ _ _ _ asg _ _ Ht Hvi Hvj) as Vg.
      replace (tt_fun tt_and vi vj) with (vi && vj)%bool in Vg by (destruct vi, vj; reflexivity). exact Vg.
    + apply V; assumption.
Qed.

Lemma sq_rows_spec fresh : forall xs s rows s',
  run fresh (sq_rows xs) s = Ok (rows, s') ->
  ext (bc s) (bc s') /\ outputs (bc s') = outputs (bc s) /\
  forall c, ext (bc s') c -> forall asg xv, bvals c asg xs xv -> mvals c asg rows (sq_vals xv).
Proof.
  induction xs as [|xi xs IH]; intros s rows s' H; cbn [sq_rows] in H.
  - apply run_ret_inv in H as (-> & ->). split; [apply ext_refl|]. split; [reflexivity|].
    intros c _ asg xv Hv. inversion Hv; subst. constructor.
  - apply run_bind_inv in H as (row & s1 & Hrow & H). apply run_bind_inv in H as (r & s2 & Hr & H).
    apply run_ret_inv in H as (-> & ->).
    apply sq_row_spec in Hrow as (Hx1 & O1 & V1). apply IH in Hr as (Hx2 & O2 & V2).
    split; [eapply ext_trans; eassumption|]. split; [congruence|].
    intros c Hc asg xv Hv. inversion Hv as [|? vi ? xv' Hvi Hxv']; subst. simpl. constructor.
    + apply V1; [eapply ext_trans; eassumption|assumption|assumption].
    + apply V2; assumption.
Qed.

(* ---- the feeds of the levels 2, 3, ... ------------------------------------------------------------------------------ *)
Fixpoint sq_feeds {A} (k : nat) (even : bool) (act pend : list (list A)) (diag : list A) : list (list A) :=
  match k with
  | O => []
  | S k' =>
    let act1 := if even then act ++ firstn 1 pend else act in
    let sq := if even then firstn 1 diag else [] in
    (heads1 act1 ++ sq) :: sq_feeds k' (negb even) (map (@tl A) act1) (if even then skipn 1 pend else pend)
                                   (if even then skipn 1 diag else diag)
  end.

Lemma sq_levels_gen fresh : forall k even act pend diag d s,
  run fresh (sq_levels k even act pend diag d) s = run fresh (gen_levels (sq_feeds k even act pend diag) d) s.
Proof.
  induction k as [|k IH]; intros even act pend diag d s; cbn [sq_levels sq_feeds gen_levels]; [reflexivity|].
  rewrite <- app_assoc. apply run_bind_ext. intros o s1. apply IH.
Qed.

Lemma sq_feeds_length {A} k : forall even (act pend : list (list A)) diag, length (sq_feeds k even act pend diag) = k.
Proof. induction k as [|k IH]; intros; simpl; [reflexivity|]. rewrite IH. reflexivity. Qed.

Lemma sq_feeds_vals c asg k : forall even act pend diag actv pendv diagv,
  mvals c asg act actv -> mvals c asg pend pendv -> bvals c asg diag diagv ->
  mvals c asg (sq_feeds k even act pend diag) (sq_feeds k even actv pendv diagv).
Proof.
  induction k as [|k IH]; intros even act pend diag actv pendv diagv Ha Hp Hd; cbn [sq_feeds]; [constructor|].
  destruct even.
  - assert (mvals c asg (act ++ firstn 1 pend) (actv ++ firstn 1 pendv)) as H1
      by (apply Forall2_app; [exact Ha|apply Forall2_firstn, Hp]).
    constructor; [apply bvals_app; [apply heads1_bvals, H1|apply bvals_firstn, Hd]|].
    apply IH; [apply tl_mvals, H1|apply (Forall2_skipn _ 1), Hp|apply (bvals_skipn _ _ 1), Hd].
  - constructor; [rewrite !app_nil_r; apply heads1_bvals, Ha|].
    apply IH; [apply tl_mvals, Ha|exact Hp|exact Hd].
Qed.

Fixpoint p4 (rows : list (list bool)) : Z := match rows with [] => 0 | r :: rest => bits_val r + 4 * p4 rest end.
Fixpoint d4 (diag : list bool) : Z := match diag with [] => 0 | b :: rest => Z.b2z b + 4 * d4 rest end.

Lemma p4_nonneg rows : 0 <= p4 rows.
Proof. induction rows as [|r rows IH]; simpl; [lia|]. pose proof (bits_val_nonneg r). lia. Qed.
Lemma d4_nonneg diag : 0 <= d4 diag.
Proof. induction diag as [|b diag IH]; simpl; [lia|]. destruct b; simpl; lia. Qed.

Definition sv (even : bool) (act pend : list (list bool)) (diag : list bool) : Z :=
  rows_sum act + (if even then 1 else 2) * (p4 pend + d4 diag).

Lemma sq_feeds_value k : forall even act pend diag,
  exists R, 0 <= R /\ sv even act pend diag = cols_val (sq_feeds k even act pend diag) + 2 ^ Z.of_nat k * R.
Proof.
  induction k as [|k IH]; intros even act pend diag.
  - exists (sv even act pend diag). split.
    + unfold sv. pose proof (rows_sum_nonneg act). pose proof (p4_nonneg pend). pose proof (d4_nonneg diag).
      destruct even; lia.
    + simpl. change (Z.of_nat 0) with 0. rewrite Z.pow_0_r. lia.
  - cbn [sq_feeds cols_val]. rewrite pow2_succ. destruct even; cbn [negb].
    + destruct (IH false (map (@tl bool) (act ++ firstn 1 pend)) (skipn 1 pend) (skipn 1 diag)) as (R & HR & E).
      exists R. split; [exact HR|].
      assert (sv true act pend diag = ones (heads1 (act ++ firstn 1 pend) ++ firstn 1 diag)
              + 2 * sv false (map (@tl bool) (act ++ firstn 1 pend)) (skipn 1 pend) (skipn 1 diag)) as Estep.
      { unfold sv. rewrite ones_app.
        pose proof (rows_sum_heads (act ++ firstn 1 pend)) as EH. rewrite rows_sum_app in EH.
        destruct pend as [|p0 pend'], diag as [|d0 diag']; cbn [firstn skipn p4 d4 ones] in *;
          unfold rows_sum in EH at 2; simpl fold_right in EH; lia. }
      lia.
    + destruct (IH true (map (@tl bool) act) pend diag) as (R & HR & E).
      exists R. split; [exact HR|].
      assert (sv false act pend diag = ones (heads1 act ++ []) + 2 * sv true (map (@tl bool) act) pend diag) as Estep.
      { unfold sv. rewrite app_nil_r, (rows_sum_heads act). lia. }
      lia.
Qed.

Lemma bits_val_map_andb x r : bits_val (map (andb x) r) = Z.b2z x * bits_val r.
Proof. induction r as [|y r IH]; simpl; [lia|]. rewrite IH. destruct x, y; simpl; lia. Qed.

Lemma sq_identity xv : bits_val xv * bits_val xv = Z.b2z (hd false xv) + 4 * (p4 (sq_vals xv) + d4 (tl xv)).
Proof.
  induction xv as [|x r IH]; [simpl; lia|].
  cbn [sq_vals p4 hd tl bits_val]. rewrite bits_val_map_andb.
  destruct r as [|y r']; [simpl in *; destruct x; simpl; lia|].
  cbn [hd tl] in IH. cbn [d4]. destruct x; simpl Z.b2z; nia.
Qed.

(* ---- add_square_pow2_m1 --------------------------------------------------------------------------------------------- *)
Definition sq_len (n : nat) : nat := if (n =? 1)%nat then 1%nat else (2 * n)%nat.

Lemma square_bound xv : 0 <= bits_val xv * bits_val xv < 2 ^ Z.of_nat (2 * length xv).
Proof.
  pose proof (product_bound xv xv) as H. replace (2 * length xv)%nat with (length xv + length xv)%nat by lia. exact H.
Qed.

Theorem add_square_pow2_m1_correct fresh xs be s rs s' :
  run fresh (add_square_pow2_m1 xs be) s = Ok (rs, s') ->
  ext (bc s) (bc s') /\ inputs (bc s') = inputs (bc s) /\ outputs (bc s') = outputs (bc s) /\
  length rs = sq_len (length xs) /\
  forall c, ext (bc s') c -> has_gate c "" = false -> forall asg xv, bvals c asg xs xv ->
    exists rv, bvals c asg rs rv /\ decode be rv = decode be xv * decode be xv.
Proof.
  intros H. pose proof (run_ext _ _ _ _ _ H) as Hx. unfold add_square_pow2_m1 in H. rewrite rev_if_length in H.
  split; [exact Hx|]. split; [apply ext_inputs, Hx|]. unfold sq_len.
  set (n := length xs) in *.
  destruct (n =? 1)%nat eqn:En.
  { apply Nat.eqb_eq in En. apply run_ret_inv in H as (-> & ->). split; [reflexivity|].
    split; [rewrite !rev_if_length; exact En|].
    intros c _ _ asg xv Hxv. exists xv. rewrite rev_if_involutive. split; [exact Hxv|].
    pose proof (bvals_length _ _ _ _ Hxv) as L. fold n in L. rewrite En in L.
    unfold decode. destruct (rev_if be xv) as [|b [|? ?]] eqn:E;
      try (apply (f_equal (@length bool)) in E; rewrite rev_if_length in E; simpl in E; lia).
    destruct b; simpl; lia. }
  apply run_bind_inv in H as (rows & s1 & Hrows & H).
  apply run_bind_inv in H as (x0 & s2 & Hx0 & H). apply nthP_inv in Hx0 as (Ex0 & ->).
  apply gate_tt_bind in H as (zero & s2 & H & Hxz & Htz & Oz).
  apply run_bind_inv in H as (d & s3 & Hd & H). apply run_bind_inv in H as (res & s4 & Hres & H).
  apply run_ret_inv in H as (-> & ->).
  apply sq_rows_spec in Hrows as (Hx1 & O1 & V1).
  rewrite sq_levels_gen in Hd. apply gen_levels_spec in Hd as (Hx3 & O3 & L3 & F3 & V3).
  assert (Forall single_head [[[x0]]; [[zero]]]) as Hs0
    by (constructor; [exists x0; reflexivity|constructor; [exists zero; reflexivity|constructor]]).
  specialize (F3 Hs0). rewrite sq_feeds_length in L3. cbn [length] in L3.
  apply first_first_len in Hres as Hres'. destruct Hres' as (-> & Lres).
  assert (2 <= n)%nat as Hn2.
  { apply Nat.eqb_neq in En. destruct (rev_if be xs) as [|? ?] eqn:E; [discriminate|].
    apply (f_equal (@length label)) in E. rewrite rev_if_length in E. fold n in E. simpl in E. lia. }
  split; [congruence|]. split; [rewrite rev_if_length, Lres, L3; lia|].
  intros c Hc He asg xv Hxv.
  assert (ext (bc s2) c) as Hc2 by (eapply ext_trans; eassumption).
  assert (ext (bc s1) c) as Hc1 by (eapply ext_trans; eassumption).
  pose proof (bvals_rev_if _ _ be _ _ Hxv) as Hxv'. set (xv' := rev_if be xv) in *.
  specialize (V1 c Hc1 asg xv' Hxv').
  destruct (Forall2_nth_error _ _ _ _ _ Hxv' Ex0) as (v0 & Ev0 & Vx0).
  apply (has_tt_ext _ _ _ _ _ _ Hc2) in Htz.
  pose proof (has_tt_val _ _ _ _ _ asg _ _ Htz Vx0 Vx0) as Vz.
  replace (tt_fun tt_false v0 v0) with false in Vz by (destruct v0; reflexivity).
  destruct (V3 c Hc He asg (sq_feeds (2 * n - 2) true [] (sq_vals xv') (skipn 1 xv')) [[[v0]]; [[false]]])
    as (ovs' & Rem & Hovs' & HRem & E).
  { exact Hs0. }
  { apply sq_feeds_vals; [constructor|exact V1|apply (bvals_skipn _ _ 1), Hxv']. }
  { repeat constructor; assumption. }
  destruct (first_first_all fresh c asg _ _ _ _ _ Hres F3 Hovs') as (_ & _ & Vres).
  exists (rev_if be (map rbit ovs')). split; [apply bvals_rev_if, Vres|]. rewrite decode_rev_if.
  destruct (sq_feeds_value (2 * n - 2) true [] (sq_vals xv') (skipn 1 xv')) as (R & HR & Ef).
  unfold sv, rows_sum in Ef. simpl fold_right in Ef.
  pose proof (sq_identity xv') as Eid.
  assert (hd false xv' = v0) as Ehd by (destruct xv'; simpl in *; congruence).
  assert (skipn 1 xv' = tl xv') as Etl by (destruct xv'; reflexivity).
  rewrite Ehd in Eid. rewrite Etl in *.
  rewrite sq_feeds_length in E. cbn [length] in E.
  unfold resval in E at 1. cbn [map rbit bits_val pv skipn cols_val ones pred] in E.
  change (2 ^ Z.of_nat 2) with 4 in E. fold (decode be xv).
  assert (length (map rbit ovs') = (2 * n)%nat) as Lrb.
  { rewrite map_length, <- (Forall2_length _ _ _ Hovs'), L3. lia. }
  pose proof (bits_val_range (map rbit ovs')) as Hrange. rewrite Lrb in Hrange.
  pose proof (square_bound xv') as Hb. rewrite <- (bvals_length _ _ _ _ Hxv'), rev_if_length in Hb.
  fold n in Hb. unfold decode. fold xv'.
  eapply (congruent_small (2 * n) _ _ (Rem + R)); [exact Hrange|exact Hb|].
  unfold resval in E. rewrite (pow2_add 2) in E. change (2 ^ Z.of_nat 2) with 4 in E.
  assert (2 ^ Z.of_nat (2 * n) = 4 * 2 ^ Z.of_nat (2 * n - 2)) as Epow.
  { replace (2 * n)%nat with (2 + (2 * n - 2))%nat at 1 by lia. rewrite (pow2_add 2). reflexivity. }
  rewrite Epow. simpl Z.b2z in E. lia.
Qed.

(* ---- add_square ------------------------------------------------------------------------------------------------------- *)
Lemma square_small_false n : square_small n = false -> (48 <= n)%nat.
Proof.
  unfold square_small. intros H. apply orb_false_iff in H as (H & _). apply orb_false_iff in H as (H & _).
  apply Nat.ltb_ge in H. exact H.
Qed.

Theorem square_rec_correct : forall fuel fresh xs be s rs s',
  run fresh (square_rec fuel xs be) s = Ok (rs, s') ->
  ext (bc s) (bc s') /\ outputs (bc s') = outputs (bc s) /\
  length rs = sq_len (length xs) /\
  forall c, ext (bc s') c -> has_gate c "" = false -> forall asg xv, bvals c asg xs xv ->
    exists rv, bvals c asg rs rv /\ decode be rv = decode be xv * decode be xv.
Proof.
  induction fuel as [|f IH]; intros fresh xs be s rs s' H; [discriminate|].
  pose proof (run_ext _ _ _ _ _ H) as Hx. cbn [square_rec] in H. rewrite rev_if_length in H.
  set (n := length xs) in *. split; [exact Hx|].
  destruct (square_small n) eqn:Esmall.
  - apply run_bind_inv in H as (r & s1 & Hr & H). apply run_ret_inv in H as (-> & ->).
    apply add_square_pow2_m1_correct in Hr as (_ & _ & O & L & V). rewrite rev_if_length in L.
    split; [exact O|]. split; [rewrite rev_if_length; exact L|].
    intros c Hc He asg xv Hxv.
    destruct (V c Hc He asg _ (bvals_rev_if _ _ be _ _ Hxv)) as (rv & Vr & Er).
    exists (rev_if be rv). split; [apply bvals_rev_if, Vr|]. rewrite decode_rev_if.
    unfold decode in *. simpl rev_if in Er. exact Er.
  - apply square_small_false in Esmall.
    set (mid := (n / 2)%nat) in *.
    assert (2 * mid <= n < 2 * mid + 2)%nat as Hmid.
    { unfold mid. pose proof (Nat.div_mod n 2). pose proof (Nat.mod_upper_bound n 2). lia. }
    set (a := firstn mid (rev_if be xs)) in *. set (b := skipn mid (rev_if be xs)) in *.
    assert (length a = mid) as La by (unfold a; rewrite firstn_length, rev_if_length; fold n; lia).
    assert (length b = (n - mid)%nat) as Lb by (unfold b; rewrite skipn_length, rev_if_length; reflexivity).
    apply run_bind_inv in H as (aa & s1 & Haa & H). apply run_bind_inv in H as (bb & s2 & Hbb & H).
    apply run_bind_inv in H as (ab & s3 & Hab & H). apply run_bind_inv in H as (res & s4 & Hres & H).
    apply run_bind_inv in H as (fin & s5 & Hfin & H). apply run_ret_inv in H as (-> & ->).
    pose proof (with_shift_length _ _ _ _ _ _ _ _ Hres) as Lres.
    pose proof (with_shift_length _ _ _ _ _ _ _ _ Hfin) as Lfin.
    apply IH in Haa as (X1 & O1 & L1 & V1). apply IH in Hbb as (X2 & O2 & L2 & V2).
    apply add_mul_karatsuba_correct in Hab as (X3 & _ & O3 & L3 & V3).
    apply add_sum_two_numbers_with_shift_correct in Hres as (X4 & _ & O4 & V4).
    apply add_sum_two_numbers_with_shift_correct in Hfin as (X5 & _ & O5 & V5).
    rewrite La in L1, L3. rewrite Lb in L2, L3. specialize (L3 ltac:(lia) ltac:(lia)).
    unfold sq_len in L1, L2. unfold mul_len in L3.
    destruct (mid =? 1)%nat eqn:E1; [apply Nat.eqb_eq in E1; lia|].
    destruct (n - mid =? 1)%nat eqn:E2; [apply Nat.eqb_eq in E2; lia|]. cbn [orb] in L3.
    split; [congruence|]. split.
    + rewrite rev_if_length, firstn_length. unfold sq_len.
      destruct (n =? 1)%nat eqn:E3; [apply Nat.eqb_eq in E3; lia|].
      rewrite L1, L3 in Lres. destruct (2 * mid <=? mid + 1)%nat eqn:E4; [apply Nat.leb_le in E4; lia|].
      rewrite Lres, L2 in Lfin.
      destruct (mid + 1 + S (Nat.max (2 * mid - (mid + 1)) (mid + (n - mid))) <=? 2 * mid)%nat eqn:E5;
        [apply Nat.leb_le in E5; lia|]. lia.
    + intros c Hc He asg xv Hxv.
      assert (ext (bc s4) c) as C4 by (eapply ext_trans; eassumption).
      assert (ext (bc s3) c) as C3 by (eapply ext_trans; eassumption).
      assert (ext (bc s2) c) as C2 by (eapply ext_trans; eassumption).
      assert (ext (bc s1) c) as C1 by (eapply ext_trans; eassumption).
      pose proof (bvals_rev_if _ _ be _ _ Hxv) as Hxv'. set (xv' := rev_if be xv) in *.
      pose proof (bvals_firstn _ _ mid _ _ Hxv') as Ha. pose proof (bvals_skipn _ _ mid _ _ Hxv') as Hb.
      fold a in Ha. fold b in Hb.
      destruct (V1 c C1 He asg _ Ha) as (aav & Haav & Eaa).
      destruct (V2 c C2 He asg _ Hb) as (bbv & Hbbv & Ebb).
      destruct (V3 c C3 He asg _ _ Ha Hb) as (abv & Habv & Eab).
      destruct (V4 c C4 asg _ _ Haav Habv) as (resv & Hresv & Eres).
      destruct (V5 c Hc asg _ _ Hresv Hbbv) as (finv & Hfinv & Efin).
      exists (rev_if be (firstn (2 * n) finv)). split; [apply bvals_rev_if, bvals_firstn, Hfinv|].
      rewrite decode_rev_if. unfold decode, rev_if in Eaa, Ebb, Eab, Eres, Efin. fold (rev_if be xv). fold xv'.
      pose proof (bits_val_firstn_skipn mid xv') as EX.
      assert (length (firstn mid xv') = mid) as Lf.
      { rewrite firstn_length, <- (bvals_length _ _ _ _ Hxv'), rev_if_length. fold n. lia. }
      rewrite Lf in EX.
      set (A := bits_val (firstn mid xv')) in *. set (B := bits_val (skipn mid xv')) in *.
      assert (bits_val finv = bits_val xv' * bits_val xv') as Efin'.
      { rewrite Efin, Eres, Eaa, Ebb, Eab, EX.
        replace (Z.of_nat (2 * mid)) with (Z.of_nat mid + Z.of_nat mid) by lia.
        replace (Z.of_nat (mid + 1)) with (Z.of_nat mid + 1) by lia.
        rewrite !Z.pow_add_r by lia. change (2 ^ 1) with 2. ring. }
      unfold decode. fold xv'. rewrite firstn_small; rewrite Efin'; [reflexivity|].
      pose proof (square_bound xv') as Hbd. rewrite <- (bvals_length _ _ _ _ Hxv'), rev_if_length in Hbd.
      fold n in Hbd. lia.
Qed.

Theorem add_square_correct fresh xs be s rs s' :
  run fresh (add_square xs be) s = Ok (rs, s') ->
  ext (bc s) (bc s') /\ inputs (bc s') = inputs (bc s) /\ outputs (bc s') = outputs (bc s) /\
  length rs = sq_len (length xs) /\
  forall c, ext (bc s') c -> has_gate c "" = false -> forall asg xv, bvals c asg xs xv ->
    exists rv, bvals c asg rs rv /\ decode be rv = decode be xv * decode be xv.
Proof.
  intros H. apply square_rec_correct in H as (X & O & L & V).
  split; [exact X|]. split; [apply ext_inputs, X|]. split; [exact O|]. split; [exact L|exact V].
Qed.
