(* C10: semantics of a RIGHT connection (right_connect = true) and the wrappers.

   r = connect_circuit base other tc oc true name ap.  The connectors tc are INPUT gates of
   base, pairwise distinct; the gate oc_i of other (any gate, repeats allowed) is written
   over the base input tc_i.  With mapping = build_mapping oc tc [] (for duplicate-free oc:
   mapping[oc_i] = tc_i; a repeated oc_i keeps its LAST partner only, as the Python dict does)
   and ren l = mapping[l] or prefix ++ l:
     - every gate l of other appears in r as ren l and has the value it has in other under
       the assignment that gives an input x of other the value a gives to ren x;
     - a base gate has the value it has in base under the assignment that gives the base
       input t = mapping[o] the value of o (in other) and any other base input its own value. *)
Require Import Cirbo.Model.Base Cirbo.Model.Gate Cirbo.Model.Circuit Cirbo.Model.Eval Cirbo.Model.Sem
        Cirbo.Model.Connect Cirbo.Model.WF.
Require Import Cirbo.Proofs.DictFacts Cirbo.Proofs.WFBase Cirbo.Proofs.WFSimple Cirbo.Proofs.WFEmplace
        Cirbo.Proofs.WFConnect1 Cirbo.Proofs.WFConnect2 Cirbo.Proofs.TopSortWF Cirbo.Proofs.SemFacts
        Cirbo.Proofs.SemExtConnect Cirbo.Proofs.SemConnectStruct Cirbo.Proofs.SemConnectLeft.

(* is b the image of a connector? *)
Lemma mapping_hit_dec (m : dict label) b :
  NoDup (dkeys m) -> (exists o, dget m o = Some b) \/ (forall o, dget m o <> Some b).
Proof.
  intros Hnd. destruct (rinv m b) as [o|] eqn:E.
  - left. exists o. apply rinv_some in E. apply In_dget; assumption.
  - right. intros o Ho. unfold rinv in E. destruct (find _ m) as [kv|] eqn:Ef; [discriminate|].
    apply dget_In in Ho. pose proof (find_none _ _ Ef _ Ho) as Hc. simpl in Hc.
    rewrite leqb_refl in Hc. discriminate.
Qed.

Section Right.
  Variables (base other : circuit) (tc oc : list label) (name : label) (ap : bool) (r : circuit).
  Hypothesis Wb : WF base.
  Hypothesis Wo : WF other.
  Hypothesis Hr : connect_circuit base other tc oc true name ap = Ok r.
  Let mapping := build_mapping oc tc [].
  Let ren := ren_of mapping (conn_prefix name ap).

  Lemma right_spec : ConnSpec base other tc oc true name (conn_prefix name ap) r.
  Proof. apply connect_circuit_spec; assumption. Qed.

  Lemma right_copy l g :
    dget (gates other) l = Some g -> dget (gates r) (ren l) = Some (mkGate (gtyp g) (map ren (gops g))).
  Proof. intros Hg. apply (cs_copy _ _ _ _ _ _ _ _ right_spec l g Hg). left; reflexivity. Qed.

  (* the gates of other (the re-typed base inputs included: ren o = mapping[o]) *)
  Theorem right_other_gates a a' :
    (forall x, In x (inputs other) -> aval a' x = aval a (ren x)) ->
    forall l v, has_gate other l = true -> (Eval r a (ren l) v <-> Eval other a' l v).
  Proof.
    intros Hin l v Hl. symmetry. apply Eval_sim; [| | |exact Hl].
    - intros x g Hg Ht. rewrite (Hin x) by (apply (wf_inputs other Wo); exists g; split; assumption).
      eapply EvalInput; [apply right_copy; exact Hg|exact Ht].
    - intros x g Hg _. apply right_copy, Hg.
    - intros x g o Hg _ Ho. eapply (wf_ops other Wo); eassumption.
  Qed.

  Lemma right_hit_is_input b o g :
    dget mapping o = Some b -> dget (gates base) b = Some g -> gtyp g = INPUT.
  Proof.
    intros Hm Hg. apply bm_nil_vals in Hm.
    destruct (cs_right _ _ _ _ _ _ _ _ right_spec eq_refl) as [_ Hi]. specialize (Hi b Hm).
    unfold is_input_gate in Hi. rewrite Hg in Hi. apply gtype_beq_eq, Hi.
  Qed.

  Lemma right_base_kept b g :
    dget (gates base) b = Some g -> (forall o, dget mapping o <> Some b) -> dget (gates r) b = Some g.
  Proof.
    intros Hb Hn. apply (cs_base _ _ _ _ _ _ _ _ right_spec b g Hb). intros (_ & o & Ho). exact (Hn o Ho).
  Qed.

  (* the gates of base: they see the value of o at the input mapping[o] *)
  Theorem right_base_gates a a' a'' :
    (forall x, In x (inputs other) -> aval a' x = aval a (ren x)) ->
    (forall o t, dget mapping o = Some t -> Eval other a' o (aval a'' t)) ->
    (forall x, In x (inputs base) -> (forall o, dget mapping o <> Some x) -> aval a'' x = aval a x) ->
    forall b v, has_gate base b = true -> (Eval r a b v <-> Eval base a'' b v).
  Proof.
    intros Hin Hconn Hfree b v Hb. symmetry.
    apply (Eval_sim base r a'' a (fun x => x)); [| | |exact Hb].
    - intros x g Hg Ht. destruct (mapping_hit_dec mapping x (bm_nil_keys oc tc)) as [[o Ho]|Hn].
      + pose proof (Hconn o x Ho) as He.
        apply (right_other_gates a a' Hin o _ (Eval_has_gate _ _ _ _ He)) in He.
        unfold ren, ren_of in He. fold mapping in He. rewrite Ho in He. exact He.
      + rewrite (Hfree x); [|apply (wf_inputs base Wb); exists g; split; assumption|exact Hn].
        eapply EvalInput; [apply right_base_kept; eassumption|exact Ht].
    - intros x g Hg Ht. rewrite map_id. replace (mkGate (gtyp g) (gops g)) with g by (destruct g; reflexivity).
      apply right_base_kept; [exact Hg|]. intros o Ho. apply Ht. eapply right_hit_is_input; eassumption.
    - intros x g o Hg _ Ho. eapply (wf_ops base Wb); eassumption.
  Qed.

  (* which base inputs are still inputs *)
  Theorem right_is_input_hit o t :
    dget mapping o = Some t -> is_input_gate r t = is_input_gate other o.
  Proof.
    intros Hm. pose proof (bm_nil_key_in _ _ _ _ Hm) as Ho.
    apply (cs_oc _ _ _ _ _ _ _ _ right_spec) in Ho. destruct (has_gate_get _ _ Ho) as [g Hg].
    pose proof (right_copy o g Hg) as Hc. unfold ren, ren_of in Hc. fold mapping in Hc. rewrite Hm in Hc.
    unfold is_input_gate. rewrite Hc, Hg. reflexivity.
  Qed.

  Theorem right_is_input_free b :
    has_gate base b = true -> (forall o, dget mapping o <> Some b) -> is_input_gate r b = is_input_gate base b.
  Proof.
    intros Hb Hn. destruct (has_gate_get _ _ Hb) as [g Hg].
    unfold is_input_gate. rewrite (right_base_kept b g Hg Hn), Hg. reflexivity.
  Qed.

  (* interface *)
  Theorem right_outputs :
    outputs r = filter (fun o => negb (memb o tc)) (outputs base)
                ++ map ren (filter (fun o => negb (memb o oc)) (outputs other)).
  Proof. exact (cs_outputs _ _ _ _ _ _ _ _ right_spec). Qed.

  Theorem right_inputs :
    inputs r = filter (is_input_gate r) (inputs base)
               ++ map ren (filter (fun i => negb (memb i oc)) (inputs other)).
  Proof. exact (cs_inputs _ _ _ _ _ _ _ _ right_spec). Qed.

  Theorem right_fresh l :
    has_gate other l = true -> dget mapping l = None -> has_gate base (ren l) = false.
  Proof. apply (cs_fresh _ _ _ _ _ _ _ _ right_spec). Qed.
End Right.
