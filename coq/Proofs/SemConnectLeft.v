(* C10: semantics of a LEFT connection (right_connect = false), of add_circuit, and the
   facts about the connector map shared with the right connection.

   r = connect_circuit base other tc oc false name ap.  The connectors oc are INPUT gates of
   other, pairwise distinct; connector oc_i reads the base gate tc_i (repeats allowed).
     - base is untouched: every base gate has in r the value it has in base;
     - a gate l of other appears in r as ren l and has there the value it has in other under
       the assignment a' that gives connector oc_i the value of tc_i (in base, under a) and
       an unconnected input x the value a gives to its new label ren x. *)
Require Import Cirbo.Model.Base Cirbo.Model.Gate Cirbo.Model.Circuit Cirbo.Model.Eval Cirbo.Model.Sem
        Cirbo.Model.Connect Cirbo.Model.WF.
Require Import Cirbo.Proofs.DictFacts Cirbo.Proofs.WFBase Cirbo.Proofs.WFSimple Cirbo.Proofs.WFEmplace
        Cirbo.Proofs.WFConnect1 Cirbo.Proofs.WFConnect2 Cirbo.Proofs.TopSortWF Cirbo.Proofs.SemFacts
        Cirbo.Proofs.SemExtConnect Cirbo.Proofs.SemConnectStruct.

(* ------------------------------------------------------------------ *)
(* the connector map *)
Lemma bm_key_in : forall oc tc m o t,
  dget (build_mapping oc tc m) o = Some t -> In o oc \/ dget m o = Some t.
Proof.
  induction oc as [|o1 oc IH]; intros tc m o t H; simpl in H; [right; exact H|].
  destruct tc as [|t1 tc]; [right; exact H|].
  apply IH in H. destruct H as [H|H]; [left; right; exact H|].
  rewrite dget_dset in H. destruct (leqb_spec o o1) as [->|_]; [left; left; reflexivity|right; exact H].
Qed.

Lemma bm_nil_key_in oc tc o t : dget (build_mapping oc tc []) o = Some t -> In o oc.
Proof. intros H; apply bm_key_in in H; destruct H as [H|H]; [exact H|discriminate]. Qed.

(* a key that is not a connector is not touched *)
Lemma bm_other : forall oc tc m o, ~ In o oc -> dget (build_mapping oc tc m) o = dget m o.
Proof.
  induction oc as [|o1 oc IH]; intros tc m o Hn; simpl; [reflexivity|].
  destruct tc as [|t1 tc]; [reflexivity|].
  rewrite IH by (intros Hin; apply Hn; right; exact Hin).
  apply dget_dset_other. intros ->; apply Hn; left; reflexivity.
Qed.

(* duplicate-free connectors: the map is the list of pairs *)
Lemma bm_nth_get : forall oc tc m i o t,
  NoDup oc -> nth_error oc i = Some o -> nth_error tc i = Some t ->
  dget (build_mapping oc tc m) o = Some t.
Proof.
  induction oc as [|o1 oc IH]; intros tc m i o t Hnd Ho Ht; [destruct i; discriminate|].
  destruct tc as [|t1 tc]; [destruct i; discriminate|].
  inversion Hnd as [|? ? Hn1 Hnd']; subst. simpl. destruct i as [|i]; simpl in Ho, Ht.
  - injection Ho as ->. injection Ht as ->. rewrite bm_other by exact Hn1. apply dget_dset_same.
  - eapply IH; eassumption.
Qed.

Lemma bm_get_nth : forall oc tc m o t,
  dget (build_mapping oc tc m) o = Some t ->
  (exists i, nth_error oc i = Some o /\ nth_error tc i = Some t) \/ dget m o = Some t.
Proof.
  induction oc as [|o1 oc IH]; intros tc m o t H; simpl in H; [right; exact H|].
  destruct tc as [|t1 tc]; [right; exact H|].
  apply IH in H. destruct H as [(i & A & B)|H]; [left; exists (S i); split; assumption|].
  rewrite dget_dset in H. destruct (leqb_spec o o1) as [->|_]; [|right; exact H].
  injection H as <-. left; exists 0; split; reflexivity.
Qed.

Lemma bm_nil_nth_iff oc tc o t :
  NoDup oc ->
  (dget (build_mapping oc tc []) o = Some t <->
   exists i, nth_error oc i = Some o /\ nth_error tc i = Some t).
Proof.
  intros Hnd; split.
  - intros H; apply bm_get_nth in H. destruct H as [H|H]; [exact H|discriminate].
  - intros (i & A & B). eapply bm_nth_get; eassumption.
Qed.

Lemma bm_none_gen : forall oc tc m x,
  length tc = length oc -> dget (build_mapping oc tc m) x = None -> ~ In x oc /\ dget m x = None.
Proof.
  induction oc as [|o1 oc IH]; intros tc m x Hlen H; simpl in H; [split; [intros []|exact H]|].
  destruct tc as [|t1 tc]; [discriminate Hlen|]. simpl in Hlen.
  apply IH in H; [|lia]. destruct H as [Hn H]. rewrite dget_dset in H.
  destruct (leqb_spec x o1) as [->|Hne]; [discriminate|]. split; [|exact H].
  intros [E|Hin]; [congruence|contradiction].
Qed.

Lemma bm_nil_none_iff oc tc x :
  length tc = length oc -> (dget (build_mapping oc tc []) x = None <-> ~ In x oc).
Proof.
  intros Hlen; split.
  - intros H. apply (bm_none_gen oc tc [] x Hlen H).
  - intros Hn. rewrite bm_other by exact Hn. reflexivity.
Qed.

(* ------------------------------------------------------------------ *)
(* small facts about assignments given as lists of pairs *)
Lemma dget_combine_nth {V} : forall (ks : list label) (vs : list V) i k v,
  NoDup ks -> nth_error ks i = Some k -> nth_error vs i = Some v -> dget (combine ks vs) k = Some v.
Proof.
  induction ks as [|k1 ks IH]; intros vs i k v Hnd Hk Hv; [destruct i; discriminate|].
  destruct vs as [|v1 vs]; [destruct i; discriminate|].
  inversion Hnd as [|? ? Hn1 Hnd']; subst. simpl. destruct i as [|i]; simpl in Hk, Hv.
  - injection Hk as ->. injection Hv as ->. rewrite leqb_refl. reflexivity.
  - destruct (leqb_spec k k1) as [->|_]; [|eapply IH; eassumption].
    exfalso. apply Hn1. eapply nth_error_In; exact Hk.
Qed.

Lemma dget_combine_none {V} : forall (ks : list label) (vs : list V) k,
  ~ In k ks -> dget (combine ks vs) k = None.
Proof.
  induction ks as [|k1 ks IH]; intros vs k Hn; [reflexivity|].
  destruct vs as [|v1 vs]; [reflexivity|]. simpl.
  destruct (leqb_spec k k1) as [->|_]; [exfalso; apply Hn; left; reflexivity|].
  apply IH. intros Hin; apply Hn; right; exact Hin.
Qed.

Lemma dget_map_pair {V} (f : label -> V) : forall l x,
  In x l -> dget (map (fun y => (y, f y)) l) x = Some (f x).
Proof.
  induction l as [|y l IH]; intros x Hin; [destruct Hin|]. simpl.
  destruct (leqb_spec x y) as [->|Hne]; [reflexivity|].
  destruct Hin as [->|Hin]; [congruence|apply IH, Hin].
Qed.

Lemma Forall2_nth_l {A B} (P : A -> B -> Prop) : forall l m i x,
  Forall2 P l m -> nth_error l i = Some x -> exists y, nth_error m i = Some y /\ P x y.
Proof.
  intros l m i x H; revert i; induction H as [|a b l m Hab _ IH]; intros i Hi; [destruct i; discriminate|].
  destruct i as [|i]; simpl in *; [injection Hi as ->; eauto|apply IH, Hi].
Qed.

Lemma filter_all_true {A} (p : A -> bool) l : (forall x, In x l -> p x = true) -> filter p l = l.
Proof.
  induction l as [|x l IH]; intros H; simpl; [reflexivity|].
  rewrite (H x (or_introl eq_refl)), IH; [reflexivity|]. intros y Hy; apply H; right; exact Hy.
Qed.

(* the assignment of `other` induced by a left connection: connector oc_i gets the value
   ws_i, every other input x the value that a gives to its new label *)
Definition left_assignment (ren : label -> label) (a : assignment) (oc : list label) (ws : list st)
           (other : circuit) : assignment :=
  combine oc ws ++ map (fun x => (x, aval a (ren x))) (inputs other).

(* ------------------------------------------------------------------ *)
Section Left.
  Variables (base other : circuit) (tc oc : list label) (name : label) (ap : bool) (r : circuit).
  Hypothesis Wb : WF base.
  Hypothesis Wo : WF other.
  Hypothesis Hr : connect_circuit base other tc oc false name ap = Ok r.
  Let mapping := build_mapping oc tc [].
  Let ren := ren_of mapping (conn_prefix name ap).

  Lemma left_spec : ConnSpec base other tc oc false name (conn_prefix name ap) r.
  Proof. apply connect_circuit_spec; assumption. Qed.

  Lemma left_base_kept b g : dget (gates base) b = Some g -> dget (gates r) b = Some g.
  Proof. intros Hb. apply (cs_base _ _ _ _ _ _ _ _ left_spec b g Hb). intros [E _]; discriminate. Qed.

  (* base is untouched *)
  Theorem left_base_gates a b v : has_gate base b = true -> (Eval r a b v <-> Eval base a b v).
  Proof.
    intros Hb. symmetry. apply Eval_ext; [exact left_base_kept| |exact Hb].
    intros x g o Hg Ho. eapply (wf_ops base Wb); eassumption.
  Qed.

  Lemma left_connector_is_input l t g :
    dget mapping l = Some t -> dget (gates other) l = Some g -> gtyp g = INPUT.
  Proof.
    intros Hm Hg. apply bm_nil_key_in in Hm.
    destruct (cs_left _ _ _ _ _ _ _ _ left_spec eq_refl) as [_ Hi]. specialize (Hi l Hm).
    unfold is_input_gate in Hi. rewrite Hg in Hi. apply gtype_beq_eq, Hi.
  Qed.

  (* the gates of other *)
  Theorem left_other_gates a a' :
    (forall o t, dget mapping o = Some t -> Eval base a t (aval a' o)) ->
    (forall x, In x (inputs other) -> dget mapping x = None -> aval a' x = aval a (ren x)) ->
    forall l v, has_gate other l = true -> (Eval r a (ren l) v <-> Eval other a' l v).
  Proof.
    intros Hconn Hfree l v Hl. symmetry. apply Eval_sim; [| | |exact Hl].
    - intros x g Hg Ht. destruct (dget mapping x) as [t|] eqn:Em.
      + unfold ren, ren_of. fold mapping. rewrite Em.
        apply left_base_gates; [|apply Hconn, Em].
        eapply (cs_tc _ _ _ _ _ _ _ _ left_spec). eapply bm_nil_vals; exact Em.
      + rewrite (Hfree x); [| |exact Em].
        * eapply EvalInput; [apply (cs_copy _ _ _ _ _ _ _ _ left_spec x g Hg); right; exact Em|exact Ht].
        * apply (wf_inputs other Wo). exists g; split; assumption.
    - intros x g Hg Ht. apply (cs_copy _ _ _ _ _ _ _ _ left_spec x g Hg). right.
      destruct (dget (build_mapping oc tc []) x) as [t|] eqn:Em; [|reflexivity].
      exfalso. apply Ht. eapply left_connector_is_input; eassumption.
    - intros x g o Hg _ Ho. eapply (wf_ops other Wo); eassumption.
  Qed.

  (* the same, with the connector pairs spelled out *)
  Theorem left_other_gates_nth a a' :
    (forall i o t, nth_error oc i = Some o -> nth_error tc i = Some t -> Eval base a t (aval a' o)) ->
    (forall x, In x (inputs other) -> ~ In x oc -> aval a' x = aval a (ren x)) ->
    forall l v, has_gate other l = true -> (Eval r a (ren l) v <-> Eval other a' l v).
  Proof.
    intros Hconn Hfree. apply left_other_gates.
    - intros o t Hm. apply bm_get_nth in Hm. destruct Hm as [(i & A & B)|Hm]; [|discriminate].
      eapply Hconn; eassumption.
    - intros x Hx Hm. apply Hfree; [exact Hx|].
      apply (bm_nil_none_iff oc tc x (cs_len _ _ _ _ _ _ _ _ left_spec)), Hm.
  Qed.

  (* ... and with the induced assignment built from the connector values *)
  Theorem left_other_gates_explicit a ws :
    Forall2 (Eval base a) tc ws ->
    forall l v, has_gate other l = true ->
                (Eval r a (ren l) v <-> Eval other (left_assignment ren a oc ws other) l v).
  Proof.
    intros Hws. destruct (cs_left _ _ _ _ _ _ _ _ left_spec eq_refl) as [Hnd _].
    apply left_other_gates_nth.
    - intros i o t Ho Ht. destruct (Forall2_nth_l _ _ _ _ _ Hws Ht) as (w & Hw & He).
      unfold aval, left_assignment. rewrite dget_app, (dget_combine_nth oc ws i o w Hnd Ho Hw). exact He.
    - intros x Hx Hn. unfold aval at 1, left_assignment.
      rewrite dget_app, (dget_combine_none oc ws x Hn), (dget_map_pair _ _ _ Hx). reflexivity.
  Qed.

  (* interface *)
  Theorem left_outputs :
    outputs r = filter (fun o => negb (memb o tc)) (outputs base)
                ++ map ren (filter (fun o => negb (memb o oc)) (outputs other)).
  Proof. exact (cs_outputs _ _ _ _ _ _ _ _ left_spec). Qed.

  Theorem left_inputs :
    inputs r = inputs base ++ map ren (filter (fun i => negb (memb i oc)) (inputs other)).
  Proof.
    rewrite (cs_inputs _ _ _ _ _ _ _ _ left_spec). f_equal. apply filter_all_true.
    intros i Hi. apply (wf_inputs base Wb) in Hi. destruct Hi as (g & Hg & Ht).
    unfold is_input_gate. rewrite (left_base_kept i g Hg). apply gtype_beq_eq, Ht.
  Qed.

  (* the new labels are new *)
  Theorem left_fresh l : has_gate other l = true -> ~ In l oc -> has_gate base (ren l) = false.
  Proof.
    intros Hl Hn. apply (cs_fresh _ _ _ _ _ _ _ _ left_spec l Hl).
    apply (bm_nil_none_iff oc tc l (cs_len _ _ _ _ _ _ _ _ left_spec)), Hn.
  Qed.
End Left.

(* ------------------------------------------------------------------ *)
(* add_circuit: no connectors; ren = (prefix ++) *)
Section Add.
  Variables (base other : circuit) (name : label) (ap : bool) (r : circuit).
  Hypothesis Wb : WF base.
  Hypothesis Wo : WF other.
  Hypothesis Hr : add_circuit base other name ap = Ok r.
  Let p := conn_prefix name ap.

  Lemma add_ren l : ren_of (build_mapping [] [] []) p l = (p ++ l)%string.
  Proof. reflexivity. Qed.

  Theorem add_circuit_base_gates a b v : has_gate base b = true -> (Eval r a b v <-> Eval base a b v).
  Proof. apply (left_base_gates base other [] [] name ap r Wb Wo Hr). Qed.

  Theorem add_circuit_other_gates a a' :
    (forall x, In x (inputs other) -> aval a' x = aval a (p ++ x)%string) ->
    forall l v, has_gate other l = true -> (Eval r a (p ++ l)%string v <-> Eval other a' l v).
  Proof.
    intros Hfree l v Hl.
    apply (left_other_gates base other [] [] name ap r Wb Wo Hr a a'); [| |exact Hl].
    - intros o t Hm; discriminate.
    - intros x Hx _. apply Hfree, Hx.
  Qed.

  Theorem add_circuit_interface :
    inputs r = inputs base ++ map (fun x => (p ++ x)%string) (inputs other) /\
    outputs r = outputs base ++ map (fun x => (p ++ x)%string) (outputs other).
  Proof.
    split.
    - rewrite (left_inputs base other [] [] name ap r Wb Wo Hr). simpl.
      rewrite (filter_all_true _ (inputs other)) by reflexivity. reflexivity.
    - rewrite (left_outputs base other [] [] name ap r Wo Hr). simpl.
      rewrite (filter_all_true _ (outputs base)) by reflexivity.
      rewrite (filter_all_true _ (outputs other)) by reflexivity. reflexivity.
  Qed.
End Add.
