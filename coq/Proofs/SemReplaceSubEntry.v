(* C19 / C04, replace_subcircuit: the gate map of the result, preservation of accepted arities,
   and the entry points evaluate / get_truth_table. *)
Require Import Cirbo.Model.Base Cirbo.Model.Gate Cirbo.Model.Den Cirbo.Model.Circuit Cirbo.Model.Traverse
        Cirbo.Model.Connect Cirbo.Model.Eval Cirbo.Model.Sem Cirbo.Model.WF.
Require Import Cirbo.Proofs.DictFacts Cirbo.Proofs.WFBase Cirbo.Proofs.WFSimple Cirbo.Proofs.WFEmplace
        Cirbo.Proofs.WFRemove Cirbo.Proofs.WFRename Cirbo.Proofs.WFRename2 Cirbo.Proofs.WFReplaceSub1
        Cirbo.Proofs.WFReplaceSub Cirbo.Proofs.TopSortWF
        Cirbo.Proofs.SemFacts Cirbo.Proofs.SemExt Cirbo.Proofs.SemRenameGate Cirbo.Proofs.SemReplaceSub
        Cirbo.Proofs.SemReplaceSub2.
Require Import Coq.Sorting.Permutation.

Section GateMap.
  Variables (c sub : circuit) (imap omap : dict label) (fresh : string) (c' : circuit).
  Hypothesis W : WF c.
  Hypothesis Ws : WF sub.
  Hypothesis H : replace_subcircuit c sub imap omap fresh = Ok c'.

  (* every gate of the result is a gate of the replacement (same label, type, operands) or a gate
     of the renamed host *)
  Lemma replace_subcircuit_gate_map :
    exists c2 bg, foldM ren_step (imap ++ omap) c = Ok c2 /\
      outputs c' = map (ren_all (imap ++ omap)) (outputs c) /\
      forall y, dget (gates c') y =
                if has_gate sub y && negb (memb y (dvals imap)) then dget (gates sub) y
                else if memb y bg then None else dget (gates c2) y.
  Proof.
    pose proof H as H'. unfold replace_subcircuit in H'.
    binv H' u0 H0. binv H' u1 H1. binv H' u2 H2. binv H' u3 H3. binv H' u4 H4. binv H' u5 H5.
    binv H' c1 Hc1. binv H' c2 Hc2. binv H' c3 Hc3. binv H' blk Hblk. binv H' u6 H6. binv H' saved Hsaved.
    binv H' u7 H7. binv H' c4 Hc4. binv H' order Hord. binv H' c5 Hc5. binv H' u8 H8. injection H' as E7.
    assert (HA : foldM ren_step (imap ++ omap) c = Ok c2).
    { rewrite foldM_app. unfold ren_step. rewrite Hc1; simpl. exact Hc2. }
    destruct (ren_fold_struct _ c c2 W HA) as (W2 & _ & _ & _ & O2).
    pose proof (make_block_from_slice_wf _ _ _ _ _ W2 Hc3) as W3.
    apply make_block_from_slice_inv' in Hc3. destruct Hc3 as (gs & Hincl & Hgsd & Ec3).
    set (bg := canonical_block_gates c2 gs) in *.
    assert (G3 : gates c3 = gates c2) by (rewrite Ec3; reflexivity).
    assert (Eblk : blk = mkBlock (dvals imap) bg (dvals omap)).
    { unfold get_block in Hblk. rewrite Ec3 in Hblk; simpl in Hblk. rewrite dget_dset_same in Hblk.
      injection Hblk as <-; reflexivity. }
    assert (Ebg : bgates blk = bg) by (rewrite Eblk; reflexivity).
    unfold remove_block_raw in Hc4. binv Hc4 blk' Hblk'. assert (blk' = blk) by congruence. subst blk'.
    rewrite Ebg in Hc4.
    pose proof (remove_loop_gates bg c3 c4 (wf_gkeys c3 W3) Hc4) as G4.
    pose proof (top_sort_nodup sub true order Ws Hord) as Hond.
    pose proof (top_sort_perm sub true order Ws Hord) as Hperm.
    destruct (reinsert_gates sub (dvals imap) order Hond c4 c5 Hc5) as [G5 Hfresh].
    assert (Hmo : forall y, memb y order = has_gate sub y).
    { intros y. destruct (has_gate sub y) eqn:E.
      - apply memb_In. eapply Permutation_in; [apply Permutation_sym, Hperm|]. apply dmem_keys, E.
      - apply memb_nIn. intros Hin. eapply Permutation_in in Hin; [|exact Hperm].
        apply dmem_keys in Hin. unfold has_gate in E; congruence. }
    set (c6 := set_outputs_raw c5 (outputs c3)) in *.
    assert (G7 : gates c' = gates c5 /\ outputs c' = outputs c3).
    { rewrite <- E7. fold restore_step.
      assert (forall sv cc, gates (fold_left restore_step sv cc) = gates cc /\
                            outputs (fold_left restore_step sv cc) = outputs cc) as Hrf.
      { induction sv as [|kv sv IHs]; intros cc; simpl; [auto|].
        destruct (IHs (restore_step cc kv)) as [-> ->]. unfold restore_step.
        destruct (dget (users cc) (fst kv)); simpl; auto. }
      destruct (Hrf saved c6) as [-> ->]. auto. }
    destruct G7 as [G7 O7].
    exists c2, bg. split; [exact HA|]. split.
    - rewrite O7, <- O2, Ec3. reflexivity.
    - intros y. rewrite G7, G5, Hmo, G4, G3. reflexivity.
  Qed.

  Lemma replace_subcircuit_outputs : outputs c' = map (ren_all (imap ++ omap)) (outputs c).
  Proof. destruct replace_subcircuit_gate_map as (c2 & bg & _ & Ho & _). exact Ho. Qed.

  Lemma replace_subcircuit_arity_ok : arity_ok c -> arity_ok sub -> arity_ok c'.
  Proof.
    intros A As. destruct replace_subcircuit_gate_map as (c2 & bg & HA & _ & Hget).
    pose proof (ren_fold_arity _ c c2 W HA A) as A2.
    intros y g Hg Hty. rewrite Hget in Hg.
    destruct (has_gate sub y && negb (memb y (dvals imap))); [exact (As y g Hg Hty)|].
    destruct (memb y bg); [discriminate|exact (A2 y g Hg Hty)].
  Qed.
End GateMap.

Require Import Cirbo.Proofs.WFStep Cirbo.Proofs.EvalEntry Cirbo.Proofs.TruthTable Cirbo.Proofs.C19Final
        Cirbo.Proofs.EntryEq.

Section Entry.
  Variables (c sub : circuit) (imap omap : dict label) (fresh : string) (c' : circuit).
  Hypothesis Ic : Inv c.
  Hypothesis Is : Inv sub.
  Hypothesis A : arity_ok c.
  Hypothesis As : arity_ok sub.
  Hypothesis H : replace_subcircuit c sub imap omap fresh = Ok c'.
  (* no primary input is removed (an input that is a replaced cone output would be) *)
  Hypothesis Hin : inputs c' = map (ren_all (imap ++ omap)) (inputs c).
  Local Notation rho := (ren_all (imap ++ omap)).

  Lemma replace_subcircuit_arity_ok' : arity_ok c'.
  Proof.
    destruct Ic as [W _]. destruct Is as [Ws _].
    exact (replace_subcircuit_arity_ok c sub imap omap fresh c' W Ws H A As).
  Qed.

  (* evaluate on one value vector, from the equivalence hypothesis at the assignment it builds *)
  Lemma replace_subcircuit_evaluate_at vals :
    (forall b, (forall k, In k (dkeys imap) -> Eval c (vec_assignment c vals) k (aval b (rho k))) ->
               forall k v, In k (dkeys omap) -> Eval c (vec_assignment c vals) k v -> Eval sub b (rho k) v) ->
    evaluate c' vals = evaluate c vals.
  Proof.
    intros Heq. pose proof Ic as [W N].
    pose proof (replace_subcircuit_inv' c sub imap omap fresh c' Ic Is H) as [W' N'].
    apply evaluate_eq_of_sem; try assumption.
    - exact replace_subcircuit_arity_ok'.
    - rewrite Hin, map_length. reflexivity.
    - intros vs HF.
      destruct (replace_subcircuit_outputs_sem' c sub imap omap fresh c' (vec_assignment c vals)
                  (vec_assignment c' vals) Ic Is A H) as [_ Hiff]; [|exact Heq|apply Hiff; exact HF].
      intros l Hl. apply In_nth_error in Hl. destruct Hl as [i Hi].
      unfold aval. rewrite (vec_assignment_nth c vals i l W Hi).
      rewrite (vec_assignment_nth c' vals i (rho l) W'); [reflexivity|].
      rewrite Hin. apply map_nth_error. exact Hi.
  Qed.

  (* C19: a functionally equivalent replacement (under the correspondence, for every host
     assignment) leaves evaluate and the truth table unchanged, as results *)
  Theorem replace_subcircuit_entry_eq :
    (forall a b, (forall k, In k (dkeys imap) -> Eval c a k (aval b (rho k))) ->
                 forall k v, In k (dkeys omap) -> Eval c a k v -> Eval sub b (rho k) v) ->
    (forall vals, evaluate c' vals = evaluate c vals) /\ get_truth_table c' = get_truth_table c.
  Proof.
    intros Heq.
    assert (Hev : forall vals, evaluate c' vals = evaluate c vals)
      by (intros vals; apply replace_subcircuit_evaluate_at; apply Heq).
    split; [exact Hev|].
    apply get_truth_table_eq_of_evaluate; [rewrite Hin, map_length; reflexivity| |intros bs _; apply Hev].
    destruct Ic as [W _]. destruct Is as [Ws _].
    rewrite (replace_subcircuit_outputs c sub imap omap fresh c' W Ws H), map_length. reflexivity.
  Qed.
End Entry.

(* the example of C19Final also satisfies the two extra hypotheses of the entry-point theorem *)
Require Import Cirbo.Proofs.SemExt.
Lemma C19_rs_entry_ok :
  arity_ok C19_rs_sub /\
  exists c', replace_subcircuit C19_rs_host C19_rs_sub C19_rs_imap C19_rs_omap "f" = Ok c' /\
    inputs c' = map (ren_all (C19_rs_imap ++ C19_rs_omap)) (inputs C19_rs_host) /\
    get_truth_table c' = Ok [[T; T; T; T]] /\ get_truth_table C19_rs_host = Ok [[T; T; T; T]].
Proof.
  split; [apply arity_okb_sound; vm_compute; reflexivity|].
  eexists; split; [vm_compute; reflexivity|]. repeat split; vm_compute; reflexivity.
Qed.
