(* C12: the three classes answer every query alike and correctly (statements assembled from the
   per-class lemmas; the dispatch is FuncProto.run_query, the one the correspondence check runs). *)
From Coq Require Import Permutation Sorted.
Require Import Cirbo.Model.Base Cirbo.Model.Gate Cirbo.Model.Circuit Cirbo.Model.Eval
        Cirbo.Model.FuncProto Cirbo.Proofs.FuncProtoEnum Cirbo.Proofs.FuncProtoLoops
        Cirbo.Proofs.FuncProtoQueries Cirbo.Proofs.FuncProtoClasses Cirbo.Proofs.FuncProtoSym.

(* c, t, p are the circuit, the truth table and the python callable of one function f *)
Definition represented3 (f : bvec -> bvec) (n m : nat) (c : circuit) (t : ttab) (p : pyfun) : Prop :=
  arity_ok f n m /\ circuit_computes c f n m /\ tt_represents t f n m /\ py_computes p f n m.

(* all three classes answer query q with a *)
Definition all_answer (c : circuit) (t : ttab) (p : pyfun) (q : query) (a : answer) : Prop :=
  circuit_query c q = Ok a /\ tt_query t q = Ok a /\ py_query p q = Ok a.

Lemma bool_iff_eq (b1 b2 : bool) (P : Prop) : (b1 = true <-> P) -> (b2 = true <-> P) -> b1 = b2.
Proof. intros H1 H2. destruct b1, b2; try reflexivity; intuition congruence. Qed.

Lemma amap_ok {A} (g : A -> answer) r a : r = Ok a -> amap g r = Ok (g a).
Proof. intros ->; reflexivity. Qed.

Section Three.
  Variables (f : bvec -> bvec) (n m : nat) (c : circuit) (t : ttab) (p : pyfun).
  Hypothesis H3 : represented3 f n m c t p.

  Let Har : arity_ok f n m := proj1 H3.
  Let Hc : rep_computes (circ_rep c) f n m := circ_rep_computes c f n m (proj1 (proj2 H3)).
  Let Htt : tt_represents t f n m := proj1 (proj2 (proj2 H3)).
  Let Ht : rep_computes (tt_rep t) f n m := tt_rep_computes t f n m Har Htt.
  Let Hpy : py_computes p f n m := proj2 (proj2 (proj2 H3)).
  Let Hp : rep_computes (py_rep p) f n m := py_rep_computes p f n m Har Hpy.

  (* a Boolean query decided by each class on its own *)
  Lemma three_bool q (P : Prop) :
    (exists b, circuit_query c q = Ok (ABool b) /\ (b = true <-> P)) ->
    (exists b, tt_query t q = Ok (ABool b) /\ (b = true <-> P)) ->
    (exists b, py_query p q = Ok (ABool b) /\ (b = true <-> P)) ->
    exists b, all_answer c t p q (ABool b) /\ (b = true <-> P).
  Proof.
    intros (b1 & E1 & I1) (b2 & E2 & I2) (b3 & E3 & I3).
    assert (b2 = b1) by (eapply bool_iff_eq; eassumption).
    assert (b3 = b1) by (eapply bool_iff_eq; eassumption). subst.
    exists b1. split; [repeat split; assumption|exact I1].
  Qed.

  Ltac lift H := destruct H as (b & Hb & Hiff); exists b; split; [apply amap_ok; exact Hb|exact Hiff].

  Lemma three_evaluate x : length x = n -> all_answer c t p (QEvaluate x) (AVec (f x)).
  Proof.
    intros Hx. repeat split; apply amap_ok; [apply (proj1 (proj2 (proj2 Hc)))|
      apply (proj1 (proj2 (proj2 Ht)))|apply (proj1 (proj2 (proj2 Hp)))]; exact Hx.
  Qed.

  Lemma three_evaluate_at x j : length x = n -> j < m ->
    all_answer c t p (QEvaluateAt x j) (ABool (out f j x)).
  Proof.
    intros Hx Hj. repeat split; apply amap_ok; [apply (proj2 (proj2 (proj2 Hc)))|
      apply (proj2 (proj2 (proj2 Ht)))|apply (proj2 (proj2 (proj2 Hp)))]; assumption.
  Qed.

  Lemma three_truth_table : all_answer c t p QTruthTable (ATable (tt_of f n m)).
  Proof.
    repeat split; apply amap_ok.
    - apply (g_truth_table_ok _ f n m Hc Har).
    - f_equal. apply (tt_truth_table_ok t f n m Htt).
    - apply (g_truth_table_ok _ f n m Hp Har).
  Qed.

  Lemma three_sizes : all_answer c t p QSizes (ANats [n; m]).
  Proof.
    repeat split; unfold circuit_query, tt_query, py_query, run_query; f_equal; f_equal;
      [rewrite (proj1 Hc), (proj1 (proj2 Hc))|rewrite (proj1 Ht), (proj1 (proj2 Ht))|
       rewrite (proj1 Hp), (proj1 (proj2 Hp))]; reflexivity.
  Qed.

  Lemma three_is_constant :
    exists b, all_answer c t p QConstant (ABool b) /\ (b = true <-> constant f n m).
  Proof.
    apply three_bool.
    - assert (H := g_is_constant_spec _ f n m Hc Har). lift H.
    - assert (H := tt_is_constant_spec t f n m Htt). lift H.
    - assert (H := g_is_constant_spec _ f n m Hp Har). lift H.
  Qed.

  Lemma three_is_constant_at j : j < m ->
    exists b, all_answer c t p (QConstantAt j) (ABool b) /\ (b = true <-> constant_at f n j).
  Proof.
    intros Hj. apply three_bool.
    - assert (H := g_is_constant_at_spec _ f n m Hc j Hj). lift H.
    - assert (H := tt_is_constant_at_spec t f n m Htt j Hj). lift H.
    - assert (H := g_is_constant_at_spec _ f n m Hp j Hj). lift H.
  Qed.

  Lemma three_is_monotone inv :
    exists b, all_answer c t p (QMonotone inv) (ABool b) /\ (b = true <-> monotone f n m inv).
  Proof.
    apply three_bool.
    - assert (H := circ_is_monotone_spec _ f n m Hc Har inv). lift H.
    - assert (H := tt_is_monotone_spec t f n m Htt inv). lift H.
    - assert (H := py_is_monotone_spec p f n m Har Hpy inv). lift H.
  Qed.

  Lemma three_is_monotone_at j inv : j < m ->
    exists b, all_answer c t p (QMonotoneAt j inv) (ABool b) /\ (b = true <-> monotone_at f n j inv).
  Proof.
    intros Hj. apply three_bool.
    - assert (H := circ_is_monotone_at_spec _ f n m Hc j inv Hj). lift H.
    - assert (H := tt_is_monotone_at_spec t f n m Htt j inv Hj). lift H.
    - assert (H := py_is_monotone_at_spec p f n m Har Hpy j inv Hj). lift H.
  Qed.

  Lemma three_is_symmetric :
    exists b, all_answer c t p QSymmetric (ABool b) /\ (b = true <-> symmetric f n m).
  Proof.
    apply three_bool.
    - assert (H := g_is_symmetric_spec _ f n m Hc Har). lift H.
    - assert (H := g_is_symmetric_spec _ f n m Ht Har). lift H.
    - assert (H := g_is_symmetric_spec _ f n m Hp Har). lift H.
  Qed.

  Lemma three_is_symmetric_at j : j < m ->
    exists b, all_answer c t p (QSymmetricAt j) (ABool b) /\ (b = true <-> symmetric_at f n j).
  Proof.
    intros Hj. apply three_bool.
    - assert (H := g_is_symmetric_at_spec _ f n m Hc j Hj). lift H.
    - assert (H := g_is_symmetric_at_spec _ f n m Ht j Hj). lift H.
    - assert (H := g_is_symmetric_at_spec _ f n m Hp j Hj). lift H.
  Qed.

  Lemma three_is_dependent j i : j < m -> i < n ->
    exists b, all_answer c t p (QDependent j i) (ABool b) /\ (b = true <-> dependent_on f n j i).
  Proof.
    intros Hj Hi. apply three_bool.
    - assert (H := g_is_dependent_correct _ f n m Hc j i Hj Hi). lift H.
    - assert (H := g_is_dependent_correct _ f n m Ht j i Hj Hi). lift H.
    - assert (H := g_is_dependent_correct _ f n m Hp j i Hj Hi). lift H.
  Qed.

  Lemma three_equal_to_input j i : j < m -> i < n ->
    exists b, all_answer c t p (QEqualInput j i) (ABool b) /\ (b = true <-> equal_to_input f n j i).
  Proof.
    intros Hj Hi. apply three_bool.
    - assert (H := g_equal_to_input_correct _ f n m Hc j i Hj Hi). lift H.
    - destruct (tt_equal_to_input_spec t f n m Htt false j i Hj Hi) as (b & Hb & Hiff).
      exists b. split; [apply amap_ok; exact Hb|]. rewrite Hiff. unfold equal_to_input.
      split; intros H x Hx; specialize (H x Hx); rewrite ?xorb_false_l in *; exact H.
    - assert (H := g_equal_to_input_correct _ f n m Hp j i Hj Hi). lift H.
  Qed.

  Lemma three_equal_to_input_negation j i : j < m -> i < n ->
    exists b, all_answer c t p (QEqualInputNeg j i) (ABool b) /\
              (b = true <-> equal_to_input_negation f n j i).
  Proof.
    intros Hj Hi. apply three_bool.
    - assert (H := g_equal_to_input_neg_correct _ f n m Hc j i Hj Hi). lift H.
    - destruct (tt_equal_to_input_spec t f n m Htt true j i Hj Hi) as (b & Hb & Hiff).
      exists b. split; [apply amap_ok; exact Hb|]. rewrite Hiff. unfold equal_to_input_negation.
      split; intros H x Hx; specialize (H x Hx); rewrite ?xorb_true_l in *; exact H.
    - assert (H := g_equal_to_input_neg_correct _ f n m Hp j i Hj Hi). lift H.
  Qed.

  Lemma three_significant j : j < m ->
    exists l, all_answer c t p (QSignificant j) (ANats l) /\ significant_inputs f n j l.
  Proof.
    intros Hj.
    destruct (g_significant_correct _ f n m Hc j Hj) as (l1 & E1 & S1).
    destruct (g_significant_correct _ f n m Ht j Hj) as (l2 & E2 & S2).
    destruct (g_significant_correct _ f n m Hp j Hj) as (l3 & E3 & S3).
    assert (l2 = l1) by (eapply significant_unique; eassumption).
    assert (l3 = l1) by (eapply significant_unique; eassumption). subst.
    exists l1. split; [|exact S1]. repeat split; apply amap_ok; assumption.
  Qed.

  Lemma three_find_negations outs : (forall j, In j outs -> j < m) ->
    exists o, all_answer c t p (QFindNegations outs) (AOptVec o) /\
              match o with
              | Some negs => negations_make_symmetric f n outs negs
              | None => forall negs, ~ negations_make_symmetric f n outs negs
              end.
  Proof.
    intros Houts.
    destruct (g_find_negations_spec _ f n m Hc Har outs Houts) as (o & Eo & So).
    exists o. split; [|exact So].
    (* a decision procedure for the specification, read off the circuit's run *)
    set (ev := fun x => do v <- r_ev (circ_rep c) x; filter_outputs outs v).
    set (dec := fun negs => match g_symmetric bvec_eqb ev n (Some negs) with Ok b => b | Err _ => false end).
    assert (Hdec : forall negs, length negs = n ->
               (dec negs = true <-> negations_make_symmetric f n outs negs)).
    { intros negs Hnegs.
      destruct (g_symmetric_spec bvec_eqb ev (fun x => map (fun j => out f j x) outs) n bvec_eqb_eq
                  (fun x Hx => filtered_ev_ok _ f n m Hc Har outs x Houts Hx) negs Hnegs) as (b & Hb & Hiff).
      unfold dec. rewrite Hb. rewrite Hiff. apply negations_criterion; exact Hnegs. }
    assert (E1 := g_find_negations_find _ f n m Hc Har outs dec Houts Hdec).
    assert (E2 := g_find_negations_find _ f n m Ht Har outs dec Houts Hdec).
    assert (E3 := g_find_negations_find _ f n m Hp Har outs dec Houts Hdec).
    assert (o = find dec (all_bool_vectors n)) by congruence. subst o.
    repeat split; apply amap_ok; assumption.
  Qed.
End Three.

(* ------------------------------------------------------------------ *)
(* non-vacuity: XOR of two inputs with its three representations *)
Definition xor2 (x : bvec) : bvec := [xorb (nth 0 x false) (nth 1 x false)].
Definition xor2_circuit : circuit :=
  mkCircuit ["a"; "b"] ["o"]
            [("a", mkGate INPUT []); ("b", mkGate INPUT []); ("o", mkGate XOR ["a"; "b"])]
            [("a", ["o"]); ("b", ["o"])] [].

Lemma xor2_represented :
  exists t p, represented3 xor2 2 1 xor2_circuit t p
              /\ tt_table t = [[false; true; true; false]]
              /\ circuit_query xor2_circuit (QMonotone false) = Ok (ABool false)
              /\ circuit_query xor2_circuit QSymmetric = Ok (ABool true).
Proof.
  destruct (tt_make (tt_of xor2 2 1)) as [t|] eqn:Et; [|vm_compute in Et; discriminate].
  exists t, (mkPy 2 1 (fun x => Ok (xor2 x))).
  split; [|split; [vm_compute in Et; injection Et as <-; reflexivity|split; vm_compute; reflexivity]].
  split; [intros x _; reflexivity|]. split; [|split; [split; [lia|exact Et]|repeat split]].
  repeat split.
  - intros x Hx. destruct x as [|a [|b [|? ?]]]; try discriminate. destruct a, b; vm_compute; reflexivity.
  - intros x j Hx Hj. assert (j = 0) by lia. subst j.
    destruct x as [|a [|b [|? ?]]]; try discriminate. destruct a, b; vm_compute; reflexivity.
Qed.
