(* T20: every function of Generated/BenchAlgGen.v (regenerated statement by statement from gate.py, circuit.py,
   parser/abstract.py, parser/bench.py) equals the hand model Model/Bench.v, for all arguments.
   The proofs never mention a bound variable of a generated term: they unfold, rewrite with facts about the
   prelude (Model/PyStr.v) and finish by conversion, so renaming a local of the source keeps them valid. *)
Require Import Cirbo.Model.Base Cirbo.Model.Gate Cirbo.Model.Den Cirbo.Model.Circuit Cirbo.Model.Bench Cirbo.Model.PyStr.
Require Import Cirbo.Generated.GateTypes Cirbo.Generated.BenchDispatch Cirbo.Generated.BenchAlgGen.
Require Import Cirbo.Proofs.BenchRoundtrip.
Require Import Coq.ZArith.ZArith Coq.micromega.Lia.

(* ------------------------------------------------------------------ the prelude against the hand helpers *)
Lemma take_min n s : take (Nat.min n (String.length s)) s = take n s.
Proof.
  revert n; induction s as [|a s IH]; intros [|n]; simpl; try reflexivity.
  rewrite IH; reflexivity.
Qed.

Lemma drop_min n s : drop (Nat.min n (String.length s)) s = drop n s.
Proof.
  revert n; induction s as [|a s IH]; intros [|n]; simpl; try reflexivity.
  apply IH.
Qed.

Lemma drop_length n s : String.length (drop n s) = (String.length s - n)%nat.
Proof.
  revert n; induction s as [|a s IH]; intros [|n]; simpl; try reflexivity.
  apply IH.
Qed.

Lemma take_ge n s : (String.length s <= n)%nat -> take n s = s.
Proof.
  revert n; induction s as [|a s IH]; intros [|n] H; simpl in *; try reflexivity; try lia.
  rewrite IH by lia; reflexivity.
Qed.

Lemma py_bound_nat n i : py_bound n (Z.of_nat i) = Nat.min i n.
Proof.
  unfold py_bound. destruct (Z.ltb_spec (Z.of_nat i) 0) as [H|H]; [lia|].
  rewrite Nat2Z.id; reflexivity.
Qed.

(* s[a:b], s[:b], s[a:] for non-negative bounds are the slice / take / drop of the hand model *)
Lemma py_slice_both s a b : py_slice s (Some (Z.of_nat a)) (Some (Z.of_nat b)) = slice a b s.
Proof.
  unfold py_slice, slice. rewrite !py_bound_nat, drop_min.
  rewrite <- (take_min (b - a)), drop_length. f_equal. lia.
Qed.

Lemma py_slice_to s b : py_slice s None (Some (Z.of_nat b)) = take b s.
Proof.
  unfold py_slice, slice. rewrite py_bound_nat. simpl drop. rewrite Nat.sub_0_r. apply take_min.
Qed.

Lemma py_slice_from s a : py_slice s (Some (Z.of_nat a)) None = drop a s.
Proof.
  unfold py_slice, slice. rewrite py_bound_nat, drop_min.
  apply take_ge. rewrite drop_length. lia.
Qed.

Lemma of_nat_succ i : (Z.of_nat i + 1)%Z = Z.of_nat (S i).
Proof. lia. Qed.

Lemma of_nat_not_m1 i : Z.eqb (Z.of_nat i) (-1) = false.
Proof. apply Z.eqb_neq; lia. Qed.

Lemma py_getitem_first a r : py_getitem (String a r) 0 = Ok (String a EmptyString).
Proof.
  unfold py_getitem. change (0 <? 0)%Z with false. cbv iota.
  destruct (Z.leb_spec (Z.of_nat (String.length (String a r))) 0) as [H|H]; [simpl String.length in H; lia|].
  reflexivity.
Qed.

Lemma foldM_ext {A S} (f g : S -> A -> res S) l s : (forall s x, f s x = g s x) -> foldM f l s = foldM g l s.
Proof.
  intros H; revert s; induction l as [|x l IH]; intros s; simpl; [reflexivity|].
  rewrite H. destruct (g s x); simpl; [apply IH|reflexivity].
Qed.

(* a read-only loop of checks is the mapM of the hand model *)
Lemma foldM_checks {A B} (f : A -> res unit) (l : list A) (k : res B) :
  (do _ <- foldM (fun (_ : unit) x => do _ <- f x; Ok tt) l tt; k) = (do _ <- mapM f l; k).
Proof.
  induction l as [|x l IH]; simpl; [reflexivity|].
  destruct (f x) as [[]|e]; simpl; [|reflexivity].
  rewrite IH. destruct (mapM f l); reflexivity.
Qed.

(* ------------------------------------------------------------------ the printer *)
Lemma gen_format_gate_eq l g : gen_format_gate l g = format_gate l g.
Proof. reflexivity. Qed.

Lemma gen_format_circuit_eq c : gen_format_circuit c = format_circuit c.
Proof. reflexivity. Qed.

Lemma gen_save_to_file_eq c : gen_save_to_file c = format_circuit c.
Proof. reflexivity. Qed.

(* ------------------------------------------------------------------ constants, constructor *)
Lemma gen_names_eq : gen_VDD_NAME = VDD_NAME /\ gen_BUFF_NAME = BUFF_NAME.
Proof. split; reflexivity. Qed.

Lemma gen_new_eq : gen_BenchToCircuit_new = empty_circuit.
Proof. reflexivity. Qed.

(* ------------------------------------------------------------------ the dispatch table and its handlers *)
(* what a handler of the T7 table does when called as h(out, *args) *)
Definition handler_call (h : handler) (c : circuit) (out : label) (args : list label) : res circuit :=
  if handler_accepts h (List.length args) then Ok (emplace_gate_raw c out (htype h) args) else Err PyTypeError.

Definition handler_rel (kh : string * handler) (kg : string * (circuit -> label -> list label -> res circuit)) : Prop :=
  fst kh = fst kg /\ forall c out args, snd kg c out args = handler_call (snd kh) c out args.

Lemma gen_add_gate_eq c out t args : gen__add_gate c out t args = Ok (emplace_gate_raw c out t args).
Proof. reflexivity. Qed.

(* the regenerated dict, key by key in dict order: same keys as the T7 table, and every regenerated
   `_process_<op>` binds its arguments and builds the gate exactly as the T7 handler says *)
Lemma gen_processings_rel : Forall2 handler_rel processings gen__processings.
Proof.
  unfold processings, gen__processings.
  repeat (constructor;
          [split; [reflexivity|
                   intros c out args; destruct args as [|a1 [|a2 [|a3 args]]]; reflexivity]|]).
  constructor.
Qed.

Lemma lookup_rel tbl gtbl key :
  Forall2 handler_rel tbl gtbl ->
  match lookup_processing tbl key with
  | Some h => exists g, py_dict_getitem gtbl key = Ok g /\ forall c out args, g c out args = handler_call h c out args
  | None => py_dict_getitem gtbl key = Err PyKeyError
  end.
Proof.
  induction 1 as [|[k h] [k' g] tbl gtbl [Hk Hg] _ IH]; simpl; [reflexivity|].
  simpl in Hk, Hg. subst k'. destruct (String.eqb key k); [|exact IH].
  exists g; split; [reflexivity|exact Hg].
Qed.

(* self._processings[key](out, *args), outside and inside the try block *)
Lemma gen_call_eq c key out args :
  (do h <- py_dict_getitem gen__processings key; h c out args) = call_handler c key out args false.
Proof.
  unfold call_handler. pose proof (lookup_rel processings gen__processings key gen_processings_rel) as H.
  destruct (lookup_processing processings key) as [h|].
  - destruct H as [g [-> Hg]]. simpl. rewrite Hg. reflexivity.
  - rewrite H. reflexivity.
Qed.

Lemma gen_call_try_eq c key out args :
  py_reraise PyKeyError PyValueError (do h <- py_dict_getitem gen__processings key; h c out args)
  = call_handler c key out args true.
Proof.
  rewrite gen_call_eq. unfold call_handler.
  destruct (lookup_processing processings key) as [h|]; [|reflexivity].
  destruct (handler_accepts h (List.length args)); reflexivity.
Qed.

(* ------------------------------------------------------------------ the per-line functions *)
Lemma gen_process_input_gate_eq c line : gen__process_input_gate c line = Ok (process_input_gate c line).
Proof.
  unfold gen__process_input_gate, process_input_gate. cbv zeta.
  change 6%Z with (Z.of_nat 6). rewrite py_slice_from. reflexivity.
Qed.

Lemma gen_process_output_gate_eq c line : gen__process_output_gate c line = Ok (process_output_gate c line).
Proof.
  unfold gen__process_output_gate, process_output_gate. cbv zeta.
  change 7%Z with (Z.of_nat 7). rewrite py_slice_from. reflexivity.
Qed.

Lemma gen_parse_name_gate_eq line : gen__parse_name_gate line = parse_name_gate line.
Proof.
  unfold gen__parse_name_gate, parse_name_gate, py_find_char. cbv zeta.
  change (ascii_of_nat 61) with ch_eq.
  destruct (find_char ch_eq line) as [i|]; [|reflexivity].
  rewrite of_nat_not_m1, of_nat_succ, py_slice_to, py_slice_from. reflexivity.
Qed.

Lemma gen_parse_operator_gate_eq body : gen__parse_operator_gate body = parse_operator_gate body.
Proof.
  unfold gen__parse_operator_gate, parse_operator_gate, py_find_char. cbv zeta.
  change (ascii_of_nat 40) with ch_lb. change (ascii_of_nat 41) with ch_rb.
  destruct (find_char ch_lb body) as [l|]; [|reflexivity].
  destruct (find_char ch_rb body) as [r|]; [|rewrite of_nat_not_m1; reflexivity].
  rewrite !of_nat_not_m1, of_nat_succ, py_slice_to, py_slice_both. reflexivity.
Qed.

Lemma gen_process_operator_gate_eq c line : gen__process_operator_gate c line = process_operator_gate c line.
Proof.
  unfold gen__process_operator_gate, process_operator_gate.
  rewrite gen_parse_name_gate_eq. destruct (parse_name_gate line) as [[out body]|e]; [|reflexivity].
  cbn [bind]. change 3%Z with (Z.of_nat 3). rewrite py_slice_to.
  change gen_VDD_NAME with VDD_NAME. change vdd_prefix_len with 3%nat.
  destruct (String.eqb (upper (take 3 body)) VDD_NAME); [apply gen_call_eq|].
  rewrite gen_parse_operator_gate_eq. destruct (parse_operator_gate body) as [[operator operands]|e]; [|reflexivity].
  cbn [bind]. change const_keeps_operands with true. cbn [negb orb].
  destruct ((String.eqb operator (gname ALWAYS_FALSE) || String.eqb operator (gname ALWAYS_TRUE))
            && labels_eqb operands [EmptyString]); apply gen_call_try_eq.
Qed.

Lemma gen_process_line_eq c line : gen__process_line c line = process_line c line.
Proof.
  unfold gen__process_line, process_line.
  assert (Hrest :
    (if startswith "INPUT" (upper line) && negb (has_char (ascii_of_nat 61) line)
     then gen__process_input_gate c line
     else if startswith "OUTPUT" (upper line) && negb (has_char (ascii_of_nat 61) line)
          then gen__process_output_gate c line
          else gen__process_operator_gate c line)
    = (if is_input_line line then Ok (process_input_gate c line)
       else if is_output_line line then Ok (process_output_gate c line)
            else process_operator_gate c line)).
  { rewrite gen_process_input_gate_eq, gen_process_output_gate_eq, gen_process_operator_gate_eq. reflexivity. }
  destruct line as [|a r]; [reflexivity|].
  unfold is_skip_line. change (String.eqb (String a r) "") with false. cbv iota.
  change (String (ascii_of_nat 10) "") with NL.
  destruct (String.eqb (String a r) NL); [reflexivity|].
  rewrite py_getitem_first. cbn [bind orb]. cbn [String.eqb andb].
  change comment_char with "#"%char.
  destruct (Ascii.eqb a "#"); [reflexivity|exact Hrest].
Qed.

(* ------------------------------------------------------------------ end of file, the driver *)
Lemma gen_eof_eq c : gen__eof c = eof c.
Proof.
  unfold gen__eof, eof.
  exact (foldM_checks (fun kg : label * gate => check_gates_exist (gops (snd kg)) c) (gates c) (Ok c)).
Qed.

Lemma gen_convert_eq c ls : gen_convert c ls = (do c' <- parse_lines ls c; eof c').
Proof.
  unfold gen_convert, parse_lines.
  rewrite (foldM_ext _ process_line) by (intros; apply gen_process_line_eq).
  destruct (foldM process_line ls c); [apply gen_eof_eq|reflexivity].
Qed.

Lemma gen_convert_to_circuit_eq c ls : gen_convert_to_circuit c ls = (do c' <- parse_lines ls c; eof c').
Proof. unfold gen_convert_to_circuit. apply gen_convert_eq. Qed.

Lemma gen_from_bench_string_eq text : gen_from_bench_string text = from_bench_string text.
Proof. unfold gen_from_bench_string. rewrite gen_convert_to_circuit_eq. reflexivity. Qed.

Lemma gen_from_bench_file_eq content : gen_from_bench_file content = from_bench_file_content content.
Proof. unfold gen_from_bench_file. rewrite gen_convert_to_circuit_eq. reflexivity. Qed.

(* ------------------------------------------------------------------ summary *)
Theorem bench_regenerated :
  (* printer *)
  (forall l g, gen_format_gate l g = format_gate l g) /\
  (forall c, gen_format_circuit c = format_circuit c) /\
  (forall c, gen_save_to_file c = format_circuit c) /\
  (* constants, constructor, dispatch dict and its handlers *)
  (gen_VDD_NAME = VDD_NAME /\ gen_BUFF_NAME = BUFF_NAME) /\
  gen_BenchToCircuit_new = empty_circuit /\
  (forall c out t args, gen__add_gate c out t args = Ok (emplace_gate_raw c out t args)) /\
  Forall2 (fun kh kg =>
             fst kh = fst kg /\
             forall c out args,
               snd kg c out args
               = if handler_accepts (snd kh) (List.length args)
                 then Ok (emplace_gate_raw c out (htype (snd kh)) args) else Err PyTypeError)
          processings gen__processings /\
  (forall c key out args,
     (do h <- py_dict_getitem gen__processings key; h c out args) = call_handler c key out args false) /\
  (* per-line functions *)
  (forall c line, gen__process_input_gate c line = Ok (process_input_gate c line)) /\
  (forall c line, gen__process_output_gate c line = Ok (process_output_gate c line)) /\
  (forall line, gen__parse_name_gate line = parse_name_gate line) /\
  (forall body, gen__parse_operator_gate body = parse_operator_gate body) /\
  (forall c line, gen__process_operator_gate c line = process_operator_gate c line) /\
  (forall c line, gen__process_line c line = process_line c line) /\
  (* end of file, drivers, entry points *)
  (forall c, gen__eof c = eof c) /\
  (forall c ls, gen_convert c ls = (do c' <- parse_lines ls c; eof c')) /\
  (forall c ls, gen_convert_to_circuit c ls = (do c' <- parse_lines ls c; eof c')) /\
  (forall text, gen_from_bench_string text = from_bench_string text) /\
  (forall content, gen_from_bench_file content = from_bench_file_content content) /\
  (* hence the round trip holds for the regenerated printer and parser themselves *)
  (forall c, bench_ok c ->
     exists c', gen_from_bench_string (gen_format_circuit c) = Ok c' /\ same_circuit c' c).
Proof.
  split; [exact gen_format_gate_eq|].
  split; [exact gen_format_circuit_eq|].
  split; [exact gen_save_to_file_eq|].
  split; [exact gen_names_eq|].
  split; [exact gen_new_eq|].
  split; [exact gen_add_gate_eq|].
  split; [exact gen_processings_rel|].
  split; [exact gen_call_eq|].
  split; [exact gen_process_input_gate_eq|].
  split; [exact gen_process_output_gate_eq|].
  split; [exact gen_parse_name_gate_eq|].
  split; [exact gen_parse_operator_gate_eq|].
  split; [exact gen_process_operator_gate_eq|].
  split; [exact gen_process_line_eq|].
  split; [exact gen_eof_eq|].
  split; [exact gen_convert_eq|].
  split; [exact gen_convert_to_circuit_eq|].
  split; [exact gen_from_bench_string_eq|].
  split; [exact gen_from_bench_file_eq|].
  intros c H. rewrite gen_from_bench_string_eq, gen_format_circuit_eq. exact (roundtrip c H).
Qed.
