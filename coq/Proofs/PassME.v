(* C03: MergeEquivalentGates.  rho = the representative (first emitted user-visible member) of
   the truth-table group.  Equal truth tables give equal values under every TOTAL assignment
   only (Proofs/PassTT.v), so the function is preserved on total assignments: under a partial
   assignment two gates with the same Boolean function may differ (x AND NOT x is Undefined,
   ALWAYS_FALSE is False). *)
Require Import Cirbo.Model.Base Cirbo.Model.Gate Cirbo.Model.Den Cirbo.Model.Circuit Cirbo.Model.Traverse
        Cirbo.Model.Eval Cirbo.Model.Sem Cirbo.Model.WF Cirbo.Model.Passes.
Require Import Cirbo.Generated.Operators Cirbo.Generated.GateTypes.
Require Import Cirbo.Proofs.DictFacts Cirbo.Proofs.WFBase Cirbo.Proofs.WFSimple
        Cirbo.Proofs.WFEmplace Cirbo.Proofs.TopSortWF Cirbo.Proofs.PassRebuild Cirbo.Proofs.PassRR
        Cirbo.Proofs.PassTT.

Definition same_group (groups : list (list label)) (x' x : label) : Prop :=
  x' = x \/ exists g, In g groups /\ In x' g /\ In x g.

Lemma group_index_spec gs l : forall j i, group_index gs l j = Some i ->
  j <= i /\ exists g, nth_error gs (i - j) = Some g /\ In l g.
Proof.
  induction gs as [|g gs IH]; intros j i H; simpl in H; [discriminate|].
  destruct (memb l g) eqn:E.
  - injection H as <-. split; [lia|]. exists g. rewrite Nat.sub_diag. split; [reflexivity|apply memb_In, E].
  - destruct (IH _ _ H) as (Hle & g' & Hn & Hl). split; [lia|]. exists g'. split; [|exact Hl].
    replace (i - j) with (S (i - S j)) by lia. exact Hn.
Qed.

(* every representative chosen so far belongs to its group *)
Definition KInv (groups : list (list label)) (k : keeps) : Prop :=
  forall i r, keep_get k i = Some r -> exists g, nth_error groups i = Some g /\ In r g.

Lemma me_new_name_spec groups k l r k' :
  KInv groups k -> me_new_name groups k l = (r, k') ->
  KInv groups k' /\ same_group groups r l /\
  (r = l \/ exists i, keep_get k i = Some r) /\
  (forall i q, keep_get k' i = Some q -> keep_get k i = Some q \/ q = l).
Proof.
  intros HK H. unfold me_new_name in H.
  destruct (group_index groups l 0) as [i|] eqn:Ei.
  2:{ injection H as <- <-. split; [exact HK|]. split; [left; reflexivity|]. split; [left; reflexivity|auto]. }
  destruct (group_index_spec _ _ _ _ Ei) as (_ & g & Hn & Hl). rewrite Nat.sub_0_r in Hn.
  destruct (keep_get k i) as [q|] eqn:Ek; injection H as <- <-.
  - split; [exact HK|]. destruct (HK i q Ek) as (g' & Hn' & Hq). rewrite Hn in Hn'. injection Hn' as <-.
    split; [right; exists g; split; [eapply nth_error_In; eassumption|auto]|]. split; [right; eauto|auto].
  - split; [|split; [left; reflexivity|split; [left; reflexivity|]]].
    + intros j q. simpl. destruct (Nat.eqb_spec j i) as [->|_]; [|apply HK].
      intros [= <-]. exists g. auto.
    + intros j q. simpl. destruct (Nat.eqb j i); [intros [= <-]; auto|auto].
Qed.

Lemma me_new_names_spec groups ls : forall k rs k',
  KInv groups k -> me_new_names groups k ls = (rs, k') ->
  KInv groups k' /\ Forall2 (same_group groups) rs ls /\
  (forall i q, keep_get k' i = Some q -> keep_get k i = Some q \/ In q ls) /\
  (forall r, In r rs -> In r ls \/ exists i, keep_get k i = Some r).
Proof.
  induction ls as [|l ls IH]; intros k rs k' HK H; simpl in H.
  - injection H as <- <-. split; [exact HK|]. split; [constructor|]. split; [auto|intros ? []].
  - destruct (me_new_name groups k l) as [r k1] eqn:E1.
    destruct (me_new_names groups k1 ls) as [rs1 k2] eqn:E2. injection H as <- <-.
    destruct (me_new_name_spec _ _ _ _ _ HK E1) as (HK1 & HR & Hr & Hk1).
    destruct (IH _ _ _ HK1 E2) as (HK2 & HRs & Hk2 & Hrs). split; [exact HK2|]. split; [constructor; assumption|].
    split.
    + intros i q Hq. destruct (Hk2 i q Hq) as [Hq1|Hq1]; [|right; right; exact Hq1].
      destruct (Hk1 i q Hq1) as [Hq0| ->]; [left; exact Hq0|right; left; reflexivity].
    + intros x [<-|Hx].
      * destruct Hr as [->|Hr]; [left; left; reflexivity|right; exact Hr].
      * destruct (Hrs x Hx) as [Hx1|(i & Hi)]; [left; right; exact Hx1|].
        destruct (Hk1 i x Hi) as [Hi0| ->]; [right; eauto|left; left; reflexivity].
Qed.

(* ---------------- the fold ---------------- *)
Definition me_step (c : circuit) (groups : list (list label)) (sq : circuit * keeps) (l : label)
  : res (circuit * keeps) :=
  let '(n, k) := sq in
  do g <- get_gate c l;
  let '(ops, k') := me_new_names groups k (gops g) in
  do n' <- emplace_gate n l (gtyp g) ops;
  Ok (n', k').

Record MEInv (c : circuit) (groups : list (list label)) (pre : list label) (sq : circuit * keeps) : Prop :=
  mkMEInv {
    mei_wf : WF (fst sq);
    mei_sim : sim c (same_group groups) (fst sq);
    mei_keep : KInv groups (snd sq);
    mei_keys : forall x, has_gate (fst sq) x = true <-> In x pre }.

Lemma me_step_inv c groups pre sq l sq' :
  MEInv c groups pre sq -> me_step c groups sq l = Ok sq' -> MEInv c groups (pre ++ [l]) sq'.
Proof.
  destruct sq as [n k]. intros [W S HK K] H. simpl in *. binv H g Hg. apply get_gate_ok in Hg.
  destruct (me_new_names groups k (gops g)) as [ops k'] eqn:E. binv H n' Hn'. injection H as <-.
  destruct (me_new_names_spec _ _ _ _ _ HK E) as (HK' & HR & _).
  destruct (emplace_gate_frame _ _ _ _ _ Hn') as (_ & _ & Hh & _). constructor; simpl.
  - eapply emplace_gate_wf; eassumption.
  - eapply sim_emplace; [exact S|exact Hg|reflexivity|intros _; exact HR|exact Hn'].
  - exact HK'.
  - intros x. rewrite Hh, in_app_iff, <- K. simpl.
    destruct (leqb_spec x l) as [->|Hne]; simpl; [tauto|]. split; [tauto|]. intros [Hx|[Hx|[]]]; congruence.
Qed.

Lemma MEInv_init c groups : MEInv c groups [] (empty_circuit, []).
Proof.
  constructor; simpl; [apply WF_empty|apply sim_empty|intros ? ? H; discriminate|].
  intros x; split; [discriminate|tauto].
Qed.

Theorem me_replace_rebuilt c groups c' :
  replace_equivalent_gates c groups = Ok c' ->
  Rebuilt c (same_group groups) c' /\ inputs c' = inputs c /\ inputs c' = filter (has_gate c') (inputs c).
Proof.
  intros H. unfold replace_equivalent_gates in H. binv H emit Hem. binv H sq H1.
  change (foldM (me_step c groups) emit (empty_circuit, []) = Ok sq) in H1.
  assert (I1 : MEInv c groups emit sq).
  { apply (foldM_prefix (me_step c groups) (MEInv c groups) emit)
      with (l := emit) (pre := []) (s := (empty_circuit, [])) (s' := sq).
    - intros pre x post s s' _. apply me_step_inv.
    - reflexivity.
    - apply MEInv_init.
    - exact H1. }
  destruct sq as [n1 k]. destruct I1 as [W1 S1 HK1 K1]. simpl in *.
  binv H n2 H2.
  destruct (me_new_names groups k (outputs c)) as [outs k'] eqn:E. simpl in H.
  destruct (me_new_names_spec _ _ _ _ _ HK1 E) as (_ & HR & _).
  destruct (finish_rebuilt c (same_group groups) n1 n2 outs c' W1 S1 H2 HR H) as (Hr & Hi & Hf & _). auto.
Qed.

(* C03 for MergeEquivalentGates: TOTAL assignments, inputs kept *)
Theorem me_pres c c' :
  WF c -> arity_ok c -> merge_equivalent_gates c = Ok c' -> Pres false true c c'.
Proof.
  intros W A H. unfold merge_equivalent_gates in H. binv H groups Hgr.
  destruct (me_replace_rebuilt c groups c' H) as (Hr & Hi & Hf).
  eapply Pres_of_rebuilt; [exact A|exact Hr|exact Hf|intros _; exact Hi|].
  intros a [Ha|Ha] x' x HR; [discriminate|].
  destruct HR as [->|(g & Hg & Hx' & Hx)]; [apply eqv_refl|].
  eapply groups_sem; eassumption.
Qed.
