(* C03: the two hypotheses that cannot be dropped, with concrete witnesses.
   (1) MergeEquivalentGates preserves the function on TOTAL assignments only.
   (2) MergeUnaryOperators needs arity_ok: it may turn a circuit whose evaluation raises
       (a gate with a wrong operand count behind the ignored operand of LNOT) into one that
       evaluates. *)
Require Import Cirbo.Model.Base Cirbo.Model.Gate Cirbo.Model.Den Cirbo.Model.Circuit Cirbo.Model.Traverse
        Cirbo.Model.Eval Cirbo.Model.Sem Cirbo.Model.WF Cirbo.Model.Passes.
Require Import Cirbo.Generated.Operators Cirbo.Generated.GateTypes.
Require Import Cirbo.Proofs.DictFacts Cirbo.Proofs.SemFacts Cirbo.Proofs.EvalFacts Cirbo.Proofs.WFBase
        Cirbo.Proofs.WFSound Cirbo.Proofs.PassRebuild Cirbo.Proofs.PassTT.

Lemma eval_by_full c l v : WF c ->
  (exists d, evaluate_full_circuit c [] = Ok d /\ dget d l = Some v) -> Eval c [] l v.
Proof.
  intros W (d & Hd & Hl).
  eapply (evaluate_full_circuit_sound c [] d (wf_inputs_are_input_gates c W)); [|exact Hd|exact Hl].
  intros x Hx. discriminate.
Qed.

(* ---- (1) x input; nx = NOT x; g = AND(x, nx); k = ALWAYS_FALSE; outputs g, k.
   g and k have the truth table [F; F]; k is replaced by g; with x undefined g is Undefined
   while k is False ---- *)
Definition me_wit : circuit :=
  mkCircuit ["x"] ["g"; "k"]
    [("x", mkGate INPUT []); ("nx", mkGate NOT ["x"]); ("g", mkGate AND ["x"; "nx"]);
     ("k", mkGate ALWAYS_FALSE [])]
    [("x", ["nx"; "g"]); ("nx", ["g"])] [].

Lemma me_three_valued_refuted :
  WF me_wit /\ (forall l g, dget (gates me_wit) l = Some g -> gtyp g <> INPUT ->
                            den_accepts (gtyp g) (length (gops g)) = true) /\
  exists c', merge_equivalent_gates me_wit = Ok c' /\ outputs c' = ["g"; "g"] /\
    ~ (forall v, Eval c' [] (nth 1 (outputs c') "") v <-> Eval me_wit [] (nth 1 (outputs me_wit) "") v).
Proof.
  assert (W : WF me_wit) by (apply wfb_sound; vm_compute; reflexivity).
  split; [exact W|]. split.
  { intros l g Hg Ht. vm_compute in Hg.
    repeat match type of Hg with (if ?b then _ else _) = _ => destruct b end;
      try discriminate; injection Hg as <-; try reflexivity; contradiction. }
  destruct (merge_equivalent_gates me_wit) as [c'|] eqn:E; [|vm_compute in E; discriminate].
  exists c'. split; [reflexivity|].
  assert (E' := E). vm_compute in E'. injection E' as <-. split; [reflexivity|].
  intros H. cbn [nth outputs me_wit] in H.
  match type of H with forall v, Eval ?cc _ _ _ <-> _ => set (c2 := cc) in * end.
  assert (W2 : WF c2) by (apply wfb_sound; vm_compute; reflexivity).
  assert (H1 : Eval c2 [] "g" U) by (apply eval_by_full; [exact W2|eexists; split; vm_compute; reflexivity]).
  assert (H2 : Eval me_wit [] "k" F) by (apply eval_by_full; [exact W|eexists; split; vm_compute; reflexivity]).
  apply H in H2. pose proof (Eval_functional _ _ _ _ _ H1 H2). discriminate.
Qed.

(* ---- (2) x input; y = AND(x) (one operand: Python raises TypeError when it is evaluated);
   z = NOT x; l = LNOT(z, y); o = OR(l, x); output o.  l is remapped to its even parent x, so
   the result has o = OR(x, x), which evaluates, while o has no value in the argument ---- *)
Definition mu_wit : circuit :=
  mkCircuit ["x"] ["o"]
    [("x", mkGate INPUT []); ("y", mkGate AND ["x"]); ("z", mkGate NOT ["x"]);
     ("l", mkGate LNOT ["z"; "y"]); ("o", mkGate OR ["l"; "x"])]
    [("x", ["y"; "z"; "o"]); ("z", ["l"]); ("y", ["l"]); ("l", ["o"])] [].

Lemma mu_arity_needed :
  WF mu_wit /\
  exists c', merge_unary_operators mu_wit = Ok c' /\ outputs c' = ["o"] /\
    (exists v, Eval c' [] "o" v) /\ (forall v, ~ Eval mu_wit [] "o" v).
Proof.
  assert (W : WF mu_wit) by (apply wfb_sound; vm_compute; reflexivity).
  split; [exact W|].
  destruct (merge_unary_operators mu_wit) as [c'|] eqn:E; [|vm_compute in E; discriminate].
  exists c'. split; [reflexivity|].
  assert (E' := E). vm_compute in E'. injection E' as <-. split; [reflexivity|]. split.
  - exists U.
    assert (Hx : forall cc, dget (gates cc) "x" = Some (mkGate INPUT []) -> Eval cc [] "x" U).
    { intros cc Hd. apply (EvalInput cc [] "x" (mkGate INPUT []) Hd eq_refl). }
    eapply (EvalGate _ [] "o" (mkGate OR ["x"; "x"]) [U; U] U); [reflexivity|discriminate| |reflexivity].
    simpl. repeat constructor; apply Hx; reflexivity.
  - intros v Ho.
    destruct (Eval_inv mu_wit [] "o" v (mkGate OR ["l"; "x"]) eq_refl Ho) as [[Ht _]|[_ (vs & Hvs & _)]]; [discriminate|].
    simpl in Hvs. inversion Hvs as [|? vl ? ? Hl _]; subst.
    destruct (Eval_inv mu_wit [] "l" vl (mkGate LNOT ["z"; "y"]) eq_refl Hl) as [[Ht _]|[_ (vs2 & Hvs2 & _)]]; [discriminate|].
    simpl in Hvs2. inversion Hvs2 as [|? vz ? ? _ Hr]; subst. inversion Hr as [|? vy ? ? Hy _]; subst.
    destruct (Eval_inv mu_wit [] "y" vy (mkGate AND ["x"]) eq_refl Hy) as [[Ht _]|[_ (vs3 & Hvs3 & Hop)]]; [discriminate|].
    simpl in Hvs3. inversion Hvs3 as [|? vx ? ? _ Hr3]; subst. inversion Hr3; subst. discriminate.
Qed.
