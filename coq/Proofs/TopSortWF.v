(* top_sort on a well-formed circuit, both directions: total (never out of fuel, never
   CircuitIsCyclicalError), a permutation of the gate labels, operands first
   (inverse = true) / users first (inverse = false).  Instances of Proofs/TopSort.v. *)
Require Import Cirbo.Model.Base Cirbo.Model.Gate Cirbo.Model.Circuit Cirbo.Model.Traverse Cirbo.Model.WF.
Require Import Cirbo.Proofs.DictFacts Cirbo.Proofs.TopSort.
Require Import Coq.Sorting.Permutation.

Lemma dget_of_In {V} (d : dict V) k v : NoDup (dkeys d) -> In (k, v) d -> dget d k = Some v.
Proof.
  induction d as [|[k' v'] d IH]; simpl; [tauto|]. intros Hnd Hin. inversion Hnd; subst.
  destruct Hin as [E|Hin].
  - inversion E; subst. rewrite leqb_refl; reflexivity.
  - destruct (leqb_spec k k') as [->|Hne]; [|auto].
    exfalso. apply H1. apply (in_map fst) in Hin. exact Hin.
Qed.

Lemma key_has_gate c l : In l (dkeys (gates c)) <-> exists g, dget (gates c) l = Some g.
Proof.
  rewrite <- dmem_keys. unfold dmem. destruct (dget (gates c) l) as [g|].
  - split; [intros _; eauto|reflexivity].
  - split; [discriminate|intros [g H]; discriminate].
Qed.

Lemma has_gate_key c l : has_gate c l = true <-> In l (dkeys (gates c)).
Proof. unfold has_gate. apply dmem_keys. Qed.

Lemma ops_of_key c l o : In o (ops_of c l) -> In l (dkeys (gates c)).
Proof.
  unfold ops_of. destruct (dget (gates c) l) as [g|] eqn:E; [|simpl; tauto].
  intros _. eapply dget_In_keys; eauto.
Qed.

Lemma get_gate_users_key c l : In l (dkeys (gates c)) -> get_gate_users c l = Ok (users_of c l).
Proof.
  intros H. unfold get_gate_users, users_of. apply has_gate_key in H. rewrite H.
  destruct (dget (users c) l); reflexivity.
Qed.

Lemma get_gate_key c l : In l (dkeys (gates c)) -> exists g, get_gate c l = Ok g /\ dget (gates c) l = Some g.
Proof. intros H. apply key_has_gate in H. destruct H as [g H]. exists g. unfold get_gate. rewrite H. auto. Qed.

Section WFgraph.
  Variable c : circuit.
  Hypothesis Hwf : WF c.

  Lemma wf_ops_key l o : In o (ops_of c l) -> In o (dkeys (gates c)).
  Proof.
    unfold ops_of. destruct (dget (gates c) l) as [g|] eqn:E; [|simpl; tauto].
    intros H. apply has_gate_key. eapply (wf_ops c Hwf); eauto.
  Qed.

  Lemma wf_users_ops l u : In u (users_of c l) <-> In l (ops_of c u).
  Proof. rewrite <- !count_In. rewrite (wf_users c Hwf). tauto. Qed.

  Lemma wf_users_key l u : In u (users_of c l) -> In u (dkeys (gates c)).
  Proof. intros H. apply wf_users_ops in H. eapply ops_of_key; eauto. Qed.

  Lemma wf_users_key_l l u : In u (users_of c l) -> In l (dkeys (gates c)).
  Proof. intros H. apply wf_users_ops in H. eapply wf_ops_key; eauto. Qed.

  Lemma init_indegree_true :
    init_indegree true c =
    Ok (map (fun l => (l, Z.of_nat (length (ops_of c l)))) (dkeys (gates c))).
  Proof.
    unfold init_indegree, dkeys. rewrite map_map.
    apply mapM_map. intros [l g] Hin. simpl.
    unfold ops_of. rewrite (dget_of_In _ _ _ (wf_gkeys c Hwf) Hin). reflexivity.
  Qed.

  Lemma init_indegree_false :
    init_indegree false c =
    Ok (map (fun l => (l, Z.of_nat (length (users_of c l)))) (dkeys (gates c))).
  Proof.
    unfold init_indegree, dkeys. rewrite map_map.
    apply mapM_map. intros [l g] Hin. simpl.
    rewrite get_gate_users_key; [reflexivity|]. apply (in_map fst) in Hin; exact Hin.
  Qed.

  Theorem top_sort_true_wf :
    exists l, top_sort true c = Ok l /\ Permutation l (dkeys (gates c)) /\
      forall i j a b, nth_error l i = Some a -> nth_error l j = Some b ->
                      In b (ops_of c a) -> j < i.
  Proof.
    destruct (wf_acyclic c Hwf) as [rank Hrank].
    destruct (kahn_top_sort c true (ops_of c) (users_of c) (wf_gkeys c Hwf)) with (rk := rank)
      as (l & Hl & Hperm & Hord).
    - intros l u. apply (wf_users c Hwf).
    - intros l p _ Hp. eapply wf_ops_key; eauto.
    - intros l s _ Hs. eapply wf_users_key; eauto.
    - intros l p Hl Hp. unfold ops_of in Hp. destruct (dget (gates c) l) as [g|] eqn:E; [|contradiction].
      eapply Hrank; eauto.
    - intros l Hl. destruct (get_gate_key c l Hl) as (g & Hg & _). exists g. split; [exact Hg|].
      simpl. apply get_gate_users_key; exact Hl.
    - apply init_indegree_true.
    - exists l. split; [exact Hl|]. split; [exact Hperm|].
      apply (prefix_order_nth l) with (P := fun a b => In b (ops_of c a)).
      + eapply Permutation_NoDup; [apply Permutation_sym; exact Hperm|apply (wf_gkeys c Hwf)].
      + exact Hord.
  Qed.

  Theorem top_sort_false_wf :
    exists l, top_sort false c = Ok l /\ Permutation l (dkeys (gates c)) /\
      forall i j a b, nth_error l i = Some a -> nth_error l j = Some b ->
                      In b (ops_of c a) -> i < j.
  Proof.
    destruct (wf_acyclic c Hwf) as [rank Hrank].
    set (M := list_max (map rank (dkeys (gates c)))).
    assert (HM : forall l, In l (dkeys (gates c)) -> rank l <= M).
    { intros l Hl. pose proof (proj1 (list_max_le (map rank (dkeys (gates c))) M) (le_n _)) as Hall.
      rewrite Forall_forall in Hall. apply Hall. apply in_map; exact Hl. }
    destruct (kahn_top_sort c false (users_of c) (ops_of c) (wf_gkeys c Hwf)) with (rk := fun x => M - rank x)
      as (l & Hl & Hperm & Hord).
    - intros l u. symmetry. apply (wf_users c Hwf).
    - intros l p _ Hp. eapply wf_users_key; eauto.
    - intros l s _ Hs. eapply wf_ops_key; eauto.
    - intros l p Hl Hp. pose proof (HM p (wf_users_key _ _ Hp)) as Hle.
      apply wf_users_ops in Hp. unfold ops_of in Hp.
      destruct (dget (gates c) p) as [g|] eqn:E; [|contradiction].
      pose proof (Hrank p g l E Hp). lia.
    - intros l Hl. destruct (get_gate_key c l Hl) as (g & Hg & Hd). exists g. split; [exact Hg|].
      simpl. unfold ops_of. rewrite Hd. reflexivity.
    - apply init_indegree_false.
    - exists l. split; [exact Hl|]. split; [exact Hperm|].
      intros i j a b Hi Hj Hb.
      apply (prefix_order_nth l) with (P := fun x y => In y (users_of c x)) (a := b) (b := a).
      + eapply Permutation_NoDup; [apply Permutation_sym; exact Hperm|apply (wf_gkeys c Hwf)].
      + exact Hord.
      + exact Hj.
      + exact Hi.
      + apply wf_users_ops; exact Hb.
  Qed.
End WFgraph.

(* ---- exported forms ---- *)
Definition operands_first (c : circuit) (l : list label) : Prop :=
  forall i j a b, nth_error l i = Some a -> nth_error l j = Some b -> In b (ops_of c a) -> j < i.
Definition users_first (c : circuit) (l : list label) : Prop :=
  forall i j a b, nth_error l i = Some a -> nth_error l j = Some b -> In b (ops_of c a) -> i < j.

Theorem top_sort_complete c : WF c ->
  exists l, top_sort true c = Ok l /\ Permutation l (dkeys (gates c)) /\ operands_first c l.
Proof. apply top_sort_true_wf. Qed.

Theorem top_sort_complete_rev c : WF c ->
  exists l, top_sort false c = Ok l /\ Permutation l (dkeys (gates c)) /\ users_first c l.
Proof. apply top_sort_false_wf. Qed.

Theorem top_sort_total c inverse : WF c -> exists l, top_sort inverse c = Ok l.
Proof.
  intros H. destruct inverse.
  - destruct (top_sort_complete c H) as (l & Hl & _); eauto.
  - destruct (top_sort_complete_rev c H) as (l & Hl & _); eauto.
Qed.

Theorem top_sort_perm c inverse l : WF c -> top_sort inverse c = Ok l ->
  Permutation l (dkeys (gates c)).
Proof.
  intros H Hl. destruct inverse.
  - destruct (top_sort_complete c H) as (l' & Hl' & Hp & _). assert (l = l') by congruence. subst; exact Hp.
  - destruct (top_sort_complete_rev c H) as (l' & Hl' & Hp & _). assert (l = l') by congruence. subst; exact Hp.
Qed.

Theorem top_sort_nodup c inverse l : WF c -> top_sort inverse c = Ok l -> NoDup l.
Proof.
  intros H Hl. eapply Permutation_NoDup; [apply Permutation_sym; eapply top_sort_perm; eauto|].
  apply (wf_gkeys c H).
Qed.

Theorem top_sort_true_order c l : WF c -> top_sort true c = Ok l -> operands_first c l.
Proof. intros H Hl. destruct (top_sort_complete c H) as (l' & Hl' & _ & Ho). assert (l = l') by congruence. subst; exact Ho. Qed.

Theorem top_sort_false_order c l : WF c -> top_sort false c = Ok l -> users_first c l.
Proof. intros H Hl. destruct (top_sort_complete_rev c H) as (l' & Hl' & _ & Ho). assert (l = l') by congruence. subst; exact Ho. Qed.

(* list form of the order facts: everything an element depends on occurs in the prefix before it *)
Theorem top_sort_true_prefix c l : WF c -> top_sort true c = Ok l ->
  forall l1 a l2, l = l1 ++ a :: l2 -> forall b, In b (ops_of c a) -> In b l1.
Proof.
  intros H Hl l1 a l2 E b Hb.
  pose proof (top_sort_true_order c l H Hl) as Ho.
  pose proof (top_sort_perm c true l H Hl) as Hp.
  assert (Hbl : In b l).
  { apply (Permutation_in _ (Permutation_sym Hp)). eapply wf_ops_key; eauto. }
  subst l. apply in_app_or in Hbl. destruct Hbl as [Hbl|Hbl]; [exact Hbl|exfalso].
  assert (Ha : nth_error (l1 ++ a :: l2) (length l1) = Some a).
  { rewrite nth_error_app2 by lia. rewrite Nat.sub_diag. reflexivity. }
  apply In_nth_error in Hbl. destruct Hbl as [k Hk].
  assert (Hb' : nth_error (l1 ++ a :: l2) (length l1 + k) = Some b).
  { rewrite nth_error_app2 by lia. replace (length l1 + k - length l1) with k by lia. exact Hk. }
  pose proof (Ho _ _ _ _ Ha Hb' Hb). lia.
Qed.
