(* Final statements for property C20, in the form restated in Properties/C20.v. *)
Require Import Cirbo.Model.Base Cirbo.Model.Gate Cirbo.Model.Circuit Cirbo.Model.Traverse Cirbo.Model.WF.
Require Import Cirbo.Proofs.DictFacts Cirbo.Proofs.TopSort Cirbo.Proofs.TopSortWF.
Require Import Cirbo.Proofs.TraverseStep Cirbo.Proofs.TraverseInv Cirbo.Proofs.TraverseDfs
               Cirbo.Proofs.TraverseFuel Cirbo.Proofs.TraverseSpec Cirbo.Proofs.CycleCheck.
Require Import Coq.Sorting.Permutation.

(* index reading of [precedes] *)
Lemma precedes_nth {A} (e1 e2 : A) log j :
  precedes e1 e2 log -> nth_error log j = Some e2 -> exists i, i < j /\ nth_error log i = Some e1.
Proof.
  intros Hp Hj. destruct (nth_error_split log j Hj) as (l1 & l2 & E & Hlen).
  pose proof (Hp l1 l2 E) as Hin. apply In_nth_error in Hin. destruct Hin as [i Hi].
  assert (Hlt : i < length l1) by (apply nth_error_Some; congruence).
  exists i. split; [lia|]. rewrite E, nth_error_app1; assumption.
Qed.

Definition starts_exist (inverse : bool) (c : circuit) (starts : option (list label)) : Prop :=
  forall s, In s (start_list inverse c starts) -> has_gate c s = true.

Lemma starts_exist_default inverse c : WF c -> starts_exist inverse c None.
Proof. intros H. exact (start_list_default_ok inverse c H). Qed.

Theorem top_sort_result_spec : forall c inverse l, WF c -> top_sort inverse c = Ok l ->
  Permutation l (dkeys (gates c)) /\ NoDup l /\
  (if inverse then operands_first c l else users_first c l).
Proof.
  intros c inverse l Hwf Hl. split; [eapply top_sort_perm; eauto|]. split; [eapply top_sort_nodup; eauto|].
  destruct inverse; [apply top_sort_true_order|apply top_sort_false_order]; assumption.
Qed.

Theorem traverse_total : forall mode inverse c starts tu,
  WF c -> starts_exist inverse c starts ->
  exists log, traverse mode inverse c starts tu no_abort = Ok log.
Proof.
  intros mode inverse c starts tu Hwf Hs.
  destruct (traverse_wf_spec mode inverse c starts tu Hwf Hs) as (log & H & _). eauto.
Qed.

Theorem traverse_yields_reachable : forall mode inverse c starts tu log,
  WF c -> starts_exist inverse c starts ->
  traverse mode inverse c starts tu no_abort = Ok log ->
  NoDup (yielded log) /\
  forall l, In l (yielded log) <-> reach (nxt inverse c) (start_list inverse c starts) l.
Proof.
  intros mode inverse c starts tu log Hwf Hs Hl.
  pose proof (traverse_wf_post mode inverse c starts tu log Hwf Hs Hl) as HP.
  split; [exact (tp_nodup _ _ _ _ _ _ HP)|exact (tp_reach _ _ _ _ _ _ HP)].
Qed.

Theorem traverse_hooks : forall mode inverse c starts tu log,
  WF c -> starts_exist inverse c starts ->
  traverse mode inverse c starts tu no_abort = Ok log ->
  enters log = yielded log /\
  (forall l, precedes (EvEnter l) (EvExit l) log) /\
  NoDup (exits log) /\
  (mode = BFS -> exits log = []) /\
  (mode = DFS -> forall l, In l (exits log) <-> In l (yielded log)).
Proof.
  intros mode inverse c starts tu log Hwf Hs Hl.
  pose proof (traverse_wf_post mode inverse c starts tu log Hwf Hs Hl) as HP.
  split; [exact (tp_enters _ _ _ _ _ _ HP)|]. split; [exact (tp_prec _ _ _ _ _ _ HP)|].
  split; [exact (tp_exits_nodup _ _ _ _ _ _ HP)|]. split; [exact (tp_bfs _ _ _ _ _ _ HP)|exact (tp_dfs _ _ _ _ _ _ HP)].
Qed.

Theorem dfs_post_order : forall inverse c starts tu log,
  WF c -> starts_exist inverse c starts ->
  traverse DFS inverse c starts tu no_abort = Ok log ->
  forall a b, In a (yielded log) -> tc (nxt inverse c) a b ->
              In (EvExit a) log /\ In (EvExit b) log /\ precedes (EvExit b) (EvExit a) log.
Proof.
  intros inverse c starts tu log Hwf Hs Hl a b Ha Htc.
  pose proof (traverse_wf_post DFS inverse c starts tu log Hwf Hs Hl) as HP.
  assert (Hb : In b (yielded log)).
  { apply (tp_reach _ _ _ _ _ _ HP). eapply reach_tc; [|exact Htc]. apply (tp_reach _ _ _ _ _ _ HP). exact Ha. }
  split; [apply exits_In, (tp_dfs _ _ _ _ _ _ HP eq_refl); exact Ha|].
  split; [apply exits_In, (tp_dfs _ _ _ _ _ _ HP eq_refl); exact Hb|].
  exact (tp_post _ _ _ _ _ _ HP eq_refl a b Ha Htc).
Qed.

Theorem traverse_unvisited : forall mode inverse c starts tu log,
  WF c -> starts_exist inverse c starts ->
  traverse mode inverse c starts tu no_abort = Ok log ->
  (exists order,
     (if tu then top_sort true c = Ok order else order = dkeys (gates c)) /\
     unvisited_of log = filter (fun l => negb (memb l (yielded log))) order) /\
  NoDup (unvisited_of log) /\
  (forall l, In l (unvisited_of log) <->
             In l (dkeys (gates c)) /\ ~ reach (nxt inverse c) (start_list inverse c starts) l) /\
  (gates c <> [] -> exists log0 unv,
     log = log0 ++ map EvUnvisited unv ++ [EvEnd] /\ unvisited_of log0 = [] /\ ~ In EvEnd log0).
Proof.
  intros mode inverse c starts tu log Hwf Hs Hl.
  pose proof (traverse_wf_post mode inverse c starts tu log Hwf Hs Hl) as HP.
  destruct (tp_unv _ _ _ _ _ _ HP) as (order & Ho & Hu).
  assert (Hperm : Permutation order (dkeys (gates c))).
  { destruct tu; [eapply top_sort_perm; eauto|subst; apply Permutation_refl]. }
  split; [exists order; split; assumption|]. split; [|split; [|exact (tp_shape _ _ _ _ _ _ HP)]].
  - rewrite Hu. apply NoDup_filter. eapply Permutation_NoDup; [apply Permutation_sym; exact Hperm|apply (wf_gkeys c Hwf)].
  - intros l. rewrite Hu, filter_In, negb_true_iff, memb_nIn, (tp_reach _ _ _ _ _ _ HP). split.
    + intros [H1 H2]. split; [eapply Permutation_in; eauto|exact H2].
    + intros [H1 H2]. split; [eapply Permutation_in; [apply Permutation_sym; exact Hperm|exact H1]|exact H2].
Qed.
