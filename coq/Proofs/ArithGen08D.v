(* Generated/ArithGen08.v (translator T19) equals the hand model, part D: add_square_pow2_m1 and add_square of
   square.py.  The generated code keeps an n x n matrix c (products above the diagonal, the inputs on it) and reads
   c[j][i - j - 1] level by level; the hand model consumes the rows of the strict upper triangle head first. *)
Require Import Cirbo.Model.Base Cirbo.Model.Gate Cirbo.Model.Circuit Cirbo.Model.Builder Cirbo.Model.PyPrims.
Require Import Cirbo.Model.ArithSub Cirbo.Model.ArithSum2 Cirbo.Model.ArithSumN Cirbo.Model.ArithSumW.
Require Import Cirbo.Model.PyPrims08 Cirbo.Model.ArithMul Cirbo.Model.ArithSquare.
Require Import Cirbo.Generated.ArithTables Cirbo.Generated.ArithCells Cirbo.Generated.ArithGen08.
Require Import Cirbo.Proofs.ArithGen09Lib Cirbo.Proofs.ArithGen08Lib Cirbo.Proofs.ArithGen08A Cirbo.Proofs.ArithGen08B
  Cirbo.Proofs.ArithGen08C.
From Coq Require Import ZArith Lia Ascii Arith.
Open Scope Z_scope.

Lemma div2_spec i : (2 * (i / 2) <= i < 2 * (i / 2) + 2)%nat.
Proof. pose proof (Nat.div_mod i 2). pose proof (Nat.mod_upper_bound i 2). lia. Qed.
Ltac div2 :=
  repeat match goal with
         | |- context [(?x / 2)%nat] =>
             let H := fresh "D" in let q := fresh "q" in
             pose proof (div2_spec x) as H; set (q := (x / 2)%nat) in *; clearbody q
         end.

(* ---- the rows of the strict upper triangle, by index ---------------------------------------------------------- *)
Definition sq_rowp (xs : list label) (i : nat) : prog (list label) :=
  mapP (fun xj => gate_tt tt_and (nth i xs ""%string) xj) (skipn (S i) xs).

Lemma sq_rows_idx (xs : list label) : forall k i, (i + k = length xs)%nat ->
  peq (sq_rows (skipn i xs)) (mapP (sq_rowp xs) (seq i k)).
Proof.
  induction k as [|k IH]; intros i Hi fresh s.
  - rewrite skipn_all2 by lia. reflexivity.
  - rewrite (skipn_nth xs i ""%string) by lia. cbn [sq_rows seq mapP]. rs. unfold sq_rowp at 1.
    destruct (run fresh (mapP (fun xj => gate_tt tt_and (nth i xs ""%string) xj) (skipn (S i) xs)) s) as [[row s1]|e]; rs;
      [|reflexivity].
    rewrite IH by lia. reflexivity.
Qed.

Lemma sq_rowp_length xs i : returns (sq_rowp xs i) (fun r => length r = (length xs - S i)%nat).
Proof.
  intros fresh s r s' H. apply mapP_returns_length in H. rewrite H, skipn_length. reflexivity.
Qed.

(* row i of c receives its products from column i + 1 on *)
Definition sq_putr (c : list (list label)) (i : nat) (row : list label) : list (list label) :=
  put_row (fun c j g => upd c i (upd (nth i c []) j g)) c (S i) row.

Lemma sq_putr_matrix n c i row : is_matrix n n c -> (i < n)%nat -> length row = (n - S i)%nat ->
  is_matrix n n (sq_putr c i row).
Proof.
  intros Hc Hi Hr. unfold sq_putr.
  apply (put_row_inv _ (is_matrix n n) n); [|exact Hc|lia].
  intros c' j g Hc' Hj. apply is_matrix_upd; [exact Hc'|]. rewrite upd_length. apply (is_matrix_row n n); assumption.
Qed.

Lemma sq_nest_eq (H : Z -> list (list label) -> Z -> prog (list (list label))) (xs : list label) c0 :
  is_matrix (length xs) (length xs) c0 ->
  (forall i j c, (i < j)%nat -> (j < length xs)%nat -> is_matrix (length xs) (length xs) c ->
     peq (H (Z.of_nat i) c (Z.of_nat j))
         (bdo g <- gate_tt tt_and (nth i xs ""%string) (nth j xs ""%string);
          Ret (upd c i (upd (nth i c []) j g)))) ->
  peq (foldP (fun c i => bdo c <- foldP (H i) (py_range (i + 1) (Z.of_nat (length xs))) c; Ret c)
             (py_range 0 (Z.of_nat (length xs))) c0)
      (bdo rows <- sq_rows xs; Ret (put_rows sq_putr c0 0 rows)).
Proof.
  intros Hc0 HH. set (n := length xs).
  rewrite py_range_0_nat.
  eapply peq_trans.
  { apply (rows_fold_idx _ (sq_rowp xs) sq_putr (fun _ c => is_matrix n n c) (fun i r => length r = (n - S i)%nat) n).
    - intros i. apply sq_rowp_length.
    - intros c i row Hc Hi Hr. apply sq_putr_matrix; assumption.
    - intros c i Hi Hc fresh s. cbv beta. rs.
      replace (Z.of_nat i + 1) with (Z.of_nat (S i)) by lia. rewrite py_range_nat.
      rewrite (row_fold_gen_from _ (fun xj => gate_tt tt_and (nth i xs ""%string) xj)
                 (fun c j g => upd c i (upd (nth i c []) j g)) (is_matrix n n) xs (S i) n);
        [ | unfold n; lia | | | lia | lia | exact Hc ].
      + rewrite firstn_all2 by (rewrite skipn_length; unfold n; lia). fold (sq_rowp xs i). rs.
        destruct (run fresh (sq_rowp xs i) s) as [[row s1]|e]; rs; reflexivity.
      + intros c' j g Hc' Hj. apply is_matrix_upd; [exact Hc'|]. rewrite upd_length.
        apply (is_matrix_row n n); assumption.
      + intros c' j Hj Hc'. apply HH; try assumption; lia.
    - lia.
    - exact Hc0. }
  intros fresh s. rs. rewrite <- (sq_rows_idx xs n 0) by (unfold n; lia). cbn [skipn].
  destruct (run fresh (sq_rows xs) s) as [[rows s1]|e]; rs; reflexivity.
Qed.

(* ---- what the matrix holds after the loops ---------------------------------------------------------------------- *)
Definition tri_lengths (n : nat) (rows : list (list label)) : Prop :=
  length rows = n /\ forall r, (r < n)%nat -> length (nth r rows []) = (n - S r)%nat.

Lemma sq_rows_returns : forall xs, returns (sq_rows xs) (tri_lengths (length xs)).
Proof.
  induction xs as [|x xs IH]; intros fresh s rows s'; cbn [sq_rows]; rs.
  - intros H; inversion H; subst. split; [reflexivity|]. intros r Hr. cbn in Hr. lia.
  - destruct (run fresh (mapP (fun xj => gate_tt tt_and x xj) xs) s) as [[row s1]|e] eqn:E1; rs; [|discriminate].
    destruct (run fresh (sq_rows xs) s1) as [[rs' s2]|e] eqn:E2; rs; [|discriminate].
    intros H; inversion H; subst. apply mapP_returns_length in E1. apply IH in E2. destruct E2 as [L R].
    split; [cbn [length]; lia|]. intros [|r] Hr; cbn [nth length] in *; [lia|]. rewrite R by lia. lia.
Qed.

Lemma sq_putr_nth n c i row : is_matrix n n c -> (i < n)%nat -> length row = (n - S i)%nat ->
  forall j, nth j (sq_putr c i row) [] = if (j =? i)%nat then firstn (S i) (nth i c []) ++ row else nth j c [].
Proof.
  intros Hc Hi Hr j. unfold sq_putr. destruct Hc as [Hl Hf].
  assert (Hrow : length (nth i c []) = n) by (apply (is_matrix_row n n); [split; assumption|exact Hi]).
  rewrite put_row_matrix by lia.
  rewrite (put_row_list (nth i c [])) by (try reflexivity; lia).
  rewrite (skipn_all2 (n:=(S i + length row)%nat)) by lia. rewrite app_nil_r.
  destruct (Nat.eqb_spec j i) as [->|Hji].
  - apply nth_upd_same. lia.
  - apply nth_upd_other. lia.
Qed.

Lemma put_rows_sq_nth n : forall rows c i, is_matrix n n c -> (i + length rows <= n)%nat ->
  (forall k, (k < length rows)%nat -> length (nth k rows []) = (n - S (i + k))%nat) ->
  is_matrix n n (put_rows sq_putr c i rows) /\
  forall j, nth j (put_rows sq_putr c i rows) []
            = if ((i <=? j) && (j <? i + length rows))%nat
              then firstn (S j) (nth j c []) ++ nth (j - i) rows [] else nth j c [].
Proof.
  induction rows as [|row rows IH]; intros c i Hc Hi Hlen; cbn [put_rows length] in *.
  - split; [exact Hc|]. intros j. destruct (Nat.leb_spec i j), (Nat.ltb_spec j (i + 0)); cbn [andb]; try reflexivity; lia.
  - assert (Hr : length row = (n - S i)%nat) by (specialize (Hlen 0%nat); cbn [nth] in Hlen; rewrite Hlen by lia; f_equal; lia).
    destruct (IH (sq_putr c i row) (S i)) as [M N].
    + apply sq_putr_matrix; [exact Hc|lia|exact Hr].
    + lia.
    + intros k Hk. specialize (Hlen (S k)). cbn [nth] in Hlen. rewrite Hlen by lia. f_equal. lia.
    + split; [exact M|]. intros j. rewrite N. rewrite !(sq_putr_nth n c i row Hc) by (try exact Hr; lia).
      destruct (Nat.eqb_spec j i) as [->|Hji].
      * destruct (Nat.leb_spec (S i) i); [lia|]. cbn [andb]. rewrite Nat.leb_refl.
        destruct (Nat.ltb_spec i (i + S (length rows))); [|lia]. cbn [andb]. rewrite Nat.sub_diag. reflexivity.
      * destruct (Nat.leb_spec (S i) j), (Nat.leb_spec i j), (Nat.ltb_spec j (S i + length rows)),
          (Nat.ltb_spec j (i + S (length rows))); cbn [andb]; try reflexivity; try lia.
        replace (j - i)%nat with (S (j - S i)) by lia. reflexivity.
Qed.

(* for i in range(n): c[i][i] = x[i] *)
Definition sq_putd (c : list (list label)) (j : nat) (g : label) : list (list label) :=
  upd c j (upd (nth j c []) j g).

Lemma put_row_diag_nth n : forall l c k, is_matrix n n c -> (k + length l <= n)%nat ->
  is_matrix n n (put_row sq_putd c k l) /\
  forall j, nth j (put_row sq_putd c k l) []
            = if ((k <=? j) && (j <? k + length l))%nat
              then upd (nth j c []) j (nth (j - k) l ""%string) else nth j c [].
Proof.
  induction l as [|x l IH]; intros c k Hc Hk; cbn [put_row length] in *.
  - split; [exact Hc|]. intros j. destruct (Nat.leb_spec k j), (Nat.ltb_spec j (k + 0)); cbn [andb]; try reflexivity; lia.
  - assert (Hc' : is_matrix n n (sq_putd c k x)).
    { unfold sq_putd. apply is_matrix_upd; [exact Hc|]. rewrite upd_length. apply (is_matrix_row n n); [exact Hc|lia]. }
    destruct (IH (sq_putd c k x) (S k) Hc') as [M N]; [lia|].
    split; [exact M|]. intros j. rewrite N. unfold sq_putd. destruct Hc as [Hl Hf].
    destruct (Nat.eqb_spec j k) as [->|Hjk].
    + destruct (Nat.leb_spec (S k) k); [lia|]. cbn [andb]. rewrite Nat.leb_refl.
      destruct (Nat.ltb_spec k (k + S (length l))); [|lia]. cbn [andb]. rewrite Nat.sub_diag. cbn [nth].
      apply nth_upd_same. lia.
    + rewrite !nth_upd_other by lia.
      destruct (Nat.leb_spec (S k) j), (Nat.leb_spec k j), (Nat.ltb_spec j (S k + length l)),
        (Nat.ltb_spec j (k + S (length l))); cbn [andb]; try reflexivity; try lia.
      replace (j - k)%nat with (S (j - S k)) by lia. reflexivity.
Qed.

Lemma sq_matrix_facts (xs : list label) c0 rows :
  let n := length xs in
  is_matrix n n c0 -> tri_lengths n rows ->
  let c2 := put_row sq_putd (put_rows sq_putr c0 0 rows) 0 xs in
  is_matrix n n c2 /\
  (forall j k, (j < k)%nat -> (k < n)%nat ->
     nth k (nth j c2 []) ""%string = nth (k - S j) (nth j rows []) ""%string) /\
  (forall t, (t < n)%nat -> nth t (nth t c2 []) ""%string = nth t xs ""%string).
Proof.
  intros n Hc0 [Lr Hr] c2.
  destruct (put_rows_sq_nth n rows c0 0 Hc0) as [M1 N1]; [lia| |].
  { intros k Hk. rewrite Hr by lia. reflexivity. }
  destruct (put_row_diag_nth n xs _ 0 M1) as [M2 N2]; [unfold n; lia|].
  fold c2 in M2, N2.
  assert (Hrow0 : forall j, (j < n)%nat -> length (nth j c0 []) = n) by (intros j Hj; apply (is_matrix_row n n c0 j Hc0 Hj)).
  split; [exact M2|]. split.
  - intros j k Hjk Hk. rewrite N2, N1.
    destruct (Nat.leb_spec 0 j); [|lia]. destruct (Nat.ltb_spec j (0 + length xs)); [|unfold n in *; lia].
    destruct (Nat.ltb_spec j (0 + length rows)); [|lia]. cbn [andb].
    rewrite nth_upd_other by lia. rewrite app_nth2 by (rewrite firstn_length, Hrow0 by lia; lia).
    rewrite firstn_length, Hrow0 by lia. rewrite Nat.min_l by lia. rewrite Nat.sub_0_r. reflexivity.
  - intros t Ht. rewrite N2.
    destruct (Nat.leb_spec 0 t); [|lia]. destruct (Nat.ltb_spec t (0 + length xs)); [|unfold n in *; lia]. cbn [andb].
    rewrite nth_upd_same; [rewrite Nat.sub_0_r; reflexivity|].
    rewrite N1. destruct (Nat.ltb_spec t (0 + length rows)); [|lia]. cbn [Nat.leb andb].
    rewrite app_length, firstn_length, Hrow0 by lia. lia.
Qed.

(* ---- the levels of the hand model, by index ----------------------------------------------------------------------- *)
Section SqLevels.
  Variable xs : list label.
  Variable rows : list (list label).
  Variable n : nat.
  Hypothesis Hxs : length xs = n.
  Hypothesis Hrows : tri_lengths n rows.

  Definition sq_acts (i : nat) : list (list label) :=
    map (fun r => skipn (i - 2 * r - 2) (nth r rows [])) (seq 0 ((i - 1) / 2)).
  Definition sq_acts1 (i : nat) : list (list label) :=
    map (fun r => skipn (i - 2 * r - 2) (nth r rows [])) (seq 0 (i / 2)).
  (* [c[j][i - j - 1] for j in range(i // 2) if j < n and i - j - 1 < n] *)
  Definition sq_diag (i : nat) : list label :=
    flat_map (fun j => if ((j <? n) && (i - j - 1 <? n))%nat
                       then [nth (i - j - 1 - S j) (nth j rows []) ""%string] else [])
             (seq 0 (i / 2)).
  Definition sq_inp (i : nat) (mo : list (list (list label))) : list label :=
    sq_diag i ++ (if Nat.even i then [nth (i / 2) xs ""%string] else []) ++ gather (length mo) mo.

  Lemma parity_cases i : (exists t, i = (2 * t)%nat /\ Nat.even i = true) \/ (exists t, i = (2 * t + 1)%nat /\ Nat.even i = false).
  Proof.
    destruct (Nat.even i) eqn:Ev.
    - left. apply Nat.even_spec in Ev. destruct Ev as [t ->]. exists t. split; reflexivity.
    - right. assert (Ho : Nat.odd i = true) by (rewrite <- Nat.negb_even, Ev; reflexivity).
      apply Nat.odd_spec in Ho. destruct Ho as [t ->]. exists t. split; reflexivity.
  Qed.

  Lemma sq_acts1_step i : (2 <= i)%nat -> (i < 2 * n)%nat ->
    (if Nat.even i then sq_acts i ++ firstn 1 (skipn ((i - 1) / 2) rows) else sq_acts i) = sq_acts1 i.
  Proof.
    intros H2 Hn. destruct Hrows as [Lr _]. unfold sq_acts, sq_acts1.
    destruct (parity_cases i) as [(t & -> & Ev)|(t & -> & Ev)]; rewrite Ev.
    - replace ((2 * t - 1) / 2)%nat with (t - 1)%nat by (div2; lia).
      replace (2 * t / 2)%nat with (S (t - 1)) by (div2; lia).
      rewrite (skipn_nth rows (t - 1) []) by lia. cbn [firstn].
      rewrite seq_S, map_app. cbn [map Nat.add]. f_equal. f_equal.
      replace (2 * t - 2 * (t - 1) - 2)%nat with 0%nat by lia. reflexivity.
    - replace ((2 * t + 1 - 1) / 2)%nat with t by (div2; lia).
      replace ((2 * t + 1) / 2)%nat with t by (div2; lia). reflexivity.
  Qed.

  Lemma heads1_sq_acts1 i : (i < 2 * n)%nat -> heads1 (sq_acts1 i) = sq_diag i.
  Proof.
    intros Hn. destruct Hrows as [Lr Hr]. unfold sq_acts1, sq_diag, heads1. rewrite flat_map_map.
    apply flat_map_ext_in. intros r Hr'. apply in_seq in Hr'.
    assert (Hrn : (r < n)%nat) by (revert Hr'; div2; lia).
    assert (H2r : (2 * r + 2 <= i)%nat) by (revert Hr'; div2; lia).
    destruct (Nat.ltb_spec r n); [|lia]. cbn [andb].
    destruct (Nat.ltb_spec (i - r - 1) n) as [H3|H3].
    - rewrite (skipn_nth _ (i - 2 * r - 2) ""%string) by (rewrite Hr; lia).
      replace (i - r - 1 - S r)%nat with (i - 2 * r - 2)%nat by lia. reflexivity.
    - rewrite skipn_all2 by (rewrite Hr; lia). reflexivity.
  Qed.

  Lemma sq_acts_tl i : map (@tl label) (sq_acts1 i) = sq_acts (S i).
  Proof.
    unfold sq_acts, sq_acts1. rewrite map_map. replace (S i - 1)%nat with i by lia.
    apply map_ext_in. intros r Hr. apply in_seq in Hr. rewrite tl_skipn. f_equal. revert Hr. div2. lia.
  Qed.

  Lemma sq_levels_idx : forall k i d, (2 <= i)%nat -> (i + k <= 2 * n)%nat ->
    peq (sq_levels k (Nat.even i) (sq_acts i) (skipn ((i - 1) / 2) rows) (skipn ((i + 1) / 2) xs) d)
        (lev_idx sq_inp k i d).
  Proof.
    induction k as [|k IH]; intros i d H2 Hk fresh s; cbn [sq_levels lev_idx]; [reflexivity|].
    rewrite sq_acts1_step by lia. rewrite heads1_sq_acts1 by lia. rewrite sq_acts_tl.
    assert (Esq : (if Nat.even i then firstn 1 (skipn ((i + 1) / 2) xs) else [])
                  = (if Nat.even i then [nth (i / 2) xs ""%string] else [])).
    { destruct (parity_cases i) as [(t & -> & Ev)|(t & -> & Ev)]; rewrite Ev; [|reflexivity].
      replace ((2 * t + 1) / 2)%nat with t by (div2; lia). replace (2 * t / 2)%nat with t by (div2; lia).
      rewrite (skipn_nth xs t ""%string) by lia. reflexivity. }
    assert (Epend : (if Nat.even i then skipn 1 (skipn ((i - 1) / 2) rows) else skipn ((i - 1) / 2) rows)
                    = skipn ((S i - 1) / 2) rows).
    { destruct (parity_cases i) as [(t & -> & Ev)|(t & -> & Ev)]; rewrite Ev.
      - rewrite skipn_1_skipn. f_equal. div2. lia.
      - f_equal. div2. lia. }
    assert (Ediag : (if Nat.even i then skipn 1 (skipn ((i + 1) / 2) xs) else skipn ((i + 1) / 2) xs)
                    = skipn ((S i + 1) / 2) xs).
    { destruct (parity_cases i) as [(t & -> & Ev)|(t & -> & Ev)]; rewrite Ev.
      - rewrite skipn_1_skipn. f_equal. div2. lia.
      - f_equal. div2. lia. }
    rewrite Esq, Epend, Ediag. fold (sq_inp i d). rs.
    destruct (run fresh (pow2_level (sq_inp i d)) s) as [[o s1]|e]; [|reflexivity].
    replace (negb (Nat.even i)) with (Nat.even (S i)) by (rewrite Nat.even_succ, <- Nat.negb_even; reflexivity).
    apply IH; lia.
  Qed.
End SqLevels.

(* ---- add_square_pow2_m1 ------------------------------------------------------------------------------------------ *)
Lemma Z_mod2_even i : (Z.of_nat i mod 2 =? 0) = Nat.even i.
Proof.
  destruct (parity_cases i) as [(t & -> & Ev)|(t & -> & Ev)]; rewrite Ev.
  - apply Z.eqb_eq. rewrite Nat2Z.inj_mul. change (Z.of_nat 2) with 2. rewrite Z.mul_comm. apply Z.mod_mul. lia.
  - apply Z.eqb_neq. rewrite Nat2Z.inj_add, Nat2Z.inj_mul. change (Z.of_nat 2) with 2. change (Z.of_nat 1) with 1.
    rewrite Z.add_comm, Z.mul_comm, Z.mod_add by lia. discriminate.
Qed.

Lemma Z_div2_nat i : Z.of_nat i / 2 = Z.of_nat (i / 2).
Proof. rewrite (Nat2Z.inj_div i 2). reflexivity. Qed.

Theorem gen_add_square_pow2_m1_eq x0 be : peq (gen_add_square_pow2_m1 x0 be) (add_square_pow2_m1 x0 be).
Proof.
  unfold gen_add_square_pow2_m1, add_square_pow2_m1. intros fresh s. cbv zeta.
  rewrite run_bind, run_if_rev1. cbv beta iota.
  set (xs := rev_if be x0). unfold py_len.
  replace (length x0) with (length xs) by apply rev_if_length. clearbody xs.
  set (n := length xs). assert (Hlen : length xs = n) by reflexivity.
  rewrite Z_of_nat_eqb_1.
  destruct (Nat.eqb_spec n 1) as [Hn1|Hn1].
  { rs. rewrite gen_reverse_if_big_endian_run. reflexivity. }
  rs.
  (* the products above the diagonal *)
  pose proof (placeholder_matrix PLACEHOLDER_STR n n) as Hc0.
  set (c0 := map (fun _ : Z => py_mul [PLACEHOLDER_STR] (Z.of_nat n)) (py_range 0 (Z.of_nat n))) in *. clearbody c0.
  rewrite (sq_nest_eq _ xs).
  2:{ exact Hc0. }
  2:{ intros i j c Hij Hj Hc fr st. cbv beta. rs.
      rewrite (py_nth_ok_label _ i) by lia; rs.
      rewrite (py_nth_ok_label _ j) by lia; rs.
      change (TT false false false true) with tt_and.
      match goal with |- context [run fr (gate_tt tt_and ?x ?y) st] =>
        destruct (run fr (gate_tt tt_and x y) st) as [[g s1]|?]; rs; [|reflexivity] end.
      rewrite (py_nth_ok c i []) by (destruct Hc; lia); rs.
      rewrite py_set_nat by (erewrite is_matrix_row by (try eassumption; lia); lia); rs.
      rewrite py_set_nat by (destruct Hc; lia); rs. reflexivity. }
  rs.
  destruct (run fresh (sq_rows xs) s) as [[rows s1]|e] eqn:E; rs; [|reflexivity].
  apply sq_rows_returns in E.
  (* the diagonal *)
  rewrite py_range_0_nat.
  rewrite (row_fold_gen _ (fun x => Ret x) sq_putd (is_matrix n n) xs n); [ | unfold n; lia | | | lia | ].
  2:{ intros c j g Hc Hj. unfold sq_putd. apply is_matrix_upd; [exact Hc|]. rewrite upd_length.
      apply (is_matrix_row n n); assumption. }
  2:{ intros c j Hj Hc fr st. cbv beta. rs.
      rewrite (py_nth_ok_label _ j) by (unfold n in *; lia); rs.
      rewrite (py_nth_ok c j []) by (destruct Hc; lia); rs.
      rewrite py_set_nat by (erewrite is_matrix_row by (try eassumption; lia); lia); rs.
      rewrite py_set_nat by (destruct Hc; lia); rs. reflexivity. }
  2:{ apply put_rows_sq_nth; [exact Hc0|destruct E as [-> _]; lia|].
      intros k Hk. destruct E as [L R]. rewrite R by lia. reflexivity. }
  cbn [skipn]. rewrite firstn_all2 by (unfold n; lia). rs. rewrite (mapP_ret (fun x : label => x)). rs. rewrite map_id.
  destruct (sq_matrix_facts xs c0 rows) as (M2 & F2 & F3); [exact Hc0|exact E|].
  fold n in M2, F2, F3.
  set (c2 := put_row sq_putd _ 0 xs) in *. clearbody c2.
  destruct E as [Lrows Rrows]. fold n in Lrows, Rrows.
  assert (Hrow2 : forall j, (j < n)%nat -> length (nth j c2 []) = n) by (intros j Hj; apply (is_matrix_row n n c2 j M2 Hj)).
  assert (Hc2 : length c2 = n) by apply M2.
  rewrite !py_nth_0.
  destruct xs as [|x xs'] eqn:Exs.
  { (* n = 0 *) destruct c2; [reflexivity|]. cbn in Hc2. unfold n in Hc2. cbn in Hc2. lia. }
  rewrite <- Exs in *. assert (Hn : (2 <= n)%nat) by (unfold n in *; rewrite Exs in *; cbn [length] in *; lia).
  assert (Hx : nth 0 xs ""%string = x) by (rewrite Exs; reflexivity).
  rewrite (nthP_ok c2 0 []) by lia. rs. rewrite py_nth_0.
  rewrite (nthP_ok (nth 0 c2 []) 0 ""%string) by (rewrite Hrow2; lia). rs.
  rewrite F3 by lia. rewrite Hx.
  rewrite (nthP_ok xs 0 ""%string) by (fold n; lia). rs. rewrite Hx.
  replace (2 * Z.of_nat n) with (Z.of_nat (2 * n)) by lia.
  rewrite map_const_range.
  replace (2 * n)%nat with (S (S (2 * n - 2))) at 1 by lia. cbn [repeat].
  rewrite py_set_0_ok by (cbn [length]; lia). rs. cbn [upd].
  change (TT false false false false) with tt_false.
  destruct (run fresh (gate_tt tt_false x x) s1) as [[zero s2]|e]; rs; [|reflexivity].
  rewrite (py_set_nat _ 1) by (cbn [length]; lia). rs. cbn [upd].
  (* the levels *)
  rewrite (py_range_nat 2).
  match goal with |- context [?h0 :: ?h1 :: repeat ?p (2 * n - 2)] =>
    change (h0 :: h1 :: repeat p (2 * n - 2)) with ([h0; h1] ++ repeat p (2 * n - 2)) end.
  rewrite (levels_fold_gen _ (sq_inp xs rows n) (2 * n));
    [ | | reflexivity | apply repeat_length | lia ].
  2:{ intros i mo ph pad Hmo Hpad fr st. cbv beta. rs.
      assert (Hi2 : (i / 2 < n)%nat) by (div2; lia).
      (* the products of level i *)
      rewrite Z_div2_nat, py_range_0_nat.
      rewrite (collect_fold_gen _ (fun j => if ((j <? n) && (i - j - 1 <? n))%nat
                                           then [nth (i - j - 1 - S j) (nth j rows []) ""%string] else []) (i / 2));
        [ | | lia ].
      2:{ intros inp j Hj fr' st'. cbv beta. rs.
          assert (H2j : (2 * j + 2 <= i)%nat) by (revert Hj; div2; lia).
          replace (Z.of_nat i - Z.of_nat j - 1) with (Z.of_nat (i - j - 1)) by lia. rewrite !Z_ltb_nat.
          destruct (Z.ltb_spec (-1) (Z.of_nat (i - j - 1))); [|lia].
          destruct (Nat.ltb_spec j n) as [Hjn|Hjn]; cbn [andb]; rs; [|rewrite app_nil_r; reflexivity].
          destruct (Nat.ltb_spec (i - j - 1) n) as [Hjn'|Hjn']; rs; [|rewrite app_nil_r; reflexivity].
          rewrite (py_nth_ok _ j []) by lia. rs.
          rewrite (py_nth_ok_label _ (i - j - 1)) by (rewrite Hrow2; lia). rs.
          rewrite F2 by lia. reflexivity. }
      rs. cbn [app]. fold (sq_diag rows n i).
      (* the square of bit i / 2 *)
      rewrite Z_mod2_even.
      assert (Esq : forall st0,
                run fr (if Nat.even i
                        then (bdo t1 <- py_nth c2 (Z.of_nat (i / 2)); bdo t2 <- py_nth t1 (Z.of_nat (i / 2));
                              Ret (sq_diag rows n i ++ [t2]))
                        else Ret (sq_diag rows n i)) st0
                = Ok (sq_diag rows n i ++ (if Nat.even i then [nth (i / 2) xs ""%string] else []), st0)).
      { intros st0. destruct (Nat.even i); rs; [|rewrite app_nil_r; reflexivity].
        rewrite (py_nth_ok _ (i / 2) []) by lia. rs.
        rewrite (py_nth_ok_label _ (i / 2)) by (rewrite Hrow2; lia). rs. rewrite F3 by lia. reflexivity. }
      rewrite Esq. rs.
      (* the pending columns of the earlier levels *)
      rewrite (gather_fold_eq _ mo (ph :: pad) i) by (try exact Hmo; intros inp j Hj fr' st'; cbv beta; unfold py_len; crunch).
      rs.
      rewrite (level_store_eq fr _ (fun out => Ret out) (mo ++ ph :: pad) i)
        by (rewrite app_length; cbn [length]; lia).
      rs. unfold sq_inp. rewrite Hmo, <- app_assoc.
      match goal with |- context [run fr (pow2_level ?x) st] =>
        destruct (run fr (pow2_level x) st) as [[o s3]|e]; rs; [|reflexivity] end.
      rewrite <- Hmo. rewrite upd_app_mid. reflexivity. }
  rs.
  (* the hand model's levels *)
  assert (EL : sq_levels (2 * n - 2) true [] rows xs' [[[x]]; [[zero]]]
               = sq_levels (2 * n - 2) (Nat.even 2) (sq_acts rows 2) (skipn ((2 - 1) / 2) rows)
                   (skipn ((2 + 1) / 2) xs) [[[x]]; [[zero]]]) by (rewrite Exs; reflexivity).
  rewrite EL.
  rewrite (sq_levels_idx xs rows n Hlen (conj Lrows Rrows)) by lia.
  match goal with |- context [run fresh (lev_idx ?f ?k 2 ?d) s2] =>
    destruct (run fresh (lev_idx f k 2 d) s2) as [[mo s3]|e] eqn:E2 end; rs; [|reflexivity].
  apply lev_idx_length in E2. cbn [length] in E2.
  replace (Z.of_nat (2 * n)) with (Z.of_nat (length mo)) by lia.
  rewrite first_first_index.
  destruct (run fresh (mapP first_first mo) s3) as [[r s4]|e]; rs; [|reflexivity].
  rewrite gen_reverse_if_big_endian_run. reflexivity.
Qed.

(* ---- add_square -------------------------------------------------------------------------------------------------- *)
Lemma square_small_Z n :
  ((Z.of_nat n <? 48) || ((Z.of_nat n =? 49) || (Z.of_nat n =? 53))) = square_small n.
Proof.
  unfold square_small. change 48 with (Z.of_nat 48). rewrite Z_ltb_nat. rewrite Bool.orb_assoc.
  f_equal; [f_equal|].
  - destruct (Nat.eqb_spec n 49) as [->|H]; [reflexivity|]. apply Z.eqb_neq. lia.
  - destruct (Nat.eqb_spec n 53) as [->|H]; [reflexivity|]. apply Z.eqb_neq. lia.
Qed.

Ltac sqstep IH :=
  rs; rewrite ?py_slice_to, ?py_slice_from;
  match goal with
  | |- context [run ?f (gen_reverse_if_big_endian ?l ?be) ?s] => rewrite (gen_reverse_if_big_endian_run f l be s)
  | |- context [run ?f (py_add_sum_two_numbers_with_shift (Z.of_nat ?k) ?x ?y ?be) ?s] =>
      rewrite (py_shift_nat f k x y be s)
  | |- context [match run ?f ?p ?s with _ => _ end] =>
      lazymatch p with
      | Bind _ _ => fail
      | Ret _ => fail
      | Fail _ => fail
      | (if _ then _ else _) => fail
      | _ => first [ rewrite gen_add_square_pow2_m1_eq | rewrite gen_add_mul_karatsuba_eq | rewrite IH
                   | destruct (run f p s) as [[? ?]|?] ]
      end
  | |- context [if ?c then _ else _] => destruct c
  end.

Theorem gen_add_square_rec_eq : forall fuel x0 be,
  peq (gen_add_square_rec fuel x0 be) (square_rec fuel x0 be).
Proof.
  induction fuel as [|f IH]; intros x0 be fresh s; [reflexivity|].
  cbn [gen_add_square_rec square_rec]. cbv zeta.
  rewrite run_bind, run_if_rev1. cbv beta iota.
  set (xs := rev_if be x0). unfold py_len.
  replace (length x0) with (length xs) by apply rev_if_length. clearbody xs.
  rewrite square_small_Z, Z_div2_nat.
  replace (Z.of_nat (length xs / 2) + 1) with (Z.of_nat (length xs / 2 + 1)) by lia.
  replace (2 * Z.of_nat (length xs / 2)) with (Z.of_nat (2 * (length xs / 2))) by lia.
  replace (2 * Z.of_nat (length xs)) with (Z.of_nat (2 * length xs)) by lia.
  rewrite ?py_slice_to, ?py_slice_from.
  repeat sqstep IH; rs; try reflexivity.
Qed.

Theorem gen_add_square_eq x0 be : peq (gen_add_square x0 be) (add_square x0 be).
Proof.
  unfold gen_add_square, add_square, py_len.
  replace (Z.to_nat (Z.of_nat (length x0) + 1)) with (S (length x0)) by lia.
  apply gen_add_square_rec_eq.
Qed.
