(* C02: into_bench (converters.py) preserves WF /\ inputs_nullary.

   Hypotheses that are really needed (see the remarks at the end of the file):
   - inputs_nullary: convert_const wires the first INPUT gate `first` below the constant
     gate l; an INPUT gate with operand l would close a cycle l -> first -> l.
   - binary_ok' (only `length (gops g) <= 2` is used, see into_bench_inv_le): the
     comparison / projection converters read operands 0 and 1 and ignore the rest, so a
     third operand keeps a stale entry in the users index. *)
Require Import Cirbo.Model.Base Cirbo.Model.Gate Cirbo.Model.Circuit Cirbo.Model.Traverse
        Cirbo.Model.Connect Cirbo.Model.WF.
Require Import Cirbo.Proofs.DictFacts Cirbo.Proofs.WFBase Cirbo.Proofs.WFSimple Cirbo.Proofs.WFEmplace.

Definition binary_type' (t : gtype) : bool :=
  match t with LT | LEQ | GT | GEQ | LIFF | RIFF | LNOT | RNOT => true | _ => false end.
Definition binary_ok' (c : circuit) : Prop :=
  forall l g, dget (gates c) l = Some g -> binary_type' (gtyp g) = true -> length (gops g) = 2.
(* what the proof really uses (fewer than 2 operands make the converter fail) *)
Definition binary_le' (c : circuit) : Prop :=
  forall l g, dget (gates c) l = Some g -> binary_type' (gtyp g) = true -> length (gops g) <= 2.

(* ------------------------------------------------------------------ *)
(* generic: overwrite the existing non-INPUT gate l by (t, ops'), with a users index
   adjusted accordingly and blocks whose members still exist *)
Lemma users_of_eq c c' x : users c' = users c -> users_of c' x = users_of c x.
Proof. unfold users_of; intros ->; reflexivity. Qed.

Lemma rewire_wf c c' l g t ops' :
  WF c -> dget (gates c) l = Some g -> gtyp g <> INPUT -> t <> INPUT ->
  gates c' = dset (gates c) l (mkGate t ops') ->
  inputs c' = inputs c -> outputs c' = outputs c ->
  NoDup (dkeys (users c')) ->
  (forall x u, u <> l -> count u (users_of c' x) = count u (users_of c x)) ->
  (forall x, count l (users_of c' x) = count x ops') ->
  (forall o, In o ops' -> has_gate c o = true) ->
  NoDup (dkeys (blocks c')) ->
  (forall b blk x, dget (blocks c') b = Some blk ->
                   In x (bgates blk ++ binputs blk ++ boutputs blk) -> has_gate c x = true) ->
  (exists rank : label -> nat,
      (forall x gx o, dget (gates c) x = Some gx -> In o (gops gx) -> rank o < rank x) /\
      (forall o, In o ops' -> rank o < rank l)) ->
  WF c'.
Proof.
  intros W Hg Hgt Ht Hgates Hin Hout Huk Hu1 Hu2 Hops Hbk Hbl [rank [Hr1 Hr2]].
  assert (Hhas : forall x, has_gate c' x = has_gate c x).
  { intros x; unfold has_gate; rewrite Hgates, dmem_dset.
    destruct (leqb_spec x l) as [->|]; [|reflexivity]. symmetry; eapply dget_dmem; eassumption. }
  assert (Hget : forall x, dget (gates c') x =
                           if leqb x l then Some (mkGate t ops') else dget (gates c) x).
  { intros x; rewrite Hgates; apply dget_dset. }
  constructor.
  - rewrite Hgates; apply NoDup_dkeys_dset, (wf_gkeys c W).
  - assumption.
  - assumption.
  - intros x gx o Hx Ho. rewrite Hhas. rewrite Hget in Hx. destruct (leqb x l).
    + injection Hx as <-; simpl in Ho; auto.
    + eapply (wf_ops c W); eassumption.
  - intros o Ho; rewrite Hhas; rewrite Hout in Ho; apply (wf_outs c W), Ho.
  - intros x u. unfold ops_of at 1. rewrite Hget. destruct (leqb_spec u l) as [->|Hne].
    + simpl. apply Hu2.
    + rewrite Hu1 by assumption. apply (wf_users c W).
  - rewrite Hin; apply (wf_inputs_nodup c W).
  - intros x; rewrite Hin, Hget, (wf_inputs c W). destruct (leqb_spec x l) as [->|]; [|tauto].
    split; intros [g0 [E E2]].
    + rewrite Hg in E; injection E as <-; contradiction.
    + injection E as <-; simpl in E2; contradiction.
  - exists rank. intros x gx o Hx Ho; rewrite Hget in Hx. destruct (leqb_spec x l) as [->|].
    + injection Hx as <-; simpl in Ho; auto.
    + eapply Hr1; eassumption.
  - intros b blk x Hb Hx; rewrite Hhas; eapply Hbl; eassumption.
Qed.

Lemma rewire_nullary c c' l t ops' :
  inputs_nullary c -> t <> INPUT -> gates c' = dset (gates c) l (mkGate t ops') -> inputs_nullary c'.
Proof.
  intros N Ht Hgates x g Hg Hi. rewrite Hgates, dget_dset in Hg. destruct (leqb x l).
  - injection Hg as <-; simpl in Hi; contradiction.
  - eapply N; eassumption.
Qed.

(* ------------------------------------------------------------------ *)
(* add_new_gate_to_blocks *)
Lemma anb_blocks_keys c old new :
  dkeys (blocks (add_new_gate_to_blocks c old new)) = dkeys (blocks c).
Proof.
  unfold add_new_gate_to_blocks; simpl. induction (blocks c) as [|[k b] bs IH]; simpl; [reflexivity|].
  destruct (memb old (bgates b)); simpl; f_equal; exact IH.
Qed.

Lemma anb_blocks_get c old new b blk x :
  dget (blocks (add_new_gate_to_blocks c old new)) b = Some blk ->
  In x (bgates blk ++ binputs blk ++ boutputs blk) ->
  x = new \/ exists blk0, dget (blocks c) b = Some blk0 /\
                          In x (bgates blk0 ++ binputs blk0 ++ boutputs blk0).
Proof.
  unfold add_new_gate_to_blocks; simpl. induction (blocks c) as [|[k b0] bs IH]; simpl; [discriminate|].
  destruct (memb old (bgates b0)); simpl; destruct (leqb b k); auto.
  - intros [= <-]; simpl. rewrite <- app_assoc, in_app_iff; simpl.
    intros [H|[H|H]]; [|left; auto|]; right; eexists; split; try reflexivity;
      rewrite in_app_iff; auto.
  - intros E H; right; eauto.
Qed.

Lemma anb_blocks_wf c c0 old new :
  NoDup (dkeys (blocks c)) ->
  (forall b blk x, dget (blocks c) b = Some blk ->
                   In x (bgates blk ++ binputs blk ++ boutputs blk) -> has_gate c0 x = true) ->
  has_gate c0 new = true ->
  NoDup (dkeys (blocks (add_new_gate_to_blocks c old new))) /\
  (forall b blk x, dget (blocks (add_new_gate_to_blocks c old new)) b = Some blk ->
                   In x (bgates blk ++ binputs blk ++ boutputs blk) -> has_gate c0 x = true).
Proof.
  intros Hnd Hb Hnew; split; [rewrite anb_blocks_keys; assumption|].
  intros b blk x Hg Hx. destruct (anb_blocks_get _ _ _ _ _ _ Hg Hx) as [->|[blk0 [H1 H2]]]; eauto.
Qed.

(* ------------------------------------------------------------------ *)
(* the helper gate  nl := NOT [on]  created by convert_cmp / convert_const *)
Lemma emplace_not_facts c nl on l g :
  WF c -> dget (gates c) l = Some g -> has_gate c nl = false -> has_gate c on = true ->
  let c1 := emplace_gate_raw c nl NOT [on] in
  WF c1 /\ nl <> l /\ on <> nl /\ dget (gates c1) l = Some g /\
  (forall x, has_gate c1 x = leqb x nl || has_gate c x) /\
  inputs c1 = inputs c /\
  (forall x gx o, dget (gates c1) x = Some gx -> In o (gops gx) ->
                  (x = nl /\ o = on) \/ (x <> nl /\ o <> nl /\ dget (gates c) x = Some gx)).
Proof.
  intros W Hg Hnl Hon c1.
  assert (Hne : nl <> l).
  { intros ->. apply get_has_gate in Hg; congruence. }
  assert (Hon' : on <> nl) by (intros ->; congruence).
  split; [apply emplace_gate_raw_wf; [assumption|assumption|]|].
  { intros o [<-|[]]; assumption. }
  split; [assumption|]. split; [assumption|].
  split; [unfold c1; rewrite emplace_raw_gates, dget_dset_other; [assumption|congruence]|].
  split; [intros x; apply emplace_raw_has_gate|].
  split; [unfold c1; rewrite emplace_raw_inputs; reflexivity|].
  intros x gx o Hx Ho. unfold c1 in Hx; rewrite emplace_raw_gates, dget_dset in Hx.
  destruct (leqb_spec x nl) as [->|Hxn].
  - injection Hx as <-; simpl in Ho. destruct Ho as [<-|[]]; left; auto.
  - right; split; [assumption|]. split; [|assumption].
    intros ->. rewrite (wf_ops c W x gx nl Hx Ho) in Hnl; discriminate.
Qed.

Lemma other_gates_kept c nl tn opsn c' l gl l' g' :
  has_gate c nl = false ->
  gates c' = dset (gates (emplace_gate_raw c nl tn opsn)) l gl ->
  l' <> l -> dget (gates c) l' = Some g' -> dget (gates c') l' = Some g'.
Proof.
  intros Hnl Hgates Hl' Hg'. rewrite Hgates, dget_dset_other by assumption.
  rewrite emplace_raw_gates, dget_dset_other; [assumption|].
  intros ->. apply get_has_gate in Hg'; congruence.
Qed.

Lemma op_at_two g o0 o1 :
  length (gops g) <= 2 -> op_at g 0 = Ok o0 -> op_at g 1 = Ok o1 -> gops g = [o0; o1].
Proof.
  unfold op_at. destruct (gops g) as [|a [|b [|d r]]]; simpl; try discriminate.
  - intros _ [= <-] [= <-]; reflexivity.
  - intros H; lia.
Qed.

(* ------------------------------------------------------------------ *)
(* convert_cmp : LT / LEQ / GT / GEQ *)
Lemma convert_cmp_wf c l g pfx f neg t c' :
  WF c -> inputs_nullary c -> dget (gates c) l = Some g -> gtyp g <> INPUT -> t <> INPUT ->
  length (gops g) <= 2 ->
  convert_cmp c l g pfx f neg t = Ok c' ->
  WF c' /\ inputs_nullary c' /\
  (forall l' g', l' <> l -> dget (gates c) l' = Some g' -> dget (gates c') l' = Some g').
Proof.
  intros W N Hg Hgt Ht Hlen H. unfold convert_cmp in H.
  set (nl := (pfx ++ l ++ f)%string) in *.
  binv H o0 H0. binv H o1 H1. pose proof (op_at_two g o0 o1 Hlen H0 H1) as Eops.
  set (on := if Nat.eqb neg 0 then o0 else o1) in *.
  set (ops' := if Nat.eqb neg 0 then [nl; o1] else [o0; nl]) in *.
  binv H c1 Hc1. injection H as <-.
  apply emplace_gate_inv in Hc1; destruct Hc1 as (Hnl & Hon & ->).
  specialize (Hon on (or_introl eq_refl)).
  destruct (emplace_not_facts c nl on l g W Hg Hnl Hon) as (W1 & Hne & Hone & Hg1 & Hhas1 & Hin1 & Hedge).
  set (c1 := emplace_gate_raw c nl NOT [on]) in *.
  assert (Ho0 : has_gate c o0 = true).
  { apply (wf_ops c W l g o0 Hg); rewrite Eops; left; reflexivity. }
  assert (Ho1 : has_gate c o1 = true).
  { apply (wf_ops c W l g o1 Hg); rewrite Eops; right; left; reflexivity. }
  assert (Hon_in : In on (gops g)).
  { rewrite Eops; unfold on; destruct (Nat.eqb neg 0); simpl; auto. }
  set (c3 := add_user (remove_user c1 on l) nl l) in *.
  assert (Hg3 : gates c3 = gates c1).
  { unfold c3. destruct (add_user_frame (remove_user c1 on l) nl l) as (-> & _).
    destruct (remove_user_frame c1 on l) as (-> & _); reflexivity. }
  assert (Hb3 : blocks c3 = blocks c1).
  { unfold c3. destruct (add_user_frame (remove_user c1 on l) nl l) as (_ & _ & _ & ->).
    destruct (remove_user_frame c1 on l) as (_ & _ & _ & ->); reflexivity. }
  assert (Hgates : gates (add_new_gate_to_blocks
                            (set_gates c3 (dset (gates c3) l (mkGate t ops'))) l nl)
                   = dset (gates c1) l (mkGate t ops')).
  { simpl; rewrite Hg3; reflexivity. }
  split; [|split].
  - eapply (rewire_wf c1 _ l g t ops'); try eassumption.
    + simpl. unfold c3. destruct (add_user_frame (remove_user c1 on l) nl l) as (_ & -> & _).
      destruct (remove_user_frame c1 on l) as (_ & -> & _); reflexivity.
    + simpl. unfold c3. destruct (add_user_frame (remove_user c1 on l) nl l) as (_ & _ & -> & _).
      destruct (remove_user_frame c1 on l) as (_ & _ & -> & _); reflexivity.
    + simpl. apply add_user_ukeys, remove_user_ukeys, (wf_ukeys c1 W1).
    + intros x u Hu. rewrite (users_of_eq c3) by reflexivity. unfold c3.
      rewrite count_users_add_user, count_users_remove_user.
      apply leqb_neq in Hu; rewrite Hu, !andb_false_r; lia.
    + intros x. rewrite (users_of_eq c3) by reflexivity. unfold c3.
      rewrite count_users_add_user, count_users_remove_user, leqb_refl, !andb_true_r.
      rewrite (wf_users c1 W1), (ops_of_get c1 l g Hg1), Eops.
      unfold ops', on. destruct (Nat.eqb neg 0); simpl;
        destruct (leqb x o0), (leqb x o1), (leqb x nl); lia.
    + intros o Ho. rewrite Hhas1. unfold ops' in Ho.
      destruct (Nat.eqb neg 0); simpl in Ho; destruct Ho as [<-|[<-|[]]];
        rewrite ?leqb_refl, ?Ho0, ?Ho1; auto using orb_true_r.
    + apply (anb_blocks_wf _ c1); cbn [blocks set_gates]; rewrite ?Hb3;
        [apply (wf_bkeys c1 W1)|apply (wf_blocks c1 W1)|].
      rewrite Hhas1, leqb_refl; reflexivity.
    + apply (anb_blocks_wf _ c1); cbn [blocks set_gates]; rewrite ?Hb3;
        [apply (wf_bkeys c1 W1)|apply (wf_blocks c1 W1)|].
      rewrite Hhas1, leqb_refl; reflexivity.
    + destruct (wf_acyclic c1 W1) as [rank Hr].
      exists (fun x => if leqb x nl then 2 * rank on + 1 else 2 * rank x). split.
      * intros x gx o Hx Ho. destruct (Hedge x gx o Hx Ho) as [[-> ->]|(Hxn & Hon' & _)].
        -- rewrite leqb_refl. apply leqb_neq in Hone; rewrite Hone; lia.
        -- apply leqb_neq in Hxn, Hon'; rewrite Hxn, Hon'. specialize (Hr x gx o Hx Ho); lia.
      * assert (Hrl : rank on < rank l) by (eapply Hr; eassumption).
        assert (Hr0 : rank o0 < rank l) by (eapply Hr; [eassumption|rewrite Eops; simpl; auto]).
        assert (Hr1 : rank o1 < rank l) by (eapply Hr; [eassumption|rewrite Eops; simpl; auto]).
        assert (E0 : leqb o0 nl = false) by (apply leqb_neq; intros ->; congruence).
        assert (E1 : leqb o1 nl = false) by (apply leqb_neq; intros ->; congruence).
        assert (El : leqb l nl = false) by (apply leqb_neq; congruence).
        intros o Ho. rewrite El. unfold ops' in Ho.
        destruct (Nat.eqb neg 0); simpl in Ho; destruct Ho as [<-|[<-|[]]];
          rewrite ?leqb_refl, ?E0, ?E1; lia.
  - eapply (rewire_nullary c1); [|exact Ht|exact Hgates].
    apply emplace_gate_raw_nullary; [assumption|discriminate].
  - intros l' g' Hl' Hg'. eapply (other_gates_kept c nl NOT [on]); eassumption.
Qed.

(* ------------------------------------------------------------------ *)
(* convert_proj : LIFF / RIFF / LNOT / RNOT *)
Lemma convert_proj_wf c l g keep t c' :
  WF c -> inputs_nullary c -> dget (gates c) l = Some g -> gtyp g <> INPUT -> t <> INPUT ->
  length (gops g) <= 2 ->
  convert_proj c l g keep t = Ok c' ->
  WF c' /\ inputs_nullary c' /\
  (forall l' g', l' <> l -> dget (gates c) l' = Some g' -> dget (gates c') l' = Some g').
Proof.
  intros W N Hg Hgt Ht Hlen H. unfold convert_proj in H.
  binv H o0 H0. binv H o1 H1. pose proof (op_at_two g o0 o1 Hlen H0 H1) as Eops.
  set (drop := if Nat.eqb keep 0 then o1 else o0) in *.
  set (kept := if Nat.eqb keep 0 then o0 else o1) in *.
  injection H as <-.
  set (c1 := remove_user c drop l) in *.
  destruct (remove_user_frame c drop l) as (Fg & Fi & Fo & Fb). fold c1 in Fg, Fi, Fo, Fb.
  assert (Hkept : In kept (gops g)).
  { rewrite Eops; unfold kept; destruct (Nat.eqb keep 0); simpl; auto. }
  assert (Hgates : gates (set_gates c1 (dset (gates c1) l (mkGate t [kept])))
                   = dset (gates c) l (mkGate t [kept])).
  { simpl; rewrite Fg; reflexivity. }
  split; [|split].
  - eapply (rewire_wf c _ l g t [kept]); try eassumption.
    + simpl. apply remove_user_ukeys, (wf_ukeys c W).
    + intros x u Hu. rewrite (users_of_eq c1) by reflexivity. unfold c1.
      rewrite count_users_remove_user. apply leqb_neq in Hu; rewrite Hu, !andb_false_r; lia.
    + intros x. rewrite (users_of_eq c1) by reflexivity. unfold c1.
      rewrite count_users_remove_user, leqb_refl, !andb_true_r.
      rewrite (wf_users c W), (ops_of_get c l g Hg), Eops.
      unfold drop, kept. destruct (Nat.eqb keep 0); simpl;
        destruct (leqb x o0), (leqb x o1); lia.
    + intros o [<-|[]]. eapply (wf_ops c W); eassumption.
    + simpl; rewrite Fb; apply (wf_bkeys c W).
    + simpl; rewrite Fb; apply (wf_blocks c W).
    + destruct (wf_acyclic c W) as [rank Hr]. exists rank; split; [exact Hr|].
      intros o [<-|[]]. eapply Hr; eassumption.
  - eapply (rewire_nullary c); [exact N|exact Ht|exact Hgates].
  - intros l' g' Hl' Hg'. rewrite Hgates, dget_dset_other by assumption. assumption.
Qed.

(* ------------------------------------------------------------------ *)
(* convert_const : ALWAYS_TRUE / ALWAYS_FALSE.  inputs_nullary is essential here. *)
Lemma convert_const_wf c l g pfx f t c' :
  WF c -> inputs_nullary c -> dget (gates c) l = Some g -> gtyp g <> INPUT -> t <> INPUT ->
  convert_const c l g pfx f t = Ok c' ->
  WF c' /\ inputs_nullary c' /\
  (forall l' g', l' <> l -> dget (gates c) l' = Some g' -> dget (gates c') l' = Some g').
Proof.
  intros W N Hg Hgt Ht H. unfold convert_const in H.
  set (nl := (pfx ++ l ++ f)%string) in *.
  binv H fi0 Hfirst. binv H c1 Hc1. injection H as <-.
  assert (Hfi : exists gi, dget (gates c) fi0 = Some gi /\ gtyp gi = INPUT).
  { apply (wf_inputs c W). destruct (inputs c) as [|i r]; [discriminate|].
    injection Hfirst as <-; left; reflexivity. }
  destruct Hfi as (gi & Hgi & Hti).
  apply emplace_gate_inv in Hc1; destruct Hc1 as (Hnl & Hon & ->).
  specialize (Hon fi0 (or_introl eq_refl)).
  destruct (emplace_not_facts c nl fi0 l g W Hg Hnl Hon)
    as (W1 & Hne & Hone & Hg1 & Hhas1 & Hin1 & Hedge).
  set (c1 := emplace_gate_raw c nl NOT [fi0]) in *.
  set (c4 := add_user (add_user (remove_users c1 (gops g) l) fi0 l) nl l) in *.
  destruct (remove_users_frame c1 (gops g) l) as (Rg & Ri & Ro & Rb).
  destruct (add_user_frame (remove_users c1 (gops g) l) fi0 l) as (Ag & Ai & Ao & Ab).
  destruct (add_user_frame (add_user (remove_users c1 (gops g) l) fi0 l) nl l) as (Bg & Bi & Bo & Bb).
  fold c4 in Bg, Bi, Bo, Bb.
  assert (Hg4 : gates c4 = gates c1) by congruence.
  assert (Hi4 : inputs c4 = inputs c1) by congruence.
  assert (Ho4 : outputs c4 = outputs c1) by congruence.
  assert (Hb4 : blocks c4 = blocks c1) by congruence.
  assert (Hgates : gates (add_new_gate_to_blocks
                            (set_gates c4 (dset (gates c4) l (mkGate t [fi0; nl]))) l nl)
                   = dset (gates c1) l (mkGate t [fi0; nl])).
  { simpl; rewrite Hg4; reflexivity. }
  split; [|split].
  - eapply (rewire_wf c1 _ l g t [fi0; nl]); try eassumption.
    + simpl. unfold c4. apply add_user_ukeys, add_user_ukeys, remove_users_ukeys, (wf_ukeys c1 W1).
    + intros x u Hu. rewrite (users_of_eq c4) by reflexivity. unfold c4.
      rewrite !count_users_add_user, count_users_remove_users.
      apply leqb_neq in Hu; rewrite Hu, !andb_false_r; lia.
    + intros x. rewrite (users_of_eq c4) by reflexivity. unfold c4.
      rewrite !count_users_add_user, count_users_remove_users, leqb_refl, !andb_true_r.
      rewrite (wf_users c1 W1), (ops_of_get c1 l g Hg1). simpl.
      destruct (leqb x fi0), (leqb x nl); lia.
    + intros o [<-|[<-|[]]]; rewrite Hhas1; [rewrite Hon; apply orb_true_r|rewrite leqb_refl; reflexivity].
    + apply (anb_blocks_wf _ c1); cbn [blocks set_gates]; rewrite ?Hb4;
        [apply (wf_bkeys c1 W1)|apply (wf_blocks c1 W1)|].
      rewrite Hhas1, leqb_refl; reflexivity.
    + apply (anb_blocks_wf _ c1); cbn [blocks set_gates]; rewrite ?Hb4;
        [apply (wf_bkeys c1 W1)|apply (wf_blocks c1 W1)|].
      rewrite Hhas1, leqb_refl; reflexivity.
    + destruct (wf_acyclic c W) as [rank Hr].
      exists (fun x => if is_input_gate c x then 0 else if leqb x nl then 1 else 2 + rank x).
      assert (Ifirst : is_input_gate c fi0 = true).
      { unfold is_input_gate; rewrite Hgi, Hti; reflexivity. }
      assert (Inl : is_input_gate c nl = false).
      { unfold is_input_gate; rewrite (has_gate_false_get c nl Hnl); reflexivity. }
      assert (Inon : forall x gx o, dget (gates c) x = Some gx -> In o (gops gx) ->
                                    is_input_gate c x = false).
      { intros x gx o Hx Ho. unfold is_input_gate; rewrite Hx.
        destruct (gtype_beq (gtyp gx) INPUT) eqn:Et; [|reflexivity].
        apply gtype_beq_eq in Et. rewrite (N x gx Hx Et) in Ho; destruct Ho. }
      split.
      * intros x gx o Hx Ho. destruct (Hedge x gx o Hx Ho) as [[-> ->]|(Hxn & Hon' & Hx')].
        -- rewrite Ifirst, Inl, leqb_refl; lia.
        -- rewrite (Inon x gx o Hx' Ho). apply leqb_neq in Hxn, Hon'; rewrite Hxn, Hon'.
           specialize (Hr x gx o Hx' Ho). destruct (is_input_gate c o); lia.
      * assert (Il : is_input_gate c l = false).
        { unfold is_input_gate; rewrite Hg. destruct (gtype_beq (gtyp g) INPUT) eqn:Et; [|reflexivity].
          apply gtype_beq_eq in Et; contradiction. }
        assert (El : leqb l nl = false) by (apply leqb_neq; congruence).
        intros o [<-|[<-|[]]]; rewrite Il, El, ?Ifirst, ?Inl, ?leqb_refl; lia.
  - eapply (rewire_nullary c1); [|exact Ht|exact Hgates].
    apply emplace_gate_raw_nullary; [assumption|discriminate].
  - intros l' g' Hl' Hg'. eapply (other_gates_kept c nl NOT [fi0]); eassumption.
Qed.

(* ------------------------------------------------------------------ *)
(* one conversion step *)
Lemma convert_gate_step c l g f c' :
  WF c -> inputs_nullary c -> dget (gates c) l = Some g ->
  (binary_type' (gtyp g) = true -> length (gops g) <= 2) ->
  convert_gate c l g f = Ok c' ->
  WF c' /\ inputs_nullary c' /\
  (forall l' g', l' <> l -> dget (gates c) l' = Some g' -> dget (gates c') l' = Some g').
Proof.
  intros W N Hg Hbin H. unfold convert_gate in H.
  destruct (gtyp g) eqn:Et;
    try (injection H as <-; split; [assumption|split; [assumption|auto]]);
    try (eapply convert_cmp_wf; try eassumption;
         [rewrite Et; discriminate|discriminate|apply Hbin; reflexivity]);
    try (eapply convert_proj_wf; try eassumption;
         [rewrite Et; discriminate|discriminate|apply Hbin; reflexivity]);
    try (eapply convert_const_wf; try eassumption; [rewrite Et; discriminate|discriminate]).
Qed.

(* the loop body of into_bench *)
Definition bench_step (st : circuit * list string) (kg : label * gate) : res (circuit * list string) :=
  let '(c, fr) := st in
  if needs_fresh (gtyp (snd kg)) then
    match fr with
    | f :: fr' => do c' <- convert_gate c (fst kg) (snd kg) f; Ok (c', fr')
    | [] => Err OutOfFuel
    end
  else do c' <- convert_gate c (fst kg) (snd kg) ""; Ok (c', fr).

Lemma into_bench_unfold c fresh :
  into_bench c fresh = do r <- foldM bench_step (gates c) (c, fresh); Ok (fst r).
Proof. reflexivity. Qed.

Lemma bench_step_inv cur fr l g st' :
  bench_step (cur, fr) (l, g) = Ok st' -> exists f, convert_gate cur l g f = Ok (fst st').
Proof.
  unfold bench_step; cbn [fst snd]. destruct (needs_fresh (gtyp g)).
  - destruct fr as [|f fr']; [discriminate|]. intros H; binv H c' Hc'. injection H as <-.
    exists f; exact Hc'.
  - intros H; binv H c' Hc'. injection H as <-. eexists; exact Hc'.
Qed.

(* loop invariant: the not yet visited snapshot entries are still stored unchanged *)
Lemma bench_loop_inv rest : forall cur fr r,
  WF cur -> inputs_nullary cur ->
  (forall l g, In (l, g) rest -> dget (gates cur) l = Some g) ->
  NoDup (map fst rest) ->
  (forall l g, In (l, g) rest -> binary_type' (gtyp g) = true -> length (gops g) <= 2) ->
  foldM bench_step rest (cur, fr) = Ok r ->
  WF (fst r) /\ inputs_nullary (fst r).
Proof.
  induction rest as [|[l g] rest IH]; intros cur fr r W N Hsnap Hnd Hbin H.
  - simpl in H; injection H as <-; auto.
  - change (foldM bench_step ((l, g) :: rest) (cur, fr))
      with (do s' <- bench_step (cur, fr) (l, g); foldM bench_step rest s') in H.
    binv H st' Hst. apply bench_step_inv in Hst; destruct Hst as [f Hcv].
    destruct st' as [c2 fr2]; cbn [fst] in Hcv.
    simpl in Hnd; inversion Hnd as [|? ? Hnotin Hnd']; subst.
    destruct (convert_gate_step cur l g f c2 W N) as (W2 & N2 & Hkeep); try assumption.
    + apply Hsnap; left; reflexivity.
    + apply (Hbin l g); left; reflexivity.
    + eapply IH; try eassumption.
      * intros l' g' Hin. apply Hkeep; [|apply Hsnap; right; assumption].
        intros ->. apply Hnotin. apply (in_map fst) in Hin; exact Hin.
      * intros l' g' Hin; apply (Hbin l' g'); right; assumption.
Qed.

Theorem into_bench_inv_le : forall c fresh c',
  WF c -> inputs_nullary c -> binary_le' c -> into_bench c fresh = Ok c' ->
  WF c' /\ inputs_nullary c'.
Proof.
  intros c fresh c' W N B H. rewrite into_bench_unfold in H. binv H r Hr. injection H as <-.
  eapply bench_loop_inv; try eassumption.
  - intros l g Hin. apply In_dget; [apply (wf_gkeys c W)|assumption].
  - apply (wf_gkeys c W).
  - intros l g Hin. apply (B l g). apply In_dget; [apply (wf_gkeys c W)|assumption].
Qed.

Theorem into_bench_inv : forall c fresh c',
  WF c -> inputs_nullary c -> binary_ok' c -> into_bench c fresh = Ok c' ->
  WF c' /\ inputs_nullary c'.
Proof.
  intros c fresh c' W N B. apply into_bench_inv_le; try assumption.
  intros l g Hg Hb. rewrite (B l g Hg Hb). lia.
Qed.

(* ------------------------------------------------------------------ *)
(* Both side conditions are necessary: concrete states accepted by the executable check
   wfb (hence WF, by Proofs/WFSound.wfb_sound) on which into_bench succeeds and breaks WF. *)
Ltac conc H :=
  simpl in H;
  repeat match type of H with
         | (if ?b then _ else _) = _ => destruct b; [injection H as <-|]
         end; try discriminate.

(* (1) without inputs_nullary: the INPUT gate i has the constant gate t as operand;
   convert_const rewrites t := OR [i; new], closing the cycle t -> i -> t. *)
Definition cex_nullary : circuit :=
  mkCircuit ["i"] [] [("t", mkGate ALWAYS_TRUE []); ("i", mkGate INPUT ["t"])] [("t", ["i"])] [].

Example cex_nullary_breaks :
  wfb cex_nullary = true /\ binary_ok' cex_nullary /\
  exists c', into_bench cex_nullary ["X"] = Ok c' /\ ~ WF c'.
Proof.
  split; [vm_compute; reflexivity|]. split.
  { intros l g H Hb. conc H; discriminate Hb. }
  eexists; split; [vm_compute; reflexivity|]. intros W.
  destruct (wf_acyclic _ W) as [rank Hr].
  assert (H1 : rank "i" < rank "t") by (eapply Hr; [vm_compute; reflexivity|simpl; auto]).
  assert (H2 : rank "t" < rank "i") by (eapply Hr; [vm_compute; reflexivity|simpl; auto]).
  lia.
Qed.

(* (2) a comparison gate with a third operand (so `2 <= length` is not enough): the
   converter rewrites l := AND [new; b] but d keeps l in its users list. *)
Definition cex_ternary : circuit :=
  mkCircuit ["a"; "b"; "d"] []
    [("a", mkGate INPUT []); ("b", mkGate INPUT []); ("d", mkGate INPUT []);
     ("l", mkGate LT ["a"; "b"; "d"])]
    [("a", ["l"]); ("b", ["l"]); ("d", ["l"])] [].

Example cex_ternary_breaks :
  wfb cex_ternary = true /\ inputs_nullary cex_ternary /\
  (forall l g, dget (gates cex_ternary) l = Some g -> binary_type' (gtyp g) = true ->
               2 <= length (gops g)) /\
  exists c', into_bench cex_ternary ["X"] = Ok c' /\ ~ WF c'.
Proof.
  split; [vm_compute; reflexivity|]. split.
  { intros l g H Ht. conc H; reflexivity. }
  split.
  { intros l g H Hb. conc H; try discriminate Hb. simpl; lia. }
  eexists; split; [vm_compute; reflexivity|]. intros W.
  pose proof (wf_users _ W "d" "l") as E. vm_compute in E. discriminate E.
Qed.

(* Remarks.
   - No hypothesis on `fresh`: emplace_gate checks that the helper label is not a gate yet, so
     a clash makes into_bench return Err (CircuitValidationError) instead of a broken state.
   - binary_ok' is used only through binary_le' (at most two operands): with fewer than two
     operands op_at fails with PyIndexError, so `Ok` already gives at least two.
   - inputs_nullary is used (a) for the rank of convert_const, (b) nowhere else; it is preserved
     because every gate written has type NOT / AND / OR / IFF. *)
