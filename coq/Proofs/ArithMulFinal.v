(* C08: the statements of Properties/C08.v, assembled from Proofs/ArithMul*.v and ArithSquareFacts.v.
   The value clauses are restated with the operand values read in the host circuit (bc s) and the
   result values in the circuit after the call (bc s'); the lemmas they come from hold for every
   later circuit as well. *)
Require Import Cirbo.Model.Base Cirbo.Model.Gate Cirbo.Model.Den Cirbo.Model.Circuit
  Cirbo.Model.Eval Cirbo.Model.Sem Cirbo.Model.Builder.
Require Import Cirbo.Generated.ArithTables Cirbo.Generated.ArithCells.
Require Import Cirbo.Model.ArithSub Cirbo.Model.ArithSum2 Cirbo.Model.ArithSumN Cirbo.Model.ArithSumW
  Cirbo.Model.ArithGen Cirbo.Model.SumCases Cirbo.Model.ArithMul Cirbo.Model.ArithSquare Cirbo.Model.MulCases.
Require Import Cirbo.Proofs.DictFacts Cirbo.Proofs.BuilderFacts Cirbo.Proofs.ArithFacts Cirbo.Proofs.ArithGenFacts
  Cirbo.Proofs.ArithSumCells Cirbo.Proofs.ArithSumPow2Facts Cirbo.Proofs.ArithSumStruct
  Cirbo.Proofs.ArithMulFacts Cirbo.Proofs.ArithMulDiag
  Cirbo.Proofs.ArithMulDadda Cirbo.Proofs.ArithMulPow2 Cirbo.Proofs.ArithMulKara Cirbo.Proofs.ArithMulWallace
  Cirbo.Proofs.ArithSquareFacts Cirbo.Proofs.ArithMulLen Cirbo.Proofs.ArithMulCount.
Open Scope Z_scope.

Definition product_clause (c c' : circuit) (xs ys rs : list label) (be : bool) : Prop :=
  forall asg xv yv, bvals c asg xs xv -> bvals c asg ys yv ->
    exists rv, bvals c' asg rs rv /\ decode be rv = decode be xv * decode be yv.

Definition square_clause (c c' : circuit) (xs rs : list label) (be : bool) : Prop :=
  forall asg xv, bvals c asg xs xv ->
    exists rv, bvals c' asg rs rv /\ decode be rv = decode be xv * decode be xv.

Lemma product_clause_intro c c' xs ys rs be :
  ext c c' ->
  (forall asg xv yv, bvals c' asg xs xv -> bvals c' asg ys yv ->
     exists rv, bvals c' asg rs rv /\ decode be rv = decode be xv * decode be yv) ->
  product_clause c c' xs ys rs be.
Proof. intros X V asg xv yv Hx Hy. apply V; eapply bvals_ext; eassumption. Qed.

Lemma square_clause_intro c c' xs rs be :
  ext c c' ->
  (forall asg xv, bvals c' asg xs xv -> exists rv, bvals c' asg rs rv /\ decode be rv = decode be xv * decode be xv) ->
  square_clause c c' xs rs be.
Proof. intros X V asg xv Hx. apply V; eapply bvals_ext; eassumption. Qed.

Theorem add_mul_final fresh xs ys be s rs s' :
  run fresh (add_mul xs ys be) s = Ok (rs, s') ->
  ext (bc s) (bc s') /\ inputs (bc s') = inputs (bc s) /\ outputs (bc s') = outputs (bc s) /\
  length rs = mul_len (length xs) (length ys) /\
  product_clause (bc s) (bc s') xs ys rs be.
Proof.
  intros H. pose proof (add_mul_length _ _ _ _ _ _ _ H) as L.
  apply add_mul_correct in H as (X & I & O & V). repeat split; auto.
  apply product_clause_intro; [exact X|]. apply V, ext_refl.
Qed.

Theorem add_mul_alter_final fresh xs ys be s rs s' :
  run fresh (add_mul_alter xs ys be) s = Ok (rs, s') ->
  ext (bc s) (bc s') /\ inputs (bc s') = inputs (bc s) /\ outputs (bc s') = outputs (bc s) /\
  ((1 <= length xs)%nat -> length rs = mul_len (length xs) (length ys)) /\
  product_clause (bc s) (bc s') xs ys rs be.
Proof.
  intros H. pose proof (add_mul_alter_length _ _ _ _ _ _ _ H) as L.
  apply add_mul_alter_correct in H as (X & I & O & V). repeat split; auto.
  apply product_clause_intro; [exact X|]. apply V, ext_refl.
Qed.

Theorem add_mul_dadda_final fresh xs ys be s rs s' :
  run fresh (add_mul_dadda xs ys be) s = Ok (rs, s') ->
  ext (bc s) (bc s') /\ inputs (bc s') = inputs (bc s) /\ outputs (bc s') = outputs (bc s) /\
  length rs = mul_len (length xs) (length ys) /\
  product_clause (bc s) (bc s') xs ys rs be.
Proof.
  intros H. apply add_mul_dadda_correct in H as (X & I & O & L & V). repeat split; auto.
  - rewrite L. unfold mul_len. destruct ((length xs =? 1) || (length ys =? 1))%nat; lia.
  - apply product_clause_intro; [exact X|]. apply V, ext_refl.
Qed.

Theorem add_mul_wallace_final fresh xs ys be s rs s' :
  run fresh (add_mul_wallace xs ys be) s = Ok (rs, s') ->
  ext (bc s) (bc s') /\ inputs (bc s') = inputs (bc s) /\ outputs (bc s') = outputs (bc s) /\
  (length rs <= mul_len (length xs) (length ys))%nat /\
  (has_gate (bc s') PLACEHOLDER_STR = false -> product_clause (bc s) (bc s') xs ys rs be).
Proof.
  intros H. apply add_mul_wallace_correct in H as (X & I & O & L & V). repeat split; auto.
  intros HP. apply product_clause_intro; [exact X|]. apply V; [apply ext_refl|exact HP].
Qed.

Theorem add_mul_pow2_m1_final fresh xs ys be s rs s' :
  run fresh (add_mul_pow2_m1 xs ys be) s = Ok (rs, s') ->
  ext (bc s) (bc s') /\ inputs (bc s') = inputs (bc s) /\ outputs (bc s') = outputs (bc s) /\
  length rs = mul_len (length xs) (length ys) /\
  (has_gate (bc s') "" = false -> product_clause (bc s) (bc s') xs ys rs be).
Proof.
  intros H. apply add_mul_pow2_m1_correct in H as (X & I & O & L & V). repeat split; auto.
  intros He. apply product_clause_intro; [exact X|]. apply V; [apply ext_refl|exact He].
Qed.

Theorem add_mul_karatsuba_final fresh xs ys be s rs s' :
  run fresh (add_mul_karatsuba xs ys be) s = Ok (rs, s') ->
  ext (bc s) (bc s') /\ inputs (bc s') = inputs (bc s) /\ outputs (bc s') = outputs (bc s) /\
  ((1 <= length xs)%nat -> (1 <= length ys)%nat -> length rs = mul_len (length xs) (length ys)) /\
  (has_gate (bc s') "" = false -> product_clause (bc s) (bc s') xs ys rs be).
Proof.
  intros H. apply add_mul_karatsuba_correct in H as (X & I & O & L & V). repeat split; auto.
  intros He. apply product_clause_intro; [exact X|]. apply V; [apply ext_refl|exact He].
Qed.

Theorem add_mul_karatsuba_with_efficient_sum_final fresh xs ys be s rs s' :
  run fresh (add_mul_karatsuba_with_efficient_sum xs ys be) s = Ok (rs, s') ->
  ext (bc s) (bc s') /\ inputs (bc s') = inputs (bc s) /\ outputs (bc s') = outputs (bc s) /\
  ((1 <= length xs)%nat -> (1 <= length ys)%nat -> length rs = mul_len (length xs) (length ys)) /\
  product_clause (bc s) (bc s') xs ys rs be.
Proof.
  intros H. apply add_mul_karatsuba_with_efficient_sum_correct in H as (X & I & O & L & V). repeat split; auto.
  apply product_clause_intro; [exact X|]. apply V, ext_refl.
Qed.

Theorem add_square_final fresh xs be s rs s' :
  run fresh (add_square xs be) s = Ok (rs, s') ->
  ext (bc s) (bc s') /\ inputs (bc s') = inputs (bc s) /\ outputs (bc s') = outputs (bc s) /\
  length rs = sq_len (length xs) /\
  (has_gate (bc s') "" = false -> square_clause (bc s) (bc s') xs rs be).
Proof.
  intros H. apply add_square_correct in H as (X & I & O & L & V). repeat split; auto.
  intros He. apply square_clause_intro; [exact X|]. apply V; [apply ext_refl|exact He].
Qed.

Theorem add_square_pow2_m1_final fresh xs be s rs s' :
  run fresh (add_square_pow2_m1 xs be) s = Ok (rs, s') ->
  ext (bc s) (bc s') /\ inputs (bc s') = inputs (bc s) /\ outputs (bc s') = outputs (bc s) /\
  length rs = sq_len (length xs) /\
  (has_gate (bc s') "" = false -> square_clause (bc s) (bc s') xs rs be).
Proof.
  intros H. apply add_square_pow2_m1_correct in H as (X & I & O & L & V). repeat split; auto.
  intros He. apply square_clause_intro; [exact X|]. apply V; [apply ext_refl|exact He].
Qed.

(* the computed structural facts (bounded widths, harness naming function) are in ArithMulStructFinal.v *)
Definition all_mul_fns : list mulfn := [FMul; FAlter; FDadda; FWallace; FPow2m1; FKaratsuba; FKaratsubaEff].

Theorem result_length_formulas :
  (forall n m, mul_len n m = if ((n =? 1) || (m =? 1))%nat then (n + m - 1)%nat else (n + m)%nat) /\
  (forall n, sq_len n = if (n =? 1)%nat then 1%nat else (2 * n)%nat).
Proof. split; reflexivity. Qed.

Theorem last_step_final fresh xs ys be s rs s' :
  run fresh (last_step_sum_with_new_powers_sum xs ys be) s = Ok (rs, s') ->
  ext (bc s) (bc s') /\ inputs (bc s') = inputs (bc s) /\ outputs (bc s') = outputs (bc s) /\
  length rs = mul_len (length xs) (length ys) /\
  (length xs = length ys \/ length xs = 1%nat \/ length ys = 1%nat) /\
  product_clause (bc s) (bc s') xs ys rs be.
Proof.
  intros H. apply last_step_correct in H as (X & I & O & L & Hs & V). repeat split; auto.
  apply product_clause_intro; [exact X|]. apply V, ext_refl.
Qed.
