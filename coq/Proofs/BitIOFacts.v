(* BitWriter / BitReader are mutual inverses (C16): packing, single bits, numbers. *)
Require Import Cirbo.Model.Base Cirbo.Model.BitIO.

(* ---- bytes <-> bits ---- *)
Lemma unpack_app a b : unpack (a ++ b) = unpack a ++ unpack b.
Proof. unfold unpack; apply flat_map_app. Qed.

Lemma pack_unpack (bs : bytes) : pack (unpack bs) = bs.
Proof.
  induction bs as [|a bs IH]; [reflexivity|].
  destruct a as [b0 b1 b2 b3 b4 b5 b6 b7]. unfold unpack in *; simpl. rewrite IH; reflexivity.
Qed.

Lemma unpack_pack_aux n : forall bs, (length bs <= n)%nat ->
  exists pad, unpack (pack bs) = bs ++ pad /\ (length pad < 8)%nat /\ pad = repeat false (length pad).
Proof.
  induction n as [|n IH]; intros bs H.
  - destruct bs; [|simpl in H; lia]. exists []; split; [reflexivity|split; [simpl; lia|reflexivity]].
  - destruct bs as [|b0 [|b1 [|b2 [|b3 [|b4 [|b5 [|b6 [|b7 r]]]]]]]];
      try (eexists; split; [simpl; reflexivity|split; [simpl; lia|reflexivity]]).
    + destruct (IH r) as (pad & H1 & H2 & H3); [simpl in H; lia|].
      exists pad. split; [|split; assumption].
      change (pack (b0 :: b1 :: b2 :: b3 :: b4 :: b5 :: b6 :: b7 :: r))
        with (Ascii b0 b1 b2 b3 b4 b5 b6 b7 :: pack r).
      unfold unpack in *; simpl. rewrite H1. reflexivity.
Qed.

(* bytes(writer) read back as bits: the written bits followed by fewer than 8 zero bits *)
Theorem unpack_pack bs :
  exists pad, unpack (pack bs) = bs ++ pad /\ (length pad < 8)%nat /\ pad = repeat false (length pad).
Proof. apply (unpack_pack_aux (length bs)); lia. Qed.

Lemma length_unpack bs : length (unpack bs) = (8 * length bs)%nat.
Proof.
  induction bs as [|a bs IH]; [reflexivity|]. destruct a. unfold unpack in *; simpl in *. rewrite IH; lia.
Qed.

(* ---- single bits ---- *)
Lemma read_bits_app bs rest : read_bits (length bs) (bs ++ rest) = Ok (bs, rest).
Proof. induction bs as [|b bs IH]; simpl; [reflexivity|]. rewrite IH; reflexivity. Qed.

Theorem bits_roundtrip bs :
  exists pad, read_bits (length bs) (unpack (pack bs)) = Ok (bs, pad) /\ (length pad < 8)%nat.
Proof.
  destruct (unpack_pack bs) as (pad & -> & H & _). exists pad; split; [apply read_bits_app|exact H].
Qed.

Lemma read_bits_short n r : (length r < n)%nat -> read_bits n r = Err BitIOError.
Proof.
  revert r; induction n as [|n IH]; intros r H; [lia|].
  destruct r as [|b r]; simpl; [reflexivity|]. rewrite IH; [reflexivity|simpl in H; lia].
Qed.

(* ---- numbers ---- *)
Lemma length_number_bits x k : length (number_bits x k) = k.
Proof. revert x; induction k; intros; simpl; [reflexivity|rewrite IHk; reflexivity]. Qed.

Lemma fits_iff x k : N.eqb (N.shiftr x (N.of_nat k)) 0 = true <-> (x < 2 ^ N.of_nat k)%N.
Proof.
  rewrite N.eqb_eq, N.shiftr_div_pow2. apply N.div_small_iff. apply N.pow_nonzero; discriminate.
Qed.

Lemma write_number_ok x k : (x < 2 ^ N.of_nat k)%N -> write_number x k = Ok (number_bits x k).
Proof. intros H; unfold write_number. apply fits_iff in H; rewrite H; reflexivity. Qed.

Theorem write_number_too_large x k : (2 ^ N.of_nat k <= x)%N -> write_number x k = Err BitIOError.
Proof.
  intros H; unfold write_number. destruct (N.eqb (N.shiftr x (N.of_nat k)) 0) eqn:E; [|reflexivity].
  apply fits_iff in E; lia.
Qed.

Lemma write_number_inv x k b : write_number x k = Ok b -> (x < 2 ^ N.of_nat k)%N /\ b = number_bits x k.
Proof.
  unfold write_number. destruct (N.eqb (N.shiftr x (N.of_nat k)) 0) eqn:E; [|discriminate].
  intros [= <-]; split; [apply fits_iff; exact E|reflexivity].
Qed.

Lemma write_number_err x k e : write_number x k = Err e -> e = BitIOError.
Proof. unfold write_number. destruct (N.eqb _ 0); [discriminate|intros [= <-]; reflexivity]. Qed.

Lemma div2_lt x k : (x < 2 ^ N.of_nat (S k))%N -> (N.div2 x < 2 ^ N.of_nat k)%N.
Proof.
  intros H. rewrite Nat2N.inj_succ, N.pow_succ_r' in H.
  rewrite N.div2_div. apply N.div_lt_upper_bound; lia.
Qed.

Lemma read_number_app k : forall x rest, (x < 2 ^ N.of_nat k)%N ->
  read_number k (number_bits x k ++ rest) = Ok (x, rest).
Proof.
  induction k as [|k IH]; intros x rest H.
  - simpl in *. replace x with 0%N by lia. reflexivity.
  - simpl. rewrite IH by (apply div2_lt; exact H). simpl.
    unfold b2n. rewrite (N.div2_odd x) at 3. rewrite N.add_comm. reflexivity.
Qed.

(* what was written with write_number is what read_number reads *)
Theorem number_roundtrip x k b rest :
  write_number x k = Ok b -> read_number k (b ++ rest) = Ok (x, rest).
Proof. intros H; apply write_number_inv in H as [H ->]. apply read_number_app; exact H. Qed.

Lemma read_number_short k r : (length r < k)%nat -> read_number k r = Err BitIOError.
Proof.
  revert r; induction k as [|k IH]; intros r H; [lia|].
  destruct r as [|b r]; simpl; [reflexivity|]. rewrite IH; [reflexivity|simpl in H; lia].
Qed.

Lemma read_number_err k r e : read_number k r = Err e -> e = BitIOError.
Proof.
  revert r; induction k as [|k IH]; intros r; simpl; [discriminate|].
  destruct r as [|b r]; simpl; [intros [= <-]; reflexivity|].
  destruct (read_number k r) eqn:E; simpl; [discriminate|]. intros [= <-]. eapply IH; eassumption.
Qed.

Lemma read_number_S k b r :
  read_number (S k) (b :: r) = (do xr <- read_number k r; Ok ((b2n b + 2 * fst xr)%N, snd xr)).
Proof. reflexivity. Qed.

Lemma read_number_lt k : forall r x r', read_number k r = Ok (x, r') -> (x < 2 ^ N.of_nat k)%N.
Proof.
  induction k as [|k IH]; intros r x r'.
  - simpl. intros [= <- _]. reflexivity.
  - rewrite Nat2N.inj_succ, N.pow_succ_r'. destruct r as [|b r]; [discriminate|].
    rewrite read_number_S.
    destruct (read_number k r) as [[y r2]|] eqn:E; [|discriminate]. unfold bind, fst, snd. intros [= <- _].
    apply IH in E. unfold b2n. change (match y with 0 => 0 | N.pos q => N.pos q~0 end)%N with (2 * y)%N. destruct b; unfold N.b2n; lia.
Qed.
