(* C15 at the level of the evaluators: what evaluate_full_circuit / evaluate_circuit /
   evaluate_circuit_outputs report under a partial assignment is refined (never changed once
   True/False) by what they report under any assignment with more information, and a total
   assignment yields no Undefined at any evaluated gate.
   Combination of soundness (EvalFacts), completeness (EvalComplete, EvalStack, EvalEntry) and
   the semantic facts Eval_mono / Eval_defined_stable / Eval_total (SemFacts). *)
Require Import Cirbo.Model.Base Cirbo.Model.Gate Cirbo.Model.Den Cirbo.Model.Circuit
        Cirbo.Model.Traverse Cirbo.Model.Eval Cirbo.Model.Sem Cirbo.Model.WF.
Require Import Cirbo.Generated.Operators Cirbo.Generated.GateTypes.
Require Import Cirbo.Proofs.DictFacts Cirbo.Proofs.OpFacts Cirbo.Proofs.SemFacts
        Cirbo.Proofs.EvalFacts Cirbo.Proofs.TopSortWF Cirbo.Proofs.EvalComplete
        Cirbo.Proofs.EvalStack Cirbo.Proofs.EvalEntry.

Lemma st_le_defined v v' : st_le v v' -> v <> U -> v' = v.
Proof. intros [H|H] Hn; [contradiction|symmetry; exact H]. Qed.

(* ---------------- evaluate_full_circuit ---------------- *)
Theorem evaluate_full_circuit_mono c a a' d d' :
  WF c -> arity_ok c -> assigns_inputs_only c a -> assigns_inputs_only c a' -> assign_le a a' ->
  evaluate_full_circuit c a = Ok d -> evaluate_full_circuit c a' = Ok d' ->
  forall l v, dget d l = Some v -> exists v', dget d' l = Some v' /\ st_le v v'.
Proof.
  intros Hwf Har Ha Ha' Hle Hd Hd' l v Hv.
  pose proof (WF_inputs_are_input_gates c Hwf) as Hin.
  pose proof (evaluate_full_circuit_sound c a d Hin Ha Hd l v Hv) as He.
  destruct (evaluate_full_circuit_complete c a' Hwf Har Ha') as (d2 & Hd2 & Hall).
  assert (d2 = d') by congruence. subst d2.
  destruct (Hall l (Eval_has_gate _ _ _ _ He)) as (v' & Hv' & He').
  exists v'. split; [exact Hv'|]. eapply Eval_mono2; eassumption.
Qed.

Corollary evaluate_full_circuit_defined_stable c a a' d d' :
  WF c -> arity_ok c -> assigns_inputs_only c a -> assigns_inputs_only c a' -> assign_le a a' ->
  evaluate_full_circuit c a = Ok d -> evaluate_full_circuit c a' = Ok d' ->
  forall l v, dget d l = Some v -> v <> U -> dget d' l = Some v.
Proof.
  intros Hwf Har Ha Ha' Hle Hd Hd' l v Hv Hn.
  destruct (evaluate_full_circuit_mono c a a' d d' Hwf Har Ha Ha' Hle Hd Hd' l v Hv) as (v' & Hv' & Hl).
  rewrite (st_le_defined _ _ Hl Hn) in Hv'. exact Hv'.
Qed.

Theorem evaluate_full_circuit_total_defined c a d :
  WF c -> assigns_inputs_only c a -> total_on c a ->
  evaluate_full_circuit c a = Ok d -> forall l v, dget d l = Some v -> v <> U.
Proof.
  intros Hwf Ha Ht Hd l v Hv. eapply Eval_total; [exact Ht|].
  eapply evaluate_full_circuit_sound; eauto using WF_inputs_are_input_gates.
Qed.

(* ---------------- evaluate_circuit ---------------- *)
(* which labels the stack evaluator visits does not depend on the values *)
Lemma eval_stack_loop_keys c : forall fuel d1 d2 stack r1 r2,
  (forall l, dmem d1 l = dmem d2 l) ->
  eval_stack_loop fuel c d1 stack = Ok r1 -> eval_stack_loop fuel c d2 stack = Ok r2 ->
  forall l, dmem r1 l = dmem r2 l.
Proof.
  induction fuel as [|fuel IH]; intros d1 d2 stack r1 r2 Hk; simpl; [discriminate|].
  destruct (pop_last stack) as [[cur rest]|]; [|intros [= <-] [= <-]; exact Hk].
  destruct (get_gate c cur) as [g|]; simpl; [|discriminate].
  assert (Ef : filter (fun op => negb (dmem d1 op)) (gops g) = filter (fun op => negb (dmem d2 op)) (gops g))
    by (apply filter_ext; intros o; rewrite Hk; reflexivity).
  rewrite <- Ef. destruct (filter (fun op => negb (dmem d1 op)) (gops g)) as [|p ps].
  - destruct (eval_gate d1 g) as [v1|]; simpl; [|discriminate].
    destruct (eval_gate d2 g) as [v2|]; simpl; [|discriminate].
    apply IH. intros l. rewrite !dmem_dset, Hk. reflexivity.
  - apply IH. exact Hk.
Qed.

Lemma init_assignment_keys c a a' :
  assigns_inputs_only c a -> assigns_inputs_only c a' ->
  forall l, dmem (init_assignment c a) l = dmem (init_assignment c a') l.
Proof.
  intros Ha Ha' l. rewrite !init_assignment_mem.
  destruct (memb l (inputs c)) eqn:E; [rewrite !orb_true_r; reflexivity|]. rewrite !orb_false_r.
  apply memb_nIn in E.
  destruct (dmem a l) eqn:E1; [exfalso; apply E, Ha, E1|].
  destruct (dmem a' l) eqn:E2; [exfalso; apply E, Ha', E2|reflexivity].
Qed.

Theorem evaluate_circuit_fuel_mono fuel c a a' outs d d' :
  WF c -> assigns_inputs_only c a -> assigns_inputs_only c a' -> assign_le a a' ->
  evaluate_circuit_fuel fuel c a outs = Ok d -> evaluate_circuit_fuel fuel c a' outs = Ok d' ->
  forall l v, dget d l = Some v -> exists v', dget d' l = Some v' /\ st_le v v'.
Proof.
  intros Hwf Ha Ha' Hle. unfold evaluate_circuit_fuel.
  set (stack := filter (fun o => negb (memb o (inputs c))) (match outs with Some o => o | None => outputs c end)).
  destruct (eval_stack_loop fuel c (init_assignment c a) stack) as [r1|] eqn:E1; simpl; [|discriminate].
  destruct (eval_stack_loop fuel c (init_assignment c a') stack) as [r2|] eqn:E2; simpl; [|discriminate].
  intros [= <-] [= <-] l v. rewrite !setdefaults_get.
  pose proof (WF_inputs_are_input_gates c Hwf) as Hin.
  destruct (eval_stack_loop_sound c a _ _ _ _ (init_assignment_sound c a Hin Ha) E1) as (Hs1 & _ & _).
  destruct (eval_stack_loop_sound c a' _ _ _ _ (init_assignment_sound c a' Hin Ha') E2) as (Hs2 & _ & _).
  pose proof (eval_stack_loop_keys c _ _ _ _ _ _ (init_assignment_keys c a a' Ha Ha') E1 E2 l) as Hk.
  unfold dmem in Hk. destruct (dget r1 l) as [v1|] eqn:G1; destruct (dget r2 l) as [v2|] eqn:G2; try discriminate.
  - intros [= <-]. exists v2. split; [reflexivity|]. eapply Eval_mono2; [exact Hle|apply Hs1; exact G1|apply Hs2; exact G2].
  - destruct (memb l (dkeys (gates c))); [|discriminate]. intros [= <-]. exists U. split; [reflexivity|apply st_le_refl].
Qed.

Corollary evaluate_circuit_mono c a a' outs d d' :
  WF c -> assigns_inputs_only c a -> assigns_inputs_only c a' -> assign_le a a' ->
  evaluate_circuit c a outs = Ok d -> evaluate_circuit c a' outs = Ok d' ->
  forall l v, dget d l = Some v -> exists v', dget d' l = Some v' /\ st_le v v'.
Proof. unfold evaluate_circuit. apply evaluate_circuit_fuel_mono. Qed.

Corollary evaluate_circuit_defined_stable c a a' outs d d' :
  WF c -> assigns_inputs_only c a -> assigns_inputs_only c a' -> assign_le a a' ->
  evaluate_circuit c a outs = Ok d -> evaluate_circuit c a' outs = Ok d' ->
  forall l v, dget d l = Some v -> v <> U -> dget d' l = Some v.
Proof.
  intros Hwf Ha Ha' Hle Hd Hd' l v Hv Hn.
  destruct (evaluate_circuit_mono c a a' outs d d' Hwf Ha Ha' Hle Hd Hd' l v Hv) as (v' & Hv' & Hl).
  rewrite (st_le_defined _ _ Hl Hn) in Hv'. exact Hv'.
Qed.

(* under a total assignment every requested output is True/False (gates that were not
   evaluated are reported Undefined by design) *)
Theorem evaluate_circuit_total_defined fuel c a outs d :
  WF c -> assigns_inputs_only c a -> total_on c a ->
  evaluate_circuit_fuel fuel c a outs = Ok d ->
  forall o, In o (requested c outs) -> exists v, dget d o = Some v /\ v <> U.
Proof.
  intros Hwf Ha Ht Hd o Ho.
  destruct (evaluate_circuit_sound fuel c a outs d (WF_inputs_are_input_gates c Hwf) Ha Hd) as [_ H2].
  destruct (H2 o Ho) as (v & Hv & He). exists v. split; [exact Hv|]. eapply Eval_total; eassumption.
Qed.

(* ---------------- evaluate_circuit_outputs ---------------- *)
Theorem evaluate_circuit_outputs_mono c a a' r r' :
  WF c -> arity_ok c -> assigns_inputs_only c a -> assigns_inputs_only c a' -> assign_le a a' ->
  evaluate_circuit_outputs c a = Ok r -> evaluate_circuit_outputs c a' = Ok r' ->
  forall l v, dget r l = Some v -> exists v', dget r' l = Some v' /\ st_le v v'.
Proof.
  intros Hwf Har Ha Ha' Hle Hr Hr' l v Hv.
  destruct (evaluate_circuit_outputs_sound c a r Hwf Ha Hr l v Hv) as [Ho He].
  destruct (evaluate_circuit_outputs_complete c a' Hwf Har Ha') as (r2 & Hr2 & Hall & _).
  assert (r2 = r') by congruence. subst r2.
  destruct (Hall l Ho) as (v' & Hv' & He'). exists v'. split; [exact Hv'|]. eapply Eval_mono2; eassumption.
Qed.

Corollary evaluate_circuit_outputs_defined_stable c a a' r r' :
  WF c -> arity_ok c -> assigns_inputs_only c a -> assigns_inputs_only c a' -> assign_le a a' ->
  evaluate_circuit_outputs c a = Ok r -> evaluate_circuit_outputs c a' = Ok r' ->
  forall l v, dget r l = Some v -> v <> U -> dget r' l = Some v.
Proof.
  intros Hwf Har Ha Ha' Hle Hr Hr' l v Hv Hn.
  destruct (evaluate_circuit_outputs_mono c a a' r r' Hwf Har Ha Ha' Hle Hr Hr' l v Hv) as (v' & Hv' & Hl).
  rewrite (st_le_defined _ _ Hl Hn) in Hv'. exact Hv'.
Qed.

Theorem evaluate_circuit_outputs_total_defined c a r :
  WF c -> assigns_inputs_only c a -> total_on c a ->
  evaluate_circuit_outputs c a = Ok r -> forall l v, dget r l = Some v -> v <> U.
Proof.
  intros Hwf Ha Ht Hr l v Hv. eapply Eval_total; [exact Ht|].
  eapply evaluate_circuit_outputs_sound; eauto.
Qed.

(* Boolean input vectors: evaluate returns Booleans, the denotational values *)
Theorem evaluate_bool c bs : WF c -> arity_ok c -> length (inputs c) <= length bs ->
  exists rs, evaluate c (map inj bs) = Ok (map inj rs) /\
             Forall2 (fun o b => Eval c (vec_assignment c (map inj bs)) o (inj b)) (outputs c) rs.
Proof.
  intros Hwf Har Hlen.
  destruct (evaluate_complete c (map inj bs) Hwf Har) as (vs & Hvs & HF); [rewrite map_length; exact Hlen|].
  pose proof (vec_assignment_total c bs Hwf Hlen) as Ht.
  assert (exists rs, vs = map inj rs /\
            Forall2 (fun o b => Eval c (vec_assignment c (map inj bs)) o (inj b)) (outputs c) rs) as (rs & -> & HF').
  { clear Hvs. induction HF as [|o v os vs Hov _ (rs & -> & IH)]; [exists []; split; [reflexivity|constructor]|].
    pose proof (Eval_total _ _ _ _ Ht Hov) as Hn.
    destruct v; [exists (false :: rs)|exists (true :: rs)|contradiction]; (split; [reflexivity|constructor; assumption]). }
  exists rs. split; assumption.
Qed.
