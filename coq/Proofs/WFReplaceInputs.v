(* C02: replace_inputs.  Needs the companion invariant inputs_nullary: the INPUT gate is
   overwritten by a constant gate WITHOUT operands and the users index is not touched. *)
Require Import Cirbo.Model.Base Cirbo.Model.Gate Cirbo.Model.Circuit Cirbo.Model.WF.
Require Import Cirbo.Proofs.DictFacts Cirbo.Proofs.WFBase Cirbo.Proofs.WFSimple Cirbo.Proofs.WFEmplace.

Lemma replace_input_step_wf c l g t :
  WF c -> dget (gates c) l = Some g -> gtyp g = INPUT -> gops g = [] -> t <> INPUT ->
  WF (set_inputs_raw (set_gates c (dset (gates c) l (mkGate t []))) (remove1 l (inputs c))).
Proof.
  intros W Hg Ht Hops Hti.
  set (c' := set_inputs_raw _ _).
  assert (Hhas : forall x, has_gate c' x = has_gate c x).
  { intros x; unfold has_gate, c'; simpl. rewrite dmem_dset.
    destruct (leqb_spec x l) as [->|]; [|reflexivity]. symmetry; eapply dget_dmem; eassumption. }
  assert (Hget : forall x, dget (gates c') x = if leqb x l then Some (mkGate t []) else dget (gates c) x).
  { intros x; unfold c'; simpl; apply dget_dset. }
  assert (Hops' : forall x, ops_of c' x = ops_of c x).
  { intros x; unfold ops_of; rewrite Hget. destruct (leqb_spec x l) as [->|]; [|reflexivity].
    rewrite Hg, Hops; reflexivity. }
  constructor.
  - unfold c'; simpl; apply NoDup_dkeys_dset, (wf_gkeys c W).
  - apply (wf_ukeys c W).
  - apply (wf_bkeys c W).
  - intros x gx o Hx Ho. rewrite Hhas. rewrite Hget in Hx. destruct (leqb x l).
    + injection Hx as <-; destruct Ho.
    + eapply (wf_ops c W); eassumption.
  - intros o Ho; rewrite Hhas; apply (wf_outs c W), Ho.
  - intros x u. rewrite Hops'. apply (wf_users c W).
  - apply NoDup_remove1, (wf_inputs_nodup c W).
  - intros x. unfold c' at 1; simpl. rewrite (NoDup_remove1_In _ _ _ (wf_inputs_nodup c W)), Hget.
    rewrite (wf_inputs c W). destruct (leqb_spec x l) as [->|]; [|tauto].
    split; [tauto|]. intros [g0 [[= <-] H0]]; simpl in H0; contradiction.
  - destruct (wf_acyclic c W) as [rank Hr]; exists rank. intros x gx o Hx Ho. rewrite Hget in Hx.
    destruct (leqb x l); [injection Hx as <-; destruct Ho|]. eapply Hr; eassumption.
  - intros b blk x Hb Hx. rewrite Hhas. eapply (wf_blocks c W); eassumption.
Qed.

Lemma replace_input_step_nullary c l t :
  inputs_nullary c ->
  inputs_nullary (set_inputs_raw (set_gates c (dset (gates c) l (mkGate t []))) (remove1 l (inputs c))).
Proof.
  intros N x g Hg Ht. simpl in Hg. rewrite dget_dset in Hg. destruct (leqb x l).
  - injection Hg as <-; reflexivity.
  - eapply N; eassumption.
Qed.

Lemma replace_inputs_with_wf t ls : t <> INPUT -> forall c c',
  WF c -> inputs_nullary c -> replace_inputs_with c ls t = Ok c' -> WF c' /\ inputs_nullary c'.
Proof.
  intros Hti; unfold replace_inputs_with.
  induction ls as [|l ls IH]; simpl; intros c c' W N H; [injection H as <-; auto|].
  binv H c1 H1. binv H1 g Hg. apply get_gate_ok in Hg.
  destruct (gtype_beq (gtyp g) INPUT) eqn:Et; simpl in H1; [|discriminate]. apply gtype_beq_eq in Et.
  destruct (memb l (inputs c)); [|discriminate]. injection H1 as <-.
  eapply IH; [| |eassumption].
  - eapply replace_input_step_wf; eauto.
  - apply replace_input_step_nullary, N.
Qed.

Lemma replace_inputs_wf c tt ff c' :
  WF c -> inputs_nullary c -> replace_inputs c tt ff = Ok c' -> WF c' /\ inputs_nullary c'.
Proof.
  unfold replace_inputs; intros W N H. binv H c1 H1.
  apply replace_inputs_with_wf in H1; [|discriminate|assumption|assumption]. destruct H1 as [W1 N1].
  eapply replace_inputs_with_wf; [|eassumption|eassumption|eassumption]. discriminate.
Qed.
