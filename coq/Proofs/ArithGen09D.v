(* Generated/ArithGen09.v (translator T14) equals the hand model, part D: add_equal of equality.py.
   The arithmetic content: bin(num)[2:].zfill(n)[::-1] spells const_bits num n exactly when num fits. *)
Require Import Cirbo.Model.Base Cirbo.Model.Gate Cirbo.Model.Circuit Cirbo.Model.Builder Cirbo.Model.PyPrims.
Require Import Cirbo.Generated.ArithTables Cirbo.Generated.ArithCells Cirbo.Generated.ArithGen09.
Require Import Cirbo.Model.ArithSub Cirbo.Model.ArithMisc.
Require Import Cirbo.Proofs.ArithGen09Lib Cirbo.Proofs.ArithGen09A.
From Coq Require Import ZArith Lia Ascii.
Open Scope Z_scope.

Definition isone (c : ascii) : bool := negb (Ascii.eqb c "0").

(* ---- digits ------------------------------------------------------------------------------------------- *)
Definition zdigits (num : Z) : list ascii :=
  match num with Zpos p => py_pos_digits p | _ => ["0"%char] end.

Lemma py_slice_from_2 {A} (l : list A) : py_slice l (Some 2) None = skipn 2 l.
Proof. exact (py_slice_from l 2). Qed.

Lemma bin_digits num : 0 <= num -> py_slice (py_bin num) (Some 2) None = zdigits num.
Proof. intros H. rewrite py_slice_from_2. destruct num; try reflexivity. lia. Qed.

Lemma pos_digits_length_pos p : (1 <= length (py_pos_digits p))%nat.
Proof. destruct p; cbn [py_pos_digits]; rewrite ?app_length; cbn [length]; lia. Qed.

Lemma pos_digits_fits p : forall n, Zpos p < 2 ^ Z.of_nat n <-> (length (py_pos_digits p) <= n)%nat.
Proof.
  induction p as [q IH|q IH|]; intros n; cbn [py_pos_digits]; rewrite ?app_length; cbn [length].
  - destruct n as [|n]; [cbn; lia|]. rewrite Nat2Z.inj_succ, Z.pow_succ_r by lia.
    specialize (IH n). lia.
  - destruct n as [|n]; [cbn; lia|]. rewrite Nat2Z.inj_succ, Z.pow_succ_r by lia.
    specialize (IH n). lia.
  - destruct n as [|n]; [cbn; lia|]. rewrite Nat2Z.inj_succ, Z.pow_succ_r by lia.
    assert (0 < 2 ^ Z.of_nat n) by (apply Z.pow_pos_nonneg; lia). lia.
Qed.

Lemma const_bits_zero k : const_bits 0 k = repeat false k.
Proof. induction k as [|k IH]; [reflexivity|]. cbn [const_bits repeat Z.odd Z.div2]. rewrite IH. reflexivity. Qed.

Lemma pos_digits_bits p : forall k,
  const_bits (Zpos p) (length (py_pos_digits p) + k) = map isone (rev (py_pos_digits p)) ++ repeat false k.
Proof.
  induction p as [q IH|q IH|]; intros k; cbn [py_pos_digits].
  - rewrite rev_app_distr, app_length. cbn [rev app length map].
    replace (length (py_pos_digits q) + 1 + k)%nat with (S (length (py_pos_digits q) + k)) by lia.
    cbn [const_bits]. rewrite <- IH. reflexivity.
  - rewrite rev_app_distr, app_length. cbn [rev app length map].
    replace (length (py_pos_digits q) + 1 + k)%nat with (S (length (py_pos_digits q) + k)) by lia.
    cbn [const_bits]. rewrite <- IH. reflexivity.
  - cbn [length rev app map Nat.add const_bits]. rewrite const_bits_zero. reflexivity.
Qed.

Lemma zdigits_bits num k : 0 <= num ->
  const_bits num (length (zdigits num) + k) = map isone (rev (zdigits num)) ++ repeat false k.
Proof.
  intros H. destruct num as [|p|p]; [|apply pos_digits_bits|lia].
  cbn [zdigits length rev app map Nat.add const_bits]. rewrite const_bits_zero. reflexivity.
Qed.

Lemma zdigits_length_pos num : (1 <= length (zdigits num))%nat.
Proof. destruct num; cbn [zdigits length]; try lia. apply pos_digits_length_pos. Qed.

Lemma zdigits_fits num n : 0 <= num ->
  (num <? 2 ^ Z.of_nat n) && negb (n =? 0)%nat = (length (zdigits num) <=? n)%nat.
Proof.
  intros H. destruct num as [|p|p]; [| |lia].
  - cbn [zdigits length]. assert (0 < 2 ^ Z.of_nat n) by (apply Z.pow_pos_nonneg; lia).
    destruct (Z.ltb_spec 0 (2 ^ Z.of_nat n)); [|lia]. destruct n; reflexivity.
  - cbn [zdigits]. pose proof (pos_digits_fits p n) as Hf. pose proof (pos_digits_length_pos p) as Hp.
    destruct (Z.ltb_spec (Zpos p) (2 ^ Z.of_nat n)) as [H1|H1],
             (Nat.leb_spec (length (py_pos_digits p)) n) as [H2|H2]; cbn [andb]; try reflexivity;
      try (exfalso; lia).
    destruct n; [lia|reflexivity].
Qed.

Lemma zdigits_no_sign num : 0 <= num ->
  forall w, py_zfill (zdigits num) w = repeat "0"%char (Z.to_nat (w - py_len (zdigits num))) ++ zdigits num.
Proof.
  intros H w. unfold py_zfill. destruct num as [|p|p]; [reflexivity| |lia].
  cbn [zdigits]. destruct (py_pos_digits p) as [|c r] eqn:E.
  - pose proof (pos_digits_length_pos p). rewrite E in *. cbn in *. lia.
  - assert (Hc : c = "1"%char \/ c = "0"%char).
    { clear -E. revert c r E. induction p as [q IH|q IH|]; intros c r E; cbn [py_pos_digits] in E.
      - destruct (py_pos_digits q) as [|c' r'] eqn:E'.
        + pose proof (pos_digits_length_pos q). rewrite E' in *. cbn in *. lia.
        + inversion E; subst. eapply IH; reflexivity.
      - destruct (py_pos_digits q) as [|c' r'] eqn:E'.
        + pose proof (pos_digits_length_pos q). rewrite E' in *. cbn in *. lia.
        + inversion E; subst. eapply IH; reflexivity.
      - inversion E. left; reflexivity. }
    destruct Hc as [-> | ->]; reflexivity.
Qed.

(* the bit string of add_equal *)
Definition eq_bits (num : Z) (n : nat) : list ascii :=
  rev (py_zfill (py_slice (py_bin num) (Some 2) None) (Z.of_nat n)).

Lemma rev_repeat {A} (x : A) k : rev (repeat x k) = repeat x k.
Proof.
  induction k as [|k IH]; [reflexivity|]. cbn [repeat rev]. rewrite IH.
  clear IH. induction k as [|k IH]; [reflexivity|]. cbn [repeat app]. rewrite IH. reflexivity.
Qed.

Lemma eq_bits_spec num n : 0 <= num ->
  eq_bits num n = rev (zdigits num) ++ repeat "0"%char (n - length (zdigits num)).
Proof.
  intros H. unfold eq_bits. rewrite bin_digits, zdigits_no_sign by exact H.
  rewrite rev_app_distr, rev_repeat. f_equal. f_equal. unfold py_len. lia.
Qed.

Lemma eq_bits_fits num n : 0 <= num ->
  (py_len (eq_bits num n) >? Z.of_nat n) = negb ((num <? 2 ^ Z.of_nat n) && negb (n =? 0)%nat).
Proof.
  intros H. rewrite zdigits_fits, eq_bits_spec by exact H. unfold py_len.
  rewrite app_length, rev_length, repeat_length. rewrite Z.gtb_ltb, Z_ltb_nat.
  destruct (Nat.leb_spec (length (zdigits num)) n), (Nat.ltb_spec n (length (zdigits num) + (n - length (zdigits num))));
    cbn [negb]; try reflexivity; lia.
Qed.

Lemma eq_bits_const num n : 0 <= num -> (length (zdigits num) <= n)%nat ->
  map isone (eq_bits num n) = const_bits num n /\ length (eq_bits num n) = n.
Proof.
  intros H Hn. rewrite eq_bits_spec by exact H. split.
  - replace n with (length (zdigits num) + (n - length (zdigits num)))%nat at 2 by lia.
    rewrite zdigits_bits by exact H. rewrite map_app. f_equal.
    induction (n - length (zdigits num))%nat as [|k IH]; [reflexivity|]. cbn [repeat map]. rewrite IH. reflexivity.
  - rewrite app_length, rev_length, repeat_length. lia.
Qed.

(* ---- the two loops --------------------------------------------------------------------------------------- *)
Lemma eq_fold (l : list (Z * (ascii * label))) : forall acc,
  peq (foldP (fun gates_for_and '(_, (bit, inp)) =>
         bdo gates_for_and <- (if Ascii.eqb bit "0"
            then (bdo t <- Fresh []; let new_label := t in bdo _ <- AddGate new_label NOT [inp];
                  let gates_for_and := gates_for_and ++ [new_label] in Ret gates_for_and)
            else (let gates_for_and := gates_for_and ++ [inp] in Ret gates_for_and));
         Ret gates_for_and) l acc)
      (bdo gs <- eq_literals (map (fun x => isone (fst (snd x))) l) (map (fun x => snd (snd x)) l);
       Ret (acc ++ gs)).
Proof.
  induction l as [|[i [bit inp]] l IH]; intros acc fresh s; cbn [foldP map eq_literals fst snd]; rs.
  - rewrite app_nil_r. reflexivity.
  - change (isone bit) with (negb (Ascii.eqb bit "0")). unfold gate_new. destruct (Ascii.eqb bit "0"); cbn [negb]; rs.
    + step. step. rewrite IH. rs. step. rewrite <- app_assoc. reflexivity.
    + rewrite IH. rs. step. rewrite <- app_assoc. reflexivity.
Qed.

Lemma and_fold (l : list (Z * (ascii * label))) : forall last,
  peq (foldP (fun last_label '(_, (_, out)) =>
         bdo t <- Fresh []; let new_label := t in bdo _ <- AddGate new_label AND [last_label; out];
         let last_label := new_label in Ret last_label) l last)
      (foldP (fun last out => gate_new AND [last; out]) (map (fun x => snd (snd x)) l) last).
Proof.
  induction l as [|[i [b out]] l IH]; intros last fresh s; cbn [foldP map fst snd]; rs; [reflexivity|].
  unfold gate_new. rs. step. step. apply IH.
Qed.

Lemma eq_literals_length bs : forall inps,
  returns (eq_literals bs inps) (fun gs => length gs = Nat.min (length bs) (length inps)).
Proof.
  induction bs as [|b bs IH]; intros inps fresh s gs s'; cbn [eq_literals].
  - rs. intros H; inversion H; reflexivity.
  - destruct inps as [|x inps]; rs; [intros H; inversion H; reflexivity|].
    destruct (run fresh (if b then Ret x else gate_new NOT [x]) s) as [[g s1]|e]; rs; [|discriminate].
    destruct (run fresh (eq_literals bs inps) s1) as [[r s2]|e] eqn:E; rs; [|discriminate].
    intros H; inversion H; subst. cbn [length]. apply IH in E. lia.
Qed.

Lemma map_snd_combine {A B} (a : list A) : forall (b : list B), (length b <= length a)%nat ->
  map snd (combine a b) = b.
Proof.
  induction a as [|x a IH]; intros [|y b] H; cbn in *; try reflexivity; try lia. f_equal. apply IH. lia.
Qed.

Lemma map_fst_combine {A B} (a : list A) : forall (b : list B), (length a <= length b)%nat ->
  map fst (combine a b) = a.
Proof.
  induction a as [|x a IH]; intros [|y b] H; cbn in *; try reflexivity; try lia. f_equal. apply IH. lia.
Qed.

Lemma py_enumerate_snd {A} (l : list A) : map snd (py_enumerate l) = l.
Proof.
  unfold py_enumerate. apply map_snd_combine. unfold py_range.
  rewrite map_length, seq_length. unfold py_len. lia.
Qed.

Theorem gen_add_equal_eq inp num : peq (gen_add_equal inp num) (add_equal inp num).
Proof.
  unfold gen_add_equal, add_equal. cbv zeta.
  change (rev (py_zfill (py_slice (py_bin num) (Some 2) None) (py_len inp))) with (eq_bits num (length inp)).
  unfold const_fits.
  destruct (Z.ltb_spec num 0) as [Hneg|Hpos].
  { destruct (Z.leb_spec 0 num); [lia|]. cbn [orb andb negb]. apply peq_refl. }
  destruct (Z.leb_spec 0 num); [|lia]. cbn [orb andb]. unfold py_len at 2. rewrite eq_bits_fits by lia.
  rewrite zdigits_fits by lia.
  destruct (Nat.leb_spec (length (zdigits num)) (length inp)) as [Hfit|Hno]; cbn [negb]; [|apply peq_refl].
  destruct (eq_bits_const num (length inp)) as [Hbits Hlen]; [lia|exact Hfit|].
  intros fresh s. rs. rewrite eq_fold. rs.
  rewrite <- map_map with (f := snd) (g := fun x : ascii * label => isone (fst x)).
  rewrite <- map_map with (f := snd) (g := fun x : ascii * label => snd x).
  rewrite py_enumerate_snd.
  rewrite <- map_map with (f := fst) (g := isone), map_fst_combine, map_snd_combine, Hbits by lia.
  destruct (run fresh (eq_literals (const_bits num (length inp)) inp) s) as [[gs s1]|e] eqn:E; rs; [|reflexivity].
  apply eq_literals_length in E.
  assert (Lb : length (const_bits num (length inp)) = length inp) by (rewrite <- Hbits, map_length; exact Hlen).
  rewrite Lb, Nat.min_id in E. cbn [app].
  step. unfold py_len.
  destruct gs as [|g0 [|g1 rest]]; cbn [length].
  - reflexivity.
  - reflexivity.
  - replace (Z.of_nat (S (S (length rest))) =? 1) with false by (symmetry; apply Z.eqb_neq; lia).
    do 2 step. step. rewrite and_fold.
    rewrite <- map_map with (f := snd) (g := fun x : ascii * label => snd x).
    rewrite py_enumerate_snd, !py_slice_from_2, map_snd_combine.
    + cbn [skipn]. step.
    + rewrite !skipn_length. cbn [length] in *. lia.
Qed.
