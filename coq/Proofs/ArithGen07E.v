(* Generated/ArithGen07.v (translator T18) equals the hand model, part E: add_sum_n_weighted_bits (the efficient
   weighted sum: the AIG mode works like the naive generator, the XAIG mode runs one level of the MDFA /
   Stockmeyer scheduler of _add_sum_n_bits per weight).  Tools and the sentinel invariant: Proofs/ArithGen07D.v. *)
Require Import Cirbo.Model.Base Cirbo.Model.Gate Cirbo.Model.Circuit Cirbo.Model.Builder Cirbo.Model.PyPrims.
Require Import Cirbo.Generated.ArithTables Cirbo.Generated.ArithCells Cirbo.Generated.ArithGen09 Cirbo.Generated.ArithGen07.
Require Import Cirbo.Model.ArithSub Cirbo.Model.ArithSum2 Cirbo.Model.ArithSumN Cirbo.Model.ArithSumW Cirbo.Model.PyPrimsSum.
Require Import Cirbo.Proofs.ArithGen09Lib Cirbo.Proofs.ArithGen09A Cirbo.Proofs.ArithGen07Lib Cirbo.Proofs.ArithGen07A
  Cirbo.Proofs.ArithGen07B.
Require Import Cirbo.Proofs.ArithSumTotalW Cirbo.Proofs.ArithGen07D.
From Coq Require Import ZArith Lia Ascii.
Open Scope Z_scope.

(* ---- how many labels one level of the XAIG scheduler can return (for arbitrary cells: the loops unpack) ----- *)
Lemma pair_up_len : forall solo xxy,
  returns (pair_up solo xxy)
          (fun st => (length (fst st) + 2 * length (snd st) = length solo + 2 * length xxy)%nat).
Proof.
  induction solo as [|a|a b solo IH] using list_ind2; intros xxy; cbn [pair_up].
  - apply returns_ret. reflexivity.
  - apply returns_ret. reflexivity.
  - eapply returns_bind; [apply returns_true|]. intros xy _.
    eapply returns_weaken; [apply IH|]. cbv beta. intros st H. cbn [length] in *. lia.
Qed.

Lemma mdfa_loop_len : forall xxy solo nx,
  returns (mdfa_loop xxy solo nx)
          (fun st => (length (snd (fst st)) + 2 * length (fst (fst st)) + 2 * length (snd st)
                      <= length solo + 2 * length xxy + 2 * length nx)%nat).
Proof.
  induction xxy as [|p|p1 p2 xxy IH] using list_ind2; intros solo nx.
  - cbn [mdfa_loop]. apply returns_ret. cbn [fst snd length]. lia.
  - destruct p as [x1 xy1]. cbn [mdfa_loop]. apply returns_ret. cbn [fst snd length]. lia.
  - destruct p1 as [x1 xy1], p2 as [x2 xy2]. cbn [mdfa_loop]. destruct solo as [|z solo].
    + eapply returns_bind; [apply returns_true|]. intros r _.
      eapply returns_bind; [apply returns_true|]. intros [[z' a] b] _.
      eapply returns_weaken; [apply IH|]. cbv beta. intros st H. cbn [length] in *. lia.
    + eapply returns_bind; [apply returns_true|]. intros r _.
      eapply returns_bind; [apply returns_true|]. intros [[z' a] b] _.
      eapply returns_weaken; [apply IH|]. cbv beta. intros st H. cbn [length] in *. lia.
Qed.

Lemma last_pair_len xxy solo :
  returns (last_pair xxy solo)
          (fun st => (length (fst st) + length (snd st) <= length solo + 2 * length xxy)%nat).
Proof.
  unfold last_pair. destruct xxy as [|[x xy] [|p xxy]].
  - apply returns_ret. cbn [fst snd length]. lia.
  - destruct solo as [|z solo].
    + eapply returns_bind; [apply returns_true|]. intros g _. apply returns_ret. cbn [fst snd length]. lia.
    + eapply returns_bind; [apply returns_true|]. intros r _.
      eapply returns_bind; [apply returns_true|]. intros wy _. apply returns_ret. cbn [fst snd length]. lia.
  - apply returns_ret. cbn [fst snd length]. lia.
Qed.

Lemma xaig_level_len solo xxy :
  returns (xaig_level solo xxy)
          (fun t => (length (snd (fst t)) + 2 * length (snd t) + 1 <= length solo + 2 * length xxy)%nat).
Proof.
  unfold xaig_level.
  eapply returns_bind; [apply mdfa_loop_len|]. cbv beta. intros [[xxy1 solo1] nxx] H1. cbn [fst snd length] in H1.
  eapply returns_bind; [apply last_pair_len|]. cbv beta. intros [solo2 ns] H2. cbn [fst snd] in H2.
  destruct solo2 as [|top rest]; [apply returns_fail|].
  eapply returns_bind; [apply solo_loop_len|]. cbv beta. intros r H3. apply returns_ret.
  cbn [fst snd length] in *. lia.
Qed.

(* ---- one level of the hand model ----------------------------------------------------------------------------- *)
Definition eff_step (b : gen_basis) (lev : N) (single : list witem) (pairs : list wpair)
  : prog (label * list witem * list wpair) :=
  let '(now_singles, single1) := take_level lev single in
  let '(now_pairs, pairs1) := take_level_pairs lev pairs in
  match b with
  | AIG =>
    bdo st <- solo_level add_sum3_aig add_sum2_aig lev now_singles single1;
    Ret (fst st, snd st, pairs1)
  | XAIG =>
    bdo st <- pair_up (rev now_singles) (rev now_pairs);
    bdo lv <- xaig_level (fst st) (snd st);
    Ret (fst (fst lv), add_singles (lev + 1) (rev (snd (fst lv))) single1,
         add_pairs (lev + 1) (rev (snd lv)) pairs1)
  end.

Definition eff_lev (inf : N) (single : list witem) (pairs : list wpair) : N :=
  N.min (head_level inf fst single) (head_level inf (fun p : wpair => fst (fst p)) pairs).

Lemma eff_loop_nil f inf b : eff_loop f inf b [] [] = Ret [].
Proof. destruct f; reflexivity. Qed.

Lemma eff_loop_0 inf b single pairs : (single, pairs) <> ([], []) -> eff_loop 0 inf b single pairs = Fail OutOfFuel.
Proof. destruct single, pairs; [congruence|reflexivity..]. Qed.

Lemma eff_loop_S fr f inf b single pairs {B} (K : list witem -> prog B) s : (single, pairs) <> ([], []) ->
  run fr (Bind (eff_loop (S f) inf b single pairs) K) s
  = run fr (let lev := eff_lev inf single pairs in
            if (inf <=? lev)%N then Fail PyAssertionError
            else bdo t <- eff_step b lev single pairs;
                 bdo rs <- eff_loop f inf b (snd (fst t)) (snd t);
                 K ((lev, fst (fst t)) :: rs)) s.
Proof.
  intros Hne.
  assert (E : eff_loop (S f) inf b single pairs =
    let lev := eff_lev inf single pairs in
    if (inf <=? lev)%N then Fail PyAssertionError
    else
      let '(now_singles, single1) := take_level lev single in
      let '(now_pairs, pairs1) := take_level_pairs lev pairs in
      match b with
      | AIG =>
        bdo st <- solo_level add_sum3_aig add_sum2_aig lev now_singles single1;
        bdo rs <- eff_loop f inf b (snd st) pairs1;
        Ret ((lev, fst st) :: rs)
      | XAIG =>
        bdo st <- pair_up (rev now_singles) (rev now_pairs);
        bdo lv <- xaig_level (fst st) (snd st);
        let '(r, next_solo, next_xxy) := lv in
        bdo rs <- eff_loop f inf b (add_singles (lev + 1) (rev next_solo) single1)
                                   (add_pairs (lev + 1) (rev next_xxy) pairs1);
        Ret ((lev, r) :: rs)
      end).
  { destruct single, pairs; [congruence|reflexivity..]. }
  rewrite E. clear E. cbv zeta. unfold eff_step.
  destruct (inf <=? eff_lev inf single pairs)%N; [reflexivity|].
  destruct (take_level (eff_lev inf single pairs) single) as [now single1].
  destruct (take_level_pairs (eff_lev inf single pairs) pairs) as [nowp pairs1].
  destruct b; norm.
  - apply run_bind_cong. intros st s1. norm. apply run_bind_cong. intros [[r ns] nx] s2. norm. reflexivity.
  - apply run_bind_cong. intros st s1. norm. reflexivity.
Qed.

Lemma eff_step_post b inf bnd single pairs : (single, pairs) <> ([], []) -> (bnd <= inf)%N ->
  sbelow bnd single -> pbelow bnd pairs ->
  returns (eff_step b (eff_lev inf single pairs) single pairs)
          (fun t => sbelow (bnd + 1) (snd (fst t)) /\ pbelow (bnd + 1) (snd t) /\
                    (length (snd (fst t)) + 2 * length (snd t) + 1 <= length single + 2 * length pairs)%nat).
Proof.
  intros Hne Hbi Sb Pb. set (lev := eff_lev inf single pairs).
  assert ((lev < bnd)%N /\
          (1 <= length (fst (take_level lev single)) + 2 * length (fst (take_level_pairs lev pairs)))%nat)
    as (Hlt & Hpop).
  { unfold lev, eff_lev. destruct single as [|[l0 x] single']; destruct pairs as [|[[l1 px] py] pairs'];
      cbn [head_level fst].
    - congruence.
    - inversion Pb as [|? ? Hp _]; subst. unfold pklev in Hp. cbn [fst] in Hp.
      rewrite N.min_r by lia. split; [exact Hp|].
      pose proof (take_level_pairs_head l1 px py pairs'). unfold witem, wpair in *. lia.
    - inversion Sb as [|? ? Hs _]; subst. cbn [fst] in Hs.
      rewrite N.min_l by lia. split; [exact Hs|].
      pose proof (take_level_head l0 x single'). unfold witem, wpair in *. lia.
    - inversion Pb as [|? ? Hp _]; subst. unfold pklev in Hp. cbn [fst] in Hp.
      inversion Sb as [|? ? Hs _]; subst. cbn [fst] in Hs.
      destruct (N.min_spec l0 l1) as [(Hc & ->)|(Hc & ->)].
      + split; [exact Hs|]. pose proof (take_level_head l0 x single'). unfold witem, wpair in *. lia.
      + split; [exact Hp|]. pose proof (take_level_pairs_head l1 px py pairs'). unfold witem, wpair in *. lia. }
  clearbody lev. unfold eff_step.
  destruct (take_level lev single) as [now single1] eqn:Et.
  destruct (take_level_pairs lev pairs) as [nowp pairs1] eqn:Etp. cbn [fst] in Hpop.
  apply take_level_eq in Et. apply take_level_pairs_eq in Etp.
  assert (length single = length now + length single1)%nat as L1
    by (rewrite Et, app_length, map_length; reflexivity).
  assert (length pairs = length nowp + length pairs1)%nat as L2
    by (rewrite Etp, app_length, map_length; reflexivity).
  rewrite Et in Sb. rewrite Etp in Pb.
  apply Forall_app in Sb as (_ & Sb1). apply Forall_app in Pb as (_ & Pb1).
  assert (Sb2 : sbelow (bnd + 1) single1) by (eapply sbelow_weaken; [|exact Sb1]; lia).
  assert (Pb2 : pbelow (bnd + 1) pairs1) by (eapply pbelow_weaken; [|exact Pb1]; lia).
  destruct b.
  - eapply returns_bind; [apply pair_up_len|]. cbv beta. intros st H1.
    eapply returns_bind; [apply xaig_level_len|]. cbv beta. intros lv H2. apply returns_ret. cbn [fst snd].
    split; [|split].
    + apply add_singles_Forall; [apply Forall_forall; intros y _; cbn [fst]; lia|exact Sb2].
    + apply add_pairs_Forall; [apply Forall_forall; intros y _; unfold pklev; cbn [fst]; lia|exact Pb2].
    + rewrite add_singles_len, add_pairs_len, !rev_length. rewrite !rev_length in H1.
      unfold witem, wpair in *. lia.
  - eapply returns_bind; [apply solo_level_post|]. cbv beta. intros st (cs & Ecs & Lcs). apply returns_ret.
    cbn [fst snd]. split; [|split].
    + rewrite Ecs. apply add_singles_Forall; [apply Forall_forall; intros y _; cbn [fst]; lia|exact Sb2].
    + exact Pb2.
    + rewrite Ecs, add_singles_len. unfold witem, wpair in *. lia.
Qed.

Lemma eff_lev_lt inf bnd single pairs : (single, pairs) <> ([], []) -> (bnd <= inf)%N ->
  sbelow bnd single -> pbelow bnd pairs -> (eff_lev inf single pairs < bnd)%N.
Proof.
  intros Hne Hbi Sb Pb. unfold eff_lev.
  destruct single as [|[l0 x] single']; destruct pairs as [|[[l1 px] py] pairs']; cbn [head_level fst].
  - congruence.
  - inversion Pb as [|? ? Hp _]; subst. unfold pklev in Hp. cbn [fst] in Hp. lia.
  - inversion Sb as [|? ? Hs _]; subst. cbn [fst] in Hs. lia.
  - inversion Sb as [|? ? Hs _]; subst. cbn [fst] in Hs. lia.
Qed.

Lemma list_eq_nil_dec {A B} (a : list A) (b : list B) : (a = [] /\ b = []) \/ (a, b) <> ([], []).
Proof. destruct a; [destruct b; [left; split; reflexivity|right; congruence]|right; congruence]. Qed.

(* ---- the loop over the levels ----------------------------------------------------------------------------------- *)
Section Eff.
  Variable fr : N -> label.
  Variable b : gen_basis.
  Variable inf : N.
  Notation stt := (list (Z * label) * list (Z * label * label) * list (Z * label))%type.

  Lemma py_len_eff_cond single pairs : (single, pairs) <> ([], []) ->
    (py_len (toZ single ++ [sen inf]) >? 1) || (py_len (toZ3 pairs ++ [sen3 inf]) >? 1) = true.
  Proof.
    intros H. destruct single as [|y single]; [destruct pairs as [|p pairs]; [congruence|]|].
    - rewrite py_len_pairs_gt1. apply orb_true_r.
    - rewrite py_len_single_gt1. reflexivity.
  Qed.

  Lemma while_eff (cond : stt -> prog bool) body :
    (forall sg pr res, cond (sg, pr, res) = Ret ((py_len sg >? 1) || (py_len pr >? 1))) ->
    (forall single pairs res B (K : lctl stt -> prog B) s, (single, pairs) <> ([], []) ->
        (eff_lev inf single pairs + 1 < inf)%N ->
        run fr (Bind (body (toZ single ++ [sen inf], toZ3 pairs ++ [sen3 inf], res)) K) s
      = run fr (Bind (eff_step b (eff_lev inf single pairs) single pairs)
                     (fun t => K (LNext (toZ (snd (fst t)) ++ [sen inf], toZ3 (snd t) ++ [sen3 inf],
                                         res ++ [(Z.of_N (eff_lev inf single pairs), fst (fst t))])))) s) ->
    forall f single pairs bnd res B (K : stt -> prog B) s,
      sbelow bnd single -> pbelow bnd pairs ->
      (bnd + N.of_nat (length single + 2 * length pairs) <= inf)%N ->
        run fr (Bind (py_while_c f cond body (toZ single ++ [sen inf], toZ3 pairs ++ [sen3 inf], res)) K) s
      = run fr (Bind (eff_loop f inf b single pairs) (fun rs => K ([sen inf], [sen3 inf], res ++ toZ rs))) s.
  Proof.
    intros Hc Hb.
    assert (Hnil : forall f res B (K : stt -> prog B) s,
        run fr (Bind (py_while_c f cond body (toZ [] ++ [sen inf], toZ3 [] ++ [sen3 inf], res)) K) s
      = run fr (Bind (eff_loop f inf b [] []) (fun rs => K ([sen inf], [sen3 inf], res ++ toZ rs))) s).
    { intros f res B K s. rewrite py_while_c_unfold, run_assoc, Hc, run_ret_l.
      change ((py_len (toZ [] ++ [sen inf]) >? 1) || (py_len (toZ3 [] ++ [sen3 inf]) >? 1)) with false. cbv iota.
      rewrite eff_loop_nil, !run_ret_l. cbn [toZ toZ3 map app]. rewrite app_nil_r. reflexivity. }
    induction f as [|f IH]; intros single pairs bnd res B K s Sb Pb Li.
    - destruct (list_eq_nil_dec single pairs) as [[-> ->]|Hne]; [apply Hnil|].
      rewrite py_while_c_unfold, run_assoc, Hc, run_ret_l, py_len_eff_cond by exact Hne. cbv iota.
      rewrite eff_loop_0 by exact Hne. reflexivity.
    - destruct (list_eq_nil_dec single pairs) as [[-> ->]|Hne]; [apply Hnil|].
      rewrite py_while_c_unfold, run_assoc, Hc, run_ret_l, py_len_eff_cond by exact Hne. cbv iota.
      assert (Hbi : (bnd <= inf)%N) by lia.
      pose proof (eff_lev_lt inf bnd single pairs Hne Hbi Sb Pb) as Hlt.
      assert (1 <= length single + 2 * length pairs)%nat as Lpos.
      { destruct single; [destruct pairs; [congruence|]|]; cbn [length]; lia. }
      rewrite run_assoc, Hb by (try exact Hne; lia).
      rewrite eff_loop_S by exact Hne. cbv zeta.
      destruct (N.leb_spec inf (eff_lev inf single pairs)) as [Hle|_]; [lia|].
      apply run_bind_post with (1 := eff_step_post b inf bnd single pairs Hne Hbi Sb Pb).
      intros t s' (Sb' & Pb' & Lt).
      rewrite (IH (snd (fst t)) (snd t) (bnd + 1)%N) by (try assumption; lia).
      apply run_bind_cong. intros rs s2. rewrite toZ_cons, <- app_assoc. reflexivity.
  Qed.
End Eff.

(* ---- the heads of the work lists -------------------------------------------------------------------------------- *)
Definition hd_lab (single : list witem) : label :=
  match single with [] => "inf_label"%string | y :: _ => snd y end.
Definition hd_x (pairs : list wpair) : label :=
  match pairs with [] => "inf_label"%string | y :: _ => snd (fst y) end.
Definition hd_y (pairs : list wpair) : label :=
  match pairs with [] => "inf_label"%string | y :: _ => snd y end.

Lemma py_nth_hd_single inf single :
  py_nth (toZ single ++ [sen inf]) 0 = Ret (Z.of_N (head_level inf fst single), hd_lab single).
Proof. destruct single; reflexivity. Qed.
Lemma py_nth_hd_pairs inf pairs :
  py_nth (toZ3 pairs ++ [sen3 inf]) 0
  = Ret (Z.of_N (head_level inf (fun p : wpair => fst (fst p)) pairs), hd_x pairs, hd_y pairs).
Proof. destruct pairs; reflexivity. Qed.

(* for x in l: acc = g(acc, x) *)
Lemma run_foldP_pure fr {A S B} (g : S -> A -> S) l a (K : S -> prog B) s :
  run fr (Bind (foldP (fun acc x => Ret (g acc x)) l a) K) s = run fr (K (fold_left g l a)) s.
Proof.
  revert a. induction l as [|x l IH]; intros a; cbn [foldP fold_left]; [reflexivity|].
  rewrite run_assoc, run_ret_l. apply IH.
Qed.

(* the end of an XAIG level: for label in next_solo: single.add(...); for labels in next_x_xy: pairs.add(...) *)
Ltac adds_tail lev :=
  cbn [solo_loop]; norm;
  rewrite run_foldP_pure; norm; rewrite run_foldP_pure; norm; cbn [fst snd];
  replace (Z.of_N lev + 1) with (Z.of_N (lev + 1)) by lia;
  rewrite add_singles_toZ_sent, add_pairs_toZ3_sent by lia; fin.

Ltac xaig_tail fr lev :=
  lazymatch goal with
  | |- run _ (Bind (py_while _ _ _ _) _) _ = _ =>
    rewrite (while_solo3 fr add_sum3);
    [ apply (solo3_then fr add_sum3 add_sum2); [ intros; sx; adds_tail lev | intros; sx; adds_tail lev ]
    | intros; reflexivity
    | intros; cbv beta iota; sx
    | rewrite rev_length; cbn [length]; lia ]
  | |- _ => adds_tail lev
  end.

Theorem gen_add_sum_n_weighted_bits_eq inp basis :
  peq (gen_add_sum_n_weighted_bits (toZ inp) basis)
      (bdo r <- add_sum_n_weighted_bits basis inp; Ret (toZ r)).
Proof.
  intros fr s. unfold gen_add_sum_n_weighted_bits, add_sum_n_weighted_bits. cbv zeta.
  rewrite (run_resolve_basis fr basis). rewrite run_assoc. apply run_bind_cong. intros b s1.
  rewrite py_max_toZ. unfold w_inf.
  destruct inp as [|i0 inp0] eqn:Einp; [reflexivity|]. rewrite <- Einp.
  assert (Hne : inp <> []) by (rewrite Einp; discriminate). clear Einp i0 inp0.
  cbn [ret_res]. rewrite !run_ret_l.
  set (mx := fold_right N.max 0%N (map fst inp)).
  set (infN := (mx + N.of_nat (length inp) + 1)%N).
  replace (Z.of_N mx + py_len (toZ inp) + 1) with (Z.of_N infN)
    by (unfold py_len, infN; rewrite toZ_length; lia).
  rewrite sl_of_list_toZ.
  change (Z.of_N infN, "inf_label"%string) with (sen infN).
  change (sl_add ltZ3 (sen infN, "inf_label"%string) []) with (toZ3 [] ++ [sen3 infN]).
  assert (Sb : sbelow (mx + 1) (sl_of_list witem_ltb inp)) by (apply sl_of_list_Forall, sbelow_max).
  rewrite sl_add_sen by (eapply sbelow_weaken; [|exact Sb]; unfold infN; lia).
  rewrite toZ_length.
  assert (Li : (mx + 1 + N.of_nat (length (sl_of_list witem_ltb inp) + 2 * length (@nil wpair)) <= infN)%N)
    by (rewrite sl_of_list_len; cbn [length]; unfold infN, witem; lia).
  rewrite (while_eff fr b infN) with (bnd := (mx + 1)%N);
    [ rewrite run_assoc; reflexivity | intros; reflexivity | | exact Sb | constructor | exact Li ].
  intros single pairs res B K s0 Hne0 Hlt. set (lev := eff_lev infN single pairs) in *. cbv beta iota zeta.
  rewrite py_nth_hd_single. norm. rewrite py_nth_hd_pairs. norm.
  rewrite <- N2Z.inj_min. change (N.min (head_level infN fst single) _) with lev.
  rewrite (ZofN_eqb lev infN), (proj2 (N.eqb_neq lev infN)) by lia. norm.
  rewrite (while_take_single fr lev infN);
      [ | lia | take_cond | take_body | rewrite app_length, toZ_length; lia ].
  norm.
  rewrite (while_take_pairs fr lev infN);
      [ | lia | take_cond | take_body | rewrite app_length, toZ3_length; lia ].
  unfold eff_step.
  destruct (take_level lev single) as [now single1].
  destruct (take_level_pairs lev pairs) as [nowp pairs1].
  cbn [fst snd app]. norm.
  destruct b.
  2: { change (gen_basis_eqb AIG AIG) with true. cbv iota. norm. cbn [fst snd].
       solo_level_tac fr add_sum3_aig add_sum2_aig lev infN (toZ3 pairs1 ++ [sen3 infN]) res K. }
  change (gen_basis_eqb XAIG AIG) with false. cbv iota. norm. cbn [fst snd].
  assert (En : now = rev (rev now)) by (symmetry; apply rev_involutive).
  set (nowr := rev now) in *. clearbody nowr. subst now.
  rewrite (while_pair_up fr);
    [ | intros; reflexivity | intros; cbv beta iota; sx | rewrite rev_length; lia ].
  apply run_bind_cong. intros [solo xxy] s2. cbn [fst snd]. norm.
  rewrite (while_mdfa fr);
    [ | intros; reflexivity | intros; cbv beta iota; sx | intros; cbv beta iota; sx | rewrite rev_length; lia ].
  unfold xaig_level. norm. apply run_bind_cong. intros [[xxy1 solo1] nxx] s3. cbn [fst snd]. norm.
  destruct xxy1 as [|[x xy] [|p2 xxy']], solo1 as [|z solo']; cbn [last_pair]; sx.
  all: rewrite ?rev_push; cbn [fst snd].
  all: xaig_tail fr lev.
Qed.
