(* Lemmas about the association-list dictionaries of Base.v *)
Require Import Cirbo.Model.Base.

Section DictFacts.
  Context {V : Type}.
  Implicit Types (d : dict V) (k : label) (v : V).

  Lemma dget_dset_same d k v : dget (dset d k v) k = Some v.
  Proof.
    induction d as [|[k' v'] d IH]; simpl.
    - rewrite leqb_refl; reflexivity.
    - destruct (leqb k k') eqn:E; simpl; rewrite ?E; [reflexivity|exact IH].
  Qed.

  Lemma dget_dset_other d k k' v : k' <> k -> dget (dset d k v) k' = dget d k'.
  Proof.
    intros Hne; induction d as [|[k2 v2] d IH]; simpl.
    - apply leqb_neq in Hne; rewrite Hne; reflexivity.
    - destruct (leqb k k2) eqn:E; simpl.
      + apply leqb_eq in E; subst k2. apply leqb_neq in Hne; rewrite Hne; reflexivity.
      + rewrite IH; reflexivity.
  Qed.

  Lemma dget_dset d k k' v :
    dget (dset d k v) k' = if leqb k' k then Some v else dget d k'.
  Proof.
    destruct (leqb_spec k' k) as [->|Hne]; [apply dget_dset_same|apply dget_dset_other; exact Hne].
  Qed.

  Lemma dmem_dset d k k' v : dmem (dset d k v) k' = leqb k' k || dmem d k'.
  Proof. unfold dmem; rewrite dget_dset; destruct (leqb k' k); reflexivity. Qed.

  Lemma dget_In d k v : dget d k = Some v -> In (k, v) d.
  Proof.
    induction d as [|[k' v'] d IH]; simpl; [discriminate|].
    destruct (leqb_spec k k') as [->|Hne]; [intros [= ->]; left; reflexivity|right; auto].
  Qed.

  Lemma dget_In_keys d k v : dget d k = Some v -> In k (dkeys d).
  Proof. intros H; apply dget_In in H. apply (in_map fst) in H; exact H. Qed.

  Lemma dget_None_keys d k : dget d k = None <-> ~ In k (dkeys d).
  Proof.
    induction d as [|[k' v'] d IH]; simpl; [tauto|].
    destruct (leqb_spec k k') as [->|Hne]; [split; [discriminate|tauto]|].
    rewrite IH; split; [intros H [E|H']; [congruence|tauto]|tauto].
  Qed.

  Lemma dmem_keys d k : dmem d k = true <-> In k (dkeys d).
  Proof.
    unfold dmem; destruct (dget d k) eqn:E.
    - split; [intros _; eapply dget_In_keys; eassumption|reflexivity].
    - split; [discriminate|]. intros H; apply dget_None_keys in E; contradiction.
  Qed.

  Lemma dget_app d d' k :
    dget (d ++ d') k = match dget d k with Some v => Some v | None => dget d' k end.
  Proof.
    induction d as [|[k' v'] d IH]; simpl; [reflexivity|].
    destruct (leqb k k'); [reflexivity|exact IH].
  Qed.

  Lemma dget_dsetdefault d k k' v :
    dget (dsetdefault d k v) k' =
    match dget d k' with Some x => Some x | None => if leqb k' k then Some v else None end.
  Proof.
    unfold dsetdefault, dmem. destruct (dget d k) eqn:E.
    - destruct (dget d k') eqn:E'; [reflexivity|].
      destruct (leqb_spec k' k) as [->|]; [congruence|reflexivity].
    - rewrite dget_app; simpl. destruct (dget d k'); reflexivity.
  Qed.

  Lemma dkeys_dset_mem d k v : dmem d k = true -> dkeys (dset d k v) = dkeys d.
  Proof.
    unfold dmem; induction d as [|[k' v'] d IH]; simpl; [discriminate|].
    destruct (leqb k k') eqn:E; simpl; [reflexivity|]. intros H; rewrite IH; auto.
  Qed.

  Lemma dkeys_dset_new d k v : dmem d k = false -> dkeys (dset d k v) = dkeys d ++ [k].
  Proof.
    unfold dmem; induction d as [|[k' v'] d IH]; simpl; [reflexivity|].
    destruct (leqb k k') eqn:E; simpl; [discriminate|]. intros H; rewrite IH; auto.
  Qed.

  Lemma dget_ddel_same d k : NoDup (dkeys d) -> dget (ddel d k) k = None.
  Proof.
    induction d as [|[k' v'] d IH]; simpl; [reflexivity|]. intros Hnd; inversion Hnd; subst.
    destruct (leqb_spec k k') as [->|Hne]; simpl.
    - apply dget_None_keys; assumption.
    - apply leqb_neq in Hne; rewrite Hne; auto.
  Qed.

  Lemma dget_ddel_other d k k' : k' <> k -> dget (ddel d k) k' = dget d k'.
  Proof.
    intros Hne; induction d as [|[k2 v2] d IH]; simpl; [reflexivity|].
    destruct (leqb_spec k k2) as [->|Hne2]; simpl.
    - apply leqb_neq in Hne; rewrite Hne; reflexivity.
    - rewrite IH; reflexivity.
  Qed.

  Lemma dkeys_ddel d k : dkeys (ddel d k) = remove1 k (dkeys d).
  Proof.
    induction d as [|[k' v'] d IH]; simpl; [reflexivity|].
    destruct (leqb k k'); simpl; [reflexivity|rewrite IH; reflexivity].
  Qed.
End DictFacts.

Lemma foldM_ok_inv {A S} (f : S -> A -> res S) (P : S -> Prop) l :
  (forall s x s', In x l -> P s -> f s x = Ok s' -> P s') ->
  forall s s', P s -> foldM f l s = Ok s' -> P s'.
Proof.
  induction l as [|x xs IH]; intros Hstep s s' Hs; simpl; [intros [= <-]; exact Hs|].
  destruct (f s x) as [s1|e] eqn:E; simpl; [|discriminate].
  apply IH; [intros; eapply Hstep; eauto; right; assumption|].
  eapply Hstep; eauto; left; reflexivity.
Qed.

Lemma mapM_ok_Forall2 {A B} (f : A -> res B) l r :
  mapM f l = Ok r -> Forall2 (fun x y => f x = Ok y) l r.
Proof.
  revert r; induction l as [|x xs IH]; simpl; intros r; [intros [= <-]; constructor|].
  destruct (f x) as [y|] eqn:E; simpl; [|discriminate].
  destruct (mapM f xs) as [ys|] eqn:E'; simpl; [|discriminate].
  intros [= <-]; constructor; auto.
Qed.

Lemma fold_left_inv {A S} (f : S -> A -> S) (P : S -> Prop) l :
  (forall s x, In x l -> P s -> P (f s x)) -> forall s, P s -> P (fold_left f l s).
Proof.
  induction l as [|x xs IH]; intros H s Hs; simpl; [exact Hs|].
  apply IH; [intros; apply H; [right|]; assumption|apply H; [left; reflexivity|exact Hs]].
Qed.
