(* C02: replace_subcircuit, part 1: the pieces (renaming folds, the slice, the saved users,
   the removal loop, the restoring fold). *)
Require Import Cirbo.Model.Base Cirbo.Model.Gate Cirbo.Model.Circuit Cirbo.Model.Traverse
        Cirbo.Model.Connect Cirbo.Model.WF.
Require Import Cirbo.Proofs.DictFacts Cirbo.Proofs.WFBase Cirbo.Proofs.WFSimple Cirbo.Proofs.WFEmplace
        Cirbo.Proofs.WFRemove Cirbo.Proofs.WFRename Cirbo.Proofs.WFRename2.

Lemma foldM_app {A S} (f : S -> A -> res S) l1 l2 s :
  foldM f (l1 ++ l2) s = do s' <- foldM f l1 s; foldM f l2 s'.
Proof.
  revert s; induction l1 as [|x l1 IH]; intros s; simpl; [reflexivity|].
  destruct (f s x); simpl; [apply IH|reflexivity].
Qed.

Lemma dmem_keys_eq {V W} (d1 : dict V) (d2 : dict W) x : dkeys d1 = dkeys d2 -> dmem d1 x = dmem d2 x.
Proof.
  intros E. destruct (dmem d1 x) eqn:E1, (dmem d2 x) eqn:E2; try reflexivity.
  - apply dmem_keys in E1. rewrite E in E1. apply dmem_keys in E1. congruence.
  - apply dmem_keys in E2. rewrite <- E in E2. apply dmem_keys in E2. congruence.
Qed.

Lemma dvals_app {V} (a b : dict V) : dvals (a ++ b) = dvals a ++ dvals b.
Proof. apply map_app. Qed.
Lemma dkeys_app {V} (a b : dict V) : dkeys (a ++ b) = dkeys a ++ dkeys b.
Proof. apply map_app. Qed.

Lemma count_filter (f : label -> bool) u L : count u (filter f L) = if f u then count u L else 0.
Proof.
  induction L as [|a L IH]; simpl; [destruct (f u); reflexivity|].
  destruct (f a) eqn:Ea; simpl; rewrite IH.
  - destruct (leqb_spec u a) as [Heq|Hne]; [subst a; rewrite Ea; reflexivity|]. destruct (f u); reflexivity.
  - destruct (leqb_spec u a) as [Heq|Hne]; [subst a; rewrite Ea; reflexivity|]. destruct (f u); reflexivity.
Qed.

(* ---------------- the renaming folds ---------------- *)
Lemma rename_gate_has_gate c old new c' :
  WF c -> rename_gate c old new = Ok c' ->
  forall x, has_gate c' x = negb (leqb x old) && (leqb x new || has_gate c x).
Proof.
  intros W H. apply rename_gate_inv in H.
  destruct H as (Ho & Hn & gs3 & ud3 & og & us' & H3 & Hog & Hus & E).
  assert (Hon : old <> new) by (intros ->; congruence).
  assert (Gk : dkeys gs3 = dkeys (gates c)).
  { destruct (dget (users c) old) as [us|].
    - destruct H3 as [H3 _]. apply (Fg_fold old new Hon) in H3. apply H3.
    - destruct H3 as [-> _]; reflexivity. }
  intros x. rewrite E; unfold has_gate; simpl.
  rewrite dmem_ddel by (apply NoDup_dkeys_dset; rewrite Gk; apply (wf_gkeys c W)).
  rewrite dmem_dset, (dmem_keys_eq gs3 (gates c) x Gk). reflexivity.
Qed.

Definition ren_step (c : circuit) (kv : label * label) : res circuit :=
  if leqb (fst kv) (snd kv) then Ok c else rename_gate c (fst kv) (snd kv).

Lemma ren_fold m : forall c c' P,
  WF c -> inputs_nullary c -> NoDup (dkeys m) ->
  (forall k, In k (dkeys m) -> has_gate c k = true) ->
  (forall v, In v P -> has_gate c v = true) -> NoDup P ->
  (forall v, In v P -> ~ In v (dkeys m)) ->
  foldM ren_step m c = Ok c' ->
  WF c' /\ inputs_nullary c' /\ NoDup (P ++ dvals m) /\ (forall v, In v (P ++ dvals m) -> has_gate c' v = true).
Proof.
  induction m as [|[k v] m IH]; simpl; intros c c' P W N Hk Hkeys HP HPn Hdisj H.
  - injection H as <-. rewrite app_nil_r; auto.
  - binv H c1 H1. inversion Hk as [|? ? Hkn Hk']; subst.
    assert (Hgoal : WF c1 /\ inputs_nullary c1 /\
                    (forall k', In k' (dkeys m) -> has_gate c1 k' = true) /\
                    (forall v', In v' (P ++ [v]) -> has_gate c1 v' = true) /\
                    ~ In v P /\ ~ In v (dkeys m)).
    { unfold ren_step in H1; simpl in H1. destruct (leqb_spec k v) as [Heq|Hne].
      - subst v. injection H1 as <-. split; [assumption|]. split; [assumption|].
        split; [intros k' Hin; apply Hkeys; right; exact Hin|].
        split; [intros v' Hin; apply in_app_or in Hin; destruct Hin as [Hin|[<-|[]]];
                [apply HP, Hin|apply Hkeys; left; reflexivity]|].
        split; [intros Hin; apply (Hdisj k Hin); left; reflexivity|exact Hkn].
      - pose proof (rename_gate_has_gate c k v c1 W H1) as Hh.
        pose proof H1 as H1'. apply rename_gate_inv in H1'. destruct H1' as (Hok & Hnv & _).
        split; [eapply rename_gate_wf; eassumption|]. split; [eapply rename_gate_nullary; eassumption|].
        split.
        { intros k' Hin. rewrite Hh, (Hkeys k' (or_intror Hin)).
          destruct (leqb_spec k' k) as [Heq|Hne']; [subst k'; contradiction|]. simpl; apply orb_true_r. }
        split.
        { intros v' Hin; apply in_app_or in Hin; destruct Hin as [Hin|[<-|[]]].
          - rewrite Hh, (HP v' Hin). destruct (leqb_spec v' k) as [Heq|Hne'].
            + subst v'. exfalso; apply (Hdisj k Hin); left; reflexivity.
            + simpl; apply orb_true_r.
          - rewrite Hh, leqb_refl. apply not_eq_sym, leqb_neq in Hne; rewrite Hne; reflexivity. }
        split; [intros Hin; apply HP in Hin; congruence|].
        intros Hin. rewrite (Hkeys v (or_intror Hin)) in Hnv; discriminate. }
    destruct Hgoal as (W1 & N1 & Hk1 & HP1 & HvP & Hvm).
    specialize (IH c1 c' (P ++ [v]) W1 N1 Hk' Hk1 HP1).
    rewrite <- app_assoc in IH; simpl in IH. apply IH; [| |assumption].
    + apply NoDup_count; intros x; rewrite count_app; simpl.
      pose proof (proj1 (NoDup_count _) HPn x) as Hx.
      destruct (leqb_spec x v) as [Heq|Hne]; [subst x|lia]. apply count_zero_nIn in HvP; lia.
    + intros v' Hin; apply in_app_or in Hin; destruct Hin as [Hin|[<-|[]]]; [|assumption].
      intros Hin'; apply (Hdisj v' Hin); right; exact Hin'.
Qed.

(* ---------------- the slice ---------------- *)
Lemma In_dedup x l : In x (dedup l) <-> In x l.
Proof.
  induction l as [|a l IH]; simpl; [tauto|]. destruct (memb a l) eqn:Em.
  - rewrite IH. apply memb_In in Em. split; [auto|]. intros [<-|H]; assumption.
  - simpl; rewrite IH; tauto.
Qed.

Lemma slice_loop_incl c ins fuel : forall gs q r,
  slice_loop fuel c ins gs q = Ok r -> incl gs r.
Proof.
  induction fuel as [|fuel IH]; simpl; intros gs q r H; [discriminate|].
  destruct (rev q) as [|cur rq]; [injection H as <-; apply incl_refl|].
  binv H g Hg. binv H st1 Hst. apply IH in H.
  assert (incl gs (fst st1)) as Hi.
  { revert Hst. apply (foldM_ok_inv _ (fun s : list label * list label => incl gs (fst s)));
      [|apply incl_refl].
    intros [gs1 q1] op st' _ Hs Hstep; simpl in *.
    destruct (memb op ins); [injection Hstep as <-; assumption|].
    binv Hstep og Hog. destruct (gtype_beq (gtyp og) INPUT); [discriminate|].
    destruct (memb op gs1); injection Hstep as <-; simpl; [assumption|].
    apply incl_appl; assumption. }
  eapply incl_tran; eassumption.
Qed.

Lemma make_block_from_slice_inv c name ins outs c' :
  make_block_from_slice c name ins outs = Ok c' ->
  exists gs, incl (dedup (filter (fun o => negb (memb o ins)) outs)) gs /\
    c' = set_blocks c (dset (blocks c) name (mkBlock ins (canonical_block_gates c gs) outs)).
Proof.
  unfold make_block_from_slice, make_block; intros H.
  binv H u0 H0. binv H u1 H1. binv H u2 H2. binv H gs Hgs. binv H u3 H3. binv H u4 H4. binv H u5 H5.
  binv H i Hi. binv Hi u6 H6. injection Hi as <-. injection H as <-.
  exists gs; split; [eapply slice_loop_incl; eassumption|reflexivity].
Qed.

(* ---------------- the saved users ---------------- *)
Definition save_inner (bg : list label) (o : label) (acc : dict (list label)) (u : label) :=
  if memb u bg then acc else
  match dget acc o with
  | Some l => dset acc o (l ++ [u])
  | None => dset acc o [u]
  end.

Lemma save_inner_fold bg o us : forall acc,
  NoDup (dkeys acc) ->
  NoDup (dkeys (fold_left (save_inner bg o) us acc)) /\
  forall x, lst (fold_left (save_inner bg o) us acc) x =
            if leqb x o then lst acc o ++ filter (fun u => negb (memb u bg)) us else lst acc x.
Proof.
  induction us as [|u us IH]; simpl; intros acc Hn.
  - split; [assumption|]. intros x. destruct (leqb_spec x o) as [Heq|Hne]; [subst x; rewrite app_nil_r|]; reflexivity.
  - assert (Hs : NoDup (dkeys (save_inner bg o acc u)) /\
                 forall x, lst (save_inner bg o acc u) x =
                           if leqb x o then lst acc o ++ (if memb u bg then [] else [u]) else lst acc x).
    { unfold save_inner. destruct (memb u bg).
      - split; [assumption|]. intros x; destruct (leqb_spec x o) as [Heq|Hne]; [subst x; rewrite app_nil_r|]; reflexivity.
      - destruct (dget acc o) as [l|] eqn:El; (split; [apply NoDup_dkeys_dset, Hn|]);
          intros x; unfold lst; rewrite dget_dset, El; destruct (leqb x o); reflexivity. }
    destruct Hs as [Hn1 Hl1]. destruct (IH _ Hn1) as [Hn2 Hl2]. split; [assumption|].
    intros x; rewrite Hl2, !Hl1, leqb_refl. destruct (leqb x o); [|reflexivity].
    rewrite <- app_assoc. destruct (memb u bg); reflexivity.
Qed.

Lemma saved_spec c bg : forall D acc saved,
  NoDup D -> NoDup (dkeys acc) ->
  foldM (fun (acc : dict (list label)) o =>
           do us <- get_gate_users c o; Ok (fold_left (save_inner bg o) us acc)) D acc = Ok saved ->
  NoDup (dkeys saved) /\
  forall x, lst saved x =
            lst acc x ++ (if memb x D then filter (fun u => negb (memb u bg)) (users_of c x) else []).
Proof.
  induction D as [|o D IH]; simpl; intros acc saved HD Hn H.
  - injection H as <-. split; [assumption|]. intros x; rewrite app_nil_r; reflexivity.
  - inversion HD as [|? ? HoD HD']; subst. binv H acc1 H1. binv H1 us Hus. injection H1 as <-.
    apply get_gate_users_ok in Hus. destruct Hus as [_ ->].
    destruct (save_inner_fold bg o (users_of c o) acc Hn) as [Hn1 Hl1].
    destruct (IH _ _ HD' Hn1 H) as [Hn2 Hl2]. split; [assumption|].
    intros x; rewrite Hl2, Hl1. destruct (leqb_spec x o) as [Heq|Hne].
    + subst x. apply memb_nIn in HoD; rewrite HoD, app_nil_r; reflexivity.
    + destruct (memb x D); reflexivity.
Qed.

(* ---------------- the removal loop: which gates survive ---------------- *)
Lemma remove_loop_gates R : forall c c',
  NoDup (dkeys (gates c)) ->
  foldM (fun c g => do _ <- get_gate c g; remove_gate_raw c g) R c = Ok c' ->
  forall x, dget (gates c') x = if memb x R then None else dget (gates c) x.
Proof.
  induction R as [|g R IH]; simpl; intros c c' Nd H x; [injection H as <-; reflexivity|].
  binv H c1 H1. binv H1 g0 Hg0. apply remove_gate_raw_inv in H1. destruct H1 as (gg & Hgg & Eg & _).
  rewrite (IH c1 c') by (rewrite ?Eg; try apply NoDup_dkeys_ddel; assumption).
  rewrite Eg, dget_ddel by assumption. rewrite (leqb_sym x g).
  destruct (leqb g x); [destruct (memb x R); reflexivity|reflexivity].
Qed.

(* ---------------- the restoring fold ---------------- *)
Definition restore_step (c : circuit) (kv : label * list label) : circuit :=
  match dget (users c) (fst kv) with
  | None => set_users c (dset (users c) (fst kv) (snd kv))
  | Some l => set_users c (dset (users c) (fst kv) (l ++ snd kv))
  end.

Lemma restore_fold saved : forall c,
  NoDup (dkeys saved) -> NoDup (dkeys (users c)) ->
  let c' := fold_left restore_step saved c in
  gates c' = gates c /\ inputs c' = inputs c /\ outputs c' = outputs c /\ blocks c' = blocks c /\
  NoDup (dkeys (users c')) /\ forall x, users_of c' x = users_of c x ++ lst saved x.
Proof.
  induction saved as [|[k v] saved IH]; simpl; intros c Hs Hu.
  - repeat split; try assumption. intros x; rewrite app_nil_r; reflexivity.
  - inversion Hs as [|? ? Hk Hs']; subst.
    set (c1 := restore_step c (k, v)).
    assert (F1 : gates c1 = gates c /\ inputs c1 = inputs c /\ outputs c1 = outputs c /\
                 blocks c1 = blocks c /\ NoDup (dkeys (users c1)) /\
                 forall x, users_of c1 x = if leqb x k then users_of c k ++ v else users_of c x).
    { unfold c1, restore_step; simpl. unfold users_of. destruct (dget (users c) k) as [l|] eqn:El; simpl;
        (repeat split; [apply NoDup_dkeys_dset, Hu|]); intros x; rewrite dget_dset;
        destruct (leqb x k); reflexivity. }
    destruct F1 as (G1 & I1 & O1 & B1 & N1 & U1).
    destruct (IH c1 Hs' N1) as (G2 & I2 & O2 & B2 & N2 & U2).
    repeat split; try congruence. intros x; rewrite U2, U1. unfold lst at 2; simpl.
    destruct (leqb_spec x k) as [Heq|Hne]; [|reflexivity]. subst x.
    assert (lst saved k = []) as ->; [|rewrite app_nil_r; reflexivity].
    unfold lst. apply dget_None_keys in Hk. rewrite Hk; reflexivity.
Qed.

(* ---------------- the re-insertion loop: which gates exist afterwards ---------------- *)
Lemma reinsert_has sub skip order : forall c c',
  foldM (fun c l => if memb l skip then Ok c else
                    do g <- get_gate sub l; add_gate c l (gtyp g) (gops g)) order c = Ok c' ->
  (forall x, has_gate c x = true -> has_gate c' x = true) /\
  (forall l, In l order -> ~ In l skip -> has_gate c' l = true).
Proof.
  induction order as [|l order IH]; simpl; intros c c' H.
  - injection H as <-. split; [auto|intros ? []].
  - binv H c1 H1. destruct (IH _ _ H) as [Hmono Hall].
    assert (Hc1 : (forall x, has_gate c x = true -> has_gate c1 x = true) /\
                  (~ In l skip -> has_gate c1 l = true)).
    { destruct (memb l skip) eqn:Em.
      - injection H1 as <-. split; [auto|]. apply memb_In in Em. intros Hn; contradiction.
      - binv H1 g Hg. unfold add_gate in H1. apply emplace_gate_inv in H1. destruct H1 as (_ & _ & ->).
        split; intros; rewrite emplace_raw_has_gate; [rewrite H0; apply orb_true_r|rewrite leqb_refl; reflexivity]. }
    destruct Hc1 as [Hm1 Hl1]. split; [auto|].
    intros x [<-|Hin] Hs; [apply Hmono, Hl1, Hs|apply Hall; assumption].
Qed.
