(* T25: `no_undefined c` holds for EVERY circuit (no well-formedness needed): the evaluators of the model never
   return an Undefined for a Boolean input vector that is long enough.  (Python: the operators map Booleans to
   Booleans; an Undefined can only enter through an input that is given as Undefined or not given at all.)
   Invariant of the stack evaluator: every value stored so far is defined; every label that was on the stack is
   stored when the loop returns. *)
Require Import Cirbo.Model.Base Cirbo.Model.Gate Cirbo.Model.Circuit Cirbo.Model.Traverse Cirbo.Model.Eval.
Require Import Cirbo.Proofs.DictFacts Cirbo.Proofs.OpFacts Cirbo.Proofs.SemFacts Cirbo.Proofs.EvalFacts
        Cirbo.Proofs.SemEvaluate.

Definition alldef (d : assignment) : Prop := forall l v, dget d l = Some v -> v <> U.

Lemma lookup_vals_def d ops vs : alldef d -> lookup_vals d ops = Ok vs -> Forall (fun v => v <> U) vs.
Proof.
  intros Hd. unfold lookup_vals. revert vs. induction ops as [|o ops IH]; intros vs H; simpl in H.
  - injection H as <-. constructor.
  - destruct (dget d o) as [v|] eqn:E; simpl in H; [|discriminate].
    destruct (mapM _ ops) as [r|] eqn:Er; simpl in H; [|discriminate]. injection H as <-.
    constructor; [exact (Hd o v E)|]. apply IH. reflexivity.
Qed.

Lemma eval_gate_def d g v : alldef d -> eval_gate d g = Ok v -> v <> U.
Proof.
  intros Hd H. unfold eval_gate in H. destruct (gtype_beq (gtyp g) INPUT); [discriminate|].
  destruct (lookup_vals d (gops g)) as [vs|] eqn:E; simpl in H; [|discriminate].
  destruct (all_defined_inj _ (lookup_vals_def d _ vs Hd E)) as (bs & ->).
  destruct (operator_of_total _ _ _ H) as (b & -> & _). destruct b; discriminate.
Qed.

Lemma alldef_dset d l v : alldef d -> v <> U -> alldef (dset d l v).
Proof.
  intros Hd Hv l' v' H. rewrite dget_dset in H. destruct (leqb l' l); [injection H as <-; exact Hv|exact (Hd l' v' H)].
Qed.

Lemma eval_stack_loop_def c : forall fuel d stack d',
  alldef d -> eval_stack_loop fuel c d stack = Ok d' ->
  alldef d' /\ (forall l, dmem d l = true -> dmem d' l = true) /\ (forall l, In l stack -> dmem d' l = true).
Proof.
  induction fuel as [|fuel IH]; intros d stack d' Hd H; simpl in H; [discriminate|].
  destruct (pop_last stack) as [[cur rest]|] eqn:Ep.
  - apply pop_last_In in Ep. subst stack.
    destruct (get_gate c cur) as [g|] eqn:Eg; simpl in H; [|discriminate].
    destruct (filter (fun op => negb (dmem d op)) (gops g)) as [|p ps] eqn:Ef.
    + destruct (eval_gate d g) as [v|] eqn:Ev; simpl in H; [|discriminate].
      destruct (IH _ _ _ (alldef_dset d cur v Hd (eval_gate_def d g v Hd Ev)) H) as (H1 & H2 & H3).
      split; [exact H1|]. split.
      * intros l Hl. apply H2. rewrite dmem_dset, Hl. apply orb_true_r.
      * intros l Hl. apply in_app_or in Hl. destruct Hl as [Hl|[<-|[]]]; [apply H3, Hl|].
        apply H2. rewrite dmem_dset, leqb_refl. reflexivity.
    + destruct (IH _ _ _ Hd H) as (H1 & H2 & H3). split; [exact H1|]. split; [exact H2|].
      intros l Hl. apply H3. apply in_or_app. left. exact Hl.
  - cbv beta iota in H. injection H as <-. split; [exact Hd|]. split; [auto|].
    intros l Hl. exfalso. unfold pop_last in Ep. destruct (rev stack) as [|y ys] eqn:Er; [|discriminate].
    assert (stack = []) by (rewrite <- (rev_involutive stack), Er; reflexivity). subst stack. destruct Hl.
Qed.

(* the dict of a Boolean vector, completed by init_assignment: all inputs present, everything defined *)
Lemma init_def c (x : list bool) a : length (inputs c) <= length x ->
  zip_inputs (inputs c) (map inj x) [] = Ok a ->
  alldef (init_assignment c a) /\ forall l, In l (inputs c) -> dmem (init_assignment c a) l = true.
Proof.
  intros Hlen Ha.
  assert (Hdef : alldef a).
  { intros l v Hl. apply (zip_inputs_vals (fun v => v <> U) _ _ _ _ Ha) with (l := l); [| |exact Hl].
    - apply Forall_forall. intros y Hy. apply in_map_iff in Hy. destruct Hy as (b & <- & _). destruct b; discriminate.
    - intros ? ? [=]. }
  assert (Hkeys : forall l, In l (inputs c) -> dmem a l = true).
  { intros l Hl. apply (zip_inputs_keys _ _ _ _ Ha). left. exact Hl. }
  unfold init_assignment. split.
  - intros l v H. rewrite setdefaults_get in H. destruct (dget a l) as [w|] eqn:E.
    + injection H as <-. exact (Hdef l w E).
    + destruct (memb l (inputs c)) eqn:M; [|discriminate]. apply memb_In in M. apply Hkeys in M.
      unfold dmem in M. rewrite E in M. discriminate.
  - intros l Hl. unfold dmem. rewrite setdefaults_get. specialize (Hkeys l Hl). unfold dmem in Hkeys.
    destruct (dget a l); [reflexivity|discriminate].
Qed.

Lemma evaluate_circuit_def c (x : list bool) a outs d fuel : length (inputs c) <= length x ->
  zip_inputs (inputs c) (map inj x) [] = Ok a ->
  evaluate_circuit_fuel fuel c a outs = Ok d ->
  forall o, In o (match outs with Some o => o | None => outputs c end) -> exists v, dget d o = Some v /\ v <> U.
Proof.
  intros Hlen Ha H o Ho. unfold evaluate_circuit_fuel in H.
  set (outs' := match outs with Some o => o | None => outputs c end) in *.
  destruct (init_def c x a Hlen Ha) as [Hd0 Hk0].
  destruct (eval_stack_loop fuel c (init_assignment c a) (filter (fun o => negb (memb o (inputs c))) outs'))
    as [d1|] eqn:El; simpl in H; [|discriminate]. injection H as <-.
  destruct (eval_stack_loop_def c _ _ _ _ Hd0 El) as (H1 & H2 & H3).
  assert (Hm : dmem d1 o = true).
  { destruct (memb o (inputs c)) eqn:M.
    - apply H2, Hk0, memb_In, M.
    - apply H3. apply filter_In. split; [exact Ho|]. rewrite M. reflexivity. }
  rewrite (setdefaults_mem _ d1 o Hm). unfold dmem in Hm. destruct (dget d1 o) as [v|] eqn:E; [|discriminate].
  exists v. split; [reflexivity|exact (H1 o v E)].
Qed.

Lemma zip_inputs_err_short : forall (ins : list label) (vals : list st) acc a,
  zip_inputs ins vals acc = Ok a -> length ins <= length vals.
Proof.
  induction ins as [|i ins IH]; intros vals acc a H; simpl in *; [lia|].
  destruct vals as [|v vals]; [discriminate|]. simpl. apply IH in H. lia.
Qed.

Theorem evaluate_no_undefined c (x : list bool) vs : evaluate c (map inj x) = Ok vs -> ~ In U vs.
Proof.
  intros H. unfold evaluate in H.
  destruct (zip_inputs (inputs c) (map inj x) []) as [a|] eqn:Ea; simpl in H; [|discriminate].
  assert (Hlen : length (inputs c) <= length x).
  { apply zip_inputs_err_short in Ea. rewrite map_length in Ea. exact Ea. }
  destruct (evaluate_circuit_outputs c a) as [ans|] eqn:Eo; simpl in H; [|discriminate].
  unfold evaluate_circuit_outputs in Eo.
  destruct (evaluate_circuit c a None) as [d|] eqn:Ed; simpl in Eo; [|discriminate].
  pose proof (outputs_dict_get d (outputs c) [] ans Eo) as Hget.
  pose proof (evaluate_circuit_def c x a None d _ Hlen Ea Ed) as Hdef. cbv beta iota in Hdef.
  intros Hin.
  assert (Hall : forall os, (forall o, In o os -> In o (outputs c)) ->
            mapM (fun o => match dget ans o with Some v => Ok v | None => Err PyKeyError end) os = Ok vs -> False).
  { clear H. revert Hin. induction vs as [|v vs IHv]; intros Hin os Hos Hm; [destruct Hin|].
    destruct os as [|o os]; simpl in Hm; [discriminate|].
    destruct (dget ans o) as [w|] eqn:Ew; simpl in Hm; [|discriminate].
    destruct (mapM _ os) as [r|] eqn:Er; simpl in Hm; [|discriminate]. injection Hm as -> ->.
    destruct Hin as [->|Hin].
    - rewrite Hget in Ew. rewrite (proj2 (memb_In _ _) (Hos o (or_introl eq_refl))) in Ew.
      destruct (Hdef o (Hos o (or_introl eq_refl))) as (v' & Hv' & Hne). rewrite Hv' in Ew. injection Ew as ->.
      apply Hne. reflexivity.
    - apply (IHv Hin os); [intros o' Ho'; apply Hos; right; exact Ho'|exact Er]. }
  exact (Hall (outputs c) (fun o Ho => Ho) H).
Qed.

Theorem evaluate_at_no_undefined c (x : list bool) j : evaluate_at c (map inj x) j <> Ok U.
Proof.
  intros H. unfold evaluate_at in H.
  destruct (zip_inputs (inputs c) (map inj x) []) as [a|] eqn:Ea; simpl in H; [|discriminate].
  assert (Hlen : length (inputs c) <= length x).
  { apply zip_inputs_err_short in Ea. rewrite map_length in Ea. exact Ea. }
  destruct (output_at_index c j) as [o|]; simpl in H; [|discriminate].
  destruct (evaluate_circuit c a (Some [o])) as [d|] eqn:Ed; simpl in H; [|discriminate].
  destruct (evaluate_circuit_def c x a (Some [o]) d _ Hlen Ea Ed o (or_introl eq_refl)) as (v & Hv & Hne).
  rewrite Hv in H. injection H as ->. apply Hne. reflexivity.
Qed.
