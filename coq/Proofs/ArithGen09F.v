(* Generated/ArithGen09.v (translator T14) equals the hand model, part F: add_sqrt of sqrt.py. *)
Require Import Cirbo.Model.Base Cirbo.Model.Gate Cirbo.Model.Circuit Cirbo.Model.Builder Cirbo.Model.PyPrims.
Require Import Cirbo.Generated.ArithTables Cirbo.Generated.ArithCells Cirbo.Generated.ArithGen09.
Require Import Cirbo.Model.ArithSub Cirbo.Model.ArithSum2 Cirbo.Model.ArithSqrt.
Require Import Cirbo.Proofs.ArithGen09Lib Cirbo.Proofs.ArithGen09A Cirbo.Proofs.ArithGen09B Cirbo.Proofs.ArithGen09E.
From Coq Require Import ZArith Lia Ascii.
Open Scope Z_scope.

(* ---- the select loop: for i in range(2 * st, n): v[i] = OR(LT(per, alt[i - 2 * st]), AND(v[i], per)) --------- *)
Definition sel_cell (per : label) (alt : list label) (h : label) (j : nat) : prog label :=
  bdo s <- nthP alt j;
  bdo t1 <- gate_tt tt_lt per s;
  bdo t2 <- gate_tt tt_and h per;
  gate_tt tt_or t1 t2.

Lemma sel_fold_gen (G : list label -> Z -> prog (list label)) (per : label) (alt : list label) (k n : nat) :
  (forall v i, (k <= i < n)%nat -> length v = n ->
     peq (G v (Z.of_nat i))
         (bdo g <- sel_cell per alt (nth i v ""%string) (i - k); Ret (upd v i g))) ->
  forall cnt i v, (k <= i)%nat -> (i + cnt = n)%nat -> length v = n ->
  peq (foldP G (map Z.of_nat (seq i cnt)) v)
      (bdo hi <- sel_loop per (skipn (i - k) alt) (skipn i v); Ret (firstn i v ++ hi)).
Proof.
  intros HG. induction cnt as [|cnt IH]; intros i v Hk Hi Hl fresh s.
  - rewrite (skipn_all2 (n:=i) v) by lia. cbn [seq map foldP sel_loop]. rs.
    rewrite firstn_all2, app_nil_r by lia. reflexivity.
  - rewrite (skipn_nth v i ""%string) by lia.
    cbn [seq map foldP sel_loop]. rs. rewrite HG by lia. unfold sel_cell. rs.
    rewrite nthP_skipn0. step. step. step. step.
    rewrite IH by (rewrite ?upd_length; lia). rs. rewrite tl_skipn.
    replace (S i - k)%nat with (S (i - k)) by lia.
    rewrite skipn_upd_lt by lia. step.
    rewrite firstn_S_upd by lia. rewrite <- app_assoc. reflexivity.
Qed.

Lemma sel_loop_length per : forall hi alt,
  returns (sel_loop per alt hi) (fun r => length r = length hi).
Proof.
  induction hi as [|h hi IH]; intros alt fresh s r s'; cbn [sel_loop]; rs.
  - intros H; inversion H; reflexivity.
  - destruct (run fresh (nthP alt 0) s) as [[x s0]|e]; rs; [|discriminate].
    destruct (run fresh (gate_tt tt_lt per x) s0) as [[t1 s1]|e]; rs; [|discriminate].
    destruct (run fresh (gate_tt tt_and h per) s1) as [[t2 s2]|e]; rs; [|discriminate].
    destruct (run fresh (gate_tt tt_or t1 t2) s2) as [[g s3]|e]; rs; [|discriminate].
    destruct (run fresh (sel_loop per (tl alt) hi) s3) as [[rest s4]|e] eqn:E; rs; [|discriminate].
    intros H; inversion H; subst. cbn [length]. f_equal. eapply IH; eauto.
Qed.

Lemma sqrt_stage_lengths ZERO UNO st x c : (2 * st <= length x)%nat -> (2 * st <= length c)%nat ->
  (1 <= length c)%nat ->
  returns (sqrt_stage ZERO UNO st (x, c)) (fun r => length (fst r) = length x /\ length (snd r) = length c).
Proof.
  intros Hx Hc Hc1 fresh s r s'. unfold sqrt_stage. rs.
  destruct (run fresh (add_sum_two_numbers (skipn (2 * st) c) [UNO] false) s) as [[sm0 s1]|e]; rs; [|discriminate].
  destruct (run fresh (add_subtract_with_compare (skipn (2 * st) x) (removelast sm0) false) s1) as [[sp s2]|e]; rs; [|discriminate].
  destruct (run fresh (sel_loop (snd sp) (fst sp) (skipn (2 * st) x)) s2) as [[xhi s3]|e] eqn:E1; rs; [|discriminate].
  destruct (run fresh (add_sum_two_numbers (skipn (2 * st) (tl c ++ [ZERO])) [UNO] false) s3) as [[sm1 s4]|e]; rs; [|discriminate].
  destruct (run fresh (sel_loop (snd sp) (removelast sm1) (skipn (2 * st) (tl c ++ [ZERO]))) s4) as [[chi s5]|e] eqn:E2; rs; [|discriminate].
  intros H; inversion H; subst. cbn [fst snd].
  apply sel_loop_length in E1, E2.
  assert (Lt : length (tl c ++ [ZERO]) = length c).
  { rewrite app_length. destruct c; cbn [length tl] in *; lia. }
  rewrite !app_length, !firstn_length, E1, E2, !skipn_length, Lt. lia.
Qed.

Lemma sqrt_fold_gen (F : list label * list label -> Z -> prog (list label * list label)) ZERO UNO half n :
  (2 * half <= n)%nat -> (1 <= n)%nat ->
  (forall x c st, (st < half)%nat -> length x = n -> length c = n ->
     peq (F (x, c) (Z.of_nat st)) (sqrt_stage ZERO UNO st (x, c))) ->
  forall h x c, (h <= half)%nat -> length x = n -> length c = n ->
  peq (foldP F (map Z.of_nat (rev (seq 0 h))) (x, c)) (sqrt_loop ZERO UNO h (x, c)).
Proof.
  intros Hh Hn HF. induction h as [|h IH]; intros x c Hle Hx Hc fresh s.
  - reflexivity.
  - rewrite seq_S, rev_app_distr. cbn [rev app map foldP sqrt_loop Nat.add]. rs.
    rewrite HF by lia.
    destruct (run fresh (sqrt_stage ZERO UNO h (x, c)) s) as [[[x' c'] s1]|e] eqn:E; rs; [|reflexivity].
    apply sqrt_stage_lengths in E; try lia. cbn [fst snd] in E.
    apply IH; lia.
Qed.

Lemma map_const_repeat {A B} (z : B) (l : list A) : map (fun _ => z) l = repeat z (length l).
Proof. induction l as [|x l IH]; [reflexivity|]. cbn [map length repeat]. rewrite IH. reflexivity. Qed.

Lemma skipn_1_tl {A} (l : list A) : skipn 1 l = tl l.
Proof. destruct l; reflexivity. Qed.

Lemma py_slice_from_1 {A} (l : list A) : py_slice l (Some 1) None = tl l.
Proof. rewrite <- skipn_1_tl. exact (py_slice_from l 1). Qed.

Ltac tt_names_sqrt :=
  change (TT false true true false) with tt_xor in *;
  change (TT true false false true) with tt_nxor in *;
  change (TT false true false false) with tt_lt in *;
  change (TT false false false true) with tt_and in *;
  change (TT false true true true) with tt_or in *.

Lemma odd_mod2 n : (Z.of_nat n mod 2 =? 1) = Nat.odd n.
Proof.
  change 2 with (Z.of_nat 2). rewrite <- (Nat2Z.inj_mod n 2). change 1 with (Z.of_nat 1).
  destruct (Nat.odd n) eqn:E.
  - apply Z.eqb_eq. f_equal. apply Nat.odd_spec in E. destruct E as [k ->].
    rewrite Nat.add_comm, Nat.mul_comm, Nat.mod_add by lia. reflexivity.
  - apply Z.eqb_neq. intros H. apply Nat2Z.inj in H.
    assert (Ev : Nat.even n = true) by (rewrite <- Nat.negb_odd, E; reflexivity).
    apply Nat.even_spec in Ev. destruct Ev as [k ->].
    rewrite Nat.mul_comm, Nat.mod_mul in H by lia. discriminate.
Qed.

Theorem gen_add_sqrt_eq inp be : peq (gen_add_sqrt inp be) (add_sqrt inp be).
Proof.
  unfold gen_add_sqrt, add_sqrt. intros fresh s. cbv zeta. tt_names_sqrt.
  rewrite run_bind, run_if_rev1. cbv beta iota.
  set (x := rev_if be inp).
  assert (Lx : length x = length inp) by apply rev_if_length.
  rewrite !py_nth_0. destruct x as [|x0 x'] eqn:Ex; [reflexivity|].
  cbn [nthP nth_res nth_error ret_res]. rs. step. rename l into ZERO. step. rename l into UNO.
  unfold py_len. rewrite odd_mod2.
  set (n0 := length inp) in *.
  set (odd := Nat.odd n0).
  set (half1 := if odd then S (n0 / 2) else (n0 / 2)%nat).
  set (n1 := if odd then S n0 else n0).
  set (x1 := if odd then (x0 :: x') ++ [ZERO] else x0 :: x').
  assert (Ej : forall st, run fresh (if odd then Ret (Z.of_nat n0 / 2 + 1, Z.of_nat n0 + 1, (x0 :: x') ++ [ZERO])
                                    else Ret (Z.of_nat n0 / 2, Z.of_nat n0, x0 :: x')) st
                          = Ok ((Z.of_nat half1, Z.of_nat n1, x1), st)).
  { intros st. change 2 with (Z.of_nat 2). rewrite <- Nat2Z.inj_div.
    subst half1 n1 x1. destruct odd; rs; repeat f_equal; lia. }
  rewrite Ej. cbv beta iota.
  assert (Ln1 : length x1 = n1).
  { subst x1 n1. destruct odd; rewrite ?app_length; cbn [length] in *; lia. }
  assert (Hn1 : (1 <= n1)%nat) by (subst n1; destruct odd; cbn [length] in *; lia).
  assert (Hh : (2 * half1 <= n1)%nat).
  { subst half1 n1. unfold odd. destruct (Nat.odd n0) eqn:E.
    - apply Nat.odd_spec in E. destruct E as [k Hk]. rewrite Hk.
      replace (2 * k + 1)%nat with (1 + k * 2)%nat by lia. rewrite Nat.div_add by lia. cbn. lia.
    - pose proof (Nat.div_mod n0 2). pose proof (Nat.mod_upper_bound n0 2). lia. }
  rewrite map_const_repeat, py_range_0_length, Nat2Z.id.
  rewrite py_range_down_to_m1. rewrite run_bind.
  rewrite (sqrt_fold_gen _ ZERO UNO half1 n1 Hh Hn1); [ | | lia | exact Ln1 | apply repeat_length ].
  - rs. step. destruct p as [xf cf]. cbn [fst snd]. rs. rewrite py_slice_to, gen_reverse_if_big_endian_run. reflexivity.
  - (* one stage *)
    intros xs c st Hst Hxs Hc fresh' s'. cbv beta iota. unfold sqrt_stage.
    replace (2 * Z.of_nat st) with (Z.of_nat (2 * st)) by lia.
    replace (Z.of_nat st * 2) with (Z.of_nat (2 * st)) by lia.
    rewrite !py_slice_from. rs. step. rename l into sm0.
    rewrite py_slice_butlast, gen_add_subtract_with_compare_eq. step. destruct p as [sub_res per]. cbn [fst snd]. rs.
    rewrite py_range_nat.
    rewrite (sel_fold_gen _ per sub_res (2 * st) n1); [ | | lia | lia | exact Hxs ].
    2:{ intros v i Hi Hv fresh'' s''. unfold sel_cell.
        replace (Z.of_nat i - Z.of_nat (2 * st)) with (Z.of_nat (i - 2 * st)) by lia.
        rewrite (py_nth_nat sub_res). steps. }
    rs. rewrite Nat.sub_diag. cbn [skipn]. step. rename l into xhi.
    rewrite py_slice_from_1. step. rename l into sm1. rewrite py_slice_butlast.
    assert (Lt : length (tl c ++ [ZERO]) = n1).
    { rewrite app_length. destruct c; cbn [length tl] in *; lia. }
    rewrite (sel_fold_gen _ per (removelast sm1) (2 * st) n1); [ | | lia | lia | exact Lt ].
    2:{ intros v i Hi Hv fresh'' s''. unfold sel_cell.
        replace (Z.of_nat i - Z.of_nat (2 * st)) with (Z.of_nat (i - 2 * st)) by lia.
        rewrite (py_nth_nat (removelast sm1)). steps. }
    rs. rewrite Nat.sub_diag. cbn [skipn]. step.
Qed.
