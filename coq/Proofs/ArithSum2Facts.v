(* add_sum_two_numbers (ripple adder over add_sum_n_bits of two / three labels). *)
Require Import Cirbo.Model.Base Cirbo.Model.Gate Cirbo.Model.Den Cirbo.Model.Circuit
  Cirbo.Model.Eval Cirbo.Model.Sem Cirbo.Model.Builder.
Require Import Cirbo.Generated.ArithTables Cirbo.Generated.ArithCells Cirbo.Model.ArithSub Cirbo.Model.ArithSum2.
Require Import Cirbo.Proofs.DictFacts Cirbo.Proofs.BuilderFacts Cirbo.Proofs.ArithFacts Cirbo.Proofs.ArithSubFacts.
Open Scope Z_scope.

Lemma sum_bits2_spec fresh p q s r s' :
  run fresh (sum_bits2 p q) s = Ok (r, s') ->
  outputs (bc s') = outputs (bc s) /\
  forall c, ext (bc s') c -> forall a pv qv, bval c a p pv -> bval c a q qv ->
    exists sv cv, bval c a (fst r) sv /\ bval c a (snd r) cv /\ Z.b2z pv + Z.b2z qv = Z.b2z sv + 2 * Z.b2z cv.
Proof.
  unfold sum_bits2. intros H.
  apply gate_tt_bind in H as (g1 & s1 & H & Hx1 & Ht1 & O1).
  apply gate_tt_bind in H as (g2 & s2 & H & Hx2 & Ht2 & O2).
  apply run_ret_inv in H as (-> & ->). split; [congruence|].
  intros c Hc a pv qv Vp Vq. to_final c. cbn [fst snd].
  pose proof (has_tt_val _ _ _ _ _ _ _ _ Ht1 Vq Vp) as V1.
  pose proof (has_tt_val _ _ _ _ _ _ _ _ Ht2 Vq V1) as V2.
  destruct pv, qv; simpl in V1, V2; eexists _, _; (split; [exact V1|split; [exact V2|reflexivity]]).
Qed.

Lemma add_stockmeyer_block_spec fresh x1 x2 x23 s r s' :
  run fresh (add_stockmeyer_block [x1; x2; x23]) s = Ok (r, s') ->
  exists w0 w1, r = [w0; w1] /\ outputs (bc s') = outputs (bc s) /\
    forall c, ext (bc s') c -> forall a v1 v2 v3, bval c a x1 v1 -> bval c a x2 v2 -> bval c a x23 (xorb v2 v3) ->
      exists sv cv, bval c a w0 sv /\ bval c a w1 cv /\
                    Z.b2z v1 + Z.b2z v2 + Z.b2z v3 = Z.b2z sv + 2 * Z.b2z cv.
Proof.
  cbv beta iota zeta delta [add_stockmeyer_block]. intros H.
  apply gate_tt_bind in H as (w0 & s1 & H & Hx1 & Ht1 & O1).
  apply gate_tt_bind in H as (g2 & s2 & H & Hx2 & Ht2 & O2).
  apply gate_tt_bind in H as (g3 & s3 & H & Hx3 & Ht3 & O3).
  apply gate_tt_bind in H as (w1 & s4 & H & Hx4 & Ht4 & O4).
  apply run_ret_inv in H as (-> & ->).
  exists w0, w1. split; [reflexivity|]. split; [congruence|].
  intros c Hc a v1 v2 v3 V1 V2 V23. to_final c.
  pose proof (has_tt_val _ _ _ _ _ _ _ _ Ht1 V1 V23) as W0.
  pose proof (has_tt_val _ _ _ _ _ _ _ _ Ht2 V2 V23) as G2.
  pose proof (has_tt_val _ _ _ _ _ _ _ _ Ht3 V1 V23) as G3.
  pose proof (has_tt_val _ _ _ _ _ _ _ _ Ht4 G2 G3) as W1.
  destruct v1, v2, v3; simpl in W0, W1; eexists _, _; (split; [exact W0|split; [exact W1|reflexivity]]).
Qed.

Lemma sum_bits3_spec fresh p q r0 s r s' :
  run fresh (sum_bits3 p q r0) s = Ok (r, s') ->
  outputs (bc s') = outputs (bc s) /\
  forall c, ext (bc s') c -> forall a pv qv rv, bval c a p pv -> bval c a q qv -> bval c a r0 rv ->
    exists sv cv, bval c a (fst r) sv /\ bval c a (snd r) cv /\
                  Z.b2z pv + Z.b2z qv + Z.b2z rv = Z.b2z sv + 2 * Z.b2z cv.
Proof.
  unfold sum_bits3. intros H.
  apply gate_tt_bind in H as (xy & s1 & H & Hx1 & Ht1 & O1).
  apply run_bind_inv in H as (st & s2 & Hst & H).
  apply unpack2_inv in H as (-> & ->).
  pose proof (run_ext _ _ _ _ _ Hst) as Hx2.
  apply add_stockmeyer_block_spec in Hst as (w0 & w1 & E & O2 & V). injection E as <- <-.
  split; [congruence|].
  intros c Hc a pv qv rv Vp Vq Vr.
  assert (ext (bc s1) c) as Hc1 by (eapply ext_trans; eassumption).
  apply (has_tt_ext _ _ _ _ _ _ Hc1) in Ht1.
  pose proof (has_tt_val _ _ _ _ _ _ _ _ Ht1 Vr Vq) as Vxy.
  replace (tt_fun tt_xor rv qv) with (xorb rv qv) in Vxy by (destruct rv, qv; reflexivity).
  destruct (V c Hc a pv rv qv Vp Vr Vxy) as (sv & cv & Vs & Vc & E).
  exists sv, cv. repeat split; auto. lia.
Qed.

Lemma sum_loop_spec fresh a : forall b cy s rs s',
  run fresh (sum_loop a b cy) s = Ok (rs, s') ->
  outputs (bc s') = outputs (bc s) /\ length rs = S (length a) /\
  forall c, ext (bc s') c -> forall asg av bv cyv,
    bvals c asg a av -> bvals c asg (firstn (length a) b) bv -> bval c asg cy cyv ->
    exists rv, bvals c asg rs rv /\ bits_val rv = bits_val av + bits_val bv + Z.b2z cyv.
Proof.
  induction a as [|ai a' IH]; intros b cy s rs s' H.
  - apply run_ret_inv in H as (-> & ->). split; [reflexivity|]. split; [reflexivity|].
    intros c Hc asg av bv cyv Ha Hb Hcy. cbn [length firstn] in Hb. inversion Ha; subst. inversion Hb; subst.
    exists [cyv]. split; [constructor; [exact Hcy|constructor]|]. simpl. lia.
  - cbn [sum_loop] in H.
    apply run_bind_inv in H as ([si ci] & s1 & Hcell & H).
    apply run_bind_inv in H as (rs1 & s2 & Hrec & H).
    apply run_ret_inv in H as (-> & ->). cbn [fst snd] in *.
    pose proof (run_ext _ _ _ _ _ Hrec) as Hxrec.
    apply IH in Hrec as (Orec & Lrec & Vrec).
    destruct b as [|bi b'].
    + apply sum_bits2_spec in Hcell as (O1 & V1). cbn [fst snd] in V1.
      split; [congruence|]. split; [simpl; congruence|].
      intros c Hc asg av bv cyv Ha Hb Hcy.
      inversion Ha as [|? avi ? av' Hai Ha']; subst. inversion Hb; subst.
      assert (ext (bc s1) c) as Hc1 by (eapply ext_trans; eassumption).
      destruct (V1 c Hc1 asg _ _ Hcy Hai) as (sv & cv & Vs & Vc & Ecell).
      destruct (Vrec c Hc asg av' [] cv Ha') as (rv & Vr & Erec).
      { destruct (length a'); constructor. } { exact Vc. }
      exists (sv :: rv). split; [constructor; assumption|].
      rewrite !bits_val_cons, Erec. simpl bits_val. lia.
    + apply sum_bits3_spec in Hcell as (O1 & V1). cbn [fst snd] in V1.
      split; [congruence|]. split; [simpl; congruence|].
      intros c Hc asg av bv cyv Ha Hb Hcy.
      inversion Ha as [|? avi ? av' Hai Ha']; subst.
      cbn [length firstn] in Hb. inversion Hb as [|? bvi ? bv' Hbi Hb']; subst.
      assert (ext (bc s1) c) as Hc1 by (eapply ext_trans; eassumption).
      destruct (V1 c Hc1 asg _ _ _ Hcy Hai Hbi) as (sv & cv & Vs & Vc & Ecell).
      destruct (Vrec c Hc asg av' bv' cv Ha' Hb' Vc) as (rv & Vr & Erec).
      exists (sv :: rv). split; [constructor; assumption|].
      rewrite !bits_val_cons, Erec. lia.
Qed.

(* the ripple part after the optional swap: |b| <= |a| *)
Lemma sum_ripple_spec fresh a b be s rs s' :
  run fresh (bdo a0 <- nthP a 0; bdo b0 <- nthP b 0; bdo sc <- sum_bits2 a0 b0;
             bdo rs <- sum_loop (tl a) (tl b) (snd sc); Ret (rev_if be (fst sc :: rs))) s = Ok (rs, s') ->
  (length b <= length a)%nat ->
  outputs (bc s') = outputs (bc s) /\ length rs = S (length a) /\
  forall c, ext (bc s') c -> forall asg av bv, bvals c asg a av -> bvals c asg b bv ->
    exists rv, bvals c asg rs rv /\ decode be rv = bits_val av + bits_val bv.
Proof.
  intros H Lab.
  apply run_bind_inv in H as (a0 & s0 & Ha0 & H). apply nthP_inv in Ha0 as (Ea & ->).
  apply run_bind_inv in H as (b0 & s0 & Hb0 & H). apply nthP_inv in Hb0 as (Eb & ->).
  destruct a as [|a0' a']; [discriminate|]. destruct b as [|b0' b']; [discriminate|].
  injection Ea as ->. injection Eb as ->. cbn [tl] in H.
  apply run_bind_inv in H as ([s0 c0] & s1 & Hcell & H).
  apply run_bind_inv in H as (rs1 & s2 & Hrec & H).
  apply run_ret_inv in H as (-> & ->). cbn [fst snd] in *.
  pose proof (run_ext _ _ _ _ _ Hrec) as Hxrec.
  apply sum_loop_spec in Hrec as (Orec & Lrec & Vrec).
  apply sum_bits2_spec in Hcell as (O1 & V1). cbn [fst snd] in V1.
  split; [congruence|]. split; [rewrite rev_if_length; simpl; congruence|].
  intros c Hc asg av bv Ha Hb.
  inversion Ha as [|? avi ? av' Hai Ha']; subst. inversion Hb as [|? bvi ? bv' Hbi Hb']; subst.
  assert (ext (bc s1) c) as Hc1 by (eapply ext_trans; eassumption).
  destruct (V1 c Hc1 asg _ _ Hai Hbi) as (sv & cv & Vs & Vc & Ecell).
  destruct (Vrec c Hc asg av' bv' cv Ha') as (rv & Vr & Erec).
  { rewrite firstn_all2; [exact Hb'|]. simpl in Lab. lia. } { exact Vc. }
  exists (rev_if be (sv :: rv)). split; [apply bvals_rev_if; constructor; assumption|].
  rewrite decode_rev_if, !bits_val_cons, Erec. lia.
Qed.

Theorem add_sum_two_numbers_correct fresh xs ys be s rs s' :
  run fresh (add_sum_two_numbers xs ys be) s = Ok (rs, s') ->
  ext (bc s) (bc s') /\ inputs (bc s') = inputs (bc s) /\ outputs (bc s') = outputs (bc s) /\
  length rs = S (Nat.max (length xs) (length ys)) /\
  forall c, ext (bc s') c -> forall asg xv yv, bvals c asg xs xv -> bvals c asg ys yv ->
    exists rv, bvals c asg rs rv /\ decode be rv = decode be xv + decode be yv.
Proof.
  intros H. pose proof (run_ext _ _ _ _ _ H) as Hx. unfold add_sum_two_numbers in H.
  rewrite !rev_if_length in H.
  split; [exact Hx|]. split; [apply ext_inputs, Hx|].
  destruct (length xs <? length ys)%nat eqn:E.
  - apply Nat.ltb_lt in E. apply sum_ripple_spec in H as (O & L & V); [|rewrite !rev_if_length; lia].
    rewrite rev_if_length in L. split; [exact O|]. split; [rewrite L; f_equal; lia|].
    intros c Hc asg xv yv Hxv Hyv.
    destruct (V c Hc asg (rev_if be yv) (rev_if be xv)) as (rv & Vr & Er); [apply bvals_rev_if; assumption..|].
    exists rv. split; [exact Vr|]. unfold decode in *. lia.
  - apply Nat.ltb_ge in E. apply sum_ripple_spec in H as (O & L & V); [|rewrite !rev_if_length; lia].
    rewrite rev_if_length in L. split; [exact O|]. split; [rewrite L; f_equal; lia|].
    intros c Hc asg xv yv Hxv Hyv.
    destruct (V c Hc asg (rev_if be xv) (rev_if be yv)) as (rv & Vr & Er); [apply bvals_rev_if; assumption..|].
    exists rv. split; [exact Vr|]. unfold decode in *. lia.
Qed.
