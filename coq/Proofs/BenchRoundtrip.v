(* The round trip  parse (format c) == c,  obtained from the layout theorem through the
   canonical layout: format_circuit prints a text of the layout grammar. *)
Require Import Cirbo.Model.Base Cirbo.Model.Gate Cirbo.Model.Den Cirbo.Model.Circuit Cirbo.Model.Bench
        Cirbo.Model.BenchLayout.
Require Import Cirbo.Generated.GateTypes Cirbo.Generated.BenchDispatch.
Require Import Cirbo.Proofs.DictFacts Cirbo.Proofs.BenchStrings Cirbo.Proofs.BenchDispatchFacts
        Cirbo.Proofs.BenchLines Cirbo.Proofs.BenchFile.
Local Open Scope string_scope.

(* ------------------------------------------------------------------ the canonical text *)
Lemma concat_head_app sep p b rest :
  String.concat sep ((p ++ b) :: rest) = p ++ String.concat sep (b :: rest).
Proof. destruct rest as [|r rest]; [reflexivity|]. rewrite !concat_cons2, sapp_assoc. reflexivity. Qed.

Lemma canon_args_aux a rest :
  String.concat "," (a :: map (fun x => " " ++ x) rest) = String.concat ", " (a :: rest).
Proof.
  revert a. induction rest as [|b rest IH]; intros a; [reflexivity|].
  cbn [map]. rewrite !concat_cons2, IH, concat_head_app. reflexivity.
Qed.

Lemma canon_args (ops : list string) : print_args (canon_operands ops) 0 = String.concat ", " ops.
Proof.
  destruct ops as [|o rest]; [reflexivity|].
  rewrite <- (canon_args_aux o rest).
  unfold print_args, canon_operands. cbn [map].
  rewrite map_map. f_equal. f_equal.
  - unfold print_operand. cbn [fst snd spaces]. change ("" ++ o ++ "") with (o ++ ""). apply sapp_nil_r.
  - apply map_ext. intros x. unfold print_operand. cbn [fst snd spaces].
    rewrite sapp_nil_r. reflexivity.
Qed.

Lemma print_canon_input l : print_item (IInput input_kw l 0 0 0) = format_input l.
Proof. reflexivity. Qed.
Lemma print_canon_output l : print_item (IOutput output_kw l 0 0 0) = format_output l.
Proof. reflexivity. Qed.
Lemma print_canon_gate kg :
  gtyp (snd kg) <> INPUT -> print_item (canon_gate kg) = format_gate (fst kg) (snd kg).
Proof.
  intros N. rewrite (format_gate_shape _ _ N). unfold canon_gate, print_item.
  rewrite canon_args. cbn [spaces fst snd]. reflexivity.
Qed.

Definition sect (X : list string) : string := String.concat NL X ++ NL ++ NL.
Definition blank_strs (X : list string) : list string :=
  match X with []%list => [""; ""]%list | _ => [""]%list end.
Definition unl (X : list string) : string := String.concat "" (map (fun s => s ++ NL) X).

Lemma unl_app X Y : unl (X ++ Y) = unl X ++ unl Y.
Proof.
  unfold unl. induction X as [|x X IH]; [reflexivity|].
  cbn [map app]. rewrite !concat_empty_cons, IH, !sapp_assoc. reflexivity.
Qed.

Lemma unl_nonempty X : X <> []%list -> unl X = String.concat NL X ++ NL.
Proof.
  unfold unl. induction X as [|x X IH]; [contradiction|]. intros _.
  cbn [map]. rewrite concat_empty_cons. destruct X as [|y X].
  - cbn [map String.concat]. rewrite sapp_nil_r. reflexivity.
  - rewrite IH by discriminate. rewrite concat_cons2, !sapp_assoc. reflexivity.
Qed.

Lemma sect_join X rest :
  rest <> []%list -> String.concat NL (X ++ blank_strs X ++ rest) = sect X ++ String.concat NL rest.
Proof.
  intros Hr. unfold sect. destruct X as [|x X].
  - cbn [blank_strs app]. destruct rest as [|r rest]; [contradiction|]. reflexivity.
  - cbn [blank_strs]. rewrite concat_app by discriminate.
    change ([""] ++ rest)%list with ("" :: rest)%list.
    destruct rest as [|r rest]; [contradiction|]. rewrite concat_cons2. rewrite !sapp_assoc. reflexivity.
Qed.

Lemma sect_unl X : unl (X ++ blank_strs X) = sect X.
Proof.
  unfold sect. destruct X as [|x X]; [reflexivity|].
  rewrite unl_app, unl_nonempty by discriminate. cbn [blank_strs]. unfold unl. cbn [map String.concat].
  rewrite !sapp_assoc. reflexivity.
Qed.

Lemma map_blank_after {A} (l : list A) (X : list string) :
  (l = []%list <-> X = []%list) -> map print_item (blank_after l) = blank_strs X.
Proof. destruct l, X; intros [H1 H2]; try reflexivity; [discriminate (H1 eq_refl)|discriminate (H2 eq_refl)]. Qed.

Lemma map_nil_iff {A B} (f : A -> B) l : l = []%list <-> map f l = []%list.
Proof. destruct l; split; intros; try reflexivity; discriminate. Qed.

Theorem format_circuit_canon c : format_circuit c = print_items (canon_items c) (canon_fin c).
Proof.
  unfold format_circuit, canon_items, print_items, canon_fin.
  set (I := map format_input (inputs c)).
  set (G := map (fun kg => format_gate (fst kg) (snd kg)) (non_input_gates c)).
  set (O := map format_output (outputs c)).
  assert (EI : map print_item (map (fun l => IInput input_kw l 0 0 0) (inputs c)) = I)
    by (rewrite map_map; reflexivity).
  assert (EO : map print_item (map (fun l => IOutput output_kw l 0 0 0) (outputs c)) = O)
    by (rewrite map_map; reflexivity).
  assert (EG : map print_item (map canon_gate (non_input_gates c)) = G).
  { rewrite map_map. apply map_ext_in. intros kg Hin. apply print_canon_gate.
    unfold non_input_gates in Hin. apply filter_In in Hin as [_ Hin].
    apply negb_true_iff in Hin. intros E. rewrite E in Hin. discriminate. }
  assert (BI : map print_item (blank_after (inputs c)) = blank_strs I)
    by (apply map_blank_after, map_nil_iff).
  assert (BG : map print_item (blank_after (non_input_gates c)) = blank_strs G)
    by (apply map_blank_after, map_nil_iff).
  transitivity (sect I ++ sect G ++ String.concat NL O).
  { unfold sect. rewrite !sapp_assoc. reflexivity. }
  destruct (outputs c) as [|o outs] eqn:Eo.
  - (* no outputs: every line is terminated *)
    subst O. cbn [map String.concat]. rewrite sapp_nil_r.
    rewrite app_nil_r. rewrite <- (map_map print_item (fun s => s ++ NL)).
    fold (unl (map print_item
      (map (fun l => IInput input_kw l 0 0 0) (inputs c) ++ blank_after (inputs c)
       ++ map canon_gate (non_input_gates c) ++ blank_after (non_input_gates c)))).
    rewrite !map_app, EI, EG, BI, BG.
    rewrite app_assoc, unl_app, !sect_unl. reflexivity.
  - rewrite !map_app, EI, EG, BI, BG, EO.
    assert (HO : O <> []%list) by (subst O; discriminate).
    rewrite sect_join by (destruct G; discriminate).
    rewrite sect_join by exact HO. reflexivity.
Qed.

(* ------------------------------------------------------------------ the canonical layout is well formed *)
Lemma upper_kw_fixed : upper input_kw = input_kw /\ upper output_kw = output_kw.
Proof. split; reflexivity. Qed.

Lemma canon_operand_labels ops : map operand_label (canon_operands ops) = ops.
Proof.
  destruct ops as [|o rest]; [reflexivity|]. unfold canon_operands. cbn [map].
  rewrite map_map. unfold operand_label at 1. cbn [fst snd]. f_equal.
  rewrite <- (map_id rest) at 2. apply map_ext. reflexivity.
Qed.

Lemma canon_gate_ok c k g :
  labels_ok c -> arities_ok c -> In (k, g) (gates c) -> gtyp g <> INPUT -> item_ok (canon_gate (k, g)) = true.
Proof.
  intros [Hl _] Ha Hin N. destruct (Hl k g Hin) as [Hk Hops]. specialize (Ha k g Hin N).
  unfold canon_gate. cbn [item_ok fst snd].
  destruct (opname_dispatch _ N) as [h [Hh Ht]]. rewrite Hh, Hk.
  rewrite Ht, (proj2 (gtype_beq_eq _ _) eq_refl).
  assert (E : List.length (canon_operands (gops g)) = List.length (gops g)).
  { rewrite <- (canon_operand_labels (gops g)) at 2. symmetry. apply map_length. }
  rewrite E, (opname_arity _ _ _ N Hh), Ha.
  assert (Hv : negb (String.eqb (upper (opname (gtyp g))) VDD_NAME) = true).
  { apply negb_true_iff, String.eqb_neq, opname_not_vdd, N. }
  rewrite Hv.
  assert (Ho : forallb (fun x => label_ok (operand_label x)) (canon_operands (gops g)) = true).
  { apply forallb_forall. intros x Hx. apply (in_map operand_label) in Hx.
    rewrite canon_operand_labels in Hx. rewrite Forall_forall in Hops. apply Hops, Hx. }
  rewrite Ho. reflexivity.
Qed.

Lemma defs_map_input ls : defs (map (fun l => IInput input_kw l 0 0 0) ls) = map (fun l => (l, mkGate INPUT [])) ls.
Proof. induction ls as [|l ls IH]; [reflexivity|]. cbn [map defs item_def]. rewrite IH. reflexivity. Qed.
Lemma defs_map_output ls : defs (map (fun l => IOutput output_kw l 0 0 0) ls) = []%list.
Proof. induction ls as [|l ls IH]; [reflexivity|]. cbn [map defs item_def]. exact IH. Qed.
Lemma defs_blank_after {A} (l : list A) : defs (blank_after l) = []%list.
Proof. destruct l; reflexivity. Qed.
Lemma gate_eta g : mkGate (gtyp g) (gops g) = g.
Proof. destruct g; reflexivity. Qed.
Lemma defs_map_gate kgs : defs (map canon_gate kgs) = kgs.
Proof.
  induction kgs as [|[k g] kgs IH]; [reflexivity|]. cbn [map defs]. unfold canon_gate at 1.
  cbn [item_def fst snd]. rewrite canon_operand_labels, gate_eta, IH. reflexivity.
Qed.

Lemma defs_canon c :
  defs (canon_items c) = (map (fun l => (l, mkGate INPUT [])) (inputs c) ++ non_input_gates c)%list.
Proof.
  unfold canon_items. rewrite !defs_app, defs_map_input, defs_map_gate, defs_map_output, !defs_blank_after.
  rewrite !app_nil_r. reflexivity.
Qed.

Lemma In_non_input c k g :
  In (k, g) (non_input_gates c) <-> In (k, g) (gates c) /\ gtyp g <> INPUT.
Proof.
  unfold non_input_gates. rewrite filter_In. cbn [snd]. rewrite negb_true_iff. split.
  - intros [H1 H2]. split; [exact H1|]. intros E. rewrite E in H2. discriminate.
  - intros [H1 H2]. split; [exact H1|]. destruct (gtype_beq (gtyp g) INPUT) eqn:E; [|reflexivity].
    apply gtype_beq_eq in E. contradiction.
Qed.

Lemma canon_defines_all c k g :
  inputs_consistent c -> In (k, g) (gates c) -> In k (defined_labels (canon_items c)).
Proof.
  intros [_ Hi] Hin. unfold defined_labels. rewrite defs_canon, map_app, in_app_iff.
  destruct (gtype_beq (gtyp g) INPUT) eqn:E.
  - left. apply gtype_beq_eq in E. specialize (Hi k g Hin E). rewrite map_map. cbn [fst].
    rewrite map_id. exact Hi.
  - right. apply (in_map fst (non_input_gates c) (k, g)). apply In_non_input. split; [exact Hin|].
    intros E'. rewrite E' in E. discriminate.
Qed.

Theorem canon_text_ok c : bench_ok c -> text_ok (canon_items c).
Proof.
  intros [Hlab [Hex [Hic [Har _]]]]. split.
  - unfold canon_items. rewrite !Forall_app. destruct Hlab as [Hg [Hi Ho]]. repeat split.
    + apply Forall_map. eapply Forall_impl; [|exact Hi]. intros l Hl. cbn [item_ok].
      rewrite Hl, (proj1 upper_kw_fixed), String.eqb_refl. reflexivity.
    + destruct (inputs c); repeat constructor.
    + apply Forall_map. apply Forall_forall. intros [k g] Hin. apply In_non_input in Hin as [Hin N].
      eapply canon_gate_ok; eauto. split; [exact Hg|split; assumption].
    + destruct (non_input_gates c); repeat constructor.
    + apply Forall_map. eapply Forall_impl; [|exact Ho]. intros l Hl. cbn [item_ok].
      rewrite Hl, (proj2 upper_kw_fixed), String.eqb_refl. reflexivity.
  - unfold operands_defined. apply forallb_forall. intros it Hit. apply forallb_forall. intros o Ho.
    apply memb_In.
    unfold canon_items in Hit. rewrite !in_app_iff in Hit.
    destruct Hit as [Hit|[Hit|[Hit|[Hit|Hit]]]].
    + apply in_map_iff in Hit as [l [<- _]]. destruct Ho.
    + destruct (inputs c); simpl in Hit; repeat (destruct Hit as [<-|Hit]; [destruct Ho|]); destruct Hit.
    + apply in_map_iff in Hit as [[k g] [<- Hin]]. apply In_non_input in Hin as [Hin N].
      unfold canon_gate in Ho. cbn [item_operands fst snd] in Ho. rewrite canon_operand_labels in Ho.
      specialize (Hex k g o Hin Ho). unfold has_gate in Hex. unfold dmem in Hex.
      destruct (dget (gates c) o) as [g'|] eqn:D; [|discriminate].
      eapply canon_defines_all; [exact Hic|]. apply dget_In. exact D.
    + destruct (non_input_gates c); simpl in Hit; repeat (destruct Hit as [<-|Hit]; [destruct Ho|]); destruct Hit.
    + apply in_map_iff in Hit as [l [<- _]]. destruct Ho.
Qed.

(* ------------------------------------------------------------------ the parsed circuit equals the original *)
Lemma input_decls_app a b : input_decls (a ++ b) = (input_decls a ++ input_decls b)%list.
Proof. induction a as [|it a IH]; [reflexivity|]. destruct it; cbn [app input_decls]; rewrite ?IH; reflexivity. Qed.
Lemma output_decls_app a b : output_decls (a ++ b) = (output_decls a ++ output_decls b)%list.
Proof. induction a as [|it a IH]; [reflexivity|]. destruct it; cbn [app output_decls]; rewrite ?IH; reflexivity. Qed.

Lemma input_decls_canon c : input_decls (canon_items c) = inputs c.
Proof.
  unfold canon_items. rewrite !input_decls_app.
  assert (E1 : forall ls, input_decls (map (fun l => IInput input_kw l 0 0 0) ls) = ls)
    by (induction ls as [|l ls IH]; [reflexivity|]; cbn [map input_decls]; rewrite IH; reflexivity).
  assert (E2 : forall ls, input_decls (map (fun l => IOutput output_kw l 0 0 0) ls) = []%list)
    by (induction ls as [|l ls IH]; [reflexivity|]; cbn [map input_decls]; exact IH).
  assert (E3 : forall kgs, input_decls (map canon_gate kgs) = []%list)
    by (induction kgs as [|kg kgs IH]; [reflexivity|]; cbn [map input_decls]; exact IH).
  assert (E4 : forall A (l : list A), input_decls (blank_after l) = []%list) by (intros A l; destruct l; reflexivity).
  rewrite E1, E2, E3, !E4, !app_nil_r. reflexivity.
Qed.

Lemma output_decls_canon c : output_decls (canon_items c) = outputs c.
Proof.
  unfold canon_items. rewrite !output_decls_app.
  assert (E1 : forall ls, output_decls (map (fun l => IInput input_kw l 0 0 0) ls) = []%list)
    by (induction ls as [|l ls IH]; [reflexivity|]; cbn [map output_decls]; exact IH).
  assert (E2 : forall ls, output_decls (map (fun l => IOutput output_kw l 0 0 0) ls) = ls)
    by (induction ls as [|l ls IH]; [reflexivity|]; cbn [map output_decls]; rewrite IH; reflexivity).
  assert (E3 : forall kgs, output_decls (map canon_gate kgs) = []%list)
    by (induction kgs as [|kg kgs IH]; [reflexivity|]; cbn [map output_decls]; exact IH).
  assert (E4 : forall A (l : list A), output_decls (blank_after l) = []%list) by (intros A l; destruct l; reflexivity).
  rewrite E1, E2, E3, !E4. reflexivity.
Qed.

Lemma dget_In_nodup {V} (d : dict V) k v : NoDup (dkeys d) -> In (k, v) d -> dget d k = Some v.
Proof.
  induction d as [|[k2 v2] d IH]; [intros _ []|]. simpl. intros Hnd. inversion Hnd as [|? ? Hn Hnd']; subst.
  intros [H|H].
  - injection H as -> ->. rewrite leqb_refl. reflexivity.
  - destruct (leqb_spec k k2) as [->|N]; [|auto].
    exfalso. apply Hn. apply (in_map fst) in H. exact H.
Qed.

Lemma canon_gates_same c l :
  inputs_consistent c -> keys_unique c ->
  find_def (rev (defs (canon_items c))) l = dget (gates c) l.
Proof.
  intros [Hi1 Hi2] Hnd. rewrite defs_canon.
  set (D := (map (fun l0 => (l0, mkGate INPUT [])) (inputs c) ++ non_input_gates c)%list).
  assert (HD : forall k g, In (k, g) D -> dget (gates c) k = Some g).
  { intros k g H. unfold D in H. apply in_app_iff in H as [H|H].
    - apply in_map_iff in H as [l0 [E H]]. injection E as <- <-. apply Hi1. exact H.
    - apply In_non_input in H as [H _]. apply dget_In_nodup; assumption. }
  destruct (dget (gates c) l) as [g|] eqn:Dg.
  - apply find_def_unique.
    + apply -> in_rev. unfold D. apply in_app_iff. apply dget_In in Dg.
      destruct (gtype_beq (gtyp g) INPUT) eqn:E.
      * left. apply gtype_beq_eq in E. pose proof (Hi2 l g Dg E) as Hin.
        pose proof (Hi1 l Hin) as E2. rewrite (dget_In_nodup _ _ _ Hnd Dg) in E2. injection E2 as ->.
        apply (in_map (fun l0 => (l0, mkGate INPUT [])) _ _ Hin).
      * right. apply In_non_input. split; [exact Dg|]. intros E'. rewrite E' in E. discriminate.
    + intros g' H'. apply in_rev in H'. apply HD in H'. congruence.
  - apply find_def_None_iff. intros H. rewrite map_rev, <- in_rev in H.
    apply in_map_iff in H as [[k g] [E H]]. cbn [fst] in E. subst k. apply HD in H. congruence.
Qed.

Theorem canon_denotes_original c :
  bench_ok c -> same_circuit (denote (canon_items c)) c.
Proof.
  intros Hb. pose proof (canon_text_ok c Hb) as [Hok _].
  destruct Hb as [_ [_ [Hic [_ Hnd]]]].
  change (denote (canon_items c)) with (effects (canon_items c) empty_circuit). repeat split.
  - intros l. rewrite effects_gates, (canon_gates_same c l Hic Hnd). cbn [gates empty_circuit dget].
    destruct (dget (gates c) l); reflexivity.
  - rewrite effects_outputs, output_decls_canon. reflexivity.
  - rewrite (effects_inputs _ _ Hok), input_decls_canon. reflexivity.
Qed.

(* ------------------------------------------------------------------ the round trip *)
Theorem roundtrip c :
  bench_ok c ->
  exists c', parse_bench (format_circuit c) = Ok c' /\ same_circuit c' c.
Proof.
  intros Hb. exists (denote (canon_items c)). split.
  - rewrite format_circuit_canon. apply parse_layout, canon_text_ok, Hb.
  - apply canon_denotes_original, Hb.
Qed.

(* ------------------------------------------------------------------ decided by Circuit.__eq__ *)
Lemma dset_keys_nodup {V} (d : dict V) k v : NoDup (dkeys d) -> NoDup (dkeys (dset d k v)).
Proof.
  intros H. destruct (dmem d k) eqn:M.
  - rewrite dkeys_dset_mem by exact M. exact H.
  - rewrite dkeys_dset_new by exact M.
    eapply Permutation.Permutation_NoDup; [apply Permutation.Permutation_cons_append|].
    constructor; [|exact H].
    unfold dmem in M. destruct (dget d k) eqn:D; [discriminate|]. apply dget_None_keys. exact D.
Qed.

Lemma effects_keys_nodup its c : NoDup (dkeys (gates c)) -> NoDup (dkeys (gates (effects its c))).
Proof.
  revert c. induction its as [|it its IH]; intros c H; [exact H|].
  unfold effects in *. cbn [fold_left]. apply IH. rewrite item_effect_gates.
  destruct (item_def it) as [[k g]|]; [apply dset_keys_nodup|]; exact H.
Qed.

Lemma same_keys_length {V} (a b : dict V) :
  NoDup (dkeys a) -> NoDup (dkeys b) -> (forall l, dget a l = dget b l) ->
  List.length a = List.length b.
Proof.
  intros Ha Hb E.
  assert (I1 : incl (dkeys a) (dkeys b)).
  { intros k Hk. apply dmem_keys. apply dmem_keys in Hk. unfold dmem in *. rewrite <- E. exact Hk. }
  assert (I2 : incl (dkeys b) (dkeys a)).
  { intros k Hk. apply dmem_keys. apply dmem_keys in Hk. unfold dmem in *. rewrite E. exact Hk. }
  pose proof (NoDup_incl_length Ha I1) as L1. pose proof (NoDup_incl_length Hb I2) as L2.
  unfold dkeys in L1, L2. rewrite !map_length in L1, L2. lia.
Qed.

Lemma same_circuit_eq_py a b :
  NoDup (dkeys (gates a)) -> NoDup (dkeys (gates b)) -> same_circuit a b -> circuit_eq_py a b = true.
Proof.
  intros Ha Hb [Eg [Eo Ei]]. unfold circuit_eq_py, gates_eq_py.
  rewrite (same_keys_length _ _ Ha Hb Eg), Nat.eqb_refl, Eo, Ei.
  rewrite (proj2 (labels_eqb_eq _ _) eq_refl), (proj2 (labels_eqb_eq _ _) eq_refl), !andb_true_r.
  apply forallb_forall. intros [k g] Hin. cbn [fst snd].
  rewrite <- Eg, (dget_In_nodup _ _ _ Ha Hin). apply gate_eqb_eq. reflexivity.
Qed.

Theorem roundtrip_eq c :
  bench_ok c ->
  exists c', parse_bench (format_circuit c) = Ok c' /\ circuit_eq_py c' c = true.
Proof.
  intros Hb. exists (denote (canon_items c)). split.
  - rewrite format_circuit_canon. apply parse_layout, canon_text_ok, Hb.
  - apply same_circuit_eq_py.
    + apply (effects_keys_nodup (canon_items c) empty_circuit). constructor.
    + apply Hb.
    + apply canon_denotes_original, Hb.
Qed.

(* ------------------------------------------------------------------ through a text file *)
Lemma cr_not_nl : has_char ch_cr NL = false.
Proof. reflexivity. Qed.

Lemma format_circuit_no_cr c :
  labels_no_cr c -> has_char ch_cr (format_circuit c) = false.
Proof.
  intros [Hg [Hi Ho]]. unfold format_circuit.
  assert (H1 : has_char ch_cr (String.concat NL (map format_input (inputs c))) = false).
  { apply concat_no_char; [reflexivity|].
    apply Forall_map. eapply Forall_impl; [|exact Hi]. intros l Hl. unfold format_input, no_cr in *.
    rewrite !has_char_app, Hl. reflexivity. }
  assert (H2 : has_char ch_cr (String.concat NL (map (fun kg => format_gate (fst kg) (snd kg)) (non_input_gates c))) = false).
  { apply concat_no_char; [reflexivity|].
    apply Forall_map. apply Forall_forall. intros [k g] Hin. apply In_non_input in Hin as [Hin N].
    destruct (Hg k g Hin) as [Hk Hops]. cbn [fst snd]. rewrite (format_gate_shape _ _ N).
    unfold no_cr in *. rewrite !has_char_app, Hk, (opname_no_cr _ N).
    rewrite (concat_no_char ch_cr ", " (gops g)) by (try reflexivity; exact Hops).
    reflexivity. }
  assert (H3 : has_char ch_cr (String.concat NL (map format_output (outputs c))) = false).
  { apply concat_no_char; [reflexivity|].
    apply Forall_map. eapply Forall_impl; [|exact Ho]. intros l Hl. unfold format_output, no_cr in *.
    rewrite !has_char_app, Hl. reflexivity. }
  rewrite !has_char_app, H1, H2, H3, cr_not_nl. reflexivity.
Qed.

Theorem roundtrip_file c :
  bench_ok c -> labels_no_cr c ->
  exists c', from_bench_file_content (format_circuit c) = Ok c' /\ same_circuit c' c
             /\ circuit_eq_py c' c = true.
Proof.
  intros Hb Hcr. unfold from_bench_file_content.
  rewrite (universal_newlines_id _ (format_circuit_no_cr c Hcr)).
  exists (denote (canon_items c)). split; [|split].
  - rewrite format_circuit_canon. apply parse_layout, canon_text_ok, Hb.
  - apply canon_denotes_original, Hb.
  - apply same_circuit_eq_py.
    + apply (effects_keys_nodup (canon_items c) empty_circuit). constructor.
    + apply Hb.
    + apply canon_denotes_original, Hb.
Qed.

(* ------------------------------------------------------------------ the executable hypothesis test *)
Theorem bench_okb_sound c : bench_okb c = true -> bench_ok c.
Proof.
  unfold bench_okb. rewrite !andb_true_iff, !forallb_forall.
  intros [[[[[[[H1 H2] H3] H4] H5] H6] H7] H8].
  assert (G1 : gate_labels_ok c).
  { intros l g Hin. specialize (H1 _ Hin). cbn [fst snd] in H1. apply andb_true_iff in H1 as [Ha Hb].
    split; [exact Ha|]. apply Forall_forall. rewrite forallb_forall in Hb. exact Hb. }
  assert (G2 : io_labels_ok c) by (split; apply Forall_forall; assumption).
  assert (G3 : ops_exist c).
  { intros l g o Hin Ho. specialize (H4 _ Hin). cbn [snd] in H4. rewrite forallb_forall in H4. apply H4, Ho. }
  assert (G4 : inputs_consistent c).
  { split.
    - intros l Hl. specialize (H5 _ Hl). destruct (dget (gates c) l) as [g|]; [|discriminate].
      apply gate_eqb_eq in H5. rewrite H5. reflexivity.
    - intros l g Hin Ht. specialize (H6 _ Hin). cbn [fst snd] in H6. rewrite Ht in H6.
      simpl in H6. apply memb_In. exact H6. }
  assert (G5 : arities_ok c).
  { intros l g Hin N. specialize (H7 _ Hin). cbn [snd] in H7.
    destruct (gtype_beq (gtyp g) INPUT) eqn:E; [apply gtype_beq_eq in E; contradiction|exact H7]. }
  assert (G6 : keys_unique c) by (apply nodupb_NoDup; exact H8).
  exact (conj (conj G1 G2) (conj G3 (conj G4 (conj G5 G6)))).
Qed.
