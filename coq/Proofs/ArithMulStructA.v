Require Import Cirbo.Model.Base Cirbo.Model.MulCases Cirbo.Proofs.ArithMulStruct.
Lemma mul_struct_default_upto6 : forallb (mul_struct_ok FMul) (pairs_upto 6) = true.
Proof. vm_compute. reflexivity. Qed.
Lemma mul_struct_alter_upto6 : forallb (mul_struct_ok FAlter) (pairs_upto 6) = true.
Proof. vm_compute. reflexivity. Qed.
Lemma mul_struct_dadda_upto6 : forallb (mul_struct_ok FDadda) (pairs_upto 6) = true.
Proof. vm_compute. reflexivity. Qed.
