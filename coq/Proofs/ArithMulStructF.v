Require Import Cirbo.Model.Base Cirbo.Model.MulCases Cirbo.Proofs.ArithMulStruct.
(* the recursion of Karatsuba is entered (n = 20) and returns *)
Lemma mul_struct_karatsuba_20 : mul_struct_ok FKaratsuba (20, 20)%nat = true.
Proof. vm_compute. reflexivity. Qed.
