(* C03 at the entry points: for every pipeline that keeps the inputs (and for cleanup) the
   results of evaluate and get_truth_table on the transformed circuit are EQUAL (as `res`
   values) to those on the argument; both calls return.  From the Eval statements of PassAll.v
   and the completeness of the evaluators (C01). *)
Require Import Cirbo.Model.Base Cirbo.Model.Gate Cirbo.Model.Den Cirbo.Model.Circuit Cirbo.Model.Traverse
        Cirbo.Model.Eval Cirbo.Model.Sem Cirbo.Model.WF Cirbo.Model.Passes.
Require Import Cirbo.Proofs.EvalEntry Cirbo.Proofs.TruthTable Cirbo.Proofs.EntryEq
        Cirbo.Proofs.PassPipeline Cirbo.Proofs.PassAll.

Lemma Forall2_nth_transfer {A B} (P P' : A -> B -> Prop) d d' : forall l l',
  length l' = length l ->
  (forall i v, i < length l -> P' (nth i l' d') v -> P (nth i l d) v) ->
  forall vs, Forall2 P' l' vs -> Forall2 P l vs.
Proof.
  induction l as [|x l IH]; intros l' Hlen Himp vs HF; destruct l' as [|x' l']; simpl in Hlen; try lia.
  - inversion HF; constructor.
  - inversion HF as [|? y ? ys Hxy Hrest]; subst. constructor.
    + apply (Himp 0 y); [simpl; lia|exact Hxy].
    + apply (IH l'); [lia| |exact Hrest]. intros i v Hi Hv. apply (Himp (S i) v); [simpl; lia|exact Hv].
Qed.

Lemma entry_eq_from_outputs c c' (tv : bool) :
  WF c -> arity_ok c -> WF c' -> arity_ok c' ->
  inputs c' = inputs c -> length (outputs c') = length (outputs c) ->
  (forall a, tv = true \/ total_on c a -> forall i d d' v, i < length (outputs c) ->
     (Eval c' a (nth i (outputs c') d') v <-> Eval c a (nth i (outputs c) d) v)) ->
  (forall vals, tv = true \/ (exists bs, vals = map inj bs) -> evaluate c' vals = evaluate c vals) /\
  get_truth_table c' = get_truth_table c.
Proof.
  intros W A W' A' Hi Ho Hsem.
  assert (Hev : forall vals, tv = true \/ (exists bs, vals = map inj bs) -> evaluate c' vals = evaluate c vals).
  { intros vals Hv. destruct (le_lt_dec (length (inputs c)) (length vals)) as [Hlen|Hlen].
    - apply evaluate_eq_of_sem_gen; try assumption; [rewrite Hi; exact Hlen|].
      unfold vec_assignment. rewrite Hi. fold (vec_assignment c vals).
      apply (Forall2_nth_transfer _ _ ""%string ""%string); [exact Ho|].
      intros i v Hlt Hv'. refine (proj1 (Hsem (vec_assignment c vals) _ i _ _ v Hlt) Hv').
      destruct Hv as [Ht|[bs ->]]; [left; exact Ht|right].
      apply vec_assignment_total; [exact W|]. rewrite map_length in Hlen. exact Hlen.
    - rewrite (evaluate_short c vals Hlen). apply evaluate_short. rewrite Hi. exact Hlen. }
  split; [exact Hev|].
  apply get_truth_table_eq_of_evaluate; [rewrite Hi; reflexivity|exact Ho|].
  intros bs _. apply Hev. right. exists bs. reflexivity.
Qed.

(* every pipeline that keeps the inputs *)
Theorem pipeline_entry_eq c ts c' :
  WF c -> arity_ok c -> forallb (all_leaves keep_of) ts = true -> apply_transformers c ts = Ok c' ->
  (forall vals, forallb (all_leaves tv_of) ts = true \/ (exists bs, vals = map inj bs) ->
                evaluate c' vals = evaluate c vals) /\
  get_truth_table c' = get_truth_table c.
Proof.
  intros W A Hk H. destruct (pipeline_explicit c ts c' W A H) as (W' & A' & _ & Hkeep & Ho & Hsem & _).
  pose proof (Hkeep Hk) as Hi.
  apply (entry_eq_from_outputs c c' (forallb (all_leaves tv_of) ts)); try assumption.
  intros a Ha i d d' v Hlt. apply (Hsem a a); [exact Ha|reflexivity|exact Hlt].
Qed.

Theorem pipeline_truth_table_eq c ts c' :
  WF c -> arity_ok c -> forallb (all_leaves keep_of) ts = true -> apply_transformers c ts = Ok c' ->
  get_truth_table c' = get_truth_table c.
Proof. intros W A Hk H. apply (pipeline_entry_eq c ts c' W A Hk H). Qed.

Theorem pipeline_truth_table_ok c ts c' :
  WF c -> arity_ok c -> forallb (all_leaves keep_of) ts = true -> apply_transformers c ts = Ok c' ->
  exists tt, get_truth_table c = Ok tt /\ get_truth_table c' = Ok tt.
Proof.
  intros W A Hk H. destruct (get_truth_table_complete c W A) as (tt & Htt & _). exists tt.
  split; [exact Htt|]. rewrite (pipeline_truth_table_eq c ts c' W A Hk H). exact Htt.
Qed.

(* cleanup *)
Theorem cleanup_entry_eq c b c' :
  WF c -> arity_ok c -> cleanup c b = Ok c' ->
  (forall vals, b = false \/ (exists bs, vals = map inj bs) -> evaluate c' vals = evaluate c vals) /\
  get_truth_table c' = get_truth_table c.
Proof.
  intros W A H. destruct (cleanup_explicit c b c' W A H) as (W' & A' & Hi & Ho & Hsem & _).
  destruct (entry_eq_from_outputs c c' (negb b) W A W' A' Hi Ho) as [Hev Htt].
  - intros a Ha. apply Hsem. destruct Ha as [Ha|Ha]; [left; destruct b; [discriminate|reflexivity]|right; exact Ha].
  - split; [|exact Htt]. intros vals Hv. apply Hev.
    destruct Hv as [->|Hv]; [left; reflexivity|right; exact Hv].
Qed.

Theorem cleanup_truth_table_eq c b c' :
  WF c -> arity_ok c -> cleanup c b = Ok c' -> get_truth_table c' = get_truth_table c.
Proof. intros W A H. apply (cleanup_entry_eq c b c' W A H). Qed.

Theorem cleanup_truth_table_ok c b c' :
  WF c -> arity_ok c -> cleanup c b = Ok c' ->
  exists tt, get_truth_table c = Ok tt /\ get_truth_table c' = Ok tt.
Proof.
  intros W A H. destruct (get_truth_table_complete c W A) as (tt & Htt & _). exists tt.
  split; [exact Htt|]. rewrite (cleanup_truth_table_eq c b c' W A H). exact Htt.
Qed.
