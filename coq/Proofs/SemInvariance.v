(* C01 (c): the semantics is independent of gate insertion order, of the labels, and needs no
   special case for shared / duplicated operands or outputs.
   (a) Eval depends on the gate map and on the assignment only as finite maps; any permutation
       of a duplicate-free gate map gives the same semantics, and the whole-circuit evaluators
       report the same value for every label.
   (b) an injective renaming of all labels transports Eval in both directions.
   (c) remark: duplicated operands are ordinary operands (Example in Properties/C01.v). *)
Require Import Cirbo.Model.Base Cirbo.Model.Gate Cirbo.Model.Den Cirbo.Model.Circuit
        Cirbo.Model.Traverse Cirbo.Model.Eval Cirbo.Model.Sem Cirbo.Model.WF.
Require Import Cirbo.Generated.Operators Cirbo.Generated.GateTypes.
Require Import Cirbo.Proofs.DictFacts Cirbo.Proofs.OpFacts Cirbo.Proofs.SemFacts
        Cirbo.Proofs.EvalFacts Cirbo.Proofs.TopSortWF Cirbo.Proofs.EvalComplete.
Require Import Coq.Sorting.Permutation.

(* ---------------- (a) finite-map extensionality ---------------- *)
Definition same_gates (c c' : circuit) : Prop := forall l, dget (gates c) l = dget (gates c') l.
Definition same_assignment (a a' : assignment) : Prop := forall l, aval a l = aval a' l.

Lemma Forall2_impl {A B} (P Q : A -> B -> Prop) l m :
  (forall x y, P x y -> Q x y) -> Forall2 P l m -> Forall2 Q l m.
Proof. intros H; induction 1; constructor; auto. Qed.

Lemma Eval_ext_1 c c' a a' l v :
  same_gates c c' -> same_assignment a a' -> Eval c a l v -> Eval c' a' l v.
Proof.
  intros Hg Ha H. induction H as [l g Hl Ht|l g vs v Hl Ht Hops IH Hop] using Eval_ind2.
  - rewrite Ha. rewrite Hg in Hl. econstructor; eassumption.
  - rewrite Hg in Hl. eapply EvalGate; eassumption.
Qed.

Theorem Eval_ext c c' a a' l v :
  same_gates c c' -> same_assignment a a' -> (Eval c a l v <-> Eval c' a' l v).
Proof.
  intros Hg Ha. split; apply Eval_ext_1; try assumption.
  - intros k; symmetry; apply Hg.
  - intros k; symmetry; apply Ha.
Qed.

Lemma dget_perm {V} (d d' : dict V) :
  NoDup (dkeys d) -> Permutation d d' -> forall k, dget d k = dget d' k.
Proof.
  intros Hnd Hp k.
  assert (Hnd' : NoDup (dkeys d')).
  { eapply Permutation_NoDup; [|exact Hnd]. unfold dkeys. apply Permutation_map; exact Hp. }
  destruct (dget d k) as [v|] eqn:E.
  - symmetry. apply dget_of_In; [exact Hnd'|]. eapply Permutation_in; [exact Hp|]. apply dget_In; exact E.
  - symmetry. apply dget_None_keys. intros Hin. apply dget_None_keys in E. apply E.
    eapply Permutation_in; [|exact Hin]. unfold dkeys. apply Permutation_map, Permutation_sym; exact Hp.
Qed.

(* gate insertion order is irrelevant; so are the input / output lists, the users index
   and the blocks *)
Theorem Eval_gate_order c c' a l v :
  NoDup (dkeys (gates c)) -> Permutation (gates c) (gates c') ->
  (Eval c a l v <-> Eval c' a l v).
Proof.
  intros Hnd Hp. apply Eval_ext; [|intros k; reflexivity]. intros k. apply dget_perm; assumption.
Qed.

(* the order in which the assignment lists its keys is irrelevant *)
Theorem Eval_assignment_order c a a' l v :
  NoDup (dkeys a) -> Permutation a a' -> (Eval c a l v <-> Eval c a' l v).
Proof.
  intros Hnd Hp. apply Eval_ext; [intros k; reflexivity|]. intros k. unfold aval.
  rewrite (dget_perm a a' Hnd Hp k). reflexivity.
Qed.

Lemma arity_ok_ext c c' : same_gates c c' -> arity_ok c -> arity_ok c'.
Proof. intros Hg H l g Hl. rewrite <- Hg in Hl. apply (H l g Hl). Qed.

Lemma has_gate_ext c c' l : same_gates c c' -> has_gate c l = has_gate c' l.
Proof. intros Hg. unfold has_gate, dmem. rewrite Hg. reflexivity. Qed.

(* evaluator level: two well-formed circuits with the same gate map (as a finite map, e.g.
   the same gates inserted in another order) get the same value at every label *)
Theorem evaluate_full_circuit_order c c' a a' :
  WF c -> WF c' -> arity_ok c -> same_gates c c' -> same_assignment a a' ->
  assigns_inputs_only c a -> assigns_inputs_only c' a' ->
  exists d d', evaluate_full_circuit c a = Ok d /\ evaluate_full_circuit c' a' = Ok d' /\
               forall l, dget d l = dget d' l.
Proof.
  intros Hwf Hwf' Har Hg Hsa Ha Ha'.
  destruct (evaluate_full_circuit_exact c a Hwf Har Ha) as (d & Hd & Hex).
  destruct (evaluate_full_circuit_exact c' a' Hwf' (arity_ok_ext _ _ Hg Har) Ha') as (d' & Hd' & Hex').
  exists d, d'. split; [exact Hd|]. split; [exact Hd'|]. intros l.
  destruct (dget d l) as [v|] eqn:E.
  - symmetry. apply Hex'. apply Hex in E. destruct E as [Hl He]. split.
    + rewrite <- (has_gate_ext c c' l Hg). exact Hl.
    + apply (Eval_ext c c' a a' l v Hg Hsa). exact He.
  - destruct (dget d' l) as [v'|] eqn:E'; [|reflexivity]. exfalso.
    apply Hex' in E'. destruct E' as [Hl He].
    assert (dget d l = Some v') as E2.
    { apply Hex. split; [rewrite (has_gate_ext c c' l Hg); exact Hl|].
      apply (Eval_ext c c' a a' l v' Hg Hsa). exact He. }
    congruence.
Qed.

(* ---------------- (b) injective renaming of labels ---------------- *)
Section Rename.
  Variable r : label -> label.
  Hypothesis r_inj : forall x y, r x = r y -> x = y.

  Definition rename_keys {V W} (f : V -> W) (d : dict V) : dict W :=
    map (fun kv => (r (fst kv), f (snd kv))) d.
  Definition rename_gate_rec (g : gate) : gate := mkGate (gtyp g) (map r (gops g)).
  Definition rename_block (b : block) : block :=
    mkBlock (map r (binputs b)) (map r (bgates b)) (map r (boutputs b)).
  (* every gate key, operand, input, output, users entry and block member is renamed
     (block names are not gate labels and are kept) *)
  Definition rename_circuit (c : circuit) : circuit :=
    mkCircuit (map r (inputs c)) (map r (outputs c))
              (rename_keys rename_gate_rec (gates c))
              (rename_keys (map r) (users c))
              (map (fun kb => (fst kb, rename_block (snd kb))) (blocks c)).
  Definition rename_assignment (a : assignment) : assignment := rename_keys (fun v => v) a.

  Lemma leqb_rename x y : leqb (r x) (r y) = leqb x y.
  Proof.
    destruct (leqb_spec x y) as [->|Hne]; [apply leqb_refl|].
    apply leqb_neq. intros E. apply Hne, r_inj, E.
  Qed.

  Lemma dget_rename_keys {V W} (f : V -> W) (d : dict V) l :
    dget (rename_keys f d) (r l) = option_map f (dget d l).
  Proof.
    induction d as [|[k v] d IH]; simpl; [reflexivity|].
    rewrite leqb_rename. destruct (leqb l k); [reflexivity|exact IH].
  Qed.

  Lemma dget_rename_keys_inv {V W} (f : V -> W) (d : dict V) l' w :
    dget (rename_keys f d) l' = Some w -> exists l v, l' = r l /\ dget d l = Some v /\ w = f v.
  Proof.
    induction d as [|[k v] d IH]; simpl; [discriminate|].
    destruct (leqb_spec l' (r k)) as [->|Hne].
    - intros [= <-]. exists k, v. rewrite leqb_refl. auto.
    - intros H. destruct (IH H) as (l & v' & -> & Hl & ->). exists l, v'.
      destruct (leqb_spec l k) as [->|]; [contradiction|auto].
  Qed.

  Lemma aval_rename a l : aval (rename_assignment a) (r l) = aval a l.
  Proof. unfold aval, rename_assignment. rewrite dget_rename_keys. destruct (dget a l); reflexivity. Qed.

  Lemma has_gate_rename c l : has_gate (rename_circuit c) (r l) = has_gate c l.
  Proof. unfold has_gate, dmem. simpl. rewrite dget_rename_keys. destruct (dget (gates c) l); reflexivity. Qed.

  Lemma Forall2_map_l {A B C} (f : A -> B) (P : B -> C -> Prop) l m :
    Forall2 (fun x y => P (f x) y) l m <-> Forall2 P (map f l) m.
  Proof.
    split.
    - induction 1; simpl; constructor; assumption.
    - revert m; induction l as [|x l IH]; intros m H; inversion H; subst; constructor; auto.
  Qed.

  Lemma Eval_rename_fwd c a l v :
    Eval c a l v -> Eval (rename_circuit c) (rename_assignment a) (r l) v.
  Proof.
    intros H. induction H as [l g Hl Ht|l g vs v Hl Ht Hops IH Hop] using Eval_ind2.
    - rewrite <- aval_rename. apply EvalInput with (g := rename_gate_rec g); [|exact Ht].
      simpl. rewrite dget_rename_keys, Hl. reflexivity.
    - apply EvalGate with (g := rename_gate_rec g) (vs := vs); try assumption.
      + simpl. rewrite dget_rename_keys, Hl. reflexivity.
      + simpl. apply (proj1 (Forall2_map_l r (Eval (rename_circuit c) (rename_assignment a)) (gops g) vs)). exact IH.
  Qed.

  Lemma Eval_rename_bwd c a l' v :
    Eval (rename_circuit c) (rename_assignment a) l' v -> forall l, l' = r l -> Eval c a l v.
  Proof.
    intros H. induction H as [l' g' Hl Ht|l' g' vs v Hl Ht Hops IH Hop] using Eval_ind2; intros l ->.
    - simpl in Hl. rewrite dget_rename_keys in Hl. destruct (dget (gates c) l) as [g|] eqn:E; [|discriminate].
      injection Hl as <-. rewrite aval_rename. econstructor; [exact E|exact Ht].
    - simpl in Hl. rewrite dget_rename_keys in Hl. destruct (dget (gates c) l) as [g|] eqn:E; [|discriminate].
      injection Hl as <-. simpl in *. eapply EvalGate; [exact E|exact Ht| |exact Hop].
      apply (proj2 (Forall2_map_l r (fun l' v => forall l, l' = r l -> Eval c a l v) (gops g) vs)) in IH.
      eapply Forall2_impl; [|exact IH]. intros o w Ho. apply Ho. reflexivity.
  Qed.

  (* the semantics does not depend on the labels *)
  Theorem Eval_rename c a l v :
    Eval c a l v <-> Eval (rename_circuit c) (rename_assignment a) (r l) v.
  Proof. split; [apply Eval_rename_fwd|intros H; eapply Eval_rename_bwd; [exact H|reflexivity]]. Qed.

  (* nothing outside the image of the renaming has a value *)
  Lemma Eval_rename_image c a l' v :
    Eval (rename_circuit c) (rename_assignment a) l' v -> exists l, l' = r l.
  Proof.
    intros H. apply Eval_has_gate in H. apply has_gate_dget in H. destruct H as [g' Hg']. simpl in Hg'.
    apply dget_rename_keys_inv in Hg'. destruct Hg' as (l & _ & -> & _). eauto.
  Qed.

  Lemma arity_ok_rename c : arity_ok c -> arity_ok (rename_circuit c).
  Proof.
    intros H l' g' Hl Ht. simpl in Hl. apply dget_rename_keys_inv in Hl.
    destruct Hl as (l & g & -> & Hl & ->). simpl in *. rewrite map_length. apply (H l g Hl Ht).
  Qed.

  (* renaming commutes with building the assignment from a positional vector *)
  Lemma combine_rename (ins : list label) (vals : list st) :
    combine (map r ins) vals = rename_assignment (combine ins vals).
  Proof.
    revert vals; induction ins as [|i ins IH]; intros vals; simpl; [reflexivity|].
    destruct vals as [|v vals]; simpl; [reflexivity|]. rewrite IH. reflexivity.
  Qed.
End Rename.
