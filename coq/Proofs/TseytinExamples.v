(* C05: witnesses that the hypotheses of the theorems are satisfiable (non-vacuity):
   a concrete circuit with a 3-operand XOR, a total assignment making its outputs True,
   and a (brute-force) solver that IS sound and complete. *)
Require Import Cirbo.Model.Base Cirbo.Model.Gate Cirbo.Model.Den Cirbo.Model.Circuit Cirbo.Model.Eval
        Cirbo.Model.Sem Cirbo.Model.Cnf Cirbo.Model.TseytinAlg.
Require Import Cirbo.Generated.GateTypes Cirbo.Generated.Tseytin.
Require Import Cirbo.Proofs.DictFacts Cirbo.Proofs.TseytinTemplates Cirbo.Proofs.TseytinFuel.
Local Open Scope Z_scope.

(* inputs a b c;  g = XOR(a, b, c);  h = AND(g, a);  outputs h, a *)
Definition ex_circuit : circuit :=
  mkCircuit ["a"; "b"; "c"] ["h"; "a"]
    [("a", mkGate INPUT []); ("b", mkGate INPUT []); ("c", mkGate INPUT []);
     ("g", mkGate XOR ["a"; "b"; "c"]); ("h", mkGate AND ["g"; "a"])]
    [("a", ["g"; "h"]); ("b", ["g"]); ("c", ["g"]); ("g", ["h"])] [].

Definition ex_assignment : assignment := [("a", T); ("b", F); ("c", F)].

Lemma ex_wf : tseytin_wf ex_circuit = true /\ closedb ex_circuit = true.
Proof. split; vm_compute; reflexivity. Qed.

Lemma ex_acyclic : acyclic ex_circuit.
Proof.
  exists (fun l => if leqb l "h" then 2 else if leqb l "g" then 1 else 0)%nat.
  intros l g o Hg Ho. unfold ex_circuit in Hg. cbn [gates dget] in Hg.
  repeat match type of Hg with
         | (if leqb l ?k then _ else _) = _ => destruct (leqb_spec l k) as [->|_]
         end; try discriminate; injection Hg as <-; cbn [gops] in Ho;
    repeat (destruct Ho as [<-|Ho]; [vm_compute; lia|]); destruct Ho.
Qed.

Lemma ex_runs : exists f lit, tseytin ex_circuit None = Ok (f, lit) /\ length f = 13%nat.
Proof. eexists; eexists. split; vm_compute; reflexivity. Qed.

Lemma ex_total : total_on ex_circuit ex_assignment.
Proof.
  intros l g Hg Ht. unfold ex_circuit in Hg. cbn [gates dget] in Hg.
  repeat match type of Hg with
         | (if leqb l ?k then _ else _) = _ => destruct (leqb_spec l k) as [->|_]
         end; try discriminate; injection Hg as <-; try discriminate Ht; vm_compute; discriminate.
Qed.

Lemma ex_outputs_true : Forall (fun o => Eval ex_circuit ex_assignment o T) (outputs ex_circuit).
Proof.
  assert (Ha : Eval ex_circuit ex_assignment "a" T)
    by (exact (EvalInput ex_circuit ex_assignment "a" (mkGate INPUT []) eq_refl eq_refl)).
  assert (Hb : Eval ex_circuit ex_assignment "b" F)
    by (exact (EvalInput ex_circuit ex_assignment "b" (mkGate INPUT []) eq_refl eq_refl)).
  assert (Hc : Eval ex_circuit ex_assignment "c" F)
    by (exact (EvalInput ex_circuit ex_assignment "c" (mkGate INPUT []) eq_refl eq_refl)).
  assert (Hg : Eval ex_circuit ex_assignment "g" T).
  { apply (EvalGate ex_circuit ex_assignment "g" (mkGate XOR ["a"; "b"; "c"]) [T; F; F] T eq_refl);
      [discriminate|repeat constructor; assumption|reflexivity]. }
  assert (Hh : Eval ex_circuit ex_assignment "h" T).
  { apply (EvalGate ex_circuit ex_assignment "h" (mkGate AND ["g"; "a"]) [T; T] T eq_refl);
      [discriminate|repeat constructor; assumption|reflexivity]. }
  repeat constructor; assumption.
Qed.

(* the arity-3 XOR template: 8 parity clauses *)
Lemma ex_xor3_template :
  template_of XOR 4 [1; 2; 3] =
  Ok [[-1; -2; -3; 4]; [-1; -2; 3; -4]; [-1; 2; -3; -4]; [-1; 2; 3; 4];
      [1; -2; -3; -4]; [1; -2; 3; 4]; [1; 2; -3; 4]; [1; 2; 3; -4]].
Proof. vm_compute. reflexivity. Qed.

(* ---------- a sound and complete solver exists -------------------------------------- *)
Fixpoint sublists {A} (l : list A) : list (list A) :=
  match l with
  | [] => [[]]
  | x :: r => map (cons x) (sublists r) ++ sublists r
  end.

Definition cnf_vars (f : list (list Z)) : list Z := nodup Z.eq_dec (map Z.abs (concat f)).

(* models are lists of the true variables *)
Definition brute_solve (f : list (list Z)) : option (list Z) :=
  find (fun m => sat (sigma_of_model m) f) (sublists (cnf_vars f)).

Lemma filter_in_sublists {A} (p : A -> bool) (l : list A) : In (filter p l) (sublists l).
Proof.
  induction l as [|x l IH]; cbn [filter sublists]; [left; reflexivity|].
  apply in_or_app. destruct (p x); [left; apply in_map; exact IH|right; exact IH].
Qed.

Lemma lval_abs s l : lval s l = if l <? 0 then negb (s (Z.abs l)) else s (Z.abs l).
Proof.
  unfold lval. destruct (Z.ltb_spec l 0).
  - rewrite Z.abs_neq by lia. reflexivity.
  - rewrite Z.abs_eq by lia. reflexivity.
Qed.

Lemma sigma_filter s vars v : In v vars -> sigma_of_model (filter s vars) v = s v.
Proof.
  intros Hv. unfold sigma_of_model. destruct (s v) eqn:E.
  - apply existsb_exists. exists v. split; [apply filter_In; split; assumption|apply Z.eqb_refl].
  - destruct (existsb (Z.eqb v) (filter s vars)) eqn:E'; [|reflexivity].
    apply existsb_exists in E'. destruct E' as (w & Hw & Hvw). apply Z.eqb_eq in Hvw. subst w.
    apply filter_In in Hw. destruct Hw as [_ Hw]. congruence.
Qed.

Lemma sat_same_on_lits s s' f :
  (forall v, In v (map Z.abs (concat f)) -> s v = s' v) -> sat s f = sat s' f.
Proof.
  induction f as [|cl f IH]; intros H; [reflexivity|].
  cbn [sat forallb]. cbn [concat] in H. rewrite map_app in H. f_equal.
  - clear IH. assert (Hc : forall l, In l cl -> s (Z.abs l) = s' (Z.abs l)).
    { intros l Hl. apply H, in_or_app. left. apply in_map; exact Hl. }
    clear H. induction cl as [|l cl IHc]; [reflexivity|]. cbn [csat existsb]. f_equal.
    + rewrite !lval_abs, (Hc l (or_introl eq_refl)). reflexivity.
    + apply IHc. intros; apply Hc; right; assumption.
  - apply IH. intros v Hv. apply H, in_or_app. right; exact Hv.
Qed.

Lemma sat_same_on_vars s s' f :
  (forall v, In v (cnf_vars f) -> s v = s' v) -> sat s f = sat s' f.
Proof.
  intros H. apply sat_same_on_lits. intros v Hv. apply H. unfold cnf_vars. apply nodup_In; exact Hv.
Qed.

Lemma brute_solve_sound f m : brute_solve f = Some m -> sat (sigma_of_model m) f = true.
Proof. unfold brute_solve. intros H. apply find_some in H. apply H. Qed.

Lemma brute_solve_complete f : brute_solve f = None -> forall sigma, sat sigma f = false.
Proof.
  unfold brute_solve. intros H sigma.
  assert (Hn := find_none _ _ H (filter sigma (cnf_vars f)) (filter_in_sublists _ _)).
  cbn beta in Hn. rewrite <- Hn. apply sat_same_on_vars.
  intros v Hv. symmetry. apply sigma_filter; exact Hv.
Qed.

Lemma solver_hypotheses_satisfiable :
  exists solve : list (list Z) -> option (list Z),
    (forall f m, solve f = Some m -> sat (sigma_of_model m) f = true) /\
    (forall f, solve f = None -> forall sigma, sat sigma f = false).
Proof. exists brute_solve. split; [exact brute_solve_sound|exact brute_solve_complete]. Qed.

(* the query on the example circuit, with the brute-force solver *)
Lemma ex_query : exists m, is_circuit_satisfiable brute_solve ex_circuit = Ok (Some m).
Proof. eexists. vm_compute. reflexivity. Qed.
