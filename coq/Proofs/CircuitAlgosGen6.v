(* T10, sixth part: _traverse_circuit (the work-list loop with its five hooks observed as an event log), the
   wrappers dfs / bfs and validation.check_circuit_has_no_cycles. *)
Require Import Cirbo.Model.Base Cirbo.Model.Gate Cirbo.Model.Circuit Cirbo.Model.Traverse.
Require Import Cirbo.Generated.CircuitCore Cirbo.Generated.CircuitAlgos.
Require Import Cirbo.Proofs.DictFacts Cirbo.Proofs.TopSort Cirbo.Proofs.CircuitCoreGen Cirbo.Proofs.CircuitCoreGen2
        Cirbo.Proofs.CircuitAlgosGen.

(* ---------------------------------------------------------------- queue[pop_index], queue.pop(pop_index) *)
Lemma nth_error_snoc {A} (r : list A) x : nth_error (r ++ [x]) (length r) = Some x.
Proof. induction r as [|y r IH]; simpl; [reflexivity|exact IH]. Qed.

Lemma firstn_snoc {A} (r : list A) x : firstn (length r) (r ++ [x]) = r.
Proof. induction r as [|y r IH]; simpl; [reflexivity|rewrite IH; reflexivity]. Qed.

Lemma skipn_snoc {A} (r : list A) x : skipn (S (length r)) (r ++ [x]) = [].
Proof. induction r as [|y r IH]; simpl; [reflexivity|exact IH]. Qed.

Lemma last_index_arith n :
  ((-1 <? - Z.of_nat (S n))%Z || (Z.of_nat (S n) <=? -1)%Z) = false /\
  Z.to_nat (if (-1 <? 0)%Z then (-1 + Z.of_nat (S n))%Z else (-1)%Z) = n.
Proof.
  split.
  - apply orb_false_iff. split; [apply Z.ltb_ge|apply Z.leb_gt]; lia.
  - replace (-1 <? 0)%Z with true by reflexivity. lia.
Qed.

Lemma list_index_last (r : list label) x : list_index (r ++ [x]) (-1) = Ok x.
Proof.
  unfold list_index. rewrite app_length. simpl length. rewrite Nat.add_1_r.
  destruct (last_index_arith (length r)) as [H1 H2]. rewrite H1, H2.
  unfold nth_res. rewrite nth_error_snoc. reflexivity.
Qed.

Lemma list_pop_at_last {A} (r : list A) x : list_pop_at (r ++ [x]) (-1) = Ok (x, r).
Proof.
  unfold list_pop_at. rewrite app_length. simpl length. rewrite Nat.add_1_r.
  destruct (last_index_arith (length r)) as [H1 H2]. rewrite H1, H2.
  rewrite nth_error_snoc, firstn_snoc, skipn_snoc, app_nil_r. reflexivity.
Qed.

Lemma first_index_arith n : ((0 <? - Z.of_nat (S n))%Z || (Z.of_nat (S n) <=? 0)%Z) = false.
Proof. apply orb_false_iff. split; [apply Z.ltb_ge|apply Z.leb_gt]; lia. Qed.

Lemma list_index_first (x : label) r : list_index (x :: r) 0 = Ok x.
Proof. unfold list_index. simpl length. rewrite first_index_arith. reflexivity. Qed.

Lemma list_pop_at_first {A} (x : A) r : list_pop_at (x :: r) 0 = Ok (x, r).
Proof. unfold list_pop_at. simpl length. rewrite first_index_arith. reflexivity. Qed.

(* ---------------------------------------------------------------- the loop over the children *)
Section Loop.
Variables (c : circuit) (abort : label -> tstate -> option err) (sts1 : dict tstate).

Definition gen_discover : list event * list label -> label -> res (list event * list label) :=
  fun '(log, q) (ch : label) =>
  do t5 <- gen_get_gate c ch;
  do _ <- hook_discover abort ch (state_of sts1 ch);
  let log := log ++ [EvDiscover ch (state_of sts1 ch)] in
  if tstate_beq (state_of sts1 ch) UNVISITED then let q := q ++ [ch] in Ok (log, q) else Ok (log, q).

Definition model_discover (st : list label * list event) (ch : label) : res (list label * list event) :=
  let '(q, lg) := st in
  do _ <- get_gate c ch;
  let s := state_of sts1 ch in
  match abort ch s with
  | Some e => Err e
  | None => Ok (if tstate_beq s UNVISITED then q ++ [ch] else q, lg ++ [EvDiscover ch s])
  end.

Lemma discover_eq ns : forall log q,
  (do r <- foldM gen_discover ns (log, q); Ok (snd r, fst r)) = foldM model_discover ns (q, log).
Proof.
  induction ns as [|ch ns IH]; intros log q; [reflexivity|].
  cbn [foldM]. unfold gen_discover at 1, model_discover at 1. rewrite gen_get_gate_eq.
  destruct (get_gate c ch) as [g|e]; cbn [bind]; [|reflexivity].
  unfold hook_discover. destruct (abort ch (state_of sts1 ch)) as [e|]; cbn [bind]; [reflexivity|].
  destruct (tstate_beq (state_of sts1 ch) UNVISITED); cbn [bind]; apply IH.
Qed.

Lemma discover_prefix ns : forall log q log' q',
  foldM gen_discover ns (log, q) = Ok (log', q') -> exists extra, q' = q ++ extra.
Proof.
  induction ns as [|ch ns IH]; intros log q log' q' H.
  - injection H as <- <-. exists []. rewrite app_nil_r. reflexivity.
  - cbn [foldM] in H. unfold gen_discover at 1 in H.
    destruct (gen_get_gate c ch); cbn [bind] in H; [|discriminate].
    destruct (hook_discover abort ch (state_of sts1 ch)); cbn [bind] in H; [|discriminate].
    destruct (tstate_beq (state_of sts1 ch) UNVISITED); cbn [bind] in H.
    + destruct (IH _ _ _ _ H) as [extra ->]. exists (ch :: extra). rewrite <- app_assoc. reflexivity.
    + exact (IH _ _ _ _ H).
Qed.
End Loop.

(* ---------------------------------------------------------------- the work-list loop *)
Definition pop_index_of (mode : tmode) : Z := match mode with BFS => 0%Z | DFS => (-1)%Z end.

Lemma gen_traverse_loop_eq c abort inv mode : forall fuel sts q log,
  (do r <- gen__traverse_circuit_loop1 fuel c abort inv mode (pop_index_of mode) log sts q;
   Ok (snd (fst r), fst (fst r)))
  = traverse_loop fuel mode inv c abort sts q log.
Proof.
  induction fuel as [|fuel IH]; intros sts q log; [reflexivity|].
  cbn [gen__traverse_circuit_loop1 traverse_loop].
  (* the head of the queue, for both disciplines *)
  assert (Hhead :
    (q = [] /\ match mode with DFS => pop_last q | BFS => match q with [] => None | x :: r => Some (x, r) end end = None)
    \/ exists cur rest,
         match mode with DFS => pop_last q | BFS => match q with [] => None | x :: r => Some (x, r) end end
           = Some (cur, rest) /\
         (exists y ys, q = y :: ys) /\
         list_index q (pop_index_of mode) = Ok cur /\
         (forall extra, list_pop_at (q ++ extra) (pop_index_of mode)
                        = match mode with BFS => Ok (cur, tl (q ++ extra)) | DFS => list_pop_at (q ++ extra) (-1) end) /\
         list_pop_at q (pop_index_of mode) = Ok (cur, rest)).
  { destruct mode.
    - destruct (pop_last_cases q) as [[-> Hp]|(x & r & -> & Hp)]; [left; split; [reflexivity|exact Hp]|right].
      exists x, r. split; [exact Hp|]. split; [destruct r; simpl; eauto|].
      split; [apply list_index_last|]. split; [reflexivity|apply list_pop_at_last].
    - destruct q as [|x r]; [left; split; reflexivity|right]. exists x, r. split; [reflexivity|].
      split; [eauto|]. split; [apply list_index_first|]. split; [|apply list_pop_at_first].
      intros extra. simpl. apply list_pop_at_first. }
  destruct Hhead as [[-> Hnone]|(cur & rest & Hsome & (y & ys & Hq) & Hidx & Hpopx & Hpop)].
  { rewrite Hnone. reflexivity. }
  rewrite Hsome. rewrite Hq at 1. rewrite Hidx. cbn [bind].
  rewrite gen_get_gate_eq. destruct (get_gate c cur) as [g|e]; cbn [bind]; [|reflexivity].
  destruct (state_of sts cur) eqn:Est; cbn [tstate_beq].
  - (* UNVISITED *)
    rewrite gen_get_gate_users_eq.
    replace (if inv then get_gate_users c cur else Ok (gops g)) with (next_of inv c cur g) by reflexivity.
    destruct (next_of inv c cur g) as [ns|e]; cbn [bind]; [|reflexivity].
    match goal with |- context [foldM ?f ns (log ++ [EvEnter cur], q)] =>
      change f with (gen_discover c abort (dset sts cur ENTERED)) end.
    match goal with |- context [foldM ?f ns (q, log ++ [EvEnter cur])] =>
      change f with (model_discover c abort (dset sts cur ENTERED)) end.
    rewrite <- (discover_eq c abort (dset sts cur ENTERED) ns (log ++ [EvEnter cur]) q).
    destruct (foldM (gen_discover c abort (dset sts cur ENTERED)) ns (log ++ [EvEnter cur], q))
      as [[log2 q2]|e] eqn:Ef; cbn [bind fst snd]; [|reflexivity].
    destruct (discover_prefix _ _ _ _ _ _ _ _ Ef) as [extra ->].
    destruct mode; cbn [tmode_eqb bind].
    + apply IH.
    + rewrite (Hpopx extra). cbn [bind]. apply IH.
  - (* ENTERED *)
    rewrite Hpop. cbn [bind]. apply IH.
  - (* VISITED *)
    rewrite Hpop. cbn [bind]. apply IH.
Qed.

(* ---------------------------------------------------------------- after the loop *)
Lemma unvisited_fold (p : label -> bool) ls : forall log : list event,
  foldM (fun log l => if p l then Ok (log ++ [EvUnvisited l]) else Ok log) ls log
  = Ok (log ++ map EvUnvisited (filter p ls)).
Proof.
  induction ls as [|l ls IH]; intros log; simpl; [rewrite app_nil_r; reflexivity|].
  destruct (p l); simpl; rewrite IH; [rewrite <- app_assoc|]; reflexivity.
Qed.

Lemma foldM_map {A B St} (f : St -> B -> res St) (h : A -> B) l : forall s,
  foldM (fun s x => f s (h x)) l s = foldM f (map h l) s.
Proof.
  induction l as [|x xs IH]; intros s; simpl; [reflexivity|]. destruct (f s (h x)); simpl; [apply IH|reflexivity].
Qed.

Lemma keys_get_gate c l : In l (dkeys (gates c)) -> exists g, gen_get_gate c l = Ok g.
Proof.
  intros H. apply dmem_keys in H. rewrite gen_get_gate_eq. unfold get_gate, dmem in *.
  destruct (dget (gates c) l) as [g|]; [exists g; reflexivity|discriminate].
Qed.

Lemma unvisited_keys_fold c (p : label -> bool) ls : incl ls (dkeys (gates c)) -> forall log : list event,
  foldM (fun log l => if p l then do t10 <- gen_get_gate c l; Ok (log ++ [EvUnvisited l])
                      else Ok log) ls log
  = Ok (log ++ map EvUnvisited (filter p ls)).
Proof.
  induction ls as [|l ls IH]; intros Hi log; simpl; [rewrite app_nil_r; reflexivity|].
  destruct (p l); simpl.
  - destruct (keys_get_gate c l (Hi l (or_introl eq_refl))) as [g ->]. cbn [bind].
    rewrite IH; [rewrite <- app_assoc; reflexivity|]. intros x Hx. apply Hi. right. exact Hx.
  - apply IH. intros x Hx. apply Hi. right. exact Hx.
Qed.

(* ---------------------------------------------------------------- _traverse_circuit *)
Definition start_queue (c : circuit) (starts : option (list label)) (inverse : bool) : list label :=
  match starts with Some s => s | None => if inverse then inputs c else outputs c end.
(* the fuel of the model's traversal, as a function of the circuit *)
Definition traverse_fuel_of (starts : option (list label)) (inverse : bool) (c : circuit) : nat :=
  traverse_fuel c (start_queue c starts inverse).

Lemma gen_traverse_circuit_eq c mode starts inverse tsu abort :
  (tsu = true -> NoDup (dkeys (gates c))) ->
  gen__traverse_circuit (traverse_fuel c (start_queue c starts inverse)) size_fuel c mode starts inverse tsu abort
  = traverse mode inverse c starts tsu abort.
Proof.
  intros Hnd. unfold gen__traverse_circuit, traverse, size_fuel. unfold gen_size.
  destruct (gates c) as [|kg gs] eqn:Eg; [reflexivity|]. rewrite <- Eg in Hnd |- *.
  replace (Nat.eqb (length (gates c)) 0) with false by (rewrite Eg; reflexivity).
  clear Eg kg gs.
  replace (if tmode_eqb mode BFS then Ok 0%Z else if tmode_eqb mode DFS then Ok (-1)%Z else Err TraverseMethodError)
    with (@Ok Z (pop_index_of mode)) by (destruct mode; reflexivity).
  cbn [bind].
  replace (match starts with
           | Some v_start_gates => Ok v_start_gates
           | None => if inverse then Ok (inputs c) else Ok (outputs c)
           end) with (@Ok (list label) (start_queue c starts inverse))
    by (unfold start_queue; destruct starts; [reflexivity|destruct inverse; reflexivity]).
  cbn [bind]. fold (start_queue c starts inverse). set (queue := start_queue c starts inverse).
  rewrite <- (gen_traverse_loop_eq c abort inverse mode (traverse_fuel c queue) [] queue []).
  rewrite bind_assoc. apply bind_ext. intros [[log sts] q]. cbn [bind fst snd].
  destruct tsu.
  - rewrite <- (gen_top_sort_labels c true (Hnd eq_refl)).
    destruct (gen_top_sort (S (size c)) c true) as [r|e] eqn:Er; cbn [bind]; [|reflexivity].
    rewrite bind_ret.
    rewrite (foldM_map (fun (log : list event) l =>
               if tstate_beq (state_of sts l) UNVISITED then Ok (log ++ [EvUnvisited l]) else Ok log)
             fst r log).
    rewrite (unvisited_fold (fun l => tstate_beq (state_of sts l) UNVISITED)). cbn [bind].
    rewrite <- app_assoc. reflexivity.
  - rewrite bind_ret.
    rewrite (unvisited_keys_fold c (fun l => tstate_beq (state_of sts l) UNVISITED)); [|apply incl_refl].
    cbn [bind]. rewrite <- app_assoc. reflexivity.
Qed.

Lemma gen_dfs_eq c starts inverse tsu abort :
  (tsu = true -> NoDup (dkeys (gates c))) ->
  gen_dfs (traverse_fuel_of starts inverse) size_fuel c starts inverse tsu abort
  = traverse DFS inverse c starts tsu abort.
Proof. apply gen_traverse_circuit_eq. Qed.

Lemma gen_bfs_eq c starts inverse tsu abort :
  (tsu = true -> NoDup (dkeys (gates c))) ->
  gen_bfs (traverse_fuel_of starts inverse) size_fuel c starts inverse tsu abort
  = traverse BFS inverse c starts tsu abort.
Proof. apply gen_traverse_circuit_eq. Qed.

(* ---------------------------------------------------------------- check_circuit_has_no_cycles *)
(* the traversal depends on the discover hook only through its values *)
Lemma traverse_loop_abort_ext mode inv c (a1 a2 : label -> tstate -> option err) :
  (forall l s, a1 l s = a2 l s) ->
  forall fuel sts q log, traverse_loop fuel mode inv c a1 sts q log = traverse_loop fuel mode inv c a2 sts q log.
Proof.
  intros Hext. induction fuel as [|fuel IH]; intros sts q log; [reflexivity|].
  cbn [traverse_loop].
  destruct (match mode with DFS => pop_last q | BFS => match q with [] => None | x :: r => Some (x, r) end end)
    as [[cur rest]|]; [|reflexivity].
  destruct (get_gate c cur) as [g|e]; cbn [bind]; [|reflexivity].
  destruct (state_of sts cur); try apply IH.
  destruct (next_of inv c cur g) as [ns|e]; cbn [bind]; [|reflexivity].
  match goal with |- bind (foldM ?f1 ns ?s0) _ = bind (foldM ?f2 ns ?s0) _ =>
    replace (foldM f1 ns s0) with (foldM f2 ns s0) end.
  2:{ apply foldM_ext. intros [q0 lg] ch. rewrite Hext. reflexivity. }
  match goal with |- bind ?X _ = _ => destruct X as [[q2 log2]|e] end; cbn [bind]; [|reflexivity].
  destruct mode; apply IH.
Qed.

Lemma traverse_abort_ext mode inv c starts tsu (a1 a2 : label -> tstate -> option err) :
  (forall l s, a1 l s = a2 l s) -> traverse mode inv c starts tsu a1 = traverse mode inv c starts tsu a2.
Proof.
  intros Hext. unfold traverse. destruct (gates c); [reflexivity|].
  rewrite (traverse_loop_abort_ext mode inv c a1 a2 Hext). reflexivity.
Qed.

Lemma gen_check_circuit_has_no_cycles_eq c starts :
  gen_check_circuit_has_no_cycles (traverse_fuel_of starts false) size_fuel c starts
  = check_circuit_has_no_cycles_from c starts.
Proof.
  unfold gen_check_circuit_has_no_cycles, check_circuit_has_no_cycles_from.
  rewrite (gen_dfs_eq c starts false false _); [|discriminate].
  rewrite (traverse_abort_ext DFS false c starts false _ cycle_abort); [reflexivity|].
  intros l s. destruct s; reflexivity.
Qed.
