(* T16 tie, part 3: the regenerated circuit ENCODER (Generated/CodecAlgGen.v, from
   cirbo/circuits_db/circuits_encoding.py, and Circuit.gates_number from cirbo/core/circuit/circuit.py)
   against the hand model Model/Codec.v (and Model/Db.v for gates_number).
   The generated encoder threads a BitWriter object; `bw_of_bits bs` (Proofs/CodecAlgGenBits.v) is the writer
   that has written the bits bs.  The generated gate numbering is a `dict Z`; `zids d` is the hand model's
   `dict N` with the identifiers injected into Z.  The fuel of the generated `while pending` loop is the one
   the hand model uses (the number of non-input gates). *)
Require Import Cirbo.Model.Base Cirbo.Model.Gate Cirbo.Model.Circuit Cirbo.Model.BitIO Cirbo.Model.Codec Cirbo.Model.Db.
Require Import Cirbo.Generated.CodecTables Cirbo.Generated.CircuitCore Cirbo.Generated.CircuitAlgos.
Require Import Cirbo.Generated.CodecAlgGen.
Require Import Cirbo.Proofs.CircuitCoreGen Cirbo.Proofs.CircuitAlgosGen Cirbo.Proofs.CodecAlgGenBits.

Definition zids (d : ids) : dict Z := map (fun kv : label * N => (fst kv, Z.of_N (snd kv))) d.

Lemma gen_GATE_TYPE_BIT_SIZE_eq : gen_GATE_TYPE_BIT_SIZE = Z.of_nat GATE_TYPE_BIT_SIZE.
Proof. reflexivity. Qed.

Lemma gen__gate_type_to_int_eq t :
  kget gtype_beq gen__gate_type_to_int t = option_map Z.of_N (gate_type_to_int t).
Proof. destruct t; reflexivity. Qed.

Lemma gen__int_to_gate_type_eq n : kget Z.eqb gen__int_to_gate_type (Z.of_N n) = int_to_gate_type n.
Admitted.

Lemma gen__get_arity_eq t : gen__get_arity t = Ok (Z.of_nat (get_arity t)).
Proof. destruct t; reflexivity. Qed.

Lemma gen__generate_label_eq n : gen__generate_label (Z.of_N n) = Ok (gen_label n).
Admitted.

Lemma gen_Circuit_gates_number_eq c excl :
  gen_Circuit_gates_number c excl = Ok (Z.of_nat (gates_number c excl)).
Admitted.

Lemma gen_Circuit_gates_number_INPUT c :
  gen_Circuit_gates_number c (Some [INPUT]) = Ok (Z.of_nat (intermediates c)).
Admitted.

Lemma gen__get_word_size_eq c : gen__get_word_size c = Ok (Z.of_nat (word_size c)).
Admitted.

Lemma gen__enumerate_gates_eq c :
  gen__enumerate_gates (length (non_input_labels c)) c = do d <- enumerate_gates c; Ok (zids d).
Admitted.

Lemma gen__encode_header_eq bs ws :
  gen__encode_header (bw_of_bits bs) (Z.of_nat ws) = do b <- write_byte (N.of_nat ws); Ok (bw_of_bits (bs ++ b)).
Admitted.

Lemma gen__encode_circuit_parameters_eq bs ws c :
  gen__encode_circuit_parameters (bw_of_bits bs) (Z.of_nat ws) c
  = do p1 <- write_number (N.of_nat (length (inputs c))) ws;
    do p2 <- write_number (N.of_nat (length (outputs c))) ws;
    do p3 <- write_number (N.of_nat (intermediates c)) ws;
    Ok (bw_of_bits (bs ++ p1 ++ p2 ++ p3)).
Admitted.

Lemma gen__encode_gate_eq bs c d ws l g : get_gate c l = Ok g ->
  gen__encode_gate (bw_of_bits bs) (l, g) (zids d) (Z.of_nat ws)
  = do b <- encode_gate c d ws l; Ok (bw_of_bits (bs ++ b)).
Admitted.

Lemma gen__encode_circuit_body_eq bs c ws :
  gen__encode_circuit_body (length (non_input_labels c)) (bw_of_bits bs) (Z.of_nat ws) c
  = do d <- enumerate_gates c;
    do gb <- mapM (encode_gate c d ws) (dkeys d);
    do ob <- mapM (write_id d ws) (outputs c);
    Ok (bw_of_bits (bs ++ concat gb ++ concat ob)).
Admitted.

(* for every circuit: same bytes, same error *)
Theorem gen_encode_circuit_eq c : gen_encode_circuit (length (non_input_labels c)) c = encode_circuit c.
Admitted.
