(* T16 tie, part 3: the regenerated circuit ENCODER (Generated/CodecAlgGen.v, from
   cirbo/circuits_db/circuits_encoding.py, and Circuit.gates_number from cirbo/core/circuit/circuit.py)
   against the hand model Model/Codec.v (and Model/Db.v for gates_number).
   The generated encoder threads a BitWriter object; `bw_of_bits bs` (Proofs/CodecAlgGenBits.v) is the writer
   that has written the bits bs.  The generated gate numbering is a `dict Z`; `zids d` is the hand model's
   `dict N` with the identifiers injected into Z.  The fuel of the generated `while pending` loop is the one
   the hand model uses (the number of non-input gates). *)
Require Import Cirbo.Model.Base Cirbo.Model.Gate Cirbo.Model.Circuit Cirbo.Model.BitIO Cirbo.Model.Codec Cirbo.Model.Db.
Require Import Cirbo.Generated.CodecTables Cirbo.Generated.CircuitCore Cirbo.Generated.CircuitAlgos.
Require Import Cirbo.Generated.CodecAlgGen.
Require Import Cirbo.Proofs.CircuitCoreGen Cirbo.Proofs.CircuitAlgosGen Cirbo.Proofs.CodecAlgGenBits.

Definition zids (d : ids) : dict Z := map (fun kv : label * N => (fst kv, Z.of_N (snd kv))) d.

Lemma gen_GATE_TYPE_BIT_SIZE_eq : gen_GATE_TYPE_BIT_SIZE = Z.of_nat GATE_TYPE_BIT_SIZE.
Proof. reflexivity. Qed.

Lemma gen__gate_type_to_int_eq t :
  kget gtype_beq gen__gate_type_to_int t = option_map Z.of_N (gate_type_to_int t).
Proof. destruct t; reflexivity. Qed.

Lemma int_to_gate_type_tbl : gen__int_to_gate_type
  = [(0, NOT); (1, AND); (2, OR); (3, NOR); (4, NAND); (5, XOR); (6, NXOR); (7, IFF); (8, GEQ); (9, GT);
     (10, LEQ); (11, LT); (12, ALWAYS_TRUE); (13, ALWAYS_FALSE)]%Z.
Proof. reflexivity. Qed.

Lemma gen__int_to_gate_type_eq n : kget Z.eqb gen__int_to_gate_type (Z.of_N n) = int_to_gate_type n.
Proof.
  rewrite int_to_gate_type_tbl. destruct n as [|p]; [reflexivity|].
  do 4 (destruct p as [p|p|]; try reflexivity).
Qed.

Lemma gen__get_arity_eq t : gen__get_arity t = Ok (Z.of_nat (get_arity t)).
Proof. destruct t; reflexivity. Qed.

Lemma gen__generate_label_eq n : gen__generate_label (Z.of_N n) = Ok (gen_label n).
Proof.
  unfold gen__generate_label, py_str_of_int, gen_label.
  replace (Z.of_N n <? 0)%Z with false by (symmetry; apply Z.ltb_ge; lia).
  rewrite N2Z.id. reflexivity.
Qed.

Lemma fold_add_ones {A} (l : list A) a :
  fold_left Z.add (map (fun _ => 1%Z) l) a = (a + Z.of_nat (length l))%Z.
Proof.
  revert a; induction l as [|x l IH]; intros a; cbn [map fold_left length]; [lia|]. rewrite IH. lia.
Qed.

Lemma filter_map_len {A B} (f : A -> B) p l :
  length (filter p (map f l)) = length (filter (fun x => p (f x)) l).
Proof.
  induction l as [|a l IH]; cbn [map filter]; [reflexivity|].
  destruct (p (f a)); cbn [length]; rewrite IH; reflexivity.
Qed.

Lemma gen_Circuit_gates_number_eq c excl :
  gen_Circuit_gates_number c excl = Ok (Z.of_nat (gates_number c excl)).
Proof.
  unfold gen_Circuit_gates_number, gates_number, py_sum. rewrite fold_add_ones, filter_map_len.
  destruct excl; reflexivity.
Qed.

Lemma gen_Circuit_gates_number_INPUT c :
  gen_Circuit_gates_number c (Some [INPUT]) = Ok (Z.of_nat (intermediates c)).
Proof.
  rewrite gen_Circuit_gates_number_eq. unfold gates_number, intermediates. do 3 f_equal.
  apply filter_ext. intros kg. cbn [existsb]. rewrite orb_false_r. reflexivity.
Qed.

Lemma py_bit_length_nat m : py_bit_length (Z.of_nat m) = Z.of_nat (bit_length m).
Proof.
  unfold py_bit_length, bit_length. rewrite N_nat_Z, <- (nat_N_Z m), Zabs2N.id. reflexivity.
Qed.

Lemma gen__get_word_size_eq c : gen__get_word_size c = Ok (Z.of_nat (word_size c)).
Proof.
  unfold gen__get_word_size, word_size, py_len. rewrite gen_size_eq.
  destruct (Nat.eqb_spec (size c) 0) as [E|E].
  - rewrite E. reflexivity.
  - replace (Z.of_nat (size c) =? 0)%Z with false by (symmetry; apply Z.eqb_neq; lia).
    rewrite <- py_bit_length_nat. do 2 f_equal. lia.
Qed.

(* ---- zids ---- *)
Lemma zids_dset d l v : zids (dset d l v) = dset (zids d) l (Z.of_N v).
Proof.
  unfold zids. induction d as [|[k w] d IH]; cbn [dset map fst snd]; [reflexivity|].
  destruct (leqb l k); cbn [map fst snd]; [reflexivity|]. rewrite IH. reflexivity.
Qed.

Lemma zids_len d : py_len (zids d) = Z.of_N (N.of_nat (length d)).
Proof. unfold py_len, zids. rewrite map_length, nat_N_Z. reflexivity. Qed.

Lemma zids_dget d k : dget (zids d) k = option_map Z.of_N (dget d k).
Proof.
  unfold zids. induction d as [|[k' w] d IH]; cbn [dget map fst snd]; [reflexivity|].
  destruct (leqb k k'); [reflexivity|exact IH].
Qed.

Lemma zids_dmem d k : dmem (zids d) k = dmem d k.
Proof. unfold dmem. rewrite zids_dget. destruct (dget d k); reflexivity. Qed.

Lemma zids_add d l : dset (zids d) l (py_len (zids d)) = zids (ids_add d l).
Proof. unfold ids_add. rewrite zids_dset, zids_len. reflexivity. Qed.

Lemma forallb_ext' {A} (f g : A -> bool) l : (forall x, f x = g x) -> forallb f l = forallb g l.
Proof. intros H. induction l as [|a l IH]; cbn [forallb]; [reflexivity|]. rewrite H, IH. reflexivity. Qed.

Lemma py_len_eqb {A B} (l1 : list A) (l2 : list B) :
  (py_len l1 =? py_len l2)%Z = (length l1 =? length l2)%nat.
Proof.
  unfold py_len. destruct (Nat.eqb_spec (length l1) (length l2)) as [E|E].
  - rewrite E. apply Z.eqb_refl.
  - apply Z.eqb_neq. lia.
Qed.

(* ---- _enumerate_gates ---- *)
Lemma enum_inputs_gen ls d :
  foldM (fun (v_result : dict Z) (v_input_label : label) =>
           let v_result := dset v_result v_input_label (py_len v_result) in Ok v_result) ls (zids d)
  = Ok (zids (fold_left ids_add ls d)).
Proof.
  revert d; induction ls as [|l ls IH]; intros d; cbn [foldM fold_left bind]; [reflexivity|].
  rewrite zids_add. apply IH.
Qed.

Lemma enum_inputs_gen0 ls :
  foldM (fun (v_result : dict Z) (v_input_label : label) => Ok (dset v_result v_input_label (py_len v_result))) ls []
  = Ok (zids (fold_left ids_add ls [])).
Proof. exact (enum_inputs_gen ls []). Qed.

Lemma pending_eq c :
  map (fun '((v_gate_label, v_gate_) : label * gate) => v_gate_label)
      (filter (fun '((v_gate_label, v_gate_) : label * gate) => negb (gtype_beq (gtyp v_gate_) INPUT)) (gates c))
  = non_input_labels c.
Proof.
  unfold non_input_labels. generalize (gates c). intros l.
  induction l as [|[k g] l IH]; cbn [filter map fst snd]; [reflexivity|].
  destruct (negb (gtype_beq (gtyp g) INPUT)); cbn [map fst]; rewrite IH; reflexivity.
Qed.

Definition pass_body (c : circuit) : dict Z * list label -> label -> res (dict Z * list label) :=
  fun '((v_result, v_postponed) : (dict Z) * (list label)) (v_gate_label : label) =>
    do t1 <- gen_get_gate c v_gate_label;
    do (v_result, v_postponed) <-
      (if forallb (fun (v_op : label) => dmem v_result v_op) (gops (snd (v_gate_label, t1))) then
        let v_result := dset v_result v_gate_label (py_len v_result) in
        Ok (v_result, v_postponed)
       else
        let v_postponed := v_postponed ++ [v_gate_label] in
        Ok (v_result, v_postponed));
    Ok (v_result, v_postponed).

Lemma loop1_unfold fuel c r p ps :
  gen__enumerate_gates_loop1 (S fuel) c r (p :: ps)
  = do rp <- foldM (pass_body c) (p :: ps) (r, []);
    if (py_len (snd rp) =? py_len (p :: ps))%Z then Err CircuitEncodingError
    else gen__enumerate_gates_loop1 fuel c (fst rp) (snd rp).
Proof.
  cbn [gen__enumerate_gates_loop1 py_nonempty]. unfold pass_body.
  destruct (foldM _ (p :: ps) (r, [])) as [[r' post]|e]; reflexivity.
Qed.

Lemma enum_pass_gen c pending d post :
  foldM (pass_body c) pending (zids d, post)
  = do r <- enum_pass c pending d post; Ok (zids (fst r), snd r).
Proof.
  revert d post; induction pending as [|l rest IH]; intros d post; cbn [foldM enum_pass bind]; [reflexivity|].
  unfold pass_body at 1. rewrite gen_get_gate_eq.
  destruct (get_gate c l) as [g|e]; cbn [bind snd]; [|reflexivity].
  rewrite (forallb_ext' _ (fun op => dmem d op)) by (intros; apply zids_dmem).
  destruct (forallb _ (gops g)); cbn [bind]; [rewrite zids_add|]; apply IH.
Qed.

Lemma enum_loop_gen fuel c pending d :
  gen__enumerate_gates_loop1 fuel c (zids d) pending
  = do d' <- enum_loop fuel c pending d; Ok (zids d', []).
Proof.
  revert pending d; induction fuel as [|fuel IH]; intros [|p ps] d; try reflexivity.
  rewrite loop1_unfold, enum_pass_gen. cbn [enum_loop].
  destruct (enum_pass c (p :: ps) d []) as [[d1 post]|e]; cbn [bind fst snd]; [|reflexivity].
  rewrite py_len_eqb. destruct (length post =? length (p :: ps))%nat; [reflexivity|apply IH].
Qed.

Lemma gen__enumerate_gates_eq c :
  gen__enumerate_gates (length (non_input_labels c)) c = do d <- enumerate_gates c; Ok (zids d).
Proof.
  unfold gen__enumerate_gates, enumerate_gates.
  cbv zeta. rewrite (enum_inputs_gen0 (inputs c)). cbn [bind]. rewrite pending_eq, enum_loop_gen.
  destruct (enum_loop _ _ _ _); reflexivity.
Qed.

Lemma gen__encode_header_eq bs ws :
  gen__encode_header (bw_of_bits bs) (Z.of_nat ws) = do b <- write_byte (N.of_nat ws); Ok (bw_of_bits (bs ++ b)).
Proof.
  unfold gen__encode_header. rewrite <- (nat_N_Z ws), gen_BitWriter_write_byte_eq.
  destruct (write_byte _); reflexivity.
Qed.

Lemma gen__encode_circuit_parameters_eq bs ws c :
  gen__encode_circuit_parameters (bw_of_bits bs) (Z.of_nat ws) c
  = do p1 <- write_number (N.of_nat (length (inputs c))) ws;
    do p2 <- write_number (N.of_nat (length (outputs c))) ws;
    do p3 <- write_number (N.of_nat (intermediates c)) ws;
    Ok (bw_of_bits (bs ++ p1 ++ p2 ++ p3)).
Proof.
  unfold gen__encode_circuit_parameters, py_len.
  rewrite <- (nat_N_Z (length (inputs c))), gen_BitWriter_write_number_eq.
  destruct (write_number _ ws) as [p1|e]; cbn [bind]; [|reflexivity].
  rewrite <- (nat_N_Z (length (outputs c))), gen_BitWriter_write_number_eq.
  destruct (write_number _ ws) as [p2|e]; cbn [bind]; [|reflexivity].
  rewrite gen_Circuit_gates_number_INPUT. cbn [bind].
  rewrite <- (nat_N_Z (intermediates c)), gen_BitWriter_write_number_eq.
  destruct (write_number _ ws) as [p3|e]; cbn [bind]; [|reflexivity].
  rewrite <- !app_assoc. reflexivity.
Qed.

Lemma py_len_nat_eqb {A} (l : list A) n : (py_len l =? Z.of_nat n)%Z = (length l =? n)%nat.
Proof.
  unfold py_len. destruct (Nat.eqb_spec (length l) n) as [E|E].
  - rewrite E. apply Z.eqb_refl.
  - apply Z.eqb_neq. lia.
Qed.

(* `for label in ...: bit_writer.write_number(gate_identifiers[label], word_size)` *)
Lemma ops_loop d ws ops bs :
  foldM (fun (v_bit_writer : gen_BitWriter) (v_operand_label : label) =>
           do t2 <- dget_res (zids d) v_operand_label;
           do v_bit_writer <- gen_BitWriter_write_number v_bit_writer t2 (Z.of_nat ws);
           Ok v_bit_writer) ops (bw_of_bits bs)
  = do ob <- mapM (write_id d ws) ops; Ok (bw_of_bits (bs ++ concat ob)).
Proof.
  revert bs; induction ops as [|a ops IH]; intros bs; cbn [foldM mapM bind concat].
  - rewrite app_nil_r. reflexivity.
  - unfold dget_res at 1, write_id at 1. rewrite zids_dget.
    destruct (dget d a) as [i|]; cbn [option_map bind]; [|reflexivity].
    rewrite gen_BitWriter_write_number_eq.
    destruct (write_number i ws) as [nb|e]; cbn [bind]; [|reflexivity].
    rewrite IH. destruct (mapM _ ops) as [ob|e]; cbn [bind concat]; [|reflexivity].
    rewrite app_assoc. reflexivity.
Qed.

Lemma gen__encode_gate_eq bs c d ws l g : get_gate c l = Ok g ->
  gen__encode_gate (bw_of_bits bs) (l, g) (zids d) (Z.of_nat ws)
  = do b <- encode_gate c d ws l; Ok (bw_of_bits (bs ++ b)).
Proof.
  intros Hg. unfold gen__encode_gate, encode_gate. rewrite Hg. cbn [bind snd].
  destruct (gtype_beq (gtyp g) INPUT); [cbn [bind]; rewrite app_nil_r; reflexivity|].
  rewrite gen__gate_type_to_int_eq.
  destruct (gate_type_to_int (gtyp g)) as [code|]; cbn [option_map]; [|reflexivity].
  rewrite gen__get_arity_eq. cbn [bind]. rewrite py_len_nat_eqb.
  destruct (negb _); [reflexivity|].
  rewrite gen_GATE_TYPE_BIT_SIZE_eq, gen_BitWriter_write_number_eq.
  destruct (write_number code GATE_TYPE_BIT_SIZE) as [tb|e]; cbn [bind]; [|reflexivity].
  rewrite ops_loop. destruct (mapM _ _) as [ob|e]; cbn [bind]; [|reflexivity].
  rewrite app_assoc. reflexivity.
Qed.

Lemma gates_loop c d ws ls bs :
  foldM (fun (v_bit_writer : gen_BitWriter) (v_label : label) =>
           do t1 <- gen_get_gate c v_label;
           do v_bit_writer <- gen__encode_gate v_bit_writer (v_label, t1) (zids d) (Z.of_nat ws);
           Ok v_bit_writer) ls (bw_of_bits bs)
  = do gb <- mapM (encode_gate c d ws) ls; Ok (bw_of_bits (bs ++ concat gb)).
Proof.
  revert bs; induction ls as [|a ls IH]; intros bs; cbn [foldM mapM bind concat].
  - rewrite app_nil_r. reflexivity.
  - rewrite gen_get_gate_eq. destruct (get_gate c a) as [g|e] eqn:Eg; cbn [bind].
    + rewrite (gen__encode_gate_eq bs c d ws a g Eg).
      destruct (encode_gate c d ws a) as [b|e]; cbn [bind]; [|reflexivity].
      rewrite IH. destruct (mapM _ ls) as [gb|e]; cbn [bind concat]; [|reflexivity].
      rewrite app_assoc. reflexivity.
    + assert (encode_gate c d ws a = Err e) as -> by (unfold encode_gate; rewrite Eg; reflexivity).
      reflexivity.
Qed.

Lemma gen__encode_circuit_body_eq bs c ws :
  gen__encode_circuit_body (length (non_input_labels c)) (bw_of_bits bs) (Z.of_nat ws) c
  = do d <- enumerate_gates c;
    do gb <- mapM (encode_gate c d ws) (dkeys d);
    do ob <- mapM (write_id d ws) (outputs c);
    Ok (bw_of_bits (bs ++ concat gb ++ concat ob)).
Proof.
  unfold gen__encode_circuit_body. rewrite gen__enumerate_gates_eq.
  destruct (enumerate_gates c) as [d|e]; cbn [bind]; [|reflexivity].
  replace (map fst (zids d)) with (dkeys d) by (unfold dkeys, zids; rewrite map_map; reflexivity).
  rewrite gates_loop. destruct (mapM _ (dkeys d)) as [gb|e]; cbn [bind]; [|reflexivity].
  rewrite ops_loop. destruct (mapM _ (outputs c)) as [ob|e]; cbn [bind]; [|reflexivity].
  rewrite <- app_assoc. reflexivity.
Qed.

(* for every circuit: same bytes, same error *)
Theorem gen_encode_circuit_eq c : gen_encode_circuit (length (non_input_labels c)) c = encode_circuit c.
Proof.
  unfold gen_encode_circuit, encode_circuit, encode_bits.
  rewrite gen__get_word_size_eq. cbn [bind]. rewrite gen_BitWriter_init_eq. cbn [bind].
  rewrite gen__encode_header_eq. cbn [app].
  destruct (write_byte _) as [h|e]; cbn [bind]; [|reflexivity].
  rewrite gen__encode_circuit_parameters_eq.
  destruct (write_number _ (word_size c)) as [p1|e]; cbn [bind]; [|reflexivity].
  destruct (write_number _ (word_size c)) as [p2|e]; cbn [bind]; [|reflexivity].
  destruct (write_number _ (word_size c)) as [p3|e]; cbn [bind]; [|reflexivity].
  rewrite gen__encode_circuit_body_eq.
  destruct (enumerate_gates c) as [d|e]; cbn [bind]; [|reflexivity].
  destruct (mapM _ (dkeys d)) as [gb|e]; cbn [bind]; [|reflexivity].
  destruct (mapM _ (outputs c)) as [ob|e]; cbn [bind]; [|reflexivity].
  rewrite gen_BitWriter_bytes_eq. rewrite <- !app_assoc. reflexivity.
Qed.
