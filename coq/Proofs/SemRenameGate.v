(* C19, rename_gate: exact characterisation of success, the renamed state (every reference
   is the image under  ren old new l := if l = old then new else l), and transport of the
   relational semantics along the renaming. *)
Require Import Cirbo.Model.Base Cirbo.Model.Gate Cirbo.Model.Circuit Cirbo.Model.Eval Cirbo.Model.Sem
        Cirbo.Model.WF.
Require Import Cirbo.Proofs.DictFacts Cirbo.Proofs.WFBase Cirbo.Proofs.WFSimple Cirbo.Proofs.WFEmplace
        Cirbo.Proofs.WFRename Cirbo.Proofs.WFRename2 Cirbo.Proofs.SemFacts Cirbo.Proofs.SemExt.

Definition ren (old new l : label) : label := if leqb l old then new else l.

Lemma subst_label_ren old new L : subst_label old new L = map (ren old new) L.
Proof. reflexivity. Qed.

Lemma map_ren_id old new L : ~ In old L -> map (ren old new) L = L.
Proof. intros H; rewrite <- subst_label_ren; apply subst_label_id, H. Qed.

Lemma subst_first_ren old new L : NoDup L -> subst_first old new L = map (ren old new) L.
Proof.
  induction L as [|y L IH]; simpl; intros Hnd; [reflexivity|]. inversion Hnd as [|? ? Hn Hd]; subst.
  unfold ren at 1. destruct (leqb_spec y old) as [->|Hne].
  - rewrite map_ren_id by assumption; reflexivity.
  - rewrite IH by assumption; reflexivity.
Qed.

Lemma ren_inj old new x y : x <> new -> y <> new -> ren old new x = ren old new y -> x = y.
Proof. unfold ren; intros Hx Hy; destruct (leqb_spec x old), (leqb_spec y old); congruence. Qed.

Lemma ren_back old new x : x <> new -> ren new old (ren old new x) = x.
Proof.
  unfold ren; intros Hx. destruct (leqb_spec x old) as [->|Hne].
  - rewrite leqb_refl; reflexivity.
  - apply leqb_neq in Hx; rewrite Hx; reflexivity.
Qed.

Lemma map_ren_back old new L : ~ In new L -> map (ren new old) (map (ren old new) L) = L.
Proof.
  induction L as [|y L IH]; simpl; intros H; [reflexivity|].
  rewrite ren_back, IH; [reflexivity| |]; intros E; apply H; auto.
Qed.

Lemma count_map_ren old new x L :
  x <> new -> ~ In new L -> count (ren old new x) (map (ren old new) L) = count x L.
Proof.
  intros Hx; induction L as [|y L IH]; simpl; intros H; [reflexivity|].
  rewrite IH by (intros E; apply H; auto). f_equal.
  destruct (leqb_spec x y) as [->|Hne]; [rewrite leqb_refl; reflexivity|].
  destruct (leqb_spec (ren old new x) (ren old new y)) as [E|]; [|reflexivity].
  apply ren_inj in E; [contradiction|assumption|]. intros ->; apply H; auto.
Qed.

Lemma remove1_app_in x L L' : In x L -> remove1 x (L ++ L') = remove1 x L ++ L'.
Proof.
  induction L as [|y L IH]; simpl; intros Hin; [destruct Hin|].
  destruct (leqb_spec x y) as [->|Hne]; [reflexivity|]. destruct Hin as [->|Hin]; [congruence|].
  rewrite IH by assumption; reflexivity.
Qed.

Lemma dmem_keys_eq' {V} (d1 d2 : dict V) x : dkeys d1 = dkeys d2 -> dmem d1 x = dmem d2 x.
Proof.
  intros E. destruct (dmem d1 x) eqn:E1, (dmem d2 x) eqn:E2; try reflexivity.
  - apply dmem_keys in E1. rewrite E in E1. apply dmem_keys in E1. congruence.
  - apply dmem_keys in E2. rewrite <- E in E2. apply dmem_keys in E2. congruence.
Qed.

(* ------------------------------------------------------------------ *)
(* rename_gate written with the two loops Fg / Fu of Proofs/WFRename.v *)
Lemma rename_gate_eq c old new : rename_gate c old new =
  if negb (has_gate c old) then Err CircuitGateIsAbsentError else
  if has_gate c new then Err CircuitGateAlreadyExistsError else
  do p <- match dget (users c) old with
          | Some us => do gs <- foldM (Fg old new) us (gates c); Ok (gs, ddel (dset (users c) new us) old)
          | None => Ok (gates c, users c) end;
  do og <- match dget (fst p) old with Some g => Ok g | None => Err PyKeyError end;
  do us' <- foldM (Fu old new) (gops og) (snd p);
  Ok (mkCircuit (if memb old (inputs c) then subst_first old new (inputs c) else inputs c)
                (if memb old (outputs c) then subst_label old new (outputs c) else outputs c)
                (ddel (dset (fst p) new (mkGate (gtyp og) (gops og))) old) us'
                (map (fun kb => (fst kb, rename_in_block old new (snd kb))) (blocks c))).
Proof.
  unfold rename_gate. destruct (has_gate c old); simpl; [|reflexivity].
  destruct (has_gate c new); [reflexivity|].
  destruct (memb old (inputs c)); simpl; destruct (memb old (outputs c)); simpl;
  (destruct (dget (users c) old) as [us|]; simpl;
   [destruct (foldM _ us (gates c)) as [gs|] eqn:E; simpl|]).
  all: try (unfold Fg; rewrite E; simpl).
  all: try reflexivity.
  all: try (destruct (dget gs old) as [og|]; simpl; [|reflexivity]).
  all: try (destruct (dget (gates c) old) as [og|]; simpl; [|reflexivity]).
  all: try (unfold Fu; destruct (foldM _ (gops og) _) as [us'|] eqn:E2; simpl; reflexivity).
Qed.

(* the state between the two loops *)
Lemma rename_mid c old new gs3 ud3 og0 :
  WF c -> old <> new -> has_gate c new = false -> dget (gates c) old = Some og0 ->
  match dget (users c) old with
  | Some us => foldM (Fg old new) us (gates c) = Ok gs3 /\ ud3 = ddel (dset (users c) new us) old
  | None => gs3 = gates c /\ ud3 = users c
  end ->
  dkeys gs3 = dkeys (gates c) /\
  (forall x, dget gs3 x = option_map (rn old new) (dget (gates c) x)) /\
  dget gs3 old = Some og0 /\
  NoDup (dkeys ud3) /\
  (forall x, lst ud3 x = if leqb x old then [] else if leqb x new then users_of c old else users_of c x).
Proof.
  intros W Hon Hn Hog0 H3.
  pose proof (no_self_loop _ _ _ W Hog0) as Hself.
  assert (Hid : forall x us, us = users_of c old -> memb x us = false ->
                option_map (rn old new) (dget (gates c) x) = dget (gates c) x).
  { intros x us -> Hm. destruct (dget (gates c) x) as [gx|] eqn:Ex; [|reflexivity]. simpl. f_equal.
    apply rn_id. intros Hin. apply memb_nIn in Hm. apply Hm. apply (In_users_ops c old x W).
    rewrite (ops_of_get _ _ _ Ex). exact Hin. }
  assert (G3 : dkeys gs3 = dkeys (gates c) /\
               forall x, dget gs3 x = option_map (rn old new) (dget (gates c) x)).
  { destruct (dget (users c) old) as [us|] eqn:Eus.
    - destruct H3 as [H3 _]. apply (Fg_fold old new Hon) in H3. destruct H3 as [Hk Hg]. split; [assumption|].
      intros x; rewrite Hg. destruct (memb x us) eqn:Em; [reflexivity|]. symmetry; apply (Hid x us); [|assumption].
      unfold users_of; rewrite Eus; reflexivity.
    - destruct H3 as [-> _]. split; [reflexivity|]. intros x; symmetry; apply (Hid x []); [|reflexivity].
      unfold users_of; rewrite Eus; reflexivity. }
  destruct G3 as [Gk G3]. split; [exact Gk|]. split; [exact G3|].
  split; [rewrite G3, Hog0; simpl; f_equal; apply rn_id, Hself|].
  destruct (dget (users c) old) as [us|] eqn:Eus.
  - destruct H3 as [_ ->]. split; [apply NoDup_dkeys_ddel, NoDup_dkeys_dset, (wf_ukeys c W)|].
    intros x; unfold lst. rewrite dget_ddel by apply NoDup_dkeys_dset, (wf_ukeys c W). rewrite dget_dset.
    destruct (leqb x old); [reflexivity|]. destruct (leqb x new); [|reflexivity].
    unfold users_of; rewrite Eus; reflexivity.
  - destruct H3 as [_ ->]. split; [apply (wf_ukeys c W)|]. intros x. rewrite <- users_of_lst.
    destruct (leqb_spec x old) as [->|]; [unfold users_of; rewrite Eus; reflexivity|].
    destruct (leqb_spec x new) as [->|]; [|reflexivity]. rewrite (users_of_nongate c new W Hn).
    unfold users_of; rewrite Eus; reflexivity.
Qed.

(* ------------------------------------------------------------------ *)
(* the loops do not fail on a well formed circuit *)
Lemma Fg_fold_ok old new us : forall gs,
  (forall u, In u us -> dmem gs u = true) -> exists gs', foldM (Fg old new) us gs = Ok gs'.
Proof.
  induction us as [|u us IH]; simpl; intros gs H; [eauto|].
  unfold Fg at 1. destruct (dmem_true_get gs u (H u (or_introl eq_refl))) as [ug ->]. simpl.
  apply IH. intros u' Hu'. rewrite dmem_dset, (H u' (or_intror Hu')). apply orb_true_r.
Qed.

Lemma Fu_fold_ok old new ops : old <> new -> forall usd,
  (forall op, In op ops -> count op ops <= count old (lst usd op)) ->
  exists usd', foldM (Fu old new) ops usd = Ok usd'.
Proof.
  intros Hon; induction ops as [|o ops IH]; simpl; intros usd H; [eauto|].
  pose proof (H o (or_introl eq_refl)) as Ho. rewrite leqb_refl in Ho.
  unfold Fu at 1. unfold lst in Ho. destruct (dget usd o) as [ou|] eqn:Eo; [|simpl in Ho; lia].
  assert (In old ou) as Hin by (apply count_pos_In; lia).
  rewrite (proj2 (memb_In old ou) Hin). simpl. apply IH. intros op Hop.
  unfold lst; rewrite dget_dset. destruct (leqb_spec op o) as [->|Hne].
  - pose proof (count_subst_first old new old ou Hin) as Hc. rewrite leqb_refl in Hc.
    apply leqb_neq in Hon; rewrite Hon in Hc. lia.
  - specialize (H op (or_intror Hop)). apply leqb_neq in Hne; rewrite Hne in H. exact H.
Qed.

Theorem rename_gate_ok c old new :
  WF c -> has_gate c old = true -> has_gate c new = false -> exists c', rename_gate c old new = Ok c'.
Proof.
  intros W Ho Hn. rewrite rename_gate_eq, Ho, Hn; simpl.
  assert (Hon : old <> new) by (intros ->; congruence).
  destruct (has_gate_get _ _ Ho) as [og0 Hog0].
  assert (exists gs3 ud3,
    match dget (users c) old with
    | Some us => do gs <- foldM (Fg old new) us (gates c); Ok (gs, ddel (dset (users c) new us) old)
    | None => Ok (gates c, users c) end = Ok (gs3, ud3) /\
    match dget (users c) old with
    | Some us => foldM (Fg old new) us (gates c) = Ok gs3 /\ ud3 = ddel (dset (users c) new us) old
    | None => gs3 = gates c /\ ud3 = users c
    end) as (gs3 & ud3 & E & Hmid).
  { destruct (dget (users c) old) as [us|] eqn:Eus; [|eauto].
    destruct (Fg_fold_ok old new us (gates c)) as [gs3 Hgs].
    - intros u Hu. assert (In u (users_of c old)) as Hu' by (unfold users_of; rewrite Eus; exact Hu).
      apply (In_users_ops c old u W) in Hu'. unfold ops_of in Hu'.
      unfold dmem. destruct (dget (gates c) u); [reflexivity|destruct Hu'].
    - exists gs3, (ddel (dset (users c) new us) old). rewrite Hgs; simpl. auto. }
  rewrite E; simpl.
  destruct (rename_mid c old new gs3 ud3 og0 W Hon Hn Hog0 Hmid) as (_ & _ & Hold & _ & U3).
  rewrite Hold; simpl.
  destruct (Fu_fold_ok old new (gops og0) Hon ud3) as [us' Hus'].
  - intros op Hop. rewrite U3.
    destruct (leqb_spec op old) as [->|Hne1]; [exfalso; eapply no_self_loop; eassumption|].
    destruct (leqb_spec op new) as [->|Hne2].
    { rewrite (wf_ops c W old og0 new Hog0 Hop) in Hn; discriminate. }
    rewrite (wf_users c W), (ops_of_get _ _ _ Hog0). lia.
  - rewrite Hus'; simpl. eauto.
Qed.

(* exact outcome of rename_gate on a well formed circuit *)
Theorem rename_gate_outcome c old new : WF c ->
  (has_gate c old = false -> rename_gate c old new = Err CircuitGateIsAbsentError) /\
  (has_gate c old = true -> has_gate c new = true ->
   rename_gate c old new = Err CircuitGateAlreadyExistsError) /\
  (has_gate c old = true -> has_gate c new = false -> exists c', rename_gate c old new = Ok c').
Proof.
  intros W. split; [|split].
  - intros H; unfold rename_gate; rewrite H; reflexivity.
  - intros H1 H2; unfold rename_gate; rewrite H1, H2; reflexivity.
  - apply rename_gate_ok, W.
Qed.

Corollary rename_gate_ok_iff c old new : WF c ->
  ((exists c', rename_gate c old new = Ok c') <-> has_gate c old = true /\ has_gate c new = false).
Proof.
  intros W; split.
  - intros [c' H]. apply rename_gate_inv in H. tauto.
  - intros [H1 H2]; apply rename_gate_ok; assumption.
Qed.

(* ------------------------------------------------------------------ *)
(* the renamed state *)
Lemma rename_gate_gates c old new c' : WF c -> rename_gate c old new = Ok c' ->
  exists og, dget (gates c) old = Some og /\
    forall x, dget (gates c') x =
              if leqb x old then None else if leqb x new then Some og
              else option_map (rn old new) (dget (gates c) x).
Proof.
  intros W H. apply rename_gate_inv in H.
  destruct H as (Ho & Hn & gs3 & ud3 & og & us' & H3 & Hog & Hus & E).
  assert (Hon : old <> new) by (intros ->; congruence).
  destruct (has_gate_get _ _ Ho) as [og0 Hog0].
  destruct (rename_mid c old new gs3 ud3 og0 W Hon Hn Hog0 H3) as (Gk & G3 & Hold & _ & _).
  assert (og = og0) by congruence. subst og.
  exists og0; split; [assumption|]. intros x; rewrite E; simpl.
  rewrite dget_ddel by (apply NoDup_dkeys_dset; rewrite Gk; apply (wf_gkeys c W)).
  rewrite dget_dset, G3. destruct og0; reflexivity.
Qed.

Section Renamed.
  Variables (c c' : circuit) (old new : label).
  Hypothesis W : WF c.
  Hypothesis H : rename_gate c old new = Ok c'.
  Local Notation r := (ren old new).

  Lemma rename_old_new : has_gate c old = true /\ has_gate c new = false /\ old <> new.
  Proof.
    pose proof (rename_gate_inv _ _ _ _ H) as (Ho & Hn & _).
    repeat split; try assumption. intros ->; congruence.
  Qed.

  Lemma gate_not_new x : has_gate c x = true -> x <> new.
  Proof. destruct rename_old_new as (_ & Hn & _). intros Hx ->; congruence. Qed.

  Lemma ops_not_new x g : dget (gates c) x = Some g -> ~ In new (gops g).
  Proof.
    destruct rename_old_new as (_ & Hn & _). intros Hg Hin.
    rewrite (wf_ops c W x g new Hg Hin) in Hn; discriminate.
  Qed.

  (* gate map: the gate stored under x is stored under r x, with operands renamed *)
  Lemma rename_gate_get x g :
    dget (gates c) x = Some g -> dget (gates c') (r x) = Some (mkGate (gtyp g) (map r (gops g))).
  Proof.
    intros Hg. destruct (rename_gate_gates c old new c' W H) as (og & Hog & Hget).
    destruct rename_old_new as (_ & Hn & Hon).
    unfold ren at 1. destruct (leqb_spec x old) as [->|Hne].
    - rewrite Hget. apply not_eq_sym, leqb_neq in Hon; rewrite Hon, leqb_refl.
      assert (og = g) by congruence; subst og.
      rewrite map_ren_id by (eapply no_self_loop; eassumption). destruct g; reflexivity.
    - rewrite Hget. apply leqb_neq in Hne; rewrite Hne.
      assert (x <> new) as Hxn by (apply gate_not_new; eapply get_has_gate; eassumption).
      apply leqb_neq in Hxn; rewrite Hxn, Hg. reflexivity.
  Qed.

  (* and nothing else is stored *)
  Lemma rename_gate_get_inv y g' :
    dget (gates c') y = Some g' ->
    y <> old /\ exists g, dget (gates c) (ren new old y) = Some g /\ r (ren new old y) = y /\
                          g' = mkGate (gtyp g) (map r (gops g)).
  Proof.
    intros Hg'. destruct (rename_gate_gates c old new c' W H) as (og & Hog & Hget).
    destruct rename_old_new as (_ & Hn & Hon).
    rewrite Hget in Hg'. destruct (leqb_spec y old) as [->|Hne]; [discriminate|]. split; [assumption|].
    destruct (leqb_spec y new) as [->|Hne2].
    - assert (ren new old new = old) as -> by (unfold ren; rewrite leqb_refl; reflexivity).
      injection Hg' as <-. exists og; split; [assumption|].
      split; [unfold ren; rewrite leqb_refl; reflexivity|].
      rewrite map_ren_id by (eapply no_self_loop; eassumption). destruct og; reflexivity.
    - assert (ren new old y = y) as -> by (unfold ren; apply leqb_neq in Hne2; rewrite Hne2; reflexivity).
      destruct (dget (gates c) y) as [g|] eqn:Eg; [|discriminate]. injection Hg' as <-.
      exists g; split; [reflexivity|]. split; [|reflexivity].
      unfold ren. apply leqb_neq in Hne; rewrite Hne; reflexivity.
  Qed.

  Lemma rename_has_gate x : has_gate c x = true -> has_gate c' (r x) = true.
  Proof. intros Hx; destruct (has_gate_get _ _ Hx) as [g Hg]. eapply get_has_gate, rename_gate_get, Hg. Qed.

  Lemma rename_old_gone : has_gate c' old = false.
  Proof.
    destruct (rename_gate_gates c old new c' W H) as (og & Hog & Hget).
    unfold has_gate, dmem; rewrite Hget, leqb_refl; reflexivity.
  Qed.

  (* key order: the renamed gate moves to the end of the gate map *)
  Lemma rename_keys : dkeys (gates c') = remove1 old (dkeys (gates c)) ++ [new].
  Proof.
    pose proof (rename_gate_inv _ _ _ _ H) as (Ho & Hn & gs3 & ud3 & og & us' & H3 & Hog & Hus & E).
    destruct rename_old_new as (_ & _ & Hon).
    destruct (has_gate_get _ _ Ho) as [og0 Hog0].
    destruct (rename_mid c old new gs3 ud3 og0 W Hon Hn Hog0 H3) as (Gk & _).
    rewrite E; simpl. rewrite dkeys_ddel, dkeys_dset_new.
    - rewrite <- Gk. apply remove1_app_in. rewrite Gk. apply dmem_keys, Ho.
    - rewrite (dmem_keys_eq' gs3 (gates c) new Gk). exact Hn.
  Qed.

  (* inputs, outputs, blocks *)
  Lemma rename_inputs : inputs c' = map r (inputs c).
  Proof.
    pose proof (rename_gate_inv _ _ _ _ H) as (_ & _ & gs3 & ud3 & og & us' & _ & _ & _ & E).
    rewrite E; simpl. destruct (memb old (inputs c)) eqn:Em.
    - apply subst_first_ren, (wf_inputs_nodup c W).
    - apply memb_nIn in Em. symmetry; apply map_ren_id, Em.
  Qed.

  Lemma rename_outputs : outputs c' = map r (outputs c).
  Proof.
    pose proof (rename_gate_inv _ _ _ _ H) as (_ & _ & gs3 & ud3 & og & us' & _ & _ & _ & E).
    rewrite E; simpl. destruct (memb old (outputs c)) eqn:Em; [reflexivity|].
    apply memb_nIn in Em. symmetry; apply map_ren_id, Em.
  Qed.

  Lemma rename_blocks :
    blocks c' = map (fun kb => (fst kb, mkBlock (map r (binputs (snd kb))) (map r (bgates (snd kb)))
                                                (map r (boutputs (snd kb))))) (blocks c).
  Proof.
    pose proof (rename_gate_inv _ _ _ _ H) as (_ & _ & gs3 & ud3 & og & us' & _ & _ & _ & E).
    rewrite E; reflexivity.
  Qed.

  (* users index: the multiset of users of r x is the image of the multiset of users of x *)
  Lemma rename_users x u :
    has_gate c x = true -> has_gate c u = true ->
    count (r u) (users_of c' (r x)) = count u (users_of c x).
  Proof.
    intros Hx Hu. pose proof (rename_gate_wf _ _ _ _ W H) as W'.
    rewrite (wf_users c' W'), (wf_users c W).
    destruct (has_gate_get _ _ Hu) as [gu Hgu].
    rewrite (ops_of_get _ _ _ (rename_gate_get _ _ Hgu)), (ops_of_get _ _ _ Hgu). simpl.
    apply count_map_ren; [apply gate_not_new, Hx|eapply ops_not_new; eassumption].
  Qed.

  (* ---------------- semantics ---------------- *)
  Theorem rename_gate_sem a a' :
    (forall l, In l (inputs c) -> aval a' (r l) = aval a l) ->
    forall l v, has_gate c l = true -> (Eval c' a' (r l) v <-> Eval c a l v).
  Proof.
    intros Ha l v Hl. destruct rename_old_new as (Ho & Hn & Hon). split; intros HE.
    - (* c' -> c along the inverse renaming *)
      rewrite <- (ren_back old new l) by (apply gate_not_new, Hl).
      apply (Eval_sim_struct c' c a' a (ren new old) (fun _ => True)); [tauto| | |exact HE|exact I].
      + intros y g' _ Hy. destruct (rename_gate_get_inv y g' Hy) as (Hyo & g & Hg & Hry & ->).
        exists g; split; [exact Hg|]. split; [reflexivity|]. intros _; simpl.
        symmetry; apply map_ren_back. eapply ops_not_new; eassumption.
      + intros y g' _ Hy Ht. destruct (rename_gate_get_inv y g' Hy) as (Hyo & g & Hg & Hry & ->).
        simpl in Ht. rewrite <- Hry at 2. symmetry; apply Ha.
        apply (wf_inputs c W). eauto.
    - apply (Eval_sim_struct c c' a a' r (fun _ => True)); [tauto| | |exact HE|exact I].
      + intros x g _ Hx. eexists; split; [apply rename_gate_get, Hx|]. split; reflexivity.
      + intros x g _ Hx Ht. apply Ha, (wf_inputs c W). eauto.
  Qed.

  (* the function at the outputs is the same function of the (renamed) inputs *)
  Corollary rename_gate_outputs_sem a a' :
    (forall l, In l (inputs c) -> aval a' (r l) = aval a l) ->
    forall vs, Forall2 (Eval c' a') (outputs c') vs <-> Forall2 (Eval c a) (outputs c) vs.
  Proof.
    intros Ha vs. rewrite rename_outputs, <- Forall2_map_l.
    split; intros HF; (eapply Forall2_impl_In; [exact HF|]); intros o v Ho Hv;
      apply (rename_gate_sem a a' Ha o v (wf_outs c W o Ho)); exact Hv.
  Qed.
End Renamed.

(* ------------------------------------------------------------------ *)
(* a concrete renamed assignment *)
Definition rename_assignment (old new : label) (a : assignment) : assignment :=
  map (fun kv => (ren old new (fst kv), snd kv)) a.

Lemma rename_assignment_aval old new a l :
  dmem a new = false -> l <> new -> aval (rename_assignment old new a) (ren old new l) = aval a l.
Proof.
  unfold aval, rename_assignment, dmem. induction a as [|[k v] a IH]; simpl; intros Hn Hl; [reflexivity|].
  destruct (leqb_spec new k) as [->|Hk]; [discriminate|].
  destruct (leqb_spec l k) as [->|Hne]; [rewrite leqb_refl; reflexivity|].
  destruct (leqb_spec (ren old new l) (ren old new k)) as [E|_]; [|apply IH; assumption].
  apply ren_inj in E; [contradiction|assumption|congruence].
Qed.
