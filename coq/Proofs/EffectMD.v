(* C18, MergeDuplicateGates: after the pass and its implied RemoveRedundantGates no two distinct
   non-INPUT gates have the same signature (type + operands, up to permutation for symmetric types). *)
Require Import Cirbo.Model.Base Cirbo.Model.Gate Cirbo.Model.Circuit Cirbo.Model.Traverse Cirbo.Model.WF.
Require Import Cirbo.Model.Passes.
Require Import Cirbo.Generated.GateTypes.
Require Import Cirbo.Proofs.DictFacts Cirbo.Proofs.WFBase Cirbo.Proofs.WFSimple Cirbo.Proofs.WFEmplace
               Cirbo.Proofs.TopSortWF Cirbo.Proofs.TraverseStep Cirbo.Proofs.TraverseInv
               Cirbo.Proofs.RebuildFacts Cirbo.Proofs.EffectRR.
Require Import Coq.Sorting.Permutation.

(* ---------------- signatures: sig_eqb is an equivalence ---------------- *)
Lemma perm_eqb_perm a : forall b, perm_eqb a b = true <-> Permutation a b.
Proof.
  induction a as [|x a IH]; intros b; simpl.
  - destruct b; split; try discriminate; auto. intros H. apply Permutation_nil in H. discriminate.
  - rewrite andb_true_iff, memb_In, IH. split.
    + intros [Hx Hp]. eapply Permutation_trans; [apply perm_skip; exact Hp|].
      apply Permutation_sym, remove1_perm; exact Hx.
    + intros Hp. assert (Hx : In x b) by (eapply Permutation_in; [exact Hp|left; reflexivity]).
      split; [exact Hx|]. apply Permutation_cons_inv with (a := x).
      eapply Permutation_trans; [exact Hp|apply remove1_perm; exact Hx].
Qed.

Definition sig_equiv (t1 : gtype) (o1 : list label) (t2 : gtype) (o2 : list label) : Prop :=
  t1 = t2 /\ if is_symmetric t1 then Permutation o1 o2 else o1 = o2.

Lemma sig_eqb_equiv t1 o1 t2 o2 : sig_eqb t1 o1 t2 o2 = true <-> sig_equiv t1 o1 t2 o2.
Proof.
  unfold sig_eqb, sig_equiv. rewrite andb_true_iff, gtype_beq_eq.
  destruct (is_symmetric t1); [rewrite perm_eqb_perm|rewrite labels_eqb_eq]; tauto.
Qed.

Lemma sig_equiv_refl t o : sig_equiv t o t o.
Proof. split; [reflexivity|]. destruct (is_symmetric t); [apply Permutation_refl|reflexivity]. Qed.

Lemma sig_equiv_sym t1 o1 t2 o2 : sig_equiv t1 o1 t2 o2 -> sig_equiv t2 o2 t1 o1.
Proof.
  intros [-> H]. split; [reflexivity|]. destruct (is_symmetric t2); [apply Permutation_sym; exact H|auto].
Qed.

Lemma sig_equiv_trans t1 o1 t2 o2 t3 o3 :
  sig_equiv t1 o1 t2 o2 -> sig_equiv t2 o2 t3 o3 -> sig_equiv t1 o1 t3 o3.
Proof.
  intros [-> H1] [-> H2]. split; [reflexivity|].
  destruct (is_symmetric t3); [eapply Permutation_trans; eassumption|congruence].
Qed.

Lemma sig_eqb_refl t o : sig_eqb t o t o = true.
Proof. apply sig_eqb_equiv, sig_equiv_refl. Qed.

Lemma sig_eqb_congr t o t1 o1 t2 o2 :
  sig_eqb t1 o1 t2 o2 = true -> sig_eqb t o t1 o1 = sig_eqb t o t2 o2.
Proof.
  intros H. apply sig_eqb_equiv in H.
  destruct (sig_eqb t o t1 o1) eqn:E1; destruct (sig_eqb t o t2 o2) eqn:E2; try reflexivity; exfalso.
  - apply sig_eqb_equiv in E1. assert (E : sig_eqb t o t2 o2 = true) by (apply sig_eqb_equiv; eapply sig_equiv_trans; eassumption).
    congruence.
  - apply sig_eqb_equiv in E2. assert (E : sig_eqb t o t1 o1 = true).
    { apply sig_eqb_equiv. eapply sig_equiv_trans; [exact E2|apply sig_equiv_sym; exact H]. }
    congruence.
Qed.

Lemma sig_lookup_congr tbl t1 o1 t2 o2 :
  sig_eqb t1 o1 t2 o2 = true -> sig_lookup tbl t1 o1 = sig_lookup tbl t2 o2.
Proof.
  intros H. induction tbl as [|[[t o] l] tbl IH]; simpl; [reflexivity|].
  rewrite (sig_eqb_congr t o _ _ _ _ H), IH. reflexivity.
Qed.

Lemma sig_lookup_app tbl e t o :
  sig_lookup (tbl ++ [e]) t o =
  match sig_lookup tbl t o with
  | Some d => Some d
  | None => let '(t', o', l) := e in if sig_eqb t' o' t o then Some l else None
  end.
Proof.
  induction tbl as [|[[t0 o0] l0] tbl IH]; simpl.
  - destruct e as [[t' o'] l]. reflexivity.
  - destruct (sig_eqb t0 o0 t o); [reflexivity|exact IH].
Qed.

Lemma sig_lookup_some tbl t o d : sig_lookup tbl t o = Some d ->
  exists t' o', In (t', o', d) tbl /\ sig_eqb t' o' t o = true.
Proof.
  induction tbl as [|[[t0 o0] l0] tbl IH]; simpl; [discriminate|].
  destruct (sig_eqb t0 o0 t o) eqn:E.
  - intros [= <-]. exists t0, o0. split; [left; reflexivity|exact E].
  - intros H. destruct (IH H) as (t' & o' & Hin & He). exists t', o'. split; [right; exact Hin|exact He].
Qed.

(* ---------------- the loop of the pass ---------------- *)
Definition md_step (c : circuit) (st : circuit * sig_table) (l : label) : res (circuit * sig_table) :=
  let '(n, tbl) := st in
  do g <- get_gate c l;
  if gtype_beq (gtyp g) INPUT then do n' <- add_inputs n [l]; Ok (n', tbl) else
  do ops <- mapM (md_new_name n tbl) (gops g);
  let tbl' := match sig_lookup tbl (gtyp g) ops with
              | Some _ => tbl | None => tbl ++ [(gtyp g, ops, l)] end in
  do n' <- emplace_gate n l (gtyp g) ops;
  Ok (n', tbl').

Lemma md_unfold c m : merge_duplicate_gates c = Ok m ->
  exists emit n1 tbl n2 outs,
    dfs_emission c true = Ok emit /\ foldM (md_step c) emit (empty_circuit, []) = Ok (n1, tbl) /\
    set_inputs n1 (inputs c) = Ok n2 /\ mapM (md_new_name n2 tbl) (outputs c) = Ok outs /\
    set_outputs n2 outs = Ok m.
Proof.
  unfold merge_duplicate_gates. intros H. binv H emit He. binv H stt Hst. destruct stt as [n1 tbl].
  binv H n2 Hn2. binv H outs Houts. exists emit, n1, tbl, n2, outs. auto.
Qed.

(* a label is canonical when it is its own new name *)
Definition canon (n : circuit) (tbl : sig_table) (o : label) : Prop := md_new_name n tbl o = Ok o.

Record MDinv (n : circuit) (tbl : sig_table) : Prop := mkMDinv {
  md_entries : forall t ops l, In (t, ops, l) tbl ->
      t <> INPUT /\ dget (gates n) l = Some (mkGate t ops) /\ sig_lookup tbl t ops = Some l;
  md_reg : forall l g, dget (gates n) l = Some g -> gtyp g <> INPUT ->
      sig_lookup tbl (gtyp g) (gops g) <> None;
  md_canon : forall l g o, dget (gates n) l = Some g -> In o (gops g) -> canon n tbl o }.

Lemma MDinv_init : MDinv empty_circuit [].
Proof. constructor; simpl; [intros t ops l []|discriminate|discriminate]. Qed.

(* new names are canonical *)
Lemma md_new_name_canon n tbl o d : MDinv n tbl -> md_new_name n tbl o = Ok d -> canon n tbl d.
Proof.
  intros I H. unfold md_new_name in H. binv H g Hg. injection H as <-.
  destruct (sig_lookup tbl (gtyp g) (gops g)) as [d|] eqn:E.
  - destruct (sig_lookup_some _ _ _ _ E) as (t' & o' & Hin & _).
    destruct (md_entries n tbl I t' o' d Hin) as (_ & Hd & Hl).
    unfold canon, md_new_name, get_gate. rewrite Hd. simpl. rewrite Hl. reflexivity.
  - unfold canon, md_new_name. rewrite Hg. simpl. rewrite E. reflexivity.
Qed.

(* canonicity is stable when the circuit grows and an entry of non-INPUT type is appended *)
Lemma canon_mono n tbl n' tbl' o :
  MDinv n tbl -> canon n tbl o ->
  (forall x, has_gate n x = true -> dget (gates n') x = dget (gates n) x) ->
  (tbl' = tbl \/ exists t ops l, tbl' = tbl ++ [(t, ops, l)] /\ t <> INPUT) ->
  canon n' tbl' o.
Proof.
  intros I Hc Hsub Ht. unfold canon, md_new_name in *. binv Hc g Hg. apply get_gate_ok in Hg.
  unfold get_gate. rewrite (Hsub o (get_has_gate _ _ _ Hg)), Hg. simpl. f_equal.
  injection Hc as Hc. destruct Ht as [->|(t & ops & l & -> & Hti)]; [exact Hc|].
  rewrite sig_lookup_app. destruct (sig_lookup tbl (gtyp g) (gops g)) as [d|] eqn:E; [exact Hc|].
  assert (Hg' : gtyp g = INPUT).
  { destruct (gtype_beq (gtyp g) INPUT) eqn:Eb; [apply gtype_beq_eq; exact Eb|exfalso].
    apply (md_reg n tbl I o g Hg); [|exact E]. intros Ei. apply gtype_beq_eq in Ei. congruence. }
  unfold sig_eqb. rewrite Hg'. destruct (gtype_beq t INPUT) eqn:Eb; [apply gtype_beq_eq in Eb; contradiction|reflexivity].
Qed.

Lemma md_step_inv c n tbl l n' tbl' : MDinv n tbl -> md_step c (n, tbl) l = Ok (n', tbl') -> MDinv n' tbl'.
Proof.
  intros I H. unfold md_step in H. binv H g Hg.
  destruct (gtype_beq (gtyp g) INPUT) eqn:Et.
  - (* INPUT *)
    binv H n1 Hn1. injection H as <- <-. simpl in Hn1. binv Hn1 u Hu. binv Hn1 n2 Hn2. injection Hn1 as <-.
    apply emplace_gate_inv in Hn2. destruct Hn2 as (Hl & _ & ->).
    assert (Hsub : forall x, has_gate n x = true ->
              dget (gates (emplace_gate_raw n l INPUT [])) x = dget (gates n) x).
    { intros x Hx. rewrite emplace_raw_gates, dget_dset. destruct (leqb_spec x l) as [->|]; [congruence|reflexivity]. }
    constructor.
    + intros t ops l0 Hin. destruct (md_entries n tbl I t ops l0 Hin) as (H1 & H2 & H3).
      split; [exact H1|]. split; [|exact H3]. rewrite Hsub; [exact H2|eapply get_has_gate; exact H2].
    + intros l0 g0 Hg0 Ht0. rewrite emplace_raw_gates, dget_dset in Hg0. destruct (leqb_spec l0 l) as [->|].
      * injection Hg0 as <-. simpl in Ht0. congruence.
      * eapply (md_reg n tbl I); eassumption.
    + intros l0 g0 o Hg0 Ho. rewrite emplace_raw_gates, dget_dset in Hg0. destruct (leqb_spec l0 l) as [->|].
      * injection Hg0 as <-. destruct Ho.
      * eapply canon_mono; [exact I|eapply (md_canon n tbl I); eassumption|exact Hsub|left; reflexivity].
  - (* other gates *)
    assert (Hti : gtyp g <> INPUT) by (intros E; apply gtype_beq_eq in E; congruence).
    binv H ops Hops. binv H n1 Hn1. injection H as <- <-.
    apply emplace_gate_inv in Hn1. destruct Hn1 as (Hl & Hex & ->).
    set (tbl' := match sig_lookup tbl (gtyp g) ops with Some _ => tbl | None => tbl ++ [(gtyp g, ops, l)] end).
    assert (Hsub : forall x, has_gate n x = true ->
              dget (gates (emplace_gate_raw n l (gtyp g) ops)) x = dget (gates n) x).
    { intros x Hx. rewrite emplace_raw_gates, dget_dset. destruct (leqb_spec x l) as [->|]; [congruence|reflexivity]. }
    assert (Htbl : tbl' = tbl \/ exists t ops0 l0, tbl' = tbl ++ [(t, ops0, l0)] /\ t <> INPUT).
    { unfold tbl'. destruct (sig_lookup tbl (gtyp g) ops); [left; reflexivity|right; eauto]. }
    assert (Hmono : forall t0 o0 d, sig_lookup tbl t0 o0 = Some d -> sig_lookup tbl' t0 o0 = Some d).
    { intros t0 o0 d Hd. unfold tbl'. destruct (sig_lookup tbl (gtyp g) ops); [exact Hd|].
      rewrite sig_lookup_app, Hd. reflexivity. }
    assert (Hopsc : forall o, In o ops -> canon n tbl o).
    { apply mapM_ok_Forall2 in Hops. clear - Hops I. induction Hops as [|x y xs ys Hxy _ IH]; intros o Ho; [destruct Ho|].
      destruct Ho as [<-|Ho]; [eapply md_new_name_canon; eassumption|apply IH; exact Ho]. }
    constructor.
    + intros t ops0 l0 Hin.
      assert (Hcase : In (t, ops0, l0) tbl \/ (sig_lookup tbl (gtyp g) ops = None /\ (t, ops0, l0) = (gtyp g, ops, l))).
      { unfold tbl' in Hin. destruct (sig_lookup tbl (gtyp g) ops); [left; exact Hin|].
        apply in_app_or in Hin. destruct Hin as [Hin|[Hin|[]]]; [left; exact Hin|right; auto]. }
      destruct Hcase as [Hin0|[En [= -> -> ->]]].
      * destruct (md_entries n tbl I t ops0 l0 Hin0) as (H1 & H2 & H3).
        split; [exact H1|]. split; [|apply Hmono; exact H3]. rewrite Hsub; [exact H2|eapply get_has_gate; exact H2].
      * split; [exact Hti|]. split; [rewrite emplace_raw_gates, dget_dset_same; reflexivity|].
        unfold tbl'. rewrite En, sig_lookup_app, En, sig_eqb_refl. reflexivity.
    + intros l0 g0 Hg0 Ht0. rewrite emplace_raw_gates, dget_dset in Hg0. destruct (leqb_spec l0 l) as [->|].
      * injection Hg0 as <-. simpl. unfold tbl'. destruct (sig_lookup tbl (gtyp g) ops) eqn:E; [congruence|].
        rewrite sig_lookup_app, E, sig_eqb_refl. discriminate.
      * pose proof (md_reg n tbl I l0 g0 Hg0 Ht0) as Hr.
        destruct (sig_lookup tbl (gtyp g0) (gops g0)) as [d|] eqn:E; [|congruence].
        rewrite (Hmono _ _ _ E). discriminate.
    + intros l0 g0 o Hg0 Ho. rewrite emplace_raw_gates, dget_dset in Hg0. destruct (leqb_spec l0 l) as [->|].
      * injection Hg0 as <-. simpl in Ho. eapply canon_mono; [exact I|apply Hopsc; exact Ho|exact Hsub|exact Htbl].
      * eapply canon_mono; [exact I|eapply (md_canon n tbl I); eassumption|exact Hsub|exact Htbl].
Qed.

Lemma md_fold_inv c emit : forall n tbl n1 tbl1,
  MDinv n tbl -> foldM (md_step c) emit (n, tbl) = Ok (n1, tbl1) -> MDinv n1 tbl1.
Proof.
  induction emit as [|l emit IH]; intros n tbl n1 tbl1 I H; simpl in H.
  - injection H as <- <-. exact I.
  - binv H stt Hs. destruct stt as [n' tbl']. eapply IH; [eapply md_step_inv; eassumption|exact H].
Qed.

Lemma md_step_wf c n tbl l n' tbl' : WF n -> md_step c (n, tbl) l = Ok (n', tbl') -> WF n'.
Proof.
  intros W H. unfold md_step in H. binv H g Hg. destruct (gtype_beq (gtyp g) INPUT).
  - binv H n1 Hn1. injection H as <- _. eapply add_inputs_wf; eassumption.
  - binv H ops Hops. binv H n1 Hn1. injection H as <- _. eapply emplace_gate_wf; eassumption.
Qed.

Lemma md_fold_wf c emit : forall n tbl n1 tbl1,
  WF n -> foldM (md_step c) emit (n, tbl) = Ok (n1, tbl1) -> WF n1.
Proof.
  induction emit as [|l emit IH]; intros n tbl n1 tbl1 W H; simpl in H.
  - injection H as <- _. exact W.
  - binv H stt Hs. destruct stt as [n' tbl']. eapply IH; [eapply md_step_wf; eassumption|exact H].
Qed.

(* ---------------- the result of the pass ---------------- *)
Definition sig_unique_on (m : circuit) (S : label -> Prop) : Prop :=
  forall l1 l2 g1 g2, S l1 -> S l2 ->
    dget (gates m) l1 = Some g1 -> dget (gates m) l2 = Some g2 ->
    gtyp g1 <> INPUT -> gtyp g2 <> INPUT ->
    sig_eqb (gtyp g1) (gops g1) (gtyp g2) (gops g2) = true -> l1 = l2.

Lemma MDinv_gates n tbl n' : gates n' = gates n -> MDinv n tbl -> MDinv n' tbl.
Proof.
  intros E I. constructor.
  - intros t ops l H. rewrite E. apply (md_entries n tbl I); exact H.
  - intros l g. rewrite E. apply (md_reg n tbl I).
  - intros l g o Hg Ho. rewrite E in Hg. pose proof (md_canon n tbl I l g o Hg Ho) as Hc.
    unfold canon, md_new_name, get_gate in *. rewrite E. exact Hc.
Qed.

Lemma canon_unique n tbl : MDinv n tbl ->
  forall l1 l2 g1 g2, canon n tbl l1 -> canon n tbl l2 ->
    dget (gates n) l1 = Some g1 -> dget (gates n) l2 = Some g2 ->
    gtyp g1 <> INPUT -> gtyp g2 <> INPUT ->
    sig_eqb (gtyp g1) (gops g1) (gtyp g2) (gops g2) = true -> l1 = l2.
Proof.
  intros I l1 l2 g1 g2 C1 C2 H1 H2 T1 T2 E.
  unfold canon, md_new_name, get_gate in C1, C2. rewrite H1 in C1. rewrite H2 in C2. simpl in C1, C2.
  pose proof (md_reg n tbl I l1 g1 H1 T1) as R1. pose proof (md_reg n tbl I l2 g2 H2 T2) as R2.
  rewrite (sig_lookup_congr tbl _ _ _ _ E) in C1, R1.
  destruct (sig_lookup tbl (gtyp g2) (gops g2)); congruence.
Qed.

Theorem md_effect_reachable c m : merge_duplicate_gates c = Ok m ->
  WF m /\ sig_unique_on m (reachable m).
Proof.
  intros H. destruct (md_unfold c m H) as (emit & n1 & tbl & n2 & outs & He & Hf & Hn2 & Ho & Hm).
  pose proof (md_fold_inv c emit _ _ _ _ MDinv_init Hf) as I1.
  pose proof (md_fold_wf c emit _ _ _ _ WF_empty Hf) as W1.
  assert (W2 : WF n2) by (eapply set_inputs_wf; eassumption).
  assert (Wm : WF m) by (eapply set_outputs_wf; eassumption).
  apply set_inputs_inv in Hn2. apply set_outputs_inv in Hm. destruct Hm as [Em _].
  assert (Eg : gates m = gates n1) by (rewrite Em, Hn2; reflexivity).
  assert (I2 : MDinv n2 tbl) by (apply (MDinv_gates n1); [rewrite Hn2; reflexivity|exact I1]).
  assert (Im : MDinv m tbl) by (apply (MDinv_gates n1); [exact Eg|exact I1]).
  assert (Hoc : forall o, In o outs -> canon m tbl o).
  { intros o Hin.
    assert (Hc2 : canon n2 tbl o).
    { apply mapM_ok_Forall2 in Ho. clear - Ho Hin I2. induction Ho as [|x y xs ys Hxy _ IH]; [destruct Hin|].
      destruct Hin as [<-|Hin]; [eapply md_new_name_canon; eassumption|apply IH; exact Hin]. }
    unfold canon, md_new_name, get_gate in *. rewrite Eg. rewrite Hn2 in Hc2. exact Hc2. }
  split; [exact Wm|].
  assert (Hreach : forall l, reachable m l -> canon m tbl l).
  { unfold reachable. apply reach_closed.
    - intros s Hs. apply Hoc. rewrite Em in Hs. exact Hs.
    - intros a b _ Hb. unfold ops_of in Hb. destruct (dget (gates m) a) as [g|] eqn:E; [|destruct Hb].
      eapply (md_canon m tbl Im); eassumption. }
  intros l1 l2 g1 g2 R1 R2. apply (canon_unique m tbl Im); apply Hreach; assumption.
Qed.

(* the statement of the property: MergeDuplicateGates with its implied post pass *)
Definition sig_unique (c : circuit) : Prop :=
  forall l1 l2 g1 g2, dget (gates c) l1 = Some g1 -> dget (gates c) l2 = Some g2 ->
    gtyp g1 <> INPUT -> gtyp g2 <> INPUT ->
    sig_eqb (gtyp g1) (gops g1) (gtyp g2) (gops g2) = true -> l1 = l2.

Lemma apply_single_post t c c' : t = TMU \/ t = TMD \/ t = TME ->
  apply_transformers c [t] = Ok c' ->
  exists m, transform_leaf t c = Ok m /\ remove_redundant_gates false m = Ok c'.
Proof.
  intros Ht H.
  assert (E : apply_transformers c [t] = (do m <- transform_leaf t c; do c1 <- remove_redundant_gates false m; Ok c1)).
  { destruct Ht as [-> | [-> | ->]]; reflexivity. }
  rewrite E in H. binv H m Hm. binv H c1 Hc1. injection H as <-. eauto.
Qed.

Theorem md_effect c c' : apply_transformers c [TMD] = Ok c' -> sig_unique c'.
Proof.
  intros H. destruct (apply_single_post TMD c c' (or_intror (or_introl eq_refl)) H) as (m & Hm & Hrr). simpl in Hm.
  destruct (md_effect_reachable c m Hm) as [Wm Hu].
  destruct (rr_effect false m c' Wm Hrr) as (_ & Hg & _).
  intros l1 l2 g1 g2 H1 H2 T1 T2 E.
  apply Hg in H1. apply Hg in H2.
  destruct H1 as [[R1 H1]|(_ & _ & _ & ->)]; [|exfalso; apply T1; reflexivity].
  destruct H2 as [[R2 H2]|(_ & _ & _ & ->)]; [|exfalso; apply T2; reflexivity].
  eapply Hu; eassumption.
Qed.
