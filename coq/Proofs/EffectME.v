(* C18, MergeEquivalentGates followed by its implied RemoveRedundantGates: no two distinct
   non-INPUT gates of the result have the same truth table (as computed by get_gates_truth_table on
   the result). *)
Require Import Cirbo.Model.Base Cirbo.Model.Gate Cirbo.Model.Circuit Cirbo.Model.Traverse Cirbo.Model.WF.
Require Import Cirbo.Model.Eval Cirbo.Model.Sem Cirbo.Model.Passes.
Require Import Cirbo.Generated.GateTypes.
Require Import Cirbo.Proofs.DictFacts Cirbo.Proofs.WFBase Cirbo.Proofs.WFSimple Cirbo.Proofs.WFEmplace
               Cirbo.Proofs.SemFacts Cirbo.Proofs.EvalFacts Cirbo.Proofs.TopSortWF Cirbo.Proofs.TraverseStep
               Cirbo.Proofs.TraverseInv Cirbo.Proofs.RebuildFacts Cirbo.Proofs.EffectRR Cirbo.Proofs.EffectMD
               Cirbo.Proofs.TruthTableFacts Cirbo.Proofs.GroupFacts.

(* ---------------- generic list and semantics helpers ---------------- *)
Lemma Forall2_same_In {A B} (R R' : A -> B -> Prop) X vs x :
  Forall2 R X vs -> Forall2 R' X vs -> In x X -> exists v, R x v /\ R' x v.
Proof.
  intros H. revert R'. induction H as [|a b X vs Hab _ IH]; intros R' H' Hx; [destruct Hx|].
  inversion H' as [|? ? ? ? Hab' Hr']; subst. destruct Hx as [<-|Hx]; [eauto|apply IH; assumption].
Qed.

Lemma Forall2_functional_eq {A B} (R R' : A -> B -> Prop) X vs vs' :
  Forall2 R X vs -> Forall2 R' X vs' ->
  (forall x v v', In x X -> R x v -> R' x v' -> v = v') -> vs = vs'.
Proof.
  intros H. revert vs'. induction H as [|a b X vs Hab _ IH]; intros vs' H' Hf; inversion H' as [|? b' ? vs2 Hab' Hr']; subst; [reflexivity|].
  f_equal; [apply (Hf a); [left; reflexivity|exact Hab|exact Hab']|].
  apply IH; [exact Hr'|]. intros x v v' Hx. apply Hf. right; exact Hx.
Qed.

Lemma Forall2_transport {A B C} (R : A -> B -> Prop) (S : A -> C -> Prop) (T : B -> C -> Prop) l1 l2 l3 :
  Forall2 R l1 l2 -> Forall2 S l1 l3 ->
  (forall a b c, In a l1 -> In b l2 -> R a b -> S a c -> T b c) -> Forall2 T l2 l3.
Proof.
  intros H. revert l3. induction H as [|a b l1 l2 Hab _ IH]; intros l3 H' Hf; inversion H' as [|? c ? l3' Hac Hr']; subst; constructor.
  - apply (Hf a b c); try (left; reflexivity); assumption.
  - apply IH; [exact Hr'|]. intros a0 b0 c0 Ha Hb. apply Hf; right; assumption.
Qed.

Lemma Eval_extend n n' a l v :
  (forall k g, dget (gates n) k = Some g -> dget (gates n') k = Some g) ->
  Eval n a l v -> Eval n' a l v.
Proof.
  intros Hsub H. induction H as [l g Hg Ht|l g vs v Hg Ht Hops IH Hop] using Eval_ind2.
  - eapply EvalInput; [apply Hsub; exact Hg|exact Ht].
  - eapply EvalGate; [apply Hsub; exact Hg|exact Ht|exact IH|exact Hop].
Qed.

(* ---------------- the stages of the pass ---------------- *)
Definition me_step (c : circuit) (groups : list (list label)) (stt : circuit * keeps) (l : label)
  : res (circuit * keeps) :=
  let '(n, k) := stt in
  do g <- get_gate c l;
  let '(ops, k') := me_new_names groups k (gops g) in
  do n' <- emplace_gate n l (gtyp g) ops;
  Ok (n', k').

Lemma me_unfold c m : merge_equivalent_gates c = Ok m ->
  exists gtt emit n1 k n2,
    get_gates_truth_table c = Ok gtt /\ dfs_emission c true = Ok emit /\
    foldM (me_step c (groups_of gtt)) emit (empty_circuit, []) = Ok (n1, k) /\
    set_inputs n1 (inputs c) = Ok n2 /\
    set_outputs n2 (fst (me_new_names (groups_of gtt) k (outputs c))) = Ok m.
Proof.
  unfold merge_equivalent_gates. intros H. binv H groups Hg. unfold find_equivalent_groups in Hg.
  binv Hg gtt Hgtt. injection Hg as <-. unfold replace_equivalent_gates in H.
  binv H emit He. binv H stt Hst. destruct stt as [n1 k]. binv H n2 Hn2.
  exists gtt, emit, n1, k, n2. auto 10.
Qed.

Section ME.
  Variable c : circuit.
  Hypothesis Hwf : WF c.
  Variable gtt : dict (list st).
  Hypothesis Hgtt : get_gates_truth_table c = Ok gtt.
  Let groups := groups_of gtt.
  Let X := all_bool_vectors (length (inputs c)).

  Definition equiv_in_c (o o' : label) : Prop :=
    forall x a v, In x X -> assign_of c x = Ok a -> Eval c a o v -> Eval c a o' v.

  Lemma same_class_equiv o o' :
    has_gate c o = true -> has_gate c o' = true -> same_class groups o o' -> equiv_in_c o o'.
  Proof.
    intros Ho Ho' [->|(i & H1 & H2)]; [intros x a v _ _ H; exact H|].
    destruct (gtt_spec c gtt Hwf Hgtt) as [Hnd Hspec].
    destruct (same_index_same_group groups o o' i H1 H2) as (g & Hg & Hl1 & Hl2).
    destruct (group_same_tt gtt Hnd g o o' Hg Hl1 Hl2) as (t & Ht1 & Ht2).
    destruct (Hspec o Ho) as (vs & Hvs & HF). destruct (Hspec o' Ho') as (vs' & Hvs' & HF').
    assert (vs = t) by congruence. assert (vs' = t) by congruence. subst vs vs'.
    intros x a v Hx Ha Hev. fold X in HF, HF'.
    destruct (Forall2_same_In _ _ X t x HF HF' Hx) as (w & (a1 & Ha1 & He1) & (a2 & Ha2 & He2)).
    assert (a1 = a) by congruence. assert (a2 = a) by congruence. subst a1 a2.
    assert (v = w) by (eapply Eval_functional; eassumption). subst w. exact He2.
  Qed.

  Record MEinv (n : circuit) (k : keeps) : Prop := mkMEinv {
    me_kinv : kinv groups k;
    me_wf : WF n;
    me_img : forall l g', dget (gates n) l = Some g' -> exists g, dget (gates c) l = Some g /\ gtyp g' = gtyp g;
    me_canon : forall l g' o, dget (gates n) l = Some g' -> In o (gops g') -> cank groups k o;
    me_sem : forall l x a v, has_gate n l = true -> In x X -> assign_of c x = Ok a ->
                             Eval c a l v -> Eval n a l v }.

  Lemma MEinv_init : MEinv empty_circuit [].
  Proof.
    constructor.
    - intros i v H; discriminate.
    - apply WF_empty.
    - intros l g' H; discriminate.
    - intros l g' o H; discriminate.
    - intros l x a v H; discriminate.
  Qed.

  Lemma me_step_inv n k l n' k' : MEinv n k -> me_step c groups (n, k) l = Ok (n', k') -> MEinv n' k'.
  Proof.
    intros I H. unfold me_step in H. binv H g Hg. apply get_gate_ok in Hg.
    destruct (me_new_names groups k (gops g)) as [ops k1] eqn:En. binv H n1 Hn1. injection H as <- <-.
    destruct (me_new_names_spec groups (gops g) k ops k1 (me_kinv n k I) En) as (Hk1 & Hle & Hcan & Hsame).
    pose proof (emplace_gate_wf _ _ _ _ _ (me_wf n k I) Hn1) as W1.
    apply emplace_gate_inv in Hn1. destruct Hn1 as (Hl & Hex & ->).
    assert (Hsub : forall x g0, dget (gates n) x = Some g0 ->
              dget (gates (emplace_gate_raw n l (gtyp g) ops)) x = Some g0).
    { intros x g0 Hx. rewrite emplace_raw_gates, dget_dset. destruct (leqb_spec x l) as [->|]; [|exact Hx].
      apply get_has_gate in Hx. congruence. }
    constructor.
    - exact Hk1.
    - exact W1.
    - intros l0 g' Hg'. rewrite emplace_raw_gates, dget_dset in Hg'. destruct (leqb_spec l0 l) as [->|].
      + injection Hg' as <-. exists g. auto.
      + apply (me_img n k I); exact Hg'.
    - intros l0 g' o Hg' Ho. rewrite emplace_raw_gates, dget_dset in Hg'. destruct (leqb_spec l0 l) as [->|].
      + injection Hg' as <-. simpl in Ho. rewrite Forall_forall in Hcan. apply Hcan; exact Ho.
      + eapply cank_mono; [eapply (me_canon n k I); eassumption|exact Hle].
    - intros l0 x a v Hl0 Hx Ha Hev. rewrite emplace_raw_has_gate in Hl0.
      destruct (leqb_spec l0 l) as [->|Hne].
      2:{ simpl in Hl0. eapply Eval_extend; [exact Hsub|]. eapply (me_sem n k I); eassumption. }
      assert (Hgl : dget (gates (emplace_gate_raw n l (gtyp g) ops)) l = Some (mkGate (gtyp g) ops))
        by (rewrite emplace_raw_gates; apply dget_dset_same).
      inversion Hev as [l' g0 Hg0 Ht0|l' g0 vs v' Hg0 Ht0 Hops Hop]; subst.
      + assert (g0 = g) by congruence. subst g0. eapply EvalInput; [exact Hgl|exact Ht0].
      + assert (g0 = g) by congruence. subst g0.
        eapply EvalGate; [exact Hgl|exact Ht0| |exact Hop]. simpl.
        apply (Forall2_transport (same_class groups) (Eval c a) _ (gops g) ops vs Hsame Hops).
        intros o o' w Ho Ho' Hsc Hw.
        assert (Hco : has_gate c o = true) by (eapply (wf_ops c Hwf); eassumption).
        assert (Hno' : has_gate n o' = true) by (apply Hex; exact Ho').
        assert (Hco' : has_gate c o' = true).
        { apply has_gate_get in Hno'. destruct Hno' as [g' Hg']. destruct (me_img n k I o' g' Hg') as (g1 & Hg1 & _).
          eapply get_has_gate; exact Hg1. }
        eapply Eval_extend; [exact Hsub|]. eapply (me_sem n k I); try eassumption.
        eapply (same_class_equiv o o'); eassumption.
  Qed.

  Lemma me_fold_inv emit : forall n k n1 k1,
    MEinv n k -> foldM (me_step c groups) emit (n, k) = Ok (n1, k1) -> MEinv n1 k1.
  Proof.
    induction emit as [|l emit IH]; intros n k n1 k1 I H; simpl in H.
    - injection H as <- <-. exact I.
    - binv H stt Hs. destruct stt as [n' k']. eapply IH; [eapply me_step_inv; eassumption|exact H].
  Qed.
End ME.

(* what the pass produces *)
Theorem me_result c m : WF c -> merge_equivalent_gates c = Ok m ->
  WF m /\ inputs m = inputs c /\
  exists gtt k, get_gates_truth_table c = Ok gtt /\
    (forall l, reachable m l -> cank (groups_of gtt) k l) /\
    (forall l, has_gate m l = true -> has_gate c l = true) /\
    (forall l x a v, has_gate m l = true -> In x (all_bool_vectors (length (inputs c))) ->
                     assign_of c x = Ok a -> Eval c a l v -> Eval m a l v).
Proof.
  intros W H. destruct (me_unfold c m H) as (gtt & emit & n1 & k & n2 & Hgtt & He & Hf & Hn2 & Hm).
  pose proof (me_fold_inv c W gtt Hgtt emit _ _ _ _ (MEinv_init c gtt) Hf) as I.
  assert (W2 : WF n2) by (eapply set_inputs_wf; [exact (me_wf c gtt n1 k I)|exact Hn2]).
  assert (Wm : WF m) by (eapply set_outputs_wf; eassumption).
  apply set_inputs_inv in Hn2. apply set_outputs_inv in Hm. destruct Hm as [Em _].
  assert (Eg : gates m = gates n1) by (rewrite Em, Hn2; reflexivity).
  destruct (me_new_names (groups_of gtt) k (outputs c)) as [outs k2] eqn:Eo. simpl in Em.
  destruct (me_new_names_spec (groups_of gtt) (outputs c) k outs k2 (me_kinv c gtt n1 k I) Eo) as (_ & Hle & Hcan & _).
  split; [exact Wm|]. split; [rewrite Em, Hn2; reflexivity|].
  exists gtt, k2. split; [exact Hgtt|]. split; [|split].
  - unfold reachable. apply reach_closed.
    + intros s Hs. rewrite Em in Hs. simpl in Hs. rewrite Forall_forall in Hcan. apply Hcan; exact Hs.
    + intros a b _ Hb. unfold ops_of in Hb. destruct (dget (gates m) a) as [g|] eqn:E; [|destruct Hb].
      rewrite Eg in E. eapply cank_mono; [eapply (me_canon c gtt n1 k I); eassumption|exact Hle].
  - intros l Hl. unfold has_gate in Hl. rewrite Eg in Hl. apply dmem_true_get in Hl. destruct Hl as [g' Hg'].
    destruct (me_img c gtt n1 k I l g' Hg') as (g & Hg & _). eapply get_has_gate; exact Hg.
  - intros l x a v Hl Hx Ha Hev. apply (Eval_extend n1 m); [intros k0 g0; rewrite Eg; auto|].
    apply (me_sem c gtt n1 k I l x a v); try assumption. unfold has_gate in *. rewrite <- Eg. exact Hl.
Qed.

(* RemoveRedundantGates keeps the value of every reachable gate *)
Lemma rr_eval allow m c' a : WF m -> remove_redundant_gates allow m = Ok c' ->
  forall l v, Eval m a l v -> reachable m l -> Eval c' a l v.
Proof.
  intros W H. destruct (rr_effect allow m c' W H) as (_ & Hg & _).
  intros l v Hev. induction Hev as [l g Hgl Ht|l g vs v Hgl Ht Hops IH Hop] using Eval_ind2; intros Hr.
  - eapply EvalInput; [apply Hg; left; split; eassumption|exact Ht].
  - eapply EvalGate; [apply Hg; left; split; eassumption|exact Ht| |exact Hop].
    assert (Hall : forall o, In o (gops g) -> reachable m o).
    { intros o Ho. unfold reachable. eapply reach_step; [exact Hr|]. rewrite (ops_of_get m l g Hgl). exact Ho. }
    clear - IH Hall. induction IH as [|o w os ws Hw _ IHr]; constructor.
    + apply Hw, Hall. left; reflexivity.
    + apply IHr. intros o' Ho'. apply Hall. right; exact Ho'.
Qed.

Theorem me_effect c c' gtt' : WF c ->
  apply_transformers c [TME] = Ok c' -> get_gates_truth_table c' = Ok gtt' ->
  forall l1 l2 g1 g2, dget (gates c') l1 = Some g1 -> dget (gates c') l2 = Some g2 ->
    gtyp g1 <> INPUT -> gtyp g2 <> INPUT -> dget gtt' l1 = dget gtt' l2 -> l1 = l2.
Proof.
  intros W H Hgtt' l1 l2 g1 g2 H1 H2 T1 T2 Heq.
  destruct (apply_single_post TME c c' (or_intror (or_intror eq_refl)) H) as (m & Hm & Hrr). simpl in Hm.
  destruct (me_result c m W Hm) as (Wm & Him & gtt & k & Hgtt & Hcan & Hsub & Hsem).
  destruct (rr_spec false m c' Hrr) as (order & _ & S). pose proof (rs_wf _ _ _ _ S) as W'.
  destruct (rr_effect false m c' Wm Hrr) as (_ & Hg & _ & _ & Hic). specialize (Hic eq_refl).
  assert (Ei : inputs c' = inputs c) by congruence.
  apply Hg in H1. apply Hg in H2.
  destruct H1 as [[R1 H1]|(_ & _ & _ & ->)]; [|exfalso; apply T1; reflexivity].
  destruct H2 as [[R2 H2]|(_ & _ & _ & ->)]; [|exfalso; apply T2; reflexivity].
  assert (Hm1 : has_gate m l1 = true) by (eapply get_has_gate; exact H1).
  assert (Hm2 : has_gate m l2 = true) by (eapply get_has_gate; exact H2).
  destruct (gtt_spec c gtt W Hgtt) as [Hnd Hspec]. destruct (gtt_spec c' gtt' W' Hgtt') as [_ Hspec'].
  (* the tables of c' and of c agree on the surviving gates *)
  assert (Hsame : forall l, reachable m l -> has_gate m l = true ->
            exists t, dget gtt l = Some t /\ dget gtt' l = Some t).
  { intros l Hr Hml. destruct (Hspec l (Hsub l Hml)) as (vs & Hvs & HF).
    assert (Hc'l : has_gate c' l = true).
    { apply has_gate_get in Hml. destruct Hml as [g Hgl]. eapply get_has_gate. apply Hg. left. split; eassumption. }
    destruct (Hspec' l Hc'l) as (vs' & Hvs' & HF'). rewrite Ei in HF'.
    exists vs. split; [exact Hvs|]. rewrite Hvs'. f_equal. symmetry.
    apply (Forall2_functional_eq _ _ _ _ _ HF HF'). intros x v v' Hx (a & Ha & Hev) (a' & Ha' & Hev').
    unfold assign_of in Ha'. rewrite Ei in Ha'. assert (a' = a) by (unfold assign_of in Ha; congruence). subst a'.
    eapply Eval_functional; [|exact Hev']. eapply rr_eval; [exact Wm|exact Hrr| |exact Hr].
    eapply Hsem; eassumption. }
  destruct (Hsame l1 R1 Hm1) as (t1 & Ht1 & Ht1'). destruct (Hsame l2 R2 Hm2) as (t2 & Ht2 & Ht2').
  assert (t1 = t2) by congruence. subst t2.
  destruct (leqb_spec l1 l2) as [E|Hne]; [exact E|exfalso].
  destruct (same_tt_group_exists gtt l1 l2 t1 Ht1 Ht2 Hne) as (g & Hgg & Hl1).
  assert (Hidx : group_index (groups_of gtt) l1 0 = group_index (groups_of gtt) l2 0).
  { apply group_index_congr. intros g0 Hg0. split; [apply (same_tt_same_groups gtt Hnd l1 l2 t1 Ht1 Ht2 g0 Hg0)|
                                                    apply (same_tt_same_groups gtt Hnd l2 l1 t1 Ht2 Ht1 g0 Hg0)]. }
  destruct (group_index (groups_of gtt) l1 0) as [i|] eqn:Ei1.
  - apply Hne. eapply (cank_unique (groups_of gtt) k l1 l2 i); [apply Hcan; exact R1|apply Hcan; exact R2|exact Ei1|symmetry; exact Hidx].
  - eapply (group_index_some (groups_of gtt) l1 g Hgg Hl1 0). exact Ei1.
Qed.
