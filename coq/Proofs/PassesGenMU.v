(* The regenerated MergeUnaryOperators._transform (Generated/PassesGen.v, translator T15) equals the hand model
   Passes.merge_unary_operators, for every circuit. *)
Require Import Cirbo.Model.Base Cirbo.Model.Gate Cirbo.Model.Circuit Cirbo.Model.Traverse Cirbo.Model.Eval
               Cirbo.Model.Passes.
Require Import Cirbo.Generated.GateTypes Cirbo.Generated.PassesGen.
Require Import Cirbo.Proofs.PassesGenBase.

Lemma gen_mu_remap_eq c even odd iff l :
  gen_MergeUnaryOperators_transform_remap_gate c even iff l = mu_remap c (mkMu even odd iff) l.
Proof.
  unfold gen_MergeUnaryOperators_transform_remap_gate, mu_remap.
  destruct (get_gate c l) as [[t ops]|e]; cbn [bind gtyp mu_even mu_iff]; [|reflexivity].
  destruct t; reflexivity.
Qed.

Definition mu_tuple (m : mu_maps) := (mu_even m, mu_odd m, mu_iff m).

Theorem gen_mu_eq c : gen_MergeUnaryOperators_transform c = merge_unary_operators c.
Proof.
  unfold gen_MergeUnaryOperators_transform, merge_unary_operators, dfs_emission.
  destruct (top_sort true c) as [order|e]; cbn [bind]; [|reflexivity].
  match goal with |- context [foldM ?f order ([], [], [])] => set (gs := f) end.
  assert (Hstep : forall s l, gs (mu_tuple s) l = bind (mu_step c s l) (fun s' => Ok (mu_tuple s'))).
  { intros [ev od iff] l. subst gs. unfold mu_tuple. cbv beta iota. cbn [mu_even mu_odd mu_iff].
    unfold mu_step. cbn [mu_even mu_odd mu_iff].
    destruct (get_gate c l) as [[t ops]|e]; cbn [bind gtyp gops]; [|reflexivity].
    unfold unary_operand. cbn [gtyp gops].
    destruct t; cbn [is_not_like is_iff_like gtype_beq orb bind gen_unary_to_operand_getter];
      try reflexivity;
      match goal with |- context [nth_res ops ?i] => destruct (nth_res ops i) as [oper|e]; cbn [bind]; [|reflexivity] end;
      unfold py_dict_getitem, py_dict_get, mget, dmem;
      try (destruct (dget od oper); cbn [bind]); reflexivity. }
  change (foldM gs order ([], [], [])) with (foldM gs order (mu_tuple (mkMu [] [] []))).
  rewrite (fold_iso mu_tuple gs (mu_step c) Hstep), pg_bind_assoc.
  destruct (foldM (mu_step c) order (mkMu [] [] [])) as [[ev od iff]|e]; cbn [bind mu_tuple mu_even mu_odd mu_iff];
    [|reflexivity].
  rewrite !pg_bind_assoc.
  destruct (traverse DFS false c (Some (outputs c)) true no_abort) as [log|e] eqn:Ht; cbn [bind]; [|reflexivity].
  rewrite (hook_fold_same _ (fun n l => do g <- get_gate c l;
                                        gen_MergeUnaryOperators_transform_process_gate c ev iff n l g)
             (fun _ _ => eq_refl) (fun _ _ => eq_refl) (fun _ _ => eq_refl) (fun _ _ _ => eq_refl)
             (fun _ _ => eq_refl) (fun _ => eq_refl) _ _ _ _ _ _ _ _ Ht).
  rewrite (pg_foldM_ext _ (fun n l => do g <- get_gate c l; do ops <- mapM (mu_remap c (mkMu ev od iff)) (gops g);
                                      emplace_gate n l (gtyp g) ops)).
  2:{ intros s l. apply pg_bind_ext. intros g. unfold gen_MergeUnaryOperators_transform_process_gate.
      rewrite (pg_mapM_ext _ (mu_remap c (mkMu ev od iff))) by (intros; apply gen_mu_remap_eq).
      apply pg_bind_ext. intros ops. apply pg_bind_ok_r. }
  destruct (foldM _ (exits log ++ unvisiteds log) empty_circuit) as [n1|e]; cbn [bind]; [|reflexivity].
  apply pg_bind_ext. intros n2.
  rewrite (pg_mapM_ext _ (mu_remap c (mkMu ev od iff))) by (intros; apply gen_mu_remap_eq).
  apply pg_bind_ext. intros outs. apply pg_bind_ok_r.
Qed.
