(* C04: facts about the Boolean cone semantics: functionality, soundness of the executable
   cone evaluator, the link to the relational circuit semantics Sem.Eval, every Boolean
   leaf vector is a row of the pattern simulation, and the trivial-replacement statement
   (equal patterns = equal functions of the leaves, complementary patterns = negation). *)
Require Import Cirbo.Model.Base Cirbo.Model.Gate Cirbo.Model.Den Cirbo.Model.Circuit
        Cirbo.Model.Eval Cirbo.Model.Sem Cirbo.Model.ConeSem Cirbo.Model.PatternSim
        Cirbo.Model.SubcircuitValidator.
Require Import Cirbo.Generated.GateTypes Cirbo.Generated.PatternOps.
Require Import Cirbo.Proofs.DictFacts Cirbo.Proofs.OpFacts Cirbo.Proofs.SemFacts
        Cirbo.Proofs.PatternBits Cirbo.Proofs.PatternFacts Cirbo.Proofs.ConeSim.

Theorem ConeEval_functional c rho l b b' : ConeEval c rho l b -> ConeEval c rho l b' -> b = b'.
Proof.
  intros H; revert b'; induction H as [l b Hl|l g bs b Hl Hg Hops IH Hd] using ConeEval_ind2; intros b' H'.
  - inversion H' as [? ? Hl'|? g' bs' ? Hl' Hg' Hops' Hd']; subst; congruence.
  - inversion H' as [? ? Hl'|? g' bs' ? Hl' Hg' Hops' Hd']; subst; [congruence|].
    rewrite Hg in Hg'; injection Hg' as <-.
    assert (bs = bs') as <- by (eapply Forall2_eq_l; eassumption).
    congruence.
Qed.

Lemma mapO_Forall2 {A B} (f : A -> option B) l r :
  mapO f l = Some r -> Forall2 (fun x y => f x = Some y) l r.
Proof.
  revert r; induction l as [|x xs IH]; simpl; intros r; [intros [= <-]; constructor|].
  destruct (f x) as [y|] eqn:E; [|discriminate].
  destruct (mapO f xs) as [ys|] eqn:E'; [|discriminate].
  intros [= <-]; constructor; auto.
Qed.

(* the executable evaluator is sound for the cone semantics (any fuel) *)
Theorem cone_eval_sound c rho : forall fuel l b,
  cone_eval fuel c rho l = Some b -> ConeEval c rho l b.
Proof.
  induction fuel as [|fuel IH]; intros l b; simpl; [discriminate|].
  destruct (dget rho l) as [b0|] eqn:El; [intros [= <-]; apply CELeaf; exact El|].
  destruct (dget (gates c) l) as [g|] eqn:Eg; [|discriminate].
  destruct (mapO (cone_eval fuel c rho) (gops g)) as [bs|] eqn:Em; [|discriminate].
  intros Hd. eapply CEGate; try eassumption.
  apply mapO_Forall2 in Em. clear -Em IH.
  induction Em as [|o y os ys Hoy _ IH']; constructor; [apply IH; exact Hoy|exact IH'].
Qed.

Lemma Forall2_combine_In {A B} (P : A -> B -> Prop) ls vs x y :
  Forall2 P ls vs -> In (x, y) (combine ls vs) -> P x y.
Proof.
  induction 1 as [|a b ls vs Hab _ IH]; simpl; [tauto|].
  intros [[= <- <-]|H]; [exact Hab|apply IH; exact H].
Qed.

(* if the leaves have the Boolean values v in the circuit semantics under assignment a, the
   cone value of a gate is its circuit value *)
Theorem ConeEval_Eval c a ls v l b :
  Forall2 (fun x y => Eval c a x (inj y)) ls v ->
  ConeEval c (combine ls v) l b -> Eval c a l (inj b).
Proof.
  intros Hl H. induction H as [l b Hb|l g bs b Hb Hg Hops IH Hd] using ConeEval_ind2.
  - apply dget_In in Hb. eapply (Forall2_combine_In _ _ _ _ _ Hl Hb).
  - eapply EvalGate with (vs := map inj bs); [exact Hg| | |].
    + intros Ht. rewrite Ht in Hd. discriminate.
    + clear -IH. induction IH; simpl; constructor; assumption.
    + rewrite operator_of_den, Hd. reflexivity.
Qed.

(* ---- every Boolean leaf vector is a row of the simulation ---- *)
Fixpoint bits_to_N (v : list bool) : N :=
  match v with [] => 0%N | b :: r => (2 * bits_to_N r + N.b2n b)%N end.

Lemma bits_to_N_lt v : (bits_to_N v < 2 ^ N.of_nat (length v))%N.
Proof.
  induction v as [|b r IH]; [reflexivity|].
  cbn [bits_to_N length]. rewrite Nat2N.inj_succ, N.pow_succ_r'. destruct b; simpl N.b2n; lia.
Qed.

Lemma rows_cover v :
  map (N.testbit (bits_to_N v)) (nrange (N.of_nat (length v))) = v.
Proof.
  unfold nrange. rewrite Nat2N.id, map_map.
  induction v as [|b r IH]; [reflexivity|].
  cbn [length bits_to_N]. rewrite <- cons_seq, <- seq_shift, map_cons, map_map. f_equal.
  - apply N.testbit_0_r.
  - etransitivity; [|exact IH]. apply map_ext. intros j. rewrite Nat2N.inj_succ. apply N.testbit_succ_r.
Qed.

Corollary row_assign_cover leaves v :
  length v = length leaves ->
  exists i, (i < 2 ^ N.of_nat (length leaves))%N /\ row_assign leaves i = combine leaves v.
Proof.
  intros Hl. exists (bits_to_N v). rewrite <- Hl. split; [apply bits_to_N_lt|].
  unfold row_assign. rewrite <- Hl, rows_cover. reflexivity.
Qed.

(* ---- trivial replacement ----
   two simulated nodes with equal patterns have the same value under every leaf vector;
   with complementary patterns (p = max_pattern - q) the first is the negation of the
   second.  minimize_subcircuits uses it with the second node a leaf. *)
Theorem equal_patterns_equal_functions c leaves nodes d o p l q :
  NoDup leaves -> cone_okb c leaves [] nodes = true ->
  simulate_cone c leaves nodes = Ok d ->
  dget d o = Some p -> dget d l = Some q ->
  p = q ->
  forall v, length v = length leaves ->
    exists b, ConeEval c (combine leaves v) o b /\ ConeEval c (combine leaves v) l b.
Proof.
  intros Hnd Hok Hs Hp Hq <- v Hv.
  destruct (simulate_cone_truth_tables _ _ _ _ Hnd Hok Hs) as [H _].
  destruct (row_assign_cover leaves v Hv) as (i & Hi & <-).
  exists (N.testbit p i). split; [apply (H o p Hp)|apply (H l p Hq)]; exact Hi.
Qed.

Theorem complementary_patterns_negated_functions c leaves nodes d o p l q :
  NoDup leaves -> cone_okb c leaves [] nodes = true ->
  simulate_cone c leaves nodes = Ok d ->
  dget d o = Some p -> dget d l = Some q ->
  p = (max_pattern (N.of_nat (length leaves)) - q)%N ->
  forall v, length v = length leaves ->
    exists b, ConeEval c (combine leaves v) o (negb b) /\ ConeEval c (combine leaves v) l b.
Proof.
  intros Hnd Hok Hs Hp Hq -> v Hv.
  destruct (simulate_cone_truth_tables _ _ _ _ Hnd Hok Hs) as [H _].
  destruct (row_assign_cover leaves v Hv) as (i & Hi & <-).
  exists (N.testbit q i). destruct (H l q Hq) as [Hql Hqb]. split; [|apply Hqb; exact Hi].
  rewrite <- (testbit_compl (2 ^ N.of_nat (length leaves)) q i Hql Hi), <- max_pattern_eq.
  apply (H o _ Hp). exact Hi.
Qed.

(* a leaf's cone value is what the leaf vector says *)
Lemma ConeEval_leaf c rho l b b' : dget rho l = Some b -> ConeEval c rho l b' -> b' = b.
Proof. intros Hl H. eapply ConeEval_functional; [exact H|apply CELeaf; exact Hl]. Qed.
