(* C18, MergeUnaryOperators followed by its implied RemoveRedundantGates:
   - on a circuit whose unary gates are all NOT, no NOT gate of the result has a NOT gate as operand;
   - on a circuit without NOT-like gates, no IFF-like gate of the result is an operand or an output. *)
Require Import Cirbo.Model.Base Cirbo.Model.Gate Cirbo.Model.Den Cirbo.Model.Circuit Cirbo.Model.Traverse Cirbo.Model.WF.
Require Import Cirbo.Model.Passes.
Require Import Cirbo.Generated.GateTypes.
Require Import Cirbo.Proofs.DictFacts Cirbo.Proofs.WFBase Cirbo.Proofs.WFSimple Cirbo.Proofs.WFEmplace
               Cirbo.Proofs.TopSortWF Cirbo.Proofs.TraverseStep Cirbo.Proofs.TraverseInv
               Cirbo.Proofs.RebuildFacts Cirbo.Proofs.EffectRR Cirbo.Proofs.EffectMD.
Require Import Coq.Sorting.Permutation.

(* ---------------- the stages of the pass ---------------- *)
Definition mu_build (c : circuit) (m : mu_maps) (n : circuit) (l : label) : res circuit :=
  do g <- get_gate c l; do ops <- mapM (mu_remap c m) (gops g); emplace_gate n l (gtyp g) ops.

Lemma mu_unfold c r : merge_unary_operators c = Ok r ->
  exists order m emit n1 n2 outs,
    top_sort true c = Ok order /\ foldM (mu_step c) order (mkMu [] [] []) = Ok m /\
    dfs_emission c true = Ok emit /\ foldM (mu_build c m) emit empty_circuit = Ok n1 /\
    set_inputs n1 (inputs c) = Ok n2 /\ mapM (mu_remap c m) (outputs c) = Ok outs /\
    set_outputs n2 outs = Ok r.
Proof.
  unfold merge_unary_operators. intros H. binv H order Ho. binv H m Hm. binv H emit He. binv H n1 Hn1.
  binv H n2 Hn2. binv H outs Houts. exists order, m, emit, n1, n2, outs. auto 10.
Qed.

(* every gate of the rebuilt circuit is a gate of c with remapped operands *)
Definition mu_image (c : circuit) (m : mu_maps) (l : label) (g' : gate) : Prop :=
  exists g, dget (gates c) l = Some g /\ gtyp g' = gtyp g /\ mapM (mu_remap c m) (gops g) = Ok (gops g').

Lemma mu_build_gates c m emit n1 : foldM (mu_build c m) emit empty_circuit = Ok n1 ->
  WF n1 /\ forall l g', dget (gates n1) l = Some g' -> mu_image c m l g'.
Proof.
  apply (foldM_ok_inv (mu_build c m) (fun n => WF n /\ forall l g', dget (gates n) l = Some g' -> mu_image c m l g')).
  - intros n l n' _ [W Hn] H. unfold mu_build in H. binv H g Hg. binv H ops Hops.
    split; [eapply emplace_gate_wf; eassumption|].
    apply emplace_gate_inv in H. destruct H as (_ & _ & ->).
    intros k g' Hk. rewrite emplace_raw_gates, dget_dset in Hk. destruct (leqb_spec k l) as [->|]; [|apply Hn; exact Hk].
    injection Hk as <-. exists g. apply get_gate_ok in Hg. auto.
  - split; [apply WF_empty|discriminate].
Qed.

(* if every remapped label is Good, the circuit after MU ; RR refers to Good labels only *)
Lemma mapM_ok_In {A B} (f : A -> res B) l r y : mapM f l = Ok r -> In y r -> exists x, In x l /\ f x = Ok y.
Proof.
  intros H. apply mapM_ok_Forall2 in H. induction H as [|a b l r Hab _ IH]; intros Hy; [destruct Hy|].
  destruct Hy as [<-|Hy]; [exists a; split; [left; reflexivity|exact Hab]|].
  destruct (IH Hy) as (x & Hx & Hfx). exists x. split; [right; exact Hx|exact Hfx].
Qed.

Lemma mu_rr_refs (Good : label -> Prop) c c' :
  apply_transformers c [TMU] = Ok c' ->
  exists m, (exists order, top_sort true c = Ok order /\ foldM (mu_step c) order (mkMu [] [] []) = Ok m) /\
  ((forall o r, mu_remap c m o = Ok r -> Good r) ->
   (forall o, In o (outputs c') -> Good o) /\
   (forall l g', dget (gates c') l = Some g' ->
      g' = mkGate INPUT [] \/ (Good l /\ mu_image c m l g' /\ forall o, In o (gops g') -> Good o))).
Proof.
  intros H. destruct (apply_single_post TMU c c' (or_introl eq_refl) H) as (r & Hr & Hrr). simpl in Hr.
  destruct (mu_unfold c r Hr) as (order & m & emit & n1 & n2 & outs & Ho & Hm & He & Hn1 & Hn2 & Houts & Hset).
  exists m. split; [eauto|]. intros HG.
  destruct (mu_build_gates c m emit n1 Hn1) as [W1 Himg].
  assert (W2 : WF n2) by (eapply set_inputs_wf; eassumption).
  assert (Wr : WF r) by (eapply set_outputs_wf; eassumption).
  apply set_inputs_inv in Hn2. apply set_outputs_inv in Hset. destruct Hset as [Er _].
  assert (Eg : gates r = gates n1) by (rewrite Er, Hn2; reflexivity).
  assert (Eo : outputs r = outs) by (rewrite Er; reflexivity).
  assert (Houts_good : forall o, In o outs -> Good o).
  { intros o Hin. destruct (mapM_ok_In _ _ _ _ Houts Hin) as (x & _ & Hx). eapply HG; exact Hx. }
  assert (Hops_good : forall l g' o, dget (gates r) l = Some g' -> In o (gops g') -> Good o).
  { intros l g' o Hl Hin. rewrite Eg in Hl. destruct (Himg l g' Hl) as (g & _ & _ & Hmap).
    destruct (mapM_ok_In _ _ _ _ Hmap Hin) as (x & _ & Hx). eapply HG; exact Hx. }
  assert (Hreach : forall l, reachable r l -> Good l).
  { unfold reachable. apply reach_closed.
    - intros s Hs. apply Houts_good. rewrite <- Eo. exact Hs.
    - intros a b _ Hb. unfold ops_of in Hb. destruct (dget (gates r) a) as [g|] eqn:E; [|destruct Hb].
      eapply Hops_good; eassumption. }
  destruct (rr_effect false r c' Wr Hrr) as (_ & Hg & Hout & _).
  split.
  - intros o Hin. rewrite Hout, Eo in Hin. apply Houts_good; exact Hin.
  - intros l g' Hl. apply Hg in Hl. destruct Hl as [[R Hl]|(_ & _ & _ & ->)]; [right|left; reflexivity].
    split; [apply Hreach; exact R|]. split; [apply Himg; rewrite <- Eg; exact Hl|].
    intros o Hin. eapply Hops_good; eassumption.
Qed.

Lemma mu_step_other c m l g : get_gate c l = Ok g -> is_not_like (gtyp g) = false ->
  is_iff_like (gtyp g) = false -> mu_step c m l = Ok m.
Proof. intros Hg H1 H2. unfold mu_step. rewrite Hg. simpl. rewrite H1. simpl. rewrite H2. reflexivity. Qed.

(* ================= circuits whose unary gates are all NOT ================= *)
Definition unary_all_not (c : circuit) : Prop :=
  forall l g, dget (gates c) l = Some g ->
    is_iff_like (gtyp g) = false /\ (is_not_like (gtyp g) = true -> gtyp g = NOT).

Section AllNot.
  Variable c : circuit.
  Hypothesis Hwf : WF c.
  Hypothesis Hun : unary_all_not c.
  Hypothesis Har : forall l g, dget (gates c) l = Some g -> gtyp g = NOT -> exists x, gops g = [x].

  Definition notg (l : label) : Prop := exists g, dget (gates c) l = Some g /\ gtyp g = NOT.
  (* a NOT gate whose operand is not a NOT gate *)
  Definition d1 (l : label) : Prop :=
    exists g x, dget (gates c) l = Some g /\ gtyp g = NOT /\ gops g = [x] /\ ~ notg x.
  Definition good (p : label) : Prop := has_gate c p = true /\ (notg p -> d1 p).

  Record NInv (P : list label) (m : mu_maps) : Prop := mkNInv {
    ni_odd : forall l p, dget (mu_odd m) l = Some p -> In l P /\ notg l /\ good p;
    ni_even : forall l p, dget (mu_even m) l = Some p -> good p;
    ni_done : forall l, In l P -> notg l ->
                dget (mu_odd m) l <> None /\ (dget (mu_even m) l = None -> d1 l) }.

  Lemma NInv_weaken P x m : NInv P m -> ~ notg x -> NInv (P ++ [x]) m.
  Proof.
    intros I Hx. constructor.
    - intros l p H. destruct (ni_odd P m I l p H) as (H1 & H2 & H3). split; [apply in_or_app; left; exact H1|auto].
    - apply (ni_even P m I).
    - intros l Hl Hn. apply in_app_or in Hl. destruct Hl as [Hl|[<-|[]]]; [apply (ni_done P m I); assumption|contradiction].
  Qed.

  Lemma mu_step_NInv P l m m' :
    NInv P m -> ~ In l P -> (forall o, In o (ops_of c l) -> In o P) ->
    mu_step c m l = Ok m' -> NInv (P ++ [l]) m'.
  Proof.
    intros I Hl Hops H. unfold mu_step in H. binv H g Hg. pose proof Hg as Hgg. apply get_gate_ok in Hg.
    destruct (Hun l g Hg) as [Hiff Hnot]. rewrite Hiff in H.
    destruct (is_not_like (gtyp g)) eqn:En.
    2:{ binv H m1 Hm1. injection Hm1 as <-. injection H as <-. apply NInv_weaken; [exact I|].
        intros (g0 & Hg0 & Ht). assert (g0 = g) by congruence. subst g0. rewrite Ht in En. discriminate. }
    specialize (Hnot eq_refl). destruct (Har l g Hg Hnot) as [x Ex].
    binv H m1 Hm1. injection H as <-. binv Hm1 oper Hop. injection Hm1 as <-.
    unfold unary_operand in Hop. rewrite Hnot, Ex in Hop. simpl in Hop. injection Hop as <-.
    assert (HxP : In x P) by (apply Hops; rewrite (ops_of_get c l g Hg), Ex; left; reflexivity).
    assert (Hxl : x <> l) by (intros ->; contradiction).
    assert (Hxg : has_gate c x = true) by (apply (wf_ops c Hwf l g x Hg); rewrite Ex; left; reflexivity).
    assert (Hnl : notg l) by (exists g; auto).
    set (even' := match dget (mu_odd m) x with Some p => dset (mu_even m) l p | None => mu_even m end).
    assert (Hme : mget even' x = mget (mu_even m) x).
    { unfold mget, even'. destruct (dget (mu_odd m) x); [rewrite dget_dset_other by exact Hxl|]; reflexivity. }
    assert (Hgood : good (mget (mu_even m) x)).
    { unfold mget. destruct (dget (mu_even m) x) as [p|] eqn:E; [apply (ni_even P m I x p E)|].
      split; [exact Hxg|]. intros Hn. apply (ni_done P m I x HxP Hn). exact E. }
    constructor; simpl.
    - intros k p Hk. rewrite dget_dset in Hk. destruct (leqb_spec k l) as [->|Hkl].
      + injection Hk as <-. split; [apply in_or_app; right; left; reflexivity|]. split; [exact Hnl|].
        fold even'. rewrite Hme. exact Hgood.
      + destruct (ni_odd P m I k p Hk) as (H1 & H2 & H3). split; [apply in_or_app; left; exact H1|auto].
    - intros k p Hk. fold even' in Hk. unfold even' in Hk.
      destruct (dget (mu_odd m) x) as [q|] eqn:Eo; [|apply (ni_even P m I k p Hk)].
      rewrite dget_dset in Hk. destruct (leqb_spec k l) as [->|Hkl]; [|apply (ni_even P m I k p Hk)].
      injection Hk as <-. apply (ni_odd P m I x q Eo).
    - intros k Hk Hn. apply in_app_or in Hk. destruct Hk as [Hk|[<-|[]]].
      + assert (Hkl : k <> l) by (intros ->; contradiction).
        rewrite dget_dset_other by exact Hkl. destruct (ni_done P m I k Hk Hn) as [H1 H2]. split; [exact H1|].
        fold even'. unfold even'. destruct (dget (mu_odd m) x); [rewrite dget_dset_other by exact Hkl|]; exact H2.
      + rewrite dget_dset_same. split; [discriminate|]. fold even'. unfold even'.
        destruct (dget (mu_odd m) x) as [q|] eqn:Eo; [rewrite dget_dset_same; discriminate|].
        intros _. exists g, x. split; [exact Hg|]. split; [exact Hnot|]. split; [exact Ex|].
        intros Hnx. apply (ni_done P m I x HxP Hnx). exact Eo.
  Qed.

  Lemma mu_fold_NInv order m :
    top_sort true c = Ok order -> foldM (mu_step c) order (mkMu [] [] []) = Ok m -> NInv order m.
  Proof.
    intros Ho Hm. pose proof (top_sort_nodup c true order Hwf Ho) as Hnd.
    apply (foldM_prefix_inv (mu_step c) NInv order) with (rest := order) (P := []) (s := mkMu [] [] []);
      [|reflexivity| |exact Hm].
    - intros P x rest s s' E HI Hs. apply (mu_step_NInv P x s s'); [exact HI| | |exact Hs].
      + rewrite E in Hnd. apply NoDup_remove_2 in Hnd. intros Hin. apply Hnd. apply in_or_app; left; exact Hin.
      + intros o Hoo. eapply (top_sort_true_prefix c order Hwf Ho); eassumption.
    - constructor; simpl; try discriminate. intros l [].
  Qed.

  Lemma mu_remap_good order m o r :
    top_sort true c = Ok order -> foldM (mu_step c) order (mkMu [] [] []) = Ok m ->
    mu_remap c m o = Ok r -> good r.
  Proof.
    intros Ho Hm H. pose proof (mu_fold_NInv order m Ho Hm) as I.
    unfold mu_remap in H. binv H g Hg. apply get_gate_ok in Hg. destruct (Hun o g Hg) as [Hiff Hnot].
    assert (HoP : In o order).
    { apply (Permutation_in _ (Permutation_sym (top_sort_perm c true order Hwf Ho))). eapply dget_In_keys; exact Hg. }
    destruct (is_not_like (gtyp g)) eqn:En.
    - injection H as <-. assert (Hn : notg o) by (exists g; auto).
      unfold mget. destruct (dget (mu_even m) o) as [p|] eqn:E; [apply (ni_even order m I o p E)|].
      split; [eapply get_has_gate; exact Hg|]. intros _. apply (ni_done order m I o HoP Hn). exact E.
    - rewrite Hiff in H. injection H as <-. split; [eapply get_has_gate; exact Hg|].
      intros (g0 & Hg0 & Ht). assert (g0 = g) by congruence. subst g0. rewrite Ht in En. discriminate.
  Qed.

  Theorem mu_no_double_not c' : apply_transformers c [TMU] = Ok c' ->
    forall l g o go, dget (gates c') l = Some g -> gtyp g = NOT -> In o (gops g) ->
                     dget (gates c') o = Some go -> gtyp go <> NOT.
  Proof.
    intros H l g' o go Hl Ht Hin Hgo.
    destruct (mu_rr_refs good c c' H) as (m & (order & Ho & Hm) & HR).
    destruct HR as [_ HG]; [intros x r; apply (mu_remap_good order m x r Ho Hm)|].
    destruct (HG l g' Hl) as [->|(Hgl & (g & Hg & Et & Hmap) & _)]; [discriminate|].
    assert (Hn : notg l) by (exists g; split; [exact Hg|congruence]).
    destruct (proj2 Hgl Hn) as (g1 & x & Hg1 & _ & Ex & Hnx). assert (g1 = g) by congruence. subst g1.
    rewrite Ex in Hmap. simpl in Hmap. binv Hmap r Hr. injection Hmap as Eops. rewrite <- Eops in Hin.
    destruct Hin as [<-|[]].
    (* the operand x of l is not a NOT gate, hence is not remapped *)
    unfold mu_remap in Hr. binv Hr gx Hgx. apply get_gate_ok in Hgx. destruct (Hun x gx Hgx) as [Hiff Hnot].
    assert (Enx : is_not_like (gtyp gx) = false).
    { destruct (is_not_like (gtyp gx)) eqn:E; [|reflexivity]. exfalso. apply Hnx. exists gx. auto. }
    rewrite Enx, Hiff in Hr. injection Hr as <-.
    destruct (HG x go Hgo) as [->|(_ & (gx' & Hgx' & Etx & _) & _)]; [discriminate|].
    assert (gx' = gx) by congruence. subst gx'. rewrite Etx. intros E. apply Hnx. exists gx. auto.
  Qed.
End AllNot.

(* ================= circuits without NOT-like gates ================= *)
Definition no_not_like (c : circuit) : Prop :=
  forall l g, dget (gates c) l = Some g -> is_not_like (gtyp g) = false.

Section NoNot.
  Variable c : circuit.
  Hypothesis Hwf : WF c.
  Hypothesis Hnn : no_not_like c.

  Definition iffg (l : label) : Prop := exists g, dget (gates c) l = Some g /\ is_iff_like (gtyp g) = true.
  Definition plain (p : label) : Prop := has_gate c p = true /\ ~ iffg p.

  Record FInv (P : list label) (m : mu_maps) : Prop := mkFInv {
    fi_map : forall l p, dget (mu_iff m) l = Some p -> plain p;
    fi_done : forall l, In l P -> iffg l -> dget (mu_iff m) l <> None }.

  Lemma mu_step_FInv P l m m' :
    FInv P m -> (forall o, In o (ops_of c l) -> In o P) ->
    mu_step c m l = Ok m' -> FInv (P ++ [l]) m'.
  Proof.
    intros I Hops H. unfold mu_step in H. binv H g Hg. apply get_gate_ok in Hg.
    rewrite (Hnn l g Hg) in H. binv H m1 Hm1. injection Hm1 as <-.
    destruct (is_iff_like (gtyp g)) eqn:Ei.
    - binv H x Hx. injection H as <-.
      assert (Hxo : In x (gops g)).
      { unfold unary_operand, nth_res in Hx.
        destruct (gtyp g); (destruct (nth_error (gops g) _) eqn:En; [|discriminate]); injection Hx as <-;
          eapply nth_error_In; exact En. }
      assert (HxP : In x P) by (apply Hops; rewrite (ops_of_get c l g Hg); exact Hxo).
      assert (Hxg : has_gate c x = true) by (apply (wf_ops c Hwf l g x Hg Hxo)).
      assert (Hp : plain (mget (mu_iff m) x)).
      { unfold mget. destruct (dget (mu_iff m) x) as [p|] eqn:E; [apply (fi_map P m I x p E)|].
        split; [exact Hxg|]. intros Hi. apply (fi_done P m I x HxP Hi). exact E. }
      constructor; simpl.
      + intros k p Hk. rewrite dget_dset in Hk. destruct (leqb k l); [injection Hk as <-; exact Hp|apply (fi_map P m I k p Hk)].
      + intros k Hk Hi. rewrite dget_dset. destruct (leqb k l) eqn:Ek; [discriminate|].
        apply in_app_or in Hk. destruct Hk as [Hk|[<-|[]]]; [apply (fi_done P m I k Hk Hi)|rewrite leqb_refl in Ek; discriminate].
    - injection H as <-. constructor.
      + apply (fi_map P m I).
      + intros k Hk Hi. apply in_app_or in Hk. destruct Hk as [Hk|[<-|[]]]; [apply (fi_done P m I k Hk Hi)|].
        destruct Hi as (g0 & Hg0 & Ht). assert (g0 = g) by congruence. subst g0. congruence.
  Qed.

  Lemma mu_remap_plain order m o r :
    top_sort true c = Ok order -> foldM (mu_step c) order (mkMu [] [] []) = Ok m ->
    mu_remap c m o = Ok r -> plain r.
  Proof.
    intros Ho Hm H.
    assert (I : FInv order m).
    { apply (foldM_prefix_inv (mu_step c) FInv order) with (rest := order) (P := []) (s := mkMu [] [] []);
        [|reflexivity| |exact Hm].
      - intros P x rest s s' E HI Hs. apply (mu_step_FInv P x s s'); [exact HI| |exact Hs].
        intros o' Hoo. eapply (top_sort_true_prefix c order Hwf Ho); eassumption.
      - constructor; simpl; [discriminate|intros l []]. }
    unfold mu_remap in H. binv H g Hg. apply get_gate_ok in Hg. rewrite (Hnn o g Hg) in H.
    assert (HoP : In o order).
    { apply (Permutation_in _ (Permutation_sym (top_sort_perm c true order Hwf Ho))). eapply dget_In_keys; exact Hg. }
    destruct (is_iff_like (gtyp g)) eqn:Ei; injection H as <-.
    - assert (Hi : iffg o) by (exists g; auto). unfold mget.
      destruct (dget (mu_iff m) o) as [p|] eqn:E; [apply (fi_map order m I o p E)|].
      exfalso. apply (fi_done order m I o HoP Hi). exact E.
    - split; [eapply get_has_gate; exact Hg|]. intros (g0 & Hg0 & Ht). assert (g0 = g) by congruence. subst g0. congruence.
  Qed.

  Theorem mu_no_iff_reference c' : apply_transformers c [TMU] = Ok c' ->
    forall o go, (In o (outputs c') \/ exists l g, dget (gates c') l = Some g /\ In o (gops g)) ->
                 dget (gates c') o = Some go -> is_iff_like (gtyp go) = false.
  Proof.
    intros H o go Href Hgo.
    destruct (mu_rr_refs plain c c' H) as (m & (order & Ho & Hm) & HR).
    destruct HR as [HGo HG]; [intros x r; apply (mu_remap_plain order m x r Ho Hm)|].
    assert (Hp : plain o).
    { destruct Href as [Hin|(l & g & Hl & Hin)]; [apply HGo; exact Hin|].
      destruct (HG l g Hl) as [->|(_ & _ & Hops)]; [destruct Hin|apply Hops; exact Hin]. }
    destruct (HG o go Hgo) as [->|(_ & (g & Hg & Et & _) & _)]; [reflexivity|].
    destruct (is_iff_like (gtyp go)) eqn:E; [|reflexivity]. exfalso. apply (proj2 Hp). exists g. split; [exact Hg|congruence].
  Qed.
End NoNot.

(* the arity hypothesis in the form of WF.arity_ok *)
Lemma arity_ok_not c : arity_ok c ->
  forall l g, dget (gates c) l = Some g -> gtyp g = NOT -> exists x, gops g = [x].
Proof.
  intros Ha l g Hg Ht. assert (Hne : gtyp g <> INPUT) by (rewrite Ht; discriminate).
  pose proof (Ha l g Hg Hne) as H. rewrite Ht in H. simpl in H.
  destruct (gops g) as [|x [|y r]]; simpl in H; try discriminate. eauto.
Qed.

Theorem mu_effect_not c c' : WF c -> arity_ok c -> unary_all_not c ->
  apply_transformers c [TMU] = Ok c' ->
  forall l g o go, dget (gates c') l = Some g -> gtyp g = NOT -> In o (gops g) ->
                   dget (gates c') o = Some go -> gtyp go <> NOT.
Proof. intros W Ha Hu. apply (mu_no_double_not c W Hu (arity_ok_not c Ha)). Qed.

Theorem mu_effect_iff c c' : WF c -> no_not_like c ->
  apply_transformers c [TMU] = Ok c' ->
  forall o go, (In o (outputs c') \/ exists l g, dget (gates c') l = Some g /\ In o (gops g)) ->
               dget (gates c') o = Some go -> is_iff_like (gtyp go) = false.
Proof. intros W Hn. apply (mu_no_iff_reference c W Hn). Qed.
