(* C02: rename_gate preserves well-formedness.  Part 2: the invariant. *)
Require Import Cirbo.Model.Base Cirbo.Model.Gate Cirbo.Model.Circuit Cirbo.Model.WF.
Require Import Cirbo.Proofs.DictFacts Cirbo.Proofs.WFBase Cirbo.Proofs.WFSimple Cirbo.Proofs.WFEmplace
        Cirbo.Proofs.WFRename.

Lemma no_self_loop c l g : WF c -> dget (gates c) l = Some g -> ~ In l (gops g).
Proof.
  intros W Hg Hin. destruct (wf_acyclic c W) as [r Hr]. specialize (Hr l g l Hg Hin). lia.
Qed.

Lemma rename_gate_wf c old new c' : WF c -> rename_gate c old new = Ok c' -> WF c'.
Proof.
  intros W H. apply rename_gate_inv in H.
  destruct H as (Ho & Hn & gs3 & ud3 & og & us' & H3 & Hog & Hus & E).
  assert (Hon : old <> new) by (intros ->; congruence).
  assert (Hon1 : leqb old new = false) by (apply leqb_neq; assumption).
  assert (Hon2 : leqb new old = false) by (apply leqb_neq; auto).
  destruct (has_gate_get _ _ Ho) as [og0 Hog0].
  pose proof (no_self_loop _ _ _ W Hog0) as Hself.
  pose proof (has_gate_false_get _ _ Hn) as Hnew.
  (* the gate map after the users loop *)
  assert (G3 : dkeys gs3 = dkeys (gates c) /\
               forall x, dget gs3 x = option_map (rn old new) (dget (gates c) x)).
  { assert (Hid : forall x us, us = users_of c old -> memb x us = false ->
                  option_map (rn old new) (dget (gates c) x) = dget (gates c) x).
    { intros x us -> Hm. destruct (dget (gates c) x) as [gx|] eqn:Ex; [|reflexivity]. simpl. f_equal.
      apply rn_id. intros Hin. apply memb_nIn in Hm. apply Hm. apply (In_users_ops c old x W).
      rewrite (ops_of_get _ _ _ Ex). exact Hin. }
    destruct (dget (users c) old) as [us|] eqn:Eus.
    - destruct H3 as [H3 _]. apply (Fg_fold old new Hon) in H3. destruct H3 as [Hk Hg]. split; [assumption|].
      intros x; rewrite Hg. destruct (memb x us) eqn:Em; [reflexivity|]. symmetry; apply (Hid x us); [|assumption].
      unfold users_of; rewrite Eus; reflexivity.
    - destruct H3 as [-> _]. split; [reflexivity|]. intros x; symmetry; apply (Hid x []); [|reflexivity].
      unfold users_of; rewrite Eus; reflexivity. }
  destruct G3 as [Gk G3].
  assert (og = og0).
  { rewrite G3, Hog0 in Hog; simpl in Hog. injection Hog as <-. apply rn_id, Hself. }
  subst og.
  (* the users dict before the operands loop *)
  assert (U3 : NoDup (dkeys ud3) /\
               forall x, lst ud3 x = if leqb x old then [] else if leqb x new then users_of c old
                                     else users_of c x).
  { destruct (dget (users c) old) as [us|] eqn:Eus.
    - destruct H3 as [_ ->]. split; [apply NoDup_dkeys_ddel, NoDup_dkeys_dset, (wf_ukeys c W)|].
      intros x; unfold lst. rewrite dget_ddel by apply NoDup_dkeys_dset, (wf_ukeys c W). rewrite dget_dset.
      destruct (leqb x old); [reflexivity|]. destruct (leqb x new); [|reflexivity].
      unfold users_of; rewrite Eus; reflexivity.
    - destruct H3 as [_ ->]. split; [apply (wf_ukeys c W)|]. intros x. rewrite <- users_of_lst.
      destruct (leqb_spec x old) as [->|]; [unfold users_of; rewrite Eus; reflexivity|].
      destruct (leqb_spec x new) as [->|]; [|reflexivity]. rewrite (users_of_nongate c new W Hn).
      unfold users_of; rewrite Eus; reflexivity. }
  destruct U3 as [Uk U3].
  apply Fu_fold in Hus. destruct Hus as [Hk' Hcnt].
  assert (Hget : forall x, dget (gates c') x =
                           if leqb x old then None else if leqb x new then Some og0
                           else option_map (rn old new) (dget (gates c) x)).
  { intros x; rewrite E; simpl.
    rewrite dget_ddel by (apply NoDup_dkeys_dset; rewrite Gk; apply (wf_gkeys c W)).
    rewrite dget_dset, G3. destruct og0; reflexivity. }
  assert (Hhas : forall x, has_gate c' x = negb (leqb x old) && (leqb x new || has_gate c x)).
  { intros x; unfold has_gate, dmem; rewrite Hget. destruct (leqb x old), (leqb x new); simpl; try reflexivity.
    destruct (dget (gates c) x); reflexivity. }
  assert (Hops : forall x, ops_of c' x = if leqb x old then [] else if leqb x new then gops og0
                                          else subst_label old new (ops_of c x)).
  { intros x; unfold ops_of; rewrite Hget. destruct (leqb x old), (leqb x new); try reflexivity.
    destruct (dget (gates c) x); reflexivity. }
  assert (Hus' : forall x u,
    count u (users_of c' x) + (if leqb u old then count x (gops og0) else 0) =
    count u (if leqb x old then [] else if leqb x new then users_of c old else users_of c x) +
    (if leqb u new then count x (gops og0) else 0)).
  { intros x u. rewrite <- U3. rewrite E; unfold users_of; simpl. apply Hcnt. }
  assert (Hren : forall o, has_gate c o = true -> has_gate c' (if leqb o old then new else o) = true).
  { intros o Hoo. rewrite Hhas. destruct (leqb_spec o old) as [->|Hne].
    - rewrite Hon2, leqb_refl; reflexivity.
    - apply leqb_neq in Hne; rewrite Hne, Hoo. simpl; apply orb_true_r. }
  assert (Hsl : forall L, (forall o, In o L -> has_gate c o = true) ->
                          forall o, In o (subst_label old new L) -> has_gate c' o = true).
  { intros L HL o Hin. unfold subst_label in Hin. apply in_map_iff in Hin. destruct Hin as [y [<- Hy]].
    apply Hren, HL, Hy. }
  constructor.
  - (* gate keys *)
    rewrite E; simpl. apply NoDup_dkeys_ddel, NoDup_dkeys_dset. rewrite Gk; apply (wf_gkeys c W).
  - rewrite E; simpl. rewrite Hk'; assumption.
  - rewrite E; simpl. rewrite (dkeys_map_val (fun kb => rename_in_block old new (snd kb))). apply (wf_bkeys c W).
  - (* operands exist *)
    intros x g o Hg Hin. rewrite Hget in Hg.
    destruct (leqb_spec x old) as [->|Hxo]; [discriminate|].
    destruct (leqb_spec x new) as [->|Hxn].
    + injection Hg as <-. pose proof (wf_ops c W old og0 o Hog0 Hin) as Hoo.
      apply Hren in Hoo. destruct (leqb_spec o old) as [->|]; [contradiction|assumption].
    + destruct (dget (gates c) x) as [gx|] eqn:Ex; [|discriminate]. injection Hg as <-. simpl in Hin.
      eapply Hsl; [|eassumption]. intros o' Ho'. eapply (wf_ops c W); eassumption.
  - (* outputs exist *)
    intros o Hin. rewrite E in Hin; simpl in Hin. destruct (memb old (outputs c)) eqn:Em.
    + eapply Hsl; [|eassumption]. apply (wf_outs c W).
    + rewrite Hhas. apply memb_nIn in Em. rewrite (wf_outs c W o Hin).
      destruct (leqb_spec o old) as [->|]; [contradiction|]. simpl; apply orb_true_r.
  - (* users index *)
    intros x u. specialize (Hus' x u). rewrite Hops.
    assert (Knew : count new (gops og0) = 0).
    { apply count_zero_nIn; intros Hin. apply (wf_ops c W old og0 new Hog0) in Hin; congruence. }
    assert (Kold : count old (gops og0) = 0) by (apply count_zero_nIn, Hself).
    revert Hus'.
    destruct (leqb_spec x old) as [Exo|Exo]; [subst x|].
    + rewrite Kold.
      destruct (leqb_spec u old) as [Euo|Euo], (leqb_spec u new) as [Eun|Eun]; simpl; intros Hus';
        rewrite ?(count_subst_label old new Hon), ?leqb_refl; lia.
    + destruct (leqb_spec x new) as [Exn|Exn]; [subst x|].
      * rewrite Knew, (wf_users c W). destruct (leqb_spec u old) as [Euo|Euo]; [subst u|].
        -- rewrite (ops_of_get _ _ _ Hog0), Kold, Hon1. simpl; intros; lia.
        -- destruct (leqb_spec u new) as [Eun|Eun]; [subst u|].
           ++ rewrite (ops_of_none _ _ Hnew); simpl; intros; lia.
           ++ rewrite (count_subst_label old new Hon), Hon2, leqb_refl, (count_ops_nongate c new u W Hn).
              intros; lia.
      * destruct (leqb_spec u old) as [Euo|Euo]; [subst u|].
        -- rewrite Hon1, (wf_users c W), (ops_of_get _ _ _ Hog0). simpl; intros; lia.
        -- destruct (leqb_spec u new) as [Eun|Eun]; [subst u|].
           ++ rewrite (users_of_nonuser c x new W Hn). intros; lia.
           ++ rewrite (count_subst_label old new Hon). apply leqb_neq in Exo, Exn.
              rewrite Exo, Exn, <- (wf_users c W). intros; lia.
  - (* inputs duplicate free *)
    rewrite E; simpl. destruct (memb old (inputs c)) eqn:Em; [|apply (wf_inputs_nodup c W)].
    apply memb_In in Em. apply NoDup_count; intros x.
    pose proof (count_subst_first old new x (inputs c) Em) as Hc.
    pose proof (proj1 (NoDup_count _) (wf_inputs_nodup c W) x) as Hx.
    assert (count new (inputs c) = 0) as Hni.
    { apply count_zero_nIn; intros Hin. apply (wf_inputs c W) in Hin. destruct Hin as [g [Hg _]]. congruence. }
    destruct (leqb_spec x new) as [?Heq|?Hne]; [subst x|]; [rewrite Hon2 in Hc; lia|]. destruct (leqb x old); lia.
  - (* inputs are the INPUT gates *)
    intros x. rewrite Hget.
    assert (Hin' : In x (inputs c') <->
                   (x <> old /\ (In x (inputs c) \/ (x = new /\ In old (inputs c))))).
    { rewrite E; simpl. destruct (memb old (inputs c)) eqn:Em.
      - apply memb_In in Em. rewrite <- !count_pos_In.
        pose proof (count_subst_first old new x (inputs c) Em) as Hc.
        pose proof (proj1 (NoDup_count _) (wf_inputs_nodup c W) x) as Hx.
        destruct (leqb_spec x old) as [?Heq|Hxo]; [subst x|].
        + rewrite Hon1 in Hc. split; [lia|]. intros [Hne _]; congruence.
        + destruct (leqb_spec x new) as [?Heq|Hxn]; [subst x|].
          * split; [intros _; split; [assumption|right; split; [reflexivity|apply count_pos_In, Em]]|lia].
          * split; [intros Hp; split; [assumption|left; lia]|]. intros [_ [Hp|[Hp _]]]; [lia|congruence].
      - apply memb_nIn in Em. split.
        + intros Hin; split; [intros ->; contradiction|left; assumption].
        + intros [_ [Hin|[_ Hin]]]; [assumption|contradiction]. }
    rewrite Hin'. rewrite !(wf_inputs c W).
    destruct (leqb_spec x old) as [?Heq|Hxo]; [subst x|].
    + split; [intros [Hne _]; congruence|intros [g [Hg _]]; discriminate].
    + destruct (leqb_spec x new) as [?Heq|Hxn]; [subst x|].
      * split.
        -- intros [_ [[g [Hg _]]|[_ [g [Hg Ht]]]]]; [congruence|]. exists og0; split; [reflexivity|congruence].
        -- intros [g [[= <-] Ht]]. split; [assumption|]. right; split; [reflexivity|eauto].
      * split.
        -- intros [_ [[g [Hg Ht]]|[Hne _]]]; [|congruence]. rewrite Hg; simpl. eexists; split; [reflexivity|assumption].
        -- intros [g [Hg Ht]]. split; [assumption|left].
           destruct (dget (gates c) x) as [gx|]; [|discriminate]. injection Hg as <-. simpl in Ht. eauto.
  - (* acyclic *)
    destruct (wf_acyclic c W) as [rank Hr].
    exists (fun x => if leqb x new then rank old else rank x).
    intros x g o Hg Hin. rewrite Hget in Hg.
    destruct (leqb_spec x old) as [?Heq|Hxo]; [subst x|]; [discriminate|].
    destruct (leqb_spec x new) as [?Heq|Hxn]; [subst x|].
    + injection Hg as <-. destruct (leqb_spec o new) as [?Heq|?Hne]; [subst o|].
      * apply (wf_ops c W old og0 new Hog0) in Hin; congruence.
      * eapply Hr; eassumption.
    + destruct (dget (gates c) x) as [gx|] eqn:Ex; [|discriminate]. injection Hg as <-. simpl in Hin.
      apply (In_subst_label old new Hon) in Hin. destruct Hin as [[-> Hin]|[Hne Hin]].
      * rewrite leqb_refl. eapply Hr; eassumption.
      * destruct (leqb_spec o new) as [?Heq|?Hne]; [subst o|]; [|eapply Hr; eassumption].
        apply (wf_ops c W x gx new Ex) in Hin; congruence.
  - (* blocks *)
    intros b blk x Hb Hin. rewrite E in Hb; simpl in Hb.
    rewrite (dget_map_val (fun kb => rename_in_block old new (snd kb))) in Hb.
    destruct (dget (blocks c) b) as [blk0|] eqn:Eb; [|discriminate]. injection Hb as <-. simpl in Hin.
    assert (forall y, In y (bgates blk0 ++ binputs blk0 ++ boutputs blk0) -> has_gate c y = true) as Hall.
    { intros y Hy; eapply (wf_blocks c W); eassumption. }
    rewrite !in_app_iff in Hin. destruct Hin as [Hin|[Hin|Hin]]; (eapply Hsl; [|eassumption]);
      intros y Hy; apply Hall; rewrite !in_app_iff; auto.
Qed.

Lemma rename_gate_nullary c old new c' :
  WF c -> inputs_nullary c -> rename_gate c old new = Ok c' -> inputs_nullary c'.
Proof.
  intros W N H. pose proof H as H'. apply rename_gate_inv in H.
  destruct H as (Ho & Hn & gs3 & ud3 & og & us' & H3 & Hog & Hus & E).
  assert (Hon : old <> new) by (intros ->; congruence).
  assert (G3 : forall x g, dget gs3 x = Some g -> exists g0, dget (gates c) x = Some g0 /\
                 gtyp g = gtyp g0 /\ (gops g0 = [] -> gops g = [])).
  { destruct (dget (users c) old) as [us|] eqn:Eus.
    - destruct H3 as [H3 _]. apply (Fg_fold old new Hon) in H3. destruct H3 as [_ Hg].
      intros x g Hx. rewrite Hg in Hx. destruct (dget (gates c) x) as [g0|]; [|destruct (memb x us); discriminate].
      exists g0; split; [reflexivity|]. destruct (memb x us); injection Hx as <-; simpl; auto.
      split; [reflexivity|]. intros ->; reflexivity.
    - destruct H3 as [-> _]. intros x g Hx; exists g; auto. }
  intros x g Hg Ht. rewrite E in Hg; simpl in Hg.
  assert (Nd : NoDup (dkeys (dset gs3 new (mkGate (gtyp og) (gops og))))).
  { apply NoDup_dkeys_dset. destruct (dget (users c) old) as [us|] eqn:Eus.
    - destruct H3 as [H3 _]. apply (Fg_fold old new Hon) in H3. destruct H3 as [-> _]. apply (wf_gkeys c W).
    - destruct H3 as [-> _]. apply (wf_gkeys c W). }
  rewrite dget_ddel in Hg by assumption. destruct (leqb x old); [discriminate|].
  rewrite dget_dset in Hg. destruct (leqb x new).
  - injection Hg as <-; simpl in *. destruct (G3 _ _ Hog) as (g0 & Hg0 & Ht0 & Hops).
    apply Hops. eapply N; [eassumption|congruence].
  - destruct (G3 _ _ Hg) as (g0 & Hg0 & Ht0 & Hops). apply Hops. eapply N; [eassumption|congruence].
Qed.
