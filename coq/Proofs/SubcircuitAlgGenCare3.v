(* T21, _eval_dont_cares (part 3): the rows, the second loop, and the equality with PatternSim.reachable_vectors. *)
Require Import Cirbo.Model.Base Cirbo.Model.Gate Cirbo.Model.Circuit Cirbo.Model.Traverse Cirbo.Model.Eval
        Cirbo.Model.PatternSim.
Require Import Cirbo.Model.SubcircuitPrims Cirbo.Model.SubcircuitAlg Cirbo.Model.SubcircuitGlue.
Require Import Cirbo.Generated.GateTypes Cirbo.Generated.PatternOps Cirbo.Generated.SubcircuitAlgGen.
Require Import Cirbo.Proofs.DictFacts Cirbo.Proofs.SubcircuitPrimsFacts Cirbo.Proofs.SubcircuitAlgGenCare1
        Cirbo.Proofs.SubcircuitAlgGenCare2.

Definition isbool (o : option st) : bool := match o with Some T | Some F => true | _ => false end.
Definition bval (o : option st) : bool := match o with Some T => true | _ => false end.
Definition bitN (d : dict st) (l : label) : N := if bval (dget d l) then 1%N else 0%N.

Lemma cell_isbool d l : cell d l = if isbool (dget d l) then [bitN d l] else [].
Proof. unfold cell, bitN. destruct (dget d l) as [[| |]|]; reflexivity. Qed.

Lemma st_bool_isbool o : st_bool o = if isbool o then Ok (bval o) else Err PyIndexError.
Proof. destruct o as [[| |]|]; reflexivity. Qed.

Lemma str_bitN d l : py_str_of_N (bitN d l) = bit_str (bval (dget d l)).
Proof. unfold bitN. destruct (bval (dget d l)); reflexivity. Qed.

(* ---- all rows ---- *)
Lemma keys_asg_of ins v : length v = length ins -> dkeys (asg_of ins v) = ins.
Proof.
  unfold asg_of, dkeys. revert v; induction ins as [|i ins IH]; intros [|b v] H; simpl in *; try discriminate; [reflexivity|].
  f_equal. apply IH. lia.
Qed.

Lemma rows_loop c ins : NoDup ins -> forall vs tb, Forall (fun v => length v = length ins) vs ->
  match mapM (fun v => evaluate_full_circuit c (asg_of ins v)) vs with
  | Ok ds => exists tb', foldM (row_step c) (map (asg_of ins) vs) tb = Ok tb' /\
                         forall l, col tb' l = col tb l ++ concat (map (fun d => cell d l) ds)
  | Err e => foldM (row_step c) (map (asg_of ins) vs) tb = Err e
  end.
Proof.
  intros Hnd. induction vs as [|v vs IH]; intros tb Hl.
  - exists tb. split; [reflexivity|]. intros l. simpl. rewrite app_nil_r. reflexivity.
  - inversion Hl as [|? ? Hv Hvs]; subst. cbn [mapM map foldM]. unfold row_step at 1 3.
    destruct (evaluate_full_circuit c (asg_of ins v)) as [d|e] eqn:Ed; cbn [bind]; [|reflexivity].
    assert (Hd : NoDup (dkeys d)).
    { apply (evaluate_full_nodup c _ _ (eq_ind_r (@NoDup label) Hnd (keys_asg_of ins v Hv)) Ed). }
    destruct (items_loop d tb Hd) as (tb1 & E1 & Hc1). rewrite E1. cbn [bind].
    specialize (IH tb1 Hvs).
    destruct (mapM (fun v0 => evaluate_full_circuit c (asg_of ins v0)) vs) as [ds|e]; cbn [bind].
    + destruct IH as (tb' & E & Hc). exists tb'. split; [exact E|]. intros l. rewrite Hc, Hc1. cbn [map concat].
      rewrite <- app_assoc. reflexivity.
    + exact IH.
Qed.

(* ---- a fold that has to fail ---- *)
Lemma foldM_must_fail {A S} (f : S -> A -> res S) (E : err) x0 : forall l s,
  (forall s x r, f s x = Err r -> r = E) -> In x0 l -> (forall s, f s x0 = Err E) -> foldM f l s = Err E.
Proof.
  induction l as [|x l IH]; intros s Honly Hin Hx0; [destruct Hin|]. cbn [foldM].
  destruct (f s x) as [s'|r] eqn:Ef; cbn [bind].
  - destruct Hin as [->|Hin]; [rewrite Hx0 in Ef; discriminate|]. apply IH; assumption.
  - f_equal. eapply Honly. exact Ef.
Qed.

Lemma mapM_must_fail {A B} (f : A -> res B) (E : err) x0 : forall l,
  (forall x r, f x = Err r -> r = E) -> In x0 l -> f x0 = Err E -> mapM f l = Err E.
Proof.
  induction l as [|x l IH]; intros Honly Hin Hx0; [destruct Hin|]. cbn [mapM].
  destruct (f x) as [y|r] eqn:Ef; cbn [bind].
  - destruct Hin as [->|Hin]; [rewrite Hx0 in Ef; discriminate|]. rewrite IH by assumption. reflexivity.
  - f_equal. eapply Honly. exact Ef.
Qed.

Lemma for6_only tb i acc l r : gen_eval_dont_cares_for6 tb i acc l = Err r -> r = PyIndexError.
Proof.
  unfold gen_eval_dont_cares_for6. cbv beta iota. unfold py_index, nth_res.
  destruct (nth_error (py_ddict_get tb l []) (N.to_nat i)); cbn [bind]; intros H; inversion H; reflexivity.
Qed.

Lemma fold6_only tb i : forall ls acc r, foldM (gen_eval_dont_cares_for6 tb i) ls acc = Err r -> r = PyIndexError.
Proof.
  induction ls as [|l ls IH]; intros acc r Ef; [discriminate|]. cbn [foldM] in Ef.
  destruct (gen_eval_dont_cares_for6 tb i acc l) as [acc'|e] eqn:E6; cbn [bind] in Ef.
  - apply (IH _ _ Ef).
  - inversion Ef; subst. apply (for6_only _ _ _ _ _ E6).
Qed.

(* ---- the second loop for one subcircuit ---- *)
Section Second.
Variables (tb : dict (list N)) (ds : list (dict st)) (L : list label).
Hypothesis Hcol : forall l, col tb l = concat (map (fun d => cell d l) ds).

Definition good : bool := forallb (fun d => forallb (fun l => isbool (dget d l)) L) ds.
Definition vec_of (d : dict st) : list bool := map (fun l => bval (dget d l)) L.

Lemma col_len_le l : length (col tb l) <= length ds.
Proof.
  rewrite Hcol. clear. induction ds as [|d r IH]; simpl; [lia|]. rewrite app_length, cell_isbool.
  destruct (isbool (dget d l)); simpl; lia.
Qed.

Lemma col_good l : good = true -> In l L -> col tb l = map (fun d => bitN d l) ds.
Proof.
  unfold good. rewrite Hcol. clear Hcol. intros H Hl. induction ds as [|d r IH]; [reflexivity|].
  cbn [forallb] in H. apply andb_true_iff in H. destruct H as [H1 H2]. cbn [map concat].
  rewrite IH by exact H2. rewrite cell_isbool.
  rewrite forallb_forall in H1. rewrite (H1 l Hl). reflexivity.
Qed.

Lemma col_bad : good = false -> exists l, In l L /\ length (col tb l) < length ds.
Proof.
  unfold good. intros H.
  assert (Hex : exists d l, In d ds /\ In l L /\ isbool (dget d l) = false).
  { clear Hcol. induction ds as [|d r IH]; [discriminate|]. cbn [forallb] in H. apply andb_false_iff in H.
    destruct H as [H|H].
    - assert (Hl : exists l, In l L /\ isbool (dget d l) = false).
      { clear -H. induction L as [|l L' IHL]; [discriminate|]. cbn [forallb] in H. apply andb_false_iff in H.
        destruct H as [H|H]; [exists l; split; [left; reflexivity|exact H]|].
        destruct (IHL H) as (l' & H1 & H2). exists l'. split; [right; exact H1|exact H2]. }
      destruct Hl as (l & H1 & H2). exists d, l. split; [left; reflexivity|split; assumption].
    - destruct (IH H) as (d' & l & H1 & H2 & H3). exists d', l. split; [right; exact H1|split; assumption]. }
  destruct Hex as (d0 & l & Hd & Hl & Hb). exists l. split; [exact Hl|].
  rewrite Hcol. clear Hcol H. induction ds as [|d r IH]; [destruct Hd|]. cbn [map concat length]. rewrite app_length.
  destruct Hd as [->|Hd].
  - rewrite cell_isbool, Hb. cbn [length].
    assert (length (concat (map (fun d => cell d l) r)) <= length r).
    { clear. induction r as [|d r IH]; simpl; [lia|]. rewrite app_length, cell_isbool. destruct (isbool (dget d l)); simpl; lia. }
    lia.
  - specialize (IH Hd). rewrite cell_isbool. destruct (isbool (dget d l)); simpl; lia.
Qed.

(* one row of the second loop, all leaves Boolean *)
Lemma leaf_loop_good i d : good = true -> nth_error ds i = Some d -> forall ls acc, (forall l, In l ls -> In l L) ->
  foldM (gen_eval_dont_cares_for6 tb (N.of_nat i)) ls acc =
  Ok (acc ++ map (fun l => bit_str (bval (dget d l))) ls).
Proof.
  intros Hg Hd. induction ls as [|l ls IH]; intros acc Hin; [rewrite app_nil_r; reflexivity|].
  cbn [foldM]. unfold gen_eval_dont_cares_for6 at 1. cbv beta iota.
  change (py_ddict_get tb l []) with (col tb l). rewrite col_good by (try exact Hg; apply Hin; left; reflexivity).
  rewrite py_index_nth_error, nth_error_map, Hd. cbn [option_map bind].
  rewrite IH by (intros l' Hl'; apply Hin; right; exact Hl'). rewrite str_bitN, <- app_assoc. reflexivity.
Qed.

Lemma rows2_good sub : Subcircuit_inputs sub = L -> good = true -> forall suf pre S0, ds = pre ++ suf ->
  foldM (gen_eval_dont_cares_for5 tb sub) (map N.of_nat (seq (length pre) (length suf))) S0 =
  Ok (fold_left (fun S d => py_set_add S (str_of_bits (vec_of d))) suf S0).
Proof.
  intros HL Hg. induction suf as [|d suf IH]; intros pre S0 E; [reflexivity|].
  cbn [length seq map foldM fold_left]. unfold gen_eval_dont_cares_for5 at 1. cbv beta iota. rewrite HL.
  assert (Ed : nth_error ds (length pre) = Some d).
  { rewrite E, nth_error_app2 by lia. rewrite Nat.sub_diag. reflexivity. }
  rewrite (leaf_loop_good _ d Hg Ed L [] (fun l H => H)). cbn [bind app].
  specialize (IH (pre ++ [d]) (py_set_add S0 (str_of_bits (vec_of d)))).
  rewrite app_length in IH. cbn [length] in IH. rewrite Nat.add_1_r in IH.
  assert (Es : py_join "" (map (fun l => bit_str (bval (dget d l))) L) = str_of_bits (vec_of d))
    by (unfold str_of_bits, vec_of, py_join; rewrite map_map; reflexivity).
  rewrite Es. apply IH. rewrite <- app_assoc. exact E.
Qed.

(* some leaf is not Boolean in some row: IndexError *)
Lemma rows2_bad sub S0 : Subcircuit_inputs sub = L -> good = false -> ds <> [] ->
  foldM (gen_eval_dont_cares_for5 tb sub) (map N.of_nat (seq 0 (length ds))) S0 = Err PyIndexError.
Proof.
  intros HL Hb Hne. destruct (col_bad Hb) as (l0 & Hl0 & Hlen).
  apply (foldM_must_fail _ PyIndexError (N.of_nat (length ds - 1))).
  - intros S i r. unfold gen_eval_dont_cares_for5. cbv beta iota.
    destruct (foldM (gen_eval_dont_cares_for6 tb i) (Subcircuit_inputs sub) []) as [cur|e] eqn:Ef; cbn [bind]; [discriminate|].
    intros H; inversion H; subst. apply (fold6_only _ _ _ _ _ Ef).
  - apply in_map. apply in_seq. destruct ds; [contradiction|]. simpl. lia.
  - intros S. unfold gen_eval_dont_cares_for5. cbv beta iota. rewrite HL.
    rewrite (foldM_must_fail _ PyIndexError l0); [reflexivity| |exact Hl0|].
    + intros acc l r. apply for6_only.
    + intros acc. unfold gen_eval_dont_cares_for6. cbv beta iota. change (py_ddict_get tb l0 []) with (col tb l0).
      rewrite py_index_nth_error.
      replace (nth_error (col tb l0) (length ds - 1)) with (@None N) by (symmetry; apply nth_error_None; lia).
      reflexivity.
Qed.

(* the hand model on the same rows *)
Lemma hand_rows : mapM (fun d => mapM (fun l => st_bool (dget d l)) L) ds =
  if good then Ok (map vec_of ds) else Err PyIndexError.
Proof.
  unfold good. clear Hcol. induction ds as [|d r IH]; [reflexivity|]. cbn [mapM forallb map].
  destruct (forallb (fun l => isbool (dget d l)) L) eqn:Ed.
  - assert (E1 : mapM (fun l => st_bool (dget d l)) L = Ok (vec_of d)).
    { unfold vec_of. clear -Ed. induction L as [|l L' IHL]; [reflexivity|]. cbn [forallb] in Ed.
      apply andb_true_iff in Ed. destruct Ed as [H1 H2]. cbn [mapM map]. rewrite st_bool_isbool, H1. cbn [bind].
      rewrite IHL by exact H2. reflexivity. }
    rewrite E1. cbn [bind andb]. rewrite IH. destruct (forallb _ r); reflexivity.
  - assert (E1 : mapM (fun l => st_bool (dget d l)) L = Err PyIndexError).
    { clear -Ed. induction L as [|l L' IHL]; [discriminate|]. cbn [forallb] in Ed. cbn [mapM]. rewrite st_bool_isbool.
      destruct (isbool (dget d l)); cbn [bind andb] in *; [rewrite IHL by exact Ed; reflexivity|reflexivity]. }
    rewrite E1. reflexivity.
Qed.
End Second.

(* ---- assembly ---- *)
Lemma mapM_ext_in {A B} (f g : A -> res B) l : (forall x, In x l -> f x = g x) -> mapM f l = mapM g l.
Proof.
  induction l as [|x l IH]; intros H; [reflexivity|]. cbn [mapM]. rewrite (H x (or_introl eq_refl)).
  rewrite IH by (intros y Hy; apply H; right; exact Hy). reflexivity.
Qed.

Lemma mapM_bind_split {A B C} (f : A -> res B) (g : B -> res C) : forall l ys,
  mapM f l = Ok ys -> mapM (fun x => do y <- f x; g y) l = mapM g ys.
Proof.
  induction l as [|x l IH]; intros ys H; cbn [mapM] in *; [inversion H; reflexivity|].
  destruct (f x) as [y|e]; cbn [bind] in *; [|discriminate].
  destruct (mapM f l) as [ys'|e]; cbn [bind] in *; [|discriminate]. inversion H; subst. cbn [mapM].
  rewrite (IH ys' eq_refl). reflexivity.
Qed.

Lemma mapM_length {A B} (f : A -> res B) : forall l ys, mapM f l = Ok ys -> length ys = length l.
Proof.
  induction l as [|x l IH]; intros ys H; cbn [mapM] in H; [inversion H; reflexivity|].
  destruct (f x); cbn [bind] in H; [|discriminate]. destruct (mapM f l) as [ys'|]; cbn [bind] in H; [|discriminate].
  inversion H; subst. simpl. f_equal. apply IH. reflexivity.
Qed.

Lemma abv_lengths n : Forall (fun v => length v = n) (all_bool_vectors n).
Proof.
  induction n as [|n IH]; [repeat constructor|]. cbn [all_bool_vectors]. apply Forall_app. split;
    apply Forall_forall; intros v Hv; apply in_map_iff in Hv; destruct Hv as (w & <- & Hw);
    rewrite Forall_forall in IH; simpl; f_equal; apply IH; exact Hw.
Qed.

Lemma fold_set_add_map {A} (g : A -> string) : forall l S0,
  fold_left (fun S d => py_set_add S (g d)) l S0 = fold_left py_set_add (map g l) S0.
Proof. induction l as [|d l IH]; intros S0; [reflexivity|]. cbn [fold_left map]. apply IH. Qed.

Section Assembly.
Variables (fuel : nat) (c : circuit).
Hypothesis Hnd : NoDup (inputs c).
Hypothesis Hfuel : length (inputs c) < fuel.
Let ins := inputs c.
Let n := length ins.

Definition eval_row (x : list bool) : res (dict st) :=
  do a <- zip_inputs (inputs c) (map inj x) []; evaluate_full_circuit c a.

Lemma eval_rows_asg : mapM eval_row (all_bool_vectors n) =
  mapM (fun v => evaluate_full_circuit c (asg_of ins v)) (all_bool_vectors n).
Proof.
  apply mapM_ext_in. intros x Hx. unfold eval_row.
  pose proof (abv_lengths n) as Hl. rewrite Forall_forall in Hl.
  rewrite zip_inputs_combine; [reflexivity|exact Hnd|rewrite map_length; apply Hl; exact Hx].
Qed.

Lemma reachable_rows L ds : mapM eval_row (all_bool_vectors n) = Ok ds ->
  reachable_vectors c L = mapM (fun d => mapM (fun l => st_bool (dget d l)) L) ds.
Proof.
  intros H. unfold reachable_vectors. change (length (inputs c)) with n.
  rewrite <- (mapM_bind_split eval_row (fun d => mapM (fun l => st_bool (dget d l)) L) _ _ H).
  apply mapM_ext. intros x. unfold eval_row. destruct (zip_inputs (inputs c) (map inj x) []); cbn [bind]; reflexivity.
Qed.

Definition per_sub (sub : gen_Subcircuit) : res gen_Subcircuit :=
  do vs <- reachable_vectors c (Subcircuit_inputs sub);
  Ok (set_Subcircuit_inputs_tt sub (dont_care_strings vs)).

Lemma subs_loop tb ds : mapM eval_row (all_bool_vectors n) = Ok ds ->
  (forall l, col tb l = concat (map (fun d => cell d l) ds)) ->
  forall subs acc, foldM (gen_eval_dont_cares_for4 ins tb) subs acc = do r <- mapM per_sub subs; Ok (acc ++ r).
Proof.
  intros Hds Hcol. assert (Hlen : length ds = 2 ^ n).
  { rewrite (mapM_length _ _ _ Hds). apply abv_len. }
  induction subs as [|sub subs IH]; intros acc; [cbn [foldM mapM bind]; rewrite app_nil_r; reflexivity|].
  cbn [foldM mapM]. unfold gen_eval_dont_cares_for4 at 1, per_sub at 1. cbv beta iota zeta.
  rewrite (reachable_rows _ ds Hds), (hand_rows ds (Subcircuit_inputs sub)).
  unfold nrange, py_len. fold n. rewrite shiftl1_nat, <- Hlen.
  destruct (good ds (Subcircuit_inputs sub)) eqn:Hg.
  - pose proof (rows2_good tb ds (Subcircuit_inputs sub) Hcol sub eq_refl Hg ds [] [] eq_refl) as H2.
    cbn [length] in H2. rewrite H2. cbn [bind]. rewrite IH.
    rewrite fold_set_add_map.
    replace (map (fun d => str_of_bits (vec_of (Subcircuit_inputs sub) d)) ds)
      with (map str_of_bits (map (vec_of (Subcircuit_inputs sub)) ds)) by (rewrite map_map; reflexivity).
    fold (py_set_of_list (map str_of_bits (map (vec_of (Subcircuit_inputs sub)) ds))).
    fold (dont_care_strings (map (vec_of (Subcircuit_inputs sub)) ds)).
    destruct (mapM per_sub subs); cbn [bind]; [rewrite <- app_assoc; reflexivity|reflexivity].
  - rewrite (rows2_bad tb ds (Subcircuit_inputs sub) Hcol sub [] eq_refl Hg); [reflexivity|].
    intros E. rewrite E in Hlen. simpl in Hlen. pose proof (Nat.pow_nonzero 2 n). lia.
Qed.

Theorem gen_eval_dont_cares_eq_sec : forall subs,
  gen_eval_dont_cares fuel c subs =
  do _ <- mapM eval_row (all_bool_vectors (length (inputs c)));
  mapM per_sub subs.
Proof.
  intros subs. unfold gen_eval_dont_cares. cbv beta iota zeta.
  rewrite (first_loop fuel c Hnd Hfuel). fold ins. fold n.
  rewrite eval_rows_asg.
  pose proof (rows_loop c ins Hnd (all_bool_vectors n) [] (abv_lengths n)) as HR.
  pose proof eval_rows_asg as HE.
  destruct (mapM (fun v => evaluate_full_circuit c (asg_of ins v)) (all_bool_vectors n)) as [ds|e].
  - destruct HR as (tb' & E & Hc). rewrite E. cbn [bind].
    rewrite (subs_loop tb' ds HE Hc). cbn [app].
    destruct (mapM per_sub subs); reflexivity.
  - rewrite HR. reflexivity.
Qed.
End Assembly.

Theorem gen_eval_dont_cares_eq : forall fuel c subs,
  NoDup (inputs c) -> length (inputs c) < fuel ->
  gen_eval_dont_cares fuel c subs =
  do _ <- mapM (fun x => do a <- zip_inputs (inputs c) (map inj x) []; evaluate_full_circuit c a)
               (all_bool_vectors (length (inputs c)));
  mapM (fun sub => do vs <- reachable_vectors c (Subcircuit_inputs sub);
                   Ok (set_Subcircuit_inputs_tt sub (dont_care_strings vs))) subs.
Proof. intros fuel c subs Hnd Hf. exact (gen_eval_dont_cares_eq_sec fuel c Hnd Hf subs). Qed.
