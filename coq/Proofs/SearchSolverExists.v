(* The hypotheses "the SAT solver is sound and complete" are satisfiable: a brute-force solver
   over the variables that occur in the clause list (non-vacuity of the C06 corollaries). *)
Require Import Cirbo.Model.Base Cirbo.Model.Gate Cirbo.Model.Den Cirbo.Model.Search.
Require Import Cirbo.Proofs.SearchFacts.
Local Open Scope nat_scope.

Fixpoint sublists {A} (l : list A) : list (list A) :=
  match l with
  | [] => [[]]
  | x :: xs => map (cons x) (sublists xs) ++ sublists xs
  end.

Lemma filter_in_sublists {A} (p : A -> bool) (l : list A) : In (filter p l) (sublists l).
Proof.
  induction l as [|x xs IH]; simpl; [auto|].
  apply in_app_iff. destruct (p x); [left; apply in_map, IH|right; exact IH].
Qed.

Definition vars_of (f : list clause) : list var := flat_map (map snd) f.

Definition brute_solve (f : list clause) : option asg :=
  find (fun s => satb s f) (map asg_of (sublists (vars_of f))).

Lemma asg_of_filter (s : asg) (vs : list var) v : In v vs -> asg_of (filter s vs) v = s v.
Proof.
  intros Hv. unfold asg_of. destruct (s v) eqn:E.
  - apply existsb_exists. exists v. split; [apply filter_In; auto|apply var_eqb_eq; reflexivity].
  - destruct (existsb (var_eqb v) (filter s vs)) eqn:Ex; [|reflexivity].
    apply existsb_exists in Ex. destruct Ex as [u [Hu Eu]]. apply var_eqb_eq in Eu. subst u.
    apply filter_In in Hu. destruct Hu as [_ Hs]. congruence.
Qed.

Lemma Sat_agree (s s' : asg) (f : list clause) :
  (forall v, In v (vars_of f) -> s' v = s v) -> Sat s f -> Sat s' f.
Proof.
  intros Hag Hs c Hc. destruct (Hs c Hc) as [l [Hl Hh]]. exists l. split; [exact Hl|].
  unfold lit_holds in *. rewrite Hag; [exact Hh|].
  unfold vars_of. apply in_flat_map. exists c. split; [exact Hc|apply in_map, Hl].
Qed.

Theorem brute_solve_sound f s : brute_solve f = Some s -> Sat s f.
Proof. unfold brute_solve. intros H. apply find_some in H. apply satb_spec, H. Qed.

Theorem brute_solve_complete f : brute_solve f = None -> forall s, ~ Sat s f.
Proof.
  unfold brute_solve. intros H s Hs.
  pose proof (find_none _ _ H (asg_of (filter s (vars_of f)))) as Hn.
  assert (Hin : In (asg_of (filter s (vars_of f))) (map asg_of (sublists (vars_of f)))).
  { apply in_map, filter_in_sublists. }
  specialize (Hn Hin). simpl in Hn.
  assert (Hs' : Sat (asg_of (filter s (vars_of f))) f).
  { apply (Sat_agree s); [|exact Hs]. intros v Hv. apply asg_of_filter, Hv. }
  apply satb_spec in Hs'. congruence.
Qed.

Theorem sound_complete_solver_exists :
  exists solve : list clause -> option asg,
    (forall f s, solve f = Some s -> Sat s f) /\ (forall f, solve f = None -> forall s, ~ Sat s f).
Proof. exists brute_solve. split; [exact brute_solve_sound|exact brute_solve_complete]. Qed.
