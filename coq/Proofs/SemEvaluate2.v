(* rename_gate and into_bench at the level of the entry points evaluate / get_truth_table:
   whenever the calls on the old and on the new circuit both return, the results are equal.
   (That the second call returns whenever the first does is the completeness half of C01.) *)
Require Import Cirbo.Model.Base Cirbo.Model.Gate Cirbo.Model.Circuit Cirbo.Model.Traverse Cirbo.Model.Connect
        Cirbo.Model.Eval Cirbo.Model.Sem Cirbo.Model.WF.
Require Import Cirbo.Proofs.DictFacts Cirbo.Proofs.WFBase Cirbo.Proofs.WFSimple Cirbo.Proofs.WFEmplace
        Cirbo.Proofs.WFRename2 Cirbo.Proofs.SemFacts Cirbo.Proofs.SemExt Cirbo.Proofs.SemRenameGate
        Cirbo.Proofs.SemBench Cirbo.Proofs.SemBench2 Cirbo.Proofs.SemEvaluate.

Lemma Forall2_Eval_functional c a ls vs vs' :
  Forall2 (Eval c a) ls vs -> Forall2 (Eval c a) ls vs' -> vs = vs'.
Proof.
  intros H H'. eapply Forall2_eq_l; [|exact H'].
  eapply Forall2_impl_In; [exact H|]. intros x y _ Hxy y' Hy'. eapply Eval_functional; eassumption.
Qed.

Theorem rename_gate_evaluate c old new c' vals r r' :
  WF c -> rename_gate c old new = Ok c' ->
  evaluate c vals = Ok r -> evaluate c' vals = Ok r' -> r = r'.
Proof.
  intros W H Hr Hr'. pose proof (rename_gate_wf _ _ _ _ W H) as W'.
  destruct (evaluate_sound c vals r W Hr) as (a & Ha & HF).
  destruct (evaluate_sound c' vals r' W' Hr') as (a' & Ha' & HF').
  rewrite (rename_inputs c c' old new W H) in Ha'.
  destruct (zip_inputs_map (ren old new) (fun l => l <> new) (ren_inj old new)
              (inputs c) vals [] [] a) as (a'' & Ha'' & Hget); [| |exact Ha|].
  - intros i Hi. apply (gate_not_new c c' old new H). apply (wf_inputs c W) in Hi.
    destruct Hi as (g & Hg & _). eapply get_has_gate; eassumption.
  - reflexivity.
  - assert (a'' = a') by congruence; subst a''.
    apply (rename_gate_outputs_sem c c' old new W H a a') in HF'.
    + eapply Forall2_Eval_functional; eassumption.
    + intros l Hl. unfold aval. rewrite Hget; [reflexivity|].
      apply (gate_not_new c c' old new H). apply (wf_inputs c W) in Hl.
      destruct Hl as (g & Hg & _). eapply get_has_gate; eassumption.
Qed.

Theorem rename_gate_truth_table c old new c' t t' :
  WF c -> rename_gate c old new = Ok c' ->
  get_truth_table c = Ok t -> get_truth_table c' = Ok t' -> t = t'.
Proof.
  intros W H. apply truth_table_agree.
  - rewrite (rename_inputs c c' old new W H), map_length; reflexivity.
  - rewrite (rename_outputs c c' old new H), map_length; reflexivity.
  - intros bs r r'. apply (rename_gate_evaluate c old new c' _ r r' W H).
Qed.

Theorem into_bench_evaluate c fresh c' bs r r' :
  WF c -> inputs_nullary c -> arity_ok c -> into_bench c fresh = Ok c' ->
  evaluate c (map inj bs) = Ok r -> evaluate c' (map inj bs) = Ok r' -> r = r'.
Proof.
  intros W N A H Hr Hr'. destruct (into_bench_wf c c' fresh W N A H) as [W' _].
  destruct (into_bench_io c c' fresh W N A H) as [Hi Ho].
  destruct (evaluate_sound c _ r W Hr) as (a & Ha & HF).
  destruct (evaluate_sound c' _ r' W' Hr') as (a' & Ha' & HF').
  rewrite Hi in Ha'. assert (a' = a) by congruence; subst a'.
  apply (into_bench_outputs_sem c c' fresh W N A H a (zip_inputs_total c bs a W Ha)) in HF'.
  eapply Forall2_Eval_functional; eassumption.
Qed.

Theorem into_bench_truth_table c fresh c' t t' :
  WF c -> inputs_nullary c -> arity_ok c -> into_bench c fresh = Ok c' ->
  get_truth_table c = Ok t -> get_truth_table c' = Ok t' -> t = t'.
Proof.
  intros W N A H. destruct (into_bench_io c c' fresh W N A H) as [Hi Ho]. apply truth_table_agree.
  - rewrite Hi; reflexivity.
  - rewrite Ho; reflexivity.
  - intros bs r r'. apply (into_bench_evaluate c fresh c' bs r r' W N A H).
Qed.
