(* C08, termination ("works"), part 1: the partial-product matrix, the shifted adder,
   add_mul_alter and add_mul_dadda return Ok for ALL operand widths >= 1 whenever the operand labels
   name gates of the host and the fresh-label loop succeeds (fresh_total: every injective naming
   function, TotalFacts.injective_fresh_total).

   Dadda: the fuel of reduce_col (the height of the column) and of dadda_main (di + 1) is adequate;
   the only read that could fail is `c[i][0]` of the LAST column (n + m - 1), which holds no partial
   product: it is filled by the carry chain of the final pass (di = 2), which starts in column 1
   (two products, never touched by the passes with di >= 3) and runs through the non-empty columns
   2 .. n + m - 2. *)
Require Import Cirbo.Model.Base Cirbo.Model.Gate Cirbo.Model.Circuit Cirbo.Model.Builder.
Require Import Cirbo.Generated.ArithTables Cirbo.Generated.ArithCells.
Require Import Cirbo.Model.ArithSub Cirbo.Model.ArithSum2 Cirbo.Model.ArithSumN Cirbo.Model.ArithSumW
  Cirbo.Model.ArithMul.
Require Import Cirbo.Proofs.DictFacts Cirbo.Proofs.BuilderFacts Cirbo.Proofs.ArithFacts
  Cirbo.Proofs.TotalFacts Cirbo.Proofs.ArithTotalFacts Cirbo.Proofs.ArithMulFacts Cirbo.Proofs.ArithMulDiag
  Cirbo.Proofs.ArithMulDadda.

Definition mat_exist (c : circuit) (m : list (list label)) : Prop := Forall (all_exist c) m.
Definition nonempty {A} (l : list A) : Prop := (1 <= length l)%nat.

Lemma mat_exist_ext c c' m : ext c c' -> mat_exist c m -> mat_exist c' m.
Proof. intros X H. eapply Forall_impl; [|exact H]. intros r; apply all_exist_ext, X. Qed.

(* ---- facts about the anti-diagonals ------------------------------------------------------------- *)
Lemma heads1_app {A} (a b : list (list A)) : heads1 (a ++ b) = heads1 a ++ heads1 b.
Proof. unfold heads1. apply flat_map_app. Qed.

Lemma heads1_exist c rows : mat_exist c rows -> all_exist c (heads1 rows).
Proof.
  induction 1 as [|r rows Hr _ IH]; [constructor|]. change (r :: rows) with ([r] ++ rows). rewrite heads1_app.
  apply Forall_app. split; [|exact IH]. destruct Hr; simpl; constructor; [assumption|constructor].
Qed.

Lemma tl_exist c rows : mat_exist c rows -> mat_exist c (map (@tl label) rows).
Proof. induction 1 as [|r rows Hr _ IH]; simpl; constructor; [destruct Hr; [constructor|assumption]|exact IH]. Qed.

Lemma diagonals_exist c : forall k act pend, mat_exist c act -> mat_exist c pend -> mat_exist c (diagonals k act pend).
Proof.
  induction k as [|k IH]; intros act pend Ha Hp; cbn [diagonals]; [constructor|].
  assert (mat_exist c (act ++ firstn 1 pend)) as H1.
  { apply Forall_app. split; [exact Ha|]. destruct Hp; simpl; constructor; [assumption|constructor]. }
  constructor; [apply heads1_exist, H1|]. apply IH; [apply tl_exist, H1|].
  destruct Hp; simpl; [constructor|assumption].
Qed.

(* the number of leading non-empty anti-diagonals *)
Definition diag_cnt (n : nat) (act pend : list (list label)) : nat :=
  match pend with [] => length (last act []) | _ => (length pend + n - 1)%nat end.

Lemma last_map_tl {A} (l : list (list A)) : last (map (@tl A) l) [] = tl (last l []).
Proof. induction l as [|x [|y l] IH]; [reflexivity|reflexivity|]. exact IH. Qed.

Lemma last_snoc {A} (l : list A) x d : last (l ++ [x]) d = x.
Proof. induction l as [|y l IH]; [reflexivity|]. simpl. destruct (l ++ [x]) eqn:E; [destruct l; discriminate|exact IH]. Qed.

Lemma heads1_last_nonempty {A} (l : list (list A)) : nonempty (last l []) -> nonempty (heads1 l).
Proof.
  unfold nonempty. induction l as [|x [|y l] IH]; intros H.
  - simpl in H. lia.
  - simpl in *. destruct x; simpl in *; lia.
  - change (x :: y :: l) with ([x] ++ y :: l). rewrite heads1_app, app_length.
    specialize (IH H). lia.
Qed.

Lemma diagonals_nonempty n : (1 <= n)%nat -> forall k act pend,
  Forall (fun r : list label => length r = n) pend ->
  Forall nonempty (firstn (diag_cnt n act pend) (diagonals k act pend)).
Proof.
  intros Hn. induction k as [|k IH]; intros act pend Hp; cbn [diagonals]; [rewrite firstn_nil; constructor|].
  destruct pend as [|p pend'].
  - cbn [firstn app]. rewrite app_nil_r. unfold diag_cnt at 1.
    destruct (length (last act [])) as [|L] eqn:EL; [constructor|]. cbn [firstn]. constructor.
    + apply heads1_last_nonempty. unfold nonempty. lia.
    + cbn [skipn]. specialize (IH (map (@tl label) act) [] Hp). unfold diag_cnt in IH.
      rewrite last_map_tl in IH. replace (length (tl (last act []))) with L in IH; [exact IH|].
      destruct (last act []); simpl in *; lia.
  - pose proof (Forall_inv Hp) as Lp. pose proof (Forall_inv_tail Hp) as Hp'. cbv beta in Lp.
    cbn [firstn skipn]. unfold diag_cnt at 1.
    replace (length (p :: pend') + n - 1)%nat with (S (length pend' + n - 1)) by (simpl; lia).
    cbn [firstn]. constructor.
    + apply heads1_last_nonempty. rewrite last_snoc. unfold nonempty. lia.
    + specialize (IH (map (@tl label) (act ++ [p])) pend' Hp'). unfold diag_cnt in IH.
      destruct pend' as [|q pend''].
      * rewrite last_map_tl, last_snoc in IH. replace (length (tl p)) with (0 + n - 1)%nat in IH; [exact IH|].
        destruct p; simpl in *; lia.
      * exact IH.
Qed.

Lemma Forall_firstn_all {A} (P : A -> Prop) k (l : list A) : (length l <= k)%nat -> Forall P (firstn k l) -> Forall P l.
Proof. intros H. rewrite firstn_all2 by exact H. auto. Qed.

Section MulTotal.
  Variable fresh : N -> label.
  Hypothesis Hf : fresh_total fresh.

  Ltac tt_step g s' E Hg :=
    match goal with
    | |- context [run fresh (Bind (gate_tt ?t ?x ?y) ?k) ?s] =>
      let Hx := fresh "Hx" in let Hy := fresh "Hy" in
      assert (has_gate (bc s) x = true) as Hx by has_solve;
      assert (has_gate (bc s) y = true) as Hy by has_solve;
      destruct (gate_tt_ok fresh t x y s Hf Hx Hy) as (g & s' & E & Hg);
      rewrite (bind_ok _ _ _ _ _ _ E); clear Hx Hy
    end.
  Ltac finish := cbn [run]; eexists _, _; split; [reflexivity|].

  (* ---- cells ---- *)
  Lemma add_sum2_ok x y s :
    has_gate (bc s) x = true -> has_gate (bc s) y = true ->
    exists r s', run fresh (add_sum2 [x; y]) s = Ok (r, s') /\
                 exists a b, r = [a; b] /\ has_gate (bc s') a = true /\ has_gate (bc s') b = true.
  Proof.
    intros H1 H2. cbv beta iota delta [add_sum2]. tt_step g1 s1 E1 G1. tt_step g2 s2 E2 G2. finish.
    exists g1, g2. repeat split; has_solve.
  Qed.

  Lemma add_sum3_ok x y z s :
    has_gate (bc s) x = true -> has_gate (bc s) y = true -> has_gate (bc s) z = true ->
    exists r s', run fresh (add_sum3 [x; y; z]) s = Ok (r, s') /\
                 exists a b, r = [a; b] /\ has_gate (bc s') a = true /\ has_gate (bc s') b = true.
  Proof.
    intros H1 H2 H3. cbv beta iota delta [add_sum3].
    tt_step g1 s1 E1 G1. tt_step g2 s2 E2 G2. tt_step g3 s3 E3 G3. tt_step g4 s4 E4 G4. tt_step g5 s5 E5 G5. finish.
    exists g4, g5. repeat split; has_solve.
  Qed.

  (* ---- the partial products ---- *)
  Lemma pp_row_ok bi a s :
    all_exist (bc s) a -> has_gate (bc s) bi = true ->
    exists row s', run fresh (pp_row a bi) s = Ok (row, s') /\ all_exist (bc s') row.
  Proof. intros Ha Hb. unfold pp_row. apply mask_ok; assumption. Qed.

  Lemma pp_matrix_ok a : forall b s, all_exist (bc s) a -> all_exist (bc s) b ->
    exists c s', run fresh (pp_matrix a b) s = Ok (c, s') /\ mat_exist (bc s') c.
  Proof.
    unfold pp_matrix. induction b as [|bi b IH]; intros s Ha Hb; cbn [mapP].
    - finish. constructor.
    - pose proof (Forall_inv Hb) as Hbi. pose proof (Forall_inv_tail Hb) as Hb'. cbv beta in Hbi.
      destruct (pp_row_ok bi a s Ha Hbi) as (row & s1 & E1 & Hrow).
      rewrite (bind_ok _ _ _ _ _ _ E1). pose proof (run_ext _ _ _ _ _ E1) as X1.
      destruct (IH s1) as (rest & s2 & E2 & Hrest); [eapply all_exist_ext; eassumption..|].
      rewrite (bind_ok _ _ _ _ _ _ E2). finish. pose proof (run_ext _ _ _ _ _ E2) as X2.
      constructor; [eapply all_exist_ext; eassumption|exact Hrest].
  Qed.

  (* ---- add_sum_two_numbers_with_shift ---- *)
  Lemma with_shift_ok sh a b be s :
    a <> [] -> (b <> [] \/ (length a <= sh)%nat) -> all_exist (bc s) a -> all_exist (bc s) b ->
    exists r s', run fresh (add_sum_two_numbers_with_shift sh a b be) s = Ok (r, s') /\ all_exist (bc s') r.
  Proof.
    intros Ha Hb Aa Ab. unfold add_sum_two_numbers_with_shift. rewrite rev_if_length.
    destruct (length a <=? sh)%nat eqn:E.
    - assert (exists zs s1, run fresh (if (sh =? length a)%nat then Ret []
                 else bdo a0 <- nthP (rev_if be a) 0; bdo zero <- gate_tt tt_false a0 a0;
                      Ret (repeat zero (sh - length a))) s = Ok (zs, s1) /\ all_exist (bc s1) zs)
        as (zs & s1 & E1 & Hzs).
      { destruct (sh =? length a)%nat; [exists [], s; split; [reflexivity|constructor]|].
        destruct (rev_if be a) as [|a0 a'] eqn:Ea; [exfalso; revert Ea; apply rev_if_nonempty, Ha|].
        assert (has_gate (bc s) a0 = true) as H0.
        { pose proof (all_exist_rev_if _ be _ Aa) as Ar. rewrite Ea in Ar. inversion Ar; assumption. }
        unfold nthP, nth_res. cbn [nth_error ret_res]. rewrite run_ret_bind.
        tt_step z s1 E1 G1. finish. apply all_exist_repeat, G1. }
      rewrite (bind_ok _ _ _ _ _ _ E1). finish. pose proof (run_ext _ _ _ _ _ E1) as X1.
      apply all_exist_rev_if, all_exist_app; [|apply all_exist_app; [exact Hzs|]];
        apply all_exist_rev_if; eapply all_exist_ext; eassumption.
    - apply Nat.leb_gt in E. destruct Hb as [Hb|Hb]; [|lia].
      destruct (add_sum_two_numbers_ok fresh Hf (skipn sh (rev_if be a)) (rev_if be b) false s)
        as (rs & s1 & E1 & Hrs & _).
      { intros E0. apply (f_equal (@length label)) in E0. rewrite skipn_length, rev_if_length in E0. simpl in E0. lia. }
      { apply rev_if_nonempty, Hb. }
      { apply all_exist_skipn, all_exist_rev_if, Aa. } { apply all_exist_rev_if, Ab. }
      rewrite (bind_ok _ _ _ _ _ _ E1). finish. pose proof (run_ext _ _ _ _ _ E1) as X1.
      apply all_exist_rev_if, all_exist_app; [|exact Hrs].
      apply all_exist_firstn, all_exist_rev_if. eapply all_exist_ext; eassumption.
  Qed.

  (* ---- add_mul_alter ---- *)
  Lemma alter_loop_ok n : (1 <= n)%nat -> forall rows i res s,
    res <> [] -> Forall (fun r : list label => length r = n) rows ->
    all_exist (bc s) res -> mat_exist (bc s) rows ->
    exists r s', run fresh (alter_loop i res rows) s = Ok (r, s') /\ all_exist (bc s') r.
  Proof.
    intros Hn. induction rows as [|ci rows IH]; intros i res s Hres F Ares Arows; cbn [alter_loop].
    - finish. exact Ares.
    - pose proof (Forall_inv F) as Lci. pose proof (Forall_inv_tail F) as F'. cbv beta in Lci.
      pose proof (Forall_inv Arows) as Aci. pose proof (Forall_inv_tail Arows) as Arows'.
      destruct (with_shift_ok i res ci false s) as (r1 & s1 & E1 & Hr1); [exact Hres| |exact Ares|exact Aci|].
      { left. intros ->. simpl in Lci. lia. }
      rewrite (bind_ok _ _ _ _ _ _ E1). pose proof (run_ext _ _ _ _ _ E1) as X1.
      pose proof (with_shift_length _ _ _ _ _ _ _ _ E1) as L1.
      apply IH; [|exact F'|exact Hr1|eapply mat_exist_ext; eassumption].
      intros ->. simpl in L1. destruct (length res <=? i)%nat; lia.
  Qed.

  Theorem add_mul_alter_total xs ys be s :
    xs <> [] -> ys <> [] -> all_exist (bc s) xs -> all_exist (bc s) ys ->
    exists rs s', run fresh (add_mul_alter xs ys be) s = Ok (rs, s').
  Proof.
    intros Hx Hy Ax Ay. unfold add_mul_alter.
    destruct (pp_matrix_ok (rev_if be xs) (rev_if be ys) s) as (cm & s1 & E1 & Hcm);
      [apply all_exist_rev_if, Ax|apply all_exist_rev_if, Ay|].
    rewrite (bind_ok _ _ _ _ _ _ E1).
    apply pp_matrix_spec in E1 as (_ & _ & L1 & F1 & _). rewrite rev_if_length in L1, F1.
    assert (1 <= length xs)%nat as Hn by (destruct xs; [contradiction|simpl; lia]).
    destruct cm as [|c0 [|c1 rest]].
    - destruct ys; [contradiction|discriminate].
    - cbn [run]. eauto.
    - pose proof (Forall_inv F1) as L0. pose proof (Forall_inv_tail F1) as F'. cbv beta in L0.
      destruct (alter_loop_ok (length xs) Hn (c1 :: rest) 1 c0 s1) as (r & s2 & E2 & _).
      { intros ->. simpl in L0. lia. } { exact F'. } { exact (Forall_inv Hcm). } { exact (Forall_inv_tail Hcm). }
      rewrite (bind_ok _ _ _ _ _ _ E2). cbn [run]. eauto.
  Qed.

  (* ---- add_mul_dadda ---- *)
  Lemma reduce_col_ok di hn : (2 <= di)%nat -> forall fuel cur nxt s,
    (length cur <= fuel)%nat -> all_exist (bc s) cur -> all_exist (bc s) nxt ->
    exists r s', run fresh (reduce_col fuel di hn cur nxt) s = Ok (r, s') /\
      all_exist (bc s') (fst r) /\ all_exist (bc s') (snd r) /\
      (Nat.min (length cur) (di - 1) <= length (fst r))%nat /\
      (length nxt <= length (snd r))%nat /\
      (hn = true -> (di <= length cur)%nat -> (length nxt < length (snd r))%nat).
  Proof.
    intros Hdi. induction fuel as [|f IH]; intros cur nxt s Hfu Ac An; cbn [reduce_col];
      destruct (length cur <? di)%nat eqn:E.
    1,3: apply Nat.ltb_lt in E; finish; cbn [fst snd]; repeat split; try assumption; try lia.
    { apply Nat.ltb_ge in E. lia. }
    apply Nat.ltb_ge in E.
    assert (exists cur' g1 g2 s1,
      run fresh (if (length cur =? di)%nat
                 then match cur with
                      | x :: y :: cur' => bdo r <- add_sum2 [x; y]; bdo g <- unpack2 r; Ret (cur', g)
                      | _ => Fail PyIndexError
                      end
                 else match cur with
                      | x :: y :: z :: cur' => bdo r <- add_sum3 [x; y; z]; bdo g <- unpack2 r; Ret (cur', g)
                      | _ => Fail PyIndexError
                      end) s = Ok ((cur', (g1, g2)), s1) /\
      all_exist (bc s1) cur' /\ has_gate (bc s1) g1 = true /\ has_gate (bc s1) g2 = true /\
      (S (S (length cur')) <= length cur)%nat /\ (di - 2 <= length cur')%nat)
      as (cur' & g1 & g2 & s1 & E1 & Ac' & G1 & G2 & L1 & L2).
    { destruct (length cur =? di)%nat eqn:E2.
      - apply Nat.eqb_eq in E2. destruct cur as [|x [|y cur']]; simpl in E2; try lia.
        inversion Ac as [|? ? Hx Ac1]; subst. inversion Ac1 as [|? ? Hy Ac2]; subst.
        destruct (add_sum2_ok x y s Hx Hy) as (r & s1 & E1 & a & b & -> & Ha & Hb).
        rewrite (bind_ok _ _ _ _ _ _ E1). cbn [unpack2 run]. exists cur', a, b, s1.
        split; [reflexivity|]. split; [eapply all_exist_ext; [eapply run_ext; eassumption|assumption]|].
        repeat split; try assumption; simpl in *; lia.
      - apply Nat.eqb_neq in E2. destruct cur as [|x [|y [|z cur']]]; simpl in E, E2; try lia.
        inversion Ac as [|? ? Hx Ac1]; subst. inversion Ac1 as [|? ? Hy Ac2]; subst. inversion Ac2 as [|? ? Hz Ac3]; subst.
        destruct (add_sum3_ok x y z s Hx Hy Hz) as (r & s1 & E1 & a & b & -> & Ha & Hb).
        rewrite (bind_ok _ _ _ _ _ _ E1). cbn [unpack2 run]. exists cur', a, b, s1.
        split; [reflexivity|]. split; [eapply all_exist_ext; [eapply run_ext; eassumption|assumption]|].
        repeat split; try assumption; simpl in *; lia. }
    rewrite (bind_ok _ _ _ _ _ _ E1). cbn [fst snd]. pose proof (run_ext _ _ _ _ _ E1) as X1.
    destruct (IH (cur' ++ [g1]) (if hn then nxt ++ [g2] else nxt) s1)
      as (r & s2 & E2 & A1 & A2 & B1 & B2 & B3).
    { rewrite app_length. simpl. lia. }
    { apply all_exist_app; [exact Ac'|constructor; [exact G1|constructor]]. }
    { assert (all_exist (bc s1) nxt) as An1 by (eapply all_exist_ext; eassumption).
      destruct hn; [apply all_exist_app; [exact An1|constructor; [exact G2|constructor]]|exact An1]. }
    exists r, s2. split; [exact E2|]. split; [exact A1|]. split; [exact A2|].
    rewrite app_length in B1. simpl in B1.
    split; [lia|]. split.
    - destruct hn; [rewrite app_length in B2; simpl in B2|]; lia.
    - intros -> _. rewrite app_length in B2. simpl in B2. lia.
  Qed.

  Definition col_lb (di : nat) (col col' : list label) : Prop := (Nat.min (length col) (di - 1) <= length col')%nat.

  Lemma removelast_cons2 {A} (x y : A) l : removelast (x :: y :: l) = x :: removelast (y :: l).
  Proof. reflexivity. Qed.

  Lemma dadda_cols_ok di : (2 <= di)%nat -> forall rest cur s,
    all_exist (bc s) cur -> mat_exist (bc s) rest ->
    exists t s', run fresh (dadda_cols di cur rest) s = Ok (t, s') /\ mat_exist (bc s') t /\
      Forall2 (col_lb di) (cur :: rest) t /\
      (di = 2%nat -> (rest <> [] -> 2 <= length cur)%nat -> nonempty cur -> Forall nonempty (removelast rest) ->
       Forall nonempty t).
  Proof.
    intros Hdi. induction rest as [|nx rest IH]; intros cur s Ac Ar; cbn [dadda_cols].
    - destruct (reduce_col_ok di false Hdi (length cur) cur [] s) as ([c1 n1] & s1 & E1 & A1 & _ & B1 & _);
        [lia|exact Ac|constructor|].
      rewrite (bind_ok _ _ _ _ _ _ E1). finish. cbn [fst snd] in *.
      split; [constructor; [exact A1|constructor]|]. split; [constructor; [exact B1|constructor]|].
      intros -> _ Hne _. constructor; [|constructor]. unfold nonempty in *. simpl in B1. lia.
    - pose proof (Forall_inv Ar) as An. pose proof (Forall_inv_tail Ar) as Ar'.
      destruct (reduce_col_ok di true Hdi (length cur) cur nx s) as ([c1 n1] & s1 & E1 & A1 & A2 & B1 & B2 & B3);
        [lia|exact Ac|exact An|].
      rewrite (bind_ok _ _ _ _ _ _ E1). cbn [fst snd] in *. pose proof (run_ext _ _ _ _ _ E1) as X1.
      destruct (IH n1 s1 A2) as (t & s2 & E2 & At & Bt & Ct); [eapply mat_exist_ext; eassumption|].
      rewrite (bind_ok _ _ _ _ _ _ E2). finish. pose proof (run_ext _ _ _ _ _ E2) as X2.
      split; [constructor; [eapply all_exist_ext; eassumption|exact At]|].
      split.
      { constructor; [exact B1|]. inversion Bt as [|? ? ? ? Hh Ht]; subst. constructor; [|exact Ht].
        unfold col_lb in *. lia. }
      intros -> Hc2 Hne Hmid. specialize (Hc2 ltac:(discriminate)). specialize (B3 eq_refl Hc2).
      constructor; [unfold nonempty; simpl in B1; lia|].
      apply Ct; [reflexivity| | |].
      + intros Hr. destruct rest as [|r2 rest']; [contradiction|]. rewrite removelast_cons2 in Hmid.
        pose proof (Forall_inv Hmid) as Hnx. unfold nonempty in Hnx. lia.
      + unfold nonempty. lia.
      + destruct rest as [|r2 rest']; [constructor|]. rewrite removelast_cons2 in Hmid. exact (Forall_inv_tail Hmid).
  Qed.

  (* the invariant of the passes: column 1 holds two bits, the columns up to the last but one are non-empty *)
  Definition dadda_inv (c : circuit) (cols : list (list label)) : Prop :=
    mat_exist c cols /\
    exists c0 c1 rest, cols = c0 :: c1 :: rest /\ rest <> [] /\ nonempty c0 /\ (2 <= length c1)%nat /\
                       Forall nonempty (removelast rest).

  Lemma lb_nonempty di col col' : (2 <= di)%nat -> col_lb di col col' -> nonempty col -> nonempty col'.
  Proof. unfold col_lb, nonempty. lia. Qed.

  Lemma lb_removelast di : (2 <= di)%nat -> forall rest t, Forall2 (col_lb di) rest t ->
    Forall nonempty (removelast rest) -> Forall nonempty (removelast t).
  Proof.
    intros Hdi. induction 1 as [|x y rest t Hxy Hrt IH]; intros H; [constructor|].
    destruct Hrt as [|x2 y2 rest' t' H2 Hrt'].
    - constructor.
    - rewrite removelast_cons2 in *. constructor; [eapply lb_nonempty; [exact Hdi|exact Hxy|exact (Forall_inv H)]|].
      apply IH. exact (Forall_inv_tail H).
  Qed.

  Lemma dadda_main_ok : forall fuel di cols s,
    (2 <= di <= fuel)%nat -> dadda_inv (bc s) cols ->
    exists cols' s', run fresh (dadda_main fuel di cols) s = Ok (cols', s') /\
      mat_exist (bc s') cols' /\ Forall nonempty cols'.
  Proof.
    induction fuel as [|f IH]; intros di cols s Hdi (Ac & c0 & c1 & rest & -> & Hrest & N0 & L1 & Hmid); [lia|].
    cbn [dadda_main]. destruct (di =? 1)%nat eqn:E1; [apply Nat.eqb_eq in E1; lia|].
    cbn [dadda_pass].
    pose proof (Forall_inv Ac) as A0. pose proof (Forall_inv_tail Ac) as Ac1.
    destruct (dadda_cols_ok di ltac:(lia) rest c1 s (Forall_inv Ac1) (Forall_inv_tail Ac1))
      as (t & s1 & Et & At & Bt & Ct).
    assert (run fresh (bdo t0 <- dadda_cols di c1 rest; Ret (c0 :: t0)) s = Ok (c0 :: t, s1)) as Ep.
    { rewrite (bind_ok _ _ _ _ _ _ Et). reflexivity. }
    rewrite (bind_ok _ _ _ _ _ _ Ep). pose proof (run_ext _ _ _ _ _ Et) as X1.
    assert (all_exist (bc s1) c0) as A0' by (eapply all_exist_ext; eassumption).
    destruct (di =? 2)%nat eqn:E2.
    - apply Nat.eqb_eq in E2. subst di.
      assert (forall f0, dadda_main f0 1 (c0 :: t) = Ret (c0 :: t)) as Hret by (intros [|f0]; reflexivity).
      rewrite Hret. finish. split; [constructor; assumption|]. constructor; [exact N0|].
      apply Ct; [reflexivity|intros _; exact L1|unfold nonempty; lia|exact Hmid].
    - apply Nat.eqb_neq in E2.
      inversion Bt as [|? c1' ? rest' Hh Ht]; subst.
      apply IH.
      + split; [apply Nat.div_le_lower_bound; lia|].
        assert ((2 * di + 2) / 3 < di)%nat; [apply Nat.div_lt_upper_bound; lia|lia].
      + split; [constructor; assumption|]. exists c0, c1', rest'. split; [reflexivity|].
        split; [intros ->; inversion Ht; subst; contradiction|]. split; [exact N0|].
        split; [unfold col_lb in Hh; lia|]. eapply lb_removelast; [|exact Ht|exact Hmid]. lia.
  Qed.

  Lemma first_of_ok cols s : Forall nonempty cols -> exists out, run fresh (mapP first_of cols) s = Ok (out, s).
  Proof.
    induction 1 as [|col cols Hc _ (out & IH)]; cbn [mapP]; [eexists; reflexivity|].
    destruct col as [|x col]; [unfold nonempty in Hc; simpl in Hc; lia|].
    cbn [first_of]. rewrite run_ret_bind. rewrite (bind_ok _ _ _ _ _ _ IH). eexists; reflexivity.
  Qed.

  Theorem add_mul_dadda_total xs ys be s :
    xs <> [] -> ys <> [] -> all_exist (bc s) xs -> all_exist (bc s) ys ->
    exists rs s', run fresh (add_mul_dadda xs ys be) s = Ok (rs, s').
  Proof.
    intros Hx Hy Ax Ay. unfold add_mul_dadda. rewrite !rev_if_length.
    destruct (pp_matrix_ok (rev_if be xs) (rev_if be ys) s) as (cm & s1 & E1 & Hcm);
      [apply all_exist_rev_if, Ax|apply all_exist_rev_if, Ay|].
    rewrite (bind_ok _ _ _ _ _ _ E1).
    apply pp_matrix_spec in E1 as (_ & _ & L1 & F1 & _). rewrite rev_if_length in L1, F1.
    set (n := length xs) in *. set (m := length ys) in *.
    assert (1 <= n)%nat as Hn by (unfold n; destruct xs; [contradiction|simpl; lia]).
    assert (1 <= m)%nat as Hm by (unfold m; destruct ys; [contradiction|simpl; lia]).
    set (cols := diagonals (n + m) [] cm).
    assert (mat_exist (bc s1) cols) as Acols by (apply diagonals_exist; [constructor|exact Hcm]).
    assert (Forall nonempty (firstn (n + m - 1) cols)) as Hne.
    { pose proof (diagonals_nonempty n Hn (n + m) [] cm F1) as H. unfold diag_cnt in H.
      destruct cm as [|r0 cm']; [simpl in L1; lia|]. rewrite L1 in H.
      replace (m + n - 1)%nat with (n + m - 1)%nat in H by lia. exact H. }
    destruct ((n =? 1) || (m =? 1))%nat eqn:E.
    - replace (m + n - 1)%nat with (n + m - 1)%nat by lia.
      destruct (first_of_ok (firstn (n + m - 1) cols) s1 Hne) as (out & Eo).
      rewrite (bind_ok _ _ _ _ _ _ Eo). cbn [run]. eauto.
    - apply orb_false_iff in E as (En & Em). apply Nat.eqb_neq in En, Em.
      set (di := dadda_start (Nat.min n m) 2 (Nat.min n m)).
      assert (2 <= di)%nat as Hdi by (apply dadda_start_ge2; lia).
      destruct (dadda_main_ok (S di) di cols s1) as (cols' & s2 & E2 & A2 & N2); [lia| |].
      { split; [exact Acols|].
        assert (length cols = (n + m)%nat) as Lc by apply diagonals_length.
        destruct cm as [|p0 [|p1 cm']]; try (simpl in L1; lia).
        pose proof (Forall_inv F1) as Lp0. pose proof (Forall_inv (Forall_inv_tail F1)) as Lp1. cbv beta in Lp0, Lp1.
        destruct p0 as [|x0 [|x1 p0']]; try (simpl in Lp0; lia). destruct p1 as [|y0 p1']; try (simpl in Lp1; lia).
        destruct (n + m)%nat as [|[|[|k]]] eqn:Enm; try lia.
        unfold cols in *. cbn [diagonals firstn skipn app heads1 flat_map map tl] in *.
        eexists _, _, _. split; [reflexivity|].
        split; [intros E0; apply (f_equal (@length (list label))) in E0; simpl in Lc, E0; lia|].
        split; [unfold nonempty; simpl; lia|]. split; [simpl; lia|].
        (* the columns 2 .. n + m - 2 *)
        replace (S (S (S k)) - 1)%nat with (S (S k)) in Hne by lia. cbn [firstn] in Hne.
        pose proof (Forall_inv_tail (Forall_inv_tail Hne)) as H2.
        match goal with |- Forall nonempty (removelast ?r) => set (rest := r) in * end.
        clearbody rest. assert (length rest = S k) as Lr by (simpl in Lc; lia).
        clear -H2 Lr. revert k Lr H2. induction rest as [|r [|r2 rest] IHr]; intros k Lr H2; [constructor|constructor|].
        rewrite removelast_cons2. destruct k as [|k]; [simpl in Lr; lia|]. cbn [firstn] in H2.
        constructor; [exact (Forall_inv H2)|]. apply (IHr k); [simpl in *; lia|exact (Forall_inv_tail H2)]. }
      rewrite (bind_ok _ _ _ _ _ _ E2).
      destruct (first_of_ok cols' s2 N2) as (out & Eo).
      rewrite (bind_ok _ _ _ _ _ _ Eo). cbn [run]. eauto.
  Qed.
End MulTotal.
