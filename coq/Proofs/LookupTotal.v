(* Lookups never raise on a database whose stored circuits compute their keys (C17):
   get_by_raw_truth_table returns DbOk for every non-empty table without empty rows. *)
Require Import Cirbo.Model.Base Cirbo.Model.Gate Cirbo.Model.Circuit Cirbo.Model.Eval Cirbo.Model.Sem.
Require Import Cirbo.Model.BitIO Cirbo.Model.DictIO Cirbo.Model.Codec Cirbo.Model.Db.
Require Import Cirbo.Proofs.DictFacts Cirbo.Proofs.DictIOFacts Cirbo.Proofs.CodecIds Cirbo.Proofs.IsoFacts Cirbo.Proofs.CodecFacts.
Require Import Cirbo.Proofs.DbTruthTableFacts Cirbo.Proofs.NormFacts Cirbo.Proofs.LabelFacts Cirbo.Proofs.DbFacts Cirbo.Proofs.ModelLookupFacts Cirbo.Proofs.CompletionFacts.
From Coq Require Import Permutation.

(* ---- normalisation succeeds on non-degenerate tables ---- *)
Lemma normalize_outputs_total t : rows_nonempty t -> exists r, normalize_outputs t = Ok r.
Proof.
  induction 1 as [|row t Hrow _ (r & IH)]; simpl; [eauto|].
  destruct row as [|b row]; [congruence|]. rewrite IH. simpl. eauto.
Qed.

Lemma normalize_total t : t <> [] -> rows_nonempty t -> exists ni, normalize t = Ok ni.
Proof.
  intros Ht Hne. unfold normalize. destruct (normalize_outputs_total t Hne) as ([negs t1] & E1). rewrite E1.
  cbv beta iota delta [bind fst snd]. destruct (sort_outputs t1) as [perm t2] eqn:E2.
  destruct (normalize_outputs_spec _ _ _ E1) as (_ & -> & _).
  destruct (sort_outputs_spec _ _ _ E2) as (_ & H2 & _). rewrite map_length in H2.
  destruct t2 as [|row0 rest]; [destruct t; [congruence|discriminate]|]. simpl. eauto.
Qed.

(* ---- order_list succeeds on a rearrangement ---- *)
Lemma Permutation_remove1 e (old : list label) : In e old -> Permutation old (e :: remove1 e old).
Proof.
  induction old as [|x old IH]; intros H; [contradiction|]. simpl.
  destruct (leqb_spec e x) as [->|Hne]; [reflexivity|].
  destruct H as [->|H]; [congruence|]. eapply Permutation_trans; [apply perm_skip, IH; exact H|apply perm_swap].
Qed.

Lemma order_list_loop_total : forall ordered old acc,
  Permutation ordered old -> exists r, order_list_loop ordered old acc = Ok r.
Proof.
  induction ordered as [|e ordered IH]; intros old acc Hp; simpl; [eauto|].
  assert (In e old) as Hin by (eapply Permutation_in; [exact Hp|left; reflexivity]).
  apply memb_In in Hin as Hm. rewrite Hm. apply IH.
  eapply Permutation_cons_inv. eapply Permutation_trans; [exact Hp|apply Permutation_remove1; exact Hin].
Qed.

Lemma order_list_total ordered old : Permutation ordered old -> exists l, order_list ordered old = Ok l.
Proof.
  intros Hp. unfold order_list. destruct (order_list_loop_total _ _ [] Hp) as ([new oc] & ->). simpl.
  destruct (length new =? length old)%nat; eauto.
Qed.

(* ---- list_set and the unsort loop succeed ---- *)
Lemma list_set_total {A} : forall (l : list A) i x, (i < length l)%nat -> exists l', list_set l i x = Ok l'.
Proof.
  induction l as [|y l IH]; intros i x H; simpl in *; [lia|]. destruct i as [|i]; [eauto|].
  destruct (IH i x) as (l' & ->); [lia|]. simpl. eauto.
Qed.

Lemma unsort_fold_total (outs1 : list label) : forall ps k0 acc,
  (forall p, In p ps -> p < length acc)%nat -> (k0 + length ps <= length outs1)%nat ->
  exists un, foldM (fun (acc : list label) (ks : nat * nat) =>
                      do o <- nth_res outs1 (fst ks); list_set acc (snd ks) o) (enumerate_from k0 ps) acc = Ok un.
Proof.
  induction ps as [|p ps IH]; intros k0 acc Hp Hk; simpl; [eauto|]. simpl in Hk.
  destruct (nth_error outs1 k0) as [o|] eqn:Eo; [|apply nth_error_None in Eo; lia].
  unfold nth_res at 1. rewrite Eo. simpl.
  destruct (list_set_total acc p o (Hp p (or_introl eq_refl))) as (acc1 & E1). rewrite E1. simpl.
  apply IH; [|lia]. intros q Hq. destruct (list_set_spec _ _ _ _ E1) as (L1 & _). rewrite L1. apply Hp; right; exact Hq.
Qed.

Lemma nth_error_map_nth {A} (l : list A) d : map (fun i => nth i l d) (seq 0 (length l)) = l.
Proof.
  apply nth_error_ext'. intros i. rewrite nth_error_map.
  destruct (nth_error l i) as [x|] eqn:E.
  - assert (i < length l)%nat by (apply nth_error_Some; congruence).
    rewrite nth_error_nth' with (d := O) by (rewrite seq_length; assumption). rewrite seq_nth by assumption. simpl.
    f_equal. apply nth_error_nth; exact E.
  - apply nth_error_None in E. rewrite (proj2 (nth_error_None _ _)); [reflexivity|rewrite seq_length; exact E].
Qed.

Lemma rearrangement_perm (un outs1 : list label) (perm : list nat) :
  Permutation perm (seq 0 (length outs1)) -> length un = length outs1 ->
  (forall k p, nth_error perm k = Some p -> nth_error un p = nth_error outs1 k /\ nth_error outs1 k <> None) ->
  Permutation un outs1.
Proof.
  intros Hp Hlen H.
  assert (outs1 = map (fun i => nth i un EmptyString) perm) as E.
  { apply nth_error_ext'. intros k. rewrite nth_error_map.
    destruct (nth_error perm k) as [p|] eqn:Ek; simpl.
    - destruct (H _ _ Ek) as (H1 & H2). destruct (nth_error outs1 k) as [o|] eqn:Eo; [|congruence].
      f_equal. symmetry. apply nth_error_nth. exact H1.
    - apply nth_error_None in Ek. apply nth_error_None. rewrite (Permutation_length Hp), seq_length in Ek. exact Ek. }
  apply Permutation_trans with (map (fun i => nth i un EmptyString) (seq 0 (length outs1))).
  - rewrite <- Hlen, nth_error_map_nth. reflexivity.
  - eapply Permutation_trans; [apply Permutation_map, Permutation_sym; exact Hp|]. rewrite <- E. reflexivity.
Qed.

(* ---- the three steps of denormalize succeed ---- *)
Lemma foldM_cons {A S} (f : S -> A -> res S) x xs s : foldM f (x :: xs) s = (do s' <- f s x; foldM f xs s').
Proof. reflexivity. Qed.

Lemma negate_fold_total c0 : forall ons c acc extras,
  gates c = gates c0 ++ extras ->
  (forall on, In on ons -> dmem (gates c0) (fst on) = true) ->
  exists r, foldM negate_step ons (c, acc) = Ok r.
Proof.
  induction ons as [|[o neg] ons IH]; intros c acc extras Hg Hex; [simpl; eauto|].
  assert (forall on, In on ons -> dmem (gates c0) (fst on) = true) as Hex' by (intros; apply Hex; right; assumption).
  rewrite foldM_cons. unfold negate_step at 1. cbn [fst snd]. destruct neg.
  - unfold negate_gate. fold (not_label o). destruct (has_gate c (not_label o)) eqn:Eh; cbn [bind fst snd].
    + eapply IH; eassumption.
    + destruct (emplace_gate_core c (not_label o) NOT [o] Eh) as (c1 & E1 & Hg1 & _).
      { intros x [<-|[]]. apply dmem_keys. rewrite Hg. unfold dkeys. rewrite map_app. apply in_or_app; left.
        apply dmem_keys. apply (Hex (o, true)). left; reflexivity. }
      rewrite E1. cbn [bind fst snd]. eapply (IH c1 _ (extras ++ [(not_label o, mkGate NOT [o])])); [|exact Hex'].
      rewrite Hg1, Hg, <- app_assoc. reflexivity.
  - cbn [bind]. eapply IH; eassumption.
Qed.

Theorem denormalize_total t ni c :
  normalize t = Ok ni -> stored_ok c (norm_table ni) -> exists c', denormalize ni c = DbOk c'.
Proof.
  intros Hn [Hgen Hout Hcomp].
  destruct (normalize_spec _ _ Hn) as (Hne & Hnegs & Hplen & Hperm & t2 & Ht2len & Hsort & Hdedup).
  pose proof (Forall2_length' _ _ _ Hcomp) as Lc. pose proof (Forall2_length' _ _ _ Hdedup) as Lm.
  unfold denormalize.
  (* undo deletion *)
  assert (exists c1, undo_outputs_deletion ni c = Ok c1) as (c1 & E1).
  { unfold undo_outputs_deletion.
    destruct (mapM_total (fun m => nth_res (outputs c) m) (mapping ni)) as (outs & ->); [|simpl; eauto].
    intros j Hj. apply In_nth_error in Hj as (k & Hk).
    destruct (nth_error t2 k) as [row|] eqn:Er; [|apply nth_error_None in Er; assert (k < length (mapping ni))%nat by (apply nth_error_Some; congruence); lia].
    pose proof (Forall2_nth_elim _ _ _ Hdedup _ _ _ Hk Er) as Hj3.
    assert (j < length (outputs c))%nat as Hlt by (rewrite Lc; apply nth_error_Some; congruence).
    unfold nth_res. destruct (nth_error (outputs c) j) eqn:Eo; [eauto|]. apply nth_error_None in Eo; lia. }
  rewrite E1. simpl. destruct (undo_outputs_deletion_spec _ _ _ E1) as (G1 & I1 & O1).
  pose proof (Forall2_length' _ _ _ O1) as L1.
  assert (NoDup (permutation ni)) as Hnd.
  { eapply Permutation_NoDup; [apply Permutation_sym; exact Hperm|apply seq_NoDup]. }
  (* unsort *)
  assert (exists c2, unsort_outputs ni c1 = DbOk c2) as (c2 & E2).
  { unfold unsort_outputs. rewrite (proj2 (Nat.eqb_eq _ _)) by lia. simpl.
    destruct (unsort_fold_total (outputs c1) (permutation ni) 0 (map (fun _ => EmptyString) (outputs c1))) as (un & Eu).
    - intros p Hp. rewrite map_length. eapply Permutation_in in Hp; [|exact Hperm]. apply in_seq in Hp. lia.
    - lia.
    - rewrite Eu. simpl. destruct (unsort_fold_spec _ _ _ _ _ Eu Hnd) as (U1 & U2 & _). rewrite map_length in U1.
      unfold order_outputs. destruct (order_list_total un (outputs c1)) as (l & ->); [|simpl; eauto].
      apply (rearrangement_perm un (outputs c1) (permutation ni)); [|exact U1|exact U2].
      replace (length (outputs c1)) with (length t) by lia. exact Hperm. }
  rewrite E2. simpl. destruct (unsort_outputs_spec _ _ _ E2 Hnd) as (G2 & I2 & L2 & O2).
  (* negations *)
  unfold denormalize_outputs. rewrite (proj2 (Nat.eqb_eq _ _)) by (rewrite Hnegs, map_length; lia). simpl.
  change (fun (st : circuit * list label) (on : label * bool) =>
            let '(c1, acc) := st in
            if snd on then do r <- negate_gate c1 (fst on); Ok (fst r, acc ++ [snd r]) else Ok (c1, acc ++ [fst on]))
    with negate_step.
  destruct (negate_fold_total c (combine (outputs c2) (negations ni)) c2 [] []) as (r & ->); [| |simpl; eauto].
  - rewrite app_nil_r. congruence.
  - intros [o n] Hon. simpl. apply in_combine_l in Hon. apply In_nth_error in Hon as (p & Hp).
    assert (p < length (outputs c2))%nat as Hpl by (apply nth_error_Some; congruence).
    assert (In p (permutation ni)) as Hin.
    { eapply Permutation_in; [apply Permutation_sym; exact Hperm|]. apply in_seq. lia. }
    apply In_nth_error in Hin as (k & Hk). destruct (O2 _ _ Hk) as (Hko & _). rewrite Hp in Hko.
    symmetry in Hko. apply nth_error_In in Hko.
    clear -O1 Hko Hout. induction O1 as [|j o' ms os Hjo _ IH]; [contradiction|].
    destruct Hko as [<-|Hko]; [apply Hout; eapply nth_error_In; exact Hjo|apply IH; exact Hko].
Qed.

(* the fully defined lookup never raises *)
Theorem lookup_total d t :
  db_ok d -> t <> [] -> rows_nonempty t -> exists r, get_by_raw_truth_table d t = DbOk r.
Proof.
  intros Hdb Ht Hne. unfold get_by_raw_truth_table.
  destruct (normalize_total t Ht Hne) as (ni & En). rewrite En. simpl.
  unfold get_by_label. destruct (dget d (truth_table_to_label (norm_table ni))) as [bs|] eqn:Ed; simpl; [|eauto].
  destruct (Hdb _ _ (normalize_rows_nonempty _ _ En) Ed) as (c & Hdec & Hso). rewrite Hdec. simpl.
  destruct (denormalize_total _ _ _ En Hso) as (c' & ->). simpl. eauto.
Qed.

(* together with DbFacts: a circuit computing the table, or nothing and then the key is absent *)
Theorem lookup_complete_statement d t :
  db_ok d -> t <> [] -> rows_nonempty t ->
  (exists c, get_by_raw_truth_table d t = DbOk (Some c) /\ computes c t) \/
  (get_by_raw_truth_table d t = DbOk None /\
   exists ni, normalize t = Ok ni /\ dget d (truth_table_to_label (norm_table ni)) = None).
Proof.
  intros Hdb Ht Hne. destruct (lookup_total d t Hdb Ht Hne) as ([c|] & E).
  - left. exists c. split; [exact E|]. eapply lookup_returns_requested_function; eassumption.
  - right. split; [exact E|]. apply lookup_none_only_if_absent; exact E.
Qed.

(* ---- the lookup with don't-cares never raises either ---- *)
Lemma agrees_shape tm t :
  agrees tm t -> tm <> [] -> Forall (fun row : list (option bool) => row <> []) tm -> t <> [] /\ rows_nonempty t.
Proof.
  intros Ha Hne Hrows. split.
  - intros ->. inversion Ha. congruence.
  - unfold rows_nonempty. clear Hne. induction Ha as [|mrow row tm t Hr _ IH]; constructor.
    + inversion Hrows; subst. intros ->. inversion Hr. congruence.
    + apply IH. inversion Hrows; assumption.
Qed.

Lemma model_loop_total d tm excl : forall subs best,
  (forall s, In s subs -> exists r, ModelLookupFacts.lookup_at d tm s = DbOk r) ->
  exists r, model_loop d (defined_table tm) (undefined_positions tm) excl subs best = DbOk r.
Proof.
  induction subs as [|s subs IH]; intros best H; simpl; [eauto|].
  destruct (H s (or_introl eq_refl)) as (oc & E). unfold ModelLookupFacts.lookup_at in E. rewrite E. simpl.
  assert (forall s', In s' subs -> exists r, ModelLookupFacts.lookup_at d tm s' = DbOk r) as H' by (intros; apply H; right; assumption).
  destruct oc as [c|]; [|apply IH; exact H'].
  destruct best as [[cb bsz]|]; [destruct (_ <? _)%nat|]; apply IH; exact H'.
Qed.

Theorem model_lookup_total d tm excl :
  db_ok d -> tm <> [] -> Forall (fun row : list (option bool) => row <> []) tm ->
  exists r, get_by_raw_truth_table_model d tm excl = DbOk r.
Proof.
  intros Hdb Hne Hrows. unfold get_by_raw_truth_table_model.
  destruct (model_loop_total d tm excl (all_bool_vectors (length (undefined_positions tm))) None) as (r & ->); [|simpl; eauto].
  intros s _. unfold ModelLookupFacts.lookup_at.
  destruct (agrees_shape _ _ (ModelLookupFacts.substitute_agrees tm s) Hne Hrows) as (H1 & H2).
  apply lookup_total; assumption.
Qed.
