(* C08, part 7: add_mul_wallace.  The matrix of cells (row-major, every row n + m cells wide, a
   placeholder counting 0) has the value  sum over the rows of the number spelt by the row.  One
   group of three rows is replaced by the row of sum bits and the row of carries moved one column
   up; the carry out of the last column is dropped, so the value is invariant modulo 2^(n+m).
   The last step reads row 0 and row 1 as two numbers (the model checks their shape, see
   Model/ArithMul.v) and adds them. *)
Require Import Cirbo.Model.Base Cirbo.Model.Gate Cirbo.Model.Den Cirbo.Model.Circuit
  Cirbo.Model.Eval Cirbo.Model.Sem Cirbo.Model.Builder.
Require Import Cirbo.Generated.ArithTables Cirbo.Generated.ArithCells.
Require Import Cirbo.Model.ArithSub Cirbo.Model.ArithSum2 Cirbo.Model.ArithSumN Cirbo.Model.ArithSumW
  Cirbo.Model.ArithMul.
Require Import Cirbo.Proofs.DictFacts Cirbo.Proofs.BuilderFacts Cirbo.Proofs.ArithFacts
  Cirbo.Proofs.ArithSumCells Cirbo.Proofs.ArithSumNFacts Cirbo.Proofs.ArithSumTopFacts
  Cirbo.Proofs.ArithSumPow2Facts Cirbo.Proofs.ArithMulFacts Cirbo.Proofs.ArithMulDiag
  Cirbo.Proofs.ArithMulDadda Cirbo.Proofs.ArithMulPow2 Cirbo.Proofs.ArithMulKara.
Open Scope Z_scope.

Definition cval (c : circuit) (asg : assignment) (cl : cell) (b : bool) : Prop :=
  match cl with Some l => bval c asg l b | None => b = false end.
Notation cvals c asg := (Forall2 (cval c asg)).
Notation cmvals c asg := (Forall2 (Forall2 (cval c asg))).

Definition noP (c : circuit) : Prop := has_gate c PLACEHOLDER_STR = false.

Lemma cell_of_val c asg l b : noP c -> bval c asg l b -> cval c asg (cell_of l) b.
Proof.
  intros HP Hb. unfold cell_of. destruct (String.eqb_spec l PLACEHOLDER_STR) as [->|_]; [|exact Hb].
  apply bval_has_gate in Hb. unfold noP in HP. congruence.
Qed.

Lemma cell_label_of l : cell_label (cell_of l) = l.
Proof. unfold cell_of, cell_label. destruct (String.eqb_spec l PLACEHOLDER_STR) as [->|_]; reflexivity. Qed.

Lemma cell_list_vals c asg x vx : cval c asg x vx -> exists v, bvals c asg (cell_list x) v /\ ones v = Z.b2z vx.
Proof.
  destruct x as [l|]; simpl; intros H.
  - exists [vx]. split; [constructor; [exact H|constructor]|simpl; lia].
  - subst vx. exists []. split; [constructor|reflexivity].
Qed.

Lemma cvals_none c asg k : cvals c asg (repeat None k) (repeat false k).
Proof. induction k; simpl; constructor; [reflexivity|assumption]. Qed.

(* ---- one group of three rows ------------------------------------------------------------------------------------------ *)
Lemma wallace_group_spec fresh : forall ra rb rc s S C s',
  length rb = length ra -> length rc = length ra ->
  run fresh (wallace_group ra rb rc) s = Ok ((S, C), s') ->
  ext (bc s) (bc s') /\ outputs (bc s') = outputs (bc s) /\ length S = length ra /\ length C = length ra /\
  forall c, ext (bc s') c -> noP c -> forall asg rav rbv rcv,
    cvals c asg ra rav -> cvals c asg rb rbv -> cvals c asg rc rcv ->
    exists Sv Cv, cvals c asg S Sv /\ cvals c asg C Cv /\
      bits_val Sv + 2 * bits_val Cv = bits_val rav + bits_val rbv + bits_val rcv.
Proof.
  induction ra as [|x ra IH]; intros [|y rb] [|z rc] s S C s' Lb Lc H; simpl in Lb, Lc; try discriminate.
  - apply run_ret_inv in H as (E & ->). injection E as -> ->. split; [apply ext_refl|].
    split; [reflexivity|]. split; [reflexivity|]. split; [reflexivity|].
    intros c _ _ asg rav rbv rcv Ha Hb Hc.
    inversion Ha as [|]; subst. inversion Hb as [|]; subst. inversion Hc as [|]; subst.
    exists [], []. split; [constructor|]. split; [constructor|]. reflexivity.
  - cbn [wallace_group] in H. apply run_bind_inv in H as ([sx cx] & s1 & Hcol & H).
    apply run_bind_inv in H as ([S' C'] & s2 & Hrest & H). apply run_ret_inv in H as (E & ->).
    cbn [fst snd] in E. injection E as -> ->.
    apply IH in Hrest as (X2 & O2 & LS & LC & V2); [|lia|lia].
    assert (ext (bc s) (bc s1) /\ outputs (bc s1) = outputs (bc s) /\
            forall c, ext (bc s1) c -> noP c -> forall asg vx vy vz,
              cval c asg x vx -> cval c asg y vy -> cval c asg z vz ->
              exists vs vc, cval c asg sx vs /\ cval c asg cx vc /\
                Z.b2z vs + 2 * Z.b2z vc = Z.b2z vx + Z.b2z vy + Z.b2z vz) as (X1 & O1 & V1).
    { destruct (cell_list x ++ cell_list y ++ cell_list z) as [|i0 inp'] eqn:Einp.
      - apply run_ret_inv in Hcol as (E & ->). injection E as -> ->.
        split; [apply ext_refl|]. split; [reflexivity|].
        intros c _ _ asg vx vy vz Hvx Hvy Hvz.
        destruct x, y, z; simpl in Einp; try discriminate. simpl in *. subst.
        exists false, false. repeat split.
      - rewrite <- Einp in Hcol. clear Einp.
        apply run_bind_inv in Hcol as (res & s3 & Hres & Hcol).
        apply add_sum_n_bits_correct in Hres as (b & _ & Xr & _ & Or & _ & Vr).
        assert (exists s0 c0, (sx, cx) = (cell_of s0, c0) /\ s3 = s1 /\
                  (res = [s0] /\ c0 = None \/ exists cy, res = [s0; cy] /\ c0 = cell_of cy)) as (s0 & c0 & E & -> & Hres).
        { destruct res as [|r0 [|r1 [|r2 res']]]; try discriminate.
          - apply run_ret_inv in Hcol as (E & ->). exists r0, None. repeat split; auto.
          - apply run_ret_inv in Hcol as (E & ->). exists r0, (cell_of r1). repeat split; eauto. }
        injection E as -> ->.
        split; [exact Xr|]. split; [exact Or|].
        intros c Hc HP asg vx vy vz Hvx Hvy Hvz.
        destruct (cell_list_vals _ _ _ _ Hvx) as (lx & Hlx & Ex).
        destruct (cell_list_vals _ _ _ _ Hvy) as (ly & Hly & Ey).
        destruct (cell_list_vals _ _ _ _ Hvz) as (lz & Hlz & Ez).
        destruct (Vr c Hc asg (lx ++ ly ++ lz)) as (rv & Hrv & Erv).
        { apply bvals_app; [exact Hlx|apply bvals_app; assumption]. }
        rewrite !ones_app in Erv. unfold decode, rev_if in Erv.
        destruct Hres as [(-> & ->)|(cy & -> & ->)].
        + inversion Hrv as [|? v0 ? rv' Hv0 Hrv']; subst. inversion Hrv'; subst.
          exists v0, false. split; [apply cell_of_val; assumption|]. split; [reflexivity|]. simpl in Erv. simpl. lia.
        + inversion Hrv as [|? v0 ? rv' Hv0 Hrv']; subst. inversion Hrv' as [|? v1 ? rv'' Hv1 Hrv'']; subst.
          inversion Hrv''; subst.
          exists v0, v1. split; [apply cell_of_val; assumption|]. split; [apply cell_of_val; assumption|].
          simpl in Erv. lia. }
    split; [eapply ext_trans; eassumption|]. split; [congruence|]. split; [simpl; lia|]. split; [simpl; lia|].
    intros c Hc HP asg rav rbv rcv Ha Hb Hcv.
    inversion Ha as [|? vx ? rav' Hvx Ha']; subst. inversion Hb as [|? vy ? rbv' Hvy Hb']; subst.
    inversion Hcv as [|? vz ? rcv' Hvz Hc']; subst.
    assert (ext (bc s1) c) as Hc1 by (eapply ext_trans; eassumption).
    destruct (V1 c Hc1 HP asg vx vy vz Hvx Hvy Hvz) as (vs & vc & Hvs & Hvc & E1).
    destruct (V2 c Hc HP asg rav' rbv' rcv' Ha' Hb' Hc') as (Sv & Cv & HSv & HCv & E2).
    exists (vs :: Sv), (vc :: Cv). split; [constructor; assumption|]. split; [constructor; assumption|].
    rewrite !bits_val_cons. lia.
Qed.

(* ---- the carry row: moved one column up, the top carry dropped ------------------------------------------------------- *)
Lemma cvals_removelast c asg : forall C Cv, cvals c asg C Cv -> cvals c asg (removelast C) (removelast Cv).
Proof.
  induction 1 as [|x v C Cv Hx HC IH]; [constructor|].
  destruct HC as [|x' v' C' Cv' Hx' HC']; simpl; [constructor|]. constructor; [exact Hx|exact IH].
Qed.

Lemma bits_val_removelast Cv : Cv <> [] ->
  bits_val Cv = bits_val (removelast Cv) + 2 ^ Z.of_nat (length Cv - 1) * Z.b2z (last Cv false).
Proof.
  intros H. rewrite (app_removelast_last false H) at 1. rewrite bits_val_app. simpl bits_val.
  assert (length (removelast Cv) = (length Cv - 1)%nat) as ->; [|lia].
  rewrite (app_removelast_last false H) at 2. rewrite app_length. simpl. lia.
Qed.

Lemma removelast_length {A} (l : list A) : length (removelast l) = (length l - 1)%nat.
Proof.
  destruct l as [|x l]; [reflexivity|]. assert (x :: l <> []) as H by discriminate.
  rewrite (app_removelast_last x H) at 2. rewrite app_length. simpl. lia.
Qed.

Definition rows_of_width {A} (N : nat) (rows : list (list A)) : Prop := Forall (fun r => length r = N) rows.

(* ---- one round --------------------------------------------------------------------------------------------------------- *)
Lemma wallace_round_spec fresh N : (1 <= N)%nat -> forall k rows s rows' s',
  (length rows <= k)%nat -> rows_of_width N rows ->
  run fresh (wallace_round rows) s = Ok (rows', s') ->
  ext (bc s) (bc s') /\ outputs (bc s') = outputs (bc s) /\ rows_of_width N rows' /\
  forall c, ext (bc s') c -> noP c -> forall asg rowsv, cmvals c asg rows rowsv ->
    exists rowsv' K, cmvals c asg rows' rowsv' /\ rows_sum rowsv = rows_sum rowsv' + 2 ^ Z.of_nat N * K.
Proof.
  intros HN. induction k as [|k IH]; intros rows s rows' s' Hk Hw H.
  { destruct rows; [|simpl in Hk; lia]. apply run_ret_inv in H as (-> & ->).
    split; [apply ext_refl|]. split; [reflexivity|]. split; [exact Hw|].
    intros c _ _ asg rowsv Hv. exists rowsv, 0. split; [exact Hv|lia]. }
  destruct rows as [|ra [|rb [|rc rest]]].
  1-3: apply run_ret_inv in H as (-> & ->); (split; [apply ext_refl|]); (split; [reflexivity|]); (split; [exact Hw|]);
       intros c _ _ asg rowsv Hv; exists rowsv, 0; (split; [exact Hv|lia]).
  cbn [wallace_round] in H. apply run_bind_inv in H as ([S C] & s1 & Hg & H).
  apply run_bind_inv in H as (t & s2 & Ht & H). apply run_ret_inv in H as (-> & ->). cbn [fst snd].
  pose proof (Forall_inv Hw) as La. pose proof (Forall_inv_tail Hw) as Hw1. pose proof (Forall_inv Hw1) as Lb.
  pose proof (Forall_inv_tail Hw1) as Hw2. pose proof (Forall_inv Hw2) as Lc. pose proof (Forall_inv_tail Hw2) as Hw3.
  cbv beta in La, Lb, Lc. subst N.
  apply wallace_group_spec in Hg as (X1 & O1 & LS & LC & V1); [|congruence|congruence].
  apply IH in Ht as (X2 & O2 & W2 & V2); [|simpl in Hk; lia|exact Hw3].
  split; [eapply ext_trans; eassumption|]. split; [congruence|]. split.
  { constructor; [congruence|]. constructor; [|exact W2]. simpl. rewrite removelast_length, LC. lia. }
  intros c Hc HP asg rowsv Hv.
  inversion Hv as [|? rav ? rv1 Ha Hv1]; subst. inversion Hv1 as [|? rbv ? rv2 Hb Hv2]; subst.
  inversion Hv2 as [|? rcv ? restv Hcv Hrest]; subst.
  assert (ext (bc s1) c) as Hc1 by (eapply ext_trans; eassumption).
  destruct (V1 c Hc1 HP asg rav rbv rcv Ha Hb Hcv) as (Sv & Cv & HSv & HCv & E1).
  destruct (V2 c Hc HP asg restv Hrest) as (tv & K & Htv & E2).
  exists (Sv :: (false :: removelast Cv) :: tv), (K + Z.b2z (last Cv false)).
  split.
  { constructor; [exact HSv|]. constructor; [|exact Htv]. constructor; [reflexivity|apply cvals_removelast, HCv]. }
  assert (length Cv = length ra) as LCv by (rewrite <- (Forall2_length _ _ _ HCv), LC; reflexivity).
  assert (Cv <> []) as HCne by (intros ->; simpl in LCv; lia).
  pose proof (bits_val_removelast Cv HCne) as ER. rewrite LCv in ER.
  unfold rows_sum in *. cbn [fold_right]. rewrite bits_val_cons. simpl Z.b2z.
  assert (2 ^ Z.of_nat (length ra) = 2 * 2 ^ Z.of_nat (length ra - 1)) as EP by (rewrite <- pow2_succ; f_equal; lia).
  rewrite EP in *. lia.
Qed.

Lemma wallace_loop_spec fresh N : (1 <= N)%nat -> forall fuel rows s rows' s',
  rows_of_width N rows -> run fresh (wallace_loop fuel rows) s = Ok (rows', s') ->
  ext (bc s) (bc s') /\ outputs (bc s') = outputs (bc s) /\ rows_of_width N rows' /\ length rows' = 2%nat /\
  forall c, ext (bc s') c -> noP c -> forall asg rowsv, cmvals c asg rows rowsv ->
    exists rowsv' K, cmvals c asg rows' rowsv' /\ rows_sum rowsv = rows_sum rowsv' + 2 ^ Z.of_nat N * K.
Proof.
  intros HN. induction fuel as [|f IH]; intros rows s rows' s' Hw H; cbn [wallace_loop] in H;
    destruct (length rows =? 2)%nat eqn:E2.
  1,3: apply run_ret_inv in H as (-> & ->); apply Nat.eqb_eq in E2;
       (split; [apply ext_refl|]); (split; [reflexivity|]); (split; [exact Hw|]); (split; [exact E2|]);
       intros c _ _ asg rowsv Hv; exists rowsv, 0; (split; [exact Hv|lia]).
  { discriminate. }
  apply run_bind_inv in H as (r & s1 & Hr & H).
  apply (wallace_round_spec fresh N HN (length rows)) in Hr as (X1 & O1 & W1 & V1); [|lia|exact Hw].
  apply IH in H as (X2 & O2 & W2 & L2 & V2); [|exact W1].
  split; [eapply ext_trans; eassumption|]. split; [congruence|]. split; [exact W2|]. split; [exact L2|].
  intros c Hc HP asg rowsv Hv. assert (ext (bc s1) c) as Hc1 by (eapply ext_trans; eassumption).
  destruct (V1 c Hc1 HP asg rowsv Hv) as (rv1 & K1 & Hrv1 & E1).
  destruct (V2 c Hc HP asg rv1 Hrv1) as (rv2 & K2 & Hrv2 & E2').
  exists rv2, (K1 + K2). split; [exact Hrv2|lia].
Qed.

(* ---- reading the two remaining rows ----------------------------------------------------------------------------------- *)
Lemma all_none_val c asg : forall r rv, all_none r = true -> cvals c asg r rv -> bits_val rv = 0.
Proof.
  induction r as [|[l|] r IH]; intros rv H Hv; inversion Hv as [|? v ? rv' Hv0 Hv']; subst; simpl in *;
    [reflexivity|discriminate|]. subst v. rewrite (IH _ H Hv'). reflexivity.
Qed.

Lemma trim_fill_val c asg z : forall r rv, cvals c asg r rv -> (has_gap r = true -> bval c asg z false) ->
  exists lv, bvals c asg (trim_fill z r) lv /\ bits_val rv = bits_val lv.
Proof.
  induction r as [|cl r IH]; intros rv Hv Hz.
  - inversion Hv; subst. exists []. split; [constructor|reflexivity].
  - cbn [trim_fill]. destruct (all_none (cl :: r)) eqn:E.
    + exists []. split; [constructor|]. rewrite (all_none_val _ _ _ _ E Hv). reflexivity.
    + inversion Hv as [|? v ? rv' Hv0 Hv']; subst. cbn [has_gap] in Hz. rewrite E in Hz.
      destruct cl as [l|].
      * destruct (IH _ Hv' Hz) as (lv & Hlv & El). exists (v :: lv). split; [constructor; assumption|].
        rewrite !bits_val_cons, El. reflexivity.
      * simpl in Hv0. subst v. destruct (IH _ Hv') as (lv & Hlv & El).
        { intros _. apply Hz. reflexivity. }
        exists (false :: lv). split; [constructor; [apply Hz; reflexivity|exact Hlv]|].
        rewrite !bits_val_cons, El. reflexivity.
Qed.

Lemma leading_none_val c asg : forall r rv, cvals c asg r rv ->
  cvals c asg (skipn (leading_none r) r) (skipn (leading_none r) rv) /\
  bits_val rv = 2 ^ Z.of_nat (leading_none r) * bits_val (skipn (leading_none r) rv).
Proof.
  induction r as [|[x|] r IH]; intros rv Hv.
  - inversion Hv; subst. split; [constructor|simpl; lia].
  - split; [exact Hv|]. simpl. change (Z.of_nat 0) with 0. rewrite Z.pow_0_r. lia.
  - inversion Hv as [|? v ? rv' Hv0 Hv']; subst. simpl in Hv0. subst v.
    destruct (IH _ Hv') as (H1 & H2). cbn [leading_none skipn]. split; [exact H1|].
    rewrite bits_val_cons, pow2_succ, H2. simpl. lia.
Qed.

Lemma wallace_final_spec fresh a r0 r1 s sh la lb s' :
  run fresh (wallace_final a r0 r1) s = Ok ((sh, la, lb), s') ->
  ext (bc s) (bc s') /\ outputs (bc s') = outputs (bc s) /\
  forall c, ext (bc s') c -> forall asg av r0v r1v, bvals c asg a av -> cvals c asg r0 r0v -> cvals c asg r1 r1v ->
    exists lav lbv, bvals c asg la lav /\ bvals c asg lb lbv /\
      bits_val r0v = bits_val lav /\ bits_val r1v = 2 ^ Z.of_nat sh * bits_val lbv.
Proof.
  unfold wallace_final. intros H. apply run_bind_inv in H as (z & s1 & Hz & H).
  apply run_ret_inv in H as (E & ->). injection E as -> -> ->.
  assert (ext (bc s) (bc s1) /\ outputs (bc s1) = outputs (bc s) /\
          forall c, ext (bc s1) c -> forall asg av, bvals c asg a av ->
            has_gap r0 || has_gap (skipn (leading_none r1) r1) = true -> bval c asg z false) as (X & O & Vz).
  { destruct (has_gap r0 || has_gap (skipn (leading_none r1) r1)) eqn:Eg.
    - apply run_bind_inv in Hz as (a0 & s0 & Ha0 & Hz). apply nthP_inv in Ha0 as (Ea0 & ->).
      pose proof (run_ext _ _ _ _ _ Hz) as X.
      apply run_bind_inv in Hz as (l0 & s2 & Hf & Hz). apply run_bind_inv in Hz as ([] & s3 & Hg & Hz).
      apply run_ret_inv in Hz as (-> & ->).
      assert (run fresh (gate_tt tt_false a0 a0) s = Ok (l0, s3)) as Hgt.
      { unfold gate_tt, gate_new. cbn [run]. cbn [run] in Hf. rewrite Hf. cbn [run] in Hg. rewrite Hg. reflexivity. }
      apply gate_tt_spec in Hgt as (_ & _ & _ & _ & G & O & _).
      split; [exact X|]. split; [exact O|].
      intros c Hc asg av Hav _.
      destruct (Forall2_nth_error _ _ _ _ _ Hav Ea0) as (v0 & _ & V0).
      assert (has_tt c l0 tt_false a0 a0) as Ht.
      { unfold has_tt. eapply ext_dget; [exact Hc|]. rewrite G, dget_app.
        destruct (dget (gates (bc s)) l0) eqn:Ed.
        - exfalso. apply run_fresh_inv in Hf as (_ & Hl & _). unfold has_gate, dmem in Hl. rewrite Ed in Hl. discriminate.
        - simpl. rewrite leqb_refl. reflexivity. }
      pose proof (has_tt_val _ _ _ _ _ asg _ _ Ht V0 V0) as Vz.
      replace (tt_fun tt_false v0 v0) with false in Vz by (destruct v0; reflexivity). exact Vz.
    - apply run_ret_inv in Hz as (-> & ->). split; [apply ext_refl|]. split; [reflexivity|]. intros; discriminate. }
  split; [exact X|]. split; [exact O|].
  intros c Hc asg av r0v r1v Hav H0 H1.
  destruct (trim_fill_val c asg z _ _ H0) as (lav & Hla & Ea).
  { intros Eg. apply (Vz c Hc asg av Hav). rewrite Eg. reflexivity. }
  destruct (leading_none_val _ _ _ _ H1) as (H1' & Eb).
  destruct (trim_fill_val c asg z _ _ H1') as (lbv & Hlb & Eb').
  { intros Eg. apply (Vz c Hc asg av Hav). rewrite Eg. apply orb_true_r. }
  exists lav, lbv. repeat split; [exact Hla|exact Hlb|exact Ea|]. rewrite Eb, Eb'. reflexivity.
Qed.

(* ---- the start matrix --------------------------------------------------------------------------------------------------- *)
Lemma cvals_app c asg a b av bv : cvals c asg a av -> cvals c asg b bv -> cvals c asg (a ++ b) (av ++ bv).
Proof. apply Forall2_app. Qed.

Lemma wallace_rows_spec c asg n : noP c -> forall cm cmv, mvals c asg cm cmv -> forall i m,
  Forall (fun row => length row = n) cm -> (i + length cm = m)%nat ->
  exists rowsv, cmvals c asg (wallace_rows i m cm) rowsv /\ rows_of_width (n + m) (wallace_rows i m cm) /\
    rows_sum rowsv = 2 ^ Z.of_nat i * mval cmv.
Proof.
  intros HP cm cmv Hv. induction Hv as [|row rv cm cmv' Hrow Hcm IH]; intros i m Hn Hm.
  - exists []. split; [constructor|]. split; [constructor|]. simpl. lia.
  - pose proof (Forall_inv Hn) as Ln. pose proof (Forall_inv_tail Hn) as Hn'. cbv beta in Ln. simpl in Hm.
    destruct (IH (S i) m Hn' ltac:(lia)) as (rowsv & Hrv & Hw & E).
    exists ((repeat false i ++ rv ++ repeat false (m - i)) :: rowsv). cbn [wallace_rows]. split; [|split].
    + constructor; [|exact Hrv]. apply cvals_app; [apply cvals_none|]. apply cvals_app; [|apply cvals_none].
      clear -Hrow HP. induction Hrow; simpl; constructor; [apply cell_of_val; assumption|assumption].
    + constructor; [|exact Hw]. rewrite !app_length, !repeat_length, map_length. lia.
    + unfold rows_sum in *. cbn [fold_right mval]. rewrite E.
      rewrite !bits_val_app, !bits_val_repeat_false, repeat_length, pow2_succ. lia.
Qed.

Lemma wallace_rows_width n : forall cm i m, Forall (fun row : list label => length row = n) cm ->
  (i + length cm = m)%nat -> rows_of_width (n + m) (wallace_rows i m cm).
Proof.
  induction cm as [|row cm IH]; intros i m F Hm; cbn [wallace_rows]; [constructor|].
  pose proof (Forall_inv F) as Ln. pose proof (Forall_inv_tail F) as F'. cbv beta in Ln. simpl in Hm.
  constructor; [rewrite !app_length, !repeat_length, map_length; lia|]. apply IH; [exact F'|lia].
Qed.

(* ---- reading single cells (the one-bit operand branches) ---------------------------------------------------------------- *)
Lemma mapP_pure fresh {A B} (f : A -> prog B) (P : A -> B -> Prop) : forall l,
  (forall a s x s', In a l -> run fresh (f a) s = Ok (x, s') -> s' = s /\ P a x) ->
  forall s out s', run fresh (mapP f l) s = Ok (out, s') -> s' = s /\ Forall2 P l out.
Proof.
  induction l as [|a l IH]; intros Hf s out s' H; cbn [mapP] in H.
  - apply run_ret_inv in H as (-> & ->). split; [reflexivity|constructor].
  - apply run_bind_inv in H as (x & s1 & Hx & H). apply run_bind_inv in H as (r & s2 & Hr & H).
    apply run_ret_inv in H as (-> & ->). apply Hf in Hx as (-> & Px); [|left; reflexivity].
    apply IH in Hr as (-> & F); [|intros; eapply Hf; [right|]; eassumption].
    split; [reflexivity|constructor; assumption].
Qed.

Lemma cell_at_spec fresh rows r col s l s' :
  run fresh (cell_at rows r col) s = Ok (l, s') ->
  s' = s /\ exists row cl, nth_error rows r = Some row /\ nth_error row col = Some cl /\ l = cell_label cl.
Proof.
  unfold cell_at. intros H. apply run_bind_inv in H as (row & s1 & Hrow & H). apply nthP_inv in Hrow as (Er & ->).
  apply run_bind_inv in H as (cl & s2 & Hcl & H). apply nthP_inv in Hcl as (Ec & ->).
  apply run_ret_inv in H as (-> & ->). split; [reflexivity|]. exists row, cl. auto.
Qed.

Lemma wallace_rows_nth : forall cm i0 m k row, nth_error cm k = Some row ->
  nth_error (wallace_rows i0 m cm) k
  = Some (repeat None (i0 + k) ++ map cell_of row ++ repeat None (m - (i0 + k))).
Proof.
  induction cm as [|r cm IH]; intros i0 m [|k] row H; simpl in H; try discriminate.
  - injection H as ->. simpl. rewrite Nat.add_0_r. reflexivity.
  - cbn [wallace_rows nth_error]. rewrite (IH (S i0) m k row H). replace (i0 + S k)%nat with (S i0 + k)%nat by lia. reflexivity.
Qed.

Lemma wallace_rows_length : forall cm i0 m, length (wallace_rows i0 m cm) = length cm.
Proof. induction cm as [|r cm IH]; intros; simpl; [reflexivity|]. rewrite IH. reflexivity. Qed.

Lemma wallace_rows_nth_inv cm i0 m k r' : nth_error (wallace_rows i0 m cm) k = Some r' ->
  exists row, nth_error cm k = Some row /\ r' = repeat None (i0 + k) ++ map cell_of row ++ repeat None (m - (i0 + k)).
Proof.
  intros H. assert (k < length cm)%nat as Hk.
  { rewrite <- (wallace_rows_length cm i0 m). apply nth_error_Some. congruence. }
  destruct (nth_error cm k) as [row|] eqn:E; [|apply nth_error_None in E; lia].
  exists row. split; [reflexivity|]. rewrite (wallace_rows_nth _ _ _ _ _ E) in H. congruence.
Qed.

Lemma nth_error_after_nones {A} k (l : list (option A)) j : nth_error (repeat None k ++ l) (k + j) = nth_error l j.
Proof. rewrite nth_error_app2; rewrite repeat_length; [|lia]. f_equal. lia. Qed.

Lemma nth_error_after_nones0 {A} k (l : list (option A)) : nth_error (repeat None k ++ l) k = nth_error l 0.
Proof. rewrite nth_error_app2; rewrite repeat_length; [|lia]. f_equal. lia. Qed.

Lemma Forall2_seq_skipn {A B} (Q : A -> B -> Prop) (l : list A) : forall k a out,
  Forall2 (fun i x => exists y, nth_error l i = Some y /\ Q y x) (seq a k) out -> (a + k = length l)%nat ->
  Forall2 Q (skipn a l) out.
Proof.
  induction k as [|k IH]; intros a out H Hl; cbn [seq] in H.
  - inversion H; subst. rewrite skipn_all2 by lia. constructor.
  - inversion H as [|? x ? out' (y & Ey & Qy) H']; subst.
    assert (skipn a l = y :: skipn (S a) l) as ->.
    { clear -Ey. revert a Ey. induction l as [|z l IHl]; intros [|a] E; simpl in *; try discriminate.
      - injection E as ->. reflexivity.
      - apply IHl, E. }
    constructor; [exact Qy|]. apply IH; [exact H'|lia].
Qed.

(* ---- add_mul_wallace ------------------------------------------------------------------------------------------------------ *)
Lemma bits_val_firstn_mod k v : exists K, bits_val v = bits_val (firstn k v) + 2 ^ Z.of_nat k * K.
Proof. destruct (bits_val_firstn k v) as (K & _ & E). exists K. exact E. Qed.

Theorem add_mul_wallace_correct fresh xs ys be s rs s' :
  run fresh (add_mul_wallace xs ys be) s = Ok (rs, s') ->
  ext (bc s) (bc s') /\ inputs (bc s') = inputs (bc s) /\ outputs (bc s') = outputs (bc s) /\
  (length rs <= mul_len (length xs) (length ys))%nat /\
  forall c, ext (bc s') c -> has_gate c PLACEHOLDER_STR = false ->
    forall asg xv yv, bvals c asg xs xv -> bvals c asg ys yv ->
    exists rv, bvals c asg rs rv /\ decode be rv = decode be xv * decode be yv.
Proof.
  intros H. pose proof (run_ext _ _ _ _ _ H) as Hx. unfold add_mul_wallace in H. rewrite !rev_if_length in H.
  apply run_bind_inv in H as (cm & s1 & Hpp & H).
  apply pp_matrix_spec in Hpp as (Hx1 & O1 & L1 & F1 & V1). rewrite rev_if_length in L1, F1.
  split; [exact Hx|]. split; [apply ext_inputs, Hx|]. unfold mul_len.
  set (n := length xs) in *. set (m := length ys) in *.
  set (rows := wallace_rows 0 m cm) in *.
  destruct (n =? 1)%nat eqn:En.
  { (* c[i][i] = the only product of row i *)
    apply Nat.eqb_eq in En. cbn [orb].
    apply run_bind_inv in H as (out & s2 & Ho & H). apply run_ret_inv in H as (-> & ->).
    apply (mapP_pure fresh _ (fun i x => exists row, nth_error cm i = Some row /\ hd_error row = Some x)) in Ho
      as (-> & Fo).
    2:{ intros i s0 x s0' _ H0. apply cell_at_spec in H0 as (-> & row' & cl & Er & Ec & ->). split; [reflexivity|].
        apply wallace_rows_nth_inv in Er as (row & Erow & ->). exists row. split; [exact Erow|].
        change (0 + i)%nat with i in Ec. unfold cell in Ec. rewrite nth_error_after_nones0 in Ec.
        assert (length row = 1%nat) as Lr.
        { rewrite Forall_forall in F1. rewrite <- En. apply F1. eapply nth_error_In, Erow. }
        destruct row as [|x0 [|? ?]]; simpl in Lr; try lia. simpl in Ec. injection Ec as <-.
        simpl. rewrite cell_label_of. reflexivity. }
    apply Forall2_seq_skipn in Fo; [|lia]. rewrite skipn_O in Fo.
    split; [exact O1|]. split; [rewrite rev_if_length, <- (Forall2_length _ _ _ Fo); lia|].
    intros c Hc _ asg xv yv Hxv Hyv.
    specialize (V1 c Hc asg _ _ (bvals_rev_if _ _ be _ _ Hxv) (bvals_rev_if _ _ be _ _ Hyv)).
    pose proof (heads_vals c asg _ _ _ Fo V1) as Vo.
    eexists. split; [apply bvals_rev_if, Vo|]. rewrite decode_rev_if.
    pose proof (bvals_length _ _ _ _ Hxv) as Lx. fold n in Lx. rewrite En in Lx.
    unfold decode. destruct (rev_if be xv) as [|a0 [|? ?]] eqn:Exv;
      try (apply (f_equal (@length bool)) in Exv; rewrite rev_if_length in Exv; simpl in Exv; lia).
    rewrite bits_val_single_col. simpl. lia. }
  destruct (m =? 1)%nat eqn:Em.
  { (* c[i][0] = the i-th product of the only row *)
    apply Nat.eqb_eq in Em. cbn [orb].
    apply run_bind_inv in H as (out & s2 & Ho & H). apply run_ret_inv in H as (-> & ->).
    destruct cm as [|r0 [|r1 cm']]; simpl in L1; try lia.
    pose proof (Forall_inv F1) as Lr0. cbv beta in Lr0.
    apply (mapP_pure fresh _ (fun i x => exists y, nth_error r0 i = Some y /\ y = x)) in Ho as (-> & Fo).
    2:{ intros i s0 x s0' Hin H0. apply cell_at_spec in H0 as (-> & row' & cl & Er & Ec & ->). split; [reflexivity|].
        simpl in Er. injection Er as <-. simpl app in Ec. apply in_seq in Hin.
        destruct (nth_error r0 i) as [y|] eqn:Ey; [|apply nth_error_None in Ey; lia].
        exists y. split; [reflexivity|]. rewrite nth_error_app1 in Ec by (rewrite map_length; lia).
        rewrite nth_error_map, Ey in Ec. simpl in Ec. injection Ec as <-. rewrite cell_label_of. reflexivity. }
    apply Forall2_seq_skipn in Fo; [|lia]. rewrite skipn_O in Fo.
    assert (out = r0) as -> by (clear -Fo; induction Fo as [|? ? ? ? <- _ IH]; [reflexivity|f_equal; exact IH]).
    split; [exact O1|]. split; [rewrite rev_if_length; lia|].
    intros c Hc _ asg xv yv Hxv Hyv.
    specialize (V1 c Hc asg _ _ (bvals_rev_if _ _ be _ _ Hxv) (bvals_rev_if _ _ be _ _ Hyv)).
    pose proof (bvals_length _ _ _ _ Hyv) as Ly. fold m in Ly. rewrite Em in Ly.
    unfold decode. destruct (rev_if be yv) as [|b0 [|? ?]] eqn:Eyv;
      try (apply (f_equal (@length bool)) in Eyv; rewrite rev_if_length in Eyv; simpl in Eyv; lia).
    simpl in V1. inversion V1 as [|? ? ? ? Hr0 _]; subst.
    eexists. split; [apply bvals_rev_if, Hr0|]. rewrite rev_if_involutive, bits_val_and_row. simpl. lia. }
  (* the general case *)
  cbn [orb]. destruct (n + m =? 0)%nat eqn:E0; [discriminate|].
  apply run_bind_inv in H as (rows' & s2 & Hloop & H).
  assert (1 <= n + m)%nat as HN by (apply Nat.eqb_neq in E0; lia).
  assert (rows_of_width (n + m) rows /\
          forall c, noP c -> forall asg xv yv, bvals c asg xs xv -> bvals c asg ys yv -> ext (bc s1) c ->
            exists rowsv, cmvals c asg rows rowsv /\ rows_sum rowsv = decode be xv * decode be yv) as (Wrows & Vrows).
  { split.
    - apply (wallace_rows_width n); [exact F1|lia].
    - intros c HP asg xv yv Hxv Hyv Hc.
      specialize (V1 c Hc asg _ _ (bvals_rev_if _ _ be _ _ Hxv) (bvals_rev_if _ _ be _ _ Hyv)).
      destruct (wallace_rows_spec c asg n HP _ _ V1 0%nat m F1 ltac:(lia)) as (rowsv & Hrv & _ & E).
      exists rowsv. split; [exact Hrv|]. rewrite E, mval_pp. change (Z.of_nat 0) with 0. rewrite Z.pow_0_r. unfold decode. lia. }
  apply (wallace_loop_spec fresh (n + m) HN) in Hloop as (X2 & O2 & W2 & L2 & V2); [|exact Wrows].
  destruct rows' as [|r0 [|r1 [|? ?]]]; try discriminate.
  apply run_bind_inv in H as ([[sh la] lb] & s3 & Hf & H).
  apply wallace_final_spec in Hf as (Xf & Of & Vf).
  apply run_bind_inv in H as (r & s4 & Hr & H). apply run_ret_inv in H as (-> & ->).
  apply add_sum_two_numbers_with_shift_correct in Hr as (X3 & _ & O3 & V3).
  split; [congruence|]. split; [rewrite rev_if_length, firstn_length; lia|].
  intros c Hc HP asg xv yv Hxv Hyv.
  assert (ext (bc s3) c) as Hc3 by (eapply ext_trans; eassumption).
  assert (ext (bc s2) c) as Hc2 by (eapply ext_trans; eassumption).
  assert (ext (bc s1) c) as Hc1 by (eapply ext_trans; eassumption).
  destruct (Vrows c HP asg xv yv Hxv Hyv Hc1) as (rowsv & Hrowsv & Erows).
  destruct (V2 c Hc2 HP asg rowsv Hrowsv) as (rv2 & K & Hrv2 & E2).
  inversion Hrv2 as [|? r0v ? rest Hr0 Hrest]; subst. inversion Hrest as [|? r1v ? rest' Hr1 Hnil]; subst.
  inversion Hnil; subst.
  destruct (Vf c Hc3 asg _ r0v r1v (bvals_rev_if _ _ be _ _ Hxv) Hr0 Hr1) as (lav & lbv & Hla & Hlb & Ea & Eb).
  destruct (V3 c Hc asg lav lbv Hla Hlb) as (rv & Hrv & Er). unfold decode, rev_if in Er.
  exists (rev_if be (firstn (n + m) rv)). split; [apply bvals_rev_if, bvals_firstn, Hrv|].
  rewrite decode_rev_if.
  destruct (bits_val_firstn_mod (n + m) rv) as (K2 & EK2).
  pose proof (bits_val_range (firstn (n + m) rv)) as Hrange.
  assert (bits_val (firstn (n + m) rv) < 2 ^ Z.of_nat (n + m)) as Hlt.
  { destruct Hrange as (_ & Hr2). eapply Z.lt_le_trans; [exact Hr2|].
    apply Z.pow_le_mono_r; [lia|]. rewrite firstn_length. lia. }
  pose proof (bvals_length _ _ _ _ Hxv) as Lxv. pose proof (bvals_length _ _ _ _ Hyv) as Lyv.
  pose proof (product_bound (rev_if be xv) (rev_if be yv)) as Hb. rewrite !rev_if_length, <- Lxv, <- Lyv in Hb.
  fold n m in Hb. unfold decode in *.
  eapply (congruent_small (n + m) _ _ (K + K2)); [lia|exact Hb|].
  unfold rows_sum in *. simpl fold_right in *. lia.
Qed.
