(* C01 (b): the remaining evaluation entry points characterised by the semantics Eval:
   zip_inputs (the assignment built from a positional value vector), evaluate_circuit_outputs,
   evaluate, evaluate_at.  All are total on well-formed circuits with accepted arities. *)
Require Import Cirbo.Model.Base Cirbo.Model.Gate Cirbo.Model.Den Cirbo.Model.Circuit
        Cirbo.Model.Traverse Cirbo.Model.Eval Cirbo.Model.Sem Cirbo.Model.WF.
Require Import Cirbo.Generated.Operators Cirbo.Generated.GateTypes.
Require Import Cirbo.Proofs.DictFacts Cirbo.Proofs.OpFacts Cirbo.Proofs.SemFacts
        Cirbo.Proofs.EvalFacts Cirbo.Proofs.TopSortWF Cirbo.Proofs.EvalComplete
        Cirbo.Proofs.EvalStack.

(* ---------------- zip_inputs ---------------- *)
Lemma dset_new {V} (d : dict V) k v : dmem d k = false -> dset d k v = d ++ [(k, v)].
Proof.
  unfold dmem. induction d as [|[k' v'] d IH]; simpl; [reflexivity|].
  destruct (leqb k k'); [discriminate|]. intros H. rewrite IH by exact H. reflexivity.
Qed.

Lemma zip_inputs_short ins : forall vals acc,
  length vals < length ins -> zip_inputs ins vals acc = Err PyIndexError.
Proof.
  induction ins as [|i ins IH]; intros vals acc H; simpl in *; [lia|].
  destruct vals as [|v vals]; [reflexivity|]. apply IH. simpl in H. lia.
Qed.

Lemma zip_inputs_ok ins : forall vals acc,
  length ins <= length vals -> exists a, zip_inputs ins vals acc = Ok a.
Proof.
  induction ins as [|i ins IH]; intros vals acc H; simpl in *; [eauto|].
  destruct vals as [|v vals]; simpl in H; [lia|]. apply IH. lia.
Qed.

(* general description (inputs may repeat): keys, and where every value comes from *)
Lemma zip_inputs_mem ins : forall vals acc a, zip_inputs ins vals acc = Ok a ->
  forall l, dmem a l = dmem acc l || memb l ins.
Proof.
  induction ins as [|i ins IH]; intros vals acc a H l; simpl in *.
  - injection H as <-. rewrite orb_false_r. reflexivity.
  - destruct vals as [|v vals]; [discriminate|]. rewrite (IH _ _ _ H l), dmem_dset.
    destruct (leqb l i), (dmem acc l); reflexivity.
Qed.

Lemma zip_inputs_val ins : forall vals acc a, zip_inputs ins vals acc = Ok a ->
  forall l v, dget a l = Some v ->
    (dget acc l = Some v /\ ~ In l ins) \/
    exists i, nth_error ins i = Some l /\ nth_error vals i = Some v.
Proof.
  induction ins as [|i ins IH]; intros vals acc a H l v Hv; simpl in *.
  - injection H as <-. left. tauto.
  - destruct vals as [|x vals]; [discriminate|].
    destruct (IH _ _ _ H l v Hv) as [[Hd Hn]|(k & Hk1 & Hk2)].
    + rewrite dget_dset in Hd. destruct (leqb_spec l i) as [->|Hne].
      * injection Hd as <-. right. exists 0. split; reflexivity.
      * left. split; [exact Hd|]. intros [E|E]; [congruence|contradiction].
    + right. exists (S k). split; assumption.
Qed.

(* duplicate-free inputs (the well-formed case): the assignment is the association list
   combine inputs vals, appended to the accumulator *)
Lemma zip_inputs_combine ins : forall vals acc,
  NoDup ins -> (forall i, In i ins -> dmem acc i = false) -> length ins <= length vals ->
  zip_inputs ins vals acc = Ok (acc ++ combine ins vals).
Proof.
  induction ins as [|i ins IH]; intros vals acc Hnd Hacc Hlen; simpl in *.
  - rewrite app_nil_r. reflexivity.
  - destruct vals as [|v vals]; simpl in Hlen; [lia|]. inversion Hnd as [|? ? Hni Hnd']; subst.
    rewrite dset_new by (apply Hacc; left; reflexivity).
    rewrite IH; [rewrite <- app_assoc; reflexivity|exact Hnd'| |lia].
    intros j Hj. unfold dmem. rewrite dget_app. specialize (Hacc j (or_intror Hj)). unfold dmem in Hacc.
    destruct (dget acc j); [discriminate|]. simpl.
    destruct (leqb_spec j i) as [->|]; [contradiction|reflexivity].
Qed.

Definition vec_assignment (c : circuit) (vals : list st) : assignment := combine (inputs c) vals.

Lemma zip_inputs_wf c vals : WF c -> length (inputs c) <= length vals ->
  zip_inputs (inputs c) vals [] = Ok (vec_assignment c vals).
Proof.
  intros Hwf Hlen. rewrite zip_inputs_combine; [reflexivity|apply (wf_inputs_nodup c Hwf)| |exact Hlen].
  intros; reflexivity.
Qed.

Lemma dget_combine_In {V} ins (vals : list V) l v : dget (combine ins vals) l = Some v -> In l ins.
Proof. intros H. apply dget_In in H. eapply in_combine_l; eauto. Qed.

(* the value of the i-th input is the i-th value *)
Lemma dget_combine_nth {V} ins : forall (vals : list V) i l,
  NoDup ins -> nth_error ins i = Some l -> dget (combine ins vals) l = nth_error vals i.
Proof.
  induction ins as [|x ins IH]; intros vals i l Hnd Hi; [destruct i; discriminate|].
  inversion Hnd as [|? ? Hnx Hnd']; subst.
  destruct vals as [|v vals]; simpl; [destruct i; reflexivity|].
  destruct i as [|i]; simpl in *.
  - injection Hi as ->. rewrite leqb_refl. reflexivity.
  - destruct (leqb_spec l x) as [->|Hne]; [exfalso; apply Hnx; eapply nth_error_In; eauto|].
    apply IH; assumption.
Qed.

Lemma vec_assignment_nth c vals i l : WF c ->
  nth_error (inputs c) i = Some l -> dget (vec_assignment c vals) l = nth_error vals i.
Proof. intros Hwf. apply dget_combine_nth. apply (wf_inputs_nodup c Hwf). Qed.

Lemma vec_assignment_inputs_only c vals : assigns_inputs_only c (vec_assignment c vals).
Proof.
  intros l Hl. unfold dmem in Hl. destruct (dget (vec_assignment c vals) l) eqn:E; [|discriminate].
  eapply dget_combine_In; eauto.
Qed.

Lemma vec_assignment_keys c vals : length (inputs c) <= length vals ->
  dkeys (vec_assignment c vals) = inputs c.
Proof.
  unfold vec_assignment, dkeys. generalize (inputs c). intros ins; revert vals.
  induction ins as [|x ins IH]; intros vals H; simpl; [reflexivity|].
  destruct vals as [|v vals]; simpl in *; [lia|]. rewrite IH by lia. reflexivity.
Qed.

(* a Boolean vector gives a total assignment *)
Lemma vec_assignment_total c bs : WF c -> length (inputs c) <= length bs ->
  total_on c (vec_assignment c (map inj bs)).
Proof.
  intros Hwf Hlen l g Hg Ht. assert (In l (inputs c)) as Hl by (apply (wf_inputs c Hwf); eauto).
  apply In_nth_error in Hl. destruct Hl as [i Hi]. unfold aval.
  rewrite (vec_assignment_nth c _ i l Hwf Hi).
  assert (i < length (map inj bs)) as Hlt.
  { rewrite map_length. assert (i < length (inputs c)) by (apply nth_error_Some; congruence). lia. }
  destruct (nth_error (map inj bs) i) as [v|] eqn:E; [|apply nth_error_None in E; lia].
  apply nth_error_In, in_map_iff in E. destruct E as (b & <- & _). destruct b; discriminate.
Qed.

(* ---------------- evaluate_circuit_outputs ---------------- *)
Definition pick_step (d : assignment) (acc : assignment) (o : label) : res assignment :=
  match dget d o with Some v => Ok (dset acc o v) | None => Err PyKeyError end.

Lemma pick_loop (d : assignment) outs : forall acc,
  (forall o, In o outs -> dmem d o = true) ->
  exists r, foldM (pick_step d) outs acc = Ok r /\
            forall l, dget r l = if memb l outs then dget d l else dget acc l.
Proof.
  induction outs as [|o outs IH]; intros acc H; simpl; [eauto|].
  assert (Ho := H o (or_introl eq_refl)). unfold pick_step at 1. unfold dmem in Ho.
  destruct (dget d o) as [v|] eqn:E; [|discriminate]. simpl.
  destruct (IH (dset acc o v)) as (r & Hr & Hget); [intros; apply H; right; assumption|].
  exists r. split; [exact Hr|]. intros l. rewrite Hget, dget_dset.
  destruct (leqb_spec l o) as [->|]; [rewrite E; destruct (memb o outs); reflexivity|reflexivity].
Qed.

Theorem evaluate_circuit_outputs_complete c a : WF c -> arity_ok c -> assigns_inputs_only c a ->
  exists r, evaluate_circuit_outputs c a = Ok r /\
    (forall o, In o (outputs c) -> exists v, dget r o = Some v /\ Eval c a o v) /\
    (forall l, dmem r l = true -> In l (outputs c)).
Proof.
  intros Hwf Har Ha.
  destruct (evaluate_circuit_complete c a None Hwf Har Ha) as (d & Hd & Houts & _ & _).
  { intros o Ho. apply (wf_outs c Hwf); exact Ho. }
  simpl in Houts. unfold evaluate_circuit_outputs. rewrite Hd. simpl.
  destruct (pick_loop d (outputs c) []) as (r & Hr & Hget).
  { intros o Ho. destruct (Houts o Ho) as (v & Hv & _). unfold dmem. rewrite Hv. reflexivity. }
  exists r. split; [exact Hr|]. split.
  - intros o Ho. destruct (Houts o Ho) as (v & Hv & He). exists v. split; [|exact He].
    rewrite Hget. apply memb_In in Ho. rewrite Ho. exact Hv.
  - intros l Hl. unfold dmem in Hl. rewrite Hget in Hl.
    destruct (memb l (outputs c)) eqn:E; [apply memb_In; exact E|discriminate].
Qed.

(* partial correctness without the arity hypothesis *)
Theorem evaluate_circuit_outputs_sound c a r : WF c -> assigns_inputs_only c a ->
  evaluate_circuit_outputs c a = Ok r ->
  forall l v, dget r l = Some v -> In l (outputs c) /\ Eval c a l v.
Proof.
  intros Hwf Ha. unfold evaluate_circuit_outputs.
  destruct (evaluate_circuit c a None) as [d|] eqn:Ed; simpl; [|discriminate]. intros Hr.
  destruct (evaluate_circuit_sound _ c a None d (WF_inputs_are_input_gates c Hwf) Ha Ed) as [_ H2].
  simpl in H2.
  assert (forall outs acc r, (forall o, In o outs -> In o (outputs c)) ->
            foldM (pick_step d) outs acc = Ok r ->
            (forall l v, dget acc l = Some v -> In l (outputs c) /\ Eval c a l v) ->
            forall l v, dget r l = Some v -> In l (outputs c) /\ Eval c a l v) as Hloop.
  { induction outs as [|o outs IH]; intros acc r0 Hsub; simpl; [intros [= <-]; auto|].
    unfold pick_step at 1. destruct (dget d o) as [v|] eqn:E; simpl; [|discriminate].
    intros Hf Hacc. eapply IH; [intros; apply Hsub; right; assumption|exact Hf|].
    intros l v'. rewrite dget_dset. destruct (leqb_spec l o) as [->|]; [|apply Hacc].
    intros [= <-]. assert (Ho : In o (outputs c)) by (apply Hsub; left; reflexivity).
    split; [exact Ho|]. destruct (H2 o Ho) as (v' & Hv' & He). congruence. }
  eapply Hloop; [intros o Ho; exact Ho|exact Hr|]. intros l v; simpl; discriminate.
Qed.

(* ---------------- evaluate ---------------- *)
Lemma mapM_ok_ex {A B} (f : A -> res B) (P : A -> B -> Prop) l :
  (forall x, In x l -> exists y, f x = Ok y /\ P x y) ->
  exists ys, mapM f l = Ok ys /\ Forall2 P l ys.
Proof.
  induction l as [|x l IH]; intros H; simpl; [exists []; split; [reflexivity|constructor]|].
  destruct (H x (or_introl eq_refl)) as (y & Hy & HP). rewrite Hy. simpl.
  destruct IH as (ys & Hys & HF); [intros; apply H; right; assumption|].
  rewrite Hys. simpl. exists (y :: ys). split; [reflexivity|constructor; assumption].
Qed.

Theorem evaluate_complete c vals : WF c -> arity_ok c -> length (inputs c) <= length vals ->
  exists vs, evaluate c vals = Ok vs /\ Forall2 (Eval c (vec_assignment c vals)) (outputs c) vs.
Proof.
  intros Hwf Har Hlen. unfold evaluate. rewrite (zip_inputs_wf c vals Hwf Hlen). simpl.
  destruct (evaluate_circuit_outputs_complete c _ Hwf Har (vec_assignment_inputs_only c vals))
    as (r & Hr & Houts & _).
  rewrite Hr. simpl. apply mapM_ok_ex. intros o Ho. destruct (Houts o Ho) as (v & Hv & He).
  exists v. rewrite Hv. auto.
Qed.

Theorem evaluate_short c vals : length vals < length (inputs c) -> evaluate c vals = Err PyIndexError.
Proof. intros H. unfold evaluate. rewrite zip_inputs_short by exact H. reflexivity. Qed.

Theorem evaluate_sound c vals vs : WF c -> evaluate c vals = Ok vs ->
  length (inputs c) <= length vals /\ Forall2 (Eval c (vec_assignment c vals)) (outputs c) vs.
Proof.
  intros Hwf H. assert (Hlen : length (inputs c) <= length vals).
  { destruct (le_lt_dec (length (inputs c)) (length vals)) as [Hl|Hl]; [exact Hl|].
    rewrite (evaluate_short c vals Hl) in H. discriminate. }
  split; [exact Hlen|]. unfold evaluate in H. rewrite (zip_inputs_wf c vals Hwf Hlen) in H. simpl in H.
  destruct (evaluate_circuit_outputs c _) as [r|] eqn:Er; simpl in H; [|discriminate].
  pose proof (evaluate_circuit_outputs_sound c _ r Hwf (vec_assignment_inputs_only c vals) Er) as Hs.
  assert (Hs' : forall l v, dget r l = Some v -> Eval c (vec_assignment c vals) l v) by (intros l v Hl; apply (Hs l v Hl)).
  apply mapM_ok_Forall2 in H. clear Er Hs. induction H as [|o v os vs0 Hov _ IH]; constructor; [|exact IH].
  destruct (dget r o) as [v'|] eqn:E; [|discriminate]. injection Hov as <-. apply (Hs' o v' E).
Qed.

(* ---------------- evaluate_at ---------------- *)
Theorem evaluate_at_complete c vals i o : WF c -> arity_ok c -> length (inputs c) <= length vals ->
  nth_error (outputs c) i = Some o ->
  exists v, evaluate_at c vals i = Ok v /\ Eval c (vec_assignment c vals) o v.
Proof.
  intros Hwf Har Hlen Ho. unfold evaluate_at, output_at_index.
  rewrite (zip_inputs_wf c vals Hwf Hlen), Ho. simpl.
  destruct (evaluate_circuit_complete c (vec_assignment c vals) (Some [o]) Hwf Har
              (vec_assignment_inputs_only c vals)) as (d & Hd & Houts & _ & _).
  { intros x [<-|[]]. apply (wf_outs c Hwf). eapply nth_error_In; eauto. }
  rewrite Hd. simpl. destruct (Houts o (or_introl eq_refl)) as (v & Hv & He).
  rewrite Hv. eauto.
Qed.

Theorem evaluate_at_out_of_range c vals i : WF c -> length (inputs c) <= length vals ->
  nth_error (outputs c) i = None -> evaluate_at c vals i = Err GateDoesntExistError.
Proof.
  intros Hwf Hlen Ho. unfold evaluate_at, output_at_index.
  rewrite (zip_inputs_wf c vals Hwf Hlen), Ho. reflexivity.
Qed.

(* evaluate_at is the i-th component of evaluate *)
Corollary evaluate_at_nth c vals i o : WF c -> arity_ok c -> length (inputs c) <= length vals ->
  nth_error (outputs c) i = Some o ->
  exists vs v, evaluate c vals = Ok vs /\ evaluate_at c vals i = Ok v /\ nth_error vs i = Some v.
Proof.
  intros Hwf Har Hlen Ho. destruct (evaluate_complete c vals Hwf Har Hlen) as (vs & Hvs & HF).
  destruct (evaluate_at_complete c vals i o Hwf Har Hlen Ho) as (v & Hv & He).
  exists vs, v. split; [exact Hvs|]. split; [exact Hv|].
  clear Hvs Hv. revert i Ho. induction HF as [|x y xs ys Hxy _ IH]; intros i Ho; [destruct i; discriminate|].
  destruct i as [|i]; simpl in *.
  - injection Ho as ->. f_equal. eapply Eval_functional; eassumption.
  - apply IH; exact Ho.
Qed.

(* ---------------- all entry points return the same values ---------------- *)
Theorem entry_points_agree c a : WF c -> arity_ok c -> assigns_inputs_only c a ->
  exists dfull dstack r,
    evaluate_full_circuit c a = Ok dfull /\ evaluate_circuit c a None = Ok dstack /\
    evaluate_circuit_outputs c a = Ok r /\
    forall o, In o (outputs c) ->
      exists v, dget dfull o = Some v /\ dget dstack o = Some v /\ dget r o = Some v /\ Eval c a o v.
Proof.
  intros Hwf Har Ha.
  destruct (evaluate_full_circuit_complete c a Hwf Har Ha) as (dfull & Hf & Hfull).
  destruct (evaluate_circuit_complete c a None Hwf Har Ha) as (dstack & Hs & Hstack & _ & _).
  { intros o Ho. apply (wf_outs c Hwf); exact Ho. }
  destruct (evaluate_circuit_outputs_complete c a Hwf Har Ha) as (r & Hr & Hout & _).
  exists dfull, dstack, r. repeat (split; [assumption|]). intros o Ho.
  destruct (Hfull o (wf_outs c Hwf o Ho)) as (v & Hv & He).
  destruct (Hstack o Ho) as (v2 & Hv2 & He2). destruct (Hout o Ho) as (v3 & Hv3 & He3).
  rewrite (Eval_functional _ _ _ _ _ He2 He) in Hv2. rewrite (Eval_functional _ _ _ _ _ He3 He) in Hv3.
  exists v. auto.
Qed.

(* evaluate / evaluate_at are the positional readings of the same values *)
Theorem evaluate_agrees_with_full c vals : WF c -> arity_ok c -> length (inputs c) <= length vals ->
  exists dfull vs, evaluate_full_circuit c (vec_assignment c vals) = Ok dfull /\ evaluate c vals = Ok vs /\
    Forall2 (fun o v => dget dfull o = Some v) (outputs c) vs.
Proof.
  intros Hwf Har Hlen.
  destruct (evaluate_full_circuit_complete c _ Hwf Har (vec_assignment_inputs_only c vals)) as (dfull & Hf & Hfull).
  destruct (evaluate_complete c vals Hwf Har Hlen) as (vs & Hvs & HF).
  exists dfull, vs. split; [exact Hf|]. split; [exact Hvs|].
  assert (Hsub : forall o, In o (outputs c) -> has_gate c o = true) by (apply (wf_outs c Hwf)).
  clear Hvs. induction HF as [|o v os vs0 Hov _ IH]; constructor.
  - destruct (Hfull o (Hsub o (or_introl eq_refl))) as (v' & Hv' & He').
    rewrite (Eval_functional _ _ _ _ _ Hov He'). exact Hv'.
  - apply IH. intros x Hx. apply Hsub. right. exact Hx.
Qed.
